import FqModel.Container
/-!
  C15 — png chunk bodies, the IDAT stream, and zlib (RFC 1950) framing.

  * fq has NO zlib decoder of its own: `format/png/png.go:131,146` hands the framed bytes of a zTXt / iCCP chunk to Go's
    `compress/zlib.NewReader` (through `FieldFormatReaderLen`, `pkg/decode/decode.go:1224-1242`), and IDAT chunks are not
    inflated at all (png.go:225-231, default branch: `data` raw).  So the zlib framing model below is a transliteration
    of the LIBRARY reader that sits on fq's data path (`$GOROOT/src/compress/zlib/reader.go:93-121` Read, `:133-178` Reset;
    go 1.23), with `inflate` (compress/flate) as a parameter; every error of that reader becomes a decode error of fq
    (`d.IOPanic`, decode.go:1231-1238) — there is no `valid`/`invalid` flag for the Adler-32.
  * chunk bodies that `png.go` decodes inside the framed chunk data and that the image writers emit: IHDR (png.go:104-118),
    PLTE (:199-209), tRNS (:210-224, depends on the colour type remembered from IHDR, png.go:86,108), IDAT / unknown
    types (:229 raw `data`), IEND (:227).  Bytes the body does not consume are skipped by `FramedFn` (decode.go:963-970).
-/
namespace FqModel.Container

/-! ## zlib framing -/

inductive ZErr
  | eof        -- io.ErrUnexpectedEOF (header, dictionary id or trailer cut short)
  | header     -- zlib.ErrHeader
  | dict       -- zlib.ErrDictionary
  | inflate    -- any error of the flate decompressor
  | checksum   -- zlib.ErrChecksum
deriving Repr, DecidableEq

inductive ZRes (α : Type)
  | ok (a : α)
  | error (e : ZErr)
deriving Repr, DecidableEq

structure ZlibHdr where
  cm : Nat          -- CMF bits 0-3
  cinfo : Nat       -- CMF bits 4-7
  fcheck : Nat      -- FLG bits 0-4
  fdict : Bool      -- FLG bit 5
  flevel : Nat      -- FLG bits 6-7
deriving Repr, DecidableEq

/-- reader.go:148-153: the two header bytes; `ErrHeader` unless CM = 8, CINFO <= 7 and the 16 bit big endian value is a
    multiple of 31 -/
def zlibHdr2 (cmf flg : UInt8) : ZRes ZlibHdr :=
  if cmf.toNat % 16 ≠ 8 ∨ cmf.toNat / 16 > 7 ∨ (cmf.toNat * 256 + flg.toNat) % 31 ≠ 0 then .error .header
  else .ok { cm := cmf.toNat % 16, cinfo := cmf.toNat / 16, fcheck := flg.toNat % 32, fdict := flg.toNat.testBit 5, flevel := flg.toNat / 64 }

structure ZlibOk where
  hdr : ZlibHdr
  dictid : Option Nat
  clen : Nat          -- bytes of the deflate stream
  data : Bytes        -- decompressed
  adler : Nat         -- stored trailer
deriving Repr, DecidableEq

/-- `zlib.NewReader(r)` followed by `io.ReadAll` (what `FieldFormatReaderLen` does).  `inflate` = compress/flate on the bytes
    from the current position: (bytes consumed, output) or `none` for any flate error.  The reader has no preset dictionary
    (`NewReaderDict(r, nil)`), so a stream with FDICT is accepted exactly when its DICTID is `adler32.Checksum(nil)` = 1
    (reader.go:164: the quirk is kept).  Bytes after the trailer are left unread (`rest`). -/
def parseZlib (inflate : Bytes → Option (Nat × Bytes)) (bs : Bytes) : ZRes (ZlibOk × Bytes) :=
  match bs with
  | cmf :: flg :: bs =>
    match zlibHdr2 cmf flg with
    | .error e => .error e
    | .ok h =>
      let cont (dictid : Option Nat) (bs : Bytes) : ZRes (ZlibOk × Bytes) :=
        match inflate bs with
        | none => .error .inflate
        | some (clen, data) =>
          match takeN clen bs with
          | none => .error .inflate
          | some (_, bs) =>
            match takeN 4 bs with
            | none => .error .eof                                   -- reader.go:106-112
            | some (a, rest) =>
              if beNat a ≠ adler32 data then .error .checksum       -- reader.go:115-118
              else .ok ({ hdr := h, dictid, clen, data, adler := beNat a }, rest)
      if h.fdict then
        match takeN 4 bs with
        | none => .error .eof                                       -- reader.go:156-161
        | some (d, bs) => if beNat d ≠ adler32 [] then .error .dict else cont (some (beNat d)) bs
      else cont none bs
  | _ => .error .eof                                                -- reader.go:141-146

/-- FCHECK as RFC 1950 2.2 defines it: the value that makes CMF*256+FLG a multiple of 31 -/
def zlibFcheck (cmf flgHi : Nat) : Nat := (31 - (cmf * 256 + flgHi) % 31) % 31

def zlibCmf (cinfo : Nat) : Nat := cinfo * 16 + 8
def zlibFlgHi (flevel : Nat) (fdict : Bool) : Nat := flevel * 64 + (if fdict then 32 else 0)

/-- header a zlib writer emits: deflate, window 2^(cinfo+8), compression level class `flevel`, optional DICTID -/
def writeZlibHeader (cinfo flevel : Nat) (dictid : Option Nat) : Bytes :=
  let cmf := zlibCmf cinfo
  let hi := zlibFlgHi flevel dictid.isSome
  [UInt8.ofNat cmf, UInt8.ofNat (hi + zlibFcheck cmf hi)] ++ (match dictid with | some d => toBE 4 d | none => [])

/-- a whole stream: header, deflate bytes `z` (of `data`), Adler-32 of the uncompressed data, big endian -/
def writeZlib (cinfo flevel : Nat) (dictid : Option Nat) (z data : Bytes) : Bytes :=
  writeZlibHeader cinfo flevel dictid ++ (z ++ toBE 4 (adler32 data))

/-! ## png chunk bodies -/

def tPLTE : Bytes := [0x50, 0x4c, 0x54, 0x45]
def tTRNS : Bytes := [0x74, 0x52, 0x4e, 0x53]
def tIDAT : Bytes := [0x49, 0x44, 0x41, 0x54]

/-- chunk types with a decoder of their own in png.go's switch that is not modelled here (text chunks and pHYs are handled by
    the driver; the others are not written by the generators) -/
def pngSwitchTypes : List Bytes :=
  [[0x74,0x45,0x58,0x74], [0x7a,0x54,0x58,0x74], [0x69,0x43,0x43,0x50], [0x70,0x48,0x59,0x73], [0x62,0x4b,0x47,0x44], [0x67,0x41,0x4d,0x41],
   [0x63,0x48,0x52,0x4d], [0x65,0x58,0x49,0x66], [0x61,0x63,0x54,0x4c], [0x66,0x63,0x54,0x4c], [0x66,0x64,0x41,0x54]]

inductive PngBody
  | ihdr (i : Ihdr)
  | plte (cols : List (UInt8 × UInt8 × UInt8))
  | trnsGray (alpha : Nat)
  | trnsRgb (r g b : Nat)
  | trnsPal (alphas : Bytes)
  | trnsNone                         -- colour type 4 / 6 / anything else: nothing is decoded
  | iend
  | raw (d : Bytes)                  -- default branch: `data` = the whole chunk data (IDAT and unknown types)
  | unmodelled
deriving Repr, DecidableEq

/-- png.go:199-209: `for !d.End() { r; g; b }` inside the framed chunk data; a length that is not a multiple of 3 reads past
    the frame = decode error -/
def parsePlte : Bytes → Option (List (UInt8 × UInt8 × UInt8))
  | [] => some []
  | r :: g :: b :: rest => (parsePlte rest).map ((r, g, b) :: ·)
  | _ => none

/-- body of one chunk given the colour type seen so far (0 before any IHDR: `var colorType uint64`) -/
def pngBody (ct : Nat) (typ data : Bytes) : Option PngBody :=
  if typ = tIHDR then (parseIHDR data).map .ihdr
  else if typ = tPLTE then (parsePlte data).map .plte
  else if typ = tTRNS then
    if ct = 0 then (takeN 2 data).map (fun p => .trnsGray (beNat p.1))
    else if ct = 2 then do
      let (r, d) ← takeN 2 data
      let (g, d) ← takeN 2 d
      let (b, _) ← takeN 2 d
      pure (.trnsRgb (beNat r) (beNat g) (beNat b))
    else if ct = 3 then some (.trnsPal data)
    else some .trnsNone
  else if typ = tIEND then some .iend
  else if pngSwitchTypes.contains typ then some .unmodelled
  else some (.raw data)

/-- bodies of a chunk sequence, the colour type threaded from IHDR (png.go:86,108); `none` = a body failed -/
def pngBodies : Nat → List PngChunk → Option (List PngBody)
  | _, [] => some []
  | ct, c :: cs =>
    match pngBody ct c.typ c.data with
    | none => none
    | some b =>
      let ct' := match b with
        | .ihdr i => i.colorType
        | _ => ct
      (pngBodies ct' cs).map (b :: ·)

/-- what an image reader inflates: the `data` of all IDAT chunks, in file order (fq shows each piece raw) -/
def idatStream (cs : List PngChunk) : Bytes := (cs.filter (fun c => c.typ = tIDAT)).flatMap (·.data)

/-! writers -/

def writeIHDR (i : Ihdr) : Bytes :=
  toBE 4 i.width ++ toBE 4 i.height ++ [UInt8.ofNat i.bitDepth, UInt8.ofNat i.colorType, UInt8.ofNat i.compression,
    UInt8.ofNat i.filter, UInt8.ofNat i.interlace]

def writePlte (cols : List (UInt8 × UInt8 × UInt8)) : Bytes := cols.flatMap (fun c => [c.1, c.2.1, c.2.2])

/-- the (colour type, bit depth) pairs the PNG specification allows -/
def pngLegal (ct bd : Nat) : Bool :=
  (ct == 0 && [1, 2, 4, 8, 16].contains bd) || (ct == 2 && [8, 16].contains bd) || (ct == 3 && [1, 2, 4, 8].contains bd) ||
  (ct == 4 && [8, 16].contains bd) || (ct == 6 && [8, 16].contains bd)

end FqModel.Container
