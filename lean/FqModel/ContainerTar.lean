import FqModel.Container
/-!
  C15 — tar numeric fields in base-256 (GNU / star / pax writers: first byte 0x80, then the value big endian; REQUIRED for a
  member of 8 GiB or more, allowed for any value).

  The current decoder (`fieldNumber` in `format/tar/tar.go`, model `tarNum` in `Container.lean`) reads them.  The ORIGINAL
  decoder (before the repair `fix: tar: decode base-256 …`) only knew octal text: the size field failed
  `TryStrSymParseUint(8)` and the decode stopped with `could not decode size`.  It is kept here as `tarOld…` for the
  regression theorem.
-/
namespace FqModel.Container

/-- what a reader of the extension recovers from a field -/
def parseB256 (f : Bytes) : Option Nat :=
  match f with
  | b :: r => if b = 0x80 then some (beNat r) else none
  | [] => none

/-- the ORIGINAL `file` struct decoder (tar.go:49-87 before the repair): every numeric field is octal text -/
def tarOldEntry (pos : Nat) (bs : Bytes) : Option (TarEntry × Bytes) := do
  let (name, bs) ← takeN 100 bs
  let (mode, bs) ← takeN 8 bs
  let (uid, bs) ← takeN 8 bs
  let (gid, bs) ← takeN 8 bs
  let (size, bs) ← takeN 12 bs
  let size ← parseOct (cstr size)             -- `could not decode size`
  let (mtime, bs) ← takeN 12 bs
  let (chksum, bs) ← takeN 8 bs
  let (typeflag, bs) ← takeN 1 bs
  let (linkname, bs) ← takeN 100 bs
  let (magic, bs) ← takeN 6 bs
  if trimCut magic ≠ ustar then none else
  let (version, bs) ← takeN 2 bs
  let (uname, bs) ← takeN 32 bs
  let (gname, bs) ← takeN 32 bs
  let (devmajor, bs) ← takeN 8 bs
  let (devminor, bs) ← takeN 8 bs
  let (pfx, bs) ← takeN 155 bs
  let hp := blockPad (pos + 500)
  let (_, bs) ← takeN hp bs
  let (data, bs) ← takeN size bs
  let dp := blockPad (pos + 500 + hp + size)
  let (_, bs) ← takeN dp bs
  pure ({ name := trimCut name, mode := parseOct (cstr mode), uid := parseOct (cstr uid), gid := parseOct (cstr gid),
          size := size, mtime := parseOct (cstr mtime), chksum := parseOct (cstr chksum), typeflag := trimCut typeflag,
          linkname := trimCut linkname, magic := trimCut magic, version := parseOct (cstr version),
          uname := trimCut uname, gname := trimCut gname, devmajor := parseOct (cstr devmajor),
          devminor := parseOct (cstr devminor), pfx := trimCut pfx, hpad := hp, data := data, dpad := dp }, bs)

def tarOldLoop : Nat → Nat → Bytes → List TarEntry → TarResult
  | 0, _, _, acc => ⟨acc.reverse, none, true⟩
  | fuel+1, pos, bs, acc =>
    if bs.isEmpty then ⟨acc.reverse, none, false⟩ else
    match tarOldEntry pos bs with
    | none => ⟨acc.reverse, none, true⟩
    | some (e, rest) =>
      if rest.length ≥ 1024 ∧ allZero (rest.take 1024) then
        ⟨(e :: acc).reverse, some (1024 + 512 * zeroBlocks (rest.length / 512) (rest.drop 1024)), false⟩
      else tarOldLoop fuel (pos + (bs.length - rest.length)) rest (e :: acc)

def tarOldParse (bs : Bytes) : TarResult :=
  let r := tarOldLoop (bs.length / 500 + 1) 0 bs []
  if r.files.isEmpty then { r with err := true } else r

end FqModel.Container
