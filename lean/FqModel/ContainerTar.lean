import FqModel.Container
/-!
  C15 — tar numeric fields in base-256 (GNU / star / pax writers: first byte 0x80, then the value big endian; REQUIRED for a
  member of 8 GiB or more, allowed for any value).  `format/tar/tar.go:57-60` only knows octal text: the size field fails
  `TryStrSymParseUint(8)` and the decode stops with `could not decode size`.
-/
namespace FqModel.Container

/-- a 12 byte numeric field in base-256 -/
def b256Field (n : Nat) : Bytes := 0x80 :: toBE 11 n

/-- header like `writeTarHeader`, the size field given as raw bytes -/
def writeTarHeaderSize (m : TarMember) (sizeField : Bytes) : Bytes :=
  padNul 100 m.name ++ octField 8 m.mode ++ octField 8 m.uid ++ octField 8 m.gid ++ sizeField ++
  octField 12 m.mtime ++ octField 8 m.chksum ++ [m.typeflag] ++ padNul 100 m.linkname ++ padNul 6 ustar ++
  octField 2 m.version ++ padNul 32 m.uname ++ padNul 32 m.gname ++ octField 8 m.devmajor ++ octField 8 m.devminor ++
  padNul 155 m.pfx ++ List.replicate 12 0

/-- one member whose size is written in base-256, then the end marker -/
def writeTarB256 (m : TarMember) : Bytes :=
  writeTarHeaderSize m (b256Field m.data.length) ++ m.data ++ List.replicate (blockPad m.data.length) 0 ++ List.replicate 1024 0

/-- what a reader of the extension recovers from the field -/
def parseB256 (f : Bytes) : Option Nat :=
  match f with
  | b :: r => if b = 0x80 then some (beNat r) else none
  | [] => none

end FqModel.Container
