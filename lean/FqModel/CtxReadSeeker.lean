/-!
  C20 — small-step model of internal/ctxreadseeker/ctxreadseeker.go: WHICH goroutine touches the
  underlying reader WHEN.  Two goroutines (the caller of Reader.Read/Seek/Close = the evaluating
  goroutine, and the loop goroutine started by New :26), the unbuffered channels fnCh / waitCh
  (rendezvous = one joint step), ctx.Done (a flag that only ever goes up), and the underlying
  io.ReadSeeker(/io.Closer) whose operations take time (begin and end are separate steps).
  A schedule is a list of `Act`; `step` fires one action if it is enabled (else `none`), so the set of
  all schedules = all interleavings of all call sequences with a cancellation at any moment.
  A Go `select` with several ready cases is a free choice of the scheduler (both actions enabled).

  `Variant.fixed` is the code as it is; `Variant.callerClose` is the "fix the leak" variant that closes
  the underlying reader from callWait on cancellation (sync.Once guarded) — kept as the negation witness.
-/
namespace FqModel.CtxRS

inductive Variant | fixed | callerClose
  deriving DecidableEq, Repr

/-- the method called: Reader.Read :67 / Reader.Seek :79 / Reader.Close :91 -/
inductive Kind | read | seek | close
  deriving DecidableEq, Repr

inductive Caller
  | idle
  | sel1 (k : Kind)   -- callWait, first select :50 (fn not yet handed over)
  | sel2              -- fn handed over (:53), second select :54
  | ret (ok : Bool)   -- callWait returned (nil / ctx.Err()), the caller has not yet looked
  | closePend         -- callerClose only: inside closeOnce.Do, before c.Close()
  | closing           -- callerClose only: c.Close() in progress ON THE CALLER's goroutine
  | onceWait          -- callerClose only: closeOnce.Do waits for the other goroutine's Do to finish
  deriving DecidableEq, Repr

inductive Loop
  | sel               -- top of loop(), select :32
  | got (k : Kind)    -- received fn :38, about to run fn() :42
  | inOp (k : Kind)   -- fn() is executing: the underlying Read/Seek/Close is in progress
  | send              -- r.waitCh <- struct{}{} :43 (blocks until the caller receives)
  | closePend         -- ctx.Done branch :33, rs is an io.Closer, before c.Close() :35
  | closing           -- c.Close() :35 in progress
  | onceWait          -- callerClose only
  | exited            -- return :37
  deriving DecidableEq, Repr

/-- what can be seen from outside: by the caller (call/ret), by whoever cancels, and by the
    underlying reader itself (b = an operation on it begins, e = it returns) -/
inductive Ev
  | call (k : Kind) | cancel | ret (ok : Bool) | b (k : Kind) | e (k : Kind)
  deriving DecidableEq, Repr

/-- monitor over the visible events: the executable form of the property statement -/
structure Mon where
  busy : Nat := 0          -- operations on the underlying reader in progress
  overlap : Bool := false  -- some operation began while another was in progress
  bad : Bool := false      -- an end without a begin
  closes : Nat := 0        -- underlying Close calls begun
  callsClose : Nat := 0    -- Reader.Close calls made
  deriving DecidableEq, Repr

def Mon.step (m : Mon) : Ev → Mon
  | .call .close => { m with callsClose := m.callsClose + 1 }
  | .call _ => m
  | .cancel => m
  | .ret _ => m
  | .b k => { m with busy := m.busy + 1, overlap := m.overlap || decide (0 < m.busy),
                     closes := if k = .close then m.closes + 1 else m.closes }
  | .e _ => { m with busy := m.busy - 1, bad := m.bad || decide (m.busy = 0) }

/-- never two operations on the underlying reader at once; the underlying Close is called at most once
    more than Reader.Close was called (the one Close on cancellation) -/
def Mon.ok (m : Mon) : Bool := !m.overlap && !m.bad && decide (m.closes ≤ m.callsClose + 1)

structure St where
  caller : Caller := .idle
  loop : Loop := .sel
  cancelled : Bool := false
  /-- the underlying reader is an io.Closer (:34, :93) -/
  closer : Bool
  /-- callerClose only — closeOnce: 0 = free, 1 = a Do is running, 2 = done -/
  once : Nat := 0
  mon : Mon := {}
  /-- ghost: operations on the underlying reader begun by the CALLER's goroutine -/
  callerOps : Nat := 0
  /-- ghost: operations begun after the Close on cancellation began -/
  late : Bool := false
  /-- ghost: Closes on cancellation begun -/
  cclose : Nat := 0
  deriving DecidableEq, Repr

def init (closer : Bool) : St := { closer := closer }

inductive Act
  | call (k : Kind)  -- the caller enters Read/Seek/Close → callWait
  | cancel           -- ctx is cancelled (interrupt / Stop / parent); may happen any number of times
  | cSel1Cancel      -- :51-52 first select takes ctx.Done
  | send             -- :53 with :38 — rendezvous on fnCh (enabled also when cancelled: select is free)
  | opBegin          -- :42 fn() calls into the underlying reader
  | opEnd            -- the underlying call returns
  | opSkip           -- Close on a non-Closer: fn does nothing :93
  | recv             -- :43 with :57 — rendezvous on waitCh
  | cSel2Cancel      -- :55-56 second select takes ctx.Done: returns WITHOUT waiting for fn
  | ret              -- the caller continues after callWait
  | lCancel          -- :33 loop takes ctx.Done
  | lClBegin         -- :35
  | lClEnd           -- :35 returns, :37
  -- callerClose variant only
  | lSendCancel      -- loop: select {waitCh<- ; ctx.Done → cancelClose; return}
  | cClBegin | cClEnd | cOnceDone | lOnceDone
  deriving DecidableEq, Repr

def emit (s : St) (e : Ev) : Option (St × Option Ev) := some ({ s with mon := s.mon.step e }, some e)
def silent (s : St) : Option (St × Option Ev) := some (s, none)

/-- an operation on the underlying reader begins (ghosts) -/
def beginU (s : St) (byCaller : Bool) (cancelClose : Bool) : St :=
  { s with callerOps := if byCaller then s.callerOps + 1 else s.callerOps,
           late := s.late || decide (0 < s.cclose),
           cclose := if cancelClose then s.cclose + 1 else s.cclose }

def step (v : Variant) (s : St) : Act → Option (St × Option Ev)
  | .call k =>
    match s.caller with
    | .idle => emit { s with caller := .sel1 k } (.call k)
    | _ => none
  | .cancel => emit { s with cancelled := true } .cancel
  | .cSel1Cancel =>
    match s.caller with
    | .sel1 _ => if s.cancelled then silent { s with caller := .ret false } else none
    | _ => none
  | .send =>
    match s.caller, s.loop with
    | .sel1 k, .sel => silent { s with caller := .sel2, loop := .got k }
    | _, _ => none
  | .opBegin =>
    match s.loop with
    | .got k =>
      if k = .close && !s.closer then none
      else emit { beginU s false false with loop := .inOp k } (.b k)
    | _ => none
  | .opSkip =>
    match s.loop with
    | .got k => if k = .close && !s.closer then silent { s with loop := .send } else none
    | _ => none
  | .opEnd =>
    match s.loop with
    | .inOp k => emit { s with loop := .send } (.e k)
    | _ => none
  | .recv =>
    match s.caller, s.loop with
    | .sel2, .send => silent { s with caller := .ret true, loop := .sel }
    | _, _ => none
  | .cSel2Cancel =>
    match s.caller with
    | .sel2 =>
      if !s.cancelled then none
      else match v with
        | .fixed => silent { s with caller := .ret false }
        | .callerClose =>
          if !s.closer then silent { s with caller := .ret false }
          else if s.once = 0 then silent { s with caller := .closePend, once := 1 }
          else if s.once = 1 then silent { s with caller := .onceWait }
          else silent { s with caller := .ret false }
    | _ => none
  | .ret =>
    match s.caller with
    | .ret ok => emit { s with caller := .idle } (.ret ok)
    | _ => none
  | .lCancel =>
    match s.loop with
    | .sel =>
      if !s.cancelled then none
      else if !s.closer then silent { s with loop := .exited }
      else match v with
        | .fixed => silent { s with loop := .closePend }
        | .callerClose =>
          if s.once = 0 then silent { s with loop := .closePend, once := 1 }
          else if s.once = 1 then silent { s with loop := .onceWait }
          else silent { s with loop := .exited }
    | _ => none
  | .lClBegin =>
    match s.loop with
    | .closePend => emit { beginU s false true with loop := .closing } (.b .close)
    | _ => none
  | .lClEnd =>
    match s.loop with
    | .closing => emit { s with loop := .exited, once := if v = .callerClose then 2 else s.once } (.e .close)
    | _ => none
  | .lSendCancel =>
    match v, s.loop with
    | .callerClose, .send =>
      if !s.cancelled then none
      else if !s.closer then silent { s with loop := .exited }
      else if s.once = 0 then silent { s with loop := .closePend, once := 1 }
      else if s.once = 1 then silent { s with loop := .onceWait }
      else silent { s with loop := .exited }
    | _, _ => none
  | .cClBegin =>
    match v, s.caller with
    | .callerClose, .closePend => emit { beginU s true true with caller := .closing } (.b .close)
    | _, _ => none
  | .cClEnd =>
    match v, s.caller with
    | .callerClose, .closing => emit { s with caller := .ret false, once := 2 } (.e .close)
    | _, _ => none
  | .cOnceDone =>
    match v, s.caller with
    | .callerClose, .onceWait => if s.once = 2 then silent { s with caller := .ret false } else none
    | _, _ => none
  | .lOnceDone =>
    match v, s.loop with
    | .callerClose, .onceWait => if s.once = 2 then silent { s with loop := .exited } else none
    | _, _ => none

/-- run a schedule; `none` = the schedule fires an action that is not enabled (not an interleaving) -/
def run (v : Variant) : List Act → St → Option (St × List Ev)
  | [], s => some (s, [])
  | a :: r, s =>
    match step v s a with
    | none => none
    | some (s', oe) =>
      match run v r s' with
      | none => none
      | some (s'', es) => some (s'', oe.toList ++ es)

def monOf (es : List Ev) : Mon := es.foldl Mon.step {}

/-! ### trace acceptance (the correspondence): is an observed event sequence a trace of the model? -/

def allActs : List Act :=
  [.call .read, .call .seek, .call .close, .cancel, .cSel1Cancel, .send, .opBegin, .opEnd, .opSkip, .recv,
   .cSel2Cancel, .ret, .lCancel, .lClBegin, .lClEnd, .lSendCancel, .cClBegin, .cClEnd, .cOnceDone, .lOnceDone]

def addNew (acc : List St) (s : St) : List St := if acc.contains s then acc else acc ++ [s]

/-- successors of the states in `ss` by one action whose visibility is `want` -/
def succs (v : Variant) (ss : List St) (want : Option Ev) : List St :=
  ss.foldl (fun acc s => allActs.foldl (fun acc a =>
    match step v s a with
    | some (s', oe) => if oe = want then addNew acc s' else acc
    | none => acc) acc) []

/-- closure under silent actions (fuel: every silent action moves a goroutine forward; 16 suffices
    between two visible events) -/
def closure (v : Variant) : Nat → List St → List St
  | 0, ss => ss
  | n + 1, ss =>
    let nx := (succs v ss none).foldl addNew ss
    if nx.length = ss.length then ss else closure v n nx

def accepts (v : Variant) (closer : Bool) (tr : List Ev) : Option Nat :=
  let rec go : Nat → List St → List Ev → Option Nat
    | _, _, [] => none
    | i, ss, e :: r =>
      let nx := closure v 16 (succs v ss (some e))
      if nx.isEmpty then some i else go (i + 1) nx r
  go 0 (closure v 16 [init closer]) tr

end FqModel.CtxRS
