/-
  C20 — model of internal/ctxstack/ctxstack.go (the interrupt stack of the interpreter),
  of the part of `context` it relies on, and of iox.CtxWriter (internal/iox/iox.go:32-44).

  Contents
    §1  Go slices with a backing array (so that `s[0:k]` with `len < k ≤ cap` resurrects stale
        entries, which is what the pre-fix pop closure did)
    §2  contexts: `context.WithCancel(parent)`, cancel functions, `Err() != nil`
    §3  the sequential machine: `Push`, the closure returned by `Push` ("finish"), one iteration
        of the trigger goroutine ("interrupt"), `Stop` — current code (`Variant.fixed`) and the
        pop closure as it was before commit c3499288 (`Variant.oldPop`)
    §4  the abstract specification (no stack, no indices: a set of running evaluations)
    §5  iox.CtxWriter
    §5b io.Copy into a CtxWriter (`copyFrom`)
    §6  the two-thread machine (trigger goroutine / evaluator) with one atomic step per access
        to the shared slice headers and elements, with the mutex (current code) and without
        (the code before commit 243f567c)

  Everything is structurally recursive so that the kernel can evaluate it (`decide`).
  Core Lean only (the driver links this file).
-/
namespace FqModel.CtxStack

/-! ## §1 Go slices -/

/-- A Go slice `(ptr, len, cap)` over its backing array. `arr` is the whole backing array
    (`cap = arr.length`), `none` is the zero value of the element type (a nil func / nil
    pointer: using it is a runtime panic). -/
structure GoSlice (α : Type) where
  arr : List (Option α)
  len : Nat
deriving Repr, DecidableEq

namespace GoSlice
variable {α : Type}

/-- the nil slice -/
def empty : GoSlice α := ⟨[], 0⟩

def cap (s : GoSlice α) : Nat := s.arr.length

/-- the elements a `range` over the slice sees -/
def live (s : GoSlice α) : List (Option α) := s.arr.take s.len

/-- `s[i]`; outer `none` = panic "index out of range" (the bounds check is against `len`) -/
def index (s : GoSlice α) (i : Nat) : Option (Option α) :=
  if i < s.len then some (s.arr.getD i none) else none

/-- runtime.growslice for 8-byte elements: 0 → 1, otherwise doubling. Exact up to 256 elements
    (size classes 8,16,…,2048 bytes exist); beyond that Go grows by 1.25x — irrelevant for the
    current code (theorems are stated on `live`), used only by the witnesses of the old code. -/
def growCap (c : Nat) : Nat := if c = 0 then 1 else 2 * c

/-- `append(s, x)`: in place when `len < cap` (overwriting whatever stale entry is there),
    otherwise a new array with the first `len` elements copied and zero values behind. -/
def append (s : GoSlice α) (x : α) : GoSlice α :=
  if s.len < s.arr.length then ⟨s.arr.set s.len (some x), s.len + 1⟩
  else ⟨s.arr.take s.len ++ [some x] ++ List.replicate (growCap s.len - (s.len + 1)) none, s.len + 1⟩

/-- `s[0:k]`; `none` = panic "slice bounds out of range" (the check is against `cap`, so a `k`
    between `len` and `cap` silently makes stale entries visible again) -/
def reslice0 (s : GoSlice α) (k : Nat) : Option (GoSlice α) :=
  if k ≤ s.arr.length then some ⟨s.arr, k⟩ else none

end GoSlice

/-! ## §2 contexts

  Contexts are numbered in creation order. `parent[i]` is the context `i` was derived from with
  `context.WithCancel` (`none` = `context.Background()` or any context that is never cancelled),
  `self[i]` says that the cancel function of `i` has been called. A context's `Err()` is non-nil
  iff its own cancel function was called or its parent's `Err()` is non-nil (context.go:
  `propagateCancel` cancels children when the parent is cancelled, and cancels the child at once
  when the parent is already cancelled; cancellation is permanent, so the eager propagation of the
  library and this lazy reading agree at every instant at which no cancel call is in progress). -/

structure Ctxs where
  parent : List (Option Nat)
  self : List Bool
deriving Repr, DecidableEq

namespace Ctxs

def empty : Ctxs := ⟨[], []⟩

def size (c : Ctxs) : Nat := c.parent.length

/-- `context.WithCancel(parent)`; the new context's number is `c.size` -/
def withCancel (c : Ctxs) (p : Option Nat) : Ctxs := ⟨c.parent ++ [p], c.self ++ [false]⟩

/-- calling the cancel function of context `i` (idempotent) -/
def cancel (c : Ctxs) (i : Nat) : Ctxs := { c with self := c.self.set i true }

/-- `acc` = Err()≠nil of the contexts already processed (parents precede children) -/
def errsAux : List (Option Nat) → List Bool → List Bool → List Bool
  | p :: ps, s :: ss, acc =>
    errsAux ps ss (acc ++ [s || (match p with | some j => acc.getD j false | none => false)])
  | _, _, acc => acc

/-- `Err() != nil` of every context -/
def errs (c : Ctxs) : List Bool := errsAux c.parent c.self []

def err (c : Ctxs) (i : Nat) : Bool := c.errs.getD i false

end Ctxs

/-! ## §3 the sequential machine -/

/-- what the closure returned by `Push` captured (ctxstack.go:68-92): `stackIdx`, the `cancelled`
    flag (a `*bool` shared through `s.cancelled` in the current code, a private `bool` in the old
    code) and `stackCtxCancel` (used by the old code only) -/
structure PopFn where
  stackIdx : Nat
  cell : Nat
  ctx : Nat
deriving Repr, DecidableEq

structure St where
  ctxs : Ctxs
  /-- `s.cancelFns`: cancel functions, identified by the number of the context they cancel -/
  cancelFns : GoSlice Nat
  /-- `s.cancelled`: pointers into `cells` (current code only) -/
  cancelled : GoSlice Nat
  /-- the heap of `bool` cells allocated by `Push` -/
  cells : List Bool
  /-- the closure returned by the i-th `Push` -/
  pops : List PopFn
  /-- `stopCh` is closed -/
  stopped : Bool
  /-- `Stop` was called with `stopCh` already closed: panic "close of closed channel" in the
      caller's goroutine (after the mutex was released, so the stack stays usable) -/
  doubleClose : Bool
  /-- a Go runtime panic inside ctxstack: index out of range, slice bounds out of range, nil
      func call, nil pointer store. Sticky: the machine does not continue after it. -/
  rtPanic : Bool
deriving Repr, DecidableEq

def St.init : St :=
  { ctxs := .empty, cancelFns := .empty, cancelled := .empty, cells := [], pops := [],
    stopped := false, doubleClose := false, rtPanic := false }

inductive Variant
  /-- the code as it is (mutex, shared `cancelled` flags) -/
  | fixed
  /-- the pop closure before commit c3499288 (private flag, `s.cancelFns[0:stackIdx]`
      unconditionally, own `stackCtxCancel()` at the end) -/
  | oldPop
deriving Repr, DecidableEq

inductive Op
  /-- `Push(parent)`; `none` = a context that is never cancelled -/
  | push (parent : Option Nat)
  /-- calling the closure returned by the i-th `Push` -/
  | finish (i : Nat)
  /-- the trigger function returns once: one iteration of the goroutine of `New` -/
  | interrupt
  /-- `Stop()` -/
  | stop
deriving Repr, DecidableEq

/-- `Push`, ctxstack.go:61-72 (and the old lines 53-58) -/
def push (v : Variant) (s : St) (parent : Option Nat) : St :=
  let ctx := s.ctxs.size                      -- stackCtx, stackCtxCancel := context.WithCancel(parent)
  let ctxs := s.ctxs.withCancel parent
  let stackIdx := s.cancelFns.len             -- stackIdx := len(s.cancelFns)
  let cell := s.cells.length                  -- cancelled := new(bool)   /  cancelled := false
  { s with
    ctxs := ctxs
    cells := s.cells ++ [false]
    cancelFns := s.cancelFns.append ctx       -- s.cancelFns = append(s.cancelFns, stackCtxCancel)
    cancelled := match v with                 -- s.cancelled = append(s.cancelled, cancelled)
      | .fixed => s.cancelled.append cell
      | .oldPop => s.cancelled
    pops := s.pops ++ [⟨stackIdx, cell, ctx⟩] }

/-- the loop `for i := len(s.cancelFns) - 1; i >= stackIdx; i-- { *s.cancelled[i] = true; s.cancelFns[i]() }`
    (ctxstack.go:84-87); `k` = iterations left, the current `i` is `stackIdx + k - 1` -/
def popLoopFixed (stackIdx : Nat) : Nat → St → St
  | 0, s => s
  | k + 1, s =>
    let i := stackIdx + k
    match s.cancelled.index i with                            -- *s.cancelled[i] = true
    | some (some c) =>
      let s1 := { s with cells := s.cells.set c true }
      match s1.cancelFns.index i with                         -- s.cancelFns[i]()
      | some (some f) => popLoopFixed stackIdx k { s1 with ctxs := s1.ctxs.cancel f }
      | _ => { s1 with rtPanic := true }
    | _ => { s with rtPanic := true }

/-- the old loop: `for i := len(s.cancelFns) - 1; i >= stackIdx; i-- { s.cancelFns[i]() }` -/
def popLoopOld (stackIdx : Nat) : Nat → St → St
  | 0, s => s
  | k + 1, s =>
    match s.cancelFns.index (stackIdx + k) with
    | some (some f) => popLoopOld stackIdx k { s with ctxs := s.ctxs.cancel f }
    | _ => { s with rtPanic := true }

/-- the closure returned by `Push`, current code (ctxstack.go:74-91) -/
def finishFixed (s : St) (p : PopFn) : St :=
  if s.cells.getD p.cell false then s                        -- if *cancelled { return }
  else
    let s1 := popLoopFixed p.stackIdx (s.cancelFns.len - p.stackIdx) s
    if s1.rtPanic then s1
    else match s1.cancelFns.reslice0 p.stackIdx with          -- s.cancelFns = s.cancelFns[0:stackIdx]
      | some a =>
        let s2 := { s1 with cancelFns := a }
        match s2.cancelled.reslice0 p.stackIdx with            -- s.cancelled = s.cancelled[0:stackIdx]
        | some b => { s2 with cancelled := b }
        | none => { s2 with rtPanic := true }
      | none => { s1 with rtPanic := true }

/-- the closure returned by `Push` before commit c3499288 -/
def finishOld (s : St) (p : PopFn) : St :=
  if s.cells.getD p.cell false then s                        -- if cancelled { return }
  else
    let s0 := { s with cells := s.cells.set p.cell true }    -- cancelled = true
    let s1 := popLoopOld p.stackIdx (s0.cancelFns.len - p.stackIdx) s0
    if s1.rtPanic then s1
    else match s1.cancelFns.reslice0 p.stackIdx with         -- s.cancelFns = s.cancelFns[0:stackIdx]
      | some a => { s1 with cancelFns := a, ctxs := s1.ctxs.cancel p.ctx }   -- stackCtxCancel()
      | none => { s1 with rtPanic := true }

def finish (v : Variant) (s : St) (i : Nat) : St :=
  match s.pops[i]? with
  | none => s                                                -- no such closure: not an operation
  | some p => match v with
    | .fixed => finishFixed s p
    | .oldPop => finishOld s p

/-- one iteration of the goroutine started by `New` after the trigger function returned
    (ctxstack.go:31-47): nothing if `stopCh` is closed (the goroutine leaves its loop),
    otherwise cancel the top of the stack if there is one -/
def interrupt (s : St) : St :=
  if s.stopped then s
  else if s.cancelFns.len > 0 then
    match s.cancelFns.index (s.cancelFns.len - 1) with
    | some (some f) => { s with ctxs := s.ctxs.cancel f }
    | _ => { s with rtPanic := true }
  else s

/-- `for i := len(s.cancelFns) - 1; i >= 0; i-- { s.cancelFns[i]() }` (ctxstack.go:54-56) -/
def stopLoop : Nat → St → St
  | 0, s => s
  | k + 1, s =>
    match s.cancelFns.index k with
    | some (some f) => stopLoop k { s with ctxs := s.ctxs.cancel f }
    | _ => { s with rtPanic := true }

/-- `Stop`, ctxstack.go:52-59 -/
def stop (s : St) : St :=
  let s1 := stopLoop s.cancelFns.len s
  if s1.rtPanic then s1
  else if s1.stopped then { s1 with doubleClose := true }    -- close(s.stopCh) of a closed channel
  else { s1 with stopped := true }

def step (v : Variant) (s : St) (op : Op) : St :=
  if s.rtPanic then s
  else match op with
    | .push p => push v s p
    | .finish i => finish v s i
    | .interrupt => interrupt s
    | .stop => stop s

def run (v : Variant) (ops : List Op) : St := ops.foldl (step v) .init

/-- what a client can observe: `Err() != nil` of every context ever pushed, and whether a
    panic has surfaced -/
structure Obs where
  errs : List Bool
  doubleClose : Bool
  rtPanic : Bool
deriving Repr, DecidableEq

def St.obs (s : St) : Obs := ⟨s.ctxs.errs, s.doubleClose, s.rtPanic⟩

/-- the observation after every operation -/
def trace (v : Variant) : St → List Op → List Obs
  | _, [] => []
  | s, op :: ops => let s' := step v s op; s'.obs :: trace v s' ops

/-! ## §4 the abstract specification

  No stack, no indices, no flags: evaluations are numbered in the order they were started; each is
  running or finished and has or has not been cancelled *directly*; `Err()` follows from §2.

    * start: a new running evaluation
    * an interrupt cancels the innermost (= most recently started) running evaluation — and nothing
      else; it is ignored once the stack was stopped
    * finishing a running evaluation `i` ends and cancels `i` and every running evaluation started
      after it (they are nested inside it) — and nothing else; finishing an evaluation that is not
      running (finished before, or ended by an enclosing one) does nothing
    * stop cancels every running evaluation; calling it twice is a usage error -/

structure Spec where
  parent : List (Option Nat)
  running : List Bool
  cancelled : List Bool
  stopped : Bool
  misuse : Bool
deriving Repr, DecidableEq

namespace Spec

def init : Spec := ⟨[], [], [], false, false⟩

/-- the running evaluations, oldest first -/
def runningIds (s : Spec) : List Nat :=
  (List.range s.running.length).filter (fun i => s.running.getD i false)

/-- the innermost running evaluation -/
def innermost (s : Spec) : Option Nat := s.runningIds.getLast?

def step (s : Spec) : Op → Spec
  | .push p =>
    { s with parent := s.parent ++ [p], running := s.running ++ [true], cancelled := s.cancelled ++ [false] }
  | .finish i =>
    if s.running.getD i false then
      { s with
        running := s.running.mapIdx (fun j r => r && decide (j < i))
        cancelled := s.cancelled.mapIdx (fun j c => c || (s.running.getD j false && decide (i ≤ j))) }
    else s
  | .interrupt =>
    if s.stopped then s
    else match s.innermost with
      | some i => { s with cancelled := s.cancelled.set i true }
      | none => s
  | .stop =>
    { s with
      cancelled := s.cancelled.mapIdx (fun j c => c || s.running.getD j false)
      stopped := true
      misuse := s.misuse || s.stopped }

def run (ops : List Op) : Spec := ops.foldl step init

def ctxs (s : Spec) : Ctxs := ⟨s.parent, s.cancelled⟩

def obs (s : Spec) : Obs := ⟨s.ctxs.errs, s.misuse, false⟩

def trace : Spec → List Op → List Obs
  | _, [] => []
  | s, op :: ops => let s' := step s op; s'.obs :: trace s' ops

end Spec

/-! ## §6 the two-thread machine

  Thread `trig` is the goroutine started by `New` (ctxstack.go:29-47), thread `eval` calls `Push`,
  the closures and `Stop`. One atomic step per access to the shared slice headers / elements / flag
  cells / `stopCh`, per mutex operation and per cancel-function call (a `context` cancel function
  is itself synchronised). `lock = true, pop = .fixed` is the current code; `lock = false,
  pop = .oldPop` is the code before commits 243f567c and c3499288.

  The evaluator's program is a list of `Op`; `.interrupt` in it means "an interrupt arrives"
  (the trigger function will return once more) — *when* the goroutine acts on it is up to the
  schedule. A schedule is a list of thread ids; a step of a thread that cannot move (blocked on
  the mutex, waiting for an interrupt, finished, or after a panic) is skipped.

  One deviation in the order of steps: `context.WithCancel(parent)` (ctxstack.go:62, before the
  `Lock`) is modelled as the first step after `Lock`. It only allocates a fresh context that nobody
  else can reach before `Push` returns it, so it commutes with every step of the other thread. -/

inductive Tid | trig | eval
deriving Repr, DecidableEq

structure Cfg where
  lock : Bool
  pop : Variant
deriving Repr, DecidableEq

def Cfg.current : Cfg := ⟨true, .fixed⟩
def Cfg.original : Cfg := ⟨false, .oldPop⟩

/-- program counter of the trigger goroutine -/
inductive TPc
  | wait                        -- inside triggerCh(stopCh)
  | sel                         -- select { case <-stopCh: … default: … }
  | lock                        -- s.mu.Lock()
  | lenTest                     -- if len(s.cancelFns) > 0
  | lenIdx                      -- len(s.cancelFns)-1
  | load (idx : Option Nat)     -- s.cancelFns[idx]()   (`none` = index -1)
  | unlock                      -- s.mu.Unlock(); continue
  | exited
deriving Repr, DecidableEq

/-- program counter of the evaluator; loop counters `k` stand for Go's `i = k-1` -/
inductive EPc
  | idle
  | pushLock (parent : Option Nat)
  | pushWithCancel (parent : Option Nat)
  | pushLen (ctx : Nat)                         -- stackIdx := len(s.cancelFns)
  | pushNewCell (ctx stackIdx : Nat)            -- cancelled := new(bool)
  | pushAppendFns (ctx stackIdx cell : Nat)     -- s.cancelFns = append(s.cancelFns, stackCtxCancel)
  | pushAppendCancelled (ctx stackIdx cell : Nat)
  | pushUnlock (ctx stackIdx cell : Nat)        -- return stackCtx, func() {…}   (deferred Unlock)
  | popLock (p : PopFn)
  | popTest (p : PopFn)                         -- if *cancelled { return }
  | popSetOwn (p : PopFn)                       -- cancelled = true               (old code)
  | popLoopInit (p : PopFn)                     -- i := len(s.cancelFns) - 1
  | popLoop (p : PopFn) (k : Nat)               -- i >= stackIdx
  | popSetFlag (p : PopFn) (k : Nat)            -- *s.cancelled[i] = true         (current code)
  | popCall (p : PopFn) (k : Nat)               -- s.cancelFns[i]()
  | popResliceFns (p : PopFn)                   -- s.cancelFns = s.cancelFns[0:stackIdx]
  | popResliceCancelled (p : PopFn)             -- s.cancelled = s.cancelled[0:stackIdx]   (current code)
  | popOwnCancel (p : PopFn)                    -- stackCtxCancel()               (old code)
  | popUnlock
  | stopLock
  | stopLoopInit
  | stopLoop (k : Nat)
  | stopCall (k : Nat)
  | stopUnlock
  | stopClose                                   -- close(s.stopCh)
deriving Repr, DecidableEq

structure Conc where
  sh : St
  mu : Option Tid
  tpc : TPc
  epc : EPc
  prog : List Op
  /-- interrupts that arrived and have not yet made the trigger function return -/
  pending : Nat
deriving Repr, DecidableEq

def Conc.init (prog : List Op) : Conc := ⟨.init, none, .wait, .idle, prog, 0⟩

def panicSt (s : St) : St := { s with rtPanic := true }

/-- `s.mu.Lock()` by thread `t`; `none` = blocked -/
def acquire (cfg : Cfg) (t : Tid) (c : Conc) : Option Conc :=
  if cfg.lock then (if c.mu = none then some { c with mu := some t } else none) else some c

def release (cfg : Cfg) (c : Conc) : Conc := if cfg.lock then { c with mu := none } else c

def tstep (cfg : Cfg) (c : Conc) : Option Conc :=
  match c.tpc with
  | .wait =>
    if c.sh.stopped then some { c with tpc := .sel }
    else if c.pending > 0 then some { c with tpc := .sel, pending := c.pending - 1 }
    else none
  | .sel => some { c with tpc := if c.sh.stopped then .exited else .lock }
  | .lock => (acquire cfg .trig c).map fun c => { c with tpc := .lenTest }
  | .lenTest => some { c with tpc := if c.sh.cancelFns.len > 0 then .lenIdx else .unlock }
  | .lenIdx => some { c with tpc := .load (if c.sh.cancelFns.len = 0 then none else some (c.sh.cancelFns.len - 1)) }
  | .load none => some { c with sh := panicSt c.sh }
  | .load (some i) =>
    match c.sh.cancelFns.index i with
    | some (some f) => some { c with sh := { c.sh with ctxs := c.sh.ctxs.cancel f }, tpc := .unlock }
    | _ => some { c with sh := panicSt c.sh }
  | .unlock => some { release cfg c with tpc := .wait }
  | .exited => none

def estep (cfg : Cfg) (c : Conc) : Option Conc :=
  let s := c.sh
  match c.epc with
  | .idle =>
    match c.prog with
    | [] => none
    | .push p :: rest => some { c with prog := rest, epc := .pushLock p }
    | .finish i :: rest =>
      match s.pops[i]? with
      | none => some { c with prog := rest }
      | some p => some { c with prog := rest, epc := .popLock p }
    | .interrupt :: rest => some { c with prog := rest, pending := c.pending + 1 }
    | .stop :: rest => some { c with prog := rest, epc := .stopLock }
  -- Push
  | .pushLock p => (acquire cfg .eval c).map fun c => { c with epc := .pushWithCancel p }
  | .pushWithCancel p =>
    some { c with sh := { s with ctxs := s.ctxs.withCancel p }, epc := .pushLen s.ctxs.size }
  | .pushLen ctx => some { c with epc := .pushNewCell ctx s.cancelFns.len }
  | .pushNewCell ctx idx =>
    some { c with sh := { s with cells := s.cells ++ [false] }, epc := .pushAppendFns ctx idx s.cells.length }
  | .pushAppendFns ctx idx cell =>
    some { c with sh := { s with cancelFns := s.cancelFns.append ctx },
                  epc := match cfg.pop with
                    | .fixed => .pushAppendCancelled ctx idx cell
                    | .oldPop => .pushUnlock ctx idx cell }
  | .pushAppendCancelled ctx idx cell =>
    some { c with sh := { s with cancelled := s.cancelled.append cell }, epc := .pushUnlock ctx idx cell }
  | .pushUnlock ctx idx cell =>
    some { release cfg { c with sh := { s with pops := s.pops ++ [⟨idx, cell, ctx⟩] } } with epc := .idle }
  -- the closure returned by Push
  | .popLock p => (acquire cfg .eval c).map fun c => { c with epc := .popTest p }
  | .popTest p =>
    some { c with epc := if s.cells.getD p.cell false then .popUnlock
                         else match cfg.pop with
                           | .fixed => .popLoopInit p
                           | .oldPop => .popSetOwn p }
  | .popSetOwn p => some { c with sh := { s with cells := s.cells.set p.cell true }, epc := .popLoopInit p }
  | .popLoopInit p => some { c with epc := .popLoop p s.cancelFns.len }
  | .popLoop p k =>
    some { c with epc := if k > p.stackIdx then
                           (match cfg.pop with | .fixed => .popSetFlag p k | .oldPop => .popCall p k)
                         else .popResliceFns p }
  | .popSetFlag p k =>
    match s.cancelled.index (k - 1) with
    | some (some cell) => some { c with sh := { s with cells := s.cells.set cell true }, epc := .popCall p k }
    | _ => some { c with sh := panicSt s }
  | .popCall p k =>
    match s.cancelFns.index (k - 1) with
    | some (some f) => some { c with sh := { s with ctxs := s.ctxs.cancel f }, epc := .popLoop p (k - 1) }
    | _ => some { c with sh := panicSt s }
  | .popResliceFns p =>
    match s.cancelFns.reslice0 p.stackIdx with
    | some a => some { c with sh := { s with cancelFns := a },
                              epc := match cfg.pop with
                                | .fixed => .popResliceCancelled p
                                | .oldPop => .popOwnCancel p }
    | none => some { c with sh := panicSt s }
  | .popResliceCancelled p =>
    match s.cancelled.reslice0 p.stackIdx with
    | some b => some { c with sh := { s with cancelled := b }, epc := .popUnlock }
    | none => some { c with sh := panicSt s }
  | .popOwnCancel p => some { c with sh := { s with ctxs := s.ctxs.cancel p.ctx }, epc := .popUnlock }
  | .popUnlock => some { release cfg c with epc := .idle }
  -- Stop
  | .stopLock => (acquire cfg .eval c).map fun c => { c with epc := .stopLoopInit }
  | .stopLoopInit => some { c with epc := .stopLoop s.cancelFns.len }
  | .stopLoop k => some { c with epc := if k > 0 then .stopCall k else .stopUnlock }
  | .stopCall k =>
    match s.cancelFns.index (k - 1) with
    | some (some f) => some { c with sh := { s with ctxs := s.ctxs.cancel f }, epc := .stopLoop (k - 1) }
    | _ => some { c with sh := panicSt s }
  | .stopUnlock => some { release cfg c with epc := .stopClose }
  | .stopClose =>
    some { c with sh := if s.stopped then { s with doubleClose := true } else { s with stopped := true },
                  epc := .idle }

/-- one step of thread `t`; `none` if it cannot move. After a runtime panic the process is gone. -/
def cstep (cfg : Cfg) (t : Tid) (c : Conc) : Option Conc :=
  if c.sh.rtPanic then none
  else match t with
    | .trig => tstep cfg c
    | .eval => estep cfg c

def crun (cfg : Cfg) (sched : List Tid) (c : Conc) : Conc :=
  sched.foldl (fun c t => (cstep cfg t c).getD c) c

/-- `n` steps of thread `t` -/
def rep (t : Tid) (n : Nat) : List Tid := List.replicate n t

/-! ## §5 iox.CtxWriter (internal/iox/iox.go:32-44)

  `Write` returns `(0, ctx.Err())` without touching the underlying writer when the context is
  cancelled, otherwise it forwards. `Eval` wraps the output of every evaluation in one
  (interp.go:968), a nested `_eval` wraps the parent's writer again (interp.go:526-529). -/

inductive Writer
  /-- the underlying sink -/
  | sink
  /-- `iox.CtxWriter{Writer: w, Ctx: ctx}`; `none` = `Ctx == nil` -/
  | ctx (ctx : Option Nat) (w : Writer)
deriving Repr, DecidableEq

/-- does a `Write` reach the sink? -/
def Writer.passes (c : Ctxs) : Writer → Bool
  | .sink => true
  | .ctx none w => w.passes c
  | .ctx (some i) w => !c.err i && w.passes c

/-- `Write(p)`: the bytes appended to the sink and the returned `n` -/
def Writer.write (c : Ctxs) (w : Writer) (p : List UInt8) (sinkBefore : List UInt8) : List UInt8 × Nat :=
  if w.passes c then (sinkBefore ++ p, p.length) else (sinkBefore, 0)


/-! ## §5b `io.Copy(ctxWriter, src)` (io/io.go copyBuffer, reached from internal/bitiox/bitiox.go:12-18,
  pkg/interp/binary.go:486 `Binary.Display` raw output, pkg/interp/dump.go:286-303)

  `iox.CtxWriter` has exactly one method of its own, `Write` (iox.go:37-44); it offers neither
  `io.ReaderFrom` nor `io.StringWriter`, and its embedded `io.Writer` interface field promotes only
  `Write`. So `io.Copy`/`io.CopyBuffer`/`io.CopyN`/`bitiox.CopyBits` run the generic loop
  `for { nr := src.Read(buf); if nr > 0 { nw, ew := dst.Write(buf[:nr]); … } }`:
  ONE `Write` — one context check — per chunk the source delivers. The context may be cancelled
  while the copy runs (the interrupt goroutine): `cancelAfter = some k` says the cancellation lands
  after the source has delivered `k` chunks (before the `Write` of chunk `k`), `none` = never. -/

/-- the context state the `Write` of chunk `j` sees -/
def ctxAt (cBefore cAfter : Ctxs) (cancelAfter : Option Nat) (j : Nat) : Ctxs :=
  match cancelAfter with
  | some k => if k ≤ j then cAfter else cBefore
  | none => cBefore

structure CopyRes where
  /-- the sink's content -/
  sink : List UInt8
  /-- `written`, the first result of `io.Copy` -/
  written : Nat
  /-- `err != nil` -/
  err : Bool
deriving Repr, DecidableEq

/-- io.go copyBuffer's loop from chunk number `j` on; `[]` = the source returns `0, io.EOF` -/
def copyLoop (cB cA : Ctxs) (w : Writer) (ca : Option Nat) : Nat → List (List UInt8) → CopyRes → CopyRes
  | _, [], r => r                                            -- `er == io.EOF`: break, err stays nil
  | j, p :: rest, r =>
    if p.length > 0 then                                     -- `if nr > 0 {`
      let c := ctxAt cB cA ca j
      let (s', nw) := w.write c p r.sink                     -- `nw, ew := dst.Write(buf[0:nr])`
      let r' : CopyRes := ⟨s', r.written + nw, r.err⟩        -- `written += int64(nw)`
      if !w.passes c then { r' with err := true }            -- `if ew != nil { err = ew; break }`
      else if nw ≠ p.length then { r' with err := true }     -- `if nr != nw { err = ErrShortWrite; break }`
      else copyLoop cB cA w ca (j + 1) rest r'
    else copyLoop cB cA w ca (j + 1) rest r                  -- `nr == 0, er == nil`: read again

/-- `io.Copy(w, src)` where `src` delivers `chunks` and then EOF -/
def Writer.copyFrom (cB cA : Ctxs) (w : Writer) (chunks : List (List UInt8)) (cancelAfter : Option Nat)
    (sinkBefore : List UInt8) : CopyRes :=
  copyLoop cB cA w cancelAfter 0 chunks ⟨sinkBefore, 0, false⟩

/-- a caller that hands the chunks to `Write` one by one and ignores the errors (`fmt.Fprintf`,
    `io.WriteString` in a loop): the sink's content from chunk number `j` on -/
def writeAll (cB cA : Ctxs) (w : Writer) (ca : Option Nat) : Nat → List (List UInt8) → List UInt8 → List UInt8
  | _, [], s => s
  | j, p :: rest, s => writeAll cB cA w ca (j + 1) rest (w.write (ctxAt cB cA ca j) p s).1

/-- the same loop as `copyLoop` on chunk LENGTHS only (what the driver evaluates for MiB-sized
    chunks; equal to the byte-level model by `Proofs.C20.copyLoop_len`): `(written, err)` -/
def copyLen (passAt : Nat → Bool) : Nat → List Nat → Nat → Nat × Bool
  | _, [], acc => (acc, false)
  | j, n :: rest, acc =>
    if n > 0 then
      if passAt j then copyLen passAt (j + 1) rest (acc + n) else (acc, true)
    else copyLen passAt (j + 1) rest acc

/-- NOT the code: a `CtxWriter` with an `io.ReaderFrom` fast path (`ReadFrom` checks the context once
    and then copies into the embedded writer) — `io.Copy` prefers `ReadFrom` over the loop. Kept as
    the witness of what `copy_stops_at_cancel` excludes (seeded change of round 5). -/
def Writer.copyFromFast (cB cA : Ctxs) (w : Writer) (chunks : List (List UInt8)) (cancelAfter : Option Nat)
    (sinkBefore : List UInt8) : CopyRes :=
  if w.passes (ctxAt cB cA cancelAfter 0) then
    ⟨sinkBefore ++ chunks.flatten, chunks.flatten.length, false⟩
  else ⟨sinkBefore, 0, true⟩


/-! ## §7 an evaluation blocked in a call on its input

  pkg/interp/binary.go:249-270 wraps every input `open` opens in `internal/ctxreadseeker` bound to
  the context of the evaluation doing it (`i.EvalInstance.Ctx`). `callWait`
  (ctxreadseeker.go:47-62) returns `ctx.Err()` at once if the context is done, otherwise hands the
  call to the worker goroutine and waits for `ctx.Done()` or the result — so a Read/Seek/Close that
  is blocked in the underlying file has exactly two exits: the underlying call returns (data
  arrives) or the context is cancelled. A reader used without the wrapper (`ReaderKind.plain`)
  has only the first. While it is blocked the evaluator thread performs no stack operation;
  interrupts (the goroutine) and data (the environment) can still happen. -/

inductive ReaderKind
  /-- `ctxreadseeker.New(ctx, rs)` -/
  | ctxAware
  /-- `rs` itself -/
  | plain
deriving Repr, DecidableEq

structure Blocked where
  ctx : Nat
  kind : ReaderKind
deriving Repr, DecidableEq

inductive ReadResult | data | cancelled
deriving Repr, DecidableEq

structure RSt where
  st : St
  blocked : Option Blocked
  /-- how the calls that came back so far ended, oldest first -/
  results : List ReadResult
deriving Repr, DecidableEq

def RSt.init : RSt := ⟨.init, none, []⟩

inductive ROp
  /-- a stack operation of the evaluator, or an interrupt -/
  | ev (o : Op)
  /-- the evaluator calls Read/Seek/Close on a reader of this kind bound to context `ctx`, and the
      underlying call blocks -/
  | read (kind : ReaderKind) (ctx : Nat)
  /-- the underlying call returns -/
  | data
deriving Repr, DecidableEq

/-- the context of the innermost evaluation on the stack: the one that is executing -/
def top (s : St) : Option Nat :=
  if s.cancelFns.len > 0 then
    match s.cancelFns.index (s.cancelFns.len - 1) with
    | some (some f) => some f
    | _ => none
  else none

/-- `select { case <-r.ctx.Done(): return r.ctx.Err() … }` (ctxreadseeker.go:49-50, 54-55) -/
def wake (s : RSt) : RSt :=
  match s.blocked with
  | some b =>
    if b.kind = .ctxAware ∧ s.st.ctxs.err b.ctx = true then
      { s with blocked := none, results := s.results ++ [.cancelled] }
    else s
  | none => s

def rstep (s : RSt) : ROp → RSt
  | .read k c =>
    match s.blocked with
    | some _ => s                                            -- stuck in the earlier call
    | none => if c < s.st.ctxs.size then wake { s with blocked := some ⟨c, k⟩ } else s
  | .data =>
    match s.blocked with
    | some _ => { s with blocked := none, results := s.results ++ [.data] }
    | none => s
  | .ev .interrupt => wake { s with st := step .fixed s.st .interrupt }
  | .ev o =>
    match s.blocked with
    | some _ => s                                            -- the evaluator is not running
    | none => { s with st := step .fixed s.st o }

def rrun (ops : List ROp) : RSt := ops.foldl rstep .init

/-- observation after every operation: the stack machine's, and whether a call is blocked -/
def rtrace : RSt → List ROp → List (Obs × Bool)
  | _, [] => []
  | s, op :: ops => let s' := rstep s op; (s'.st.obs, s'.blocked.isSome) :: rtrace s' ops

end FqModel.CtxStack
