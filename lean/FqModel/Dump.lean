/-
  C10 — model of what fq's dump/hexdump prints (core Lean only).

  Transliterated from
    internal/mathx/num.go            PadFormatInt (45-47), padFormatNumber (31-43),
                                     Bits.StringByteBits (63-68), BitRange.StringByteBits (72-74),
                                     BasePrefixMap (14-18)
    internal/hexpairwriter/hexpairwriter.go   Pair (38-40), Writer.Write (59-116)
    internal/asciiwriter/asciiwriter.go       SafeASCII (17-22), Writer.Write (38-90)
    internal/columnwriter/columnwriter.go     MultiLineColumn.Write (69-98), PreFlush (102-106),
                                              FlushLine (108-141), BarColumn, Writer.Flush (176-206)
    pkg/interp/dump.go               dumpEx address/line arithmetic (227-335), header (389-398),
                                     column set-up (367-385)

  Text is `List Char` (the drivers convert from/to String).  Go `int`/`int64` are `Nat`: every
  quantity of the modelled branch is non-negative when the value has `len > 0` and lies inside
  its root buffer (`start + len ≤ rootBits`), which is the hypothesis of every theorem and is
  checked by the driver before the model is consulted.
  Not modelled: colours (the harness strips ANSI sequences; `LenFn`/`SliceFn` = rune count),
  `MultiLineColumn.Wrap`/`divideString` (dump.go never sets `Wrap`), the tree column's text
  except the verbose range/size tail, `DigitsInBase` (float `math.Log`; the address width is an
  input of the model and `digitsNeeded` is its specification).
-/
import FqModel.Bits
namespace FqModel.Dump

/-! ### numbers: strconv.FormatInt / mathx.PadFormatInt / StringByteBits -/

/-- strconv's digit alphabet `0-9a-z` -/
def digitChar (d : Nat) : Char := if d < 10 then Char.ofNat (48 + d) else Char.ofNat (87 + d)

def digitVal (c : Char) : Option Nat :=
  if 48 ≤ c.toNat ∧ c.toNat ≤ 57 then some (c.toNat - 48)
  else if 97 ≤ c.toNat ∧ c.toNat ≤ 122 then some (c.toNat - 87)
  else none

/-- digits of `n`, least significant produced first (strconv formatBits loop); fuel = bit length -/
def formatBaseGo (b : Nat) : Nat → Nat → List Char → List Char
  | 0, _, acc => acc
  | f+1, n, acc =>
    let acc' := digitChar (n % b) :: acc
    if n / b = 0 then acc' else formatBaseGo b f (n / b) acc'

/-- `strconv.FormatUint(n, b)` for `2 ≤ b ≤ 36` -/
def formatBase (b n : Nat) : List Char := formatBaseGo b (n.log2 + 1) n []

def parseBaseGo (b : Nat) : Nat → List Char → Option Nat
  | acc, [] => some acc
  | acc, c :: cs =>
    match digitVal c with
    | some d => if d < b then parseBaseGo b (acc * b + d) cs else none
    | none => none

/-- inverse of `formatBase` (rejects the empty string and digits `≥ b`) -/
def parseBase (b : Nat) (cs : List Char) : Option Nat :=
  if cs.isEmpty then none else parseBaseGo b 0 cs

/-- num.go:14-18 -/
def basePrefix (b : Nat) : List Char :=
  if b = 2 then ['0', 'b'] else if b = 8 then ['0', 'o'] else if b = 16 then ['0', 'x'] else []

/-- num.go:31-47 `PadFormatInt(n, base, basePrefix, width)` for `n ≥ 0` -/
def padFormat (n b : Nat) (pfx : Bool) (width : Nat) : List Char :=
  let s := formatBase b n
  let p := if pfx then basePrefix b else []
  p ++ List.replicate (width - s.length - p.length) '0' ++ s

/-- num.go:63-68 `Bits.StringByteBits(base)` -/
def stringByteBits (b n : Nat) : List Char :=
  if n % 8 ≠ 0 then basePrefix b ++ formatBase b (n / 8) ++ ['.'] ++ formatBase b (n % 8)
  else basePrefix b ++ formatBase b (n / 8)

/-- num.go:72-74 `BitRange.StringByteBits(base)` -/
def rangeByteBits (b start len : Nat) : List Char :=
  stringByteBits b start ++ ['-'] ++ stringByteBits b (start + len)

/-- split at the first occurrence of `sep` -/
def splitAt1 (sep : Char) : List Char → List Char × Option (List Char)
  | [] => ([], none)
  | c :: cs =>
    if c = sep then ([], some cs) else
    let (a, r) := splitAt1 sep cs
    (c :: a, r)

/-- parse `[prefix]digits[.digits]` back to a number of bits -/
def parseByteBits (b : Nat) (cs : List Char) : Option Nat :=
  let p := basePrefix b
  if cs.take p.length ≠ p then none else
  match splitAt1 '.' (cs.drop p.length) with
  | (bytes, none) => (parseBase b bytes).map (· * 8)
  | (bytes, some bits) =>
    match parseBase b bytes, parseBase b bits with
    | some x, some y => if y < 8 ∧ y ≠ 0 then some (x * 8 + y) else none
    | _, _ => none

/-- parse `A-B` back to (start, stop) in bits -/
def parseRangeByteBits (b : Nat) (cs : List Char) : Option (Nat × Nat) :=
  match splitAt1 '-' cs with
  | (a, some r) =>
    match parseByteBits b a, parseByteBits b r with
    | some x, some y => some (x, y)
    | _, _ => none
  | _ => none

/-- strip an optional prefix, then parse: what a reader does with a printed address -/
def parseAddr (b : Nat) (cs : List Char) : Option Nat :=
  let p := basePrefix b
  if cs.take p.length ≠ p then none else parseBase b (cs.drop p.length)

/-- number of characters `PadFormatInt(n, b, true, 0)` needs: the specification of
    `mathx.DigitsInBase(n, true, b)` (num.go:20-29, computed there with float logarithms) -/
def digitsNeeded (b n : Nat) : Nat := (basePrefix b).length + (formatBase b n).length

/-! ### hexpairwriter -/

/-- hexpairwriter.go:38 `Pair` (table lookup there; all 256 entries are compared by the
    correspondence run) -/
def hexPair (b : UInt8) : List Char := [digitChar (b.toNat / 16), digitChar (b.toNat % 16)]

/-- hexpairwriter.go:60-69: `for h.offset < h.startLineOffset` — `n` iterations left -/
def hexPadGo (w : Nat) : Nat → Nat → List Char
  | 0, _ => []
  | n+1, off =>
    (if off % w = w - 1 then [' ', ' ', '\n'] else [' ', ' ', ' ']) ++ hexPadGo w n (off + 1)

/-- hexpairwriter.go:80-113: the `for i := range p` loop.  `buf` = `h.buf[:h.bufOffset]`.
    The result is what is written to the underlying writer during this loop. -/
def hexLoop (w : Nat) : Nat → List Char → List UInt8 → List Char
  | _, _, [] => []
  | _, buf, [b] => buf ++ hexPair b                       -- case i == len(p)-1: buf without the trailing ' '
  | off, buf, b :: b' :: rest =>
    if off % w = w - 1 then                                -- case i < len(p)-1 && lineOffset == width-1
      buf ++ hexPair b ++ ['\n'] ++ hexLoop w (off + 1) [] (b' :: rest)
    else hexLoop w (off + 1) (buf ++ hexPair b ++ [' ']) (b' :: rest)

/-- one `Write(p)` call in state `off`: (bytes written to the underlying writer, new offset).
    Between calls `bufOffset` is 0 or is overwritten (line 71-78), so `off` is the whole state. -/
def hexWrite (w start off : Nat) (p : List UInt8) : List Char × Nat :=
  let pad := hexPadGo w (start - off) off
  let off1 := max off start
  let buf := if off1 > start then [if off1 % w = 0 then '\n' else ' '] else []
  (pad ++ hexLoop w off1 buf p, off1 + p.length)

/-- a sequence of `Write` calls -/
def hexRun (w start : Nat) : Nat → List (List UInt8) → List Char
  | _, [] => []
  | off, p :: ps => (hexWrite w start off p).1 ++ hexRun w start (hexWrite w start off p).2 ps

/-! the layout as a specification: token `k` (absolute cell index) is its two characters
    followed by `sepAt k`, the last token has no separator -/

def sepAt (w k : Nat) : Char := if k % w = w - 1 then '\n' else ' '

def hexBody (w : Nat) : Nat → List UInt8 → List Char
  | _, [] => []
  | _, [b] => hexPair b
  | k, b :: b' :: rest => hexPair b ++ [sepAt w k] ++ hexBody w (k + 1) (b' :: rest)

def hexSpec (w start : Nat) (bs : List UInt8) : List Char := hexPadGo w start 0 ++ hexBody w start bs

/-! ### asciiwriter -/

/-- asciiwriter.go:17-22 -/
def safeAscii (b : UInt8) : Char := if b.toNat < 32 ∨ b.toNat > 126 then '.' else Char.ofNat b.toNat

/-- asciiwriter.go:39-48 -/
def asciiPadGo (w : Nat) : Nat → Nat → List Char
  | 0, _ => []
  | n+1, off => (if off % w = w - 1 then '\n' else ' ') :: asciiPadGo w n (off + 1)

/-- asciiwriter.go:55-87 -/
def asciiLoop (w : Nat) : Nat → List Char → List UInt8 → List Char
  | _, _, [] => []
  | _, buf, [b] => buf ++ [safeAscii b]
  | off, buf, b :: b' :: rest =>
    if off % w = w - 1 then buf ++ [safeAscii b] ++ ['\n'] ++ asciiLoop w (off + 1) [] (b' :: rest)
    else asciiLoop w (off + 1) (buf ++ [safeAscii b]) (b' :: rest)

def asciiWrite (w start off : Nat) (p : List UInt8) : List Char × Nat :=
  let pad := asciiPadGo w (start - off) off
  let off1 := max off start
  let buf := if off1 > start ∧ off1 % w = 0 then ['\n'] else []   -- asciiwriter.go:50-53
  (pad ++ asciiLoop w off1 buf p, off1 + p.length)

def asciiRun (w start : Nat) : Nat → List (List UInt8) → List Char
  | _, [] => []
  | off, p :: ps => (asciiWrite w start off p).1 ++ asciiRun w start (asciiWrite w start off p).2 ps

def asciiBody (w : Nat) : Nat → List UInt8 → List Char
  | _, [] => []
  | _, [b] => [safeAscii b]
  | k, b :: b' :: rest =>
    (safeAscii b :: (if k % w = w - 1 then ['\n'] else [])) ++ asciiBody w (k + 1) (b' :: rest)

def asciiSpec (w start : Nat) (bs : List UInt8) : List Char := asciiPadGo w start 0 ++ asciiBody w start bs

/-! ### reading the text back: what a person reading the dump sees -/

inductive Cell where
  | blank
  | byte (b : UInt8)
  | bad
deriving Repr, DecidableEq, Inhabited

def hexCell (a b : Char) : Cell :=
  if a = ' ' ∧ b = ' ' then .blank else
  match digitVal a, digitVal b with
  | some x, some y => if x < 16 ∧ y < 16 then .byte (UInt8.ofNat (16 * x + y)) else .bad
  | _, _ => .bad

/-- cells of a hex column text with their (row, column): row = number of line breaks before the
    cell, column = number of cells before it on its line -/
def parseHex : Nat → Nat → List Char → List (Nat × Nat × Cell)
  | r, c, a :: b :: s :: rest =>
    if s = '\n' then (r, c, hexCell a b) :: parseHex (r + 1) 0 rest
    else if s = ' ' then (r, c, hexCell a b) :: parseHex r (c + 1) rest
    else [(r, c, .bad)]
  | r, c, [a, b] => [(r, c, hexCell a b)]
  | _, _, [] => []
  | r, c, [_] => [(r, c, .bad)]

def parseAscii : Nat → Nat → List Char → List (Nat × Nat × Char)
  | _, _, [] => []
  | r, c, ch :: rest =>
    if ch = '\n' then parseAscii (r + 1) 0 rest else (r, c, ch) :: parseAscii r (c + 1) rest

/-- the `k`-th, `k+1`-th … cell in reading order sit at row `k / w`, column `k % w` -/
def expectCells {α} (w : Nat) : Nat → List α → List (Nat × Nat × α)
  | _, [] => []
  | k, x :: xs => (k / w, k % w, x) :: expectCells w (k + 1) xs

/-! ### columnwriter -/

/-- split a text at line feeds: complete lines and the unterminated rest
    (MultiLineColumn.Write, columnwriter.go:69-98, with `Wrap == false`) -/
def splitLines : List Char → List Char → List (List Char) × List Char
  | cur, [] => ([], cur)
  | cur, c :: cs =>
    if c = '\n' then let (ls, r) := splitLines [] cs; (cur :: ls, r)
    else splitLines (cur ++ [c]) cs

inductive Column where
  | multi (width : Option Nat) (text : List Char)   -- everything written since the last Flush/Reset
  | bar (s : List Char)

/-- `Lines()` before `PreFlush` -/
def Column.linesBefore : Column → Nat
  | .multi _ t => (splitLines [] t).1.length
  | .bar _ => 1

/-- the lines after `PreFlush` (an unterminated rest becomes a line) -/
def Column.linesAfter : Column → List (List Char)
  | .multi _ t => let (ls, r) := splitLines [] t; if r.isEmpty then ls else ls ++ [r]
  | .bar _ => []

/-- columnwriter.go:108-141 / 152-157 -/
def Column.flushLine (c : Column) (nr : Nat) (last : Bool) : List Char :=
  match c with
  | .bar s => s
  | .multi width _ =>
    let s := (c.linesAfter)[nr]?.getD []
    match width with
    | none => s
    | some wd =>
      let s := if s.length > wd then s.take wd else s
      if !last then s ++ List.replicate (wd - s.length) ' ' else s

def flushRow (cols : List Column) (nr : Nat) : List Char :=
  let n := cols.length
  (cols.zipIdx.map fun (c, i) => c.flushLine nr (i + 1 == n)).flatten

/-- columnwriter.go:176-206: `maxLines` is taken BEFORE `PreFlush` (quirk kept); one text line per row -/
def flush (cols : List Column) : List (List Char) :=
  let maxLines := (cols.map Column.linesBefore).foldl max 0
  (List.range maxLines).map (flushRow cols)

/-! ### dump.go -/

structure Opts where
  lineBytes : Nat      -- opts.LineBytes  (≥ 1, interp.go:1067)
  addrbase : Nat       -- 2..36 (interp.go:1065)
  sizebase : Nat
  displayBytes : Nat   -- 0 = unlimited
deriving Repr, Inhabited

/-- dump.go:389-398 -/
def hexHeader (o : Opts) : List Char :=
  (List.range o.lineBytes).foldl (fun acc i =>
    acc ++ padFormat i o.addrbase false 2 ++ (if i < o.lineBytes - 1 then [' '] else [])) []

def asciiHeader (o : Opts) : List Char :=
  (List.range o.lineBytes).foldl (fun acc i =>
    acc ++ (padFormat i o.addrbase false 2).drop ((padFormat i o.addrbase false 2).length - 1)) []

/-- the integers computed by dumpEx (dump.go:232-266, 278, 309) for a value with `len > 0` -/
structure Geom where
  stopBit : Nat
  lastDisplayBit : Nat
  bufferLastByte : Nat
  startByte : Nat
  stopByte : Nat
  lastDisplayByte : Nat
  displaySizeBits : Nat
  startLine : Nat
  startLineByteOffset : Nat
  startLineByte : Nat
  lastDisplayLine : Nat
  addrLines : Nat
  lastLineStopByte : Nat
deriving Repr, Inhabited

def geom (o : Opts) (rootBits start len : Nat) : Geom :=
  let lb8 := o.lineBytes * 8
  let bufferLastBit := rootBits - 1
  let stopBit := start + len - 1
  -- dump.go:236-247
  let lastDisplayBit :=
    if o.displayBytes > 0 ∧ len > o.displayBytes * 8 then
      let l0 := start + (o.displayBytes * 8 - 1)
      let l1 := if l0 % lb8 ≠ 0 then l0 + (lb8 - l0 % lb8 - 1) else l0
      if l1 > stopBit ∨ stopBit - l1 ≤ lb8 then stopBit else l1
    else stopBit
  let bufferLastByte := bufferLastBit / 8
  let startByte := start / 8
  let stopByte := stopBit / 8
  let lastDisplayByte := lastDisplayBit / 8
  let displaySizeBytes := lastDisplayByte - startByte + 1
  let maxDisplaySizeBits := bufferLastBit - startByte * 8 + 1
  let displaySizeBits := min (displaySizeBytes * 8) maxDisplaySizeBits
  let startLine := startByte / o.lineBytes
  let startLineByte := startLine * o.lineBytes
  let lastDisplayLine := lastDisplayByte / o.lineBytes
  let addrLines := lastDisplayLine - startLine + 1
  { stopBit, lastDisplayBit, bufferLastByte, startByte, stopByte, lastDisplayByte, displaySizeBits,
    startLine, startLineByteOffset := startByte % o.lineBytes, startLineByte, lastDisplayLine,
    addrLines, lastLineStopByte := startLineByte + addrLines * o.lineBytes - 1 }

/-- bytes of the root buffer from byte `startByte` covering `nbits` bits (bitiox.Range +
    CopyBitsBuffer: a trailing partial byte is zero padded — `root` holds the buffer's bytes with
    that padding already applied) -/
def dataBytes (root : List UInt8) (startByte nbits : Nat) : List UInt8 :=
  (root.drop startByte).take ((nbits + 7) / 8)

/-- the driver passes only a window of the root buffer: `root` = the bytes from byte `wo` on -/
def dataBytesW (root : List UInt8) (wo startByte nbits : Nat) : List UInt8 :=
  dataBytes root (startByte - wo) nbits

def untilWord : List Char := ['u', 'n', 't', 'i', 'l', ' ']
def endWord : List Char := [' ', '(', 'e', 'n', 'd', ')']

/-- dump.go:322-328 the "until" marker -/
def untilText (o : Opts) (rootBits start len : Nat) : List Char :=
  let stopBit := start + len - 1
  untilWord ++ stringByteBits o.addrbase stopBit
    ++ (if stopBit = rootBits - 1 then endWord else [])
    ++ [' ', '('] ++ padFormat ((len + 7) / 8) o.sizebase true 0 ++ [')']

/-- the three data columns of one value as dumpEx fills them (dump.go:269-331), `len > 0` -/
def dataColumns (o : Opts) (addrWidth : Nat) (indent : List Char) (root : List UInt8)
    (rootBits start len : Nat) (wo : Nat := 0) : List Char × List Char × List Char :=
  let g := geom o rootBits start len
  let bytes := dataBytesW root wo g.startByte g.displaySizeBits
  let addr := ((List.range g.addrLines).map fun i =>
      indent ++ padFormat (g.startLineByte + i * o.lineBytes) o.addrbase true addrWidth ++ ['\n']).flatten
  let endMark := g.lastDisplayByte = g.bufferLastByte ∧ g.lastDisplayByte ≠ g.lastLineStopByte
  let trunc := g.stopByte ≠ g.lastDisplayByte
  let hex := hexRun o.lineBytes g.startLineByteOffset 0 [bytes]
    ++ (if endMark then ['|', '\n'] else [])
    ++ (if trunc then ['\n'] ++ untilText o rootBits start len else [])
  let ascii := asciiRun o.lineBytes g.startLineByteOffset 0 [bytes]
    ++ (if endMark then ['|', '\n'] else [])
  let addr := addr ++ (if trunc then indent ++ ['*', '\n'] else [])
  (addr, hex, ascii)

/-- the seven columns of dump.go:376-385 with the tree column left empty -/
def mkCols (o : Opts) (addrColWidth : Nat) (addr hex ascii tree : List Char) : List Column :=
  [.multi (some addrColWidth) addr, .bar ['|'],
   .multi (some (o.lineBytes * 3 - 1)) hex, .bar ['|'],
   .multi (some o.lineBytes) ascii, .bar ['|'],
   .multi none tree]

/-- rows printed for one value at depth 0 (header flushed first because the value displays data,
    dump.go:120-127), tree column = `tree` (one line per entry).  `len > 0`. -/
def valueRows (o : Opts) (addrWidth : Nat) (root : List UInt8) (rootBits start len : Nat)
    (tree : List Char) (wo : Nat := 0) : List (List Char) :=
  let (addr, hex, ascii) := dataColumns o addrWidth [] root rootBits start len wo
  flush (mkCols o addrWidth [] (hexHeader o) (asciiHeader o) [])
    ++ flush (mkCols o addrWidth addr hex ascii tree)

/-- rows for a value that displays no data (`len = 0`): header and tree line share a row -/
def emptyRows (o : Opts) (addrWidth : Nat) (tree : List Char) : List (List Char) :=
  flush (mkCols o addrWidth [] (hexHeader o) (asciiHeader o) tree)

/-! ### a value inside a tree dump: nested root buffers (dump.go:101, 270-271, 306, 367-378, 409)

  `dump` computes `maxAddrIndentWidth = max over values (2*rootDepth + DigitsInBase(stop byte))`, makes
  the address column that wide (`colW`), and calls dumpEx with `addrWidth = maxAddrIndentWidth - rootDepth`.
  dumpEx writes `rootIndent` (`2*rootDepth` blanks) followed by the address padded to `addrWidth`:
  `colW + rootDepth` characters, which `FlushLine` cuts to `colW` (quirk kept: for `rootDepth ≥ 1`
  the last `rootDepth` digits of every address of a nested root buffer are lost — known finding
  `nested-root-address-truncated`). -/

def rootIndent (rootDepth : Nat) : List Char := List.replicate (2 * rootDepth) ' '

/-- the address text dumpEx writes for address `a` of a root buffer at `rootDepth` -/
def addrText (o : Opts) (colW rootDepth a : Nat) : List Char :=
  rootIndent rootDepth ++ padFormat a o.addrbase true (colW - rootDepth)

/-- what is visible of it after `FlushLine` (cut to the column width, then padded) -/
def addrCell (o : Opts) (colW rootDepth a : Nat) : List Char :=
  let t := addrText o colW rootDepth a
  let t := if t.length > colW then t.take colW else t
  t ++ List.replicate (colW - t.length) ' '

/-- rows printed by one dumpEx call inside a tree dump.  `header`: depth 0, root or format value
    (dump.go:120); `willDisplay`: dump.go:117; `tree`: the tree column's text. -/
def treeValueRows (o : Opts) (colW rootDepth : Nat) (header willDisplay : Bool) (root : List UInt8)
    (rootBits start len : Nat) (tree : List Char) (wo : Nat := 0) : List (List Char) :=
  if willDisplay then
    let (addr, hex, ascii) := dataColumns o (colW - rootDepth) (rootIndent rootDepth) root rootBits start len wo
    (if header then flush (mkCols o colW [] (hexHeader o) (asciiHeader o) []) else [])
      ++ flush (mkCols o colW addr hex ascii tree)
  else
    flush (mkCols o colW [] (if header then hexHeader o else []) (if header then asciiHeader o else []) tree)

end FqModel.Dump
