/-
  C04 — model of pkg/ranges/ranges.go `Gaps` (lines 47-109), transliterated.

  Go:  sort by Start (slices.SortFunc, unstable; the model uses an insertion sort —
       the result does not depend on the order of equal starts: `Props.C04.gaps_perm`,
       and the harness shuffles its inputs), then the i/j/madded merge loop, then the
       complement.
  Quirk kept: the merge condition is `m.Start <= r.Start && m.Stop()+1 >= r.Start`,
  i.e. a range that starts ONE BIT AFTER the current hull is merged into it and the
  bit in between is lost (the known one-bit-hole defect, DESIGN §1.8 #2).
-/
namespace FqModel.Gaps

structure Range where
  start : Int
  len : Int
deriving Repr, DecidableEq, Inhabited

def Range.stop (r : Range) : Int := r.start + r.len

/-- the merge condition of ranges.go:77, `one` = 1 on the current tree
    (`gapsWith 0` is the repaired algorithm, kept so that a future fix is recognised) -/
def mergeCond (one : Int) (m r : Range) : Bool :=
  decide (m.start ≤ r.start) && decide (m.stop + one ≥ r.start)

def extend (m r : Range) : Range :=
  if r.stop > m.stop then { m with len := r.stop - m.start } else m

/-- the i/j/madded loop of ranges.go:61-94 over the sorted slice;
    `cur = none`  : at the top of the outer loop,
    `cur = some m`: inside the inner loop with current hull `m`. -/
def mergeLoop (one : Int) : Option Range → List Range → List Range
  | none, [] => []
  | none, r :: rest => if r.len = 0 then mergeLoop one none rest else mergeLoop one (some r) rest
  | some m, [] => [m]
  | some m, r :: rest =>
    if mergeCond one m r then mergeLoop one (some (extend m r)) rest
    else m :: (if r.len = 0 then mergeLoop one none rest else mergeLoop one (some r) rest)

/-- stable insertion (structural, so that the kernel can evaluate it) -/
def insertByStart (x : Range) : List Range → List Range
  | [] => [x]
  | y :: ys => if y.start ≤ x.start then y :: insertByStart x ys else x :: y :: ys

def sortByStart : List Range → List Range
  | [] => []
  | x :: xs => insertByStart x (sortByStart xs)

def inner : List Range → List Range
  | a :: b :: rest => { start := a.stop, len := b.start - a.stop } :: inner (b :: rest)
  | _ => []

def complement (total : Range) (merged : List Range) : List Range :=
  match merged with
  | [] => [total]
  | m0 :: _ =>
    let lead := if m0.start ≠ total.start then [{ start := 0, len := m0.start : Range }] else []
    let l := merged.getLast!
    let trail := if l.stop ≠ total.stop then [{ start := l.stop, len := total.stop - l.stop : Range }] else []
    lead ++ inner merged ++ trail

def gapsWith (one : Int) (total : Range) (rs : List Range) : List Range :=
  if rs.isEmpty then [total] else complement total (mergeLoop one none (sortByStart rs))

/-- `ranges.Gaps` as it is on the current tree -/
def gaps := gapsWith 1

/-- the one-character repair (`m.Stop() >= r.Start`) -/
def gapsFixed := gapsWith 0

/-! ### the statement of the property, executable -/

def Range.contains (r : Range) (b : Int) : Bool := decide (r.start ≤ b) && decide (b < r.stop)

def covered (rs : List Range) (b : Int) : Bool := rs.any (·.contains b)

/-- the defect class: bit `b` is uncovered, some range (possibly empty) stops at `b`
    and some range (possibly empty) starts at `b+1` — a hole of exactly one bit between
    two ranges.  (Empty ranges count: fields 0:1 2:0 3:0 lose bits 1 and 2.) -/
def oneBitHole (rs : List Range) (b : Int) : Bool :=
  !covered rs b && rs.any (fun r => r.stop == b) && rs.any (fun r => r.start == b + 1)

inductive BitVerdict | ok | overlap | lost | knownHole
deriving Repr, DecidableEq, Inhabited

def bitVerdict (rs gs : List Range) (b : Int) : BitVerdict :=
  match covered rs b, covered gs b with
  | true, true => .overlap
  | true, false => .ok
  | false, true => .ok
  | false, false => if oneBitHole rs b then .knownHole else .lost

def parseRange (s : String) : Option Range :=
  match s.splitOn ":" with
  | [a, b] => do
    let x ← a.toInt?
    let y ← b.toInt?
    pure { start := x, len := y }
  | _ => none

def showRange (r : Range) : String := s!"{r.start}:{r.len}"

def showRanges (rs : List Range) : String :=
  if rs.isEmpty then "-" else " ".intercalate (rs.map showRange)

end FqModel.Gaps
