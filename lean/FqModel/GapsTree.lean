import FqModel.Tree
/-!
  C04 at the tree level — vocabulary of the statements about `D.FillGaps` on a decode tree (FqModel/Tree.lean:
  `finishDecode`, `addGaps`, `leafRanges`), executable so that the driver evaluates the same definitions on the
  IMPLEMENTATION's tree.  Core Lean only.  Theorems: Props/C04.lean (second half), lemmas: Proofs/GapsTree.lean.
-/
namespace FqModel.GapsTree
open FqModel FqModel.Tree FqModel.Gaps

/-- `r` moved by `s` bits (`v.Range.Start += decodeRange.Start`, decode.go:156) -/
def shift (s : Int) (r : Range) : Range := ⟨r.start + s, r.len⟩

/-- the range of a direct child that is a gap field (FlagGap) -/
def kidGap (k : T) : List Range := if k.i.kind == .gap && !k.isRoot then [⟨k.start, k.len⟩] else []

/-- the leaf ranges below a direct child that is not a gap field: non-compound values of the same buffer
    (a nested buffer root is skipped with everything below it, as `WalkRootPreOrder` does) -/
def kidLeaves (k : T) : List Range := if k.isRoot || k.i.kind == .gap then [] else leafRanges k

/-- the gap fields attached to the value `t` (its direct children with FlagGap) -/
def gapFields (t : T) : List Range := t.kids.flatMap kidGap

/-- every other leaf field of `t`'s buffer below `t` — the gap fields of nested length-delimited sub-decodes
    included: they are leaves like any other for the FillGaps call of `t` -/
def fieldLeaves (t : T) : List Range := t.kids.flatMap kidLeaves

/-- the leaf ranges of `t`'s buffer below `t`, relative to the decode range that starts at bit `s` of the buffer:
    what `D.FillGaps` collected (up to order) before `decode()` moved every range by `decodeRange.Start` -/
def localLeaves (s : Int) (t : T) : List Range := (fieldLeaves t).map (shift (-s))

/-- `decodeRange` of the top-level decode (decode.go:55-58): Options.Range, or the whole buffer when it is 0:0 -/
def decodeRange (cfg : Cfg) (input : Bits) : Int × Int :=
  if cfg.off = 0 ∧ cfg.len = 0 then (0, (input.length : Int)) else ((cfg.off : Int), (cfg.len : Int))

/-- order used by the driver's pre-sort -/
def leStart (a b : Range) : Bool := decide (a.start ≤ b.start)

/-- `ranges.Gaps` of the model, computed on a merge-sorted permutation of the input when every length is
    non-negative: the model's own sort is an insertion sort (quadratic on unsorted input, linear on sorted input), and
    `Props.C04.gaps_presorted` (from `gaps_perm`) proves the value is the same.  Used by the driver so that cases with
    10^5 ranges (run big) stay within the quick budget. -/
def gapsPresorted (total : Range) (rs : List Range) : List Range :=
  if rs.all (fun r => decide (0 ≤ r.len)) then gaps total (rs.mergeSort leStart) else gaps total rs

/-- the hull `first.start .. last.stop` of a list of ranges given in order (what a "one range per big array"
    shortcut would hand to `ranges.Gaps` instead of the elements); `[]` for no elements -/
def hullOf : List Range → List Range
  | [] => []
  | r :: rs => [⟨r.start, (rs.getLast?.getD r).stop - r.start⟩]

end FqModel.GapsTree
