import FqModel.Container
/-!
  C15 — GIF (`format/gif/gif.go:53-159`), as the decoder is: in an image block the `code_size` byte is read
  BEFORE the local colour table (known finding `gif-local-color-map-order`), a sub-block chain is either
  the lone zero terminator or sub-blocks until the byte after a sub-block's data is zero.
-/
namespace FqModel.Container

structure GifSub where
  count : Nat
  data : Bytes
  term : Option Nat
deriving Repr, DecidableEq

inductive GifBlock
  | ext (intro code : Nat) (subs : List GifSub)
  | image (sep left top width height : Nat) (lcm il : Bool) (zero bd cs : Nat) (lmap : Option Bytes) (subs : List GifSub)
deriving Repr, DecidableEq

structure GifFile where
  header : Bytes
  width : Nat
  height : Nat
  gcp : Bool
  cres : Nat
  zero : Nat
  bd : Nat
  black : Nat
  par : Nat
  gcm : Option Bytes
  blocks : List GifBlock
  term : Nat
deriving Repr, DecidableEq

def gif87a : Bytes := [0x47, 0x49, 0x46, 0x38, 0x37, 0x61]
def gif89a : Bytes := [0x47, 0x49, 0x46, 0x38, 0x39, 0x61]

/-- `func_data_bytes` / `image_bytes` loop (gif.go:85-97, 134-146): byte_count, data, and when the NEXT byte is
    zero it is taken as the terminator. Peeking at the end of the input is a decode error. -/
def gifSubs : Nat → Bytes → Option (List GifSub × Bytes)
  | 0, _ => none
  | fuel+1, bs =>
    match bs with
    | [] => none
    | c :: rest =>
      match takeN c.toNat rest with
      | none => none
      | some (d, rest) =>
        match rest with
        | [] => none                                     -- PeekUintBits(8) past the end
        | z :: rest' =>
          if z = 0 then some ([⟨c.toNat, d, some 0⟩], rest')
          else match gifSubs fuel rest with
            | none => none
            | some (more, r) => some (⟨c.toNat, d, none⟩ :: more, r)

/-- a whole sub-block chain (gif.go:87-104, 139-155): a chain that starts with a zero byte has no sub-blocks, only
    the `terminator` element (modelled as the empty list) -/
def gifChain (bs : Bytes) : Option (List GifSub × Bytes) :=
  match bs with
  | [] => none
  | z :: r => if z = 0 then some ([], r) else gifSubs bs.length bs

def gifBlock (bs : Bytes) : Option (GifBlock × Bytes) :=
  match bs with
  | [] => none
  | b :: rest =>
    if b = 0x21 then
      match rest with
      | [] => none
      | code :: rest =>
        match gifChain rest with
        | none => none
        | some (subs, r) => some (.ext 0x21 code.toNat subs, r)
    else if b = 0x2c then do
      let (l, rest) ← takeN 2 rest
      let (t, rest) ← takeN 2 rest
      let (w, rest) ← takeN 2 rest
      let (h, rest) ← takeN 2 rest
      let (p, rest) ← takeN 1 rest
      let f := leNat p
      let lcm := f.testBit 7
      let bd := f % 8 + 1
      let (cs, rest) ← takeN 1 rest                      -- gif.go:126: code_size BEFORE the local colour map
      let (lmap, rest) ← if lcm then (takeN (3 * 2 ^ bd) rest).map (fun x => (some x.1, x.2)) else some (none, rest)
      let (subs, rest) ← gifChain rest
      pure (.image 0x2c (leNat l) (leNat t) (leNat w) (leNat h) lcm (f.testBit 6) (f / 8 % 8) bd (leNat cs) lmap subs, rest)
    else none                                            -- Fatalf("unknown block")

/-- the `blocks` loop: until ';' -/
def gifBlocks : Nat → Bytes → Option (List GifBlock × Bytes)
  | 0, _ => none
  | fuel+1, bs =>
    match bs with
    | [] => none
    | b :: _ =>
      if b = 0x3b then some ([], bs) else
      match gifBlock bs with
      | none => none
      | some (blk, rest) =>
        match gifBlocks fuel rest with
        | none => none
        | some (more, r) => some (blk :: more, r)

def parseGif (bs : Bytes) : Option (GifFile × Bytes) := do
  let (hdr, rest) ← takeN 6 bs
  if hdr ≠ gif87a ∧ hdr ≠ gif89a then none else
  let (w, rest) ← takeN 2 rest
  let (h, rest) ← takeN 2 rest
  let (p, rest) ← takeN 1 rest
  let f := leNat p
  let gcp := f.testBit 7
  let bd := f % 8 + 1
  let (black, rest) ← takeN 1 rest
  let (par, rest) ← takeN 1 rest
  let (gcm, rest) ← if gcp then (takeN (3 * 2 ^ bd) rest).map (fun x => (some x.1, x.2)) else some (none, rest)
  let (blocks, rest) ← gifBlocks rest.length rest
  let (term, rest) ← takeN 1 rest
  pure ({ header := hdr, width := leNat w, height := leNat h, gcp, cres := f / 16 % 8 + 1, zero := f / 8 % 2, bd,
          black := leNat black, par := leNat par, gcm, blocks, term := leNat term }, rest)

/-! writers -/

def b2 (b : Bool) : Nat := if b then 1 else 0

def termBytes : Option Nat → Bytes
  | some t => [UInt8.ofNat t]
  | none => []

def writeGifSub (s : GifSub) : Bytes := UInt8.ofNat s.count :: s.data ++ termBytes s.term

def writeGifSubs (subs : List GifSub) : Bytes := subs.flatMap writeGifSub

/-- a chain without sub-blocks is the lone terminator -/
def writeGifChain (subs : List GifSub) : Bytes := if subs.isEmpty then [0] else writeGifSubs subs

def optBytes : Option Bytes → Bytes
  | some b => b
  | none => []

/-- the writer that matches the decoder as it is (code size before the local colour table) -/
def writeGifBlockAsIs : GifBlock → Bytes
  | .ext intro code subs => [UInt8.ofNat intro, UInt8.ofNat code] ++ writeGifChain subs
  | .image sep l t w h lcm il zero bd cs lmap subs =>
    [UInt8.ofNat sep] ++ toLE 2 l ++ toLE 2 t ++ toLE 2 w ++ toLE 2 h ++
    [UInt8.ofNat (128 * b2 lcm + 64 * b2 il + 8 * zero + (bd - 1)), UInt8.ofNat cs] ++ optBytes lmap ++ writeGifChain subs

def writeGifAsIs (g : GifFile) : Bytes :=
  g.header ++ toLE 2 g.width ++ toLE 2 g.height ++
  [UInt8.ofNat (128 * b2 g.gcp + 16 * (g.cres - 1) + 8 * g.zero + (g.bd - 1)), UInt8.ofNat g.black, UInt8.ofNat g.par] ++
  optBytes g.gcm ++ g.blocks.flatMap writeGifBlockAsIs ++ [UInt8.ofNat g.term]

/-- an image descriptor as the GIF specification lays it out: local colour table FIRST, then the LZW minimum code size -/
def writeGifImageSpec (l t w h : Nat) (il : Bool) (bd : Nat) (table : Option Bytes) (cs : Nat) (subs : List GifSub) : Bytes :=
  [0x2c] ++ toLE 2 l ++ toLE 2 t ++ toLE 2 w ++ toLE 2 h ++
  [UInt8.ofNat (128 * b2 table.isSome + 64 * b2 il + (bd - 1))] ++ optBytes table ++ [UInt8.ofNat cs] ++ writeGifChain subs

/-- what the decoder shows for such an image: without a local table the fields as written; with one, `code_size`
    is the table's first byte and `local_color_map` the rest of the table followed by the real code size -/
def gifImageView (l t w h : Nat) (il : Bool) (bd : Nat) (table : Option Bytes) (cs : Nat) (subs : List GifSub) : GifBlock :=
  match table with
  | none => .image 0x2c l t w h false il 0 bd cs none subs
  | some [] => .image 0x2c l t w h true il 0 bd cs (some []) subs
  | some (c0 :: tl) => .image 0x2c l t w h true il 0 bd c0.toNat (some (tl ++ [UInt8.ofNat cs])) subs

end FqModel.Container
