import FqModel.Reasm
/-!
  C19 — gopacket's TCP assembler, transliterated (core Lean only).

  Source: github.com/gopacket/gopacket v1.3.1 (/repo/go.mod), reassembly/tcpassembly.go, as fq configures it
  (/repo/format/inet/flowsdecoder/flowsdecoder.go:155-165: `reassembly.NewAssembler(streamPool)` with
  `DefaultAssemblerOptions`, i.e. MaxBufferedPagesPerConnection = MaxBufferedPagesTotal = 0; the only calls fq
  makes are `Assemble` per TCP segment (:270) and one `FlushAll` (:278); fq's `ReassembledSG` never calls
  `KeepFrom`, so `half.saved` is always nil; fq's `Accept` never writes `*start`).

    `Sequence.Difference` / `Sequence.Add`   :66-78    = `Reasm.seqDifference` / `Reasm.seqAdd` (Int, the
                                                          `+= uint32Max` off-by-one kept: known finding seq-wrap)
    `page`, `livePacket`                      :234-350  = `Page`, `Live`; `convertToPages` = `toPages` (1900 byte pages)
    `halfconnection`                          :407-422  = `Half` (nextSeq, first..last page list, closed,
                                                          queuedBytes/queuedPackets)
    `AssembleWithContext`                     :640-739  = `assemble`
    `checkOverlap`                            :752-887  = `checkOverlap` (`coLoop` = its `for cur != nil` loop)
    `overlapExisting`                         :930-956  = `overlapExisting`
    `handleBytes`                             :959-986  inside `assemble`
    `buildSG` / `sendToConnection` / `addContiguous`  :1001-1020, :1103-1117, :1149-1176 = `sendToConnection`, `addContiguous`
    `skipFlush`, `FlushAll`                   :1181-1197, :1317-1333 = `skipFlush`, `flushHalf`, `flushConn`

  NOT modelled (outside the fragment fq can reach, or unobservable through `ReassembledSG`):
    * the buffering limits (`handleBytes` :968-975) — both options are 0 in fq;
    * `FlushWithOptions` / `FlushCloseOlderThan` (timeouts) — never called by fq; capture timestamps therefore play
      no part (`page.seen`, `lastSeen` are dropped);
    * `half.saved` / `KeepFrom` / `addPending` / the keep branch of `cleanSG` — fq never keeps;
    * `ackSeq` (only logged), `overlapBytes` / `overlapPackets` (statistics nobody reads), the page cache
      (recycled pages keep a stale `end` flag on the non-last pages of a packet longer than 1900 bytes: `page.end`
      is written only for the last page, :335; the model gives those pages `end = false`);
    * `page.start` is never written by gopacket (:320-347), so a chunk that starts with a queued page reports
      start = false — modelled as such;
    * the stream pool (which connection a packet belongs to, `New` for the first packet) — Reasm.firstSeen;
      `Accept` (the FSM) is the parameter `accept` of `assemble` (`Reasm.acceptSegment` transliterates fq's).
  Go runtime faults: slice expressions with an index outside [0, len] set the sticky `fault` flag (a negative index
  panics in Go; an index in (len, cap] would expose stale bytes of the 1900 byte page buffer).
-/
namespace FqModel.Gopacket
open FqModel.Reasm

variable {α : Type}

/-- `invalidSequence` (:44) -/
def invalidSequence : Int := -1

/-- `pageBytes` (:197) -/
def pageBytes : Nat := 1900

/-- `page` (:234-242) as far as `ReassembledSG` can see it -/
structure Page (α : Type) where
  seq : Int
  bytes : List α
  stop : Bool          -- `end`
deriving Repr, BEq, DecidableEq

/-- `livePacket` (:285-291): the segment being handled (`a.cacheLP`) -/
structure Live (α : Type) where
  bytes : List α
  start : Bool
  stop : Bool
  seq : Int
deriving Repr, BEq, DecidableEq

/-- `halfconnection` (:407-422) -/
structure Half (α : Type) where
  nextSeq : Int := -1                  -- `invalidSequence` until a SYN was handled or a flush delivered something
  pages : List (Page α) := []          -- `first` … `last`
  closed : Bool := false
  queuedBytes : Nat := 0
  queuedPackets : Nat := 0
  fault : Bool := false
deriving Repr, BEq, DecidableEq

/-- one TCP segment as `AssembleWithContext` reads it (`t.Seq`, `t.SYN`, `t.FIN`, `t.RST`, `t.Payload`) -/
structure Pkt (α : Type) where
  seq : Int
  syn : Bool
  fin : Bool
  rst : Bool
  payload : List α
deriving Repr, BEq, DecidableEq

/-- Go `b[:k]`: (result, index out of range) -/
def sliceTo (b : List α) (k : Int) : List α × Bool := (b.take k.toNat, decide (k < 0) || decide ((b.length : Int) < k))

/-- Go `b[k:]` -/
def sliceFrom (b : List α) (k : Int) : List α × Bool := (b.drop k.toNat, decide (k < 0) || decide ((b.length : Int) < k))

/-- `livePacket.convertToPages` with skip 0 (:320-347): pages of at most 1900 bytes, consecutive sequence
    numbers, `end` on the last one.  Called only with `len(bytes) > 0`.  Fuel = number of bytes. -/
def toPagesAux : Nat → Int → List α → Bool → List (Page α)
  | 0, seq, bytes, stop => [⟨seq, bytes, stop⟩]
  | fuel + 1, seq, bytes, stop =>
    let length := min bytes.length pageBytes
    if (bytes.drop length).isEmpty then [⟨seq, bytes.take length, stop⟩]
    else ⟨seq, bytes.take length, false⟩ :: toPagesAux fuel (seqAdd seq length) (bytes.drop length) stop

def toPages (seq : Int) (bytes : List α) (stop : Bool) : List (Page α) := toPagesAux bytes.length seq bytes stop

/-- result of the loop of `checkOverlap`: the pages up to and including `cur` (reversed: head = `cur`), the pages
    from `next` on, what is left of the packet's bytes, fault flag -/
structure CoState (α : Type) where
  left : List (Page α)       -- reversed
  right : List (Page α)
  bytes : List α
  fault : Bool

/-- the loop `for cur != nil` of `checkOverlap` (:764-851).  `curs` = `cur, cur.prev, …`; `right` = the pages
    behind the insertion point, in list order.  (`next` of the Go code is `right.head?`; the Go code does not move
    `next` in case 6, but then `bytes` is empty and nothing is inserted, so the list is the same.) -/
def coLoop (start stop : Int) : List (Page α) → List (Page α) → List α → Bool → CoState α
  | [], right, bytes, fault => ⟨[], right, bytes, fault⟩
  | cur :: prev, right, bytes, fault =>
    -- :771 end < cur.start: continue (5)
    if seqDifference stop cur.seq > 0 then coLoop start stop prev (cur :: right) bytes fault
    else
      let curEnd := seqAdd cur.seq cur.bytes.length                       -- :780
      -- :782 start > cur.end: stop (1)
      if seqDifference start curEnd ≤ 0 then ⟨cur :: prev, right, bytes, fault⟩
      else
        let diffStart := seqDifference start cur.seq                        -- :789
        let diffEnd := seqDifference stop curEnd                            -- :790
        -- :793 end > cur.end && start < cur.start: drop (3)
        if diffEnd ≤ 0 && diffStart ≥ 0 then coLoop start stop prev right bytes fault
        -- :819 end > cur.end && start < cur.end: drop cur's end (2)
        else if diffEnd < 0 && seqDifference start curEnd > 0 then
          let r := sliceTo cur.bytes (-(seqDifference start cur.seq))      -- :823
          ⟨{ cur with bytes := r.1 } :: prev, right, bytes, fault || r.2⟩
        -- :828 start < cur.start && end > cur.start: drop cur's start (4)
        else if diffStart > 0 && seqDifference stop cur.seq < 0 then
          let k := -(seqDifference stop cur.seq)
          let r := sliceFrom cur.bytes k                                    -- :832
          coLoop start stop prev ({ cur with bytes := r.1, seq := seqAdd cur.seq k } :: right) bytes (fault || r.2)
        -- :838 end < cur.end && start > cur.start: replace bytes inside cur (6)
        else if diffEnd ≥ 0 && diffStart ≤ 0 then
          let a := -diffStart
          let bad := decide (a < 0) || decide ((cur.bytes.length : Int) < a + bytes.length)
          let nb := cur.bytes.take a.toNat ++ bytes ++ cur.bytes.drop (a.toNat + bytes.length)   -- :842 copy
          coLoop start stop prev ({ cur with bytes := if bad then cur.bytes else nb } :: right) [] (fault || bad)
        -- :845 "no overlap"
        else coLoop start stop prev (cur :: right) bytes fault

/-- `checkOverlap` (:752-887) for the live packet `lp`: trims / drops / overwrites queued pages that overlap
    `[lp.seq, lp.seq + len)`, and with `queue` inserts the packet's pages.  Returns the half and the remaining
    bytes of the live packet (`a.cacheLP.bytes`, :854). -/
def checkOverlap (h : Half α) (lp : Live α) (queue : Bool) : Half α × Live α :=
  let start := lp.seq
  let stop := seqAdd start lp.bytes.length                                   -- :757
  let r := coLoop start stop h.pages.reverse [] lp.bytes h.fault
  let lp' := { lp with bytes := r.bytes }
  if !r.bytes.isEmpty && queue then                                          -- :856
    ({ h with pages := r.left.reverse ++ toPages start r.bytes lp.stop ++ r.right,
              queuedPackets := h.queuedPackets + 1, queuedBytes := h.queuedBytes + r.bytes.length,
              fault := r.fault }, lp')
  else ({ h with pages := r.left.reverse ++ r.right, fault := r.fault }, lp')

/-- `overlapExisting` (:930-956): (remaining bytes, their sequence number, fault) -/
def overlapExisting (h : Half α) (start : Int) (bytes : List α) : List α × Int × Bool :=
  if h.nextSeq == invalidSequence then (bytes, start, false)                 -- :931
  else
    let diff := seqDifference start h.nextSeq                                -- :935
    if diff == 0 then (bytes, start, false)
    else
      let e : Int := bytes.length
      let s := if diff ≥ e then e else diff                                   -- :949-953
      let r := sliceFrom bytes s                                              -- :954
      (r.1, h.nextSeq, r.2)

/-- `addContiguous` (:1149-1176): pops the pages that continue at `lastSeq`; (pages taken, pages left, new lastSeq) -/
def addContiguous : List (Page α) → Int → List (Page α) × List (Page α) × Int
  | [], lastSeq => ([], [], lastSeq)
  | p :: rest, lastSeq =>
    if seqDifference lastSeq p.seq == 0 then
      let r := addContiguous rest (seqAdd lastSeq p.bytes.length)
      (p :: r.1, r.2.1, r.2.2)
    else ([], p :: rest, lastSeq)

/-- the head of `addContiguous` (:1150-1159): with no page nothing happens; `lastSeq == invalidSequence` (cannot
    happen: `Add` masks with 2^32-1) would start at the first page -/
def addContiguousTop (pages : List (Page α)) (lastSeq : Int) : List (Page α) × List (Page α) × Int :=
  match pages with
  | [] => ([], [], lastSeq)
  | p :: _ => addContiguous pages (if lastSeq == invalidSequence then p.seq else lastSeq)

/-- `sendToConnection` (:1103-1117) = `buildSG` (:1001-1020) + the call of `ReassembledSG` + `cleanSG` (everything
    released: fq keeps nothing) + `closeHalfConnection` when the last container has `end`.
    `first` = `a.ret[0]` as (seq, bytes, start, end).  Returns the half, the call, and `nextSeq` as returned. -/
def sendToConnection (s2c : Bool) (h : Half α) (fSeq : Int) (fBytes : List α) (fStart fStop : Bool) :
    Half α × SGCall α × Int :=
  let skip : Int := if h.nextSeq != invalidSequence then seqDifference h.nextSeq fSeq else -1     -- :1003-1006
  let last := seqAdd fSeq fBytes.length                                                            -- :1007
  let r := addContiguousTop h.pages last                                                           -- :1011
  let stop := match r.1.getLast? with                                                              -- :1019
    | some p => p.stop
    | none => fStop
  let call : SGCall α := ⟨s2c, fStart, stop, skip, fBytes ++ (r.1.map (·.bytes)).flatten⟩
  -- :1017 setStatsToSG resets the counters; :1110 end ⇒ closeHalfConnection (pages stay linked, never looked at again)
  ({ h with pages := r.2.1, queuedBytes := 0, queuedPackets := 0, closed := h.closed || stop }, call, r.2.2)

/-- `AssembleWithContext` (:640-739) after the connection lookup, on the half of the packet's direction.
    `accept` = what `half.stream.Accept` answered (:669). -/
def assemble (s2c : Bool) (h : Half α) (accept : Bool) (t : Pkt α) : Half α × Option (SGCall α) :=
  if !accept then (h, none)                                                   -- :669
  else if h.closed then (h, none)                                             -- :675
  else
    -- :693-724
    let (h, seq, queue) : Half α × Int × Bool :=
      if h.nextSeq == invalidSequence then
        if t.syn then
          let seq := seqAdd t.seq 1
          ({ h with nextSeq := seq }, seq, false)
        -- `else if a.start` (:701): a.start = nextSeq invalid && SYN (:662) and fq's Accept does not change it
        else (h, t.seq, true)
      else
        let diff := seqDifference h.nextSeq t.seq
        if diff > 0 then (h, t.seq, true) else (h, t.seq, false)
    let stop := t.rst || t.fin
    -- handleBytes (:959-986)
    if queue then
      let r := checkOverlap h ⟨t.payload, t.syn, stop, seq⟩ true            -- :967; the limits of :968 are off
      (r.1, none)                                                             -- a.ret empty: action.nextSeq stays invalid
    else
      let oe := overlapExisting h seq t.payload                              -- :978
      let h := { h with fault := h.fault || oe.2.2 }
      let r := checkOverlap h ⟨oe.1, t.syn, stop, oe.2.1⟩ false               -- :979
      let h := r.1
      let lp := r.2
      if !lp.bytes.isEmpty || stop || t.syn then                              -- :980
        let s := sendToConnection s2c h lp.seq lp.bytes lp.start lp.stop      -- :728
        let h := s.1
        -- :730-735
        let h := if s.2.2 != invalidSequence then
            { h with nextSeq := if t.fin then seqAdd s.2.2 1 else s.2.2 }
          else h
        (h, some s.2.1)
      else (h, none)

/-- `skipFlush` (:1181-1197) -/
def skipFlush (s2c : Bool) (h : Half α) : Half α × Option (SGCall α) :=
  match h.pages with
  | [] => ({ h with closed := true }, none)                                  -- :1187-1190
  | p :: rest =>
    -- :1192 addNextFromConn pops the first page; page.start is never set
    let s := sendToConnection s2c { h with pages := rest } p.seq p.bytes false p.stop
    let h := s.1
    -- `buildSG` reads `isEnd` of the LAST container: if nothing contiguous followed, that is `p`
    let h := if s.2.2 != invalidSequence then { h with nextSeq := s.2.2 } else h   -- :1194-1196
    (h, some s.2.1)

/-- `FlushAll` (:1317-1333) on one half: `for !half.closed { skipFlush }`; fuel = pages + 1 suffices -/
def flushLoop (s2c : Bool) : Nat → Half α → Half α × List (SGCall α)
  | 0, h => (h, [])
  | fuel + 1, h =>
    if h.closed then (h, [])
    else
      let r := skipFlush s2c h
      let rest := flushLoop s2c fuel r.1
      (rest.1, (match r.2 with | some c => [c] | none => []) ++ rest.2)

def flushHalf (s2c : Bool) (h : Half α) : Half α × List (SGCall α) := flushLoop s2c (h.pages.length + 1) h

/-- run one direction: the calls made while the packets arrive -/
def runHalf (s2c : Bool) : Half α → List (Bool × Pkt α) → Half α × List (SGCall α)
  | h, [] => (h, [])
  | h, (acc, t) :: rest =>
    let r := assemble s2c h acc t
    let more := runHalf s2c r.1 rest
    (more.1, (match r.2 with | some c => [c] | none => []) ++ more.2)

/-- the whole life of one direction in fq: packets, then the single `FlushAll`: (calls before, calls of the flush) -/
def traceOf (s2c : Bool) (pkts : List (Bool × Pkt α)) : List (SGCall α) × List (SGCall α) :=
  let r := runHalf s2c {} pkts
  (r.2, (flushHalf s2c r.1).2)

/-- `connection` (:449-453): the two halves; `FlushAll` handles `s2c` first, then `c2s` (:1322) -/
structure GConn (α : Type) where
  c2s : Half α := {}
  s2c : Half α := {}
deriving Repr, BEq, DecidableEq

def assembleConn (c : GConn α) (s2c : Bool) (accept : Bool) (t : Pkt α) : GConn α × Option (SGCall α) :=
  if s2c then
    let r := assemble true c.s2c accept t
    ({ c with s2c := r.1 }, r.2)
  else
    let r := assemble false c.c2s accept t
    ({ c with c2s := r.1 }, r.2)

def flushConn (c : GConn α) : GConn α × List (SGCall α) :=
  let a := flushHalf true c.s2c
  let b := flushHalf false c.c2s
  (⟨b.1, a.1⟩, a.2 ++ b.2)

end FqModel.Gopacket
