/-!
  C18 — model of what concurrent / repeated decode jobs share in one fq process (DESIGN §20).

  Process state
    * `cells : K → Option V` — the lazily initialised, `sync.Once`-guarded shared data:
        - the format registry: `Registry.resolveGroups` (pkg/interp/registry.go:77-101) fills the
          dependency groups and sorts every group inside `formatResolveOnce.Do`; every reader
          (`Group`, `MustGroup`, `Groups`, `MustAll`, registry.go:103-128) calls it first;
        - `instrMap` of format/wasm (wasm.go:601-605, `instrMapOnce.Do`);
        - the lazily compiled regexp of format/xml/html.go (internal/lazyre, mutex-guarded compile-once).
      `none` = not yet run, `some v` = the value the first caller computed.  `compute k` is the
      function the Once body evaluates; it reads only data that is fixed when `main` starts
      (the registrations made by the `init` functions).
    * `glob : G` — all other package-level variables (format tables, `DefaultInArg` structs inside the
      registered `decode.Format`s, …).
    * per job `i`: `JobSt = (loc, prog)`: `loc : L` is everything the job owns — its `Interp` clone
      (interp.go:796-801 `ci := *i`), its `decode.D`s with their `readBuf` (decode.go:316-324: allocated by
      the D on first use, handed down to sub-decoders through `Options.ReadBuf`, never stored outside the
      job), its deep copy of the default in-args (pkg/interp/decode.go:242-260 `copystructure.Copy`), its
      output buffer; `prog` the atomic steps it still has to execute.

  A step is one of
      once k cont    `Once.Do(fill k)` and read cell k   (Registry.Group, decodeWASM, htmlMagicRE.Must)
      read cont      read package-level tables            (scalar maps, DefaultInArg, opcodes …)
      loc f          read/write job-owned memory only
      check ok       a failing decode: the rest of the job is dropped when `ok loc` is false
      write f        write a package-level variable OUTSIDE a Once — what the regenerated fact
                     `Gen.writes` (Props.C18.globals_ok) shows does not exist in /repo.

  Small-step interleaving semantics: a schedule is a list of job indices; `stepJob i` runs the
  next step of job `i` atomically (nothing happens when it has finished).  The Go memory model is NOT
  modelled: steps are sequentially consistent atoms (that Once.Do and Mutex establish the needed
  happens-before edges is what the race detector monitors at run time).

  Core Lean only.
-/
namespace FqModel.Isolation

inductive Step (K V G L : Type) where
  | once (k : K) (cont : V → L → L)
  | read (cont : G → L → L)
  | loc (f : L → L)
  | check (ok : L → Bool)
  | write (f : L → G → G)

def Step.isWrite {K V G L : Type} : Step K V G L → Bool
  | .write _ => true
  | _ => false

structure JobSt (K V G L : Type) where
  loc : L
  prog : List (Step K V G L)

structure Cfg (K V G L : Type) where
  cells : K → Option V
  glob : G
  job : Nat → JobSt K V G L

section
variable {K V G L : Type} [DecidableEq K]

def upd {α : Type} (f : Nat → α) (i : Nat) (a : α) : Nat → α := fun n => if n = i then a else f n

def setCell (cells : K → Option V) (k : K) (v : V) : K → Option V :=
  fun k' => if k' = k then some v else cells k'

/-- `sync.Once.Do(f)` followed by a read of what f initialised: the first caller computes,
    every later caller observes the stored result. -/
def resolve (compute : K → V) (cells : K → Option V) (k : K) : (K → Option V) × V :=
  match cells k with
  | some v => (cells, v)
  | none => (setCell cells k (compute k), compute k)

/-- the value cell k has or will ever have -/
def cellVal (compute : K → V) (cells : K → Option V) (k : K) : V :=
  match cells k with
  | some v => v
  | none => compute k

/-- one atomic step of job `i` -/
def stepJob (compute : K → V) (i : Nat) (c : Cfg K V G L) : Cfg K V G L :=
  match (c.job i).prog with
  | [] => c
  | .once k cont :: rest =>
    let r := resolve compute c.cells k
    { c with cells := r.1, job := upd c.job i ⟨cont r.2 (c.job i).loc, rest⟩ }
  | .read cont :: rest => { c with job := upd c.job i ⟨cont c.glob (c.job i).loc, rest⟩ }
  | .loc f :: rest => { c with job := upd c.job i ⟨f (c.job i).loc, rest⟩ }
  | .check ok :: rest =>
    { c with job := upd c.job i ⟨(c.job i).loc, if ok (c.job i).loc then rest else []⟩ }
  | .write f :: rest => { c with glob := f (c.job i).loc c.glob, job := upd c.job i ⟨(c.job i).loc, rest⟩ }

/-- run a schedule -/
def interleave (compute : K → V) (sched : List Nat) (c : Cfg K V G L) : Cfg K V G L :=
  sched.foldl (fun c i => stepJob compute i c) c

/-! ### the sequential specification: a job as a pure function -/

/-- one step of a job run ALONE against fixed Once values `cv` and fixed tables `g` -/
def stepPure (cv : K → V) (g : G) (s : JobSt K V G L) : JobSt K V G L :=
  match s.prog with
  | [] => s
  | .once k cont :: rest => ⟨cont (cv k) s.loc, rest⟩
  | .read cont :: rest => ⟨cont g s.loc, rest⟩
  | .loc f :: rest => ⟨f s.loc, rest⟩
  | .check ok :: rest => ⟨s.loc, if ok s.loc then rest else []⟩
  | .write _ :: rest => ⟨s.loc, rest⟩

def runSteps (cv : K → V) (g : G) : Nat → JobSt K V G L → JobSt K V G L
  | 0, s => s
  | n + 1, s => runSteps cv g n (stepPure cv g s)

/-- the job run to completion on its own (its program has at most `prog.length` steps) -/
def runAlone (cv : K → V) (g : G) (s : JobSt K V G L) : L :=
  (runSteps cv g s.prog.length s).loc

/-- "shared write-set ⊆ {Once}": no job still has a `write` step -/
def NoWrite (c : Cfg K V G L) : Prop := ∀ i, ∀ s ∈ (c.job i).prog, s.isWrite = false

/-- every job of the configuration has finished -/
def Finished (c : Cfg K V G L) (n : Nat) : Prop := ∀ i, i < n → (c.job i).prog = []

/-- initial configuration of a job list: nothing resolved yet -/
def mkCfg [Inhabited L] (g : G) (jobs : List (JobSt K V G L)) : Cfg K V G L :=
  { cells := fun _ => none, glob := g, job := fun i => jobs.getD i ⟨default, []⟩ }

end

/-! ### what the registry's Once body computes: sorted groups (registry.go:68-75, 77-101)

    `resolveGroups` walks `r.groups` — a Go map, so in an order that differs from run to run — appends the
    formats of the dependency groups and sorts every group with `sortFormats`.  The comparator
    (registry.go:69-74): equal ProbeOrder → compare names, else compare ProbeOrder.  Format names are
    unique (`Registry.Format` panics on a second registration of a name, registry.go:44-46). -/

structure Fmt where
  name : String
  probeOrder : Nat
deriving DecidableEq, Repr

/-- `sortFormats`' comparator as a `≤` (cmp result ≤ 0) -/
def fmtLe (a b : Fmt) : Bool :=
  if a.probeOrder = b.probeOrder then decide (a.name ≤ b.name) else decide (a.probeOrder < b.probeOrder)

/-- the model sorts with merge sort; `Props.C18.any_sort_agrees` shows that every correct sorting
    algorithm (Go's pdqsort in slices.SortFunc included) returns this very list -/
def sortFormats (l : List Fmt) : List Fmt := l.mergeSort fmtLe

/-! ### a concrete instance used for the non-vacuity examples and the necessity witness

    K = Unit (the registry), V = Nat (resolved groups, abstracted), G = Nat (the MaxUnknown field of a
    shared default in-arg struct), L = List Nat (what the job prints).  -/

abbrev TStep := Step Unit Nat Nat (List Nat)

/-- a well-behaved decode job: resolve the registry, read the default in-arg, work on its own copy -/
def goodJob (opt : Option Nat) : List TStep :=
  [ .once () (fun groups out => groups :: out),
    .read (fun dflt out => (match opt with | some o => o | none => dflt) :: out),
    .check (fun out => out.length < 10),
    .loc (fun out => out.length :: out) ]

/-- the seeded defect "ParseOptsFn applies the options onto the shared default struct": a write step -/
def leakyJob (opt : Nat) : List TStep :=
  [ .once () (fun groups out => groups :: out),
    .write (fun _ _ => opt),
    .read (fun dflt out => dflt :: out) ]

def tcfg (jobs : List (List TStep)) : Cfg Unit Nat Nat (List Nat) :=
  mkCfg 50 (jobs.map (fun p => ⟨[], p⟩))

end FqModel.Isolation
