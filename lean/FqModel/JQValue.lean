import FqModel.Bits
/-!
  C08 — executable model of fq's decode values as jq values.

  Mirrors (file:line refer to /repo and to the gojq fork github.com/wader/gojq used by fq):
    pkg/interp/decode.go      289-302  valueOrFallbackKey / valueOrFallbackHas
                              306-321  toValue (deep conversion, raw bits through Binary + bits_format)
                              334-437  makeDecodeValueOut: scalar kind -> gojqx wrapper, ScalarValue = sym ?? actual
                              479-636  decodeValueBase: the `_`-prefixed extra keys
                              640-668  decodeValue (scalar) : Key/Has layered over the wrapper
                              674-757  ArrayDecodeValue,  761-860 StructDecodeValue
    internal/gojqx/types.go   221-533  Array, Object, Number, String, Boolean, Null, Base, Lazy
    internal/gojqx/totype.go  36-101   ToGoJQValueFn
    pkg/scalar/scalar_gen.go           ScalarValue: `if s.Sym != nil { return s.Sym }; return s.Actual`
    gojq func.go / execute.go / operator.go / compare.go / encoder.go: the dispatch sites that call
    JQValue* (funcLength, funcKeys, funcHas, funcIndex2, funcSlice, sliceJQValue, opeach, funcToNumber,
    funcToEntries, TypeOf, opobject) and the ones that go through JQValueToGoJQ (binopTypeSwitch,
    Compare, encoder, toString/toArray/toBoolean/isNull, sortItems).

  Go integers: `int`, `int64`, `uint64` and `*big.Int` are one unbounded `Int` here (gojq's own
  arithmetic promotes to *big.Int on overflow, operator.go:421-426); only the places where the Go
  code distinguishes them are modelled explicitly (`key.(int)` in JQValueHas, `toInt` clamping).
  float64 is a bit pattern; arithmetic on it uses Lean's `Float` (IEEE binary64 as in Go), formatting
  a float as text is a parameter (`fmtFloat`), never computed here.
  Strings are Go strings = byte lists (they may be invalid UTF-8: `tovalue` of raw bits);
  `gojqx.String` is `[]rune`.
-/
namespace FqModel.JQValue
open FqModel

abbrev Bytes := List UInt8

/-! ### plain JSON values (what gojq computes with: nil, bool, int/*big.Int, float64, string, []any, map[string]any) -/

inductive JV where
  | null
  | bool (b : Bool)
  | int (i : Int)
  | float (bits : UInt64)
  | str (s : Bytes)
  | arr (xs : List JV)
  | obj (kvs : List (Bytes × JV))   -- a Go map: kept sorted by key, keys distinct (see `objSet`)
deriving Repr, Inhabited

/-! ### decode values -/

/-- the `Actual` of a scalar (pkg/scalar: Uint, Sint, BigInt, Flt, Str, Bool, Any, BitBuf) -/
inductive SKind where
  | uint (n : Nat)
  | sint (i : Int)
  | big (i : Int)
  | flt (bits : UInt64)
  | str (s : Bytes)
  | bool (b : Bool)
  | any (j : JV)          -- scalar.Any: nil (the "null" kind), or any JSON value (json/yaml/… formats)
  | raw (bs : Bytes)      -- scalar.BitBuf: the bits of the field, zero padded to bytes (CopyBits)
deriving Repr, Inhabited

/-- a decode tree. `sym = none` is Go `nil` (a symbolic JSON null is the same as no symbol:
    `if s.Sym != nil`). `synthetic`: scalar.FlagSynthetic (value not backed by bits). -/
inductive DV where
  | struct (fields : List (Bytes × DV))
  | array (elems : List DV)
  | scalar (k : SKind) (sym : Option JV) (synthetic : Bool)
deriving Repr, Inhabited

/-- a jq value during evaluation: plain, or a decode value, or a plain container holding decode values -/
inductive Val where
  | null
  | bool (b : Bool)
  | int (i : Int)
  | float (bits : UInt64)
  | str (s : Bytes)
  | arr (xs : List Val)
  | obj (kvs : List (Bytes × Val))
  | dv (d : DV)                      -- makeDecodeValue(d, decodeValueValue)
  | ext (name : Bytes)               -- the value of an `_`-prefixed extra key (outside the model)
  | garr (xs : List JV)              -- a bare gojqx.Array (what gojqx.Array.JQValueSlice returns)
deriving Repr, Inhabited

inductive Err where
  | expectedArray          -- gojqx.ExpectedArrayError / ExpectedArrayWithIndexError / gojq.expectedArrayError
  | expectedObject         -- gojqx.ExpectedObjectError / ExpectedObjectWithKeyError / gojq.expectedObjectError
  | iterator               -- gojqx.IteratorError / gojq.iteratorError
  | funcType (name : String) -- gojqx.FuncTypeNameError{Name} / gojq.func0TypeError / func1TypeError
  | hasKeyType             -- gojqx.HasKeyTypeError
  | invalidNumber          -- tonumber of a string that is not a number
  | objectKey              -- gojq.objectKeyNotStringError
  | binop (name : String)  -- gojq.binopTypeError
  | unmodelled (why : String) -- the model declines (float text, non-integer number text)
deriving Repr, Inhabited, DecidableEq

inductive Outcome (α : Type) where
  | ok (a : α)
  | err (e : Err)
  | panic (why : String)   -- Go runtime fault (index out of range, makeslice)
deriving Repr, Inhabited

/-! ### byte strings, UTF-8 exactly as Go's unicode/utf8 -/

def bytesLt : Bytes → Bytes → Bool
  | [], [] => false
  | [], _ :: _ => true
  | _ :: _, [] => false
  | a :: as, b :: bs => if a < b then true else if b < a then false else bytesLt as bs

def bytesEq : Bytes → Bytes → Bool
  | [], [] => true
  | a :: as, b :: bs => a == b && bytesEq as bs
  | _, _ => false

def ofAscii (s : String) : Bytes := s.toList.map (fun c => c.toNat.toUInt8)

def isCont (b : UInt8) : Bool := 0x80 ≤ b && b ≤ 0xBF

/-- utf8.DecodeRune on a non-empty string: (rune, size); invalid ⇒ (U+FFFD, 1) -/
def decode1 : Bytes → Nat × Nat
  | [] => (0xFFFD, 1)
  | b0 :: rest =>
    let n0 := b0.toNat
    if b0 < 0x80 then (n0, 1)
    else if b0 < 0xC2 then (0xFFFD, 1)
    else if b0 ≤ 0xDF then
      match rest with
      | b1 :: _ => if isCont b1 then ((n0 % 32) * 64 + b1.toNat % 64, 2) else (0xFFFD, 1)
      | _ => (0xFFFD, 1)
    else if b0 ≤ 0xEF then
      match rest with
      | b1 :: b2 :: _ =>
        let lo : UInt8 := if b0 == 0xE0 then 0xA0 else 0x80
        let hi : UInt8 := if b0 == 0xED then 0x9F else 0xBF
        if lo ≤ b1 && b1 ≤ hi && isCont b2 then
          ((n0 % 16) * 4096 + (b1.toNat % 64) * 64 + b2.toNat % 64, 3)
        else (0xFFFD, 1)
      | _ => (0xFFFD, 1)
    else if b0 ≤ 0xF4 then
      match rest with
      | b1 :: b2 :: b3 :: _ =>
        let lo : UInt8 := if b0 == 0xF0 then 0x90 else 0x80
        let hi : UInt8 := if b0 == 0xF4 then 0x8F else 0xBF
        if lo ≤ b1 && b1 ≤ hi && isCont b2 && isCont b3 then
          ((n0 % 8) * 262144 + (b1.toNat % 64) * 4096 + (b2.toNat % 64) * 64 + b3.toNat % 64, 4)
        else (0xFFFD, 1)
      | _ => (0xFFFD, 1)
    else (0xFFFD, 1)

/-- the string cut into the byte chunks Go's `range s` visits (an invalid byte is its own chunk) -/
def chunksF : Nat → Bytes → List Bytes
  | 0, _ => []
  | _, [] => []
  | f + 1, bs => let n := (decode1 bs).2; bs.take n :: chunksF f (bs.drop n)

def chunks (bs : Bytes) : List Bytes := chunksF bs.length bs

/-- `[]rune(s)` -/
def decodeRunes (bs : Bytes) : List Nat := (chunks bs).map (fun c => (decode1 c).1)

/-- utf8.AppendRune: surrogates and runes above U+10FFFF are written as U+FFFD -/
def encodeRune (r : Nat) : Bytes :=
  if r < 0x80 then [r.toUInt8]
  else if r < 0x800 then [(0xC0 + r / 64).toUInt8, (0x80 + r % 64).toUInt8]
  else if (0xD800 ≤ r && r ≤ 0xDFFF) || r > 0x10FFFF then [0xEF, 0xBF, 0xBD]
  else if r < 0x10000 then [(0xE0 + r / 4096).toUInt8, (0x80 + r / 64 % 64).toUInt8, (0x80 + r % 64).toUInt8]
  else [(0xF0 + r / 262144).toUInt8, (0x80 + r / 4096 % 64).toUInt8, (0x80 + r / 64 % 64).toUInt8,
        (0x80 + r % 64).toUInt8]

/-- `string(runes)` -/
def encodeRunes (rs : List Nat) : Bytes := rs.flatMap encodeRune

/-- what a Go string becomes when it goes through `[]rune` and back: every invalid byte ⇒ U+FFFD -/
def sanitize (bs : Bytes) : Bytes := encodeRunes (decodeRunes bs)

def validUTF8 (bs : Bytes) : Bool := bytesEq (sanitize bs) bs

/-! ### Go maps as sorted association lists -/

def objSet {α} (k : Bytes) (v : α) : List (Bytes × α) → List (Bytes × α)
  | [] => [(k, v)]
  | (k', v') :: rest =>
    if bytesLt k k' then (k, v) :: (k', v') :: rest
    else if bytesEq k k' then (k, v) :: rest
    else (k', v') :: objSet k v rest

def objGet {α} (k : Bytes) : List (Bytes × α) → Option α
  | [] => none
  | (k', v) :: rest => if bytesEq k k' then some v else objGet k rest

def objHas {α} (k : Bytes) (kvs : List (Bytes × α)) : Bool := (objGet k kvs).isSome

/-- build a Go map by assigning the pairs in order (later assignments win) -/
def objOfList {α} (kvs : List (Bytes × α)) : List (Bytes × α) :=
  kvs.foldl (fun m kv => objSet kv.1 kv.2 m) []

/-! ### conversions -/

mutual
def Val.ofJV : JV → Val
  | .null => .null
  | .bool b => .bool b
  | .int i => .int i
  | .float f => .float f
  | .str s => .str s
  | .arr xs => .arr (Val.ofJVs xs)
  | .obj kvs => .obj (Val.ofJVkvs kvs)
def Val.ofJVs : List JV → List Val
  | [] => []
  | x :: xs => Val.ofJV x :: Val.ofJVs xs
def Val.ofJVkvs : List (Bytes × JV) → List (Bytes × Val)
  | [] => []
  | (k, v) :: kvs => (k, Val.ofJV v) :: Val.ofJVkvs kvs
end

/-- Go `int` range (64 bit) -/
def minInt : Int := -9223372036854775808
def maxInt : Int := 9223372036854775807
def isGoInt (i : Int) : Bool := decide (minInt ≤ i) && decide (i ≤ maxInt)

/-- ScalarValue(): the symbolic value if there is one, else the actual value (scalar_gen.go) -/
inductive SV where
  | j (v : JV)
  | raw (bs : Bytes)

def actualSV : SKind → SV
  | .uint n => .j (.int n)
  | .sint i => .j (.int i)
  | .big i => .j (.int i)
  | .flt f => .j (.float f)
  | .str s => .j (.str s)
  | .bool b => .j (.bool b)
  | .any j => .j j
  | .raw bs => .raw bs

def scalarValue (k : SKind) (sym : Option JV) : SV :=
  match sym with
  | some .null => actualSV k     -- unreachable from Go (nil), kept total
  | some s => .j s
  | none => actualSV k

/-- the gojqx wrapper makeDecodeValueOut chooses (decode.go:347-430) -/
inductive G where
  | int (i : Int)            -- gojqx.Number{V: int | *big.Int}
  | flt (bits : UInt64)      -- gojqx.Number{V: float64}
  | str (rs : List Nat)      -- gojqx.String([]rune)
  | bool (b : Bool)
  | null
  | arr (xs : List JV)       -- gojqx.Array
  | obj (kvs : List (Bytes × JV)) -- gojqx.Object (a Go map: iteration order is not specified)
  | lazy (bs : Bytes)        -- &gojqx.Lazy{Type:"string", IsScalar:true, Fn: String([]rune(bytes))}
deriving Repr, Inhabited

def wrapSV : SV → G
  | .j .null => .null
  | .j (.bool b) => .bool b
  | .j (.int i) => .int i
  | .j (.float f) => .flt f
  | .j (.str s) => .str (decodeRunes s)     -- gojqx.String(vvv): string -> []rune
  | .j (.arr xs) => .arr xs
  | .j (.obj kvs) => .obj kvs
  | .raw bs => .lazy bs

def wrapScalar (k : SKind) (sym : Option JV) : G := wrapSV (scalarValue k sym)

/-- is this scalar's jq value the lazy raw-bits string (decodeValue.isRaw) -/
def isRawValue (k : SKind) (sym : Option JV) : Bool :=
  match scalarValue k sym with
  | .raw _ => true
  | _ => false

/-- float64 |x|: math.Abs clears the sign bit -/
def absBits (b : UInt64) : UInt64 := b &&& 0x7FFFFFFFFFFFFFFF

/-! ### the gojqx wrappers (types.go) -/

def intsUpTo (n : Nat) : List Val := (List.range n).map (fun (i : Nat) => Val.int (Int.ofNat i))

/-- `xs[i]` with Go's bounds check -/
def goIndex {α} (xs : List α) (i : Int) : Outcome α :=
  if i < 0 then .panic "index out of range"
  else match xs[i.toNat]? with
    | some x => .ok x
    | none => .panic "index out of range"

/-- `xs[s:e]` with Go's bounds check -/
def goSlice {α} (xs : List α) (s e : Int) : Outcome (List α) :=
  if s < 0 || e < s || e > xs.length then .panic "slice bounds out of range"
  else .ok ((xs.drop s.toNat).take (e.toNat - s.toNat))

def G.length : G → Outcome Val
  | .int i => .ok (.int (if i ≥ 0 then i else -i))     -- types.go:306-321 (after the fix of §1.8 #5)
  | .flt f => .ok (.float (absBits f))
  | .str rs => .ok (.int rs.length)
  | .bool _ => .err (.funcType "length")
  | .null => .ok (.int 0)
  | .arr xs => .ok (.int xs.length)
  | .obj kvs => .ok (.int kvs.length)
  | .lazy bs => .ok (.int (decodeRunes bs).length)

def G.sliceLen : G → Outcome Val
  | .str rs => .ok (.int rs.length)
  | .arr xs => .ok (.int xs.length)
  | .lazy bs => .ok (.int (decodeRunes bs).length)
  | .null => .ok .null       -- types.go Null.JQValueSliceLen returns nil (fix "index and slice of a decode value null should be null")
  | _ => .err .expectedArray

def strIndex (rs : List Nat) (i : Int) : Outcome Val :=
  if i < 0 then .ok (.str [])        -- types.go:360-362: "" for the out-of-range markers -1/-2
  else match goIndex rs i with
    | .ok r => .ok (.str (encodeRune r))  -- fmt.Sprintf("%c", r)
    | .err e => .err e
    | .panic w => .panic w

def strSlice (rs : List Nat) (s e : Int) : Outcome Val :=
  match goSlice rs s e with
  | .ok r => .ok (.str (encodeRunes r))
  | .err e => .err e
  | .panic w => .panic w

/-- JQValueIndex; the caller (funcIndex2) passes -2 / -1 for "before" / "after", else 0 ≤ i < SliceLen -/
def G.index (g : G) (i : Int) : Outcome Val :=
  match g with
  | .arr xs =>
    if i < 0 then .ok .null
    else match goIndex xs i with
      | .ok x => .ok (Val.ofJV x)
      | .err e => .err e
      | .panic w => .panic w
  | .str rs => strIndex rs i
  | .lazy bs => strIndex (decodeRunes bs) i
  | _ => .err .expectedArray

def G.slice (g : G) (s e : Int) : Outcome Val :=
  match g with
  | .arr xs =>
    match goSlice xs s e with
    | .ok r => .ok (.garr r)            -- `v[start:end]` is still a gojqx.Array
    | .err e => .err e
    | .panic w => .panic w
  | .str rs => strSlice rs s e
  | .lazy bs => strSlice (decodeRunes bs) s e
  | _ => .err .expectedArray

def G.key (g : G) (name : Bytes) : Outcome Val :=
  match g with
  | .obj kvs => match objGet name kvs with
    | some v => .ok (Val.ofJV v)
    | none => .ok .null
  | _ => .err .expectedObject

def G.each : G → Outcome (List (Val × Val))
  | .arr xs => .ok ((intsUpTo xs.length).zip (Val.ofJVs xs))
  | .obj kvs => .ok (kvs.map (fun kv => (Val.str kv.1, Val.ofJV kv.2)))  -- Go map order: unspecified!
  | _ => .err .iterator

def G.keys : G → Outcome Val
  | .arr xs => .ok (.arr (intsUpTo xs.length))
  | .obj kvs => .ok (.arr (kvs.map (fun kv => Val.str kv.1)))           -- Go map order: unspecified!
  | _ => .err (.funcType "keys")

/-- func.go:2303-2347 toInt / floatToInt clamp -/
def clampGoInt (i : Int) : Int := if i < minInt then minInt else if i > maxInt then maxInt else i

def fl (b : UInt64) : Float := Float.ofBits b

def floatToInt (f : Float) : Int :=
  if f.isNaN then minInt            -- int(NaN) on amd64
  else if Float.ofInt minInt ≤ f && f ≤ Float.ofInt maxInt then clampGoInt f.toInt64.toInt
  else if f > 0 then maxInt else minInt

/-- gojqx.ArrayHasKeyToInt (types.go:254-281, the fix "has on a decode value array only accepted
    integer keys") = gojq's toInt: any number, floats truncated, clamped to the Go int range -/
def toGoInt : Val → Option Int
  | .int i => some (clampGoInt i)
  | .float f => some (floatToInt (fl f))
  | _ => none

/-- JQValueHas(key any) -/
def G.has (g : G) (key : Val) : Outcome Val :=
  match g with
  | .arr xs =>
    match toGoInt key with
    | some i => .ok (.bool (decide (0 ≤ i) && decide (i < xs.length)))
    | none => .err .hasKeyType
  | .obj kvs =>
    match key with
    | .str k => .ok (.bool (objHas k kvs))
    | _ => .err .hasKeyType
  | .null => .ok (.bool false)      -- types.go Null.JQValueHas (fix "has on a decode value null should be false")
  | _ => .err (.funcType "has")

def G.type : G → String
  | .int _ => "number"
  | .flt _ => "number"
  | .str _ => "string"
  | .bool _ => "boolean"
  | .null => "null"
  | .arr _ => "array"
  | .obj _ => "object"
  | .lazy _ => "string"

/-! #### numbers as text -/

def natDigits : Nat → Nat → List UInt8
  | 0, _ => [48]
  | f + 1, n => if n < 10 then [(48 + n).toUInt8] else natDigits f (n / 10) ++ [(48 + n % 10).toUInt8]

def intText (i : Int) : Bytes :=
  if i < 0 then 45 :: natDigits (i.natAbs + 1) i.natAbs else natDigits (i.natAbs + 1) i.natAbs

def isDigitB (b : UInt8) : Bool := 48 ≤ b && b ≤ 57

def digitsVal : Bytes → Nat → Nat
  | [], acc => acc
  | b :: bs, acc => digitsVal bs (acc * 10 + (b.toNat - 48))

/-- number text -> number (gojq lexer `validNumber` + normalizeNumber). Exact for plain decimal
    integers; other valid forms (fraction, exponent) are declined as `unmodelled`. -/
def parseNumber (s : Bytes) : Outcome Val :=
  let (neg, ds) := match s with
    | 45 :: t => (true, t)
    | t => (false, t)
  if ds.isEmpty then .err .invalidNumber
  else if ds.all isDigitB then
    let n : Int := digitsVal ds 0
    .ok (.int (if neg then -n else n))
  else if ds.all (fun b => isDigitB b || b == 46 || b == 101 || b == 69 || b == 43 || b == 45) && ds.any isDigitB then
    .err (.unmodelled "number-text")
  else if s == ofAscii "nan" || s == ofAscii "NaN" || s == ofAscii "infinite" then .err (.unmodelled "number-text")
  else .err .invalidNumber

def G.toNumber : G → Outcome Val
  | .int i => .ok (.int i)
  | .flt f => .ok (.float f)
  | .str rs => parseNumber (encodeRunes rs)
  | .lazy bs => parseNumber (sanitize bs)
  | .bool _ => .err (.funcType "tonumber")
  | .null => .err (.funcType "tonumber")
  | .arr _ => .err (.funcType "tonumber")
  | .obj _ => .err (.funcType "tonumber")

def G.toString (ff : UInt64 → Option Bytes) : G → Outcome Val
  | .int i => .ok (.str (intText i))
  | .flt f => match ff f with
    | some t => .ok (.str t)
    | none => .err (.unmodelled "float-text")
  | .str rs => .ok (.str (encodeRunes rs))
  | .lazy bs => .ok (.str (sanitize bs))
  | .bool b => .ok (.str (ofAscii (if b then "true" else "false")))
  | .null => .ok (.str (ofAscii "null"))
  | .arr _ => .err (.funcType "tostring")
  | .obj _ => .err (.funcType "tostring")

/-- JQValueToGoJQ of a scalar wrapper -/
def G.toGoJQ : G → JV
  | .int i => .int i
  | .flt f => .float f
  | .str rs => .str (encodeRunes rs)
  | .bool b => .bool b
  | .null => .null
  | .arr xs => .arr xs
  | .obj kvs => .obj kvs
  | .lazy bs => .str (sanitize bs)

/-! ### decodeValueBase: the extra keys (decode.go:479-636) -/

def extKeys : List Bytes := [
  "_actual", "_bits", "_buffer_root", "_bytes", "_description", "_error", "_format_root", "_format",
  "_gap", "_index", "_len", "_name", "_out", "_parent", "_path", "_root", "_start", "_stop", "_sym"
  ].map ofAscii

def isExtKey (k : Bytes) : Bool := extKeys.any (bytesEq k)

def baseHas (key : Val) : Outcome Val :=
  match key with
  | .str k => .ok (.bool (isExtKey k))
  | _ => .ok (.bool false)

def baseKey (name : Bytes) : Outcome Val :=
  if isExtKey name then .ok (.ext name) else .ok .null

/-- decode.go:289-295 -/
def valueOrFallbackKey (name : Bytes) (valueHas : Outcome Val) (valueKey : Outcome Val) : Outcome Val :=
  match valueHas with
  | .ok (.bool true) => valueKey
  | _ => baseKey name

/-- decode.go:296-302 -/
def valueOrFallbackHas (key : Val) (valueHas : Outcome Val) : Outcome Val :=
  match valueHas with
  | .ok (.bool false) => baseHas key
  | r => r

/-! ### the JQValue methods of a decode value (scalar decodeValue, ArrayDecodeValue, StructDecodeValue) -/

def fieldGet (name : Bytes) : List (Bytes × DV) → Option DV
  | [] => none
  | (k, d) :: rest => if bytesEq name k then some d else fieldGet name rest

def okVal {α} (f : α → Val) : Outcome α → Outcome Val
  | .ok a => .ok (f a)
  | .err e => .err e
  | .panic w => .panic w

def DV.mLength : DV → Outcome Val
  | .struct fs => .ok (.int fs.length)
  | .array es => .ok (.int es.length)
  | .scalar k sym _ => (wrapScalar k sym).length

def DV.mSliceLen : DV → Outcome Val
  | .struct fs => .ok (.int fs.length)
  | .array es => .ok (.int es.length)
  | .scalar k sym _ => (wrapScalar k sym).sliceLen

def DV.mIndex (d : DV) (i : Int) : Outcome Val :=
  match d with
  | .struct _ => .err .expectedArray                  -- gojqx.Base: ExpectedArrayWithIndexError
  | .array es => if i < 0 then .ok .null else okVal Val.dv (goIndex es i)
  | .scalar k sym _ => (wrapScalar k sym).index i

def DV.mSlice (d : DV) (s e : Int) : Outcome Val :=
  match d with
  | .struct _ => .err .expectedArray
  | .array es =>
    if e < s then .panic "makeslice: len out of range"
    else okVal (fun r => Val.arr (r.map Val.dv)) (goSlice es s e)
  | .scalar k sym _ => (wrapScalar k sym).slice s e

def DV.mKey (d : DV) (name : Bytes) : Outcome Val :=
  match d with
  | .struct fs =>
    match fieldGet name fs with
    | some c => .ok (.dv c)
    | none => baseKey name
  | .array _ => baseKey name       -- Base.JQValueHas is never `true`: always the fallback
  | .scalar k sym _ =>
    let g := wrapScalar k sym
    valueOrFallbackKey name (g.has (.str name)) (g.key name)

def DV.mEach : DV → Outcome (List (Val × Val))
  | .struct fs => .ok (fs.map (fun f => (Val.str f.1, Val.dv f.2)))
  | .array es => .ok ((intsUpTo es.length).zip (es.map Val.dv))
  | .scalar k sym _ => (wrapScalar k sym).each

def DV.mKeys : DV → Outcome Val
  | .struct fs => .ok (.arr (fs.map (fun f => Val.str f.1)))
  | .array es => .ok (.arr (intsUpTo es.length))
  | .scalar k sym _ => (wrapScalar k sym).keys

def DV.mHas (d : DV) (key : Val) : Outcome Val :=
  match d with
  | .struct fs =>
    valueOrFallbackHas key (match key with
      | .str k => .ok (.bool (fieldGet k fs).isSome)
      | _ => .err .hasKeyType)
  | .array es =>
    valueOrFallbackHas key (match toGoInt key with
      | some i => .ok (.bool (decide (0 ≤ i) && decide (i < es.length)))
      | none => .err .hasKeyType)
  | .scalar k sym _ => valueOrFallbackHas key ((wrapScalar k sym).has key)

def DV.mType : DV → String
  | .struct _ => "object"
  | .array _ => "array"
  | .scalar k sym _ => (wrapScalar k sym).type

def DV.mToNumber : DV → Outcome Val
  | .struct _ => .err (.funcType "tonumber")
  | .array _ => .err (.funcType "tonumber")
  | .scalar k sym _ => (wrapScalar k sym).toNumber

def DV.mToString (ff : UInt64 → Option Bytes) : DV → Outcome Val
  | .struct _ => .err (.funcType "tostring")
  | .array _ => .err (.funcType "tostring")
  | .scalar k sym _ => (wrapScalar k sym).toString ff

/-- JQValueToGoJQ: one level (children stay decode values; default options: gaps are not skipped) -/
def DV.mToGoJQ : DV → Val
  | .struct fs => .obj (objOfList (fs.map (fun f => (f.1, Val.dv f.2))))
  | .array es => .arr (es.map Val.dv)
  | .scalar k sym _ => Val.ofJV (wrapScalar k sym).toGoJQ

/-! ### deep conversions -/

mutual
/-- what gojq's encoder / Compare see: JQValueToGoJQ applied level by level -/
def DV.goJQ : DV → JV
  | .struct fs => .obj (objOfList (DV.goJQfields fs))
  | .array es => .arr (DV.goJQlist es)
  | .scalar k sym _ => (wrapScalar k sym).toGoJQ
def DV.goJQlist : List DV → List JV
  | [] => []
  | d :: ds => DV.goJQ d :: DV.goJQlist ds
def DV.goJQfields : List (Bytes × DV) → List (Bytes × JV)
  | [] => []
  | (k, d) :: fs => (k, DV.goJQ d) :: DV.goJQfields fs
end

mutual
/-- `tovalue` with default options (bits_format=string, skip_gaps=false): decode.go:306-321 with
    decodeValue.JQValueToGoJQEx (decode.go:649-665): raw bits of a non-synthetic field go through
    Binary + BitsFormatFn and keep their bytes; everything else is JQValueToGoJQ, recursively. -/
def DV.toValue : DV → JV
  | .struct fs => .obj (objOfList (DV.toValueFields fs))
  | .array es => .arr (DV.toValueList es)
  | .scalar k sym synthetic =>
    match scalarValue k sym with
    | .raw bs => if synthetic then .str (sanitize bs) else .str bs
    | .j v => (wrapSV (.j v)).toGoJQ
def DV.toValueList : List DV → List JV
  | [] => []
  | d :: ds => DV.toValue d :: DV.toValueList ds
def DV.toValueFields : List (Bytes × DV) → List (Bytes × JV)
  | [] => []
  | (k, d) :: fs => (k, DV.toValue d) :: DV.toValueFields fs
end

mutual
/-- deep JQValueToGoJQ of an evaluation value -/
def Val.deep : Val → JV
  | .null => .null
  | .bool b => .bool b
  | .int i => .int i
  | .float f => .float f
  | .str s => .str s
  | .arr xs => .arr (Val.deepList xs)
  | .obj kvs => .obj (Val.deepKvs kvs)
  | .dv d => d.goJQ
  | .ext _ => .null
  | .garr xs => .arr xs
def Val.deepList : List Val → List JV
  | [] => []
  | x :: xs => Val.deep x :: Val.deepList xs
def Val.deepKvs : List (Bytes × Val) → List (Bytes × JV)
  | [] => []
  | (k, v) :: kvs => (k, Val.deep v) :: Val.deepKvs kvs
end

mutual
/-- `tovalue` of an evaluation value (gojqx.ToGoJQValueFn over containers) -/
def Val.toValue : Val → JV
  | .null => .null
  | .bool b => .bool b
  | .int i => .int i
  | .float f => .float f
  | .str s => .str s
  | .arr xs => .arr (Val.toValueList xs)
  | .obj kvs => .obj (Val.toValueKvs kvs)
  | .dv d => d.toValue
  | .ext _ => .null
  | .garr xs => .arr xs
def Val.toValueList : List Val → List JV
  | [] => []
  | x :: xs => Val.toValue x :: Val.toValueList xs
def Val.toValueKvs : List (Bytes × Val) → List (Bytes × JV)
  | [] => []
  | (k, v) :: kvs => (k, Val.toValue v) :: Val.toValueKvs kvs
end

/-- one level of JQValueToGoJQ (what binopTypeSwitch, toArray, toString, … do first) -/
def Val.shallow : Val → Val
  | .dv d => d.mToGoJQ
  | .garr xs => .arr (Val.ofJVs xs)
  | v => v

/-! ### structural equality / order of plain values (gojq compare.go) -/

def JV.typeIndex : JV → Nat
  | .null => 0
  | .bool false => 1
  | .bool true => 2
  | .int _ => 3
  | .float _ => 3
  | .str _ => 4
  | .arr _ => 5
  | .obj _ => 6

def cmpNat (a b : Nat) : Int := if a < b then -1 else if a = b then 0 else 1
def cmpInt (a b : Int) : Int := if a < b then -1 else if a = b then 0 else 1
def cmpBytes (a b : Bytes) : Int := if bytesLt a b then -1 else if bytesEq a b then 0 else 1
/-- compare.go:13-22 -/
def cmpFloat (l r : Float) : Int := if l < r || l.isNaN then -1 else if l == r then 0 else 1
mutual
/-- gojq.Compare on plain values -/
def JV.cmp : JV → JV → Int
  | .int a, .int b => cmpInt a b
  | .int a, .float b => cmpFloat (Float.ofInt a) (fl b)
  | .float a, .int b => cmpFloat (fl a) (Float.ofInt b)
  | .float a, .float b => cmpFloat (fl a) (fl b)
  | .str a, .str b => cmpBytes a b
  | .arr a, .arr b => JV.cmpList a b
  | .obj a, .obj b =>
    let c := JV.cmpKeys a b
    if c ≠ 0 then c else JV.cmpVals a b
  | a, b => cmpNat a.typeIndex b.typeIndex
def JV.cmpList : List JV → List JV → Int
  | [], [] => 0
  | [], _ :: _ => -1
  | _ :: _, [] => 1
  | x :: xs, y :: ys => let c := JV.cmp x y; if c ≠ 0 then c else JV.cmpList xs ys
/-- Compare(keys l, keys r): both key lists are sorted -/
def JV.cmpKeys : List (Bytes × JV) → List (Bytes × JV) → Int
  | [], [] => 0
  | [], _ :: _ => -1
  | _ :: _, [] => 1
  | (k, _) :: xs, (k', _) :: ys => let c := cmpBytes k k'; if c ≠ 0 then c else JV.cmpKeys xs ys
/-- the values key by key (the key lists are equal here) -/
def JV.cmpVals : List (Bytes × JV) → List (Bytes × JV) → Int
  | (_, x) :: xs, (_, y) :: ys => let c := JV.cmp x y; if c ≠ 0 then c else JV.cmpVals xs ys
  | _, _ => 0
end

/-- gojq.Compare on evaluation values: JQValueToGoJQ level by level = `deep` -/
def Val.cmp (a b : Val) : Int := JV.cmp a.deep b.deep

/-! ### gojq's JSON encoder (encoder.go) -/

def hexDigitB (n : Nat) : UInt8 := if n < 10 then (48 + n).toUInt8 else (87 + n).toUInt8

/-- encoder.go:108-160 `encodeString` -/
def encStrBody : List Bytes → Bytes
  | [] => []
  | c :: cs =>
    (match c with
     | [b] =>
       if b < 0x80 then
         if 0x20 ≤ b && b ≤ 0x7E && b != 0x22 && b != 0x5C then [b]
         else if b == 0x22 then [0x5C, 0x22]
         else if b == 0x5C then [0x5C, 0x5C]
         else if b == 0x08 then [0x5C, 0x62]
         else if b == 0x0C then [0x5C, 0x66]
         else if b == 0x0A then [0x5C, 0x6E]
         else if b == 0x0D then [0x5C, 0x72]
         else if b == 0x09 then [0x5C, 0x74]
         else [0x5C, 0x75, 0x30, 0x30, hexDigitB (b.toNat / 16), hexDigitB (b.toNat % 16)]
       else ofAscii "\\ufffd"
     | _ => c) ++ encStrBody cs

def encStr (s : Bytes) : Bytes := 0x22 :: (encStrBody (chunks s) ++ [0x22])

mutual
def JV.enc (ff : UInt64 → Option Bytes) : JV → Option Bytes
  | .null => some (ofAscii "null")
  | .bool b => some (ofAscii (if b then "true" else "false"))
  | .int i => some (intText i)
  | .float f => ff f
  | .str s => some (encStr s)
  | .arr xs => (JV.encList ff true xs).map (fun b => 0x5B :: (b ++ [0x5D]))
  | .obj kvs => (JV.encKvs ff true kvs).map (fun b => 0x7B :: (b ++ [0x7D]))
def JV.encList (ff : UInt64 → Option Bytes) (first : Bool) : List JV → Option Bytes
  | [] => some []
  | x :: xs =>
    match JV.enc ff x, JV.encList ff false xs with
    | some a, some b => some ((if first then [] else [0x2C]) ++ a ++ b)
    | _, _ => none
def JV.encKvs (ff : UInt64 → Option Bytes) (first : Bool) : List (Bytes × JV) → Option Bytes
  | [] => some []
  | (k, v) :: kvs =>
    match JV.enc ff v, JV.encKvs ff false kvs with
    | some a, some b => some ((if first then [] else [0x2C]) ++ encStr k ++ [0x3A] ++ a ++ b)
    | _, _ => none
end

/-! ### specification view

  The property, executable: a decode value behaves as its plain JSON value (`tovalue`), except
    (D1) a struct's members are visited in input order (not sorted),
    (D2) `_`-prefixed extra keys are readable,
    (D3) a string-key lookup on a non-object yields null,
    (D4) raw bits are a string in which bytes that are not valid UTF-8 are replaced (tovalue keeps them).
  `specView d` is that plain value, one level deep; the children stay decode values. In `spec` mode
  every builtin below first replaces a decode value by its view and then runs gojq's code for plain
  values; in `impl` mode it dispatches to the JQValue* methods as gojq does. -/

def rawSanitized (k : SKind) (sym : Option JV) (j : JV) : JV :=
  match scalarValue k sym, j with
  | .raw _, .str s => .str (sanitize s)     -- (D4)
  | _, j => j

def specView : DV → Val
  | .struct fs => .obj (fs.map (fun f => (f.1, Val.dv f.2)))     -- (D1): list order = input order
  | .array es => .arr (es.map Val.dv)
  | .scalar k sym y => Val.ofJV (rawSanitized k sym (DV.toValue (.scalar k sym y)))

mutual
/-- the specification's deep plain value of a decode value: tovalue, with (D4) -/
def DV.specDeep : DV → JV
  | .struct fs => .obj (objOfList (DV.specDeepFields fs))
  | .array es => .arr (DV.specDeepList es)
  | .scalar k sym y => rawSanitized k sym (DV.toValue (.scalar k sym y))
def DV.specDeepList : List DV → List JV
  | [] => []
  | d :: ds => DV.specDeep d :: DV.specDeepList ds
def DV.specDeepFields : List (Bytes × DV) → List (Bytes × JV)
  | [] => []
  | (k, d) :: fs => (k, DV.specDeep d) :: DV.specDeepFields fs
end

/-- which semantics a decode value gets, and — for the specification — which of the known,
    undocumented deviations of the code (known_findings.json) are switched on to explain an
    observation:
      kStrIdx  an out-of-range index into a decoded string gives "" (plain: null)
      kObjKey  `{(k): v}` accepts a non-string decode value as key (its text)
      kMinInt  `length` of a decoded -2^63 is 2^63 (gojq's plain `-v` overflows and stays -2^63) -/
structure Mode where
  impl : Bool
  kStrIdx : Bool := false
  kObjKey : Bool := false
  kMinInt : Bool := false
  /-- (D3) a string-key lookup on a decode value that is not an object yields null; `false` = the
      plain behaviour (an error), used to state where (D3) matters -/
  dNullKey : Bool := true
deriving Repr, Inhabited, DecidableEq

def Mode.real : Mode := { impl := true }
def Mode.spec : Mode := { impl := false }

def Mode.view (m : Mode) (v : Val) : Val :=
  if m.impl then v else
    match v with
    | .dv d => specView d
    | .garr xs => .arr (Val.ofJVs xs)
    | w => w

def isDV : Val → Bool
  | .dv _ => true
  | _ => false

mutual
/-- deep plain value of an evaluation value: what the encoder and Compare see -/
def Val.deepM (m : Mode) : Val → JV
  | .null => .null
  | .bool b => .bool b
  | .int i => .int i
  | .float f => .float f
  | .str s => .str s
  | .arr xs => .arr (Val.deepMList m xs)
  | .obj kvs => .obj (Val.deepMKvs m kvs)     -- plain maps are kept sorted (objSet / objOfList)
  | .dv d => if m.impl then d.goJQ else d.specDeep
  | .ext _ => .null
  | .garr xs => .arr xs
def Val.deepMList (m : Mode) : List Val → List JV
  | [] => []
  | x :: xs => Val.deepM m x :: Val.deepMList m xs
def Val.deepMKvs (m : Mode) : List (Bytes × Val) → List (Bytes × JV)
  | [] => []
  | (k, v) :: kvs => (k, Val.deepM m v) :: Val.deepMKvs m kvs
end

/-- the specification's counterpart of JQValueToGoJQ: the view; a struct as a Go map (no member order) -/
def DV.specShallow : DV → Val
  | .struct fs => .obj (objOfList (fs.map (fun f => (f.1, Val.dv f.2))))
  | d => specView d

/-- one level of JQValueToGoJQ (binopTypeSwitch, toArray, toString, toBoolean, isNull do this first) -/
def Val.shallowM (m : Mode) (v : Val) : Val :=
  match v with
  | .dv d => if m.impl then d.mToGoJQ else d.specShallow
  | .garr xs => .arr (Val.ofJVs xs)
  | w => w

/-- gojq.Compare on evaluation values: JQValueToGoJQ level by level -/
def Val.cmpM (m : Mode) (a b : Val) : Int := JV.cmp (a.deepM m) (b.deepM m)

/-! ### gojq's dispatch: builtins on evaluation values (func.go, execute.go) -/

/-- func.go:313-340 -/
def funcLength (m : Mode) (v : Val) : Outcome Val :=
  match m.view v with
  | .null => .ok (.int 0)
  | .int i =>
    if i ≥ 0 then .ok (.int i)
    else if i == minInt then
      -- func.go:318-322 `return -v` on a Go int: -(-2^63) overflows to -2^63; on a *big.Int it is 2^63.
      -- The view of a decode value is its tovalue, a Go int (ToGoJQValueFn normalises). A plain -2^63
      -- inside an evaluation may be either (JQValueToNumber / JQValueToGoJQ hand out the *big.Int
      -- un-normalised): the model declines.
      if isDV v then .ok (.int (if m.kMinInt then -i else minInt))
      else .err (.unmodelled "minint-representation")
    else .ok (.int (-i))
  | .float f => .ok (.float (absBits f))
  | .str s => .ok (.int (chunks s).length)
  | .arr xs => .ok (.int xs.length)
  | .obj kvs => .ok (.int kvs.length)
  | .dv d => d.mLength
  | .garr xs => (G.arr xs).length
  | _ => .err (.funcType "length")

/-- func.go:350-368 (`keys(v)` sorts a map's keys: plain maps are kept sorted here; the view of a
    struct lists its members in input order (D1)) -/
def funcKeys (m : Mode) (v : Val) : Outcome Val :=
  match m.view v with
  | .arr xs => .ok (.arr (intsUpTo xs.length))
  | .obj kvs => .ok (.arr (kvs.map (fun kv => Val.str kv.1)))
  | .dv d => d.mKeys
  | .garr xs => (G.arr xs).keys
  | _ => .err (.funcType "keys")

def isStructDV : Val → Bool
  | .dv (.struct _) => true
  | _ => false

/-- func.go:399-417 -/
def funcHas (m : Mode) (v x : Val) : Outcome Val :=
  match m.view v with
  | .arr xs =>
    match toGoInt (x.shallowM m) with
    | some i => .ok (.bool (decide (0 ≤ i) && decide (i < xs.length)))
    | none => .err (.funcType "has")
  | .obj kvs => match x with
    | .str k =>
      -- (D2) on a decode value that is an object the extra keys are present
      .ok (.bool (objHas k kvs || (!m.impl && isDV v && isExtKey k)))
    | _ => .err (.funcType "has")
  | .null =>
    -- (D2) also on a decoded null the extra keys are present (valueOrFallbackHas)
    .ok (.bool (!m.impl && isDV v && (match x with | .str k => isExtKey k | _ => false)))
  | .dv d => d.mHas x
  | .garr xs => (G.arr xs).has x
  | _ => .err (.funcType "has")

/-- func.go:1265-1277 -/
def clampIndex (i mn mx : Int) : Int :=
  let i := if i < 0 then i + mx else i
  if i < mn then mn else if i < mx then i else mx

/-- func.go:1060-1075 funcIndex2 with a string key -/
def indexKey (m : Mode) (v : Val) (k : Bytes) : Outcome Val :=
  if !m.impl && isDV v then
    -- specification: the member if the value is an object that has it; else (D2) an extra key's
    -- value; else (D3) null — also on a non-object
    match m.view v with
    | .obj kvs => match objGet k kvs with
      | some x => .ok x
      | none => baseKey k
    | .null => baseKey k
    | _ => if m.dNullKey then baseKey k else .err .expectedObject
  else match v with
  | .null => .ok .null
  | .obj kvs => .ok ((objGet k kvs).getD .null)
  | .dv d => d.mKey k
  | .garr xs => (G.arr xs).key k
  | _ => .err .expectedObject

/-- func.go:1076-1104 funcIndex2 with a number -/
def indexInt (m : Mode) (v : Val) (i0 : Int) : Outcome Val :=
  let i := clampGoInt i0
  match m.view v with
  | .null => .ok .null
  | .arr xs =>
    let j := clampIndex i (-1) xs.length
    if 0 ≤ j && j < xs.length then .ok (xs[j.toNat]?.getD .null) else .ok .null
  | .str s =>
    let cs := chunks s
    let j := clampIndex i (-1) cs.length
    if 0 ≤ j && j < cs.length then .ok (.str (encodeRune (decode1 (cs[j.toNat]?.getD [])).1))
    else if !m.impl && m.kStrIdx && isDV v then .ok (.str [])
    else .ok .null
  | .dv d =>
    match d.mSliceLen with
    | .ok (.int l) =>
      let j := clampIndex i (-1) l
      let j := if j < 0 then -2 else if j ≥ l then -1 else j
      d.mIndex j
    | r => r                        -- `l, ok := lv.(int); if !ok { return lv }`
  | .garr xs =>
    let l : Int := xs.length
    let j := clampIndex i (-1) l
    (G.arr xs).index (if j < 0 then -2 else if j ≥ l then -1 else j)
  | _ => .err .expectedArray

/-- the JSON array behind a value that gojq sees as a gojqx.Array -/
def garrOf : Val → Option (List JV)
  | .garr xs => some xs
  | .dv (.scalar k sym _) => match wrapScalar k sym with
    | .arr xs => some xs
    | _ => none
  | _ => none

/-- func.go:1160-1263 funcSlice / slice / sliceString / sliceJQValue; `none` = open end -/
def funcSlice (m : Mode) (v : Val) (s e : Option Int) : Outcome Val :=
  let bounds (l : Int) : Int × Int :=
    let start := match s with
      | some i => clampIndex (clampGoInt i) 0 l
      | none => 0
    let stop := match e with
      | some i => clampIndex (clampGoInt i) start l
      | none => l
    (start, stop)
  -- the slice of a decoded JSON array (and of such a slice) is a bare gojqx.Array (`garr`), which the
  -- specification treats as a plain array everywhere (`Mode.view`); it keeps the tag
  match (if m.impl then none else garrOf v) with
  | some xs => let (a, b) := bounds xs.length; (G.arr xs).slice a b
  | none =>
  match m.view v with
  | .null => .ok .null
  | .arr xs =>
    let (a, b) := bounds xs.length
    .ok (.arr ((xs.drop a.toNat).take (b.toNat - a.toNat)))
  | .str str =>
    let cs := chunks str
    let (a, b) := bounds cs.length
    .ok (.str ((cs.drop a.toNat).take (b.toNat - a.toNat)).flatten)
  | .dv d =>
    match d.mSliceLen with
    | .ok (.int l) => let (a, b) := bounds l; d.mSlice a b
    | r => r
  | .garr xs => let (a, b) := bounds xs.length; (G.arr xs).slice a b
  | _ => .err .expectedArray

/-- execute.go:290-350 opeach: (path, value) pairs -/
def opEach (m : Mode) (v : Val) : Outcome (List (Val × Val)) :=
  match m.view v with
  | .arr xs => .ok ((intsUpTo xs.length).zip xs)
  | .obj kvs => .ok (kvs.map (fun kv => (Val.str kv.1, kv.2)))   -- plain maps are kept sorted
  | .dv d => d.mEach
  | .garr xs => (G.arr xs).each
  | _ => .err .iterator

/-- type.go TypeOf -/
def funcType (m : Mode) (v : Val) : Bytes :=
  match m.view v with
  | .null => ofAscii "null"
  | .bool _ => ofAscii "boolean"
  | .int _ => ofAscii "number"
  | .float _ => ofAscii "number"
  | .str _ => ofAscii "string"
  | .arr _ => ofAscii "array"
  | .obj _ => ofAscii "object"
  | .dv d => ofAscii d.mType
  | .garr _ => ofAscii "array"
  | .ext _ => ofAscii "ext"

/-- func.go:581-596 -/
def funcToNumber (m : Mode) (v : Val) : Outcome Val :=
  match m.view v with
  | .int i => .ok (.int i)
  | .float f => .ok (.float f)
  | .str s => parseNumber s
  | .dv d => d.mToNumber
  | .garr xs => (G.arr xs).toNumber
  | _ => .err (.funcType "tonumber")

/-- func.go:902 funcToJSON: the encoder unwraps JQValues with JQValueToGoJQ -/
def funcToJSON (m : Mode) (ff : UInt64 → Option Bytes) (v : Val) : Outcome Val :=
  match JV.enc ff (v.deepM m) with
  | some b => .ok (.str b)
  | none => .err (.unmodelled "float-text")

/-- func.go:602-607 funcToString: a string (also behind JQValueToGoJQ) is itself, else tojson -/
def funcToString (m : Mode) (ff : UInt64 → Option Bytes) (v : Val) : Outcome Val :=
  match v.shallowM m with
  | .str s => .ok (.str s)
  | _ => funcToJSON m ff v

def entry (k v : Val) : Val := .obj [(ofAscii "key", k), (ofAscii "value", v)]

/-- func.go:419-466 -/
def funcToEntries (m : Mode) (v : Val) : Outcome Val :=
  let plain (w : Val) : Outcome Val :=
    match w with
    | .arr xs => .ok (.arr (((intsUpTo xs.length).zip xs).map (fun p => entry p.1 p.2)))
    | .obj kvs => .ok (.arr (kvs.map (fun kv => entry (.str kv.1) kv.2)))
    | _ => .err (.funcType "to_entries")
  match m.view v with
  | .dv d =>
    if d.mType == "object" then
      match d.mLength with
      | .ok lv =>
        -- `l, ok := toInt(lv)`: JQValueLength of an object-typed decode value is a Go `len()`
        match lv with
        | .int l =>
          match d.mEach with
          | .ok ps =>
            if ps.length > l then .panic "index out of range"
            else if ps.any (fun p => match p.1 with | .str _ => false | _ => true) then .err (.funcType "to_entries")
            else .ok (.arr (ps.map (fun p => entry p.1 p.2) ++ List.replicate (l.toNat - ps.length) .null))
          | _ => .err (.funcType "to_entries")
        | _ => .err (.unmodelled "invalid int length")
      | r => r
    else plain (Val.shallowM m (.dv d))
  | .garr xs => plain (.arr (Val.ofJVs xs))
  | w => plain w

def isNumber : Val → Bool
  | .int _ => true
  | .float _ => true
  | _ => false

def toFloat : Val → Float
  | .int i => Float.ofInt i
  | .float f => fl f
  | _ => 0

def mergeObj {α} (l r : List (Bytes × α)) : List (Bytes × α) :=
  r.foldl (fun m kv => objSet kv.1 kv.2 m) l

/-- operator.go:418-470 funcOpAdd; both sides first lose one JQValue level (binopTypeSwitch) -/
def funcAdd (m : Mode) (l0 r0 : Val) : Outcome Val :=
  let l := l0.shallowM m
  let r := r0.shallowM m
  match l, r with
  | .int a, .int b => .ok (.int (a + b))
  | .str a, .str b => .ok (.str (a ++ b))
  | .arr a, .arr b => .ok (.arr (a ++ b))
  | .obj a, .obj b => .ok (.obj (mergeObj a b))
  | .null, x => .ok x
  | x, .null => .ok x
  | a, b =>
    if isNumber a && isNumber b then .ok (.float (toFloat a + toFloat b).toBits)
    else .err (.binop "add")

/-- operator.go:472-500 funcOpSub -/
def funcSub (m : Mode) (l0 r0 : Val) : Outcome Val :=
  let l := l0.shallowM m
  let r := r0.shallowM m
  match l, r with
  | .int a, .int b => .ok (.int (a - b))
  | .arr a, .arr b => .ok (.arr (a.filter (fun x => !(b.any (fun y => Val.cmpM m x y == 0)))))
  | a, b =>
    if isNumber a && isNumber b then .ok (.float (toFloat a - toFloat b).toBits)
    else .err (.binop "subtract")

/-- stable insertion sort by Compare (sort.SliceStable): `x` precedes everything in the list it is
    inserted into, so it stays before the elements it is equal to -/
def insertSorted (m : Mode) (x : Val) : List Val → List Val
  | [] => [x]
  | y :: ys => if Val.cmpM m x y ≤ 0 then x :: y :: ys else y :: insertSorted m x ys

def sortVals (m : Mode) : List Val → List Val
  | [] => []
  | x :: xs => insertSorted m x (sortVals m xs)

/-- func.go:1402-1450 funcSort -/
def funcSort (m : Mode) (v : Val) : Outcome Val :=
  match v.shallowM m with
  | .arr xs => .ok (.arr (sortVals m xs))
  | _ => .err (.funcType "sort")

/-- execute.go:146-152: null and false are falsy, seen through JQValueToGoJQ -/
def truthy (m : Mode) (v : Val) : Bool :=
  match v.shallowM m with
  | .null => false
  | .bool false => false
  | _ => true

/-- execute.go:56-75 opobject, one key: a JQValue key is turned into text by JQValueToString -/
def objectKey (m : Mode) (ff : UInt64 → Option Bytes) (k : Val) : Outcome Bytes :=
  match k with
  | .str s => .ok s
  | .dv d =>
    if m.impl || m.kObjKey then
      match d.mToString ff with
      | .ok (.str s) => .ok s
      | .err (.unmodelled w) => .err (.unmodelled w)
      | .err (.funcType _) => .panic "invalid type: gojqx.FuncTypeNameError"  -- error.go:59 via TypeOf
      | _ => .err .objectKey
    else match specView d with
      | .str s => .ok s
      | _ => .err .objectKey
  | .garr _ => if m.impl || m.kObjKey then .panic "invalid type: gojqx.FuncTypeNameError" else .err .objectKey
  | _ => .err .objectKey

/-! ### depth (fuel for `..` and `paths`) -/

mutual
def JV.depth : JV → Nat
  | .arr xs => JV.depthList xs + 1
  | .obj kvs => JV.depthKvs kvs + 1
  | _ => 1
def JV.depthList : List JV → Nat
  | [] => 0
  | x :: xs => max (JV.depth x) (JV.depthList xs)
def JV.depthKvs : List (Bytes × JV) → Nat
  | [] => 0
  | (_, x) :: xs => max (JV.depth x) (JV.depthKvs xs)
end

def SKind.depth : SKind → Nat
  | .any j => j.depth
  | _ => 1

def optDepth : Option JV → Nat
  | some j => j.depth
  | none => 0

mutual
def DV.depth : DV → Nat
  | .struct fs => DV.depthFields fs + 1
  | .array es => DV.depthList es + 1
  | .scalar k sym _ => max k.depth (optDepth sym) + 1
def DV.depthList : List DV → Nat
  | [] => 0
  | x :: xs => max (DV.depth x) (DV.depthList xs)
def DV.depthFields : List (Bytes × DV) → Nat
  | [] => 0
  | (_, x) :: xs => max (DV.depth x) (DV.depthFields xs)
end

mutual
def Val.depth : Val → Nat
  | .arr xs => Val.depthList xs + 1
  | .obj kvs => Val.depthKvs kvs + 1
  | .dv d => d.depth + 1
  | .garr xs => JV.depthList xs + 1
  | _ => 1
def Val.depthList : List Val → Nat
  | [] => 0
  | x :: xs => max (Val.depth x) (Val.depthList xs)
def Val.depthKvs : List (Bytes × Val) → Nat
  | [] => 0
  | (_, x) :: xs => max (Val.depth x) (Val.depthKvs xs)
end

/-- fuel for `..` / `paths`: every `.[]` step goes to a value whose tovalue is less deep -/
def Val.fuel (v : Val) : Nat := v.toValue.depth

/-! ### mini-jq -/

inductive Op2 where
  | eq | lt | add | sub
deriving Repr, Inhabited, DecidableEq

inductive Q where
  | id
  | field (k : Bytes)            -- .k
  | index (i : Int)              -- .[i]
  | slice (a b : Option Int)     -- .[a:b]
  | iter                         -- .[]
  | recurse                      -- ..
  | pipe (a b : Q)
  | comma (a b : Q)
  | lit (j : JV)
  | arrC (q : Q)                 -- [q]
  | objC (k v : Q)               -- {(k): v}
  | keys | length | type | paths | toEntries | tojson | tostring | tonumber | sort
  | has (k : JV)                 -- has(literal)
  | bin (op : Op2) (a b : Q)     -- a op b
  | ite (c a b : Q)              -- if c then a else b end
  | alt (a b : Q)                -- a // b
  | try (q : Q)                  -- (q)?
deriving Repr, Inhabited

/-- outputs produced so far, and the error (or Go panic) that ended the evaluation, if any -/
structure Res where
  outs : List Val
  err : Option (Outcome Unit) := none
deriving Inhabited

def Res.ofOutcome : Outcome Val → Res
  | .ok v => { outs := [v] }
  | .err e => { outs := [], err := some (.err e) }
  | .panic w => { outs := [], err := some (.panic w) }

/-- run `f` on each value in order until one ends in an error -/
def bindRes (f : Val → Res) : List Val → Res
  | [] => { outs := [] }
  | v :: vs =>
    let r := f v
    match r.err with
    | some e => { outs := r.outs, err := some e }
    | none => let r' := bindRes f vs; { outs := r.outs ++ r'.outs, err := r'.err }

/-- `def recurse: def r: ., (.[]? | r); r` — pre-order; errors of `.[]` are swallowed by `?` -/
def descend (m : Mode) : Nat → Val → List Val
  | 0, v => [v]
  | f + 1, v =>
    v :: (match opEach m v with
      | .ok ps => ps.flatMap (fun p => descend m f p.2)
      | _ => [])

/-- `path(..)`: the paths of the same traversal -/
def descendPaths (m : Mode) : Nat → List Val → Val → List (List Val)
  | 0, p, _ => [p]
  | f + 1, p, v =>
    p :: (match opEach m v with
      | .ok ps => ps.flatMap (fun q => descendPaths m f (p ++ [q.1]) q.2)
      | _ => [])

def Q.eval (m : Mode) (ff : UInt64 → Option Bytes) : Q → Val → Res
  | .id, v => { outs := [v] }
  | .field k, v => .ofOutcome (indexKey m v k)
  | .index i, v => .ofOutcome (indexInt m v i)
  | .slice a b, v => .ofOutcome (funcSlice m v a b)
  | .iter, v =>
    match opEach m v with
    | .ok ps => { outs := ps.map (·.2) }
    | .err e => { outs := [], err := some (.err e) }
    | .panic w => { outs := [], err := some (.panic w) }
  | .recurse, v => { outs := descend m v.fuel v }
  | .pipe a b, v =>
    let ra := a.eval m ff v
    let rb := bindRes (b.eval m ff) ra.outs
    match rb.err with
    | some e => { outs := rb.outs, err := some e }
    | none => { outs := rb.outs, err := ra.err }
  | .comma a b, v =>
    let ra := a.eval m ff v
    match ra.err with
    | some e => { outs := ra.outs, err := some e }
    | none => let rb := b.eval m ff v; { outs := ra.outs ++ rb.outs, err := rb.err }
  | .lit j, _ => { outs := [Val.ofJV j] }
  | .arrC q, v =>
    let r := q.eval m ff v
    match r.err with
    | some e => { outs := [], err := some e }
    | none => { outs := [.arr r.outs] }
  | .objC kq vq, v =>
    -- compiler.go compileObject / execute.go:56-75: for each key (outer loop) the value query runs
    -- (inner loop); the key is checked only when an object is built, i.e. per value output
    let rk := kq.eval m ff v
    let r := bindRes (fun k =>
      let rv := vq.eval m ff v
      if rv.outs.isEmpty then { outs := [], err := rv.err }
      else match objectKey m ff k with
        | .ok ks => { outs := rv.outs.map (fun x => Val.obj [(ks, x)]), err := rv.err }
        | .err e => { outs := [], err := some (.err e) }
        | .panic w => { outs := [], err := some (.panic w) }) rk.outs
    match r.err with
    | some e => { outs := r.outs, err := some e }
    | none => { outs := r.outs, err := rk.err }
  | .keys, v => .ofOutcome (funcKeys m v)
  | .length, v => .ofOutcome (funcLength m v)
  | .type, v => { outs := [.str (funcType m v)] }
  | .paths, v => { outs := ((descendPaths m v.fuel [] v).filter (fun p => !p.isEmpty)).map Val.arr }
  | .toEntries, v => .ofOutcome (funcToEntries m v)
  | .tojson, v => .ofOutcome (funcToJSON m ff v)
  | .tostring, v => .ofOutcome (funcToString m ff v)
  | .tonumber, v => .ofOutcome (funcToNumber m v)
  | .sort, v => .ofOutcome (funcSort m v)
  | .has k, v => .ofOutcome (funcHas m v (Val.ofJV k))
  | .bin op a b, v =>
    -- the right operand is the outer loop (as in jq)
    let rb := b.eval m ff v
    let r := bindRes (fun y =>
      let ra := a.eval m ff v
      let r1 := bindRes (fun x =>
        match op with
        | .eq => { outs := [.bool (Val.cmpM m x y == 0)] }
        | .lt => { outs := [.bool (Val.cmpM m x y < 0)] }
        | .add => .ofOutcome (funcAdd m x y)
        | .sub => .ofOutcome (funcSub m x y)) ra.outs
      match r1.err with
      | some e => { outs := r1.outs, err := some e }
      | none => { outs := r1.outs, err := ra.err }) rb.outs
    match r.err with
    | some e => { outs := r.outs, err := some e }
    | none => { outs := r.outs, err := rb.err }
  | .ite c a b, v =>
    let rc := c.eval m ff v
    let r := bindRes (fun x => if truthy m x then a.eval m ff v else b.eval m ff v) rc.outs
    match r.err with
    | some e => { outs := r.outs, err := some e }
    | none => { outs := r.outs, err := rc.err }
  | .alt a b, v =>
    -- compiler.go:461-486: truthy outputs of `a`; an error of `a` is NOT swallowed; `b` if none
    let ra := a.eval m ff v
    let t := ra.outs.filter (truthy m)
    match ra.err with
    | some e => { outs := t, err := some e }
    | none => if t.isEmpty then b.eval m ff v else { outs := t }
  | .try q, v =>
    -- `?` swallows a jq error; a Go panic is not an error value and passes through
    let r := q.eval m ff v
    match r.err with
    | some (.panic w) => { outs := r.outs, err := some (.panic w) }
    | some (.err (.unmodelled w)) => { outs := r.outs, err := some (.err (.unmodelled w)) }
    | _ => { outs := r.outs }

/-- the decode value `v` as the interpreter's input -/
def wrap (v : DV) : Val := .dv v

/-! ### the struct Compound with BOTH of its indexes (pkg/decode/value.go, decode.go)

  `decode.Compound` keeps the fields twice: `Children []*Value` (order) and `ByName map[string]*Value`.
  StructDecodeValue.JQValueKey / JQValueHas (decode.go:775-798, 815-834) answer from `ByName`;
  JQValueLength / SliceLen / Each / Keys / ToGoJQ (hence `tovalue`) read `Children`. `DV.struct` above is
  a struct whose two indexes agree; `Cmp` is the struct while it is being built by `D.AddChild`
  (decode.go:792-808) and `Value.Remove` (value.go:264-293), where they could disagree. -/

structure Cmp where
  children : List (Bytes × DV)
  byName : List (Bytes × DV)       -- a Go map (kept sorted by `objSet`)
deriving Repr, Inhabited

def Cmp.empty : Cmp := { children := [], byName := [] }

def objDel {α} (k : Bytes) : List (Bytes × α) → List (Bytes × α)
  | [] => []
  | (k', v) :: rest => if bytesEq k k' then objDel k rest else (k', v) :: objDel k rest

/-- D.AddChild on a struct: `Fatalf("%q already exist in struct")` if the name is in ByName -/
def Cmp.add (c : Cmp) (k : Bytes) (d : DV) : Option Cmp :=
  if (objGet k c.byName).isSome then none
  else some { children := c.children ++ [(k, d)], byName := objSet k d c.byName }

/-- Value.Remove of the field named `k` (names identify fields while the indexes agree):
    error if it is not in ByName / not among the children; else `delete(fv.ByName, v.Name)` and the
    child is filtered out of Children -/
def Cmp.remove (c : Cmp) (k : Bytes) : Option Cmp :=
  if (objGet k c.byName).isNone then none
  else if !(c.children.any (fun f => bytesEq f.1 k)) then none
  else some { children := c.children.filter (fun f => !bytesEq f.1 k), byName := objDel k c.byName }

/-- the seeded change S2-C08-2: Remove without `delete(fv.ByName, v.Name)` -/
def Cmp.removeNoDelete (c : Cmp) (k : Bytes) : Option Cmp :=
  if (objGet k c.byName).isNone then none
  else if !(c.children.any (fun f => bytesEq f.1 k)) then none
  else some { children := c.children.filter (fun f => !bytesEq f.1 k), byName := c.byName }

/-- StructDecodeValue.JQValueKey: from ByName, else the extra keys -/
def Cmp.mKey (c : Cmp) (name : Bytes) : Outcome Val :=
  match objGet name c.byName with
  | some d => .ok (.dv d)
  | none => baseKey name

/-- StructDecodeValue.JQValueHas: from ByName, else the extra keys -/
def Cmp.mHas (c : Cmp) (key : Val) : Outcome Val :=
  valueOrFallbackHas key (match key with
    | .str k => .ok (.bool (objGet k c.byName).isSome)
    | _ => .err .hasKeyType)

/-- everything else (length, keys, each, JQValueToGoJQ, tovalue) reads Children: -/
def Cmp.toDV (c : Cmp) : DV := .struct c.children

inductive CmpOp where
  | add (k : Bytes) (d : DV)
  | rm (k : Bytes)
deriving Repr, Inhabited

def CmpOp.apply (remove : Cmp → Bytes → Option Cmp) (c : Cmp) : CmpOp → Option Cmp
  | .add k d => c.add k d
  | .rm k => remove c k

/-- a history of AddChild / Remove calls; `none` = the decoder stopped with an error -/
def Cmp.run (remove : Cmp → Bytes → Option Cmp) : List CmpOp → Cmp → Option Cmp
  | [], c => some c
  | op :: ops, c => match op.apply remove c with
    | some c' => Cmp.run remove ops c'
    | none => none

end FqModel.JQValue
