import FqModel.JQValue
/-!
  C08 — decode trees as `decode.D` BUILDS them, with both indexes of every struct, under `force`.

  `decode.Compound` (pkg/decode/value.go:12-20) keeps the members of a struct twice:
  `Children []*Value` (a list: order, and nothing in the type forbids two members with one name) and
  `ByName map[string]*Value`. `DV.struct fields` of FqModel/JQValue.lean is a struct whose indexes agree;
  here `CT.struct children byName` carries both, independently, at EVERY level of the tree, and the
  methods of StructDecodeValue (pkg/interp/decode.go:758-838) are transliterated with the index each of
  them reads:

      JQValueLength / JQValueSliceLen   len(Children)                       decode.go:758-759
      JQValueKey                        ByName[name]                        decode.go:760-785
      JQValueEach                       Children, in order                  decode.go:786-792
      JQValueKeys                       names of Children, in order         decode.go:793-799
      JQValueHas                        ByName[key]                         decode.go:800-819
      JQValueToGoJQEx (hence tovalue)   a map assigned from Children in order (`vm[f.Name] = …`:
                                        of two members with one name the later one wins)   decode.go:820-838

  The tree is built by a decoder: a sequence of calls of the decode.D API (`BOp`), run with or without
  `Options.Force`:
      D.AddChild     decode.go:824-841   struct: `if _, ok := fv.ByName[v.Name]; ok { d.Fatalf(…) }`,
                                         then ByName[name] = v, Children = append(Children, v)
      D.Fatalf       decode.go:380-382   panic(DecoderError) — regardless of force
      D.Errorf       decode.go:373-377   panic(DecoderError) unless force
      FieldStruct / FieldArray  decode.go:872-893   the new compound is added to its parent BEFORE its
                                         body runs, so a decoder that stops inside leaves a partial member
      TryFieldValue  decode.go:1289-1301 a field whose reader/mapper returns an error is NOT added
      UintAssert     decode_gen.go:946-950   fails unless force (forced: the field is added, marked invalid)
      Value.Remove   value.go:264-293
      D.Format       decode.go:1005-1031  a sub-format decodes into its own root; on success every member of
                                         that root is handed to AddChild of the current compound, in order
  A stopped decoder (panic caught by decode.go:113) keeps the tree built so far.
  `Report` selects what AddChild does with a duplicate name: `.fatalf` is the code, `.errorf` the seeded
  variant S5-C08-1 (a forced decode goes on: the second member is appended to Children and REPLACES the
  first in ByName).
-/
namespace FqModel.JQValue

/-- a decode tree with both indexes at every struct -/
inductive CT where
  | struct (children : List (Bytes × CT)) (byName : List (Bytes × CT))   -- byName: a Go map (`objSet`)
  | array (elems : List CT)
  | scalar (k : SKind) (sym : Option JV) (synthetic : Bool)
deriving Repr, Inhabited

mutual
/-- what every Children-reading consumer sees (keys, length, iteration, JQValueToGoJQ, tovalue, dump) -/
def CT.toDV : CT → DV
  | .struct cs _ => .struct (CT.toDVFields cs)
  | .array es => .array (CT.toDVList es)
  | .scalar k sym y => .scalar k sym y
def CT.toDVList : List CT → List DV
  | [] => []
  | c :: cs => CT.toDV c :: CT.toDVList cs
def CT.toDVFields : List (Bytes × CT) → List (Bytes × DV)
  | [] => []
  | (k, c) :: cs => (k, CT.toDV c) :: CT.toDVFields cs
end

/-- first member of that name in Children (what a scan of Children finds) -/
def ctGet (name : Bytes) : List (Bytes × CT) → Option CT
  | [] => none
  | (k, c) :: rest => if bytesEq name k then some c else ctGet name rest

/-! ### StructDecodeValue's methods, each with the index it reads (other values: the `DV` model) -/

/-- decode.go:758 `len(v.Compound.Children)` -/
def CT.mLength : CT → Outcome Val
  | .struct cs _ => .ok (.int cs.length)
  | c => c.toDV.mLength

/-- decode.go:759 `len(v.Compound.Children)` -/
def CT.mSliceLen : CT → Outcome Val
  | .struct cs _ => .ok (.int cs.length)
  | c => c.toDV.mSliceLen

/-- decode.go:760-785: valueOrFallbackKey over `ByName` -/
def CT.mKey (c : CT) (name : Bytes) : Outcome Val :=
  match c with
  | .struct _ bn =>
    match objGet name bn with
    | some ch => .ok (.dv ch.toDV)
    | none => baseKey name
  | c => c.toDV.mKey name

/-- decode.go:786-792: Children in order -/
def CT.mEach : CT → Outcome (List (Val × Val))
  | .struct cs _ => .ok (cs.map (fun f => (Val.str f.1, Val.dv f.2.toDV)))
  | c => c.toDV.mEach

/-- decode.go:793-799: names of Children in order -/
def CT.mKeys : CT → Outcome Val
  | .struct cs _ => .ok (.arr (cs.map (fun f => Val.str f.1)))
  | c => c.toDV.mKeys

/-- decode.go:800-819: valueOrFallbackHas over `ByName` -/
def CT.mHas (c : CT) (key : Val) : Outcome Val :=
  match c with
  | .struct _ bn =>
    valueOrFallbackHas key (match key with
      | .str k => .ok (.bool (objGet k bn).isSome)
      | _ => .err .hasKeyType)
  | c => c.toDV.mHas key

/-- decode.go:820-838: `vm[f.Name] = makeDecodeValue(f)` for f in Children -/
def CT.mToGoJQ : CT → Val
  | .struct cs _ => .obj (objOfList (cs.map (fun f => (f.1, Val.dv f.2.toDV))))
  | c => c.toDV.mToGoJQ

/-- `tovalue`: JQValueToGoJQEx level by level — Children only -/
def CT.toValue (c : CT) : JV := c.toDV.toValue

/-! ### the decoder: decode.D calls -/

/-- what D.AddChild does when the name is already in ByName (decode.go:833-835) -/
inductive Report where
  | fatalf     -- /repo: `d.Fatalf("%q already exist in struct %s", …)`
  | errorf     -- seeded variant S5-C08-1: `d.Errorf(…)`
deriving Repr, Inhabited, DecidableEq

/-- one step of a decoder (harness format verif_c08f) -/
inductive BOp where
  | u8 (n : Bytes) (v : Nat)                 -- d.FieldU8(n): a byte read from the input
  | val (n : Bytes) (v : Nat)                -- d.FieldValueUint(n, v): synthetic
  | struct (n : Bytes) (body : List BOp)     -- d.FieldStruct(n, body)
  | array (n : Bytes) (body : List BOp)      -- d.FieldArray(n, body)
  | errorf                                   -- d.Errorf(…)
  | fatalf                                   -- d.Fatalf(…)
  | assertU8 (n : Bytes) (v e : Nat)         -- d.FieldU8(n, d.UintAssert(e)) reading the byte v
  | remove (n : Bytes)                       -- ByName[n].Remove() if there is such a member
  | inline (body : List BOp)                 -- d.Format(group): a sub-decoder's members merged into this compound
  | eof                                      -- a read beyond the end of the input: IOPanic
deriving Repr, Inhabited

/-- the compound a `decode.D` is filling (`d.Value.V.(*Compound)`) -/
structure Bld where
  isArray : Bool
  children : List (Bytes × CT)
  byName : List (Bytes × CT)
deriving Repr, Inhabited

def Bld.newStruct : Bld := { isArray := false, children := [], byName := [] }
def Bld.newArray : Bld := { isArray := true, children := [], byName := [] }

def Bld.toCT (b : Bld) : CT :=
  if b.isArray then .array (b.children.map (·.2)) else .struct b.children b.byName

/-- decode.go:833-835: does AddChild stop the decoder? Only a struct checks; `Fatalf` stops always,
    `Errorf` only an unforced decode -/
def Bld.refuses (rep : Report) (force : Bool) (b : Bld) (k : Bytes) : Bool :=
  !b.isArray && (objGet k b.byName).isSome && (rep == .fatalf || !force)

/-- decode.go:836-838: `fv.ByName[v.Name] = v` (struct only), `fv.Children = append(fv.Children, v)` -/
def Bld.put (b : Bld) (k : Bytes) (c : CT) : Bld :=
  if b.isArray then { b with children := b.children ++ [(k, c)] }
  else { b with children := b.children ++ [(k, c)], byName := objSet k c b.byName }

/-- D.AddChild; `none` = panic(DecoderError) -/
def Bld.addChild (rep : Report) (force : Bool) (b : Bld) (k : Bytes) (c : CT) : Option Bld :=
  if b.refuses rep force k then none else some (b.put k c)

/-- Value.Remove of the member ByName[k] (value.go:264-293): `delete(fv.ByName, v.Name)`, the child is
    filtered out of Children (by identity; names identify members while the indexes agree);
    `none` = "d not in parent children" -/
def Bld.remove (b : Bld) (k : Bytes) : Option Bld :=
  if !(b.children.any (fun f => bytesEq f.1 k)) then none
  else some { b with children := b.children.filter (fun f => !bytesEq f.1 k), byName := objDel k b.byName }

/-- D.Format (decode.go:1005-1031) after the sub-decode succeeded: `for _, f := range vv.Children { d.AddChild(f) }`
    — each member of the sub-decoder's root goes through AddChild, which may stop half way -/
def Bld.addAll (rep : Report) (force : Bool) : List (Bytes × CT) → Bld → Bld × Bool
  | [], b => (b, true)
  | (k, c) :: rest, b =>
    match b.addChild rep force k c with
    | some b' => Bld.addAll rep force rest b'
    | none => (b, false)

mutual
/-- one decoder step on the compound being filled: the new state and whether the decoder goes on
    (`false` = a panic that decode.go:113 recovers: the decode stops, the tree so far is kept) -/
def BOp.exec (rep : Report) (force : Bool) : BOp → Bld → Bld × Bool
  | .u8 n v, b =>
    match b.addChild rep force n (.scalar (.uint v) none false) with
    | some b' => (b', true)
    | none => (b, false)
  | .val n v, b =>
    match b.addChild rep force n (.scalar (.uint v) none true) with
    | some b' => (b', true)
    | none => (b, false)
  | .struct n body, b =>
    -- decode.go:886-892: AddChild(cd.Value) with the still empty compound, then fn(cd)
    if b.refuses rep force n then (b, false)
    else
      let r := BOp.execList rep force body Bld.newStruct
      (b.put n r.1.toCT, r.2)
  | .array n body, b =>
    if b.refuses rep force n then (b, false)
    else
      let r := BOp.execList rep force body Bld.newArray
      (b.put n r.1.toCT, r.2)
  | .errorf, b => (b, force)                 -- decode.go:373-377
  | .fatalf, b => (b, false)                 -- decode.go:380-382
  | .assertU8 n v e, b =>
    -- decode_gen.go:946-950 + decode.go:1289-1301: a failed assertion returns an error unless forced,
    -- and a field whose mapper returned an error is not added
    if v == e || force then
      match b.addChild rep force n (.scalar (.uint v) none false) with
      | some b' => (b', true)
      | none => (b, false)
    else (b, false)
  | .remove n, b =>
    if b.isArray then (b, true)
    else match objGet n b.byName with
      | none => (b, true)
      | some _ => match b.remove n with
        | some b' => (b', true)
        | none => (b, false)
  | .inline body, b =>
    -- decode.go:1005-1031: the sub-format decodes into a root struct of its own; a failed sub-decode is an
    -- IOPanic (nothing is merged); else its members are added one by one
    let r := BOp.execList rep force body Bld.newStruct
    if r.2 then Bld.addAll rep force r.1.children b else (b, false)
  | .eof, b => (b, false)
def BOp.execList (rep : Report) (force : Bool) : List BOp → Bld → Bld × Bool
  | [], b => (b, true)
  | op :: ops, b =>
    let r := BOp.exec rep force op b
    if r.2 then BOp.execList rep force ops r.1 else (r.1, false)
end

/-- a whole decode of the (struct-rooted) format: the tree and whether the decoder finished -/
def runDecoder (rep : Report) (force : Bool) (prog : List BOp) : CT × Bool :=
  let r := BOp.execList rep force prog Bld.newStruct
  (r.1.toCT, r.2)

/-! ### executable predicates (driver) -/

def namesDistinctB : List Bytes → Bool
  | [] => true
  | k :: ks => !(ks.any (bytesEq k)) && namesDistinctB ks

mutual
/-- every struct below lists pairwise distinct names -/
def DV.namesDistinctDeepB : DV → Bool
  | .struct fs => namesDistinctB (fs.map (·.1)) && DV.namesDistinctDeepBF fs
  | .array es => DV.namesDistinctDeepBL es
  | .scalar _ _ _ => true
def DV.namesDistinctDeepBL : List DV → Bool
  | [] => true
  | d :: ds => DV.namesDistinctDeepB d && DV.namesDistinctDeepBL ds
def DV.namesDistinctDeepBF : List (Bytes × DV) → Bool
  | [] => true
  | (_, d) :: fs => DV.namesDistinctDeepB d && DV.namesDistinctDeepBF fs
end

end FqModel.JQValue
