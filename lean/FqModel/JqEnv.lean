/-
  C07 — jq's definition environment and fq's override layer (DESIGN §9).

  What is modelled (and only this — the jq evaluator itself is the embedded gojq, a Go artefact that is
  compared differentially by harness c07, not modelled):

  * the definition environment: an ORDERED list of `def name/arity` (gojq compiler.go:307-372
    compileFuncDef appends to the current scope; init.jq's includes are compiled in load order into the
    one user scope, interp.go:826-829 + compiler.go:97-110);
  * lexical lookup (compiler.go:927-938 compileFunc): the LAST definition of name/arity that is visible;
    the body of definition number i sees definitions 0..i (itself included: funcinfo is appended before the
    body is compiled, compiler.go:319), a user program sees all of them; a name/arity with no visible
    definition is the builtin (compiler.go:936-964 — builtin scope, builtin.jq, the Go function table;
    custom Go functions of fq come last, compiler.go:1041, so they never shadow a builtin);
  * `$`-parameters are values (compiler.go:339-367: `def f($a): b` is `def f(a): a as $a | b`): arguments are
    evaluated at the call site, the cartesian product of their outputs is taken (first argument outermost);
  * the guard of binary.jq:17-27
        def _binary_or_orig(bfn; fn): if _exttype == "binary" then bfn else fn end;
        def _bytes_or_orig(bfn; fn): _binary_or_orig((if .unit != 8 then tobytesrange end | bfn); fn);
    is INLINED as the expression form `ifExtBinary bfn fn` (closure parameters are lexically scoped, so
    inlining is meaning preserving; that the two helpers have exactly this shape is the regenerated fact
    Gen.Overrides.binaryOrOrigOk / bytesOrOrigOk);
  * `_exttype` (interp.go:548-553): "binary" exactly for Binary values, "decode_value" for decode values,
    the jq type name for everything else.
-/
namespace FqModel.JqEnv

inductive JType where
  | null | boolean | number | string | array | object
  deriving DecidableEq, Repr

def JType.name : JType → String
  | .null => "null" | .boolean => "boolean" | .number => "number"
  | .string => "string" | .array => "array" | .object => "object"

/-- values as far as `_exttype` distinguishes them; the payload is abstract -/
inductive Val where
  | json (t : JType) (payload : Nat)
  | binary (payload : Nat)
  | decodeValue (t : JType) (payload : Nat)
  deriving DecidableEq, Repr

/-- interp.go:548-553 -/
def exttype : Val → String
  | .json t _ => t.name
  | .binary _ => "binary"
  | .decodeValue _ _ => "decode_value"

/-- the condition of `_binary_or_orig`: `_exttype == "binary"` -/
def isBinary (x : Val) : Bool := exttype x == "binary"

/-- outputs in order, and the error that ended the stream (if any) -/
abbrev Out := List Val × Option String

abbrev FName := String × Nat

/-- the parts that are NOT modelled, as parameters: what a builtin does with evaluated `$`-arguments, and
    what any other piece of jq code (the binary arms, re-implementations) does -/
structure Sem where
  builtin : FName → List Val → Val → Out
  other : Nat → List Val → Val → Out

inductive Expr where
  | call (f : String) (args : List Expr)   -- f(a₁; …; aₙ), n = args.length
  | var (i : Nat)                          -- the i-th `$`-parameter of the enclosing definition
  | ifExtBinary (t e : Expr)               -- if _exttype == "binary" then t else e end
  | pipe (a b : Expr)
  | other (id : Nat)
  deriving Repr, Inhabited

structure Def where
  name : String
  arity : Nat
  body : Expr
  deriving Repr, Inhabited

abbrev Env := List Def

def Def.fname (d : Def) : FName := (d.name, d.arity)

/-- lexical lookup among the first `vis` definitions: the last one wins -/
def lookup (env : Env) : Nat → FName → Option Nat
  | 0, _ => none
  | v + 1, fn =>
    match env[v]? with
    | some d => if d.fname = fn then some v else lookup env v fn
    | none => lookup env v fn

/-- `[$p₀, …, $pₖ₋₁]` from index s -/
def varsFrom : Nat → Nat → List Expr
  | _, 0 => []
  | s, k + 1 => Expr.var s :: varsFrom (s + 1) k

def vars (k : Nat) : List Expr := varsFrom 0 k

/-- `def _orig_f($p…): f($p…);` -/
def captureDef (f : String) (k : Nat) : Def := ⟨"_orig_" ++ f, k, .call f (vars k)⟩

/-- the guarded override `def f($p…): _binary_or_orig(bfn; _orig_f($p…));` with the helper inlined -/
def guarded (bfn orig : Expr) : Expr := .ifExtBinary bfn orig

def guardedDef (f : String) (k : Nat) (bfn : Expr) : Def := ⟨f, k, guarded bfn (.call ("_orig_" ++ f) (vars k))⟩

/-- cartesian product, first component outermost -/
def cart : List (List Val) → List (List Val)
  | [] => [[]]
  | ys :: rest => ys.flatMap (fun y => (cart rest).map (y :: ·))

/-- run `f` on every element in order; stop at the first error -/
def bindList {α} (xs : List α) (f : α → Out) : Out :=
  match xs with
  | [] => ([], none)
  | x :: rest =>
    match f x with
    | (ys, some e) => (ys, some e)
    | (ys, none) => let r := bindList rest f; (ys ++ r.1, r.2)

def bindOut (o : Out) (f : Val → Out) : Out :=
  match o.2 with
  | some e => let r := bindList o.1 f; (r.1, match r.2 with | some e' => some e' | none => some e)
  | none => bindList o.1 f

def firstErr : List Out → Option String
  | [] => none
  | (_, some e) :: _ => some e
  | (_, none) :: rest => firstErr rest

/-- evaluation with fuel (every syntactic step costs one unit) -/
def eval (S : Sem) (env : Env) : Nat → Nat → List Val → Expr → Val → Out
  | 0, _, _, _, _ => ([], some "fuel")
  | _ + 1, _, vals, .var i, _ =>
    match vals[i]? with
    | some v => ([v], none)
    | none => ([], some "unbound parameter")
  | _ + 1, _, vals, .other id, x => S.other id vals x
  | n + 1, vis, vals, .ifExtBinary t e, x =>
    if isBinary x then eval S env n vis vals t x else eval S env n vis vals e x
  | n + 1, vis, vals, .pipe a b, x =>
    bindOut (eval S env n vis vals a x) (fun y => eval S env n vis vals b y)
  | n + 1, vis, vals, .call f args, x =>
    let outs := args.map (fun a => eval S env n vis vals a x)
    match firstErr outs with
    | some e => ([], some e)
    | none =>
      let tuples := cart (outs.map (·.1))
      match lookup env vis (f, args.length) with
      | some i =>
        match env[i]? with
        | some d => bindList tuples (fun t => eval S env n (i + 1) t d.body x)
        | none => ([], some "lookup out of range")
      | none => bindList tuples (fun t => S.builtin (f, args.length) t x)

/-- the evaluated `$`-arguments of a call (none if one of them fails) -/
def evalArgs (S : Sem) (env : Env) (n vis : Nat) (vals : List Val) (args : List Expr) (x : Val) :
    Except String (List (List Val)) :=
  let outs := args.map (fun a => eval S env n vis vals a x)
  match firstErr outs with
  | some e => .error e
  | none => .ok (cart (outs.map (·.1)))

/-- a builtin applied to every argument tuple -/
def applyBuiltin (S : Sem) (fn : FName) (x : Val) : Except String (List (List Val)) → Out
  | .error e => ([], some e)
  | .ok tuples => bindList tuples (fun t => S.builtin fn t x)

/-- big-step reading of the fuel semantics: some amount of fuel gives r, and r is not the fuel error -/
def Evals (S : Sem) (env : Env) (vis : Nat) (vals : List Val) (e : Expr) (x : Val) (r : Out) : Prop :=
  ∃ n, eval S env n vis vals e x = r ∧ r.2 ≠ some "fuel"

/-! ## executable checks used by the driver and by `decide` over the regenerated slice -/

def isVarsFrom : Nat → List Expr → Bool
  | _, [] => true
  | s, .var i :: rest => i == s && isVarsFrom (s + 1) rest
  | _, _ :: _ => false

/-- `e` is `f($p₀; …; $pₖ₋₁)` -/
def isCallOfVars (e : Expr) (f : String) (k : Nat) : Bool :=
  match e with
  | .call g args => g == f && args.length == k && isVarsFrom 0 args
  | _ => false

def isCaptureDef (d : Def) (f : String) (k : Nat) : Bool :=
  d.name == "_orig_" ++ f && d.arity == k && isCallOfVars d.body f k

def isGuardedDef (d : Def) (f : String) (k : Nat) : Bool :=
  d.name == f && d.arity == k &&
  match d.body with
  | .ifExtBinary _ e => isCallOfVars e ("_orig_" ++ f) k
  | _ => false

/-- all side conditions of `override_transparent` for the override of f/k at position o with capture at c -/
def overrideOk (env : Env) (c o : Nat) (f : String) (k : Nat) : Bool :=
  (match env[c]? with | some d => isCaptureDef d f k | none => false) &&
  (match env[o]? with | some d => isGuardedDef d f k | none => false) &&
  lookup env (c + 1) (f, k) == none &&
  lookup env (o + 1) ("_orig_" ++ f, k) == some c &&
  lookup env env.length (f, k) == some o

/-- fq definitions that REPLACE a builtin outright (no guard). Each was read; why it is meant to keep the
    standard behaviour on JSON inputs — and that it does is what the differential run checks — is stated:

    * debug/0  internal.jq:27  `(["DEBUG:", .] | tojson | printerrln), .`: prints the
               jq-compatible `["DEBUG:",v]` line on fq's stderr and passes the input through (gojq's library has no
               debug/0 at all, its CLI adds the same behaviour);
    * debug/1  internal.jq:28  `(f | debug | empty), .` — jq 1.7's debug(msg);
    * stderr/0 internal.jq:30  `printerr, .` — value to stderr, input passed through (CLI function in gojq);
    * split/2  binary.jq:58    `[splits($regex; $flags)]` — gojq's own builtin.jq defines
               `splits($re; $flags): split($re; $flags)[]`, so collecting splits/2 gives split/2 back;
    * tojson/0 json.jq:3       `_to_json(null)` — fq's colorjson encoder (a fork of gojq's) so that decode values
               and binaries serialise; on JSON values it is the same text (differential; CLI mode compares text);
    * fromjson/0 json.jq:6     `decode("json") | if ._error then error(._error.error) end` — returns a DECODE VALUE:
               the source of the two recorded findings c07-fromjson-decode-value-index and
               c07-fromjson-of-fromjson-root-string, and of the domain extension to non-strings (assumption);
    * input/0, inputs/0, input_filename/0  init.jq — fq's own input machinery (files are decoded, not parsed as
               JSON): outside "ordinary JSON inputs given as values"; `input_filename` is null with `-n`, as in jq. -/
def reimplemented : List (String × Nat) :=
  [("debug", 0), ("debug", 1), ("stderr", 0), ("split", 2), ("tojson", 0), ("fromjson", 0),
   ("input", 0), ("inputs", 0), ("input_filename", 0)]

end FqModel.JqEnv

/-! ## `_re_quote_meta` (binary.jq:8-10): literal split through the regex engine

    `def split($val): _bytes_or_orig([_splits_binary($val | _re_quote_meta; "g")]; _orig_split($val));`
    (until 2e7d2332 `[splits($val | _re_quote_meta)]` for every input) — splitting on a literal string
    through the regex engine is right iff the quoted string, read as an RE2 pattern, denotes exactly the
    literal. Since 2e7d2332 only Binary inputs take this road (JSON strings go to the builtin through the
    guard), so the differential run on JSON inputs no longer exercises it: the obligation below is what
    keeps the quoting right. -/
namespace FqModel.JqEnv

/-- the RE2 metacharacters, i.e. Go's regexp.QuoteMeta set  \ . + * ? ( ) | [ ] { } ^ $  (code points) -/
def re2Meta : List Nat := [92, 46, 43, 42, 63, 40, 41, 124, 91, 93, 123, 125, 94, 36]

/-- `gsub("(?<c>[CLASS])"; "\\\(.c)")`: every character of CLASS gets a backslash in front -/
def quoteMeta (cls : List Nat) : List Nat → List Nat
  | [] => []
  | c :: rest => if c ∈ cls then 92 :: c :: quoteMeta cls rest else c :: quoteMeta cls rest

/-- ASCII punctuation: RE2 reads `\` followed by a punctuation character as that character -/
def isPunct (c : Nat) : Bool :=
  (33 ≤ c && c ≤ 47) || (58 ≤ c && c ≤ 64) || (91 ≤ c && c ≤ 96) || (123 ≤ c && c ≤ 126)

/-- the literal string an RE2 pattern denotes, if it is a pure literal: an unescaped metacharacter makes it
    a non-literal (none); `\p` with p punctuation is p; `\` followed by anything else is a class, an
    anchor or an error (none) -/
def readLiteral : List Nat → Option (List Nat)
  | [] => some []
  | c :: rest =>
    if c = 92 then
      match rest with
      | [] => none
      | d :: rest' => if isPunct d then (readLiteral rest').map (d :: ·) else none
    else if c ∈ re2Meta then none
    else (readLiteral rest).map (c :: ·)

end FqModel.JqEnv
