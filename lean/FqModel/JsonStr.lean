import FqModel.Gen.Overrides
/-
  C07 — the string escaping of fq's JSON encoder (tojson, @json, display) and of the reference's.

  Both `encodeString` functions (fq: internal/colorjson/encoder.go:163-226, gojq: encoder.go:101-154) are the
  same loop: a byte below 0x80 is copied if it is in ' '..'~' and neither '"' nor '\\', otherwise replaced by the
  text of its `switch` case, by default `\u00` + two lower-case hex digits; above 0x80 a valid rune is copied,
  an invalid byte becomes `\ufffd`. The model is PARAMETRIC in the table that the extractor reads off each
  encoder's AST (FqModel/Gen/Overrides.lean, namespace FqModel.Gen.Encoder), so the theorems are about what
  the source says today.
-/
namespace FqModel.JsonStr
open FqModel.Gen.Encoder

/-- one unit of a Go string as the loop sees it -/
inductive Ch where
  | ascii (b : Nat)      -- a byte < 0x80
  | rune (c : Nat)       -- a valid code point >= 0x80 (utf8.DecodeRuneInString does not return RuneError with size 1)
  | bad                  -- a byte that is not the start of a valid UTF-8 sequence
  deriving DecidableEq, Repr

def hexDigit (n : Nat) : Nat := if n < 10 then 48 + n else 87 + n   -- "0123456789abcdef"[n]

def lookupCase : List (Nat × List Nat) → Nat → Option (List Nat)
  | [], _ => none
  | (k, v) :: rest, b => if k = b then some v else lookupCase rest b

/-- the ASCII branch -/
def escByte (t : Esc) (b : Nat) : List Nat :=
  if t.passLo ≤ b ∧ b ≤ t.passHi ∧ b ∉ t.passExcl then [b]
  else match lookupCase t.cases b with
    | some out => out
    | none => [92, 117, 48, 48, hexDigit (b / 16), hexDigit (b % 16)]

/-- `\ufffd` -/
def replacement : List Nat := [92, 117, 102, 102, 102, 100]

def escCh (t : Esc) : Ch → List Nat
  | .ascii b => escByte t b
  | .rune c => [c]
  | .bad => replacement

/-- the text between the quotes -/
def encode (t : Esc) (s : List Ch) : List Nat := s.flatMap (escCh t)

/-- the code point a unit stands for after a JSON round trip -/
def Ch.value : Ch → Nat
  | .ascii b => b
  | .rune c => c
  | .bad => 0xfffd

/-! ### a JSON string-body reader (RFC 8259 §7), to say what the escaped text MEANS -/

def hexVal (c : Nat) : Option Nat :=
  if 48 ≤ c ∧ c ≤ 57 then some (c - 48)
  else if 97 ≤ c ∧ c ≤ 102 then some (c - 87)
  else if 65 ≤ c ∧ c ≤ 70 then some (c - 55)
  else none

def simpleEscape (c : Nat) : Option Nat :=
  if c = 34 then some 34 else if c = 92 then some 92 else if c = 47 then some 47
  else if c = 98 then some 8 else if c = 102 then some 12 else if c = 110 then some 10
  else if c = 114 then some 13 else if c = 116 then some 9 else none

/-- reads the body of a JSON string (no surrogate pairing: the encoders never write `\ud8xx`) -/
def unescape : List Nat → Option (List Nat)
  | [] => some []
  | c :: rest =>
    if c = 92 then
      match rest with
      | [] => none
      | e :: rest' =>
        if e = 117 then
          match rest' with
          | h1 :: h2 :: h3 :: h4 :: rest'' =>
            match hexVal h1, hexVal h2, hexVal h3, hexVal h4 with
            | some a, some b, some c', some d => (unescape rest'').map ((((a * 16 + b) * 16 + c') * 16 + d) :: ·)
            | _, _, _, _ => none
          | _ => none
        else
          match simpleEscape e with
          | some v => (unescape rest').map (v :: ·)
          | none => none
    else if c < 32 ∨ c = 34 then none     -- control characters and the quote must be escaped
    else (unescape rest).map (c :: ·)

/-- `e` is one well-formed piece of a JSON string body that means code point `v` -/
def decodesTo (e : List Nat) (v : Nat) : Bool :=
  match e with
  | [c] => c != 92 && !(c < 32) && c != 34 && c == v
  | [92, x] => x != 117 && simpleEscape x == some v
  | [92, 117, h1, h2, h3, h4] =>
    (match hexVal h1, hexVal h2, hexVal h3, hexVal h4 with
     | some a, some b, some c, some d => ((a * 16 + b) * 16 + c) * 16 + d == v
     | _, _, _, _ => false)
  | _ => false

/-- everything the round-trip theorem needs of a table, decidable: every byte's replacement means that byte,
    and the only special case above 0x80 is the invalid byte -/
def tableOk (t : Esc) : Bool :=
  (List.range 128).all (fun b => decodesTo (escByte t b) b) &&
  t.defaultU00 &&
  t.nonAscii == [("c == utf8.RuneError && size == 1", "\\ufffd")]

/-! ### executable summary for the driver: what kind of replacement a code point gets -/

def kindOf (t : Esc) (c : Nat) : String :=
  if c < 128 then
    let e := escByte t c
    if e == [c] then "raw"
    else if e == [92, 117, 48, 48, hexDigit (c / 16), hexDigit (c % 16)] then "u4"
    else match e with
      | [92, x] => "s" ++ String.singleton (Char.ofNat x)
      | _ => "other"
  else "raw"

end FqModel.JsonStr
