import FqModel.Bits
/-!
  Large-data observations (C01 `lg …` cases, C05 `lv …` cases).

  A source of > 64 KiB is not sent over the line protocol: the harness sends `seed` and a length, both sides
  regenerate the same splitmix64 byte stream (`hlib.Rand.Bytes`).  The implementation's output (bytes) is
  observed as  `<number of bytes> <FNV-1a-64 of every 4096-byte block, comma separated | ->`.

  The expected bytes are the SPECIFICATION side of `ioReader_bytes` / `copyBits_spec` / `buffer_fifo` /
  `tobytes_unpad`:  `bitsToBytesPadR (replicate pad false ++ slice bits off n)`, computed here on a ByteArray
  (`packBits`) and cross-checked on every case against the list definition on a prefix and on the tail
  (`selfCheck`), so that the array code is tied to `FqModel.Bits`.
-/
namespace FqModel.LargeObs
open FqModel

def smNext (s : UInt64) : UInt64 × UInt64 :=
  let s := s + 0x9e3779b97f4a7c15
  let z := s
  let z := (z ^^^ (z >>> 30)) * 0xbf58476d1ce4e5b9
  let z := (z ^^^ (z >>> 27)) * 0x94d049bb133111eb
  (s, z ^^^ (z >>> 31))

/-- hlib.NewRand(seed).Bytes(n) -/
def genBytes (seed n : Nat) : ByteArray := Id.run do
  let mut s : UInt64 := UInt64.ofNat seed
  let mut out := ByteArray.emptyWithCapacity n
  for _ in [0:n] do
    let (s', z) := smNext s
    s := s'
    out := out.push z.toUInt8
  return out

@[inline] def byteAt (d : ByteArray) (i : Nat) : UInt8 := if h : i < d.size then d[i] else 0

def bitAt (d : ByteArray) (i : Nat) : Bool := (byteAt d (i / 8) >>> (7 - (i % 8)).toUInt8) &&& 1 == 1

/-- output byte `i` of  pad zero bits ++ bits [off, off+n) of d ++ zero padding, bit by bit -/
def slowByte (d : ByteArray) (off n pad i : Nat) : UInt8 := Id.run do
  let mut b : UInt8 := 0
  for j in [0:8] do
    let q := 8 * i + j
    let bit := if q < pad then false else if q - pad < n then bitAt d (off + (q - pad)) else false
    b := (b <<< 1) ||| (if bit then 1 else 0)
  return b

/-- the bytes of  `pad` zero bits, then bits [off, off+n) of `d`, zero padded on the right to a byte -/
def packBits (d : ByteArray) (off n pad : Nat) : ByteArray := Id.run do
  let total := pad + n
  let nbytes := (total + 7) / 8
  let mut out := ByteArray.emptyWithCapacity nbytes
  for i in [0:nbytes] do
    if 8 * i ≥ pad && 8 * i + 8 ≤ total then
      let s := off + 8 * i - pad
      let k := s / 8
      let sh := s % 8
      let w : UInt16 := ((byteAt d k).toUInt16 <<< 8) ||| (byteAt d (k + 1)).toUInt16
      out := out.push (w >>> (8 - sh).toUInt16).toUInt8
    else
      out := out.push (slowByte d off n pad i)
  return out

/-- the list definition on a small range -/
def packBitsSpec (d : ByteArray) (off n pad : Nat) : List UInt8 :=
  let first := off / 8
  let cnt := (off % 8 + n + 7) / 8
  bitsToBytesPadR (List.replicate pad false ++ slice (bytesToBits (d.extract first (first + cnt)).toList) (off % 8) n)

/-- `packBits` agrees with the list specification on the first ≤ 40 bytes and on the last ≤ 40 bytes -/
def selfCheck (d : ByteArray) (off n pad : Nat) (out : ByteArray) : Bool :=
  let n1 := min n 320
  let head := packBitsSpec d off n1 pad
  let okHead := (out.extract 0 ((pad + n1) / 8)).toList == head.take ((pad + n1) / 8)
  -- tail: the last k whole bytes + the partial one; choose a start inside the data whose output position is byte aligned
  let total := pad + n
  let okTail :=
    if total ≤ 400 then true else
      let ob := total / 8 - 40          -- output byte where the tail starts
      let srcBit := off + 8 * ob - pad  -- ≥ off since 8*ob ≥ pad
      let m := total - 8 * ob
      (out.extract ob out.size).toList == packBitsSpec d srcBit m 0
  okHead && okTail

def fnvBlock (d : ByteArray) (lo hi : Nat) : UInt64 := Id.run do
  let mut h : UInt64 := 0xcbf29ce484222325
  for i in [lo:hi] do
    h := (h ^^^ (byteAt d i).toUInt64) * 0x100000001b3
  return h

def hex64 (x : UInt64) : String :=
  let ds := "0123456789abcdef".toList.toArray
  String.ofList ((List.range 16).map fun i => ds[((x >>> (60 - 4 * i).toUInt64) &&& 0xf).toNat]!)

def blockSize : Nat := 4096

def blockHashes (d : ByteArray) : List String :=
  (List.range ((d.size + blockSize - 1) / blockSize)).map fun k =>
    hex64 (fnvBlock d (k * blockSize) (min d.size ((k + 1) * blockSize)))

def hashesStr (d : ByteArray) : String :=
  if d.size == 0 then "-" else ",".intercalate (blockHashes d)

/-- compare an observation `<n> <hashes>` with the expected bytes; `none` = equal -/
def compare (exp : ByteArray) (n : Nat) (hashes : String) : Option String :=
  let eh := blockHashes exp
  let ih := if hashes == "-" then [] else hashes.splitOn ","
  let k := ((eh.zip ih).takeWhile (fun (a, b) => a == b)).length
  if k < eh.length && k < ih.length then
    some s!"block {k} (bytes {k * blockSize}..{min exp.size ((k + 1) * blockSize)}) is not the bits of the source; {n} bytes, expected {exp.size}"
  else if n != exp.size || ih.length != eh.length then some s!"{n} bytes, expected {exp.size}"
  else none

end FqModel.LargeObs
