/-
  C12 — paths and tree navigation (core Lean only).

  Part 1: decode trees, `valuePath`, jq `getpath` over decode values, roots, parents.
    pkg/interp/interp.go:203-219     valuePath
    pkg/decode/value.go:147-164      root(findSubRoot, findFormatRoot), Root/BufferRoot/FormatRoot
    pkg/decode/value.go:184-238      postProcess (what makes `WF` true: Index = position in an array)
    pkg/decode/decode.go:791-807     AddChild (what makes `WF` true: struct names unique — a duplicate is fatal)
    pkg/interp/decode.go:512-616     JQValueKey `_parent` `_root` `_buffer_root` `_format_root` `_path` `_index`
    pkg/interp/decode.go:289-295     valueOrFallbackKey: the struct's own field wins over the `_` keys
    pkg/interp/decode.go:683-689     ArrayDecodeValue.JQValueIndex, gojq func.go:1062-1100 funcIndex2/clampIndex
    pkg/interp/decode.jq:76-106      topath root buffer_root format_root parent parents
  Part 2: `_path_to_expr` / `_expr_to_path`.
    pkg/interp/internal.jq:114       _escape_ident   gsub("(?<g>[\\\\\"])"; "\\\(.g)")
    pkg/interp/internal.jq:149       _is_ident       test("^[a-zA-Z_][a-zA-Z_0-9]*$")
    pkg/interp/internal.jq:158-183   _path_to_expr (with the fix "quote empty string keys": the placeholder is null)
    pkg/interp/internal.jq:186-190   _expr_to_path = _eval("null | path(EXPR)"): modelled by a parser for exactly
                                     the image language of pathToExpr, with gojq's string-literal unescaping
                                     (gojq lexer.go scanString: \" \\ \/ \b \f \n \r \t \uXXXX, raw control
                                     characters are kept, `\(` starts an interpolation = not a path literal).

  A node is identified by a pointer `Ptr` = list of child positions, NEAREST FIRST: the head is the position
  in the parent's Children, the tail is the parent's pointer (so `Value.Parent` is `List.tail`, the root is `[]`).
-/
namespace FqModel.Nav

/-! ## Part 1 — trees -/

inductive Kind | leaf | struct | array
deriving DecidableEq, Repr, Inhabited

/-- the fields of decode.Value that navigation reads -/
structure Info where
  name : String
  /-- the Go field `Index`: position for array elements, −1 otherwise (postProcess) -/
  index : Int
  isRoot : Bool
  hasFormat : Bool
  kind : Kind
deriving DecidableEq, Repr, Inhabited

inductive Tree
  | mk (info : Info) (kids : List Tree)
deriving Repr, Inhabited

def Tree.info : Tree → Info
  | .mk i _ => i

def Tree.kids : Tree → List Tree
  | .mk _ k => k

abbrev Ptr := List Nat

abbrev PItem := String ⊕ Int
abbrev Path := List PItem

/-- follow a pointer from the root -/
def deref (t : Tree) : Ptr → Option Tree
  | [] => some t
  | k :: up => (deref t up).bind (fun s => s.kids[k]?)

/-- `v.Parent` -/
def parent : Ptr → Option Ptr
  | [] => none
  | _ :: up => some up

/-- interp.go:203-219: `for v.Parent != nil { switch Parent.V.(type) { case *Compound: if IsArray
    prepend v.Index else prepend v.Name }; v = v.Parent }` -/
def valuePathGo (t : Tree) : Ptr → Path → Path
  | [], parts => parts
  | k :: up, parts =>
    match deref t up, deref t (k :: up) with
    | some p, some v =>
      match p.info.kind with
      | .array => valuePathGo t up (.inr v.info.index :: parts)
      | .struct => valuePathGo t up (.inl v.info.name :: parts)
      | .leaf => valuePathGo t up parts
    | _, _ => parts

def pathOf (t : Tree) (n : Ptr) : Path := valuePathGo t n []

/-- value.go:147-161 `root(findSubRoot, findFormatRoot)` -/
def rootGo (t : Tree) (sub fmt : Bool) : Ptr → Ptr
  | [] => []
  | k :: up =>
    match deref t (k :: up) with
    | some v =>
      if sub && v.info.isRoot then k :: up
      else if fmt && v.info.hasFormat then k :: up
      else rootGo t sub fmt up
    | none => k :: up

def root (t : Tree) (n : Ptr) : Ptr := rootGo t false false n
def bufferRoot (t : Tree) (n : Ptr) : Ptr := rootGo t true false n
def formatRoot (t : Tree) (n : Ptr) : Ptr := rootGo t true true n

/-- decode.jq `_recurse_break(._parent | if . == null then error("break") end)`: the value, then its parents -/
def recurseBreak : Ptr → List Ptr
  | [] => [[]]
  | k :: up => (k :: up) :: recurseBreak up

/-- decode.jq:95-106 `parents` -/
def parents (n : Ptr) : List Ptr :=
  match parent n with
  | none => []
  | some p => recurseBreak p

/-- depth of a node: the number of `.Parent` steps from it to the top of the tree (the number of times the loop
    of valuePath, interp.go:206 `for v.Parent != nil`, runs for it). Counted on the pointer, independent of
    what `valuePathGo` collects. -/
def depth : Ptr → Nat
  | [] => 0
  | _ :: up => depth up + 1

/-- first child with that name (Compound.ByName; names are unique, AddChild is fatal on a duplicate) -/
def lookupName (s : String) : List Tree → Option Nat
  | [] => none
  | c :: cs => if c.info.name = s then some 0 else (lookupName s cs).map (· + 1)

/-- decodeValueBase.JQValueKey for the keys that return tree nodes; every other `_` key or unknown name
    gives a value that is not a node (`none`) -/
def extKey (t : Tree) (cur : Ptr) (s : String) : Option Ptr :=
  if s = "_parent" then parent cur
  else if s = "_root" then some (root t cur)
  else if s = "_buffer_root" then some (bufferRoot t cur)
  else if s = "_format_root" then some (formatRoot t cur)
  else none

/-- one step of gojq `getpath` (funcIndex2) on a decode value; `none` = null, an error, or a value that is
    not a node of the tree -/
def step (t : Tree) (cur : Ptr) (it : PItem) : Option Ptr :=
  match deref t cur with
  | none => none
  | some v =>
    match it with
    | .inl s =>
      -- valueOrFallbackKey: the struct's own field first, then the `_` keys
      match (if v.info.kind = .struct then lookupName s v.kids else none) with
      | some k => some (k :: cur)
      | none => extKey t cur s
    | .inr i =>
      if v.info.kind = .array then
        -- clampIndex(i, -1, l), then JQValueIndex: null outside 0..l-1
        let l : Int := v.kids.length
        let j := if i < 0 then i + l else i
        if 0 ≤ j ∧ j < l then some (j.toNat :: cur) else none
      else none

/-- `keys` of a compound decode value (JQValueKeys): the names of a struct's children (gojqx lists them
    sorted; the order is not part of the property), the positions of an array's children -/
def childKeys (v : Tree) : List PItem :=
  match v.info.kind with
  | .struct => v.kids.map (fun c => .inl c.info.name)
  | .array => (List.range v.kids.length).map (fun (k : Nat) => (.inr (k : Int) : PItem))
  | .leaf => []

/-- `root | getpath(path)` -/
def resolve (t : Tree) (path : Path) : Option Ptr := path.foldlM (step t) []

/-! ### well-formedness: what AddChild and postProcess establish (proved about the decoder in C03) -/

def namesNodup : List Tree → Bool
  | [] => true
  | c :: cs => !(cs.any (fun d => d.info.name == c.info.name)) && namesNodup cs

def indexFrom (k : Nat) : List Tree → Bool
  | [] => true
  | c :: cs => (c.info.index == (k : Int)) && indexFrom (k + 1) cs

def localOK (i : Info) (kids : List Tree) : Bool :=
  match i.kind with
  | .leaf => kids.isEmpty
  | .struct => namesNodup kids
  | .array => indexFrom 0 kids

mutual
def Tree.wfb : Tree → Bool
  | .mk i kids => localOK i kids && wfbList kids
def wfbList : List Tree → Bool
  | [] => true
  | t :: ts => t.wfb && wfbList ts
end

/-- struct children have unique names, array children have Index = position, leaves have no children -/
def WF (t : Tree) : Prop := t.wfb = true

instance (t : Tree) : Decidable (WF t) := inferInstanceAs (Decidable (t.wfb = true))

/-! ## Part 2 — path expressions, over `List Char` (wrappers over `String` at the end) -/

abbrev LItem := List Char ⊕ Int
abbrev LPath := List LItem

def isIdentStart (c : Char) : Bool :=
  ('a' ≤ c && c ≤ 'z') || ('A' ≤ c && c ≤ 'Z') || c == '_'

def isDigit (c : Char) : Bool := '0' ≤ c && c ≤ '9'

def isIdentChar (c : Char) : Bool := isIdentStart c || isDigit c

/-- internal.jq:149 `test("^[a-zA-Z_][a-zA-Z_0-9]*$")` (RE2 `$` without flags: end of text only) -/
def isIdentL : List Char → Bool
  | [] => false
  | c :: cs => isIdentStart c && cs.all isIdentChar

/-- internal.jq:114: backslash and double quote get a backslash, nothing else is touched -/
def escapeIdentL : List Char → List Char
  | [] => []
  | c :: cs => if c = '\\' ∨ c = '"' then '\\' :: c :: escapeIdentL cs else c :: escapeIdentL cs

def digitChar (d : Nat) : Char := Char.ofNat (48 + d)

/-- decimal digits, most significant first (fuel = n is always enough) -/
def natDigitsAux : Nat → Nat → List Nat → List Nat
  | 0, n, acc => n % 10 :: acc
  | f + 1, n, acc => if n < 10 then n :: acc else natDigitsAux f (n / 10) (n % 10 :: acc)

def natDigits (n : Nat) : List Nat := natDigitsAux n n []

def showNatL (n : Nat) : List Char := (natDigits n).map digitChar

/-- how `join("")` renders an integer path element (tojson of int / big.Int) -/
def showIntL (i : Int) : List Char :=
  if i < 0 then '-' :: showNatL i.natAbs else showNatL i.toNat

/-- internal.jq:166-180: one element of the `map(...)` -/
def seg : LItem → List Char
  | .inr i => '[' :: (showIntL i ++ [']'])
  | .inl s => '.' :: (if isIdentL s then s else '"' :: (escapeIdentL s ++ ['"']))

/-- internal.jq:158-183. `if length == 0 or (.[0] | type) != "string" then [null] + . end`, the placeholder
    `null` renders as "." -/
def pathToExprL (p : LPath) : List Char :=
  match p with
  | [] => ['.']
  | .inr _ :: _ => '.' :: p.flatMap seg
  | .inl _ :: _ => p.flatMap seg

/-! ### the parser: a one-character-at-a-time machine for the image language -/

inductive St
  | start
  /-- after the leading '.' -/
  | dot0
  /-- after a '.' that follows a segment -/
  | afterDot (acc : LPath)
  | ident (acc : LPath) (cur : List Char)
  | str (acc : LPath) (cur : List Char)
  | strEsc (acc : LPath) (cur : List Char)
  | strU (acc : LPath) (cur : List Char) (hex : List Nat)
  | idx0 (acc : LPath)
  | idxNeg (acc : LPath)
  | idxN (acc : LPath) (neg : Bool) (n : Nat)
  | done (acc : LPath)
deriving Repr

def digitVal? (c : Char) : Option Nat :=
  if isDigit c then some (c.toNat - 48) else none

def hexVal? (c : Char) : Option Nat :=
  if isDigit c then some (c.toNat - 48)
  else if 'a' ≤ c && c ≤ 'f' then some (c.toNat - 87)
  else if 'A' ≤ c && c ≤ 'F' then some (c.toNat - 55)
  else none

def keyStart (acc : LPath) (c : Char) : Option St :=
  if c = '"' then some (.str acc [])
  else if isIdentStart c then some (.ident acc [c])
  else none

def betweenSegs (acc : LPath) (c : Char) : Option St :=
  if c = '.' then some (.afterDot acc)
  else if c = '[' then some (.idx0 acc)
  else none

def delta : St → Char → Option St
  | .start, c => if c = '.' then some .dot0 else none
  | .dot0, c => if c = '[' then some (.idx0 []) else keyStart [] c
  | .afterDot acc, c => keyStart acc c
  | .ident acc cur, c =>
    if isIdentChar c then some (.ident acc (cur ++ [c])) else betweenSegs (acc ++ [.inl cur]) c
  | .str acc cur, c =>
    if c = '"' then some (.done (acc ++ [.inl cur]))
    else if c = '\\' then some (.strEsc acc cur)
    else some (.str acc (cur ++ [c]))          -- raw control characters included (gojq quoteAndEscape)
  | .strEsc acc cur, c =>
    if c = '"' ∨ c = '\\' ∨ c = '/' then some (.str acc (cur ++ [c]))
    else if c = 'b' then some (.str acc (cur ++ [Char.ofNat 8]))
    else if c = 'f' then some (.str acc (cur ++ [Char.ofNat 12]))
    else if c = 'n' then some (.str acc (cur ++ ['\n']))
    else if c = 'r' then some (.str acc (cur ++ ['\r']))
    else if c = 't' then some (.str acc (cur ++ ['\t']))
    else if c = 'u' then some (.strU acc cur [])
    else none                                   -- `\(` interpolation or an invalid escape
  | .strU acc cur hex, c =>
    match hexVal? c with
    | none => none
    | some h =>
      let hex' := hex ++ [h]
      if hex'.length < 4 then some (.strU acc cur hex')
      else
        let v := hex'.foldl (fun a d => 16 * a + d) 0
        -- surrogates (pairs or lone) are outside the image language: not modelled
        if 0xD800 ≤ v ∧ v ≤ 0xDFFF then none else some (.str acc (cur ++ [Char.ofNat v]))
  | .idx0 acc, c =>
    if c = '-' then some (.idxNeg acc)
    else match digitVal? c with
      | some d => some (.idxN acc false d)
      | none => none
  | .idxNeg acc, c =>
    match digitVal? c with
    | some d => some (.idxN acc true d)
    | none => none
  | .idxN acc neg n, c =>
    match digitVal? c with
    | some d => some (.idxN acc neg (10 * n + d))
    | none =>
      if c = ']' then some (.done (acc ++ [.inr (if neg then -(n : Int) else (n : Int))])) else none
  | .done acc, c => betweenSegs acc c

def finish : St → Option LPath
  | .dot0 => some []
  | .ident acc cur => some (acc ++ [.inl cur])
  | .done acc => some acc
  | _ => none

def run (st : St) (cs : List Char) : Option St := cs.foldlM delta st

/-- `null | path(EXPR)` for EXPR in the image language of `pathToExprL` -/
def exprToPathL (cs : List Char) : Option LPath := (run .start cs).bind finish

/-! ### `String` wrappers (what the theorems of Props/C12 and the driver use) -/

def toL : PItem → LItem
  | .inl s => .inl s.toList
  | .inr i => .inr i

def ofL : LItem → PItem
  | .inl s => .inl (String.ofList s)
  | .inr i => .inr i

/-- `_is_ident` on a jq string: the exact ASCII predicate (no case folding, no Unicode classes) -/
def isIdent (s : String) : Bool := isIdentL s.toList

/-- the unquoted keys of an expression string, scanned without the parser: after a '.', everything up to the
    next '.', '[' or the end, unless it starts with '"' (then the string literal is skipped, honouring
    backslash escapes). `none` = the text is not of the shape `.key` / `."…"` / `[…]` at all.
    The empty key directly after the leading '.' (placeholder of the empty path / a leading index) is dropped. -/
def unquotedKeysAux : Nat → List Char → Bool → List (List Char) → Option (List (List Char))
  | 0, _, _, _ => none
  | _ + 1, [], _, acc => some acc.reverse
  | f + 1, '.' :: '"' :: rest, _, acc =>
    -- skip the literal
    let rec skip : Nat → List Char → Option (List Char)
      | 0, _ => none
      | _ + 1, [] => none
      | g + 1, '\\' :: _ :: r => skip g r
      | _ + 1, '"' :: r => some r
      | g + 1, _ :: r => skip g r
    match skip (rest.length + 1) rest with
    | some r => unquotedKeysAux f r false acc
    | none => none
  | f + 1, '.' :: rest, first, acc =>
    let key := rest.takeWhile (fun c => c != '.' && c != '[')
    let rest' := rest.dropWhile (fun c => c != '.' && c != '[')
    if key.isEmpty then
      if first && (rest'.isEmpty || rest'.head? == some '[') then unquotedKeysAux f rest' false acc else none
    else unquotedKeysAux f rest' false (key :: acc)
  | f + 1, '[' :: rest, _, acc =>
    match rest.dropWhile (· != ']') with
    | _ :: r => unquotedKeysAux f r false acc
    | [] => none
  | _ + 1, _ :: _, _, _ => none

def unquotedKeys (e : List Char) : Option (List (List Char)) := unquotedKeysAux (e.length + 1) e true []

def pathToExpr (p : Path) : String := String.ofList (pathToExprL (p.map toL))

def exprToPath (e : String) : Option Path := (exprToPathL e.toList).map (·.map ofL)

end FqModel.Nav
