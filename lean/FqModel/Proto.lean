/-
  Line protocol shared by all drivers.

  The Go harness writes one case per line:   <op and args, space separated> TAB <implementation observation>
  The driver answers one line per case:
     OK                         model = implementation and the property predicate holds
     DIVERGE model=<obs>        the model predicts something else (correspondence broken)
     PROPFAIL <why>             the implementation's observation falsifies the property statement
     KNOWN <key> <why>          PROPFAIL that matches a modelled, documented defect class (key)
     BADOP <why>                the driver cannot parse the line (never defaulted)
-/
namespace FqModel.Proto

def splitTab (line : String) : String × String :=
  match line.splitOn "\t" with
  | [a] => (a, "")
  | a :: rest => (a, "\t".intercalate rest)
  | [] => ("", "")

def words (s : String) : List String := (s.splitOn " ").filter (· ≠ "")

def stripNL (s : String) : String :=
  let s := if s.endsWith "\n" then (s.dropEnd 1).toString else s
  if s.endsWith "\r" then (s.dropEnd 1).toString else s

/-- stateless driver loop -/
partial def loop (h : IO.FS.Stream) (out : IO.FS.Stream) (step : String → String → String) : IO Unit := do
  let line ← h.getLine
  if line.isEmpty then return ()
  let l := stripNL line
  if l.isEmpty || l.startsWith "#" || l.startsWith "!" then
    loop h out step
  else
    let (op, obs) := splitTab l
    out.putStrLn (step op obs)
    loop h out step

def run (step : String → String → String) : IO Unit := do
  let i ← IO.getStdin
  let o ← IO.getStdout
  loop i o step
  o.flush

/-- stateful driver loop -/
partial def loopSt {σ} (h : IO.FS.Stream) (out : IO.FS.Stream)
    (step : σ → String → String → σ × String) (s : σ) : IO Unit := do
  let line ← h.getLine
  if line.isEmpty then return ()
  let l := stripNL line
  if l.isEmpty || l.startsWith "#" || l.startsWith "!" then
    loopSt h out step s
  else
    let (op, obs) := splitTab l
    let (s', r) := step s op obs
    out.putStrLn r
    loopSt h out step s'

def runSt {σ} (init : σ) (step : σ → String → String → σ × String) : IO Unit := do
  let i ← IO.getStdin
  let o ← IO.getStdout
  loopSt i o step init
  o.flush

def verdict (modelObs implObs : String) : String :=
  if modelObs == implObs then "OK" else s!"DIVERGE model={modelObs}"

end FqModel.Proto
