import FqModel.C11Json
/-!
  C11 — the query rewrite, transliterated from pkg/interp/query.jq and pkg/interp/eval.jq.

  `_query_fromstring` (query.go:14-36) yields the JSON form of `gojq.Query` (field names = the `json:"…"` tags
  of the fork's query.go, all `omitempty`).  Every function below works on that JSON (`JV`, canonical objects)
  and mirrors the jq text branch for branch; the line numbers refer to query.jq unless stated otherwise.
  Object literals are written with their keys in increasing order (canonical form); `canonical_literals`
  at the end of the section checks each of them against `JV.mkObj`.
-/
namespace FqModel.C11
open JV

def tstr (s : String) : JV := .str s

/-- `.a.b.c` -/
def getIn (j : JV) : List String → JV
  | [] => j
  | k :: ks => getIn (j.get k) ks

/-- `.a.b.c = v` (null intermediate values become objects, as in jq) -/
def setIn (j : JV) : List String → JV → JV
  | [], v => v
  | k :: ks, v => j.set k (setIn (j.get k) ks v)

/-! ### constructors (query.jq:1-128) -/

/-- 2-3 `_query_null` -/
def queryNull : JV := .obj [("term", .obj [("type", .str "TermTypeNull")])]

/-- 6-11 `_query_query`: `. -> (.)` -/
def queryQuery (q : JV) : JV := .obj [("term", .obj [("query", q), ("type", .str "TermTypeQuery")])]

/-- 14-19 `_query_string($str)` -/
def queryString (s : JV) : JV := .obj [("term", .obj [("str", .obj [("str", s)]), ("type", .str "TermTypeString")])]

/-- 22-23 `_query_ident` -/
def queryIdent : JV := .obj [("term", .obj [("type", .str "TermTypeIdentity")])]
/-- 24-25 -/
def queryIsIdent (q : JV) : Bool := getIn q ["term", "type"] == .str "TermTypeIdentity"

/-- 28-29 `_query_func_rename(name)` -/
def queryFuncRename (q : JV) (name : JV) : JV := setIn q ["term", "func", "name"] name

/-- 31-39 `_query_func($name; $args)` -/
def queryFunc (name args : JV) : JV :=
  .obj [("term", .obj [("func", .obj [("args", args), ("name", name)]), ("type", .str "TermTypeFunc")])]
/-- 40-41 `_query_func($name)` -/
def queryFunc0 (name : JV) : JV := queryFunc name .null

/-- 43-50 -/
def queryFuncName (q : JV) : JV := getIn q ["term", "func", "name"]
def queryFuncArgs (q : JV) : JV := getIn q ["term", "func", "args"]
def queryIsFunc (q : JV) : Bool := getIn q ["term", "type"] == .str "TermTypeFunc"
def queryIsFuncNamed (q : JV) (name : JV) : Bool := queryIsFunc q && queryFuncName q == name
/-- 52-55 -/
def queryIsString (q : JV) : Bool := getIn q ["term", "type"] == .str "TermTypeString"
def queryStringStr (q : JV) : JV := getIn q ["term", "str", "str"]

/-- 57-58 `_query_empty` -/
def queryEmpty : JV := queryFunc0 (.str "empty")

/-- 61-65 `_query_pipe(l; r)` -/
def queryPipe (l r : JV) : JV := .obj [("left", l), ("op", .str "|"), ("right", r)]

/-- 68-76 `_query_array`: `. -> [.]`, `null -> []` -/
def queryArray (q : JV) : JV :=
  let base : JV := .obj [("term", .obj [("array", .obj []), ("type", .str "TermTypeArray")])]
  if q.truthy then setIn base ["term", "array", "query"] q else base

/-- 79-93 `_query_object`: `to_entries` lists the keys in increasing order -/
def queryObject (o : JV) : JV :=
  let kvs := match o with
    | .obj kvs => kvs.map fun kv => JV.obj [("key", .str kv.1), ("val", kv.2)]
    | _ => []
  .obj [("term", .obj [("object", .obj [("key_vals", .arr kvs)]), ("type", .str "TermTypeObject")])]

/-- 96-100 `_query_comma(l; r)` -/
def queryComma (l r : JV) : JV := .obj [("left", l), ("op", .str ","), ("right", r)]

/-- 104-111 `_query_commas`: `[a,b,c] -> a,b,c` (reduce from the left), `[] -> empty` -/
def queryCommas : List JV → JV
  | [] => queryEmpty
  | x :: rest => rest.foldl queryComma x

/-- 114-115 `_query_iter`: `.term.suffix_list = [{iter: true}]` -/
def queryIter (q : JV) : JV := setIn q ["term", "suffix_list"] (.arr [.obj [("iter", .bool true)]])

/-- 118-126 `_query_try(b; c)`; 127-128 `_query_try(b)` passes `null` -/
def queryTry (b c : JV) : JV :=
  .obj [("term", .obj [("try", .obj [("body", b), ("catch", c)]), ("type", .str "TermTypeTry")])]

/-! ### walkers (query.jq:130-158) -/

mutual
  def JV.size : JV → Nat
    | .arr xs => 1 + JV.sizeL xs
    | .obj kvs => 1 + JV.sizeKV kvs
    | _ => 1
  def JV.sizeL : List JV → Nat
    | [] => 0
    | x :: rest => x.size + JV.sizeL rest
  def JV.sizeKV : List (String × JV) → Nat
    | [] => 0
    | (_, v) :: rest => v.size + JV.sizeKV rest
end

/-- 131-144 `_query_pipe_last`: last query in a pipeline; descends into the body of a trailing `as` binding and
    to the right of `|`.  NB (kept): with a suffix list whose last element is not a binding the result is that
    SUFFIX (not a query).  `fuel` bounds the descent (any value ≥ the depth of the AST). -/
def pipeLast : Nat → JV → JV
  | 0, q => q
  | fuel + 1, q =>
    let sl := getIn q ["term", "suffix_list"]
    if sl.truthy then
      let l := sl.last
      let body := getIn l ["bind", "body"]
      if body.truthy then pipeLast fuel body else l
    else if q.get "op" == .str "|" then pipeLast fuel (q.get "right")
    else q

/-- 146-158 `_query_transform_pipe_last(f)` -/
def transformPipeLast (g : JV → JV) : Nat → JV → JV
  | 0, q => q
  | fuel + 1, q =>
    let sl := getIn q ["term", "suffix_list"]
    if sl.truthy then
      match sl with
      | .arr xs =>
        setIn q ["term", "suffix_list"] (.arr (updLast (fun l =>
          let body := getIn l ["bind", "body"]
          if body.truthy then setIn l ["bind", "body"] (transformPipeLast g fuel body) else g l) xs))
      | _ => q
    else if q.get "op" == .str "|" then q.set "right" (transformPipeLast g fuel (q.get "right"))
    else g q

/-! ### `_query_toquery` (275-279): `tojson | _query_fromstring` — a JSON value as the AST of its own literal.
    `tojson` writes object keys in increasing order; the parser (parser.go.y:328-351, 421-425, 526-546) builds
    object / array / string terms; array elements are joined by the left-associative `,`; an empty Go string is
    dropped by `omitempty`. -/

def strNode (s : String) : JV := if s == "" then .obj [] else .obj [("str", .str s)]

mutual
  def toquery : JV → JV
    | .null => .obj [("term", .obj [("type", .str "TermTypeNull")])]
    | .bool true => .obj [("term", .obj [("type", .str "TermTypeTrue")])]
    | .bool false => .obj [("term", .obj [("type", .str "TermTypeFalse")])]
    | .num n =>
      if n ≥ 0 then .obj [("term", .obj [("number", .str (toString n)), ("type", .str "TermTypeNumber")])]
      else .obj [("term", .obj [("type", .str "TermTypeUnary"),
        ("unary", .obj [("op", .str "-"), ("term", .obj [("number", .str (toString (-n))), ("type", .str "TermTypeNumber")])])])]
    | .str s => .obj [("term", .obj [("str", strNode s), ("type", .str "TermTypeString")])]
    | .arr [] => .obj [("term", .obj [("array", .obj []), ("type", .str "TermTypeArray")])]
    | .arr (x :: xs) =>
      .obj [("term", .obj [("array", .obj [("query", toqueryCommas (toquery x) xs)]), ("type", .str "TermTypeArray")])]
    | .obj [] => .obj [("term", .obj [("object", .obj []), ("type", .str "TermTypeObject")])]
    | .obj (kv :: kvs) =>
      .obj [("term", .obj [("object", .obj [("key_vals", .arr (toqueryKV (kv :: kvs)))]), ("type", .str "TermTypeObject")])]
  def toqueryCommas (acc : JV) : List JV → JV
    | [] => acc
    | x :: xs => toqueryCommas (queryComma acc (toquery x)) xs
  def toqueryKV : List (String × JV) → List JV
    | [] => []
    | (k, v) :: rest => .obj [("key_string", strNode k), ("val", toquery v)] :: toqueryKV rest
end

/-! ### `_eval_query_rewrite` (eval.jq:28-82) -/

def fuelOf (q : JV) : Nat := q.size

/-- eval.jq:31-37: name and arguments of the last pipeline element when it is a function call, else `["", []]` -/
def lastFunc (q : JV) : JV × JV :=
  let last := pipeLast (fuelOf q) q
  if queryIsFunc last then (queryFuncName last, queryFuncArgs last) else (.str "", .arr [])

/-- eval.jq:37 `$opts.slurps[$last_func_name]` -/
def slurpOf (opts q : JV) : JV :=
  match (lastFunc q).1 with
  | .str n => (opts.get "slurps").get n
  | _ => .null

/-- eval.jq:41-52: `try (q) catch c`; a query with neither term nor operator gets the identity term first -/
def wrapCatch (opts q : JV) : JV :=
  if (opts.get "catch_query").truthy then
    let q' := if !((q.get "term").truthy || (q.get "op").truthy) then q.merge queryIdent else q
    queryTry (queryQuery q') (opts.get "catch_query")
  else q

/-- eval.jq:53-55 -/
def wrapInput (opts q : JV) : JV :=
  if (opts.get "input_query").truthy then queryPipe (opts.get "input_query") q else q

/-- eval.jq:62-70 `slurp_args` -/
def slurpArgsQ (args : JV) : JV :=
  if args.truthy then
    match args with
    | .arr as => queryArray (queryCommas (as.map toquery))
    | _ => .null
  else queryArray .null

/-- eval.jq:60-75: the argument object of the slurp call; `_query_object` lists the members by key -/
def slurpArg (name args orig rewritten : JV) : JV :=
  queryObject (.obj [("orig", toquery orig), ("rewrite", toquery rewritten), ("slurp", queryString name),
                     ("slurp_args", slurpArgsQ args)])

/-- the argument of `_query_fromtostring` in `_eval_query_rewrite` (eval.jq:30-81), applied to a query without
    directives -/
def rewriteBody (opts q : JV) : JV :=
  let (name, args) := lastFunc q
  let slurp := slurpOf opts q
  let q1 := if slurp.truthy then transformPipeLast (fun _ => queryIdent) (fuelOf q) q else q
  let q3 := wrapInput opts (wrapCatch opts q1)
  if slurp.truthy then queryFunc slurp (.arr [slurpArg name args q q3])
  else if (opts.get "output_query").truthy then queryPipe q3 (opts.get "output_query")
  else q3

/-- query.jq:282-292 `_query_fromtostring(f)` without the two text conversions: directives move to the new root -/
def rewrite (opts a : JV) : JV :=
  ((rewriteBody opts ((a.del "meta").del "imports")).set "meta" (a.get "meta")).set "imports" (a.get "imports")

/-- the query the wrapper puts in parentheses (eval.jq:38-48) -/
def wrappedQuery (opts q : JV) : JV :=
  let q1 := if (slurpOf opts q).truthy then transformPipeLast (fun _ => queryIdent) (fuelOf q) q else q
  if !((q1.get "term").truthy || (q1.get "op").truthy) then q1.merge queryIdent else q1

/-! ### what printing and parsing again does to an AST

  `_query_tostring` (query.go:38-50) unmarshals the JSON into `gojq.Query` and prints it with the fork's
  `String` methods (query.go of the fork: no parentheses are added, `TermTypeQuery` nodes print theirs);
  `_query_fromstring` parses the text.  Effects on an AST:
  * every field is `omitempty`: members that are null / false / "" / [] disappear (`dropEmpty`);
  * a left-nested chain of `|` is printed flat and `|` is right-associative (parser.go.y:42): `reassocPipe`;
  * `. .[i]` — identity with a bracket index/slice suffix — prints as `.[i]`, which parses to an index TERM
    (parser.go.y:291-299 vs 412-415; Suffix.writeTo of the fork): `mergeIdentIndex`. -/

def isEmptyVal : JV → Bool
  | .null => true
  | .bool false => true
  | .str s => s == ""
  | .arr [] => true
  | _ => false

mutual
  def dropEmpty : JV → JV
    | .arr xs => .arr (dropEmptyL xs)
    | .obj kvs => .obj (dropEmptyKV kvs)
    | x => x
  def dropEmptyL : List JV → List JV
    | [] => []
    | x :: rest => dropEmpty x :: dropEmptyL rest
  def dropEmptyKV : List (String × JV) → List (String × JV)
    | [] => []
    | (k, v) :: rest =>
      let v' := dropEmpty v
      if isEmptyVal v' then dropEmptyKV rest else (k, v') :: dropEmptyKV rest
end

def isPurePipe (q : JV) : Bool := q.get "op" == .str "|" && !(q.hasKey "func_defs")

def flattenPipe : Nat → JV → List JV
  | 0, q => [q]
  | fuel + 1, q => if isPurePipe q then flattenPipe fuel (q.get "left") ++ flattenPipe fuel (q.get "right") else [q]

def rightNest : List JV → JV
  | [] => .null
  | [x] => x
  | x :: rest => queryPipe x (rightNest rest)

/-- root `|` chain to the right; the directives stay at the root -/
def reassocPipe (a : JV) : JV :=
  let body := (a.del "meta").del "imports"
  let body' := if isPurePipe body then rightNest (flattenPipe (fuelOf body) body) else body
  let withMeta := if a.hasKey "meta" then body'.set "meta" (a.get "meta") else body'
  if a.hasKey "imports" then withMeta.set "imports" (a.get "imports") else withMeta

/-- print-and-parse of the wrapper's output (operands of the root pipe are terms) -/
def reparseWrapper (r : JV) : JV := reassocPipe (dropEmpty r)

def isBracketIndex (s : JV) : Bool :=
  let i := s.get "index"
  i.truthy && !(i.hasKey "name") && !(i.hasKey "str")

/-- one term object whose members are already normalised -/
def mergeIdentIndexTerm (o : JV) : JV :=
  if o.get "type" == .str "TermTypeIdentity" then
    match o.get "suffix_list" with
    | .arr (s :: rest) =>
      if isBracketIndex s then
        let o' := (o.set "type" (.str "TermTypeIndex")).set "index" (s.get "index")
        if rest.isEmpty then o'.del "suffix_list" else o'.set "suffix_list" (.arr rest)
      else o
    | _ => o
  else o

mutual
  def mergeIdentIndex : JV → JV
    | .arr xs => .arr (mergeIdentIndexL xs)
    | .obj kvs => mergeIdentIndexTerm (.obj (mergeIdentIndexKV kvs))
    | x => x
  def mergeIdentIndexL : List JV → List JV
    | [] => []
    | x :: rest => mergeIdentIndex x :: mergeIdentIndexL rest
  def mergeIdentIndexKV : List (String × JV) → List (String × JV)
    | [] => []
    | (k, v) :: rest => (k, mergeIdentIndex v) :: mergeIdentIndexKV rest
end

/-- the model's prediction of `A | _query_tostring | _query_fromstring` for an AST `A` that came out of the parser -/
def printParse (a : JV) : JV := mergeIdentIndex a

/-! ### redundant parentheses (for the statement of the round-trip property)

  `( t )` around a term that is atomic in every context — identity, recurse, index, literals, function call,
  object, array, string, format, another parenthesis — without a suffix on the parenthesis itself and without
  an `as` binding inside is redundant.  (The printer neither adds nor removes parentheses; the normalisation
  only states what "the same structure" means.) -/

def atomicTypes : List String :=
  ["TermTypeIdentity", "TermTypeRecurse", "TermTypeIndex", "TermTypeNull", "TermTypeTrue", "TermTypeFalse",
   "TermTypeFunc", "TermTypeObject", "TermTypeArray", "TermTypeNumber", "TermTypeString", "TermTypeFormat",
   "TermTypeQuery"]

def hasBindSuffix (t : JV) : Bool :=
  match t.get "suffix_list" with
  | .arr xs => xs.any fun s => s.hasKey "bind"
  | _ => false

def onlyKey (j : JV) (k : String) : Bool :=
  match j with
  | .obj [(l, _)] => l == k
  | _ => false

def collapseParenTerm (o : JV) : JV :=
  if o.get "type" == .str "TermTypeQuery" && !(o.hasKey "suffix_list") then
    let q := o.get "query"
    if onlyKey q "term" then
      let t := q.get "term"
      match t.get "type" with
      | .str ty => if atomicTypes.contains ty && !(hasBindSuffix t) then t else o
      | _ => o
    else o
  else o

mutual
  def normParens : JV → JV
    | .arr xs => .arr (normParensL xs)
    | .obj kvs => collapseParenTerm (.obj (normParensKV kvs))
    | x => x
  def normParensL : List JV → List JV
    | [] => []
    | x :: rest => normParens x :: normParensL rest
  def normParensKV : List (String × JV) → List (String × JV)
    | [] => []
    | (k, v) :: rest => (k, normParens v) :: normParensKV rest
end

/-- "the same structure after normalising redundant parentheses" -/
def sameStructure (a b : JV) : Bool := normParens (mergeIdentIndex a) == normParens (mergeIdentIndex b)

/-! ### structural predicates of the property, evaluated on ASTs -/

/-- `x` is a sub-value of `y` -/
inductive Sub : JV → JV → Prop
  | refl (x : JV) : Sub x x
  | arr {x y : JV} {xs : List JV} : y ∈ xs → Sub x y → Sub x (.arr xs)
  | obj {x y : JV} {k : String} {kvs : List (String × JV)} : (k, y) ∈ kvs → Sub x y → Sub x (.obj kvs)

/-- the query has a main expression (eval.jq:47 `.term or .op`) -/
def hasMain (q : JV) : Bool := (q.get "term").truthy || (q.get "op").truthy

/- all sub-values, pre-order -/
mutual
  def subvalues : JV → List JV
    | .arr xs => .arr xs :: subvaluesL xs
    | .obj kvs => .obj kvs :: subvaluesKV kvs
    | x => [x]
  def subvaluesL : List JV → List JV
    | [] => []
    | x :: rest => subvalues x ++ subvaluesL rest
  def subvaluesKV : List (String × JV) → List JV
    | [] => []
    | (_, v) :: rest => subvalues v ++ subvaluesKV rest
end

/-- `q` occurs as the content of a parenthesis (a `TermTypeQuery` term) -/
def occursParenthesised (q whole : JV) : Bool :=
  (subvalues whole).any fun t => t.get "type" == .str "TermTypeQuery" && t.get "query" == q

/- binder occurrences in traversal order: `as` patterns, reduce/foreach patterns, labels, function definitions
    (name and parameters) -/
def funcDefSig (fd : JV) : String := (fd.get "name").encode ++ (fd.get "args").encode

mutual
  def binders : JV → List String
    | .arr xs => bindersL xs
    | .obj kvs => bindersKV kvs
    | _ => []
  def bindersL : List JV → List String
    | [] => []
    | x :: rest => binders x ++ bindersL rest
  def bindersKV : List (String × JV) → List String
    | [] => []
    | (k, v) :: rest =>
      (if k == "patterns" || k == "pattern" then ["as " ++ v.encode]
       else if k == "label" then ["label " ++ (v.get "ident").encode]
       else if k == "func_defs" then
         match v with
         | .arr fds => fds.map fun fd => "def " ++ funcDefSig fd
         | _ => ["def ?"]
       else if k == "reduce" then ["reduce"]
       else if k == "foreach" then ["foreach"]
       else [])
      ++ binders v ++ bindersKV rest
end

/- names of all function-call terms (variables are calls of `$name`), traversal order -/
mutual
  def funcNames : JV → List String
    | .arr xs => funcNamesL xs
    | .obj kvs => funcNamesKV kvs
    | _ => []
  def funcNamesL : List JV → List String
    | [] => []
    | x :: rest => funcNames x ++ funcNamesL rest
  def funcNamesKV : List (String × JV) → List String
    | [] => []
    | (k, v) :: rest =>
      (if k == "func" then
        match v.get "name" with
        | .str n => [n]
        | _ => []
       else []) ++ funcNames v ++ funcNamesKV rest
end

/-- the identifiers the wrapper may introduce (init.jq:150-160, 263-275; repl.jq:222-236; query.jq:57-58) -/
def wrapperNames : List String :=
  ["inputs", "_cli_display", "_cli_eval_on_expr_error", "_repl_display", "_repl_on_expr_error",
   "_help_slurp", "_cli_repl_error", "_cli_slurp_error", "_repl_slurp", "_slurp", "empty"]

def removeOne (x : String) : List String → List String
  | [] => []
  | y :: rest => if x == y then rest else y :: removeOne x rest

/-- multiset difference -/
def listDiff (xs ys : List String) : List String := ys.foldl (fun acc y => removeOne y acc) xs

/-! ### evaluation of a literal AST back to the JSON value (inverse of `toquery`; used for the slurp argument) -/

def flattenComma : Nat → JV → List JV
  | 0, q => [q]
  | fuel + 1, q =>
    if q.get "op" == .str "," then flattenComma fuel (q.get "left") ++ flattenComma fuel (q.get "right") else [q]

/-- key of one `key_vals` entry of an object literal: `"k": …` (key_string) or `k: …` (key) -/
def litKey (kv : JV) : Option String :=
  match getIn kv ["key_string", "str"], kv.get "key" with
  | .str s, _ => some s
  | .null, .str s => some s
  | .null, .null => some ""
  | _, _ => none

def litStep (ev : JV → Option JV) (acc kv : JV) : Option JV :=
  match ev (kv.get "val"), litKey kv with
  | some v, some k => some (acc.set k v)
  | _, _ => none

def litType (t : JV) : String :=
  match t.get "type" with
  | .str s => s
  | _ => ""

def evalLit : Nat → JV → Option JV
  | 0, _ => none
  | fuel + 1, q =>
    let t := q.get "term"
    let ty := litType t
    if ty == "TermTypeNull" then some .null
    else if ty == "TermTypeTrue" then some (.bool true)
    else if ty == "TermTypeFalse" then some (.bool false)
    else if ty == "TermTypeString" then
      match getIn t ["str", "str"] with
      | .str s => some (.str s)
      | .null => some (.str "")
      | _ => none
    else if ty == "TermTypeArray" then
      let inner := getIn t ["array", "query"]
      if inner.truthy then
        ((flattenComma fuel inner).mapM (evalLit fuel)).map .arr
      else some (.arr [])
    else if ty == "TermTypeObject" then
      match getIn t ["object", "key_vals"] with
      | .arr kvs => kvs.foldlM (litStep (evalLit fuel)) (.obj [])
      | .null => some (.obj [])
      | _ => none
    else none

/- canonical JSON values without numbers: what `_query_fromstring` yields (object keys strictly increasing) -/
mutual
  def Canon : JV → Prop
    | .num _ => False
    | .arr xs => CanonL xs
    | .obj kvs => CanonKV kvs ∧ kvs.Pairwise (fun a b => a.1 < b.1)
    | _ => True
  def CanonL : List JV → Prop
    | [] => True
    | x :: rest => Canon x ∧ CanonL rest
  def CanonKV : List (String × JV) → Prop
    | [] => True
    | (_, v) :: rest => Canon v ∧ CanonKV rest
end

/-! ### the option records fq passes (init.jq:150-160 `_cli_eval`, 241-277 `_main`; repl.jq:222-239 `_repl_eval`)

  The driver compares them with the records the harness builds with fq's own constructors. -/

def cliSlurps : JV := .obj [("help", .str "_help_slurp"), ("repl", .str "_cli_repl_error"), ("slurp", .str "_cli_slurp_error")]
def replSlurps : JV := .obj [("help", .str "_help_slurp"), ("repl", .str "_repl_slurp"), ("slurp", .str "_slurp")]

/-- command line, not interactive: `$eval_opts | .input_query = … | .output_query = _query_func("_cli_display")`
    plus `_cli_eval`'s `slurps` and `catch_query` -/
def cliOpts (input : JV) : JV :=
  .obj [("catch_query", queryFunc0 (.str "_cli_eval_on_expr_error")), ("filename", .null), ("input_query", input),
        ("output_query", queryFunc0 (.str "_cli_display")), ("slurps", cliSlurps)]

def optsOf : String → Option JV
  | "cli_null" => some (cliOpts queryNull)                                     -- --null-input
  | "cli_inputs" => some (cliOpts (queryFunc0 (.str "inputs")))                -- default and --raw-input
  | "cli_slurp" => some (cliOpts (queryArray (queryFunc0 (.str "inputs"))))    -- --slurp
  | "cli_repl" =>                                                              -- -i: the expression feeds the REPL
    some (.obj [("catch_query", queryFunc0 (.str "_cli_eval_on_expr_error")), ("filename", .null), ("slurps", cliSlurps)])
  | "repl" =>
    some (.obj [("catch_query", queryFunc0 (.str "_repl_on_expr_error")), ("input_query", queryIter queryIdent),
                ("output_query", queryFunc0 (.str "_repl_display")), ("slurps", replSlurps)])
  | "empty" => some (.obj [])                                                  -- eval($expr), _repl_slurp_eval
  | _ => none

def realOptNames : List String := ["cli_null", "cli_inputs", "cli_slurp", "cli_repl", "repl", "empty"]

/-! ### typed view of what the wrapper builds, and its meaning

  The user's program is a leaf carrying its AST (an object); its denotation is a parameter.  A denotation maps
  an input value to the outputs produced before the evaluation stops, and the error that stopped it, if any.
  (`label`/`break` signals raised by the user's program cannot cross the wrapper: it contains no `label`.) -/

inductive Q where
  | user (ast : List (String × JV))
  | ident
  | null
  | iterIdent
  | call (name : String)
  | pipe (l r : Q)
  | comma (l r : Q)
  | try_ (b c : Q)
  | paren (q : Q)
  | array (q : Q)
  | lit (v : JV)
  | callLit (name : String) (arg : JV)
deriving Inhabited

def Q.toJson : Q → JV
  | .user kvs => .obj kvs
  | .ident => queryIdent
  | .null => queryNull
  | .iterIdent => queryIter queryIdent
  | .call n => queryFunc0 (.str n)
  | .pipe l r => queryPipe l.toJson r.toJson
  | .comma l r => queryComma l.toJson r.toJson
  | .try_ b c => queryTry b.toJson c.toJson
  | .paren q => queryQuery q.toJson
  | .array q => queryArray q.toJson
  | .lit v => toquery v
  | .callLit n v => queryFunc (.str n) (.arr [toquery v])

structure Res where
  outs : List JV
  err : Option JV
deriving Inhabited

abbrev Den := JV → Res

def Res.bindList (f : Den) (tailErr : Option JV) : List JV → Res
  | [] => ⟨[], tailErr⟩
  | v :: rest =>
    let a := f v
    match a.err with
    | some e => ⟨a.outs, some e⟩
    | none => let b := Res.bindList f tailErr rest; ⟨a.outs ++ b.outs, b.err⟩

/-- run `f` on every output of `r` in order; the first error ends the evaluation -/
def Res.bind (r : Res) (f : Den) : Res := Res.bindList f r.err r.outs

def semIdent : Den := fun v => ⟨[v], none⟩
def semPipe (a b : Den) : Den := fun v => (a v).bind b
def semComma (a b : Den) : Den := fun v =>
  let x := a v
  match x.err with
  | some _ => x
  | none => let y := b v; ⟨x.outs ++ y.outs, y.err⟩
/-- `try b catch c`: the outputs of `b`; when `b` stops with an error, `c` runs on the error value -/
def semTry (b c : Den) : Den := fun v =>
  let x := b v
  match x.err with
  | none => x
  | some e => let y := c e; ⟨x.outs ++ y.outs, y.err⟩
def semArray (a : Den) : Den := fun v =>
  let x := a v
  match x.err with
  | some e => ⟨[], some e⟩
  | none => ⟨[.arr x.outs], none⟩

structure Env where
  user : List (String × JV) → Den
  fn : String → Den
  fn1 : String → JV → Den
  iter : Den

def Q.sem (ρ : Env) : Q → Den
  | .user kvs => ρ.user kvs
  | .ident => semIdent
  | .null => fun _ => ⟨[.null], none⟩
  | .iterIdent => ρ.iter
  | .call n => ρ.fn n
  | .pipe l r => semPipe (l.sem ρ) (r.sem ρ)
  | .comma l r => semComma (l.sem ρ) (r.sem ρ)
  | .try_ b c => semTry (b.sem ρ) (c.sem ρ)
  | .paren q => q.sem ρ
  | .array q => semArray (q.sem ρ)
  | .lit v => fun _ => ⟨[v], none⟩
  | .callLit n v => ρ.fn1 n v

/-- the wrapper's options, typed -/
structure WOpts where
  input : Option Q
  catch_ : Option Q
  output : Option Q

def optJ : Option Q → JV
  | some q => q.toJson
  | none => .null

/-- eval.jq:41-55, 78-80 without the slurp branch -/
def rewriteQ (o : WOpts) (q : Q) : Q :=
  let q2 := match o.catch_ with | some c => Q.try_ (.paren q) c | none => q
  let q3 := match o.input with | some i => Q.pipe i q2 | none => q2
  match o.output with | some out => Q.pipe q3 out | none => q3

def optPipeL : Option Den → Den → Den
  | some a, b => semPipe a b
  | none, b => b
def optPipeR : Den → Option Den → Den
  | a, some b => semPipe a b
  | a, none => a
def optTry : Den → Option Den → Den
  | a, some c => semTry a c
  | a, none => a

end FqModel.C11
