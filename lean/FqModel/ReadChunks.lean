/-
  C06 — stream-transforming io.Readers INSIDE decoders, Read call by Read call.

  A decoder that reads part of its input through an `io.Reader` adapter (NAL emulation-prevention
  removal, ID3v2 unsynchronisation) does not see the payload at once: `d.NewBitBufFromReader`
  (pkg/decode/decode.go:294-298) copies through `bytes.Buffer.ReadFrom`, which calls `Read(p)` with
  destinations `p = buf[len:cap]` of 512, 512+e, 1024+e', … bytes, so the adapter's per-byte loop runs
  once per CHUNK with state carried (or not) in the reader value between the calls.  The dimension
  modelled here is that sequence of calls: every destination size, every amount the inner reader
  delivered, every byte content.

  Mirrors (file:line of /repo at the time of writing):
    format/mpeg/shared.go:89-113     nalUnescapeReader{io.Reader; lastTwoZeros [2]bool}, POINTER receiver:
                                     `n, err = r.Reader.Read(p)`, `for i, b := range p[0:n]`,
                                     `if r.lastTwoZeros[0] && r.lastTwoZeros[1] && b == 0x03 { n--; reset; continue }`,
                                     `else { [1] = [0]; [0] = b == 0 }`, `p[ni] = p[i]`, `ni++`
    format/mpeg/avc_nalu.go:137-143, hevc_nalu.go:105-111   the reader is used when findNALUEmulationCode finds 00 00 03
    format/id3/id3v2.go:196-218      unsyncReader{io.Reader; lastFF bool}, VALUE receiver `func (r unsyncReader) Read`:
                                     the assignments to `r.lastFF` change the method's copy — every Read starts from the
                                     `lastFF` the struct was built with (false).  Same loop shape, drops 00 after ff.
    bytes/buffer.go:206-226          ReadFrom: `m, e := r.Read(b.buf[i:cap(b.buf)])`, `if m < 0 { panic(errNegativeRead) }`,
                                     `b.buf = b.buf[:i+m]` — the consumer's own fault conditions on a bad count

  Faults are explicit: `p[0:n]`, `p[i]`, `p[ni]`, and (variants only) the lookahead `p[i+1]` are checked
  against `len p` (= `cap p` for the destinations ReadFrom / io.ReadAll / the harness pass).
  The bytes not yet visited by `range p[0:n]` are untouched by the loop (it writes at `ni ≤ i`, behind the
  cursor), so the loop recurses over them as a list and the kept bytes `p[0:ni]` are accumulated.
-/
import FqModel.Recover
namespace FqModel.ReadChunks
open FqModel.Recover

def idxFault : PanicV := .runtime "index-out-of-range"
def sliceFault : PanicV := .runtime "slice-bounds-out-of-range"
def negReadFault : PanicV := .runtime "explicit-panic-error"   -- bytes.Buffer: reader returned negative count from Read

def obind {α β : Type} (o : Outcome α) (f : α → Outcome β) : Outcome β :=
  match o with
  | .ok a => f a
  | .panic v => .panic v

def omap {α β : Type} (o : Outcome α) (f : α → β) : Outcome β :=
  match o with
  | .ok a => .ok (f a)
  | .panic v => .panic v

/-- Go `p[i]` (read or write) on a slice of length `plen` -/
def goIdx (plen i : Nat) : Outcome Unit := if i < plen then .ok () else .panic idxFault

/-- Go `p[0:n]` on a slice with cap = len = `plen` -/
def goSliceTo (plen n : Nat) : Outcome Unit := if n ≤ plen then .ok () else .panic sliceFault

/-- one call `Read(p)`: `plen = len p`, `bs` = the bytes the inner reader put into `p[0:n]` (n = bs.length),
    `stale` = what `p[n:]` holds (left over from before; only a variant with a lookahead ever looks at it) -/
structure ReadCall where
  plen : Nat
  bs : List Nat
  stale : List Nat
deriving Repr, DecidableEq

/-! ## nalUnescapeReader (format/mpeg/shared.go:89-113) -/

structure NalSt where
  z0 : Bool      -- lastTwoZeros[0]: the previous kept byte was 00
  z1 : Bool      -- lastTwoZeros[1]: … and the one before it
deriving Repr, BEq, DecidableEq

/-- which Read is modelled: the code as it is, or a variant that looks at the byte AFTER a 00 00 03
    (`isEscape && <guard> && p[i+1] > 0x03 → not an escape`) with one of two guards -/
inductive Look where
  | none   -- shared.go as it is: no lookahead
  | lt     -- guard `i+1 < rn`
  | le     -- guard `i+1 <= rn` — the seeded change S5-C06-1
deriving Repr, DecidableEq

/-- the guard, for the byte at index i with `rest` = the delivered bytes after it (rn = i + 1 + rest.length) -/
def Look.guard : Look → List Nat → Bool
  | .none, _ => false
  | .lt, rest => !rest.isEmpty
  | .le, _ => true

/-- `p[i+1]`: the next delivered byte, or the stale byte behind the data, or a fault at the end of `p` -/
def peekNext (plen i : Nat) (rest stale : List Nat) : Outcome Nat :=
  obind (goIdx plen (i + 1)) fun _ =>
    .ok (match rest with
      | b :: _ => b
      | [] => stale.headD 0)

/-- the loop `for i, b := range p[0:n]` (shared.go:98-110); returns (n, state, kept bytes = p[0:ni] in order) -/
def nalLoop (look : Look) (plen : Nat) (stale : List Nat) :
    List Nat → Nat → Nat → Int → NalSt → Outcome (Int × NalSt × List Nat)
  | [], _, _, n, st => .ok (n, st, [])
  | b :: rest, i, ni, n, st =>
    let esc0 := st.z0 && st.z1 && b == 3
    -- Go's `&&` evaluates `p[i+1]` only when what stands before it is true
    obind (if esc0 && look.guard rest then obind (peekNext plen i rest stale) fun nb => .ok (!decide (nb > 3))
           else .ok esc0) fun isEscape =>
    if isEscape then nalLoop look plen stale rest (i + 1) ni (n - 1) ⟨false, false⟩     -- n--; reset; continue
    else
      obind (goIdx plen i) fun _ =>        -- p[i]
      obind (goIdx plen ni) fun _ =>       -- p[ni] =
      omap (nalLoop look plen stale rest (i + 1) (ni + 1) n ⟨b == 0, st.z0⟩) fun (n', st', kept) => (n', st', b :: kept)

/-- one `Read(p)` -/
def nalRead (look : Look) (c : ReadCall) (st : NalSt) : Outcome (Int × NalSt × List Nat) :=
  obind (goSliceTo c.plen c.bs.length) fun _ => nalLoop look c.plen c.stale c.bs 0 0 c.bs.length st

/-- what the consumer does with the count (bytes/buffer.go:214-219; io.ReadAll: `b = b[:len(b)+n]`) -/
def consumerCheck (plen : Nat) (n : Int) : Outcome Unit :=
  if n < 0 then .panic negReadFault else if n > plen then .panic sliceFault else .ok ()

/-- a whole copy: the Reads one after the other ON THE SAME reader value (pointer receiver: the state
    written by one call is what the next one starts from); the output is what the consumer appended -/
def nalReads (look : Look) : NalSt → List ReadCall → Outcome (NalSt × List Nat)
  | st, [] => .ok (st, [])
  | st, c :: rest =>
    obind (nalRead look c st) fun (n, st', out) =>
    obind (consumerCheck c.plen n) fun _ =>
    obind (nalReads look st' rest) fun (st'', outs) => .ok (st'', out ++ outs)

/-! ### specification side: no buffers, no indices -/

def nalStepSt (st : NalSt) (b : Nat) : NalSt :=
  if st.z0 && st.z1 && b == 3 then ⟨false, false⟩ else ⟨b == 0, st.z0⟩

def nalFinalSt : NalSt → List Nat → NalSt
  | st, [] => st
  | st, b :: rest => nalFinalSt (nalStepSt st b) rest

/-- the whole input at once, from state `st` -/
def nalSpec : NalSt → List Nat → List Nat
  | _, [] => []
  | st, b :: rest =>
    if st.z0 && st.z1 && b == 3 then nalSpec (nalStepSt st b) rest else b :: nalSpec (nalStepSt st b) rest

/-- ITU-T H.264 7.4.1 as a rewrite on the byte string: every 00 00 03 loses its 03, left to right -/
def unescape : List Nat → List Nat
  | 0 :: 0 :: 3 :: rest => 0 :: 0 :: unescape rest
  | b :: rest => b :: unescape rest
  | [] => []

/-! ## unsyncReader (format/id3/id3v2.go:196-218) -/

/-- does a Read start from the state the previous Read left?  `func (r unsyncReader) Read` has a VALUE
    receiver, so: no.  (Flip this when the receiver becomes a pointer; the theorems cover both.) -/
def unsyncCarriesState : Bool := false

def unsyncLoop (plen : Nat) : List Nat → Nat → Nat → Int → Bool → Outcome (Int × Bool × List Nat)
  | [], _, _, n, ff => .ok (n, ff, [])
  | b :: rest, i, ni, n, ff =>
    if ff && b == 0 then unsyncLoop plen rest (i + 1) ni (n - 1) false
    else
      obind (goIdx plen i) fun _ =>
      obind (goIdx plen ni) fun _ =>
      omap (unsyncLoop plen rest (i + 1) (ni + 1) n (b == 255)) fun (n', ff', kept) => (n', ff', b :: kept)

def unsyncRead (c : ReadCall) (ff : Bool) : Outcome (Int × Bool × List Nat) :=
  obind (goSliceTo c.plen c.bs.length) fun _ => unsyncLoop c.plen c.bs 0 0 c.bs.length ff

def unsyncReads (carry : Bool) : Bool → List ReadCall → Outcome (List Nat)
  | _, [] => .ok []
  | ff, c :: rest =>
    obind (unsyncRead c ff) fun (n, ff', out) =>
    obind (consumerCheck c.plen n) fun _ =>
    obind (unsyncReads carry (if carry then ff' else ff) rest) fun outs => .ok (out ++ outs)

def unsyncStep (ff : Bool) (b : Nat) : Bool := if ff && b == 0 then false else b == 255

def unsyncFinal : Bool → List Nat → Bool
  | ff, [] => ff
  | ff, b :: rest => unsyncFinal (unsyncStep ff b) rest

def unsyncSpec : Bool → List Nat → List Nat
  | _, [] => []
  | ff, b :: rest => if ff && b == 0 then unsyncSpec false rest else b :: unsyncSpec (b == 255) rest

/-- what the code as it is computes: the specification applied to every chunk on its own -/
def unsyncChunked (carry : Bool) : Bool → List ReadCall → List Nat
  | _, [] => []
  | ff, c :: rest => unsyncSpec ff c.bs ++ unsyncChunked carry (if carry then unsyncFinal ff c.bs else ff) rest

/-! ## bitFlipReader (format/bzip2/bzip2.go:40-50) -/

/-- math/bits.Reverse8 -/
def reverse8 (b : Nat) : Nat :=
  b / 128 % 2 + 2 * (b / 64 % 2) + 4 * (b / 32 % 2) + 8 * (b / 16 % 2) + 16 * (b / 8 % 2) + 32 * (b / 4 % 2) +
    64 * (b / 2 % 2) + 128 * (b % 2)

/-- `for i := range n { p[i] = bits.Reverse8(p[i]) }` — no `p[0:n]` here: a count beyond `len p` would fault at `p[len p]` -/
def bitflipLoop (plen : Nat) : List Nat → Nat → Outcome (List Nat)
  | [], _ => .ok []
  | b :: rest, i => obind (goIdx plen i) fun _ => omap (bitflipLoop plen rest (i + 1)) fun out => reverse8 b :: out

/-- one Read of the (stateless) reader: (n, p[0:n]) -/
def bitflipRead (c : ReadCall) : Outcome (Int × List Nat) :=
  omap (bitflipLoop c.plen c.bs 0) fun out => ((c.bs.length : Int), out)

/-! ## the call schedule the harness drives (and `bytes.Buffer.ReadFrom` produces) -/

/-- cut `input` into Read calls: call j has a destination of `plen_j` bytes and an inner reader that delivers
    `min c_j plen_j remaining` bytes; stops when the schedule or the input ends -/
def schedule (stale : Nat) : List Nat → List (Nat × Nat) → List ReadCall
  | _, [] => []
  | input, (plen, c) :: rest =>
    let k := min (min c plen) input.length
    ⟨plen, input.take k, List.replicate (plen - k) stale⟩ :: schedule stale (input.drop k) rest

end FqModel.ReadChunks
