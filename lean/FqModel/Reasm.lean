/-!
  C19 — TCP stream / IPv4 datagram reassembly (core Lean only; no imports).

  (i)  REFERENCE (the specification the property talks about)
       * `reasmFrom segs base` : a multiset (list, order irrelevant) of `(offset, payload)` segments of one
         direction ↦ (longest contiguous run of bytes starting at `base`, "segments beyond the first hole exist")
       * `defragGroup` : IPv4 fragments `(off, more, payload)` of one datagram id ↦ the datagram
  (ii) fq's OWN part, transliterated from /repo/format/inet/flowsdecoder/flowsdecoder.go and
       /repo/format/pcap/shared.go:
       * `reassembledSG`   flowsdecoder.go:61-92  (direction selection, the `skip == -1` rule, skip accounting, append)
       * `newConn`         flowsdecoder.go:106-153 (`New`: endpoint / port extraction)
       * `acceptReassembled` flowsdecoder.go:211-225 (`packet`: "newIPv4 != ip4" — how fq decides that DefragIPv4
                            handed back a freshly reassembled datagram; `acceptReassembledOld` = the length test
                            it replaced, known finding `defrag-length`, fixed)
       * `acceptSegment`   flowsdecoder.go:40-63 (`Accept`: gopacket TCPSimpleFSM.CheckState = `fsmCheck`, and never
                            dropping a segment with payload)
       * `fqSectioning`, `fqInterfaceLink`, `blocksConsumed`  pcapng.go:339-397 (sections)
       * `linkToDecodeFn`  shared.go:10-18 (link type dispatch table)
       * `fieldFlowsDir`   shared.go:37-56 (the metadata exposed per direction)
  (iii) gopacket's assembler: HERE only the INTERFACE between it and fq, as predicates on the sequence of
       `ReassembledSG` calls (`Delivers`, `FlushOnlyAtEnd`): data is handed over in stream order together
       with the number of bytes skipped before it; a skip (> 0) happens only during the single final
       `FlushAll` (gopacket `skipFlush`, tcpassembly.go:1181-1197, called from `FlushAll` :1317-1333 only,
       because fq never calls FlushWithOptions / FlushCloseOlderThan), and from the first skipped chunk of a
       direction on every later chunk of that direction is again preceded by a skip (contiguous pages are
       delivered together by `addContiguous`, :1149-1176).  The assembler itself is transliterated in
       FqModel/Gopacket.lean and the predicates are PROVED of it (Props.C19.gopacket_satisfies_interface);
       the correspondence run still checks them on the recorded call sequence.
-/
namespace FqModel.Reasm

/-! ## (i) reference reassembler -/

structure Seg (α : Type) where
  off : Nat
  len : Nat          -- cached `data.length` (`Seg.WF`); keeps the executable functions linear
  data : List α
deriving Repr, BEq, DecidableEq

variable {α : Type}

def Seg.mk' (off : Nat) (data : List α) : Seg α := ⟨off, data.length, data⟩

def Seg.WF (s : Seg α) : Prop := s.len = s.data.length

def Seg.stop (s : Seg α) : Nat := s.off + s.len

/-- byte position `i` lies inside segment `s` -/
def coversB (s : Seg α) (i : Nat) : Bool := decide (s.off ≤ i) && decide (i < s.stop)

def covered (segs : List (Seg α)) (i : Nat) : Bool := segs.any (coversB · i)

/-- the byte some segment carries for position `i` (the first segment that covers it) -/
def byteAt (segs : List (Seg α)) (i : Nat) : Option α :=
  segs.findSome? fun s => if coversB s i then s.data[i - s.off]? else none

def maxStop (segs : List (Seg α)) : Nat := segs.foldr (fun s m => max s.stop m) 0

/-- walk forward from `pos` while positions are covered (fuel = number of steps allowed) -/
def scan (segs : List (Seg α)) : Nat → Nat → Nat
  | 0, pos => pos
  | fuel + 1, pos => if covered segs pos then scan segs fuel (pos + 1) else pos

/-- first position ≥ `base` that no segment covers -/
def prefixEnd (segs : List (Seg α)) (base : Nat) : Nat := scan segs (maxStop segs + 1 - base) base

/-- some non-empty segment reaches beyond position `e` -/
def beyond (segs : List (Seg α)) (e : Nat) : Bool :=
  segs.any fun s => decide (e < s.stop) && s.len != 0

/-- REFERENCE: (longest contiguous prefix from `base`, segments beyond the first hole exist) -/
def reasmFrom (segs : List (Seg α)) (base : Nat) : List α × Bool :=
  let e := prefixEnd segs base
  ((List.range' base (e - base)).filterMap (byteAt segs), beyond segs e)

/-- number of byte positions in `[lo, lo+n)` that no segment covers (the bytes a perfect
    assembler would report as skipped when flushing) -/
def uncoveredCount (segs : List (Seg α)) (lo n : Nat) : Nat :=
  ((List.range' lo n).filter fun i => !covered segs i).length

/-! ### capture truncation (snap length: `incl_len < orig_len`, pcapng `captured_len < packet_len`)

  Only the first `k` bytes of an IP packet are in the file.  What a decoder can still know (and what gopacket's
  layers yield: `IPv4.DecodeFromBytes` / `IPv6` clip the payload to the captured bytes and set Truncated,
  `TCP.DecodeFromBytes` needs the 20 header bytes): with the IP header (`ipHdr` bytes) and the TCP header
  complete, the first `k - ipHdr - 20` payload bytes; otherwise nothing of the segment. -/

/-- number of payload bytes of an `n` byte segment that are captured; `none` = the segment is not visible -/
def visiblePayload (ipHdr k n : Nat) : Option Nat :=
  if k < ipHdr + 20 then none else some (min n (k - ipHdr - 20))

/-- `packet`, flowsdecoder.go:264-273 (after fix e2e770fa): the TCP layer is handed to the assembler only if it
    has contents, i.e. iff its header could be decoded — exactly when something of the segment is visible -/
def reachesAssembler (ipHdr k n : Nat) : Bool := (visiblePayload ipHdr k n).isSome

/-- the cut is inside the TCP header (at least one byte of it is there: with an empty IP payload gopacket's
    `NextDecoder` does not call a decoder at all): gopacket's `decodeTCP` still adds the (zero) TCP layer before
    it reports the error (layers/tcp.go) -/
def tcpHeaderCut (ipHdr k : Nat) : Bool := decide (ipHdr < k) && decide (k < ipHdr + 20)

/-- OLD `packet` (before e2e770fa, kept for `Props.C19.tcp_header_cut_regression`): every TCP layer went to the
    assembler, also the zero layer of a header cut by the snap length — a segment without ports, flags and
    payload, for which `New` made a connection with ports 0 (flowsdecoder.go:114-125 "assume zero port for now") -/
def reachesAssemblerOld (ipHdr k n : Nat) : Bool := (visiblePayload ipHdr k n).isSome || tcpHeaderCut ipHdr k

/-- a segment of which only the first `k` payload bytes were captured -/
def truncSeg (k : Nat) (g : Seg α) : Seg α := ⟨g.off, min k g.len, g.data.take k⟩

/-- consecutive pieces of `s` with the given lengths starting at offset `off`; what is left after the
    last cut is the last piece -/
def segmentation : List Nat → Nat → List α → List (Seg α)
  | [], off, s => if s.isEmpty then [] else [Seg.mk' off s]
  | n :: cuts, off, s =>
    if s.isEmpty then [] else Seg.mk' off (s.take (n + 1)) :: segmentation cuts (off + (n + 1)) (s.drop (n + 1))

/-! ### IPv4 -/

structure Frag (α : Type) where
  off : Nat          -- byte offset of the payload in the datagram's payload
  more : Bool        -- more-fragments flag
  data : List α
deriving Repr, BEq, DecidableEq

def Frag.seg (f : Frag α) : Seg α := Seg.mk' f.off f.data

/-- REFERENCE: the fragments (of one source, destination, identification) ↦ the datagram payload, once
    the fragment without more-fragments is there and everything before its end is covered -/
def defragGroup (frs : List (Frag α)) : Option (List α) :=
  match frs.find? (fun f => !f.more) with
  | none => none
  | some last =>
    let total := last.off + last.data.length
    let segs := frs.map Frag.seg
    if total ≤ prefixEnd segs 0 then some ((reasmFrom segs 0).1.take total) else none

/-! ## (ii) fq's part -/

/-- flowsdecoder.TCPDirection -/
structure Dir (α : Type) where
  ip : List UInt8 := []
  port : Nat := 0
  hasStart : Bool := false
  hasEnd : Bool := false
  buffer : List α := []
  skippedBytes : Nat := 0      -- uint64
deriving Repr, BEq, DecidableEq

structure Conn (α : Type) where
  client : Dir α := {}
  server : Dir α := {}
deriving Repr, BEq, DecidableEq

/-- what fq reads from the ScatterGather: `sg.Info()` and `sg.Fetch(length)` -/
structure SGCall (α : Type) where
  serverToClient : Bool        -- reassembly.TCPDirServerToClient
  start : Bool
  stop : Bool                  -- `end`
  skip : Int
  data : List α
deriving Repr, BEq, DecidableEq

/-- Go `uint64(skip)` for an `int` -/
def toUInt64 (i : Int) : Nat := (i % 18446744073709551616).toNat

/-- flowsdecoder.go:72-91 on the selected direction -/
def sgDir (d : Dir α) (c : SGCall α) : Dir α :=
  if c.skip == -1 then
    -- :72-74 "can't find where skip == -1 is documented but this is what gopacket reassemblydump does"
    { d with hasStart := d.hasStart || c.start, hasEnd := d.hasEnd || c.stop, buffer := d.buffer ++ c.data }
  else if c.skip != 0 then
    -- :75-79 stream has missing bytes: count and drop the chunk
    { d with skippedBytes := (d.skippedBytes + toUInt64 c.skip) % 18446744073709551616 }
  else
    -- :81-91
    { d with hasStart := d.hasStart || c.start, hasEnd := d.hasEnd || c.stop, buffer := d.buffer ++ c.data }

/-- `(*TCPConnection).ReassembledSG`, flowsdecoder.go:61-92 -/
def reassembledSG (t : Conn α) (c : SGCall α) : Conn α :=
  -- :65-71 switch dir
  if c.serverToClient then { t with server := sgDir t.server c } else { t with client := sgDir t.client c }

def runSG (t : Conn α) (cs : List (SGCall α)) : Conn α := cs.foldl reassembledSG t

def be16 (b : List UInt8) : Nat :=
  match b with
  | [h, l] => h.toNat * 256 + l.toNat
  | _ => 0

/-- `(*Decoder).New`, flowsdecoder.go:106-153: the flow of the FIRST packet seen fixes who is "client";
    a transport endpoint that is not 2 bytes long gives port 0 (:114-121) -/
def newConn (netSrc netDst tpSrc tpDst : List UInt8) : Conn α :=
  { client := { ip := netSrc, port := if tpSrc.length == 2 then be16 tpSrc else 0 },
    server := { ip := netDst, port := if tpDst.length == 2 then be16 tpDst else 0 } }

/-- `packet`, flowsdecoder.go:211-225 (after fix 8dc84a5a): `DefragIPv4` hands back the packet itself when it
    is not a fragment, nil while a datagram is incomplete and a NEW packet when the fragment just fed completed
    a datagram; fq takes the result for reassembled iff `newIPv4 != ip4`, i.e. iff the packet was a fragment
    that completed a datagram. -/
def acceptReassembled (wasFragment completes : Bool) : Bool := wasFragment && completes

/-- `packet`, flowsdecoder.go:229-262: a reassembled datagram is serialised and appended to `IPV4Reassembled`
    FIRST; only then is its payload decoded as the next layer.  Whether that decode succeeds (no decoder for the
    IP protocol, payload too short for its transport header) decides only whether a TCP segment goes on to the
    assembler.  Result: (datagram recorded, TCP segment handed on). -/
def onReassembled (upperLayerDecodes isTcp : Bool) : Bool × Bool := (true, upperLayerDecodes && isTcp)

/-- the OLD test (before 8dc84a5a, kept for the regression theorem `Props.C19.defrag_length_regression`):
    `l := ip4.Length` of the packet just fed; the value DefragIPv4 returns for a completed datagram has
    `Length = f.Highest` = the payload length WITHOUT header (gopacket ip4defrag/defrag.go:283); fq took the
    packet for reassembled iff the two differ — wrong when the other fragments carry exactly 20 bytes. -/
def acceptReassembledOld (payloadLen lastFragTotalLength : Nat) : Bool := payloadLen != lastFragTotalLength

/-! ### `(*TCPConnection).Accept`, flowsdecoder.go:40-63: with `CheckTCPOptions: false` (pcap.go:91,
    pcapng.go) it runs gopacket's `TCPSimpleFSM.CheckState` (reassembly/tcpcheck.go:170-246, transliterated as
    `fsmCheck`) with `SupportMissingEstablishment: true` (flowsdecoder.go:111-113) and, since fix 1ef5f83b,
    rejects a segment only if the state machine says no AND the segment carries no payload (`acceptSegment`).
    Before the fix the answer of `CheckState` alone decided (`fsmRun`, kept for the regression theorem
    `Props.C19.fsm_reorder_regression`).  A rejected packet never reaches the assembler. -/

structure Fsm where
  state : Nat := 0      -- 0 Closed, 1 SynSent, 2 Established, 3 CloseWait, 4 LastAck, 5 Reset
  dir : Bool := false   -- TCPFlowDirection, false = client to server
deriving Repr, BEq, DecidableEq

def fsmCheck (t : Fsm) (syn ack fin rst : Bool) (dir : Bool) : Fsm × Bool :=
  -- tcpcheck.go:171-185 "try to figure out state"
  let t : Fsm :=
    if t.state == 0 && !(syn && !ack) then
      if syn && ack then { state := 1, dir := !dir }
      else if fin && !ack then { t with state := 2 }
      else if fin && ack then { state := 3, dir := !dir }
      else { t with state := 2 }
    else t
  match t.state with
  | 0 => if syn && !ack then ({ state := 1, dir := dir }, true) else (t, false)
  | 1 =>
    if rst then ({ t with state := 5 }, true)
    else if syn && ack && dir == !t.dir then ({ t with state := 2 }, true)
    else if syn && !ack && dir == t.dir then (t, true)
    else (t, false)
  | 2 =>
    if rst then ({ t with state := 5 }, true)
    else if fin then ({ state := 3, dir := dir }, true)
    else (t, true)
  | 3 =>
    if rst then ({ t with state := 5 }, true)
    else if fin && ack && dir == !t.dir then ({ t with state := 4 }, true)
    else if ack then (t, true)
    else (t, false)
  | 4 =>
    if rst then ({ t with state := 5 }, true)
    else if ack && t.dir == dir then ({ t with state := 0 }, true)
    else (t, false)
  | _ => (t, false)

/-- `Accept` as it is now (flowsdecoder.go:41-50): the state machine always advances; the segment is dropped only
    when `CheckState` fails and `len(tcp.Payload) == 0` -/
def acceptSegment (t : Fsm) (syn ack fin rst : Bool) (dir : Bool) (hasPayload : Bool) : Fsm × Bool :=
  let r := fsmCheck t syn ack fin rst dir
  (r.1, r.2 || hasPayload)

/-- the packets of one connection (flags, direction, carries payload) that `Accept` lets through, in order -/
def acceptRun : Fsm → List (Bool × Bool × Bool × Bool × Bool × Bool) → List Bool
  | _, [] => []
  | t, (syn, ack, fin, rst, dir, pay) :: rest =>
    let r := acceptSegment t syn ack fin rst dir pay
    r.2 :: acceptRun r.1 rest

/-- OLD `Accept` (before 1ef5f83b): the packets `CheckState` alone lets through -/
def fsmRun : Fsm → List (Bool × Bool × Bool × Bool × Bool) → List Bool
  | _, [] => []
  | t, (syn, ack, fin, rst, dir) :: rest =>
    let r := fsmCheck t syn ack fin rst dir
    r.2 :: fsmRun r.1 rest

inductive LinkDecoder
  | ethernetFrame | ipv4Packet | ipv6Packet | sllPacket | sll2Packet | loopbackFrame | rawIPFrame
deriving Repr, BEq, DecidableEq

def LinkDecoder.name : LinkDecoder → String
  | .ethernetFrame => "EthernetFrame" | .ipv4Packet => "IPv4Packet" | .ipv6Packet => "IPv6Packet"
  | .sllPacket => "SLLPacket" | .sll2Packet => "SLL2Packet" | .loopbackFrame => "LoopbackFrame"
  | .rawIPFrame => "RAWIPFrame"

/-- format/pcap/shared.go:10-18 with the constants of format/inet.go -/
def linkToDecodeFn : Nat → Option LinkDecoder
  | 1 => some .ethernetFrame      -- LinkTypeETHERNET
  | 228 => some .ipv4Packet       -- LinkTypeIPv4
  | 229 => some .ipv6Packet       -- LinkTypeIPv6
  | 113 => some .sllPacket        -- LinkTypeLINUX_SLL
  | 276 => some .sll2Packet       -- LinkTypeLINUX_SLL2
  | 0 => some .loopbackFrame      -- LinkTypeNULL
  | 101 => some .rawIPFrame       -- LinkTypeRAW
  | _ => none

/-- what the link type MEANS (tcpdump.org/linktypes), independent of fq: the decoder that can read it -/
def linkSpec : String → Option (Nat × LinkDecoder)
  | "eth" => some (1, .ethernetFrame)
  | "raw" => some (101, .rawIPFrame)
  | "ipv4" => some (228, .ipv4Packet)
  | "ipv6" => some (229, .ipv6Packet)
  | "sll" => some (113, .sllPacket)
  | "sll2" => some (276, .sll2Packet)
  | "null" => some (0, .loopbackFrame)
  | _ => none

/-! ### `net.IP.String()` (Go standard library) for 4 and 16 byte addresses, as fieldFlows prints them -/

def hexDigitLower (n : Nat) : Char := if n < 10 then Char.ofNat (48 + n) else Char.ofNat (87 + n)

/-- lower-case hex without leading zeros (netip `appendHex`) -/
def hexGroup (n : Nat) : String :=
  let ds := [n / 4096 % 16, n / 256 % 16, n / 16 % 16, n % 16]
  match ds.dropWhile (· == 0) with
  | [] => "0"
  | r => String.ofList (r.map hexDigitLower)

/-- the eight 16 bit groups -/
def groups16 : List UInt8 → List Nat
  | h :: l :: rest => (h.toNat * 256 + l.toNat) :: groups16 rest
  | _ => []

/-- length of the run of zero groups starting at the head -/
def zeroRun : List Nat → Nat
  | 0 :: rest => zeroRun rest + 1
  | _ => 0

/-- netip `Addr.string6`: (start, end) of the leftmost longest run of at least two zero groups -/
def longestZeroRun (gs : List Nat) : Option (Nat × Nat) :=
  (List.range gs.length).foldl (fun best i =>
    let l := zeroRun (gs.drop i)
    let bestLen := match best with | some (a, b) => b - a | none => 0
    if l ≥ 2 && l > bestLen then some (i, i + l) else best) none

def ipv6String (gs : List Nat) : String :=
  match longestZeroRun gs with
  | none => ":".intercalate (gs.map hexGroup)
  | some (a, b) =>
    ":".intercalate ((gs.take a).map hexGroup) ++ "::" ++ ":".intercalate ((gs.drop b).map hexGroup)

/-- net.IP.String(): 4 bytes dotted; 16 bytes: IPv4-mapped (`To4() != nil`) dotted, else RFC 5952 text -/
def ipString (ip : List UInt8) : String :=
  match ip with
  | [a, b, c, d] => s!"{a.toNat}.{b.toNat}.{c.toNat}.{d.toNat}"
  | _ =>
    if ip.length == 16 then
      if ip.take 10 == List.replicate 10 0 && (ip.drop 10).take 2 == [255, 255] then
        match ip.drop 12 with
        | [a, b, c, d] => s!"{a.toNat}.{b.toNat}.{c.toNat}.{d.toNat}"
        | _ => "?"
      else ipv6String (groups16 ip)
    else "?"

/-- shared.go:39-45: the scalar fields of one direction -/
structure DirFields where
  ip : String
  port : Nat
  hasStart : Bool
  hasEnd : Bool
  skippedBytes : Nat
deriving Repr, BEq, DecidableEq

def fieldFlowsDir (d : Dir α) : DirFields :=
  { ip := ipString d.ip, port := d.port, hasStart := d.hasStart, hasEnd := d.hasEnd, skippedBytes := d.skippedBytes }

/-! ### order of `tcp_connections` and `ipv4_reassembled`

  `(*Decoder).New` appends to `fd.TCPConnections` (flowsdecoder.go:149) and is called by gopacket's stream
  pool for the first packet of every 4-tuple that reaches `Assemble` (reassembly/memory.go:185-209: a lookup of
  the key and of its reverse comes first); `packet` appends to `fd.IPV4Reassembled` when a fragment completes a
  datagram (flowsdecoder.go:236-240); `fieldFlows` walks both slices in order (shared.go:22,36). -/

/-- connections in the order of their first packet, with the sender of that packet (the "client"):
    `evs` = (connection key, sender) of every TCP segment that reaches the assembler, in capture order -/
def firstSeen {κ δ : Type} [BEq κ] : List (κ × δ) → List (κ × δ)
  | [] => []
  | (k, d) :: rest => (k, d) :: (firstSeen rest).filter fun p => !(p.1 == k)

/-- state of the defragmenter as the reference sees it: the open fragment groups by (source, destination, id) -/
abbrev FragGroups (κ α : Type) := List (κ × List (Frag α))

/-- one fragment arrives: either its group is still incomplete (state grows) or the datagram is complete
    (group removed, datagram emitted together with the fragment that completed it) -/
def defragStep {κ : Type} [BEq κ] (st : FragGroups κ α) (key : κ) (f : Frag α) :
    FragGroups κ α × Option (κ × List α × Frag α) :=
  let grp := ((st.lookup key).getD []) ++ [f]
  match defragGroup grp with
  | none => ((key, grp) :: st.filter (fun g => !(g.1 == key)), none)
  | some payload => (st.filter (fun g => !(g.1 == key)), some (key, payload, f))

/-- the datagrams completed by a sequence of fragments, in order of completion -/
def defragRun {κ : Type} [BEq κ] : FragGroups κ α → List (κ × Frag α) → List (κ × List α × Frag α)
  | _, [] => []
  | st, (key, f) :: rest =>
    match defragStep st key f with
    | (st', none) => defragRun st' rest
    | (st', some d) => d :: defragRun st' rest

def defragState {κ : Type} [BEq κ] : FragGroups κ α → List (κ × Frag α) → FragGroups κ α
  | st, [] => st
  | st, (key, f) :: rest => defragState (defragStep st key f).1 rest

/-! ### pcapng sections (format/pcap/pcapng.go:339-397)

  `decodePcapng` makes a NEW flows decoder and interface table for every section, flushes the assembler at
  the end of the section and emits the section's flows.  Where a section ends is decided by `decodeSection`
  (:339-355, after fix 501642c1): with `section_length = -1` at the next section header block or the end of the
  file; with a given length when that many bytes have been read AFTER the section header block.  So fq's
  sections are the file's sections, each with its own interface table.
  Before the fix (`…Old` below, kept for the regression theorems): with −1 the loop ran to the end of the FILE —
  a further section header block did not start a section, its interface descriptions were appended to the same
  table while its packets kept counting interface ids from 0; a given length was counted from the START of the
  section header block although it excludes that block. -/

/-- how fq groups the packets of the file's sections into flows sections: as they are -/
def fqSectioning {β : Type} (fileSections : List (List β)) : List (List β) := fileSections

/-- the link type fq uses for interface id `j` of file section `s` (0-based): that section's own table -/
def fqInterfaceLink {β : Type} (links : List (List β)) (s j : Nat) : Option β := (links.getD s [])[j]?

/-- number of blocks `decodeSection`'s loop decodes after the section header block: it goes on while
    `d.Pos()-sectionStart < sectionLength`; `pos` = bytes between `sectionStart` and the next block -/
def blocksConsumed : Nat → Nat → List Nat → Nat
  | _, _, [] => 0
  | pos, len, b :: bs => if pos < len then blocksConsumed (pos + b) len bs + 1 else 0

/-- OLD sectioning (before 501642c1) -/
def fqSectioningOld {β : Type} (lengthGiven : Bool) (fileSections : List (List β)) : List (List β) :=
  if lengthGiven then fileSections else [fileSections.flatten]

/-- OLD interface lookup (before 501642c1): with −1 the accumulated table of all sections read so far -/
def fqInterfaceLinkOld {β : Type} (lengthGiven : Bool) (links : List (List β)) (s j : Nat) : Option β :=
  if lengthGiven then (links.getD s [])[j]? else ((links.take (s + 1)).flatten)[j]?

/-- OLD: with a given section_length fq left the section before its last block(s) iff the last block was not
    longer than the section header block (`sectionStart` was the start of that block: `blocksConsumed shbLen`) -/
def sectionEndsEarlyOld (shbLen lastBlockLen : Nat) : Bool := lastBlockLen != 0 && lastBlockLen ≤ shbLen

/-- every section starts from fresh connections: the calls of each section run on their own -/
def runSections (secs : List (List (SGCall α))) : List (Conn α) := secs.map (runSG {})

/-! ## (iii) the interface assumption about gopacket's assembler, as predicates on call sequences -/

/-- one direction's chunks, as (skip, data) -/
abbrev Chunk (α : Type) := Int × List α

def chunksOf (s2c : Bool) (cs : List (SGCall α)) : List (Chunk α) :=
  (cs.filter fun c => c.serverToClient == s2c).map fun c => (c.skip, c.data)

/-- `Delivers sent pos chunks`: the chunks carry, in stream order starting at position `pos` of `sent`,
    exactly the bytes of `sent` they claim: a chunk with skip ∈ {0, -1} continues at `pos`, a chunk with
    skip = k > 0 continues `k` bytes later. -/
def Delivers (sent : List α) : Nat → List (Chunk α) → Prop
  | _, [] => True
  | pos, (skip, data) :: rest =>
    let p := if skip > 0 then pos + skip.toNat else pos
    (-1 ≤ skip) ∧ data = (sent.drop p).take data.length ∧ p + data.length ≤ sent.length ∧
      Delivers sent (p + data.length) rest

/-- skips happen only in the final flush: the chunks of a direction are `pre ++ post`, no skip in
    `pre`, a skip before every chunk of `post` -/
def FlushOnlyAtEnd (pre post : List (Chunk α)) : Prop :=
  (∀ c ∈ pre, c.1 = 0 ∨ c.1 = -1) ∧ (∀ c ∈ post, 0 < c.1)

/-- executable form of the interface check used by the driver on a recorded trace:
    `flushed` = the chunk was delivered after fq called Flush -/
def flushDiscipline : Bool → List (Int × Bool) → Bool
  | _, [] => true
  | skipped, (skip, flushed) :: rest =>
    if skip > 0 then flushed && flushDiscipline true rest
    else if skip == 0 || skip == -1 then !skipped && flushDiscipline skipped rest
    else false

/-! ### gopacket `Sequence` arithmetic (reassembly/tcpassembly.go:51-78), transliterated — the part of the
    third-party code in which the correspondence run found a defect (known finding `seq-wrap`) -/

def uint32Max : Int := 0xFFFFFFFF

/-- `Sequence.Difference` (:66-73): note `+= uint32Max` (2^32 - 1), not 2^32 -/
def seqDifference (s t : Int) : Int :=
  if s > uint32Max - uint32Max / 4 && t < uint32Max / 4 then (t + uint32Max) - s
  else if t > uint32Max - uint32Max / 4 && s < uint32Max / 4 then t - (s + uint32Max)
  else t - s

/-- `Sequence.Add` (:76-78) -/
def seqAdd (s : Int) (t : Int) : Int := (s + t) % 4294967296

/-- `overlapExisting` (:930-956) for a valid `nextSeq`: what is left of a segment `[start, start+n)` that
    arrives when the stream is already delivered up to `nextSeq` — number of leading bytes dropped -/
def overlapDropped (nextSeq start : Int) (n : Nat) : Nat :=
  let diff := seqDifference start nextSeq
  if diff == 0 then 0 else if diff.toNat ≥ n then n else diff.toNat

end FqModel.Reasm
