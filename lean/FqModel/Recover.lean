/-
  C06 — model of fq's panic/recover protocol and of the decode core's argument checks.

  Mirrors (file:line of /repo at the time of writing):
    internal/recoverfn/recoverfn.go:22-54   Run: recover(); a value that implements RecoverableErrorer and
                                            answers true is returned, every other value is re-panicked
    pkg/decode/errors.go                    IOError, DecoderError, FormatsError: IsRecoverableError() = true
    pkg/decode/decode.go:48-171             decode(): loop over group.Formats, recoverfn.Run per format,
                                            collect FormatError, `len(group.Formats) != 1 → continue`,
                                            else attach the error to the partial tree and return it
    pkg/decode/decode.go:372-385            Errorf (no-op when Options.Force), Fatalf, IOPanic
    pkg/decode/decode.go:388-…              TryBits, TryUintBits, TryBytesRange, TryBytesLen, TryBitBufLen,
                                            trySeekAbs, FramedFn, LimitedFn, RangeFn, TryAlignBits, Assert*
    pkg/decode/read.go:132-146              tryText
    internal/bitiox/bitiox.go:35-48         Range
    pkg/bitio/sectiontreader.go:46-62       SectionReader.SeekBits

  A Go panic is an explicit outcome; its value is one of the three recoverable error types or a
  runtime fault (`runtime why`: index out of range, nil dereference, makeslice, divide by zero, a
  plain `panic("…")` …). Go `int`/`int64` arithmetic that can wrap is modelled with `wrap64`.
-/
namespace FqModel.Recover

/-! ## panic values and recoverfn.Run -/

inductive PanicV where
  | ioError        -- decode.IOError
  | decoderError   -- decode.DecoderError
  | formatsError   -- decode.FormatsError (a nested decode that failed: D.Format / D.FieldFormat …)
  | runtime (why : String)   -- anything that is not a RecoverableErrorer
deriving DecidableEq, Repr, Inhabited

/-- errors.go: the three error types implement `IsRecoverableError() bool { return true }`;
    runtime.Error values, strings, plain errors do not implement the interface -/
def PanicV.recoverable : PanicV → Bool
  | .runtime _ => false
  | _ => true

/-- how a Go function call ends -/
inductive Outcome (α : Type) where
  | ok (a : α)
  | panic (v : PanicV)
deriving Repr, DecidableEq

/-- what recoverfn.Run observes: `(Raw{}, true)`, `(Raw{RecoverV: v}, false)`, or the panic goes on -/
inductive RunResult (α : Type) where
  | done (a : α)
  | recovered (v : PanicV)
  | repanic (v : PanicV)
deriving Repr, DecidableEq

/-- recoverfn.go:22-54 -/
def recoverRun {α : Type} (f : Outcome α) : RunResult α :=
  match f with
  | .ok a => .done a
  | .panic v => if v.recoverable then .recovered v else .repanic v

/-! ## decode(): the group loop -/

/-- input of a decode: the bytes and Options.Force -/
structure Input where
  bytes : List Nat
  force : Bool
deriving Repr

/-- a DecodeFn: what it does with an input. The partial tree it built is `d.Value` whatever happens;
    the model only needs to know that one exists, so it is not represented. -/
abbrev Decoder := Input → Outcome Unit

/-- result of `decode.Decode` (dv, err) — or the panic that leaves it -/
inductive Result where
  /-- `return d.Value, decodeV, nil` / `…, formatsErr` : format `i` of the group decoded; `errs` = the
      formats tried before it with their recovered errors (err = nil iff `errs = []`) -/
  | tree (i : Nat) (errs : List (Nat × PanicV))
  /-- single-format group whose format failed: the partial tree with `.Err` set, and FormatsError{1} -/
  | treeWithErr (i : Nat) (e : PanicV)
  /-- `return nil, nil, formatsErr` : every format of a multi-format group (or of an empty one) failed -/
  | formatsErr (errs : List (Nat × PanicV))
  | panic (v : PanicV)
deriving Repr, DecidableEq

/-- decode.go:75-168, the `for _, f := range group.Formats` loop.
    `single` = `len(group.Formats) == 1`; `i` = index of the head of `fs` in the group;
    `errs` = formatsErr.Errs so far (in order). -/
def decodeLoop (single : Bool) (x : Input) : List Decoder → Nat → List (Nat × PanicV) → Result
  | [], _, errs => .formatsErr errs
  | f :: rest, i, errs =>
    match recoverRun (f x) with
    | .repanic v => .panic v                       -- recoverfn.go:36 `panic(recoverV)`
    | .done _ => .tree i errs                      -- decode.go:162-166
    | .recovered v =>
      if single then .treeWithErr i v              -- decode.go:139-142 falls through with d.Value.Err set
      else decodeLoop single x rest (i + 1) (errs ++ [(i, v)])   -- `continue`

def decodeGroup (g : List Decoder) (x : Input) : Result :=
  decodeLoop (g.length == 1) x g 0 []

/-- the hypothesis about a real DecodeFn that is NOT proved (validated by enumeration) -/
def OnlyRecoverable (f : Decoder) : Prop :=
  ∀ x v, f x = .panic v → v.recoverable = true

def Result.isPanic : Result → Bool
  | .panic _ => true
  | _ => false

/-! ## the decode core: state, Go integer wrap-around, allocation -/

/-- a decoder state: buffer length and position in bits (root decoder: a SectionReader over
    `[0,len)`), Options.Force -/
structure St where
  len : Int
  pos : Int
  force : Bool
deriving Repr, DecidableEq

def two63 : Int := 9223372036854775808
def two64 : Int := 18446744073709551616

/-- two's complement wrap of a Go int64 result -/
def wrap64 (x : Int) : Int := (x + two63) % two64 - two63

/-- runtime/malloc.go: maxAlloc = 1<<48 on linux/amd64 -/
def maxAlloc : Int := 281474976710656

/-- runtime.makeslice for a []byte: `len < 0 || mem > maxAlloc` panics (a runtime.Error) -/
def makesliceFault (n : Int) : Bool := decide (n < 0 ∨ n > maxAlloc)

/-- result of a `Try…` function: value, returned error, or a runtime fault inside it -/
inductive Try (α : Type) where
  | ok (a : α)
  | err
  | fault (why : String)
deriving Repr, DecidableEq

/-- the non-Try wrapper of the generated readers: `if err != nil { panic(IOError{…}) }` -/
def must {α : Type} : Try α → Outcome α
  | .ok a => .ok a
  | .err => .panic .ioError
  | .fault w => .panic (.runtime w)

def St.left (s : St) : Int := s.len - s.pos

/-- bitio.BitsByteCount -/
def bitsByteCount (n : Int) : Int := if n % 8 = 0 then n / 8 else n / 8 + 1

/-- decode.go TryBits as it was before 8465c2ad (fresh decoder: the shared read buffer is empty, so
    SharedReadBuf allocated `make([]byte, BitsByteCount(nBits))` whenever that is > 0) -/
def tryBitsOld (s : St) (n : Int) : Try St :=
  if n < 0 then .err
  else if bitsByteCount n > 0 ∧ makesliceFault (bitsByteCount n) = true then .fault "makeslice-out-of-range"
  else if n > s.left then .err
  else .ok { s with pos := s.pos + n }

/-- decode.go:389 TryBits (since 8465c2ad): the buffer is clamped to what is left (+8 bytes) before
    SharedReadBuf allocates it -/
def tryBits (s : St) (n : Int) : Try St :=
  if n < 0 then .err
  else
    let nBytes := min (bitsByteCount n) (bitsByteCount (max s.left 0) + 8)
    if nBytes > 0 ∧ makesliceFault nBytes = true then .fault "makeslice-out-of-range"
    else if n > s.left then .err
    else .ok { s with pos := s.pos + n }

/-- decode.go:411 -/
def tryUintBits (s : St) (n : Int) : Try St :=
  if n < 0 ∨ n > 64 then .err else tryBits s n

/-- read.go:20 tryUEndian -/
def tryU (s : St) (n : Int) : Try St :=
  if n < 0 then .err else tryUintBits s n

/-- TryBytesLen before 8465c2ad: `make([]byte, nBytes)` BEFORE looking at the buffer -/
def tryBytesLenOld (s : St) (n : Int) : Try St :=
  if makesliceFault n then .fault "makeslice-out-of-range"
  else
    let nBits := wrap64 (n * 8)
    if nBits < 0 then .err            -- bitio.readFull: ErrNegativeNBits
    else if nBits > s.left then .err
    else .ok { s with pos := s.pos + nBits }

def maxInt64 : Int := 9223372036854775807

/-- decode.go:595 TryBytesLen (since 8465c2ad): negative / overflowing nBytes is an error, the
    allocation is clamped to what is left (+8 bytes) -/
def tryBytesLen (s : St) (n : Int) : Try St :=
  if n < 0 ∨ n > maxInt64 / 8 then .err
  else
    let alloc := min n (bitsByteCount (max s.left 0) + 8)
    if makesliceFault alloc then .fault "makeslice-out-of-range"
    else if n * 8 > s.left then .err
    else .ok { s with pos := s.pos + n * 8 }

/-- TryBytesRange before 8465c2ad / edf89c74 (position unchanged): rejects n < 0, then allocates n.
    Old quirk: `if n == int64(nBytes)*8 { err = nil }` compared the count of UNREAD bits with the request, so
    when not a single bit could be read (offset at/after the end, or negative) the call returned n zero
    bytes and no error (known finding bytesrange-outside-buffer-no-error, fixed by edf89c74). -/
def tryBytesRangeOld (s : St) (off n : Int) : Try St :=
  if n < 0 then .err
  else if makesliceFault n then .fault "makeslice-out-of-range"
  else if n = 0 then .ok s
  else if off < 0 ∨ off ≥ s.len then .ok s
  else if off + n * 8 > s.len then .err
  else .ok s

/-- decode.go:562 TryBytesRange (since 8465c2ad and edf89c74; position unchanged): a request for more than
    the whole buffer holds (+8 bytes) is an error before anything is allocated; a range that is not inside
    the buffer is an error (bitio.readFull returns the number of bits NOT read together with the error; the
    error is now cleared only when that number is 0). -/
def tryBytesRange (s : St) (off n : Int) : Try St :=
  if n < 0 then .err
  else if n > s.len / 8 + 8 then .err
  else if makesliceFault n then .fault "makeslice-out-of-range"
  else if n = 0 then .ok s
  else if off < 0 ∨ off ≥ s.len then .err
  else if off + n * 8 > s.len then .err
  else .ok s

/-- read.go:132 tryText: checks the length against the buffer before allocating -/
def tryText (s : St) (n : Int) : Try St :=
  if n < 0 then .err
  else if n > s.left / 8 then .err
  else tryBytesLen s n

/-- bitiox.Range -/
def bitioxRange (s : St) (first n : Int) : Try Unit :=
  if n < 0 then .err
  else if wrap64 (first + n) > s.len then .err
  else .ok ()

/-- decode.go:736 trySeekAbs without restore functions; SectionReader.SeekBits rejects negative positions -/
def trySeekAbs (s : St) (p : Int) : Try St :=
  if p > s.len then .err
  else if p < 0 then .err
  else .ok { s with pos := p }

def trySeekRel (s : St) (delta : Int) : Try St := trySeekAbs s (wrap64 (s.pos + delta))

/-- decode.go:629 TryBitBufLen (what FieldRawLen reads) -/
def tryBitBufLen (s : St) (n : Int) : Try St :=
  match bitioxRange s s.pos n with
  | .err => .err
  | .fault w => .fault w
  | .ok _ => trySeekRel s n

/-- TryAlignBits before 8465c2ad: `(nBits - pos % nBits) % nBits` with nBits = 0 -/
def tryAlignBitsOld (s : St) (n : Int) : Try St :=
  if n = 0 then .fault "integer-divide-by-zero" else .ok s

/-- decode.go:720 TryAlignBits (since 8465c2ad): nBits <= 0 is an error -/
def tryAlignBits (s : St) (n : Int) : Try St :=
  if n ≤ 0 then .err else .ok s

/-! ### pkg/decode/scalar.go:13-60 bitBufIsZero — the mapper behind d.BitBufIsZero()/BitBufValidateIsZero()
    (padding / reserved fields of id3v2, tar, icc_profile, macho, vorbis_packet, elf, apev2).
    A 32 KiB scratch buffer `b`; per chunk `rl := min(brLeft, len(b)*8)`, `n` = bits read (= rl, the field lies
    inside the buffer), then `for i := range nb { b[i] … }` with `nb := BitsByteCount(n)`: index i < nb must be
    inside `b`. (Quirk kept out of the model because it cannot fault: `brPos` is never advanced, every chunk
    re-reads the start of the field.) -/

def isZeroBufBytes : Int := 32768

/-- bytes of the scratch buffer scanned for a chunk of `n` bits -/
def isZeroScanBytes (n : Int) : Int := bitsByteCount n

/-- the variant a seeded change (S3-C06-2) put there: `int(n/8) + 1` -/
def isZeroScanBytesSeeded (n : Int) : Int := n / 8 + 1

/-- does the scan of a field of `nbits` bits index past the scratch buffer? (first chunk is the largest) -/
def isZeroScanFault (scan : Int → Int) (nbits : Int) : Bool :=
  decide (0 < nbits ∧ scan (min nbits (isZeroBufBytes * 8)) > isZeroBufBytes)

/-- the primitives of the core run (harness/cmd/c06/core.go), called with an arbitrary integer -/
inductive Prim where
  | okP | bits | ubits | u | rawlen | seekabs | seekrel | framed | limited | rangefn
  | byteslen | bytesrange | peekbytes | utf8 | bitbufrange | alignbits | structn
  | errorf | fatalf | iopanic | leastbytes | leastbits | iszero
deriving DecidableEq, Repr

/-- decode.go:956 RangeFn with a function that reads nothing (since 2947129a a negative length is a
    DecoderError before anything else) -/
def rangeFn (s : St) (first n : Int) : Outcome St :=
  if n < 0 then .panic .decoderError else             -- d.Fatalf("%d nBits < 0")
  match bitioxRange s 0 (wrap64 (first + n)) with   -- d.BitBufRange(0, firstBit+nBits)
  | .err => .panic .ioError
  | .fault w => .panic (.runtime w)
  | .ok _ => if first < 0 then .panic .ioError else .ok s   -- br.SeekBits(firstBit)

def corePrim (p : Prim) (s : St) (a : Int) : Outcome St :=
  match p with
  | .okP => .ok s
  | .bits => must (tryBits s a)
  | .ubits => must (tryUintBits s a)
  | .u => must (tryU s a)
  | .rawlen => must (tryBitBufLen s a)
  | .seekabs => must (trySeekAbs s a)
  | .seekrel => must (trySeekRel s a)
  | .framed =>                                      -- decode.go:930
    if a < 0 then .panic .decoderError              -- d.Fatalf
    else match rangeFn s s.pos a with
      | .panic v => .panic v
      | .ok _ => must (trySeekRel s a)
  | .limited =>                                     -- decode.go:940, decodeLen = 0
    if a < 0 then .panic .decoderError
    else match rangeFn s s.pos a with
      | .panic v => .panic v
      | .ok _ => must (trySeekRel s 0)
  | .rangefn => rangeFn s s.pos a
  | .byteslen => must (tryBytesLen s a)
  | .bytesrange => must (tryBytesRange s s.pos a)
  | .peekbytes => must (match tryBytesLen s a with | .ok _ => .ok s | .err => .err | .fault w => .fault w)
  | .utf8 => must (tryText s a)
  | .bitbufrange => must (match bitioxRange s s.pos a with | .ok _ => .ok s | .err => .err | .fault w => .fault w)
  | .alignbits => must (tryAlignBits s a)
  | .structn =>                                     -- FieldStructNArray count, one byte each
    if a ≤ 0 then .ok s
    else if a * 8 > s.left then .panic .ioError
    else .ok { s with pos := s.pos + a * 8 }
  | .errorf => if s.force then .ok s else .panic .decoderError      -- decode.go:372
  | .fatalf => .panic .decoderError                                   -- decode.go:379
  | .iopanic => .panic .ioError                                       -- decode.go:383
  | .leastbytes =>                                                    -- decode.go:918
    if s.force then .ok s
    else if s.left < wrap64 (a * 8) then .panic .decoderError else .ok s
  | .leastbits =>                                                     -- decode.go:907
    if s.force then .ok s
    else if s.left < a then .panic .decoderError else .ok s
  | .iszero =>                                      -- d.FieldRawLen("x", a, d.BitBufIsZero())
    match tryBitBufLen s a with
    | .err => .panic .ioError
    | .fault w => .panic (.runtime w)
    | .ok s' => if isZeroScanFault isZeroScanBytes a then .panic (.runtime "index-out-of-range") else .ok s'

/-- primitives that, before 8465c2ad, allocated from their argument before (or without) checking it
    against the buffer, or divided by it -/
def Prim.wasUnsafe : Prim → Bool
  | .bits | .byteslen | .bytesrange | .peekbytes | .alignbits => true
  | _ => false

/-- the core as it was before 8465c2ad "fix: decode: don't allocate by unchecked lengths, AlignBits with
    zero is an error" — kept for the regression witnesses of Props/C06.lean -/
def corePrimOld (p : Prim) (s : St) (a : Int) : Outcome St :=
  match p with
  | .bits => must (tryBitsOld s a)
  | .byteslen => must (tryBytesLenOld s a)
  | .bytesrange => must (tryBytesRangeOld s s.pos a)
  | .peekbytes => must (match tryBytesLenOld s a with | .ok _ => .ok s | .err => .err | .fault w => .fault w)
  | .alignbits => must (tryAlignBitsOld s a)
  | p => corePrim p s a

/-- `o` raises only recoverable values -/
def OnlyRec {α : Type} (o : Outcome α) : Prop := ∀ v, o = .panic v → v.recoverable = true

def Outcome.cls {α : Type} : Outcome α → String
  | .ok _ => "ok"
  | .panic .ioError => "err:io"
  | .panic .decoderError => "err:decoder"
  | .panic .formatsError => "err:formats"
  | .panic (.runtime w) => "panic:" ++ w

end FqModel.Recover
