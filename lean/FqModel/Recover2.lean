import FqModel.Recover
/-!
  C06 — `DProg`: a small monadic decoder language over the modelled decode core, and its interpreter.

  A `DProg` is a (possibly infinitely branching, well-founded) tree whose nodes are calls of the decode API
  as modelled by `corePrim` (FqModel/Recover.lean) and whose edges are ARBITRARY total Lean functions of the
  values read so far (`k : Int → DProg`), so every data-dependent control flow a Go decoder can have — branches,
  `switch` on a type code, length-prefixed loops (Lean recursion with fuel), recursion on the input — is
  expressible, as long as the Go code between two API calls is total pure code.

  Mirrors (file:line of /repo):
    pkg/decode/decode.go:1289-1302   TryFieldValue: start := Pos(); read; map; Range = [start, Pos()); an error of the
                                     reader or of a mapper (Assert) returns BEFORE AddChild: the field is not added
    pkg/decode/decode_gen.go:946     UintAssert / :874 StrAssert: fail only when !Options.Force
    pkg/decode/decode_gen.go:1122    FieldScalarU …: `if err != nil { d.IOPanic(…) }` — a failed assert is an IOError
    pkg/decode/decode.go:824-839     AddChild: a second child of the same name in a struct is d.Fatalf (DecoderError)
    pkg/decode/decode.go:872-893     FieldArray / FieldStruct: child decoder on the same bitBuf, AddChild, then fn(cd)
    pkg/decode/decode.go:963-1003    FramedFn / RangeFn: body runs on BitBufRange(0, firstBit+nBits) positioned at
                                     firstBit, on the SAME Value; afterwards the outer decoder seeks nBits forward
    pkg/decode/decode.go:1033-1052   TryFieldFormat: decode() of a group on [Pos(), Pos()+BitsLeft()); a failed
                                     sub-decode adds nothing and is reported to the caller; success adds the
                                     sub-tree (ranges shifted) and seeks by the sub-tree's extent
    pkg/decode/decode.go:630-710     Pos, Len, End, BitsLeft (pure observations of the reader state)
-/
namespace FqModel.Recover

/-- one leaf value of the decode tree: jq-style path, first bit, number of bits -/
structure Leaf where
  path : String
  start : Int
  len : Int
deriving Repr, DecidableEq

/-- which generated reader a field uses: `FieldU(nBits)`, `FieldUTF8(nBytes)`, `FieldRawLen(nBits)` -/
inductive FKind where
  | u | utf8 | raw
deriving Repr, DecidableEq

def FKind.prim : FKind → Prim
  | .u => .u
  | .utf8 => .utf8
  | .raw => .rawlen

inductive DProg where
  /-- `return`; `v` is handed to the continuation of the enclosing `scope` / `framed` (a Go closure that assigns
      a captured variable, e.g. `size` in prores_frame.go:22) -/
  | done (v : Int)
  /-- any primitive of the core for its effect on the reader: seek, align, AssertAtLeastBitsLeft, Errorf, Fatalf … -/
  | prim (p : Prim) (arg : Int) (k : DProg)
  /-- `v := d.FieldU/FieldUTF8/FieldRawLen(name, n, d.Assert(chk))`; the continuation gets the big-endian value of the
      bits read (0 when more than 64 bits were read). `chk` is the Assert mapper (`fun _ => true` when there is none) -/
  | field (name : String) (fk : FKind) (n : Int) (chk : Int → Bool) (k : Int → DProg)
  /-- `v := d.U(n)` / `d.UTF8(n)` / `d.RawLen(n)`: a read that adds no field -/
  | read (fk : FKind) (n : Int) (k : Int → DProg)
  /-- `d.Pos()`, `d.Len()`, `d.Options.Force` (so also `End()`, `NotEnd()`, `BitsLeft()`) -/
  | info (k : Int → Int → Bool → DProg)
  /-- `d.FieldStruct(name, body)` (`isArr = false`) / `d.FieldArray(name, body)`, then `k` -/
  | scope (isArr : Bool) (name : String) (body : DProg) (k : Int → DProg)
  /-- `d.FramedFn(nBits, body)`, then `k` -/
  | framed (nBits : Int) (body : DProg) (k : Int → DProg)
  /-- `dv, _, _ := d.TryFieldFormat(name, {body}, nil)`, then `k (dv != nil)` — a sub-decoder under its own recover -/
  | sub (name : String) (body : DProg) (k : Bool → DProg)

/-- reader state + what AddChild needs: number of children of the current compound (array element index), names
    used in the current struct, and the extent (largest stop) of everything added (decode.go:153-163 minMaxRange) -/
structure RunSt where
  st : St
  idx : Nat
  names : List String
  ext : Int
  ret : Int := 0
deriving Repr, DecidableEq

/-- where the interpreter is: input bytes, bit offset of the current root buffer in them, path of the current
    compound, whether that compound is an array -/
structure Ctx where
  inp : Array Nat
  base : Int
  path : String
  inArr : Bool

def bitAt (inp : Array Nat) (p : Int) : Int :=
  if p < 0 then 0 else
    let b := inp.getD (p.toNat / 8) 0
    Int.ofNat ((b / 2 ^ (7 - p.toNat % 8)) % 2)

def bitsValAux (inp : Array Nat) : Nat → Int → Int → Int
  | 0, _, acc => acc
  | n + 1, p, acc => bitsValAux inp n (p + 1) (acc * 2 + bitAt inp p)

/-- big-endian value of `n` bits at bit `p`; 0 for more than 64 bits (long strings / raw fields: no decoder
    modelled here branches on them) -/
def bitsVal (inp : Array Nat) (p n : Int) : Int :=
  if n < 0 ∨ n > 64 then 0 else bitsValAux inp n.toNat p 0

def childPath (c : Ctx) (rs : RunSt) (name : String) : String :=
  if c.inArr then c.path ++ "[" ++ toString rs.idx ++ "]" else c.path ++ "." ++ name

/-- AddChild's duplicate check (struct only) -/
def dupName (c : Ctx) (rs : RunSt) (name : String) : Bool :=
  !c.inArr && rs.names.contains name

def RunSt.added (rs : RunSt) (name : String) (s' : St) (stop : Int) : RunSt :=
  { st := s', idx := rs.idx + 1, names := name :: rs.names, ext := max rs.ext stop }

def shiftLeaf (d : Int) (l : Leaf) : Leaf := { l with start := l.start + d }

/-- the interpreter: leaves added (also when it ends in a panic: the partial tree) and how it ended -/
def runDProg : DProg → Ctx → RunSt → List Leaf × Outcome RunSt
  | .done v, _, rs => ([], .ok { rs with ret := v })
  | .prim p a k, c, rs =>
    match corePrim p rs.st a with
    | .panic v => ([], .panic v)
    | .ok s' => runDProg k c { rs with st := s' }
  | .field name fk n chk k, c, rs =>
    match corePrim fk.prim rs.st n with
    | .panic v => ([], .panic v)
    | .ok s' =>
      let v := bitsVal c.inp (c.base + rs.st.pos) (s'.pos - rs.st.pos)
      if !rs.st.force && !chk v then ([], .panic .ioError)          -- failed Assert mapper → IOPanic
      else if dupName c rs name then ([], .panic .decoderError)     -- AddChild: Fatalf "already exist"
      else
        let r := runDProg (k v) c (rs.added name s' s'.pos)
        (⟨childPath c rs name, rs.st.pos, s'.pos - rs.st.pos⟩ :: r.1, r.2)
  | .read fk n k, c, rs =>
    match corePrim fk.prim rs.st n with
    | .panic v => ([], .panic v)
    | .ok s' => runDProg (k (bitsVal c.inp (c.base + rs.st.pos) (s'.pos - rs.st.pos))) c { rs with st := s' }
  | .info k, c, rs => runDProg (k rs.st.pos rs.st.len rs.st.force) c rs
  | .scope isArr name body k, c, rs =>
    if dupName c rs name then ([], .panic .decoderError)
    else
      let r := runDProg body { c with path := childPath c rs name, inArr := isArr }
        { st := rs.st, idx := 0, names := [], ext := max rs.ext rs.st.pos }
      match r.2 with
      | .panic v => (r.1, .panic v)
      | .ok rs1 =>
        let r2 := runDProg (k rs1.ret) c { st := rs1.st, idx := rs.idx + 1, names := name :: rs.names, ext := rs1.ext }
        (r.1 ++ r2.1, r2.2)
  | .framed n body k, c, rs =>
    if n < 0 then ([], .panic .decoderError)                        -- decode.go:964 d.Fatalf
    else match rangeFn rs.st rs.st.pos n with                       -- decode.go:983-994
      | .panic v => ([], .panic v)
      | .ok _ =>
        let r := runDProg body c { rs with st := { rs.st with len := wrap64 (rs.st.pos + n) } }
        match r.2 with
        | .panic v => (r.1, .panic v)
        | .ok rs1 =>
          match must (trySeekRel rs.st n) with                      -- decode.go:968 d.SeekRel(nBits) on the outer d
          | .panic v => (r.1, .panic v)
          | .ok s' =>
            let r2 := runDProg (k rs1.ret) c { rs1 with st := s' }
            (r.1 ++ r2.1, r2.2)
  | .sub name body k, c, rs =>
    if rs.st.left < 0 then runDProg (k false) c rs                  -- BitBufRange of a negative length: decode() fails
    else
      let r := runDProg body { c with base := c.base + rs.st.pos, path := childPath c rs name, inArr := false }
        { st := { len := rs.st.left, pos := 0, force := rs.st.force }, idx := 0, names := [], ext := 0 }
      match recoverRun r.2 with
      | .repanic v => (r.1.map (shiftLeaf rs.st.pos), .panic v)     -- recoverfn.go:36: not recoverable, goes on
      | .recovered _ => runDProg (k false) c rs                     -- dv == nil: nothing added
      | .done rs1 =>
        if dupName c rs name then (r.1.map (shiftLeaf rs.st.pos), .panic .decoderError)
        else match must (trySeekRel rs.st rs1.ext) with             -- SeekBits(dv.Range.Len, SeekCurrent)
          | .panic v => (r.1.map (shiftLeaf rs.st.pos), .panic v)
          | .ok s' =>
            let r2 := runDProg (k true) c (rs.added name s' (rs.st.pos + rs1.ext))
            (r.1.map (shiftLeaf rs.st.pos) ++ r2.1, r2.2)

/-- the state a root decoder starts in (decode.go:75-110: a SectionReader over the whole input) -/
def rootSt (nBytes : Nat) (force : Bool) : RunSt :=
  { st := { len := Int.ofNat nBytes * 8, pos := 0, force := force }, idx := 0, names := [], ext := 0 }

def rootCtx (inp : Array Nat) (rootArray : Bool) : Ctx :=
  { inp := inp, base := 0, path := "", inArr := rootArray }

/-- a DProg as a `Decoder` of the group model (`rootArray` = Format.RootArray) -/
def DProg.toDecoder (p : DProg) (rootArray : Bool) : Decoder := fun x =>
  match (runDProg p (rootCtx x.bytes.toArray rootArray) (rootSt x.bytes.length x.force)).2 with
  | .ok _ => .ok ()
  | .panic v => .panic v

/-! ## three real decoders, transliterated -/

/-- `for d.NotEnd() { … }` / counted loops: Lean recursion needs fuel. A loop body that reads at least one bit per
    round runs at most `len` rounds, so the transliterations pass `len + 1` (bits of the buffer) and hit
    `Fatalf`-like `loopFuelOut` only if that reasoning were wrong (the correspondence run would show it). -/
def loopFuelOut : DProg := .prim .fatalf 0 (.done 0)

def noChk : Int → Bool := fun _ => true

/-- format/mp3/mp3_frame_vbri.go:22-40 mp3FrameTagVBRIDecode -/
def vbriToc (entrySize : Int) : Nat → DProg
  | 0 => .done 0
  | n + 1 => .field "entry" .u (entrySize * 8) noChk fun _ => vbriToc entrySize n    -- d.FieldU("entry", int(tocEntrySize)*8)

def vbriProg : DProg :=
  .field "header" .utf8 4 (fun v => v == 0x56425249) fun _ =>               -- d.StrAssert("VBRI")
  .field "version_id" .u 16 noChk fun _ =>
  .field "delay" .u 16 noChk fun _ =>
  .field "quality" .u 16 noChk fun _ =>
  .field "length" .u 32 noChk fun _ =>
  .field "frames" .u 32 noChk fun _ =>
  .field "toc_entries" .u 16 noChk fun tocEntries =>
  .field "scale_factor" .u 16 noChk fun _ =>
  .field "toc_entry_size" .u 16 (fun v => 1 ≤ v && v ≤ 4) fun tocEntrySize =>   -- d.UintAssert(1, 2, 3, 4)
  .field "frame_per_entry" .u 16 noChk fun _ =>
  .scope true "toc" (vbriToc tocEntrySize tocEntries.toNat) fun _ => .done 0           -- for range int(tocEntries)

/-- format/vpx/vp9_cfm.go:23-45 vp9CFMDecode (RootArray, RootName "features"); ids 1..4 read one byte -/
def vp9Feature : DProg :=
  .field "id" .u 8 noChk fun id =>
  .field "length" .u 8 noChk fun l =>
  .framed (l * 8) (
    if id == 1 then .field "profile" .u 8 noChk fun _ => .done 0
    else if id == 2 then .field "level" .u 8 noChk fun _ => .done 0
    else if id == 3 then .field "bit_depth" .u 8 noChk fun _ => .done 0
    else if id == 4 then .field "chroma_subsampling" .u 8 noChk fun _ => .done 0
    else .info fun pos len _ => .field "data" .raw (len - pos) noChk fun _ => .done 0)   -- d.FieldRawLen("data", d.BitsLeft())
    fun _ => .done 0

def vp9Loop : Nat → DProg
  | 0 => loopFuelOut
  | fuel + 1 => .info fun pos len _ =>
    if pos ≥ len then .done 0                                                  -- for d.NotEnd()
    else .scope false "feature" vp9Feature fun _ => vp9Loop fuel

def vp9Prog : DProg := .info fun _ len _ => vp9Loop (len.toNat + 1)

/-- format/prores/prores_frame.go:20-68 decodeProResFrame -/
def proresHeader : DProg :=
  .field "hdr_size" .u 16 noChk fun _ =>
  .field "version" .u 16 noChk fun _ =>
  .field "creator_id" .utf8 4 noChk fun _ =>
  .field "width" .u 16 noChk fun _ =>
  .field "height" .u 16 noChk fun _ =>
  .scope false "frame_flags" (
    .field "chrominance_factor" .u 2 noChk fun _ =>
    .field "unused0" .u 2 noChk fun _ =>
    .field "frame_type" .u 2 noChk fun _ =>
    .field "unused1" .u 2 noChk fun _ => .done 0) fun _ =>
  .field "reserved1" .u 8 noChk fun _ =>
  .field "primaries" .u 8 noChk fun _ =>
  .field "transf_func" .u 8 noChk fun _ =>
  .field "color_matrix" .u 8 noChk fun _ =>
  .field "src_pix_fmt" .u 4 noChk fun _ =>
  .field "alpha_info" .u 4 noChk fun _ =>
  .field "reserved2" .u 8 noChk fun _ =>
  .field "q_mat_flags" .u 8 noChk fun _ =>
  .field "q_mat_luma" .raw (64 * 8) noChk fun _ =>
  .field "q_mat_chroma" .raw (64 * 8) noChk fun _ => .done 0

def proresProg : DProg :=
  .scope false "container" (
    .field "size" .u 32 noChk fun size =>                                    -- size = int64(d.FieldU32("size"))
    .field "type" .utf8 4 (fun v => v == 0x69637066) fun _ => .done size)    -- d.StrAssert("icpf")
  fun size =>
  .framed ((size - 8) * 8) (                                                 -- d.FramedFn((size-8)*8, …)
    .scope false "header" proresHeader fun _ =>
    .info fun pos len _ => .field "picture_data" .raw (len - pos) noChk fun _ => .done 0)   -- d.FieldRawLen(…, d.BitsLeft())
  fun _ => .done 0

end FqModel.Recover
