import FqModel.Container
/-!
  C15 — RIFF/WAVE (`format/riff/common.go:24-49` riffDecode, `format/riff/wav.go:53-178`).
  The parser yields the flat event sequence that fq's tree spells out (chunk open, chunk specific
  fields, children, chunk close with the optional align byte); `fuel` bounds the nesting depth.
-/
namespace FqModel.Container

structure WavFmt where
  audioFormat : Nat
  numChannels : Nat
  sampleRate : Nat
  byteRate : Nat
  blockAlign : Nat
  bitsPerSample : Nat
  cbSize : Option Nat
  unknown : Option Bytes
  extSize : Option Nat
  validBits : Option Nat
  chanMask : Option Nat
  subFormat : Option Bytes
deriving Repr, DecidableEq

inductive WavEv
  | opn (id : Bytes) (size : Nat)
  | riff (format : Bytes)
  | list (type : Bytes)
  | fmt (f : WavFmt)
  | samples (d : Bytes)
  | fact (n : Nat)
  | str (v : Bytes)
  | raw (d : Bytes)
  | close (align : Option Nat)
deriving Repr, DecidableEq

def idRIFF : Bytes := [0x52, 0x49, 0x46, 0x46]
def idLIST : Bytes := [0x4c, 0x49, 0x53, 0x54]
def idFmt : Bytes := [0x66, 0x6d, 0x74]            -- "fmt " after TrimSpace
def idData : Bytes := [0x64, 0x61, 0x74, 0x61]
def idFact : Bytes := [0x66, 0x61, 0x63, 0x74]
def idWAVE : Bytes := [0x57, 0x41, 0x56, 0x45]

/-- `riffIsStringChunkID` (common.go:99-131) -/
def riffStringIds : List Bytes :=
  [
   [0x73, 0x74, 0x72, 0x6e],  -- strn
   [0x49, 0x53, 0x4d, 0x50],  -- ISMP
   [0x49, 0x44, 0x49, 0x54],  -- IDIT
   [0x49, 0x41, 0x52, 0x4c],  -- IARL
   [0x49, 0x41, 0x52, 0x54],  -- IART
   [0x49, 0x43, 0x4d, 0x53],  -- ICMS
   [0x49, 0x43, 0x4d, 0x54],  -- ICMT
   [0x49, 0x43, 0x4f, 0x50],  -- ICOP
   [0x49, 0x43, 0x52, 0x44],  -- ICRD
   [0x49, 0x43, 0x52, 0x50],  -- ICRP
   [0x49, 0x44, 0x49, 0x4d],  -- IDIM
   [0x49, 0x44, 0x50, 0x49],  -- IDPI
   [0x49, 0x45, 0x4e, 0x47],  -- IENG
   [0x49, 0x47, 0x4e, 0x52],  -- IGNR
   [0x49, 0x4b, 0x45, 0x59],  -- IKEY
   [0x49, 0x4c, 0x47, 0x54],  -- ILGT
   [0x49, 0x4d, 0x45, 0x44],  -- IMED
   [0x49, 0x4e, 0x41, 0x4d],  -- INAM
   [0x49, 0x50, 0x4c, 0x54],  -- IPLT
   [0x49, 0x50, 0x52, 0x44],  -- IPRD
   [0x49, 0x53, 0x42, 0x4a],  -- ISBJ
   [0x49, 0x53, 0x46, 0x54],  -- ISFT
   [0x49, 0x53, 0x48, 0x50],  -- ISHP
   [0x49, 0x53, 0x52, 0x43],  -- ISRC
   [0x49, 0x53, 0x52, 0x46],  -- ISRF
   [0x49, 0x54, 0x43, 0x48]  -- ITCH
  ]

/-- the `fmt` chunk (wav.go:86-110) inside its frame -/
def parseWavFmt (d : Bytes) : Option WavFmt := do
  let (af, d) ← takeN 2 d
  let (ch, d) ← takeN 2 d
  let (rate, d) ← takeN 4 d
  let (brate, d) ← takeN 4 d
  let (al, d) ← takeN 2 d
  let (bits, d) ← takeN 2 d
  let base : WavFmt := ⟨leNat af, leNat ch, leNat rate, leNat brate, leNat al, leNat bits, none, none, none, none, none, none⟩
  if d.isEmpty then pure base
  else if leNat af = 0xfffe then do
    let (es, d) ← takeN 2 d
    let (vb, d) ← takeN 2 d
    let (mask, d) ← takeN 4 d
    let (sub, _) ← takeN 16 d
    pure { base with extSize := some (leNat es), validBits := some (leNat vb), chanMask := some (leNat mask), subFormat := some sub }
  else do
    let (cb, d) ← takeN 2 d
    let (u, _) ← takeN (leNat cb) d
    pure { base with cbSize := some (leNat cb), unknown := some u }

/-- chunk specific part of a chunk without children (wav.go:86-173) -/
def wavLeafBody (id frame : Bytes) : Option (List WavEv) :=
  if id = idFmt then (parseWavFmt frame).map (fun f => [.fmt f])
  else if id = idData then some [.samples frame]
  else if id = idFact then (takeN 4 frame).map (fun x => [.fact (leNat x.1)])
  else if riffStringIds.contains id then some [.str (cstr frame)]
  else some [.raw frame]

mutual
/-- one chunk at absolute byte position `pos` (riffDecode, common.go:24-49) -/
def riffChunk : Nat → Nat → Bytes → Option (List WavEv × Nat × Bytes)
  | 0, _, _ => none
  | fuel+1, pos, bs =>
    match takeN 4 bs with
    | none => none
    | some (id4, bs) =>
    match takeN 4 bs with
    | none => none
    | some (sz, bs) =>
    let size := if leNat sz = 0xffffffff then bs.length else leNat sz       -- wav.go:65-77 "rest of file"
    match takeN size bs with                                                -- FramedFn
    | none => none
    | some (frame, after) =>
    let id := trimWs id4
    let body : Option (List WavEv) :=
      if id = idRIFF then
        match takeN 4 frame with
        | none => none
        | some (f, rest) => if f = idWAVE then (riffChildren fuel (pos + 12) rest).map (fun c => WavEv.riff f :: c) else none
      else if id = idLIST then
        match takeN 4 frame with
        | none => none
        | some (t, rest) => (riffChildren fuel (pos + 12) rest).map (fun c => WavEv.list t :: c)
      else wavLeafBody id frame
    match body with
    | none => none
    | some evs =>
      let pos' := pos + 8 + size
      if pos' % 2 = 1 then
        match takeN 1 after with                                            -- AlignBits(16): one `align` byte
        | none => none
        | some (_, after) => some (WavEv.opn id (leNat sz) :: evs ++ [WavEv.close (some 1)], pos' + 1, after)
      else some (WavEv.opn id (leNat sz) :: evs ++ [WavEv.close none], pos', after)
/-- `for !d.End() { chunk }` inside a frame -/
def riffChildren : Nat → Nat → Bytes → Option (List WavEv)
  | 0, _, _ => none
  | fuel+1, pos, bs =>
    if bs.isEmpty then some [] else
    match riffChunk fuel pos bs with
    | none => none
    | some (evs, pos', rest) => (riffChildren fuel pos' rest).map (evs ++ ·)
end

/-- wav.go:53-178: the top level chunk; the file must be a RIFF of type WAVE -/
def parseWav (bs : Bytes) : Option (List WavEv) :=
  match riffChunk (bs.length + 2) 0 bs with
  | some (evs, _, _) =>
    match evs with
    | .opn _ _ :: .riff _ :: _ => some evs
    | _ => none                                   -- wav.go:172 "wrong or no WAV riff type found"
  | none => none

/-! writer -/

def writeRiffChunk (id4 payload : Bytes) : Bytes :=
  id4 ++ toLE 4 payload.length ++ payload ++ (if payload.length % 2 = 1 then [0] else [])

def writeWavFmt (f : WavFmt) : Bytes :=
  toLE 2 f.audioFormat ++ toLE 2 f.numChannels ++ toLE 4 f.sampleRate ++ toLE 4 f.byteRate ++ toLE 2 f.blockAlign ++ toLE 2 f.bitsPerSample ++
  (match f.extSize, f.validBits, f.chanMask, f.subFormat with
   | some es, some vb, some m, some s => toLE 2 es ++ toLE 2 vb ++ toLE 4 m ++ s
   | _, _, _, _ => match f.unknown with
     | some u => toLE 2 u.length ++ u
     | none => [])

/-- a top level child of the RIFF chunk: a leaf (id, payload) or a LIST (type, leaves) -/
inductive WavTop
  | leaf (id4 payload : Bytes)
  | list (type : Bytes) (leaves : List (Bytes × Bytes))
deriving Repr, DecidableEq

def writeWavTop : WavTop → Bytes
  | .leaf id p => writeRiffChunk id p
  | .list t ls => writeRiffChunk idLIST (t ++ ls.flatMap (fun l => writeRiffChunk l.1 l.2))

def wavBody (tops : List WavTop) : Bytes := idWAVE ++ tops.flatMap writeWavTop
def writeWav (tops : List WavTop) : Bytes := writeRiffChunk idRIFF (wavBody tops)

/-- events a written leaf must produce -/
def leafEvents (id4 payload : Bytes) : Option (List WavEv) :=
  (wavLeafBody (trimWs id4) payload).map (fun b =>
    WavEv.opn (trimWs id4) payload.length :: b ++ [WavEv.close (if payload.length % 2 = 1 then some 1 else none)])

end FqModel.Container
