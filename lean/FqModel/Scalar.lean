import FqModel.Bits
/-!
  C02 — model of the scalar readers of the decode library, transliterated from
    /repo/pkg/decode/read.go            (tryUEndian … trySLEB128)
    /repo/pkg/decode/decode.go:388-421  (TryBits, TryUintBits), :495-539 (TryPeekFind)
    /repo/pkg/bitio/reversebytes64.go   (ReverseBytes64)
    /repo/internal/mathx/float16.go     (expandF16ToF32)
    /repo/internal/mathx/float80.go     (NewFloat80FromBytes, Float80.Float64 — the FIXED code)
    /repo/internal/mathx/big.go         (BigIntSetBytesSigned)
  Core Lean only (the driver links it).  No Lean `Float` anywhere: floating point numbers are
  bit patterns (`Nat`) and exact values (`IEEEVal`).

  Decoder state: the whole input as a bit string `bs : Bits` (length need not be a multiple
  of 8), the position `pos : Nat`, the decoder's current endian.

  Interface to C01 (bitio): `bitio.ReadFull(d.bitBuf, buf, n)` on the reader that decode.Decode
  builds (SectionReader over the caller's reader) is taken at its specification:
     n = 0                 → success, nothing read
     pos + n ≤ len         → success, the bits `slice bs pos n` left-aligned in buf (rest of the
                             last byte zero), position pos+n
     otherwise             → io.EOF, and — quirk kept — the position is NOT restored: the reader
                             has consumed what was left, so the position is `max pos len`
  and `bitio.Read64(buf,0,n)` = `ofBitsBE` of those bits.  Both are validated on every case of
  the correspondence run.
-/
namespace FqModel.Scalar
open FqModel

inductive Endian | be | le
deriving DecidableEq, Repr, Inhabited

/-- error classes the harness distinguishes: io.EOF / io.ErrUnexpectedEOF vs. anything else -/
inductive ErrK | eof | other
deriving DecidableEq, Repr, Inhabited

/-- what a reader call does, as observed through the API -/
inductive Res (α : Type) where
  | ok (v : α) (pos : Nat)          -- value, new position
  | err (e : ErrK) (pos : Nat)      -- the Try… method returned an error
  | ioerr (e : ErrK) (pos : Nat)    -- panic(decode.IOError{…}) — the decode package's recoverable error
  | panic (why : String) (pos : Nat) -- Go runtime fault (nil dereference, makeslice, negative shift)
deriving Repr, Inhabited, DecidableEq

def Res.map {α β} (f : α → β) : Res α → Res β
  | .ok v p => .ok (f v) p
  | .err e p => .err e p
  | .ioerr e p => .ioerr e p
  | .panic w p => .panic w p

/-- sequencing: a failure of the first step is the failure of the whole -/
def Res.bind {α β} (r : Res α) (f : α → Nat → Res β) : Res β :=
  match r with
  | .ok v p => f v p
  | .err e p => .err e p
  | .ioerr e p => .ioerr e p
  | .panic w p => .panic w p

/-! ### bits and bytes -/

/-- split into 8-bit chunks, the last one zero-padded on the right (structural on the fuel) -/
def chunks8 : Nat → Bits → List Bits
  | 0, _ => []
  | f+1, bs =>
    if bs.isEmpty then [] else
    let c := bs.take 8
    (c ++ List.replicate (8 - c.length) false) :: chunks8 f (bs.drop 8)

/-- the bytes of a left-aligned buffer holding `bs` (read.go: what ReadFull leaves in buf) -/
def bytesOf (bs : Bits) : List Bits := chunks8 (bs.length / 8 + 1) bs

def byteVals (bs : Bits) : List Nat := (bytesOf bs).map ofBitsBE

/-- ReverseBytes (read.go:55) followed by reading the buffer as one big-endian bit string -/
def reverseByteOrder (bs : Bits) : Bits := (bytesOf bs).reverse.flatten

/-! ### decode.go:388 TryBits, :411 TryUintBits -/

/-- TryBits (nBits ≥ 0): the bits read, or io.EOF with the position moved to the end -/
def tryBits (bs : Bits) (pos n : Nat) : Res Bits :=
  if n = 0 then .ok [] pos
  else if pos + n ≤ bs.length then .ok (slice bs pos n) (pos + n)
  else .err .eof (max pos bs.length)

/-- TryUintBits: decode.go:412 rejects nBits > 64 before reading -/
def tryUintBits (bs : Bits) (pos n : Nat) : Res Nat :=
  if n > 64 then .err .other pos
  else (tryBits bs pos n).map ofBitsBE

/-! ### bitio/reversebytes64.go -/

/-- math/bits.ReverseBytes64: all eight bytes of the word reversed -/
def bswap64 (n : BitVec 64) : BitVec 64 :=
  (n &&& 0xff#64) <<< 56 ||| (n &&& 0xff00#64) <<< 40 ||| (n &&& 0xff0000#64) <<< 24 ||| (n &&& 0xff000000#64) <<< 8
    ||| (n &&& 0xff00000000#64) >>> 8 ||| (n &&& 0xff0000000000#64) >>> 24 ||| (n &&& 0xff000000000000#64) >>> 40
    ||| (n &&& 0xff00000000000000#64) >>> 56

/-- ReverseBytes64, case by case (Go: `&`, `<<`, `>>` bind tighter than `|`); `none` = the
    `default: panic` branch -/
def reverseBytes64 (nBits : Nat) (n : BitVec 64) : Option (BitVec 64) :=
  if nBits ≤ 8 then some n
  else if nBits ≤ 16 then some (((n &&& 0xff00#64) >>> 8) ||| ((n &&& 0xff#64) <<< 8))
  else if nBits ≤ 24 then some ((((n &&& 0xff#64) <<< 16) ||| (n &&& 0xff00#64)) ||| ((n &&& 0xff0000#64) >>> 16))
  else if nBits ≤ 32 then some (((((n &&& 0xff#64) <<< 24) ||| ((n &&& 0xff00#64) <<< 8)) ||| ((n &&& 0xff0000#64) >>> 8)) ||| ((n &&& 0xff000000#64) >>> 24))
  else if nBits ≤ 40 then some ((((((n &&& 0xff#64) <<< 32) ||| ((n &&& 0xff00#64) <<< 16)) ||| (n &&& 0xff0000#64)) ||| ((n &&& 0xff000000#64) >>> 16)) ||| ((n &&& 0xff00000000#64) >>> 32))
  else if nBits ≤ 48 then some (((((((n &&& 0xff#64) <<< 40) ||| ((n &&& 0xff00#64) <<< 24)) ||| ((n &&& 0xff0000#64) <<< 8)) ||| ((n &&& 0xff000000#64) >>> 8)) ||| ((n &&& 0xff00000000#64) >>> 24)) ||| ((n &&& 0xff0000000000#64) >>> 40))
  else if nBits ≤ 56 then some ((((((((n &&& 0xff#64) <<< 48) ||| ((n &&& 0xff00#64) <<< 32)) ||| ((n &&& 0xff0000#64) <<< 16)) ||| (n &&& 0xff000000#64)) ||| ((n &&& 0xff00000000#64) >>> 16)) ||| ((n &&& 0xff0000000000#64) >>> 32)) ||| ((n &&& 0xff000000000000#64) >>> 48))
  else if nBits ≤ 64 then some (((((((((n &&& 0xff#64) <<< 56) ||| ((n &&& 0xff00#64) <<< 40)) ||| ((n &&& 0xff0000#64) <<< 24)) ||| ((n &&& 0xff000000#64) <<< 8)) ||| ((n &&& 0xff00000000#64) >>> 8)) ||| ((n &&& 0xff0000000000#64) >>> 24)) ||| ((n &&& 0xff000000000000#64) >>> 40)) ||| ((n &&& 0xff00000000000000#64) >>> 56))
  else none

/-- SPECIFICATION of a little-endian read of whole bytes: Σ byteᵢ · 256^i over the bytes in stream order -/
def leValue (sl : Bits) : Nat := (byteVals sl).foldr (fun b acc => b + 256 * acc) 0

/-- SPECIFICATION of an n-bit two's complement number with unsigned value u -/
def signedOf (n : Nat) (u : Nat) : Int := if 2 ^ (n - 1) ≤ u then (u : Int) - ((2 ^ n : Nat) : Int) else (u : Int)

/-! ### read.go:20 tryUEndian, :35 trySEndian -/

/-- tryUEndian for nBits ≥ 0 (the `nBits < 0` guard is in `tryUEndianI`) -/
def tryUEndian (bs : Bits) (pos n : Nat) (e : Endian) : Res Nat :=
  (tryUintBits bs pos n).bind fun u p =>
    match e with
    | .be => .ok u p
    | .le =>
      match reverseBytes64 n (BitVec.ofNat 64 u) with
      | some r => .ok r.toNat p
      | none => .panic "unsupported bit length" p

/-- read.go:43-49 on uint64/int64: `n&(1<<(nBits-1)) > 0`, `-int64((^n & ((1 << nBits) - 1)) + 1)`.
    In Go `1 << 64` on a uint64 is 0, so the mask for nBits = 64 is all ones — as `BitVec` does. -/
def twosComplement (nBits : Nat) (n : BitVec 64) : Int :=
  if (n &&& ((1#64 <<< ((nBits - 1))))) ≠ 0#64 then (-((((~~~n) &&& ((((1#64 <<< nBits)) - 1#64)))) + 1#64)).toInt else n.toInt

/-- trySEndian: nBits < 1 is rejected (read.go:36) -/
def trySEndian (bs : Bits) (pos n : Nat) (e : Endian) : Res Int :=
  if n < 1 then .err .other pos
  else (tryUEndian bs pos n e).map fun u => twosComplement n (BitVec.ofNat 64 u)

def tryUEndianI (bs : Bits) (pos : Nat) (n : Int) (e : Endian) : Res Nat :=
  if n < 0 then .err .other pos else tryUEndian bs pos n.toNat e

def trySEndianI (bs : Bits) (pos : Nat) (n : Int) (e : Endian) : Res Int :=
  if n < 1 then .err .other pos else trySEndian bs pos n.toNat e

/-! ### read.go:62 tryBigIntEndianSign, mathx/big.go -/

/-- `big.Int.Rsh` on a possibly negative number: arithmetic shift = floor division -/
def rshInt (v : Int) (k : Nat) : Int := v / (2 ^ k : Int)

def tryBigIntEndianSign (bs : Bits) (pos n : Nat) (e : Endian) (sign : Bool) : Res Int :=
  (tryBits bs pos n).bind fun rd p =>
    let bytes := bytesOf rd                       -- b = BitsByteCount(nBits) bytes, zero padded
    let bytes := if e == .le then bytes.reverse else bytes
    let buf := bytes.flatten
    let u : Int := ofBitsBE buf                   -- n.SetBytes(buf)
    -- BigIntSetBytesSigned: len(buf) > 0 && buf[0]&0x80 > 0  →  n -= 1 << (len(buf)*8)
    let v : Int := if sign && buf.head? == some true then u - (2 ^ buf.length : Int) else u
    .ok (rshInt v ((8 - n % 8) % 8)) p

def tryBigIntEndianSignI (bs : Bits) (pos : Nat) (n : Int) (e : Endian) (sign : Bool) : Res Int :=
  if n < 0 then .err .other pos else tryBigIntEndianSign bs pos n.toNat e sign

/-! ### IEEE 754 values, exactly -/

/-- exact value of a floating point datum: `fin neg m e` is (−1)^neg · m · 2^e -/
inductive IEEEVal where
  | nan
  | inf (neg : Bool)
  | fin (neg : Bool) (m : Nat) (e : Int)
deriving DecidableEq, Repr, Inhabited

/-- the two data denote the same extended real (NaN only equals NaN; +0 and −0 are kept apart):
    m·2^e = m'·2^e'  ⇔  m·2^(e−min) = m'·2^(e'−min), computed by shifting the one with the larger
    exponent. -/
def IEEEVal.same : IEEEVal → IEEEVal → Bool
  | .nan, .nan => true
  | .inf a, .inf b => a == b
  | .fin s m e, .fin s' m' e' =>
    s == s' && (if e ≤ e' then m == m' <<< (e' - e).toNat else m <<< (e - e').toNat == m')
  | _, _ => false

/-- generic binary interchange format with `ebits` exponent and `fbits` fraction bits -/
def valIEEE (ebits fbits : Nat) (b : Nat) : IEEEVal :=
  let frac := b % 2 ^ fbits
  let ex := (b / 2 ^ fbits) % 2 ^ ebits
  let neg := (b / 2 ^ (fbits + ebits)) % 2 == 1
  let bias : Int := 2 ^ (ebits - 1) - 1
  if ex = 2 ^ ebits - 1 then (if frac = 0 then .inf neg else .nan)
  else if ex = 0 then .fin neg frac (1 - bias - fbits)
  else .fin neg (2 ^ fbits + frac) (ex - bias - fbits)

def val16 := valIEEE 5 10
def val32 := valIEEE 8 23
def val64 := valIEEE 11 52

/-- x87 extended precision, sign+exponent word `se`, 64-bit significand `m` with explicit
    integer bit.  Exponent all ones: infinity iff the 63 fraction bits are zero (as fq reads it;
    the integer bit is not inspected), else NaN.  Otherwise the value is m·2^(max e 1 − 16383 − 63)
    — this covers denormals, pseudo-denormals and unnormals literally. -/
def val80 (se m : Nat) : IEEEVal :=
  let neg := (se / 2 ^ 15) % 2 == 1
  let ex : Nat := se % 2 ^ 15
  let exI : Int := if ex = 0 then 1 else Int.ofNat ex
  if ex = 0x7fff then (if m % 2 ^ 63 = 0 then .inf neg else .nan)
  else .fin neg m (exI - 16383 - 63)

/-- m / 2^k rounded to nearest, ties to even -/
def shiftRNE (m k : Nat) : Nat :=
  if k = 0 then m else
  let q := m >>> k
  let r := m % 2 ^ k
  let h := 2 ^ (k - 1)
  if r > h ∨ (r = h ∧ q % 2 = 1) then q + 1 else q

def clampInf (b : Nat) : Nat := if b ≥ 0x7FF0000000000000 then 0x7FF0000000000000 else b

/-- magnitude bits (sign bit clear) of the binary64 nearest to m · 2^e -/
def roundMag (m : Nat) (e : Int) : Nat :=
  if m = 0 then 0 else
  let E : Int := e + (Nat.log2 m : Int)            -- 2^E ≤ value < 2^(E+1)
  let q : Int := max (E - 52) (-1074)              -- exponent of the unit in the last place
  let r := if e ≥ q then m <<< (e - q).toNat else shiftRNE m (q - e).toNat
  -- r carries the hidden bit (and a rounding carry); exponent field = q + 1075 for normal results
  clampInf ((q + 1074).toNat * 2 ^ 52 + r)

/-- THE ROUNDING STEP: the binary64 bit pattern nearest to (−1)^neg · m · 2^e, round to nearest
    even, overflow to ±Inf, gradual underflow to subnormals and ±0. -/
def roundF64 (neg : Bool) (m : Nat) (e : Int) : Nat := (if neg then 2 ^ 63 else 0) + roundMag m e

def isNaN64 (b : Nat) : Bool := (b / 2 ^ 52) % 2 ^ 11 == 2047 && b % 2 ^ 52 != 0

/-- encoding of an exact value as binary64 (exact when representable, else rounded) -/
def encode64 : IEEEVal → Nat
  | .nan => 0x7FF8000000000001                     -- math.NaN()
  | .inf neg => (if neg then 2 ^ 63 else 0) + 0x7FF0000000000000
  | .fin neg m e => roundF64 neg m e

/-- Go `float64(x)` for a float32 `x`: exact; a NaN keeps sign and payload and is quieted (amd64
    CVTSS2SD).  NaN payloads are never compared by the driver. -/
def widen32 (b : Nat) : Nat :=
  match val32 b with
  | .nan => (b / 2 ^ 31 % 2) * 2 ^ 63 + 0x7FF8000000000000 + (b % 2 ^ 22) * 2 ^ 29
  | v => encode64 v

/-! ### mathx/float16.go expandF16ToF32 (uint32 arithmetic, wrap-around kept) -/

def u32 (n : Nat) : Nat := n % 2 ^ 32

/-- float16.go:121-124 `for frac&float32ExpMask == 0 { frac <<= 1; exp-- }` on uint32 (32 shifts empty
    a uint32, so 32 units of fuel are enough; the loop is only entered with frac ≠ 0) -/
def expandF16ToF32_loop0 : Nat → Nat → Nat → Nat × Nat
  | 0, frac, exp => (frac, exp)
  | fuel+1, frac, exp =>
    if (frac &&& 0x7f800000) = 0 then
      let frac := (u32 (frac <<< 1))
      let exp := (u32 (exp + 2 ^ 32 - 1))
      expandF16ToF32_loop0 fuel frac exp
    else (frac, exp)

/-- float16.go:104-129 expandF16ToF32, statement by statement (an `if` without else duplicates the
    rest of the function).  This text is what /verif/extract/c02bits generates from the Go source;
    Props.C02 `gen_expandF16ToF32_ok` proves by `rfl` that it still is. -/
def expandF16ToF32 (in_ : Nat) : Nat :=
  let sign := (u32 ((in_ &&& 0x8000) <<< 16))
  let frac := (u32 ((in_ &&& 0x03ff) <<< 13))
  let exp := ((in_ &&& 0x7c00) >>> 10)
  if exp = 0x1f then
    ((sign ||| 0x7f800000) ||| frac)
  else
    if exp = 0 then
      if frac = 0 then
        sign
      else
        let exp := (u32 (exp + 1))
        let (frac, exp) := expandF16ToF32_loop0 32 frac exp
        let frac := (frac &&& 0x007fffff)
        let exp := (u32 (exp + (0x7f - 0xf)))
        ((sign ||| (u32 (exp <<< 23))) ||| frac)
    else
      let exp := (u32 (exp + (0x7f - 0xf)))
      ((sign ||| (u32 (exp <<< 23))) ||| frac)

/-! ### mathx/float80.go Float80.Float64 (fixed code) -/

/-- Go `float64(m)` for a uint64: round to nearest even -/
def u64ToF64 (m : Nat) : Nat := roundF64 false m 0

/-- Go `v = -v` on a float64 given by its bits: the sign bit is flipped -/
def negF64 (v : Nat) : Nat := if v ≥ 2 ^ 63 then v - 2 ^ 63 else v + 2 ^ 63

/-- Float80.Float64 (float80.go, after the fixes b01458f9 and 36e2f831), statement by statement:
    exponent all ones → NaN (any fraction bit set; math.NaN()) or ±Inf; otherwise a `big.Float` with
    64 bits of precision holds m·2^(max exp 1 − 16383 − 63) exactly and `(*big.Float).Float64()`
    rounds ONCE, to nearest even, overflow to ±Inf, underflow to subnormals / 0 (`roundF64`); the
    sign is applied afterwards (`v = -v`).  This text is what /verif/extract/c02bits generates from
    the Go source; Props.C02 `gen_f80to64_ok` proves by `rfl` that it still is. -/
def f80to64 (f_se f_m : Nat) : Nat :=
  let se := f_se
  let m := f_m
  let sign := (se >>> 15)
  let exp := (se &&& 0x7FFF)
  let frac := (m &&& 0x7FFFFFFFFFFFFFFF)
  if exp = 0x7FFF then
    if frac ≠ 0 then
      0x7FF8000000000001
    else
      if sign ≠ 0 then
        0xFFF0000000000000
      else
        0x7FF0000000000000
  else
    if exp = 0 then
      let exp := 1
      let v := roundF64 false m ((((exp : Nat) : Int) - 16383) - 63)
      if sign ≠ 0 then
        let v := negF64 v
        v
      else
        v
    else
      let v := roundF64 false m ((((exp : Nat) : Int) - 16383) - 63)
      if sign ≠ 0 then
        let v := negF64 v
        v
      else
        v

/-- the code before fix 36e2f831 (kept so that a revert is recognised and the old defect stays
    documented): `math.Ldexp(float64(m), exp−16383−63)` rounds twice for subnormal results -/
def ldexpPos (fbits : Nat) (exp : Int) : Nat :=
  match val64 fbits with
  | .fin _ m e =>
    if m = 0 then fbits else
    let E : Int := e + (Nat.log2 m : Int) + exp
    if E < -1075 then 0
    else if E > 1023 then 0x7FF0000000000000
    else roundF64 false m (e + exp)
  | _ => fbits

def f80to64DoubleRounding (se m : Nat) : Nat :=
  let sign := se >>> 15
  let ex := se &&& 0x7FFF
  let frac := m &&& 0x7FFFFFFFFFFFFFFF
  if ex = 0x7FFF then
    if frac ≠ 0 then 0x7FF8000000000001
    else if sign ≠ 0 then 0xFFF0000000000000 else 0x7FF0000000000000
  else
    let ex := if ex = 0 then 1 else ex
    let v := ldexpPos (roundF64 false m 0) ((ex : Int) - 16383 - 63)
    if sign ≠ 0 then (if v ≥ 2 ^ 63 then v - 2 ^ 63 else v + 2 ^ 63) else v

/-- the specification: ONE rounding of the exact binary80 value -/
def f80to64Spec (se m : Nat) : Nat := encode64 (val80 se m)

/-! ### read.go:88 tryFEndian, :113 tryFPEndian -/

def tryFEndian (bs : Bits) (pos n : Nat) (e : Endian) : Res Nat :=
  (tryBits bs pos n).bind fun rd p =>
    let b := if e == .le then reverseByteOrder rd else (bytesOf rd).flatten
    if n = 16 then .ok (widen32 (expandF16ToF32 (ofBitsBE b))) p
    else if n = 32 then .ok (widen32 (ofBitsBE b)) p
    else if n = 64 then .ok (ofBitsBE b) p
    else if n = 80 then .ok (f80to64 (ofBitsBE (b.take 16)) (ofBitsBE (b.drop 16))) p
    else .err .other p                             -- "unsupported float size": AFTER the bits were read

def tryFEndianI (bs : Bits) (pos : Nat) (n : Int) (e : Endian) : Res Nat :=
  if n < 0 then .err .other pos else tryFEndian bs pos n.toNat e

/-- the exact fixed point value n / 2^f of the bits read -/
structure FPExact where
  num : Nat
  fbits : Nat
deriving DecidableEq, Repr

/-- `float64(n) / float64(uint64(1<<fBits))`: fBits ≥ 64 makes the divisor 0 (Go shift), so the
    result is NaN (0/0) or +Inf; a negative fBits is a Go run-time panic. -/
def fpToF64 (u : Nat) (f : Nat) : Nat :=
  if f ≥ 64 then (if u = 0 then 0x7FF8000000000001 else 0x7FF0000000000000)
  else match val64 (u64ToF64 u) with
    | .fin neg m e => roundF64 neg m (e - f)       -- division by a power of two: exact here
    | v => encode64 v

def tryFPEndian (bs : Bits) (pos n : Nat) (f : Int) (e : Endian) : Res Nat :=
  (tryUEndian bs pos n e).bind fun u p =>
    if f < 0 then .panic "negative shift amount" p
    else .ok (fpToF64 u f.toNat) p

def tryFPEndianI (bs : Bits) (pos : Nat) (n f : Int) (e : Endian) : Res Nat :=
  if n < 0 then .err .other pos else tryFPEndian bs pos n.toNat f e

/-! ### read.go:225 tryUnary, :242 tryBool -/

/-- number of leading bits of `rest` equal to `ov`, if a different bit follows -/
def unaryRun (ov : Nat) : Bits → Option Nat
  | [] => none
  | b :: rest => if (if b then 1 else 0) = ov then (unaryRun ov rest).map (· + 1) else some 0

def tryUnary (bs : Bits) (pos : Nat) (ov : Nat) : Res Nat :=
  match unaryRun ov (bs.drop pos) with
  | some k => .ok k (pos + k + 1)
  | none => .err .eof pos                           -- d.SeekAbs(p): position restored

def tryBool (bs : Bits) (pos : Nat) : Res Bool := (tryUintBits bs pos 1).map (· == 1)

/-! ### read.go:259 tryULEB128, :282 trySLEB128
    Both read with `d.U8()`, which PANICS with an IOError at the end of input (quirk kept). -/

/-- d.U8() -/
def u8 (bs : Bits) (pos : Nat) : Res Nat :=
  match tryUEndian bs pos 8 .be with
  | .err e p => .ioerr e p
  | r => r

def u64 (n : Nat) : Nat := n % 2 ^ 64

def ulebLoop (bs : Bits) : Nat → Nat → Nat → Nat → Res Nat
  | 0, pos, _, _ => .ioerr .eof pos                 -- unreachable: fuel = bytes left + 1
  | fuel+1, pos, shift, result =>
    (u8 bs pos).bind fun b p =>
      if shift ≥ 63 ∧ b ≠ 0 then .err .other p
      else
        let result := result ||| u64 ((b &&& 0x7f) <<< shift)
        if b &&& 0x80 = 0 then .ok result p
        else ulebLoop bs fuel p (shift + 7) result

def tryULEB128 (bs : Bits) (pos : Nat) : Res Nat :=
  ulebLoop bs ((bs.length - pos) / 8 + 2) pos 0 0

def slebLoop (bs : Bits) : Nat → Nat → Nat → BitVec 64 → Res Int
  | 0, pos, _, _ => .ioerr .eof pos
  | fuel+1, pos, shift, result =>
    (u8 bs pos).bind fun b p =>
      if shift = 63 ∧ b ≠ 0 ∧ b ≠ 0x7f then .err .other p
      else
        let result := result ||| (BitVec.ofNat 64 (b &&& 0x7f)) <<< shift
        let shift := shift + 7
        if b &&& 0x80 = 0 then
          let result := if shift < 64 ∧ b &&& 0x40 = 0x40 then result ||| (BitVec.allOnes 64) <<< shift else result
          .ok result.toInt p
        else slebLoop bs fuel p shift result

def trySLEB128 (bs : Bits) (pos : Nat) : Res Int :=
  slebLoop bs ((bs.length - pos) / 8 + 2) pos 0 0#64

/-! ### LEB128 encoders (SPECIFICATION side of the round trip theorems) -/

def bitsOfBytes (l : List Nat) : Bits := l.flatMap (toBitsBE 8)

/-- canonical unsigned LEB128 (at most `f` bytes) -/
def ulebEnc : Nat → Nat → List Nat
  | 0, _ => []
  | f+1, v => if v < 128 then [v] else (v % 128 + 128) :: ulebEnc f (v / 128)

/-- canonical signed LEB128 (at most `f` bytes): stop when the rest is pure sign extension -/
def slebEnc : Nat → Int → List Nat
  | 0, _ => []
  | f+1, v =>
    let b := (v % 128).toNat
    let r := v / 128                                   -- floor division: arithmetic shift
    if (r = 0 ∧ b < 64) ∨ (r = -1 ∧ b ≥ 64) then [b] else (b + 128) :: slebEnc f r

/-! ### text: UTF-8 / UTF-16 codecs (golang.org/x/text/encoding/unicode, for VALID input) -/

inductive Enc | utf8bom | utf16bom | utf16le | utf16be
deriving DecidableEq, Repr, Inhabited

def utf8Encode (c : Nat) : List Nat :=
  if c < 0x80 then [c]
  else if c < 0x800 then [0xC0 + c / 64, 0x80 + c % 64]
  else if c < 0x10000 then [0xE0 + c / 4096, 0x80 + c / 64 % 64, 0x80 + c % 64]
  else [0xF0 + c / 262144, 0x80 + c / 4096 % 64, 0x80 + c / 64 % 64, 0x80 + c % 64]

def isCont (b : Nat) : Bool := 0x80 ≤ b && b ≤ 0xBF

/-- strict UTF-8 decoder (shortest form, no surrogates, ≤ U+10FFFF); `none` on malformed input -/
def utf8Decode : Nat → List Nat → Option (List Nat)
  | 0, _ => none
  | _, [] => some []
  | f+1, b0 :: rest =>
    if b0 < 0x80 then (utf8Decode f rest).map (b0 :: ·)
    else if 0xC2 ≤ b0 ∧ b0 ≤ 0xDF then
      match rest with
      | b1 :: r => if isCont b1 then (utf8Decode f r).map (((b0 - 0xC0) * 64 + (b1 - 0x80)) :: ·) else none
      | _ => none
    else if 0xE0 ≤ b0 ∧ b0 ≤ 0xEF then
      match rest with
      | b1 :: b2 :: r =>
        let c := (b0 - 0xE0) * 4096 + (b1 - 0x80) * 64 + (b2 - 0x80)
        if isCont b1 ∧ isCont b2 ∧ c ≥ 0x800 ∧ ¬ (0xD800 ≤ c ∧ c ≤ 0xDFFF) then (utf8Decode f r).map (c :: ·) else none
      | _ => none
    else if 0xF0 ≤ b0 ∧ b0 ≤ 0xF4 then
      match rest with
      | b1 :: b2 :: b3 :: r =>
        let c := (b0 - 0xF0) * 262144 + (b1 - 0x80) * 4096 + (b2 - 0x80) * 64 + (b3 - 0x80)
        if isCont b1 ∧ isCont b2 ∧ isCont b3 ∧ c ≥ 0x10000 ∧ c ≤ 0x10FFFF then (utf8Decode f r).map (c :: ·) else none
      | _ => none
    else none

/-- UTF-16 code units of a byte string; a trailing single byte is reported separately -/
def units16 (le : Bool) : List Nat → List Nat × Bool
  | a :: b :: rest => let (us, odd) := units16 le rest; ((if le then b * 256 + a else a * 256 + b) :: us, odd)
  | [_] => ([], true)
  | [] => ([], false)

/-- utf16Decoder.Transform's loop on code units: surrogate pairs are combined, an unpaired
    surrogate becomes U+FFFD (unicode.go: `utf16.DecodeRune`, `utf8.RuneLen(r) < 0`) -/
def utf16Units : List Nat → List Nat
  | [] => []
  | [u] => [if 0xD800 ≤ u ∧ u ≤ 0xDFFF then 0xFFFD else u]
  | u :: v :: rest =>
    if 0xD800 ≤ u ∧ u ≤ 0xDFFF then
      if 0xDC00 ≤ v ∧ v ≤ 0xDFFF then
        (if u ≤ 0xDBFF then 0x10000 + (u - 0xD800) * 1024 + (v - 0xDC00) else 0xFFFD) :: utf16Units rest
      else 0xFFFD :: utf16Units (v :: rest)
    else u :: utf16Units (v :: rest)

/-! golang.org/x/text/encoding/unicode utf8Decoder.Transform on ARBITRARY bytes: well-formed
    sequences are copied, every maximal ill-formed subpart (W3C / Unicode "best practice", not Go's
    one-byte rule) becomes one U+FFFD.  `utf8internal.First` / `AcceptRanges` as functions: -/

/-- sequence length announced by a lead byte; 0 = invalid starter (0x80..0xC1, 0xF5..0xFF) -/
def utf8Size (b0 : Nat) : Nat :=
  if 0xC2 ≤ b0 ∧ b0 ≤ 0xDF then 2 else if 0xE0 ≤ b0 ∧ b0 ≤ 0xEF then 3 else if 0xF0 ≤ b0 ∧ b0 ≤ 0xF4 then 4 else 0

/-- range of the SECOND byte (excludes over-long forms, surrogates and > U+10FFFF) -/
def utf8Accept (b0 : Nat) : Nat × Nat :=
  if b0 = 0xE0 then (0xA0, 0xBF) else if b0 = 0xED then (0x80, 0x9F)
  else if b0 = 0xF0 then (0x90, 0xBF) else if b0 = 0xF4 then (0x80, 0x8F) else (0x80, 0xBF)

def fffd : List Nat := [0xEF, 0xBF, 0xBD]

/-- the bytes are checked one after the other as far as they are there; at the first missing or
    unacceptable byte the bytes validated so far are one ill-formed subpart (unicode.go:163-208:
    the `atEOF` switch and the `handleInvalid` sizes 1/2/3 coincide with this) -/
def utf8Replace : Nat → List Nat → List Nat
  | 0, _ => []
  | _, [] => []
  | f+1, b0 :: rest =>
    if b0 < 0x80 then b0 :: utf8Replace f rest
    else if utf8Size b0 = 0 then fffd ++ utf8Replace f rest
    else
      match rest with
      | [] => fffd
      | b1 :: r1 =>
        if (utf8Accept b0).1 ≤ b1 ∧ b1 ≤ (utf8Accept b0).2 then
          if utf8Size b0 = 2 then b0 :: b1 :: utf8Replace f r1
          else match r1 with
            | [] => fffd
            | b2 :: r2 =>
              if isCont b2 then
                if utf8Size b0 = 3 then b0 :: b1 :: b2 :: utf8Replace f r2
                else match r2 with
                  | [] => fffd
                  | b3 :: r3 =>
                    if isCont b3 then b0 :: b1 :: b2 :: b3 :: utf8Replace f r3
                    else fffd ++ utf8Replace f r2
              else fffd ++ utf8Replace f r1
        else fffd ++ utf8Replace f rest

/-- `e.NewDecoder().String(bytes)` as the UTF-8 bytes of the Go string — total: the x/text decoders
    never fail, they substitute U+FFFD -/
def decodeText (e : Enc) (bytes : List Nat) : List Nat :=
  match e with
  | .utf8bom =>
    let body := match bytes with
      | 0xEF :: 0xBB :: 0xBF :: r => r
      | r => r
    utf8Replace (body.length + 1) body
  | .utf16bom =>
    let (le, body) := match bytes with
      | 0xFE :: 0xFF :: r => (false, r)
      | 0xFF :: 0xFE :: r => (true, r)
      | r => (true, r)                               -- UTF16(LittleEndian, UseBOM): LE unless a BOM says otherwise
    let (us, odd) := units16 le body
    (utf16Units us ++ (if odd then [0xFFFD] else [])).flatMap utf8Encode
  | .utf16le =>
    let (us, odd) := units16 true bytes
    (utf16Units us ++ (if odd then [0xFFFD] else [])).flatMap utf8Encode
  | .utf16be =>
    let (us, odd) := units16 false bytes
    (utf16Units us ++ (if odd then [0xFFFD] else [])).flatMap utf8Encode

/-! ### text framing: read.go:132 tryText, :153 tryTextLenPrefixed, :183 tryTextNull, :203 tryTextNullLen
    The framing result is the raw byte string handed to the text decoder + the new position. -/

/-- `d.BitsLeft() / 8` (Go integer division truncates towards zero) -/
def bytesLeft (bs : Bits) (pos : Nat) : Int := Int.tdiv ((bs.length : Int) - pos) 8

/-- TryBytesLen(n), n ≥ 0 -/
def tryBytesLen (bs : Bits) (pos n : Nat) : Res (List Nat) :=
  (tryBits bs pos (8 * n)).map byteVals

def tryTextFrame (bs : Bits) (pos : Nat) (nBytes : Int) : Res (List Nat) :=
  if nBytes < 0 then .err .other pos
  else if nBytes > bytesLeft bs pos then .err .other pos
  else tryBytesLen bs pos nBytes.toNat

/-- TryPeekFind(charBytes*8, charBytes*8, -1, v == 0): offset (in bits) of the first all-zero unit
    on the grid pos + k·unit, `none` if the input ends first -/
def findZeroUnit (bs : Bits) (unit : Nat) : Nat → Nat → Option Nat
  | 0, _ => none
  | fuel+1, off =>
    if off + unit ≤ bs.length then
      if ofBitsBE (slice bs off unit) = 0 then some off else findZeroUnit bs unit fuel (off + unit)
    else none

/-- the same search walking the remaining bits instead of re-slicing the whole input (linear; what
    the driver runs — inputs of several hundred thousand bits).  `findZeroFrom_eq` (Proofs/C02Text):
    `findZeroFrom unit fuel (bs.drop off) off = findZeroUnit bs unit fuel off`. -/
def findZeroFrom (unit : Nat) : Nat → Bits → Nat → Option Nat
  | 0, _, _ => none
  | fuel+1, rest, off =>
    if (rest.take unit).length = unit then
      if ofBitsBE (rest.take unit) = 0 then some off else findZeroFrom unit fuel (rest.drop unit) (off + unit)
    else none

def tryTextNullFrame (bs : Bits) (pos : Nat) (charBytes : Nat) : Res (List Nat) :=
  if charBytes < 1 then .err .other pos
  else
    match findZeroFrom (8 * charBytes) (bs.length + 1) (bs.drop pos) pos with
    | none => .err .eof pos                          -- TryPeekFind seeks back to start
    | some off =>
      let n := (off - pos) / 8 + charBytes
      (tryBytesLen bs pos n).map fun b => b.take (n - charBytes)

def tryTextNullLenFrame (bs : Bits) (pos : Nat) (fixedBytes : Int) : Res (List Nat) :=
  if fixedBytes < 0 then .err .other pos
  else if fixedBytes > bytesLeft bs pos then .err .other pos
  else (tryBytesLen bs pos fixedBytes.toNat).map fun b => b.takeWhile (· ≠ 0)

def tryTextLenPrefixedFrame (bs : Bits) (pos : Nat) (prefixLenBytes fixedBytes : Int) : Res (List Nat) :=
  if prefixLenBytes < 0 then .err .other pos
  else if fixedBytes > bytesLeft bs pos then .err .other pos
  else
    -- the prefix is read big-endian whatever the decoder's endian; a failure here does NOT restore the position
    (tryUintBits bs pos (prefixLenBytes.toNat * 8)).bind fun lenBytes p =>
      let readBytes : Int := if fixedBytes ≠ -1 then fixedBytes - prefixLenBytes else lenBytes
      -- lenBytes = min(lenBytes, uint64(readBytes))
      let lenBytes : Nat := if fixedBytes ≠ -1 then (if readBytes < 0 then lenBytes else min lenBytes readBytes.toNat) else lenBytes
      if readBytes < 0 then .panic "makeslice" p     -- TryBytesLen(negative): make([]byte, n)
      else
        match tryBytesLen bs p readBytes.toNat with
        | .ok b p' => .ok (b.take lenBytes) p'
        | .err e _ => .err e pos                     -- d.SeekAbs(p)
        | r => r

end FqModel.Scalar
