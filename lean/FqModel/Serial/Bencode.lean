import FqModel.Serial.Common
/-
  C16 — bencode: model of format/bencode/bencode.go (`decodeStrIntUntil` lines 47-62, `decodeBencodeValue`
  lines 64-100) fused with `_bencode_torepr` (format/bencode/bencode.jq), and an encoder over all wire forms
  the decoder accepts (optional `+`, `-0`, leading zeros in integers and in string lengths — everything
  `strconv.ParseInt(s, 10, 64)` takes within the 21-byte search window).
-/
namespace FqModel.Serial.Bencode
open FqModel.Serial

/-- `d.PeekFindByte(b, 21)` → `TryPeekFind(8, 8, 21*8, …)` (pkg/decode/decode.go:495-539): look at up to `max`
    bytes; running off the end of the buffer first is an IO error, `max` bytes without a hit is "not found" (-1) -/
def findByte (t : UInt8) : Nat → Bytes → Res (Option Nat)
  | 0, _ => .ok none
  | _+1, [] => .err .eof
  | n+1, x :: xs =>
    if x = t then .ok (some 0) else
    match findByte t n xs with
    | .ok (some i) => .ok (some (i + 1))
    | r => r

def isDigit (c : UInt8) : Bool := 0x30 ≤ c && c ≤ 0x39

/-- `strconv.ParseUint(s, 10, 64)` without the 64-bit cut-off (the caller's range check subsumes it) -/
def parseDigits : Bytes → Nat → Option Nat
  | [], acc => some acc
  | c :: r, acc => if isDigit c then parseDigits r (acc * 10 + (c.toNat - 0x30)) else none

/-- `strconv.ParseInt(s, 10, 64)` -/
def parseInt (s : Bytes) : Option Int :=
  match s with
  | [] => none
  | c :: r =>
    let (neg, ds) := if c = 0x2b then (false, r) else if c = 0x2d then (true, r) else (false, s)
    if ds.isEmpty then none else
    match parseDigits ds 0 with
    | none => none
    | some un =>
      if !neg && un ≥ 2^63 then none
      else if neg && un > 2^63 then none
      else some (if neg then -(un : Int) else un)

/-- `decodeStrIntUntil(b)`: the number and the input positioned AT the terminator -/
def strIntUntil (t : UInt8) (bs : Bytes) : Res (Int × Bytes) :=
  match findByte t 21 bs with
  | .err e => .err e
  | .ok none => .err .fatal                       -- PeekFindByte yields -1/8 = 0 (so the `i == -1` test is dead code),
                                                  -- s = "" and strconv.ParseInt("") fails: d.Fatalf("decodeStrIntUntil: %q: %s")
  | .ok (some i) =>
    match parseInt (bs.take i) with
    | none => .err .fatal                          -- d.Fatalf("decodeStrIntUntil: %q: %s")
    | some n => .ok (n, bs.drop i)

def decT : Nat → Bytes → Res (V × Bytes)
  | 0, _ => .err .fuel
  | _+1, [] => .err .eof                            -- d.FieldUTF8("type", 1)
  | fuel+1, b :: bs =>
    if isDigit b then
      -- d.SeekRel(-8); length; separator (the ':' just found, the assert cannot fail); value
      match strIntUntil 0x3a (b :: bs) with
      | .err e => .err e
      | .ok (n, r) =>
        match readN n.toNat (r.drop 1) with
        | .err e => .err e
        | .ok (x, r') => .ok (.str (sanitizeX x), r')
    else if b = 0x69 then                           -- 'i'
      match strIntUntil 0x65 bs with
      | .err e => .err e
      | .ok (n, r) => .ok (.int n, r.drop 1)        -- d.FieldUTF8("end", 1, d.StrAssert("e"))
    else if b = 0x6c then                           -- 'l'
      match decUntil 0x65 (decT fuel) fuel bs with
      | .err e => .err e
      | .ok (vs, r) => .ok (.arr vs, r.drop 1)
    else if b = 0x64 then                           -- 'd'
      match decPairsUntil 0x65 (decT fuel) fuel bs with
      | .err e => .err e
      | .ok (kvs, r) => .ok (.map kvs, r.drop 1)
    else .err .fatal                                -- d.Fatalf("unknown type")

def decode (bs : Bytes) : Res (V × Bytes) := withRepr (decT (bs.length + 1) bs)

/-! ### encoder -/

/-- decimal digits, least significant first (`f` = fuel ≥ number of digits) -/
def decRev : Nat → Nat → Bytes
  | 0, _ => []
  | f+1, n => if n < 10 then [UInt8.ofNat (0x30 + n)] else UInt8.ofNat (0x30 + n % 10) :: decRev f (n / 10)

def decStr (n : Nat) : Bytes := (decRev (n + 1) n).reverse

inductive Sign | none | plus | minus
deriving DecidableEq, Repr, Inhabited

inductive W where
  | int (sg : Sign) (zeros : Nat) (mag : Nat)       -- i [+|-] 0…0 <mag> e
  | str (zeros : Nat) (s : Bytes)                   -- 0…0 <len> : <bytes>
  | list (xs : List W)
  | dict (kvs : List (W × W))
deriving Repr, Inhabited

def signBytes : Sign → Bytes
  | .none => []
  | .plus => [0x2b]
  | .minus => [0x2d]

def intText (sg : Sign) (zeros mag : Nat) : Bytes := signBytes sg ++ List.replicate zeros 0x30 ++ decStr mag
def lenText (zeros n : Nat) : Bytes := List.replicate zeros 0x30 ++ decStr n

def keyBytes : W → Option Bytes
  | .str _ s => some s
  | _ => none

mutual
def valid : W → Bool
  | .int sg z m => decide ((intText sg z m).length ≤ 20) && (if sg = .minus then decide (m ≤ 2^63) else decide (m < 2^63))
  | .str z s => decide ((lenText z s.length).length ≤ 20) && decide (s.length < 2^63) && validUTF8 s
  | .list xs => validL xs
  | .dict kvs => validKV kvs && nodupB (keysOf kvs)
def validL : List W → Bool
  | [] => true
  | x :: xs => valid x && validL xs
def validKV : List (W × W) → Bool
  | [] => true
  | (k, v) :: r => (keyBytes k).isSome && valid k && valid v && validKV r
def keysOf : List (W × W) → List Bytes
  | [] => []
  | (k, _) :: r => (match keyBytes k with | some b => b | none => []) :: keysOf r
end

mutual
def value : W → V
  | .int sg _ m => .int (if sg = .minus then -(m : Int) else m)
  | .str _ s => .str s
  | .list xs => .arr (valueL xs)
  | .dict kvs => .map (valueKV kvs)
def valueL : List W → List V
  | [] => []
  | x :: xs => value x :: valueL xs
def valueKV : List (W × W) → List (V × V)
  | [] => []
  | (k, v) :: r => (value k, value v) :: valueKV r
end

mutual
def encode : W → Bytes
  | .int sg z m => 0x69 :: (intText sg z m ++ [0x65])
  | .str z s => lenText z s.length ++ 0x3a :: s
  | .list xs => 0x6c :: (encodeL xs ++ [0x65])
  | .dict kvs => 0x64 :: (encodeKV kvs ++ [0x65])
def encodeL : List W → Bytes
  | [] => []
  | x :: xs => encode x ++ encodeL xs
def encodeKV : List (W × W) → Bytes
  | [] => []
  | (k, v) :: r => encode k ++ encode v ++ encodeKV r
end

mutual
/-- canonical wire tree; only integers, strings, lists and string-keyed dictionaries are bencode values -/
def canon : V → W
  | .int i => if i < 0 then .int .minus 0 (-i).toNat else .int .none 0 i.toNat
  | .str s => .str 0 s
  | .arr xs => .list (canonL xs)
  | .map kvs => .dict (canonKV kvs)
  | _ => .list []
def canonL : List V → List W
  | [] => []
  | x :: xs => canon x :: canonL xs
def canonKV : List (V × V) → List (W × W)
  | [] => []
  | (k, v) :: r => (canon k, canon v) :: canonKV r
end

def vKeyBytes : V → Option Bytes
  | .str s => some s
  | _ => none

mutual
def inDomain : V → Bool
  | .int i => decide (-(2^63) ≤ i) && decide (i < 2^63)
  | .str s => decide (s.length < 2^63) && validUTF8 s
  | .arr xs => inDomainL xs
  | .map kvs => inDomainKV kvs && nodupB (vKeysOf kvs)
  | _ => false
def inDomainL : List V → Bool
  | [] => true
  | x :: xs => inDomain x && inDomainL xs
def inDomainKV : List (V × V) → Bool
  | [] => true
  | (k, v) :: r => (vKeyBytes k).isSome && inDomain k && inDomain v && inDomainKV r
def vKeysOf : List (V × V) → List Bytes
  | [] => []
  | (k, _) :: r => (match vKeyBytes k with | some b => b | none => []) :: vKeysOf r
end

end FqModel.Serial.Bencode
