import FqModel.Serial.Common
/-
  C16 — asn1_ber: model of format/asn1/asn1_ber.go (`decodeLength` 117-129, `decodeTagNumber` 131-139,
  `decodeASN1BERValue` 141-407) fused with `_asn1_ber_torepr` (asn1_ber.jq), and an encoder over the wire
  forms: short / long (1..8 length octets, also non-minimal) definite lengths, the indefinite form with its
  end-of-contents marker, redundant sign octets of INTEGER, any non-zero octet for TRUE.

  Quirks kept (AS IT IS):
  * `decodeLength` returns 0 for the indefinite form AND for a definite length of zero, and the caller treats
    0 as "indefinite" (known finding `asn1-ber-zero-length`): an empty SEQUENCE `30 00` expects an
    end-of-contents marker, an empty OCTET STRING / string `04 00` is "primitive with indefinite length";
    only NULL is special-cased;
  * `d.LimitedFn(l, …)` limits the reads to `l` bits but then continues after the LAST BIT READ, not after
    `l` bits: unread content flows back to the enclosing level;
  * `tag == sequence/set` is tested without the class, so a primitive [16] / [17] of any class is looped over
    like a constructed value;
  * `decodeTagNumber` keeps the 0x1f marker as the high bits of a high tag number;
  * a non-universal PRIMITIVE value has no `constructed` field, so `_asn1_ber_torepr` raises (`reprFails`).
  Outside the model (`unmodelled`): BIT STRING, OBJECT IDENTIFIER, EXTERNAL, REAL, constructed strings and
  other constructed universal types, length-of-length above 8.
-/
namespace FqModel.Serial.Ber
open FqModel.Serial

/-- a value on which the shared `torepr` raises a jq error (a map with a non-string key): stands for
    `null | map(…)` = "cannot iterate over null" of a non-universal primitive -/
def reprFails : V := .map [(.null, .null)]

/-- `decodeTagNumber` after the 5 tag bits were all ones: `v = v<<7 | d.U7()` while the more-bit is set -/
def readHighTag : Nat → Nat → Bytes → Res (Nat × Bytes)
  | 0, _, _ => .err .fuel
  | _+1, _, [] => .err .eof
  | f+1, v, b :: r =>
    let v' := v * 128 + b.toNat % 128
    if b.toNat ≥ 128 then readHighTag f v' r else .ok (v', r)

/-- `decodeLength`: the length and whether the octet was the indefinite form 0x80.  The Go function returns
    only the number, 0 for the indefinite form (and so, as it is, also for a definite zero). -/
def decodeLength (bs : Bytes) : Res (Nat × Bool × Bytes) :=
  match bs with
  | [] => .err .eof
  | n :: r =>
    if n.toNat ≥ 128 then
      let m := n.toNat % 128
      if m = 0 then .ok (0, true, r)
      else if m = 127 then .err .fatal                      -- d.Errorf("length 127 reserved")
      else if m > 8 then .err .fatal                        -- d.U(m*8) with more than 64 bits
      else
        match readU m r with
        | .ok (l, r') => .ok (l, false, r')
        | .err e => .err e
    else .ok (n.toNat, false, r)

/-- UTF8String, NumericString, PrintableString, TeletexString, VideotexString, IA5String, UTCTime,
    VisibleString, GeneralString: read with `d.FieldUTF8` -/
def isStrTag (t : Nat) : Bool :=
  t = 0x0c || t = 0x12 || t = 0x13 || t = 0x14 || t = 0x15 || t = 0x16 || t = 0x17 || t = 0x1a || t = 0x1b

/-- `for !d.End() { if indefinite && peek16 == 0 {break}; object }` on the limited buffer -/
def decChildren (dec : Bytes → Res (V × Bytes)) (indef : Bool) : Nat → Bytes → Res (List V × Bytes)
  | 0, _ => .err .fuel
  | _+1, [] => .ok ([], [])                                -- d.End()
  | lf+1, b :: bs =>
    let step : Res (List V × Bytes) :=
      match dec (b :: bs) with
      | .err e => .err e
      | .ok (v, r) =>
        match decChildren dec indef lf r with
        | .err e => .err e
        | .ok (vs, r') => .ok (v :: vs, r')
    if indef then
      match bs with
      | [] => .err .eof                                     -- d.PeekUintBits(16) with one byte left
      | b2 :: _ => if b = 0 ∧ b2 = 0 then .ok ([], b :: bs) else step   -- end-of-contents ahead: break
    else step

/-- the `switch` inside `d.LimitedFn` for a primitive universal value; `sub` is the limited buffer -/
def decPrimitive (tag length : Nat) (sub : Bytes) : Res (V × Bytes) :=
  if tag = 0 then .ok (.null, sub)                         -- end_of_content: no value field
  else if tag = 1 then
    match readU 1 sub with
    | .err e => .err e
    | .ok (b, r) => .ok (.bool (b != 0), r)
  else if tag = 2 then
    match readU length sub with
    | .err e => .err e
    | .ok (u, r) => .ok (.int (toSigned (8 * length) u), r)
  else if tag = 4 ∨ tag = 0x18 then
    match readN length sub with
    | .err e => .err e
    | .ok (x, r) => .ok (.str x, r)                         -- raw field: the bytes as they are
  else if tag = 5 then .ok (.null, sub)
  else if tag = 7 then .ok (.null, sub)                    -- object_descriptor: nothing is read
  else if isStrTag tag then
    match readN length sub with
    | .err e => .err e
    | .ok (x, r) => .ok (.str (sanitizeX x), r)
  else if tag = 3 ∨ tag = 6 ∨ tag = 8 ∨ tag = 9 then .err .unmodelled
  else .ok (.str sub, [])                                   -- default: d.FieldRawLen("value", l)

/-- everything after identifier and length octets (asn1_ber.go:157-405); `dec` decodes a nested value.
    `fix = false`: the code as it is (`length == 0` means indefinite); `fix = true`: the repair (only the
    0x80 octet means indefinite) -/
def decBody (fix : Bool) (dec : Bytes → Res (V × Bytes)) (cls form tag length : Nat) (isIndef : Bool) (r2 : Bytes) :
    Res (V × Bytes) :=
  let indef := if fix then isIndef else decide (length = 0)
  if indef = true ∧ (cls ≠ 0 ∨ tag ≠ 5) ∧ form = 0 then .err .fatal   -- "primitive with indefinite length"
  else
    -- d.LimitedFn(l, …): l = BitsLeft for "indefinite", else length*8 (must lie inside the buffer)
    match (if indef then Res.ok (r2, ([] : Bytes)) else readN length r2) with
    | .err e => .err e
    | .ok (sub, after) =>
      let body : Res (V × Bytes) :=
        if form = 1 ∨ tag = 16 ∨ tag = 17 then
          match decChildren dec indef (sub.length + 1) sub with
          | .err e => .err e
          | .ok (vs, s1) =>
            match (if indef then readN 2 s1 else .ok ([], s1)) with    -- d.FieldU16("end_marker")
            | .err e => .err e
            | .ok (_, s2) =>
              if cls = 0 ∧ tag ≠ 16 ∧ tag ≠ 17 then .err .unmodelled  -- constructed string & co.
              else .ok (.arr vs, s2)
        else if cls = 0 then decPrimitive tag length sub
        else .ok (reprFails, [])                      -- d.FieldRawLen("value", l); torepr raises
      match body with
      | .err e => .err e
      | .ok (v, unread) => .ok (v, unread ++ after)

/-- the tag number given the 5 tag bits -/
def readTag (t5 : Nat) (r : Bytes) : Res (Nat × Bytes) :=
  if t5 = 31 then readHighTag (r.length + 1) 31 r else .ok (t5, r)

/-- `decodeASN1BERValue` -/
def decV (fix : Bool) : Nat → Bytes → Res (V × Bytes)
  | 0, _ => .err .fuel
  | _+1, [] => .err .eof                                    -- d.FieldU2("class")
  | fuel+1, b0 :: r =>
    match readTag (b0.toNat % 32) r with
    | .err e => .err e
    | .ok (tag, r1) =>
      match decodeLength r1 with
      | .err e => .err e
      | .ok (length, isIndef, r2) =>
        decBody fix (decV fix fuel) (b0.toNat / 64) (b0.toNat / 32 % 2) tag length isIndef r2

/-! ### extended executable model: constructed strings (X.690 8.7.3), BIT STRING with no unused bits

  `decVX` is `decV` plus the two accumulators `decodeASN1BERValue` threads through the recursion:
  `bib` (a `*bitio.Buffer`: the outermost constructed BIT/OCTET STRING creates it, every primitive universal
  BIT/OCTET STRING below appends its value) and `sb` (a `*strings.Builder`, same for the character strings).
  `none` = nil pointer.  A buffer created by a node is local to that call; a buffer that was passed in is shared,
  so what a subtree appends is visible to the caller.  The theorems of Props/C16.lean are about `decV`; the driver
  uses `decVX` and checks on every case that the two agree wherever `decV` is defined (not `unmodelled`). -/

structure Acc where
  bib : Option Bytes
  sb : Option Bytes
deriving Inhabited

def decChildrenX (dec : Acc → Bytes → Res (V × Acc × Bytes)) (indef : Bool) (form tag : Nat) :
    Nat → Acc → Bytes → Res (List V × Acc × Bytes)
  | 0, _, _ => .err .fuel
  | _+1, acc, [] => .ok ([], acc, [])
  | lf+1, acc, b :: bs =>
    let step : Res (List V × Acc × Bytes) :=
      -- asn1_ber.go:189-207: the first constructed string on the way down creates its buffer
      let acc1 : Acc :=
        if form = 1 ∧ acc.bib.isNone ∧ acc.sb.isNone then
          if tag = 3 ∨ tag = 4 then { acc with bib := some [] }
          else if isStrTag tag then { acc with sb := some [] }
          else acc
        else acc
      match dec acc1 (b :: bs) with
      | .err e => .err e
      | .ok (v, acc2, r) =>
        match decChildrenX dec indef form tag lf acc2 r with
        | .err e => .err e
        | .ok (vs, acc3, r') => .ok (v :: vs, acc3, r')
    if indef then
      match bs with
      | [] => .err .eof
      | b2 :: _ => if b = 0 ∧ b2 = 0 then .ok ([], acc, b :: bs) else step
    else step

def decPrimitiveX (acc : Acc) (tag length : Nat) (sub : Bytes) : Res (V × Acc × Bytes) :=
  let app (a : Option Bytes) (x : Bytes) : Option Bytes := a.map (· ++ x)
  if tag = 3 then
    match readU 1 sub with
    | .err e => .err e
    | .ok (unused, r) =>
      if unused > 7 then .err .fatal
      else if unused ≠ 0 then .err .unmodelled              -- a value that is not a whole number of bytes
      else
        match readN (length - 1) r with
        | .err e => .err e
        | .ok (x, r') => .ok (.str x, { acc with bib := app acc.bib x }, r')
  else if tag = 4 then
    match readN length sub with
    | .err e => .err e
    | .ok (x, r) => .ok (.str x, { acc with bib := app acc.bib x }, r)
  else if isStrTag tag then
    match readN length sub with
    | .err e => .err e
    | .ok (x, r) => .ok (.str (sanitizeX x), { acc with sb := app acc.sb (sanitizeX x) }, r)
  else
    match decPrimitive tag length sub with
    | .err e => .err e
    | .ok (v, r) => .ok (v, acc, r)

def decBodyX (fix : Bool) (dec : Acc → Bytes → Res (V × Acc × Bytes)) (acc : Acc) (cls form tag length : Nat)
    (isIndef : Bool) (r2 : Bytes) : Res (V × Acc × Bytes) :=
  let indef := if fix then isIndef else decide (length = 0)
  if indef = true ∧ (cls ≠ 0 ∨ tag ≠ 5) ∧ form = 0 then .err .fatal
  else
    match (if indef then Res.ok (r2, ([] : Bytes)) else readN length r2) with
    | .err e => .err e
    | .ok (sub, after) =>
      let body : Res (V × Acc × Bytes) :=
        if form = 1 ∨ tag = 16 ∨ tag = 17 then
          match decChildrenX dec indef form tag (sub.length + 1) acc sub with
          | .err e => .err e
          | .ok (vs, accL, s1) =>
            match (if indef then readN 2 s1 else .ok ([], s1)) with
            | .err e => .err e
            | .ok (_, s2) =>
              -- what the caller sees of the buffers: only those it passed in
              let accOut : Acc := { bib := if acc.bib.isSome then accL.bib else none,
                                    sb := if acc.sb.isSome then accL.sb else none }
              if cls = 0 ∧ tag ≠ 16 ∧ tag ≠ 17 then
                -- asn1_ber.go:214-243: the `value` field of a constructed string (no field: torepr gives null)
                let v : V :=
                  if form = 1 ∧ (tag = 3 ∨ tag = 4) then (match accL.bib with | some x => .str x | none => .null)
                  else if form = 1 ∧ isStrTag tag then (match accL.sb with | some x => .str x | none => .null)
                  else .null
                .ok (v, accOut, s2)
              else .ok (.arr vs, accOut, s2)
        else if cls = 0 then decPrimitiveX acc tag length sub
        else .ok (reprFails, acc, [])
      match body with
      | .err e => .err e
      | .ok (v, acc', unread) => .ok (v, acc', unread ++ after)

def decVX (fix : Bool) : Nat → Acc → Bytes → Res (V × Acc × Bytes)
  | 0, _, _ => .err .fuel
  | _+1, _, [] => .err .eof
  | fuel+1, acc, b0 :: r =>
    match readTag (b0.toNat % 32) r with
    | .err e => .err e
    | .ok (tag, r1) =>
      match decodeLength r1 with
      | .err e => .err e
      | .ok (length, isIndef, r2) =>
        decBodyX fix (decVX fix fuel) acc (b0.toNat / 64) (b0.toNat / 32 % 2) tag length isIndef r2

def dropAcc (r : Res (V × Acc × Bytes)) : Res (V × Bytes) :=
  match r with
  | .ok (v, _, rest) => .ok (v, rest)
  | .err e => .err e

def decodeX (bs : Bytes) : Res (V × Bytes) := withRepr (dropAcc (decVX false (bs.length + 1) ⟨none, none⟩ bs))
def decodeXFixed (bs : Bytes) : Res (V × Bytes) := withRepr (dropAcc (decVX true (bs.length + 1) ⟨none, none⟩ bs))

/-- `fq -d asn1_ber torepr` -/
def decode (bs : Bytes) : Res (V × Bytes) := withRepr (decV false (bs.length + 1) bs)
/-- with a definite length of zero told apart from the indefinite form -/
def decodeFixed (bs : Bytes) : Res (V × Bytes) := withRepr (decV true (bs.length + 1) bs)

/-! ### encoder -/

inductive LenForm | short | long (m : Nat)
deriving DecidableEq, Repr, Inhabited

inductive W where
  | bool (lf : LenForm) (raw : UInt8)
  | int (lf : LenForm) (i : Int) (n : Nat)               -- n content octets (redundant sign octets allowed)
  | octets (lf : LenForm) (b : Bytes)
  | null (lf : LenForm)
  | str (tag : Nat) (lf : LenForm) (s : Bytes)
  | seq (set : Bool) (lf : LenForm) (xs : List W)        -- definite length
  | seqI (set : Bool) (xs : List W)                      -- indefinite length, end-of-contents marker
  | tagged (cls tag : Nat) (lf : LenForm) (xs : List W)  -- constructed, class 1..3, tag < 31
  | taggedI (cls tag : Nat) (xs : List W)
deriving Repr, Inhabited

def byte (n : Nat) : UInt8 := UInt8.ofNat n

def encLen : LenForm → Nat → Bytes
  | .short, n => [byte n]
  | .long m, n => byte (0x80 + m) :: toBE m n

def lenOk : LenForm → Nat → Bool
  | .short, n => decide (n < 128)
  | .long m, n => decide (1 ≤ m) && decide (m ≤ 8) && decide (n < 256 ^ m)

mutual
def encode : W → Bytes
  | .bool lf raw => byte 0x01 :: (encLen lf 1 ++ [raw])
  | .int lf i n => byte 0x02 :: (encLen lf n ++ toBE n (ofSigned (8 * n) i))
  | .octets lf b => byte 0x04 :: (encLen lf b.length ++ b)
  | .null lf => byte 0x05 :: encLen lf 0
  | .str tag lf s => byte tag :: (encLen lf s.length ++ s)
  | .seq set lf xs => byte (if set then 0x31 else 0x30) :: (encLen lf (encodeL xs).length ++ encodeL xs)
  | .seqI set xs => byte (if set then 0x31 else 0x30) :: byte 0x80 :: (encodeL xs ++ [0, 0])
  | .tagged cls tag lf xs => byte (cls * 64 + 32 + tag) :: (encLen lf (encodeL xs).length ++ encodeL xs)
  | .taggedI cls tag xs => byte (cls * 64 + 32 + tag) :: byte 0x80 :: (encodeL xs ++ [0, 0])
def encodeL : List W → Bytes
  | [] => []
  | x :: xs => encode x ++ encodeL xs
end

mutual
/-- zero-length definite forms are NOT valid wire trees of the as-is decoder (known finding) except NULL -/
def valid : W → Bool
  | .bool lf _ => lenOk lf 1
  | .int lf i n => lenOk lf n && decide (1 ≤ n) && decide (-(2 ^ (8 * n - 1)) ≤ i) && decide (i < 2 ^ (8 * n - 1))
  | .octets lf b => lenOk lf b.length && decide (1 ≤ b.length)
  | .null lf => lenOk lf 0
  | .str tag lf s => isStrTag tag && lenOk lf s.length && decide (1 ≤ s.length) && validUTF8 s
  | .seq _ lf xs => lenOk lf (encodeL xs).length && decide (1 ≤ (encodeL xs).length) && validL xs
  | .seqI _ xs => validL xs
  | .tagged cls tag lf xs =>
    decide (1 ≤ cls) && decide (cls ≤ 3) && decide (tag < 31) && lenOk lf (encodeL xs).length
      && decide (1 ≤ (encodeL xs).length) && validL xs
  | .taggedI cls tag xs => decide (1 ≤ cls) && decide (cls ≤ 3) && decide (tag < 31) && validL xs
def validL : List W → Bool
  | [] => true
  | x :: xs => valid x && validL xs
end

mutual
def value : W → V
  | .bool _ raw => .bool (raw.toNat != 0)
  | .int _ i _ => .int i
  | .octets _ b => .str b
  | .null _ => .null
  | .str _ _ s => .str s
  | .seq _ _ xs => .arr (valueL xs)
  | .seqI _ xs => .arr (valueL xs)
  | .tagged _ _ _ xs => .arr (valueL xs)
  | .taggedI _ _ xs => .arr (valueL xs)
def valueL : List W → List V
  | [] => []
  | x :: xs => value x :: valueL xs
end

end FqModel.Serial.Ber
