import FqModel.Serial.Common
/-
  C16 — bson: model of format/bson/bson.go `decodeBSONDocument` (lines 71-134) fused with `_bson_torepr`
  (format/bson/bson.jq), and an encoder over the wire alternatives the decoder accepts.

  Quirks kept:
  * a string (0x02) and javascript (0x0d) value is read with `d.FieldUTF8NullFixedLen("value", length)`:
    `length` bytes are consumed but the text is CUT AT THE FIRST NUL (known finding `bson-string-embedded-nul`:
    bson strings are length-prefixed and may contain U+0000);
  * the document terminator is read with `d.UintValidate(0)`, which only annotates: any byte is accepted;
  * array element names are ignored by `_bson_torepr`; a boolean is `.value != 0` (any non-zero byte is true);
  * raw fields (binary, objectid, decimal128) come out of `.value | tovalue` as the bytes they are (a Go
    string with arbitrary bytes) — unlike msgpack/cbor byte strings, whose reducer uses `tostring`;
  * names and strings go through `d.FieldUTF8…` (leading U+FEFF dropped, ill-formed bytes replaced);
  * an unknown element type swallows the rest of the frame, after which the terminator read fails.
-/
namespace FqModel.Serial.Bson
open FqModel.Serial

/-- little-endian value -/
def leNat : Bytes → Nat
  | [] => 0
  | b :: r => b.toNat + 256 * leNat r

/-- `n` bytes little endian of `x` -/
def toLE : Nat → Nat → Bytes
  | 0, _ => []
  | n+1, x => UInt8.ofNat (x % 256) :: toLE n (x / 256)

/-- `d.FieldU32/S32/S64/U64/F64` with `d.Endian = LittleEndian` -/
def readLE (n : Nat) (bs : Bytes) : Res (Nat × Bytes) :=
  match readN n bs with
  | .ok (x, r) => .ok (leNat x, r)
  | .err e => .err e

/-- `d.FieldUTF8Null`: bytes up to the first NUL (searched to the end of the frame; none: IO error) -/
def splitNul : Bytes → Res (Bytes × Bytes)
  | [] => .err .eof
  | b :: r =>
    if b = 0 then .ok ([], r) else
    match splitNul r with
    | .ok (x, r') => .ok (b :: x, r')
    | .err e => .err e

/-- `bytes.IndexByte(bs, 0)` cut of `tryTextNullLen` -/
def cutNul : Bytes → Bytes
  | [] => []
  | b :: r => if b = 0 then [] else b :: cutNul r

/-- `d.FieldUTF8NullFixedLen("value", n)` -/
def readStrNulFixed (n : Nat) (bs : Bytes) : Res (V × Bytes) :=
  match readN n bs with
  | .err e => .err e
  | .ok (x, r) => .ok (.str (sanitizeX (cutNul x)), r)

/-- the `switch typ` of bson.go:79-122; `doc` decodes an embedded document -/
def decValue (doc : Bytes → Res (List (Bytes × V) × Bytes)) (t : UInt8) (bs : Bytes) : Res (V × Bytes) :=
  if t = 0x01 then
    match readLE 8 bs with
    | .err e => .err e
    | .ok (p, r) => .ok (.float p, r)
  else if t = 0x02 then
    match readLE 4 bs with
    | .err e => .err e
    | .ok (n, r) => readStrNulFixed n r
  else if t = 0x03 then
    match doc bs with
    | .err e => .err e
    | .ok (kvs, r) => .ok (.map (kvs.map (fun p => (V.str p.1, p.2))), r)
  else if t = 0x04 then
    match doc bs with
    | .err e => .err e
    | .ok (kvs, r) => .ok (.arr (kvs.map (fun p => p.2)), r)
  else if t = 0x05 then
    match readLE 4 bs with
    | .err e => .err e
    | .ok (n, r) =>
      match readN 1 r with                              -- subtype
      | .err e => .err e
      | .ok (_, r1) =>
        if toSigned 32 n < 0 then .err .fatal           -- FieldRawLen with a negative length
        else
          match readN n r1 with
          | .err e => .err e
          | .ok (x, r2) => .ok (.str x, r2)            -- `.value | tovalue` of a raw field: the bytes as they are
  else if t = 0x06 then .ok (.null, bs)                 -- undefined: no value field
  else if t = 0x07 then
    match readN 12 bs with
    | .err e => .err e
    | .ok (x, r) => .ok (.str x, r)
  else if t = 0x08 then
    match readLE 1 bs with
    | .err e => .err e
    | .ok (b, r) => .ok (.bool (b != 0), r)             -- `.value != 0`
  else if t = 0x09 ∨ t = 0x12 then
    match readLE 8 bs with
    | .err e => .err e
    | .ok (u, r) => .ok (.int (toSigned 64 u), r)
  else if t = 0x0a ∨ t = 0xff ∨ t = 0x7f then .ok (.null, bs)
  else if t = 0x0b then
    match splitNul bs with
    | .err e => .err e
    | .ok (v, r) =>
      match splitNul r with
      | .err e => .err e
      | .ok (_, r1) => .ok (.str (sanitizeX v), r1)
  else if t = 0x0d then
    match readLE 4 bs with
    | .err e => .err e
    | .ok (n, r) => if toSigned 32 n < 0 then .err .fatal else readStrNulFixed n r
  else if t = 0x10 then
    match readLE 4 bs with
    | .err e => .err e
    | .ok (u, r) => .ok (.int (toSigned 32 u), r)
  else if t = 0x11 then
    match readLE 8 bs with
    | .err e => .err e
    | .ok (u, r) => .ok (.int u, r)
  else if t = 0x13 then
    match readN 16 bs with
    | .err e => .err e
    | .ok (x, r) => .ok (.str x, r)
  else .ok (.str bs, [])                              -- default: d.FieldRawLen("value", d.BitsLeft())

/-- `for d.BitsLeft() > 8 { element }` inside the frame -/
def decElems (doc : Bytes → Res (List (Bytes × V) × Bytes)) : Nat → Bytes → Res (List (Bytes × V) × Bytes)
  | 0, _ => .err .fuel
  | _+1, [] => .ok ([], [])
  | _+1, [b] => .ok ([], [b])
  | lf+1, t :: b :: r =>
    match splitNul (b :: r) with                        -- d.FieldUTF8Null("name")
    | .err e => .err e
    | .ok (name, r1) =>
      match decValue doc t r1 with
      | .err e => .err e
      | .ok (v, r2) =>
        match decElems doc lf r2 with
        | .err e => .err e
        | .ok (kvs, r3) => .ok ((sanitizeX name, v) :: kvs, r3)

/-- `decodeBSONDocument`: size, frame of `size-4` bytes, elements, terminator -/
def decDoc : Nat → Bytes → Res (List (Bytes × V) × Bytes)
  | 0, _ => .err .fuel
  | fuel+1, bs =>
    match readLE 4 bs with
    | .err e => .err e
    | .ok (size, bs1) =>
      if toSigned 32 size < 4 then .err .fatal          -- FramedFn: nBits < 0
      else
        match readN (size - 4) bs1 with                 -- RangeFn: the frame must lie inside the buffer
        | .err e => .err e
        | .ok (frame, rest) =>
          match decElems (decDoc fuel) (frame.length + 1) frame with
          | .err e => .err e
          | .ok (kvs, f') =>
            match f' with
            | [] => .err .eof                           -- d.FieldU8("terminator") at the end of the frame
            | _ :: _ => .ok (kvs, rest)                 -- UintValidate(0) only annotates

/-- `fq -d bson torepr` -/
def decode (bs : Bytes) : Res (V × Bytes) :=
  withRepr (match decDoc (bs.length + 1) bs with
    | .err e => .err e
    | .ok (kvs, rest) => .ok (.map (kvs.map (fun p => (V.str p.1, p.2))), rest))

/-! ### encoder -/

inductive W where
  | double (bits : Nat)
  | str (s : Bytes)
  | doc (kvs : List (Bytes × W)) (term : UInt8)
  | arr (xs : List (Bytes × W)) (term : UInt8)     -- element names are free (ignored by torepr)
  | bin (subtype : UInt8) (b : Bytes)
  | undefined
  | objectid (b : Bytes)
  | bool (raw : UInt8)                            -- any non-zero byte is true
  | datetime (i : Int)
  | null
  | regexp (v opts : Bytes)
  | js (s : Bytes)
  | int32 (i : Int)
  | timestamp (u : Nat)
  | int64 (i : Int)
  | decimal128 (b : Bytes)
  | minkey
  | maxkey
deriving Repr, Inhabited

def noNul (s : Bytes) : Bool := !s.contains 0

/-- a cstring / string the decoder gives back unchanged: no NUL, fixed point of `d.FieldUTF8` -/
def textOk (s : Bytes) : Bool := noNul s && validUTF8 s

def typeByte : W → UInt8
  | .double _ => 0x01 | .str _ => 0x02 | .doc _ _ => 0x03 | .arr _ _ => 0x04 | .bin _ _ => 0x05
  | .undefined => 0x06 | .objectid _ => 0x07 | .bool _ => 0x08 | .datetime _ => 0x09 | .null => 0x0a
  | .regexp _ _ => 0x0b | .js _ => 0x0d | .int32 _ => 0x10 | .timestamp _ => 0x11 | .int64 _ => 0x12
  | .decimal128 _ => 0x13 | .minkey => 0xff | .maxkey => 0x7f

mutual
def encPayload : W → Bytes
  | .double b => toLE 8 b
  | .str s => toLE 4 (s.length + 1) ++ s ++ [0]
  | .doc kvs t => let body := encElems kvs; toLE 4 (body.length + 5) ++ body ++ [t]
  | .arr xs t => let body := encElems xs; toLE 4 (body.length + 5) ++ body ++ [t]
  | .bin st b => toLE 4 b.length ++ st :: b
  | .undefined => []
  | .objectid b => b
  | .bool raw => [raw]
  | .datetime i => toLE 8 (ofSigned 64 i)
  | .null => []
  | .regexp v o => v ++ 0 :: (o ++ [0])
  | .js s => toLE 4 (s.length + 1) ++ s ++ [0]
  | .int32 i => toLE 4 (ofSigned 32 i)
  | .timestamp u => toLE 8 u
  | .int64 i => toLE 8 (ofSigned 64 i)
  | .decimal128 b => b
  | .minkey => []
  | .maxkey => []
def encElems : List (Bytes × W) → Bytes
  | [] => []
  | (k, x) :: r => typeByte x :: (k ++ 0 :: (encPayload x ++ encElems r))
end

/-- a top-level bson document -/
def encode (kvs : List (Bytes × W)) (term : UInt8) : Bytes := encPayload (.doc kvs term)

def keysOfB : List (Bytes × W) → List Bytes
  | [] => []
  | (k, _) :: r => k :: keysOfB r

mutual
def valid : W → Bool
  | .double b => decide (b < 2^64)
  | .str s => textOk s && decide (s.length + 1 < 2^32)
  | .doc kvs _ => validKV kvs && nodupB (keysOfB kvs) && decide ((encElems kvs).length + 5 < 2^31)
  | .arr xs _ => validKV xs && decide ((encElems xs).length + 5 < 2^31)
  | .bin _ b => decide (b.length < 2^31)
  | .undefined => true
  | .objectid b => decide (b.length = 12)
  | .bool _ => true
  | .datetime i => decide (-(2^63) ≤ i) && decide (i < 2^63)
  | .null => true
  | .regexp v o => textOk v && noNul o
  | .js s => textOk s && decide (s.length + 1 < 2^31)
  | .int32 i => decide (-(2^31) ≤ i) && decide (i < 2^31)
  | .timestamp u => decide (u < 2^64)
  | .int64 i => decide (-(2^63) ≤ i) && decide (i < 2^63)
  | .decimal128 b => decide (b.length = 16)
  | .minkey => true
  | .maxkey => true
def validKV : List (Bytes × W) → Bool
  | [] => true
  | (k, x) :: r => textOk k && valid x && validKV r
end

mutual
def value : W → V
  | .double b => .float b
  | .str s => .str s
  | .doc kvs _ => .map (valueKV kvs)
  | .arr xs _ => .arr (valueL xs)
  | .bin _ b => .str b
  | .undefined => .null
  | .objectid b => .str b
  | .bool raw => .bool (raw.toNat != 0)
  | .datetime i => .int i
  | .null => .null
  | .regexp v _ => .str v
  | .js s => .str s
  | .int32 i => .int i
  | .timestamp u => .int u
  | .int64 i => .int i
  | .decimal128 b => .str b
  | .minkey => .null
  | .maxkey => .null
def valueKV : List (Bytes × W) → List (V × V)
  | [] => []
  | (k, x) :: r => (.str k, value x) :: valueKV r
def valueL : List (Bytes × W) → List V
  | [] => []
  | (_, x) :: r => value x :: valueL r
end

end FqModel.Serial.Bson
