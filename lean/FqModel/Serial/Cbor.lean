import FqModel.Serial.Common
/-
  C16 — cbor: model of format/cbor/cbor.go `decodeCBORValue` (lines 117-283) fused with `_cbor_torepr`
  (format/cbor/cbor.jq), and an encoder over ALL wire forms (argument in the initial byte / 1 / 2 / 4 / 8
  bytes; definite and indefinite lengths with arbitrary chunking; float16/32/64).

  Modelled AS IT IS (`fix = false`), including the known defect `cbor-indef-string-break`: the
  indefinite-length branches of majorTypeBytes / majorTypeUTF8 (cbor.go:130-150, 157-177) leave the loop at
  the 0xff break marker but never consume it (array and map do: `d.FieldU8("break")`, cbor.go:196, 219).
  `fix = true` is the one-line repair, kept so that the full round trip can be proved for it.
  The element loops of array/map are the REPAIRED ones of commit fa784167 (an indefinite container ends only
  at the break marker; `i >= count` is tested for definite lengths only).
-/
namespace FqModel.Serial.Cbor
open FqModel.Serial

/-! constants of cbor.go:51-111 (the regenerated copies are compared in Props/C16.lean) -/
def shortCountVariable8Bit : Nat := 24
def shortCountVariable16Bit : Nat := 25
def shortCountVariable32Bit : Nat := 26
def shortCountVariable64Bit : Nat := 27
def shortCountIndefinite : Nat := 31
def shortCountSpecialFalse : Nat := 20
def shortCountSpecialTrue : Nat := 21
def shortCountSpecialNull : Nat := 22
def shortCountSpecialUndefined : Nat := 23
def shortCountSpecialFloat16Bit : Nat := 25
def shortCountSpecialFloat32Bit : Nat := 26
def shortCountSpecialFloat64Bit : Nat := 27
def majorTypePositiveInt : Nat := 0
def majorTypeNegativeInt : Nat := 1
def majorTypeBytes : Nat := 2
def majorTypeUTF8 : Nat := 3
def majorTypeArray : Nat := 4
def majorTypeMap : Nat := 5
def majorTypeSematic : Nat := 6
def majorTypeSpecialFloat : Nat := 7
def breakMarker : UInt8 := 0xff

/-- the `[]byte` / `string` the Go function hands back to an enclosing indefinite string loop -/
def chunkOf (wantStr : Bool) : V → Option Bytes
  | .bytes b => if wantStr then none else some b
  | .str s => if wantStr then some s else none
  | _ => none

/-- `for d.PeekUintBits(8) != breakMarker { item }` of the indefinite bytes/utf8 branches: every item must
    have returned a `[]byte` (resp. `string`), i.e. be a DEFINITE string of the same major type
    (`ret = true`), else `d.Fatalf("non-bytes in bytes stream")`.  The break byte is not consumed. -/
def decChunks (dec : Bytes → Res (V × Bool × Bytes)) (wantStr : Bool) : Nat → Bytes → Res (List Bytes × Bytes)
  | 0, _ => .err .fuel
  | _+1, [] => .err .eof
  | lf+1, b :: bs =>
    if b = breakMarker then .ok ([], b :: bs) else
    match dec (b :: bs) with
    | .err e => .err e
    | .ok (v, ret, r) =>
      match (if ret then chunkOf wantStr v else none) with
      | none => .err .fatal
      | some c =>
        match decChunks dec wantStr lf r with
        | .err e => .err e
        | .ok (cs, r') => .ok (c :: cs, r')

def dropRet (r : Res (V × Bool × Bytes)) : Res (V × Bytes) :=
  match r with
  | .ok (v, _, rest) => .ok (v, rest)
  | .err e => .err e

/-- cbor.go:253-270: the argument ("count") of the initial byte; major type 7 never reads one -/
def readCount (typ sc : Nat) (bs : Bytes) : Res (Nat × Bytes) :=
  if typ = majorTypeSpecialFloat then .ok (sc, bs)
  else if sc = shortCountVariable8Bit then readU 1 bs
  else if sc = shortCountVariable16Bit then readU 2 bs
  else if sc = shortCountVariable32Bit then readU 4 bs
  else if sc = shortCountVariable64Bit then readU 8 bs
  else if sc = 28 ∨ sc = 29 ∨ sc = 30 then .err .fatal   -- d.Fatalf("incorrect shortCount")
  else .ok (sc, bs)

/-- the `d:` functions of `majorTypeMap` (cbor.go:118-250); `dec` decodes a nested value, `lf` is the
    loop fuel of the indefinite-length loops.
    result: (value, "the Go function returned a non-nil []byte/string", rest) -/
def runMajor (fix : Bool) (dec : Bytes → Res (V × Bool × Bytes)) (lf : Nat) (typ sc count : Nat) (bs1 : Bytes) :
    Res (V × Bool × Bytes) :=
  let elem : Bytes → Res (V × Bytes) := fun x => dropRet (dec x)
  /- after an indefinite string loop: the as-is code goes on WITHOUT reading the break -/
  let afterChunks (r : Bytes) : Bytes := if fix then r.drop 1 else r
  if typ = majorTypePositiveInt then .ok (.int count, false, bs1)
  else if typ = majorTypeNegativeInt then .ok (.int (-1 - (count : Int)), false, bs1)
  else if typ = majorTypeBytes then
    if sc = shortCountIndefinite then
      match decChunks dec false lf bs1 with
      | .err e => .err e
      | .ok (cs, r) => .ok (.bytes cs.flatten, false, afterChunks r)
    else if count ≥ 2^60 then .err .unmodelled          -- int64(count)*8 wraps in Go
    else
      match readN count bs1 with
      | .err e => .err e
      | .ok (x, r) => .ok (.bytes x, true, r)
  else if typ = majorTypeUTF8 then
    if sc = shortCountIndefinite then
      match decChunks dec true lf bs1 with
      | .err e => .err e
      | .ok (cs, r) => .ok (.str cs.flatten, false, afterChunks r)
    else if count ≥ 2^60 then .err .unmodelled
    else
      match readN count bs1 with
      | .err e => .err e
      | .ok (x, r) => .ok (.str (sanitizeX x), true, r)
  else if typ = majorTypeArray then
    if sc = shortCountIndefinite then
      match decUntil breakMarker elem lf bs1 with
      | .err e => .err e
      | .ok (vs, r) => .ok (.arr vs, false, r.drop 1)     -- d.FieldU8("break")
    else
      match decElems elem count bs1 with
      | .err e => .err e
      | .ok (vs, r) => .ok (.arr vs, false, r)
  else if typ = majorTypeMap then
    if sc = shortCountIndefinite then
      match decPairsUntil breakMarker elem lf bs1 with
      | .err e => .err e
      | .ok (kvs, r) => .ok (.map kvs, false, r.drop 1)
    else
      match decPairs elem count bs1 with
      | .err e => .err e
      | .ok (kvs, r) => .ok (.map kvs, false, r)
  else if typ = majorTypeSematic then
    -- d.FieldValueUint("tag", count); d.FieldStruct("value", …): a tagged item of the decode tree
    -- (`.value | tovalue` of it is the tree as JSON, not a JSON-like value: `torepr` answers `unmodelled`)
    match elem bs1 with
    | .err e => .err e
    | .ok (v, r) => .ok (.tagged count v, false, r)
  else
    -- majorTypeSpecialFloat, cbor.go:228-249
    if sc = shortCountSpecialFalse then .ok (.bool false, false, bs1)
    else if sc = shortCountSpecialTrue then .ok (.bool true, false, bs1)
    else if sc = shortCountSpecialFloat16Bit then
      match readU 2 bs1 with
      | .err e => .err e
      | .ok (p, r) => .ok (.float (widen16 p), false, r)
    else if sc = shortCountSpecialFloat32Bit then
      match readU 4 bs1 with
      | .err e => .err e
      | .ok (p, r) => .ok (.float (widen32 p), false, r)
    else if sc = shortCountSpecialFloat64Bit then
      match readU 8 bs1 with
      | .err e => .err e
      | .ok (p, r) => .ok (.float p, false, r)
    else .ok (.null, false, bs1)      -- null, undefined, 0..19, 24, 28..31: no `value` field => null

/-- `decodeCBORValue` (cbor.go:117-283) -/
def decT (fix : Bool) : Nat → Bytes → Res (V × Bool × Bytes)
  | 0, _ => .err .fuel
  | _+1, [] => .err .eof                                   -- d.FieldU3("major_type")
  | fuel+1, b :: bs =>
    match readCount (b.toNat / 32) (b.toNat % 32) bs with
    | .err e => .err e
    | .ok (count, bs1) => runMajor fix (decT fix fuel) fuel (b.toNat / 32) (b.toNat % 32) count bs1

/-- `fq -d cbor torepr` as the code is -/
def decode (bs : Bytes) : Res (V × Bytes) := withRepr (dropRet (decT false (bs.length + 1) bs))
/-- with the break of indefinite strings consumed -/
def decodeFixed (bs : Bytes) : Res (V × Bytes) := withRepr (dropRet (decT true (bs.length + 1) bs))

/-! ### encoder over all wire forms -/

/-- where the argument of the initial byte lives -/
inductive Head | direct | h8 | h16 | h32 | h64
deriving DecidableEq, Repr, Inhabited

inductive W where
  | int (h : Head) (i : Int)
  | bytes (h : Head) (b : Bytes)
  | bytesI (chunks : List (Head × Bytes))
  | str (h : Head) (s : Bytes)
  | strI (chunks : List (Head × Bytes))
  | arr (h : Head) (xs : List W)
  | arrI (xs : List W)
  | map (h : Head) (kvs : List (W × W))
  | mapI (kvs : List (W × W))
  | bool (b : Bool)
  | null
  | f16 (p : Nat)
  | f32 (p : Nat)
  | f64 (bits : Nat)
  | undefined                     -- 0xf7: no `value` field, torepr gives null
  | simple (n : Nat)              -- 0xe0+n, n < 20 (unassigned simple values): null as well
  | tag (h : Head) (t : Nat) (x : W)   -- semantic tag (major type 6)
deriving Repr, Inhabited

def headOk : Head → Nat → Bool
  | .direct, n => decide (n < 24)
  | .h8, n => decide (n < 2^8)
  | .h16, n => decide (n < 2^16)
  | .h32, n => decide (n < 2^32)
  | .h64, n => decide (n < 2^64)

def byte (n : Nat) : UInt8 := UInt8.ofNat n

def encHead (major : Nat) : Head → Nat → Bytes
  | .direct, n => [byte (major * 32 + n)]
  | .h8, n => byte (major * 32 + 24) :: toBE 1 n
  | .h16, n => byte (major * 32 + 25) :: toBE 2 n
  | .h32, n => byte (major * 32 + 26) :: toBE 4 n
  | .h64, n => byte (major * 32 + 27) :: toBE 8 n

def chunksOk (needUTF8 : Bool) : List (Head × Bytes) → Bool
  | [] => true
  | (h, c) :: r => headOk h c.length && decide (c.length < 2^60) && (!needUTF8 || validUTF8 c) && chunksOk needUTF8 r

def encChunks (major : Nat) : List (Head × Bytes) → Bytes
  | [] => []
  | (h, c) :: r => encHead major h c.length ++ c ++ encChunks major r

def catChunks : List (Head × Bytes) → Bytes
  | [] => []
  | (_, c) :: r => c ++ catChunks r

/-- the string a key turns into under torepr (none: not a string-like key) -/
def keyBytes : W → Option Bytes
  | .str _ s => some s
  | .strI cs => some (catChunks cs)
  | .bytes _ b => some (sanitizeG b)
  | .bytesI cs => some (sanitizeG (catChunks cs))
  | _ => none

mutual
def valid : W → Bool
  | .int h i => decide (-(2^64) ≤ i) && decide (i < 2^64) && headOk h (if i < 0 then (-1 - i).toNat else i.toNat)
  | .bytes h b => headOk h b.length && decide (b.length < 2^60)
  | .bytesI cs => chunksOk false cs
  | .str h s => headOk h s.length && decide (s.length < 2^60) && validUTF8 s
  | .strI cs => chunksOk true cs
  | .arr h xs => headOk h xs.length && validL xs
  | .arrI xs => validL xs
  | .map h kvs => headOk h kvs.length && validKV kvs && nodupB (keysOf kvs)
  | .mapI kvs => validKV kvs && nodupB (keysOf kvs)
  | .bool _ => true
  | .null => true
  | .f16 p => decide (p < 2^16)
  | .f32 p => decide (p < 2^32)
  | .f64 b => decide (b < 2^64)
  | .undefined => true
  | .simple n => decide (n < 20)
  | .tag h t x => headOk h t && valid x
def validL : List W → Bool
  | [] => true
  | x :: xs => valid x && validL xs
def validKV : List (W × W) → Bool
  | [] => true
  | (k, v) :: r => (keyBytes k).isSome && valid k && valid v && validKV r
def keysOf : List (W × W) → List Bytes
  | [] => []
  | (k, _) :: r => (match keyBytes k with | some b => b | none => []) :: keysOf r
end

mutual
/-- no indefinite-length byte/text string anywhere (the part of the domain the as-is code gets right) -/
def noIndefStr : W → Bool
  | .bytesI _ => false
  | .strI _ => false
  | .arr _ xs => noIndefStrL xs
  | .arrI xs => noIndefStrL xs
  | .map _ kvs => noIndefStrKV kvs
  | .mapI kvs => noIndefStrKV kvs
  | .tag _ _ x => noIndefStr x
  | _ => true
def noIndefStrL : List W → Bool
  | [] => true
  | x :: xs => noIndefStr x && noIndefStrL xs
def noIndefStrKV : List (W × W) → Bool
  | [] => true
  | (k, v) :: r => noIndefStr k && noIndefStr v && noIndefStrKV r
end

mutual
/-- no semantic tag anywhere: the wire trees whose `torepr` is a JSON-like value -/
def noTag : W → Bool
  | .tag _ _ _ => false
  | .arr _ xs => noTagL xs
  | .arrI xs => noTagL xs
  | .map _ kvs => noTagKV kvs
  | .mapI kvs => noTagKV kvs
  | _ => true
def noTagL : List W → Bool
  | [] => true
  | x :: xs => noTag x && noTagL xs
def noTagKV : List (W × W) → Bool
  | [] => true
  | (k, v) :: r => noTag k && noTag v && noTagKV r
end

mutual
def value : W → V
  | .int _ i => .int i
  | .bytes _ b => .bytes b
  | .bytesI cs => .bytes (catChunks cs)
  | .str _ s => .str s
  | .strI cs => .str (catChunks cs)
  | .arr _ xs => .arr (valueL xs)
  | .arrI xs => .arr (valueL xs)
  | .map _ kvs => .map (valueKV kvs)
  | .mapI kvs => .map (valueKV kvs)
  | .bool b => .bool b
  | .null => .null
  | .f16 p => .float (widen16 p)
  | .f32 p => .float (widen32 p)
  | .f64 b => .float b
  | .undefined => .null
  | .simple _ => .null
  | .tag _ t x => .tagged t (value x)
def valueL : List W → List V
  | [] => []
  | x :: xs => value x :: valueL xs
def valueKV : List (W × W) → List (V × V)
  | [] => []
  | (k, v) :: r => (value k, value v) :: valueKV r
end

mutual
def encode : W → Bytes
  | .int h i => if i < 0 then encHead 1 h (-1 - i).toNat else encHead 0 h i.toNat
  | .bytes h b => encHead 2 h b.length ++ b
  | .bytesI cs => byte 0x5f :: (encChunks 2 cs ++ [breakMarker])
  | .str h s => encHead 3 h s.length ++ s
  | .strI cs => byte 0x7f :: (encChunks 3 cs ++ [breakMarker])
  | .arr h xs => encHead 4 h xs.length ++ encodeL xs
  | .arrI xs => byte 0x9f :: (encodeL xs ++ [breakMarker])
  | .map h kvs => encHead 5 h kvs.length ++ encodeKV kvs
  | .mapI kvs => byte 0xbf :: (encodeKV kvs ++ [breakMarker])
  | .bool b => [byte (if b then 0xf5 else 0xf4)]
  | .null => [byte 0xf6]
  | .f16 p => byte 0xf9 :: toBE 2 p
  | .f32 p => byte 0xfa :: toBE 4 p
  | .f64 b => byte 0xfb :: toBE 8 b
  | .undefined => [byte 0xf7]
  | .simple n => [byte (0xe0 + n)]
  | .tag h t x => encHead 6 h t ++ encode x
def encodeL : List W → Bytes
  | [] => []
  | x :: xs => encode x ++ encodeL xs
def encodeKV : List (W × W) → Bytes
  | [] => []
  | (k, v) :: r => encode k ++ encode v ++ encodeKV r
end

/-! ### every in-domain value has a (smallest, definite) wire tree -/

def smallestHead (n : Nat) : Head :=
  if n < 24 then .direct else if n < 2^8 then .h8 else if n < 2^16 then .h16 else if n < 2^32 then .h32 else .h64

mutual
def canon : V → W
  | .null => .null
  | .bool b => .bool b
  | .int i => .int (smallestHead (if i < 0 then (-1 - i).toNat else i.toNat)) i
  | .float b => .f64 b
  | .str s => .str (smallestHead s.length) s
  | .bytes b => .bytes (smallestHead b.length) b
  | .arr xs => .arr (smallestHead xs.length) (canonL xs)
  | .map kvs => .map (smallestHead kvs.length) (canonKV kvs)
  | .tagged _ _ => .null
def canonL : List V → List W
  | [] => []
  | x :: xs => canon x :: canonL xs
def canonKV : List (V × V) → List (W × W)
  | [] => []
  | (k, v) :: r => (canon k, canon v) :: canonKV r
end

def vKeyBytes : V → Option Bytes
  | .str s => some s
  | .bytes b => some (sanitizeG b)
  | _ => none

mutual
/-- the JSON-like values cbor carries: integers in [-2^64, 2^64), 64-bit float patterns, well-formed UTF-8
    text, lengths below 2^60, maps with duplicate-free string (or byte string) keys -/
def inDomain : V → Bool
  | .null => true
  | .bool _ => true
  | .int i => decide (-(2^64) ≤ i) && decide (i < 2^64)
  | .float b => decide (b < 2^64)
  | .str s => decide (s.length < 2^60) && validUTF8 s
  | .bytes b => decide (b.length < 2^60)
  | .arr xs => decide (xs.length < 2^64) && inDomainL xs
  | .map kvs => decide (kvs.length < 2^64) && inDomainKV kvs && nodupB (vKeysOf kvs)
  | .tagged _ _ => false
def inDomainL : List V → Bool
  | [] => true
  | x :: xs => inDomain x && inDomainL xs
def inDomainKV : List (V × V) → Bool
  | [] => true
  | (k, v) :: r => (vKeyBytes k).isSome && inDomain k && inDomain v && inDomainKV r
def vKeysOf : List (V × V) → List Bytes
  | [] => []
  | (k, _) :: r => (match vKeyBytes k with | some b => b | none => []) :: vKeysOf r
end

end FqModel.Serial.Cbor
