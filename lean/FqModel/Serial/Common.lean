/-
  C16 — shared pieces of the serialization-format models (msgpack, cbor, bencode).

  * `V`      the value type the decoders produce (`arr`/`map` nested; `bytes` kept apart from `str`
             because the Go decoders distinguish them; map keys are arbitrary values on the wire).
  * `Res`    outcome of a model function.
  * byte readers that mirror pkg/decode's `FieldU8/16/32/64`, `FieldUTF8`, `FieldRawLen`
             (all are "read n whole bytes or fail with io.ErrUnexpectedEOF/EOF").
  * `torepr` the `_msgpack_torepr` / `_cbor_torepr` / `_bencode_torepr` jq reducers
             (format/msgpack/msgpack.jq, format/cbor/cbor.jq, format/bencode/bencode.jq), which have the
             same shape: map -> from_entries, array -> map(torepr), bytes -> tostring, else tovalue.
  Core Lean only.
-/
namespace FqModel.Serial

abbrev Bytes := List UInt8

/-- `eof`  : an IOError from a read past the end (pkg/decode `IOPanic`),
    `fatal`: `d.Fatalf` / `d.Errorf` of the format decoder,
    `repr` : the decode succeeded but the jq reducer raised an error (`from_entries` on a non-string key),
    `fuel` : the model ran out of fuel (never happens for fuel > input length; the driver reports BADOP),
    `unmodelled` : the input took a branch whose `torepr` is not a JSON-like value and is outside the
                   model (msgpack ext types, cbor semantic tags, lengths ≥ 2^60 that wrap in Go). -/
inductive Err | eof | fatal | repr | fuel | unmodelled
deriving DecidableEq, Repr, Inhabited

inductive Res (α : Type) where
  | ok (a : α)
  | err (e : Err)
deriving Repr, Inhabited

/-- float = IEEE-754 binary64 bit pattern (never interpreted arithmetically) -/
inductive V where
  | null
  | bool (b : Bool)
  | int (i : Int)
  | float (bits : Nat)
  | str (s : Bytes)
  | bytes (b : Bytes)
  | arr (xs : List V)
  | map (kvs : List (V × V))
  | tagged (t : Nat) (v : V)      -- decode-tree level only (cbor semantic tag): `torepr` of it is the tree, not a value
deriving Repr, Inhabited

/-! ### readers -/

/-- read `n` bytes (`d.FieldRawLen(n*8)`, `d.FieldUTF8(n)`, `d.BytesLen`) -/
def readN (n : Nat) (bs : Bytes) : Res (Bytes × Bytes) :=
  let x := bs.take n          -- (not `n ≤ bs.length`: that would walk the whole remaining input on every read)
  if x.length = n then .ok (x, bs.drop n) else .err .eof

/-- big-endian value -/
def beNat (bs : Bytes) : Nat := bs.foldl (fun a b => a * 256 + b.toNat) 0

/-- `d.FieldU8/16/32/64` : `n` bytes big endian -/
def readU (n : Nat) (bs : Bytes) : Res (Nat × Bytes) :=
  match readN n bs with
  | .ok (x, r) => .ok (beNat x, r)
  | .err e => .err e

/-- `n` bytes big endian of `x` (encoder side) -/
def toBE : Nat → Nat → Bytes
  | 0, _ => []
  | n+1, x => toBE n (x / 256) ++ [UInt8.ofNat (x % 256)]

/-- two's complement reading of a `bits`-wide unsigned value (`d.FieldS8..64`) -/
def toSigned (bits : Nat) (u : Nat) : Int :=
  if u ≥ 2 ^ (bits - 1) then (u : Int) - (2 ^ bits : Nat) else u

/-- two's complement encoding of `i` in `bits` bits -/
def ofSigned (bits : Nat) (i : Int) : Nat :=
  if i < 0 then (i + (2 ^ bits : Nat)).toNat else i.toNat

/-- decode `n` consecutive elements (the `for i := 0; i < length; i++ { d.FieldStruct("element", …) }` loops) -/
def decElems (dec : Bytes → Res (V × Bytes)) : Nat → Bytes → Res (List V × Bytes)
  | 0, bs => .ok ([], bs)
  | n+1, bs =>
    match dec bs with
    | .err e => .err e
    | .ok (v, bs') =>
      match decElems dec n bs' with
      | .err e => .err e
      | .ok (vs, r) => .ok (v :: vs, r)

/-- decode `n` consecutive key/value pairs -/
def decPairs (dec : Bytes → Res (V × Bytes)) : Nat → Bytes → Res (List (V × V) × Bytes)
  | 0, bs => .ok ([], bs)
  | n+1, bs =>
    match dec bs with
    | .err e => .err e
    | .ok (k, bs1) =>
      match dec bs1 with
      | .err e => .err e
      | .ok (v, bs2) =>
        match decPairs dec n bs2 with
        | .err e => .err e
        | .ok (kvs, r) => .ok ((k, v) :: kvs, r)

/-- `for d.PeekUintBits(8) != stop { element }` : elements until the next byte is `stop`; the stop byte
    is NOT consumed here.  `lf` = loop fuel. -/
def decUntil (stop : UInt8) (dec : Bytes → Res (V × Bytes)) : Nat → Bytes → Res (List V × Bytes)
  | 0, _ => .err .fuel
  | _+1, [] => .err .eof          -- PeekUintBits at the end of the buffer
  | lf+1, b :: bs =>
    if b = stop then .ok ([], b :: bs) else
    match dec (b :: bs) with
    | .err e => .err e
    | .ok (v, bs') =>
      match decUntil stop dec lf bs' with
      | .err e => .err e
      | .ok (vs, r) => .ok (v :: vs, r)

def decPairsUntil (stop : UInt8) (dec : Bytes → Res (V × Bytes)) : Nat → Bytes → Res (List (V × V) × Bytes)
  | 0, _ => .err .fuel
  | _+1, [] => .err .eof
  | lf+1, b :: bs =>
    if b = stop then .ok ([], b :: bs) else
    match dec (b :: bs) with
    | .err e => .err e
    | .ok (k, bs1) =>
      match dec bs1 with
      | .err e => .err e
      | .ok (v, bs2) =>
        match decPairsUntil stop dec lf bs2 with
        | .err e => .err e
        | .ok (kvs, r) => .ok ((k, v) :: kvs, r)


/-! ### UTF-8 sanitising

  `d.FieldUTF8` (pkg/decode/read.go:132-146 `tryText`) runs the bytes through golang.org/x/text
  `unicode.UTF8.NewDecoder()`, which replaces every MAXIMAL SUBPART of an ill-formed sequence by U+FFFD
  (encoding/unicode/unicode.go:120-200).  `tostring` of a raw field (the `bytes`/`bin` rows of the
  `_F_torepr` reducers) replaces every ill-formed BYTE by U+FFFD (Go's `utf8.DecodeRune` width-1 rule).
  Both are the identity on well-formed UTF-8 (FieldUTF8: that does not start with a byte order mark). -/

def fffd : Bytes := [0xef, 0xbf, 0xbd]

/-- utf8internal.First / AcceptRanges: (sequence length, accepted range of the second byte); length 0 = invalid starter -/
def utf8Class (c : UInt8) : Nat × UInt8 × UInt8 :=
  if c < 0x80 then (1, 0, 0)
  else if c < 0xc2 then (0, 0, 0)
  else if c < 0xe0 then (2, 0x80, 0xbf)
  else if c = 0xe0 then (3, 0xa0, 0xbf)
  else if c = 0xed then (3, 0x80, 0x9f)
  else if c < 0xf0 then (3, 0x80, 0xbf)
  else if c = 0xf0 then (4, 0x90, 0xbf)
  else if c < 0xf4 then (4, 0x80, 0xbf)
  else if c = 0xf4 then (4, 0x80, 0x8f)
  else (0, 0, 0)

def isCont (b : UInt8) : Bool := 0x80 ≤ b && b ≤ 0xbf

/-- `perByte = false`: x/text decoder (maximal subpart);  `perByte = true`: Go per-byte replacement -/
def sanitizeGo (perByte : Bool) : Nat → Bytes → Bytes
  | 0, _ => []
  | _, [] => []
  | fuel+1, c :: rest =>
    let (size, lo, hi) := utf8Class c
    if size = 1 then c :: sanitizeGo perByte fuel rest
    else if size = 0 then fffd ++ sanitizeGo perByte fuel rest
    else
      match rest with
      | [] => fffd
      | b1 :: r1 =>
        if !(lo ≤ b1 && b1 ≤ hi) then fffd ++ sanitizeGo perByte fuel rest
        else if size = 2 then c :: b1 :: sanitizeGo perByte fuel r1
        else
          match r1 with
          | [] => if perByte then fffd ++ sanitizeGo perByte fuel rest else fffd
          | b2 :: r2 =>
            if !isCont b2 then (if perByte then fffd ++ sanitizeGo perByte fuel rest else fffd ++ sanitizeGo perByte fuel r1)
            else if size = 3 then c :: b1 :: b2 :: sanitizeGo perByte fuel r2
            else
              match r2 with
              | [] => if perByte then fffd ++ sanitizeGo perByte fuel rest else fffd
              | b3 :: r3 =>
                if !isCont b3 then (if perByte then fffd ++ sanitizeGo perByte fuel rest else fffd ++ sanitizeGo perByte fuel r2)
                else c :: b1 :: b2 :: b3 :: sanitizeGo perByte fuel r3

/-- `d.FieldUTF8` → `tryText(n, UTF8BOM)` (pkg/decode/decode_gen.go:20522): x/text `unicode.UTF8BOM` decoder —
    ONE leading byte order mark EF BB BF is dropped (known finding `utf8-bom-stripped`: a string value that
    starts with U+FEFF loses it), the rest goes through the maximal-subpart replacement -/
def sanitizeX (bs : Bytes) : Bytes :=
  match bs with
  | 0xef :: 0xbb :: 0xbf :: r => sanitizeGo false r.length r
  | _ => sanitizeGo false bs.length bs
/-- per-byte replacement (`tostring` of raw bytes) -/
def sanitizeG (bs : Bytes) : Bytes := sanitizeGo true bs.length bs

/-- what `d.FieldUTF8` leaves unchanged: well-formed UTF-8 that does not start with U+FEFF -/
def validUTF8 (bs : Bytes) : Bool := sanitizeX bs == bs

/-! ### the jq reducer -/

def hasKey (k : V) : List (V × V) → Bool
  | [] => false
  | (k', _) :: r =>
    (match k, k' with
     | .str a, .str b => a == b
     | _, _ => false) || hasKey k r

/-- gojq `funcFromEntries` (func.go:466-515) writes `w[key] = value` entry by entry into a Go map: the
    LAST entry of a key wins; the order of a jq object is irrelevant (sorted on output). -/
def lastWins : List (V × V) → List (V × V)
  | [] => []
  | (k, v) :: r => if hasKey k r then lastWins r else (k, v) :: lastWins r

mutual
/-- `_F_torepr` -/
def torepr : V → Res V
  | .bytes b => .ok (.str (sanitizeG b))       -- `.value | tostring` of a raw field
  | .arr xs =>
    match toreprL xs with
    | .ok ys => .ok (.arr ys)
    | .err e => .err e
  | .map kvs =>
    match toreprKV kvs with
    | .ok es => .ok (.map (lastWins es))
    | .err e => .err e
  | .tagged _ _ => .err .unmodelled             -- `.value | tovalue` of a tagged item is the decode tree as JSON
  | v => .ok v                                   -- `.value | tovalue`
def toreprL : List V → Res (List V)
  | [] => .ok []
  | x :: xs =>
    match torepr x with
    | .err e => .err e
    | .ok y =>
      match toreprL xs with
      | .err e => .err e
      | .ok ys => .ok (y :: ys)
/-- `map({key: (.key | torepr), value: (.value | torepr)}) | from_entries` : a key that is not a string
    makes from_entries raise objectKeyNotStringError -/
def toreprKV : List (V × V) → Res (List (V × V))
  | [] => .ok []
  | (k, v) :: r =>
    match torepr k with
    | .err e => .err e
    | .ok k' =>
      match torepr v with
      | .err e => .err e
      | .ok v' =>
        match toreprKV r with
        | .err e => .err e
        | .ok es =>
          match k' with
          | .str _ => .ok ((k', v') :: es)
          | _ => .err .repr
end

mutual
/-- what `torepr` makes of a source value: byte strings become (sanitised) strings, everything else is kept -/
def norm : V → V
  | .bytes b => .str (sanitizeG b)
  | .arr xs => .arr (normL xs)
  | .map kvs => .map (normKV kvs)
  | v => v
def normL : List V → List V
  | [] => []
  | x :: xs => norm x :: normL xs
def normKV : List (V × V) → List (V × V)
  | [] => []
  | (k, v) :: r => (norm k, norm v) :: normKV r
end

/-- decode + torepr, as `fq -d F torepr` does -/
def withRepr (r : Res (V × Bytes)) : Res (V × Bytes) :=
  match r with
  | .err e => .err e
  | .ok (t, rest) =>
    match torepr t with
    | .err e => .err e
    | .ok v => .ok (v, rest)

/-! ### floats by bit pattern -/

/-- binary32 pattern -> binary64 pattern, as Go's `float64(math.Float32frombits(p))`
    (exact; a signalling NaN is quieted by the hardware conversion, payload kept) -/
def widen32 (p : Nat) : Nat :=
  let s := p / 2^31 % 2
  let e := p / 2^23 % 2^8
  let f := p % 2^23
  if e = 255 then
    s * 2^63 + 2047 * 2^52 + (if f = 0 then 0 else (f * 2^29) ||| 2^51)
  else if e = 0 then
    if f = 0 then s * 2^63
    else
      -- subnormal: value f * 2^-149 ; normalise
      let l := Nat.log2 f            -- position of the leading one, 0..22
      s * 2^63 + (l + 874) * 2^52 + (f * 2^(52 - l)) % 2^52     -- exponent l-149 => biased l-149+1023 = l+874
  else
    s * 2^63 + (e + 896) * 2^52 + f * 2^29

/-- binary16 pattern -> binary64 pattern (`d.FieldF16`: x448/float16 `Frombits(p).Float32()` then float64) -/
def widen16 (p : Nat) : Nat :=
  let s := p / 2^15 % 2
  let e := p / 2^10 % 2^5
  let f := p % 2^10
  if e = 31 then
    s * 2^63 + 2047 * 2^52 + (if f = 0 then 0 else (f * 2^42) ||| 2^51)
  else if e = 0 then
    if f = 0 then s * 2^63
    else
      let l := Nat.log2 f            -- 0..9, value f * 2^-24
      s * 2^63 + (l + 999) * 2^52 + (f * 2^(52 - l)) % 2^52     -- l-24+1023
  else
    s * 2^63 + (e + 1008) * 2^52 + f * 2^42

/-! ### executable equality on values (V is a nested inductive: no derived DecidableEq) -/

mutual
def veq : V → V → Bool
  | .null, .null => true
  | .bool a, .bool b => a == b
  | .int a, .int b => a == b
  | .float a, .float b => a == b
  | .str a, .str b => a == b
  | .bytes a, .bytes b => a == b
  | .arr xs, .arr ys => veqL xs ys
  | .map xs, .map ys => veqKV xs ys
  | .tagged a x, .tagged b y => a == b && veq x y
  | _, _ => false
def veqL : List V → List V → Bool
  | [], [] => true
  | x :: xs, y :: ys => veq x y && veqL xs ys
  | _, _ => false
def veqKV : List (V × V) → List (V × V) → Bool
  | [], [] => true
  | (k, v) :: xs, (k', v') :: ys => veq k k' && veq v v' && veqKV xs ys
  | _, _ => false
end

def resEq (a b : Res (V × Bytes)) : Bool :=
  match a, b with
  | .ok (v, r), .ok (v', r') => veq v v' && r == r'
  | .err e, .err e' => e == e'
  | _, _ => false

/-! ### duplicate-free keys (executable) -/

def nodupB : List Bytes → Bool
  | [] => true
  | k :: r => !(r.contains k) && nodupB r

end FqModel.Serial
