import FqModel.Serial.Common
import FqModel.Serial.Bencode
/-
  C16 — json / jsonl: the modelled fragment of format/json/json.go `decodeJSONEx` (lines 37-86):
  Go's `encoding/json` decoder with `UseNumber`, gojq `NormalizeNumbers`, and the rule "exactly one
  top-level value, then only white space up to the end of the input" (jsonl: one or more values).

  Fragment: null / true / false, integer literals (`-? (0 | [1-9][0-9]*)`; a literal with a fraction or an
  exponent is a float and OUTSIDE the model: `unmodelled`), strings (all escapes of `encoding/json`'s
  `unquote`, `\uXXXX` incl. surrogate pairs; ill-formed UTF-8 bytes replaced by U+FFFD one by one; control
  characters rejected), arrays, objects (Go map: the last duplicate key wins), white space = space, \t, \n, \r.
  Error kinds: `eof` = the input ended inside a value (io.ErrUnexpectedEOF), `fatal` = any other syntax error
  or trailing data; fq reports both as a decode error.
-/
namespace FqModel.Serial.Json
open FqModel.Serial

def isWs (c : UInt8) : Bool := c = 0x20 || c = 0x09 || c = 0x0a || c = 0x0d

def skipWs : Bytes → Bytes
  | [] => []
  | c :: r => if isWs c then skipWs r else c :: r

/-- match the rest of a literal (`rue`, `alse`, `ull`) -/
def expectLit : Bytes → Bytes → Res Bytes
  | [], bs => .ok bs
  | _ :: _, [] => .err .eof
  | l :: ls, b :: bs => if l = b then expectLit ls bs else .err .fatal

def hexVal (c : UInt8) : Option Nat :=
  if 0x30 ≤ c && c ≤ 0x39 then some (c.toNat - 0x30)
  else if 0x61 ≤ c && c ≤ 0x66 then some (c.toNat - 0x61 + 10)
  else if 0x41 ≤ c && c ≤ 0x46 then some (c.toNat - 0x41 + 10)
  else none

/-- `getu4` after `\u`: four hex digits -/
def getu4 : Bytes → Res (Nat × Bytes)
  | a :: b :: c :: d :: r =>
    match hexVal a, hexVal b, hexVal c, hexVal d with
    | some x, some y, some z, some w => .ok (x * 4096 + y * 256 + z * 16 + w, r)
    | _, _, _, _ => .err .fatal
  | _ => .err .eof

/-- UTF-8 of a code point (`utf8.AppendRune`; surrogates and values above 0x10FFFF give U+FFFD) -/
def utf8enc (cp : Nat) : Bytes :=
  if cp < 0x80 then [UInt8.ofNat cp]
  else if cp < 0x800 then [UInt8.ofNat (0xc0 + cp / 64), UInt8.ofNat (0x80 + cp % 64)]
  else if (0xd800 ≤ cp ∧ cp ≤ 0xdfff) ∨ cp > 0x10ffff then fffd
  else if cp < 0x10000 then
    [UInt8.ofNat (0xe0 + cp / 4096), UInt8.ofNat (0x80 + cp / 64 % 64), UInt8.ofNat (0x80 + cp % 64)]
  else
    [UInt8.ofNat (0xf0 + cp / 262144), UInt8.ofNat (0x80 + cp / 4096 % 64), UInt8.ofNat (0x80 + cp / 64 % 64),
     UInt8.ofNat (0x80 + cp % 64)]

/-- the body of a string literal after the opening quote: scanner (escapes, no control characters) fused
    with `unquote`; returns the unescaped bytes (before the replacement of ill-formed UTF-8) -/
def parseStrBody : Nat → Bytes → Res (Bytes × Bytes)
  | 0, _ => .err .fuel
  | _+1, [] => .err .eof
  | fuel+1, c :: r =>
    if c = 0x22 then .ok ([], r)
    else if c < 0x20 then .err .fatal
    else if c = 0x5c then
      match r with
      | [] => .err .eof
      | e :: r1 =>
        let simple (b : UInt8) : Res (Bytes × Bytes) :=
          match parseStrBody fuel r1 with
          | .ok (s, r2) => .ok (b :: s, r2)
          | .err x => .err x
        if e = 0x22 then simple 0x22
        else if e = 0x5c then simple 0x5c
        else if e = 0x2f then simple 0x2f
        else if e = 0x62 then simple 0x08
        else if e = 0x66 then simple 0x0c
        else if e = 0x6e then simple 0x0a
        else if e = 0x72 then simple 0x0d
        else if e = 0x74 then simple 0x09
        else if e = 0x75 then
          match getu4 r1 with
          | .err x => .err x
          | .ok (u, r2) =>
            -- a high surrogate followed by `\u` + low surrogate is one code point, else U+FFFD
            let pair : Option (Nat × Bytes) :=
              if 0xd800 ≤ u ∧ u < 0xdc00 then
                match r2 with
                | 0x5c :: 0x75 :: r3 =>
                  match getu4 r3 with
                  | .ok (u2, r4) =>
                    if 0xdc00 ≤ u2 ∧ u2 < 0xe000 then some ((u - 0xd800) * 1024 + (u2 - 0xdc00) + 0x10000, r4) else none
                  | .err _ => none
                | _ => none
              else none
            match pair with
            | some (cp, r4) =>
              match parseStrBody fuel r4 with
              | .ok (s, r5) => .ok (utf8enc cp ++ s, r5)
              | .err x => .err x
            | none =>
              match parseStrBody fuel r2 with
              | .ok (s, r5) => .ok (utf8enc u ++ s, r5)
              | .err x => .err x
        else .err .fatal
    else
      match parseStrBody fuel r with
      | .ok (s, r2) => .ok (c :: s, r2)
      | .err x => .err x

/-- a string literal (after the opening quote): `unquote` replaces every ill-formed byte by U+FFFD -/
def parseStr (bs : Bytes) : Res (Bytes × Bytes) :=
  match parseStrBody (bs.length + 1) bs with
  | .ok (s, r) => .ok (sanitizeG s, r)
  | .err e => .err e

def isDigit (c : UInt8) : Bool := 0x30 ≤ c && c ≤ 0x39

def takeDigits : Bytes → Bytes × Bytes
  | [] => ([], [])
  | c :: r => if isDigit c then let (d, r') := takeDigits r; (c :: d, r') else ([], c :: r)

/-- the digits of a number literal (after an optional minus sign): integer literals only -/
def parseNumberBody (neg : Bool) (bs1 : Bytes) : Res (V × Bytes) :=
  match takeDigits bs1 with
  | ([], []) => .err .eof
  | ([], _ :: _) => .err .fatal
  | (d :: ds, r) =>
    if d = 0x30 ∧ ds ≠ [] then .err .fatal                     -- leading zero: `01` is "invalid character after top-level value"
    else
      match r with
      | c :: _ =>
        if c = 0x2e ∨ c = 0x65 ∨ c = 0x45 then .err .unmodelled   -- fraction / exponent: a float
        else
          match Bencode.parseDigits (d :: ds) 0 with
          | some n => .ok (.int (if neg then -(n : Int) else n), r)
          | none => .err .fatal
      | [] =>
        match Bencode.parseDigits (d :: ds) 0 with
        | some n => .ok (.int (if neg then -(n : Int) else n), r)
        | none => .err .fatal

/-- a number literal starting at `bs` (first byte is `-` or a digit) -/
def parseNumber (bs : Bytes) : Res (V × Bytes) :=
  match bs with
  | 0x2d :: r => parseNumberBody true r
  | _ => parseNumberBody false bs

/-- `value (, value)* ]` ; `pv` parses one value, `lf` = loop fuel -/
def parseElems (pv : Bytes → Res (V × Bytes)) : Nat → Bytes → Res (List V × Bytes)
  | 0, _ => .err .fuel
  | lf+1, bs =>
    match pv bs with
    | .err e => .err e
    | .ok (v, r) =>
      match skipWs r with
      | [] => .err .eof
      | c :: r1 =>
        if c = 0x5d then .ok ([v], r1)
        else if c = 0x2c then
          match parseElems pv lf r1 with
          | .ok (vs, r2) => .ok (v :: vs, r2)
          | .err e => .err e
        else .err .fatal

/-- `"key" : value (, "key" : value)* }` -/
def parseMembers (pv : Bytes → Res (V × Bytes)) : Nat → Bytes → Res (List (V × V) × Bytes)
  | 0, _ => .err .fuel
  | lf+1, bs =>
    match skipWs bs with
    | [] => .err .eof
    | q :: r0 =>
      if q ≠ 0x22 then .err .fatal
      else
        match parseStr r0 with
        | .err e => .err e
        | .ok (k, r) =>
          match skipWs r with
          | [] => .err .eof
          | c :: r1 =>
            if c ≠ 0x3a then .err .fatal
            else
              match pv r1 with
              | .err e => .err e
              | .ok (v, r2) =>
                match skipWs r2 with
                | [] => .err .eof
                | c2 :: r3 =>
                  if c2 = 0x7d then .ok ([(.str k, v)], r3)
                  else if c2 = 0x2c then
                    match parseMembers pv lf r3 with
                    | .ok (kvs, r4) => .ok ((.str k, v) :: kvs, r4)
                    | .err e => .err e
                  else .err .fatal

def lit (rest : Bytes) (v : V) (r : Bytes) : Res (V × Bytes) :=
  match expectLit rest r with
  | .ok r' => .ok (v, r')
  | .err e => .err e

/-- one value, leading white space skipped -/
def parseValue : Nat → Bytes → Res (V × Bytes)
  | 0, _ => .err .fuel
  | fuel+1, bs =>
    match skipWs bs with
    | [] => .err .eof
    | c :: r =>
      if c = 0x6e then lit [0x75, 0x6c, 0x6c] .null r
      else if c = 0x74 then lit [0x72, 0x75, 0x65] (.bool true) r
      else if c = 0x66 then lit [0x61, 0x6c, 0x73, 0x65] (.bool false) r
      else if c = 0x22 then (match parseStr r with | .ok (s, r') => .ok (.str s, r') | .err e => .err e)
      else if c = 0x5b then
        match skipWs r with
        | [] => .err .eof
        | c2 :: r2 =>
          if c2 = 0x5d then .ok (.arr [], r2)
          else match parseElems (parseValue fuel) (r.length + 1) (c2 :: r2) with
            | .ok (xs, r') => .ok (.arr xs, r')
            | .err e => .err e
      else if c = 0x7b then
        match skipWs r with
        | [] => .err .eof
        | c2 :: r2 =>
          if c2 = 0x7d then .ok (.map [], r2)
          else match parseMembers (parseValue fuel) (r.length + 1) (c2 :: r2) with
            | .ok (kvs, r') => .ok (.map (lastWins kvs), r')
            | .err e => .err e
      else if c = 0x2d ∨ isDigit c then parseNumber (c :: r)
      else .err .fatal

/-- `fq -d json`: one value, then only white space (json.go:44-71) -/
def decode (bs : Bytes) : Res (V × Bytes) :=
  match parseValue (bs.length + 1) bs with
  | .err e => .err e
  | .ok (v, r) =>
    match skipWs r with
    | [] => .ok (v, [])
    | _ :: _ => .err .fatal                     -- d.Fatalf("trialing data after top-level value")

/-- jsonl: values up to the end of the input -/
def decodeLinesLoop : Nat → Bytes → Res (List V)
  | 0, _ => .err .fuel
  | lf+1, bs =>
    match skipWs bs with
    | [] => .ok []
    | c :: r =>
      match parseValue ((c :: r).length + 1) (c :: r) with
      | .err e => .err e
      | .ok (v, r') =>
        match decodeLinesLoop lf r' with
        | .ok vs => .ok (v :: vs)
        | .err e => .err e

/-- `fq -d jsonl` (json.go: `lines = true`): at least one value -/
def decodeLines (bs : Bytes) : Res (V × Bytes) :=
  match decodeLinesLoop (bs.length + 1) bs with
  | .err e => .err e
  | .ok [] => .err .fatal                       -- d.Fatalf("not lines found")
  | .ok vs => .ok (.arr vs, [])

/-! ### encoder: compact JSON with a white-space string `sp` at every place white space may stand -/

def hexDigit (n : Nat) : UInt8 := if n < 10 then UInt8.ofNat (0x30 + n) else UInt8.ofNat (0x61 + n - 10)

def escByte (c : UInt8) : Bytes :=
  if c = 0x22 then [0x5c, 0x22]
  else if c = 0x5c then [0x5c, 0x5c]
  else if c < 0x20 then [0x5c, 0x75, 0x30, 0x30, hexDigit (c.toNat / 16), hexDigit (c.toNat % 16)]
  else [c]

def encStrBody : Bytes → Bytes
  | [] => []
  | c :: r => escByte c ++ encStrBody r

def encStr (s : Bytes) : Bytes := 0x22 :: (encStrBody s ++ [0x22])

def encInt (i : Int) : Bytes :=
  if i < 0 then 0x2d :: Bencode.decStr (-i).toNat else Bencode.decStr i.toNat

/-- JSON values of the fragment -/
inductive J where
  | null
  | bool (b : Bool)
  | int (i : Int)
  | str (s : Bytes)
  | arr (xs : List J)
  | obj (kvs : List (Bytes × J))
deriving Repr, Inhabited

mutual
def encode (sp : Bytes) : J → Bytes
  | .null => [0x6e, 0x75, 0x6c, 0x6c]
  | .bool true => [0x74, 0x72, 0x75, 0x65]
  | .bool false => [0x66, 0x61, 0x6c, 0x73, 0x65]
  | .int i => encInt i
  | .str s => encStr s
  | .arr [] => 0x5b :: (sp ++ [0x5d])
  | .arr (x :: xs) => 0x5b :: encodeL sp (x :: xs)
  | .obj [] => 0x7b :: (sp ++ [0x7d])
  | .obj (p :: kvs) => 0x7b :: encodeKV sp (p :: kvs)
/-- `sp value sp , … sp value sp ]` -/
def encodeL (sp : Bytes) : List J → Bytes
  | [] => [0x5d]
  | [x] => sp ++ encode sp x ++ sp ++ [0x5d]
  | x :: y :: r => sp ++ encode sp x ++ sp ++ 0x2c :: encodeL sp (y :: r)
/-- `sp "k" sp : sp value sp , … }` -/
def encodeKV (sp : Bytes) : List (Bytes × J) → Bytes
  | [] => [0x7d]
  | [(k, x)] => sp ++ encStr k ++ sp ++ 0x3a :: (sp ++ encode sp x ++ sp ++ [0x7d])
  | (k, x) :: q :: r => sp ++ encStr k ++ sp ++ 0x3a :: (sp ++ encode sp x ++ sp ++ 0x2c :: encodeKV sp (q :: r))
end

/-- a top-level document: white space, the value, white space -/
def encodeTop (sp : Bytes) (x : J) : Bytes := sp ++ encode sp x ++ sp

/-- strings the decoder returns unchanged: no ill-formed UTF-8 (per-byte replacement is the identity) -/
def textOk (s : Bytes) : Bool := sanitizeG s == s

def wsOk (sp : Bytes) : Bool := sp.all isWs

def keysOfJ : List (Bytes × J) → List Bytes
  | [] => []
  | (k, _) :: r => k :: keysOfJ r

mutual
def valid : J → Bool
  | .str s => textOk s
  | .arr xs => validL xs
  | .obj kvs => validKV kvs && nodupB (keysOfJ kvs)
  | _ => true
def validL : List J → Bool
  | [] => true
  | x :: xs => valid x && validL xs
def validKV : List (Bytes × J) → Bool
  | [] => true
  | (k, x) :: r => textOk k && valid x && validKV r
end

mutual
def value : J → V
  | .null => .null
  | .bool b => .bool b
  | .int i => .int i
  | .str s => .str s
  | .arr xs => .arr (valueL xs)
  | .obj kvs => .map (valueKV kvs)
def valueL : List J → List V
  | [] => []
  | x :: xs => value x :: valueL xs
def valueKV : List (Bytes × J) → List (V × V)
  | [] => []
  | (k, x) :: r => (.str k, value x) :: valueKV r
end

/-- not a bare number: the values whose every strict prefix is an error (a prefix of `12` is `1`) -/
def selfDelimiting : J → Bool
  | .int _ => false
  | _ => true

end FqModel.Serial.Json
