import FqModel.Serial.Common
/-
  C16 — msgpack: model of format/msgpack/msgpack.go `decodeMsgPackValue` (lines 57-156) fused with
  `_msgpack_torepr` (format/msgpack/msgpack.jq), and an encoder over ALL wire forms.

  Go: `typ := d.FieldU8("type", formatMap, …); fe := formatMap.lookup(byte(typ)); fe.d(d)` where `lookup`
  returns the FIRST row whose inclusive range contains the byte.  `rows` below is the 37-row table; the
  regenerated copy of the Go composite literal (FqModel/Gen/SerialTables.lean) is proved equal to it
  row by row in Props/C16.lean.
-/
namespace FqModel.Serial.Msgpack
open FqModel.Serial

/-- what a row's decode function does (the `d:` field of a formatEntry) -/
inductive Kind where
  | posfix            -- d.SeekRel(-8); d.FieldU8("value")
  | fixmap            -- mapFn(-4, 4)
  | fixarr            -- arrayFn(-4, 4)
  | fixstr            -- d.SeekRel(-5); length := d.FieldU5("length"); d.FieldUTF8("value", length)
  | nil | neverUsed
  | bool (b : Bool)
  | bin (lenBytes : Nat)      -- d.FieldRawLen("value", int64(d.FieldU<8·n>("length"))*8)
  | ext (lenBytes : Nat)      -- extFn(8·n)
  | f32 | f64
  | uint (bytes : Nat)        -- d.FieldU<8·n>("value")
  | sint (bytes : Nat)        -- d.FieldS<8·n>("value")
  | fixext (n : Nat)
  | str (lenBytes : Nat)      -- d.FieldUTF8("value", int(d.FieldU<8·n>("length")))
  | arr (lenBytes : Nat)      -- arrayFn(0, 8·n)
  | map (lenBytes : Nat)      -- mapFn(0, 8·n)
  | negfix            -- d.SeekRel(-8); d.FieldS8("value")
deriving DecidableEq, Repr, Inhabited

/-- msgpack.go:99-147 -/
def rows : List (Nat × Nat × Kind) := [
  (0x00, 0x7f, .posfix), (0x80, 0x8f, .fixmap), (0x90, 0x9f, .fixarr), (0xa0, 0xbf, .fixstr),
  (0xc0, 0xc0, .nil), (0xc1, 0xc1, .neverUsed), (0xc2, 0xc2, .bool false), (0xc3, 0xc3, .bool true),
  (0xc4, 0xc4, .bin 1), (0xc5, 0xc5, .bin 2), (0xc6, 0xc6, .bin 4),
  (0xc7, 0xc7, .ext 1), (0xc8, 0xc8, .ext 2), (0xc9, 0xc9, .ext 4),
  (0xca, 0xca, .f32), (0xcb, 0xcb, .f64),
  (0xcc, 0xcc, .uint 1), (0xcd, 0xcd, .uint 2), (0xce, 0xce, .uint 4), (0xcf, 0xcf, .uint 8),
  (0xd0, 0xd0, .sint 1), (0xd1, 0xd1, .sint 2), (0xd2, 0xd2, .sint 4), (0xd3, 0xd3, .sint 8),
  (0xd4, 0xd4, .fixext 1), (0xd5, 0xd5, .fixext 2), (0xd6, 0xd6, .fixext 4), (0xd7, 0xd7, .fixext 8),
  (0xd8, 0xd8, .fixext 16),
  (0xd9, 0xd9, .str 1), (0xda, 0xda, .str 2), (0xdb, 0xdb, .str 4),
  (0xdc, 0xdc, .arr 2), (0xdd, 0xdd, .arr 4), (0xde, 0xde, .map 2), (0xdf, 0xdf, .map 4),
  (0xe0, 0xff, .negfix)]

/-- `formatEntries.lookup` (msgpack.go:40-47) -/
def lookup : List (Nat × Nat × Kind) → Nat → Option Kind
  | [], _ => none
  | (lo, hi, k) :: r, u => if u ≥ lo && u ≤ hi then some k else lookup r u

def kindOf (t : Nat) : Option Kind := lookup rows t

/-- `arrayFn(seekBits, lengthBits)` (msgpack.go:58-68) once the length has been read -/
def arrayFn (dec : Bytes → Res (V × Bytes)) (r : Res (Nat × Bytes)) : Res (V × Bytes) :=
  match r with
  | .err e => .err e
  | .ok (n, bs1) =>
    match decElems dec n bs1 with
    | .err e => .err e
    | .ok (vs, r) => .ok (.arr vs, r)

/-- `mapFn(seekBits, lengthBits)` (msgpack.go:69-83) -/
def mapFn (dec : Bytes → Res (V × Bytes)) (r : Res (Nat × Bytes)) : Res (V × Bytes) :=
  match r with
  | .err e => .err e
  | .ok (n, bs1) =>
    match decPairs dec n bs1 with
    | .err e => .err e
    | .ok (kvs, r) => .ok (.map kvs, r)

/-- a length followed by that many bytes (`d.FieldUTF8("value", length)`, `d.FieldRawLen("value", length*8)`) -/
def lenThen (mk : Bytes → V) (r : Res (Nat × Bytes)) : Res (V × Bytes) :=
  match r with
  | .err e => .err e
  | .ok (n, bs1) =>
    match readN n bs1 with
    | .err e => .err e
    | .ok (x, r) => .ok (mk x, r)

/-- `extFn(lengthBits)` (msgpack.go:83-89): `d.FieldU("length", lengthBits)`, `d.FieldS8("fixtype")`,
    `d.FieldRawLen("value", length*8)`, which `.value | tovalue` returns as the bytes they are
    (the length was read as 8 bits whatever `lengthBits` before commit 349ab12e) -/
def extFn (n : Nat) (bs : Bytes) : Res (V × Bytes) :=
  match readU n bs with
  | .err e => .err e
  | .ok (len, r) =>
    match readN 1 r with
    | .err e => .err e
    | .ok (_, r1) =>
      match readN len r1 with
      | .err e => .err e
      | .ok (x, r2) => .ok (.str x, r2)

/-- fixext1..16: `d.FieldS8("fixtype"); d.FieldRawLen("value", n*8)` -/
def fixextFn (n : Nat) (bs : Bytes) : Res (V × Bytes) :=
  match readN 1 bs with
  | .err e => .err e
  | .ok (_, r1) =>
    match readN n r1 with
    | .err e => .err e
    | .ok (x, r2) => .ok (.str x, r2)

/-- a fixed-width scalar (`d.FieldU16("value")`, `d.FieldS32("value")`, `d.FieldF64("value")`, …) -/
def scalar (n : Nat) (mk : Nat → V) (bs : Bytes) : Res (V × Bytes) :=
  match readU n bs with
  | .err e => .err e
  | .ok (u, r) => .ok (mk u, r)

/-- what a row's decode function does, given the type byte `t` (already consumed) -/
def runKind (dec : Bytes → Res (V × Bytes)) (t : Nat) (bs : Bytes) : Kind → Res (V × Bytes)
  | .posfix => .ok (.int t, bs)
  | .negfix => .ok (.int (toSigned 8 t), bs)
  | .fixmap => mapFn dec (.ok (t % 16, bs))
  | .fixarr => arrayFn dec (.ok (t % 16, bs))
  | .fixstr => lenThen (fun x => .str (sanitizeX x)) (.ok (t % 32, bs))
  | .nil => .ok (.null, bs)
  | .neverUsed => .err .fatal                           -- d.Fatalf("0xc1 never used")
  | .bool b => .ok (.bool b, bs)
  | .bin n => lenThen .bytes (readU n bs)
  | .str n => lenThen (fun x => .str (sanitizeX x)) (readU n bs)
  | .ext n => extFn n bs
  | .fixext n => fixextFn n bs
  | .f32 => scalar 4 (fun p => .float (widen32 p)) bs
  | .f64 => scalar 8 .float bs
  | .uint n => scalar n (fun u => .int u) bs
  | .sint n => scalar n (fun u => .int (toSigned (8 * n) u)) bs
  | .arr n => arrayFn dec (readU n bs)
  | .map n => mapFn dec (readU n bs)

/-- the decoder; `fuel` bounds the nesting depth (`decode` supplies input length + 1) -/
def decT : Nat → Bytes → Res (V × Bytes)
  | 0, _ => .err .fuel
  | _+1, [] => .err .eof                                   -- d.FieldU8("type") at the end of the buffer
  | fuel+1, t :: bs =>
    match kindOf t.toNat with
    | none => .err .fatal                                   -- panic("unreachable")
    | some k => runKind (decT fuel) t.toNat bs k

/-- `fq -d msgpack torepr` on `bs`: the value and the bytes after it (which fq shows as a gap field) -/
def decode (bs : Bytes) : Res (V × Bytes) := withRepr (decT (bs.length + 1) bs)

/-! ### encoder over all wire forms -/

inductive IntForm | fix | u8 | u16 | u32 | u64 | i8 | i16 | i32 | i64
deriving DecidableEq, Repr, Inhabited

inductive LenForm | fix | l8 | l16 | l32
deriving DecidableEq, Repr, Inhabited

/-- a value together with the wire form chosen for every node -/
inductive W where
  | nil
  | bool (b : Bool)
  | int (f : IntForm) (i : Int)
  | f32 (p : Nat)                 -- binary32 pattern; the value is `widen32 p`
  | f64 (bits : Nat)
  | str (f : LenForm) (s : Bytes)
  | bin (f : LenForm) (b : Bytes)
  | arr (f : LenForm) (xs : List W)
  | map (f : LenForm) (kvs : List (W × W))
  | ext (f : LenForm) (ty : UInt8) (b : Bytes)   -- 0xc7/0xc8/0xc9 length type data (8/16/32-bit length)
  | fixext (ty : UInt8) (b : Bytes)              -- 0xd4..0xd8 type data, |data| ∈ {1,2,4,8,16}
deriving Repr, Inhabited

def fixextType (n : Nat) : Nat :=
  if n = 1 then 0xd4 else if n = 2 then 0xd5 else if n = 4 then 0xd6 else if n = 8 then 0xd7 else 0xd8

def intOk : IntForm → Int → Bool
  | .fix, i => decide (-32 ≤ i) && decide (i ≤ 127)
  | .u8, i => decide (0 ≤ i) && decide (i < 2^8)
  | .u16, i => decide (0 ≤ i) && decide (i < 2^16)
  | .u32, i => decide (0 ≤ i) && decide (i < 2^32)
  | .u64, i => decide (0 ≤ i) && decide (i < 2^64)
  | .i8, i => decide (-(2^7) ≤ i) && decide (i < 2^7)
  | .i16, i => decide (-(2^15) ≤ i) && decide (i < 2^15)
  | .i32, i => decide (-(2^31) ≤ i) && decide (i < 2^31)
  | .i64, i => decide (-(2^63) ≤ i) && decide (i < 2^63)

/-- does a length fit the form; `fixMax` = 31 (str), 15 (array, map); bin and array/map lack some forms -/
def lenOk (fixMax : Option Nat) (has8 : Bool) : LenForm → Nat → Bool
  | .fix, n => match fixMax with | some m => decide (n ≤ m) | none => false
  | .l8, n => has8 && decide (n < 2^8)
  | .l16, n => decide (n < 2^16)
  | .l32, n => decide (n < 2^32)

def keyBytes : W → Option Bytes
  | .str _ s => some s
  | .bin _ b => some (sanitizeG b)
  | _ => none

mutual
def valid : W → Bool
  | .nil => true
  | .bool _ => true
  | .int f i => intOk f i
  | .f32 p => decide (p < 2^32)
  | .f64 b => decide (b < 2^64)
  | .str f s => lenOk (some 31) true f s.length && validUTF8 s
  | .bin f b => lenOk none true f b.length
  | .arr f xs => lenOk (some 15) false f xs.length && validL xs
  | .map f kvs => lenOk (some 15) false f kvs.length && validKV kvs && nodupB (keysOf kvs)
  | .ext f _ b => lenOk none true f b.length
  | .fixext _ b => decide (b.length = 1 ∨ b.length = 2 ∨ b.length = 4 ∨ b.length = 8 ∨ b.length = 16)
def validL : List W → Bool
  | [] => true
  | x :: xs => valid x && validL xs
def validKV : List (W × W) → Bool
  | [] => true
  | (k, v) :: r => (keyBytes k).isSome && valid k && valid v && validKV r
def keysOf : List (W × W) → List Bytes
  | [] => []
  | (k, _) :: r => (match keyBytes k with | some b => b | none => []) :: keysOf r
end

mutual
/-- the value a wire tree stands for -/
def value : W → V
  | .nil => .null
  | .bool b => .bool b
  | .int _ i => .int i
  | .f32 p => .float (widen32 p)
  | .f64 b => .float b
  | .str _ s => .str s
  | .bin _ b => .bytes b
  | .arr _ xs => .arr (valueL xs)
  | .map _ kvs => .map (valueKV kvs)
  | .ext _ _ b => .str b                         -- `.value | tovalue` of a raw field: the bytes as they are
  | .fixext _ b => .str b
def valueL : List W → List V
  | [] => []
  | x :: xs => value x :: valueL xs
def valueKV : List (W × W) → List (V × V)
  | [] => []
  | (k, v) :: r => (value k, value v) :: valueKV r
end

def byte (n : Nat) : UInt8 := UInt8.ofNat n

def encInt : IntForm → Int → Bytes
  | .fix, i => [byte (ofSigned 8 i)]
  | .u8, i => byte 0xcc :: toBE 1 i.toNat
  | .u16, i => byte 0xcd :: toBE 2 i.toNat
  | .u32, i => byte 0xce :: toBE 4 i.toNat
  | .u64, i => byte 0xcf :: toBE 8 i.toNat
  | .i8, i => byte 0xd0 :: toBE 1 (ofSigned 8 i)
  | .i16, i => byte 0xd1 :: toBE 2 (ofSigned 16 i)
  | .i32, i => byte 0xd2 :: toBE 4 (ofSigned 32 i)
  | .i64, i => byte 0xd3 :: toBE 8 (ofSigned 64 i)

/-- header of a length-prefixed item: `fixBase` = 0xa0/0x90/0x80, `t8 t16 t32` the type bytes -/
def encLen (fixBase t8 t16 t32 : Nat) : LenForm → Nat → Bytes
  | .fix, n => [byte (fixBase + n)]
  | .l8, n => byte t8 :: toBE 1 n
  | .l16, n => byte t16 :: toBE 2 n
  | .l32, n => byte t32 :: toBE 4 n

mutual
def encode : W → Bytes
  | .nil => [byte 0xc0]
  | .bool b => [byte (if b then 0xc3 else 0xc2)]
  | .int f i => encInt f i
  | .f32 p => byte 0xca :: toBE 4 p
  | .f64 b => byte 0xcb :: toBE 8 b
  | .str f s => encLen 0xa0 0xd9 0xda 0xdb f s.length ++ s
  | .bin f b => encLen 0 0xc4 0xc5 0xc6 f b.length ++ b
  | .arr f xs => encLen 0x90 0 0xdc 0xdd f xs.length ++ encodeL xs
  | .map f kvs => encLen 0x80 0 0xde 0xdf f kvs.length ++ encodeKV kvs
  | .ext f ty b => encLen 0 0xc7 0xc8 0xc9 f b.length ++ ty :: b
  | .fixext ty b => byte (fixextType b.length) :: ty :: b
def encodeL : List W → Bytes
  | [] => []
  | x :: xs => encode x ++ encodeL xs
def encodeKV : List (W × W) → Bytes
  | [] => []
  | (k, v) :: r => encode k ++ encode v ++ encodeKV r
end

/-! ### every in-domain value has a (smallest-form) wire tree -/

def smallestInt (i : Int) : IntForm :=
  if -32 ≤ i ∧ i ≤ 127 then .fix
  else if 0 ≤ i then (if i < 2^8 then .u8 else if i < 2^16 then .u16 else if i < 2^32 then .u32 else .u64)
  else (if -(2^7) ≤ i then .i8 else if -(2^15) ≤ i then .i16 else if -(2^31) ≤ i then .i32 else .i64)

def smallestLen (fixMax : Nat) (has8 : Bool) (n : Nat) : LenForm :=
  if n ≤ fixMax then .fix else if has8 && n < 2^8 then .l8 else if n < 2^16 then .l16 else .l32

mutual
/-- canonical wire tree of a value -/
def canon : V → W
  | .null => .nil
  | .bool b => .bool b
  | .int i => .int (smallestInt i) i
  | .float b => .f64 b
  | .str s => .str (smallestLen 31 true s.length) s
  | .bytes b => .bin (if b.length < 2^8 then .l8 else if b.length < 2^16 then .l16 else .l32) b
  | .arr xs => .arr (smallestLen 15 false xs.length) (canonL xs)
  | .map kvs => .map (smallestLen 15 false kvs.length) (canonKV kvs)
  | .tagged _ _ => .nil
def canonL : List V → List W
  | [] => []
  | x :: xs => canon x :: canonL xs
def canonKV : List (V × V) → List (W × W)
  | [] => []
  | (k, v) :: r => (canon k, canon v) :: canonKV r
end

def vKeyBytes : V → Option Bytes
  | .str s => some s
  | .bytes b => some (sanitizeG b)
  | _ => none

mutual
/-- the JSON-like values msgpack can carry: integers in [-2^63, 2^64), 64-bit float patterns, well-formed
    UTF-8 text, lengths below 2^32, maps with string (or byte string) keys that are duplicate-free as strings -/
def inDomain : V → Bool
  | .null => true
  | .bool _ => true
  | .int i => decide (-(2^63) ≤ i) && decide (i < 2^64)
  | .float b => decide (b < 2^64)
  | .str s => decide (s.length < 2^32) && validUTF8 s
  | .bytes b => decide (b.length < 2^32)
  | .arr xs => decide (xs.length < 2^32) && inDomainL xs
  | .map kvs => decide (kvs.length < 2^32) && inDomainKV kvs && nodupB (vKeysOf kvs)
  | .tagged _ _ => false
def inDomainL : List V → Bool
  | [] => true
  | x :: xs => inDomain x && inDomainL xs
def inDomainKV : List (V × V) → Bool
  | [] => true
  | (k, v) :: r => (vKeyBytes k).isSome && inDomain k && inDomain v && inDomainKV r
def vKeysOf : List (V × V) → List Bytes
  | [] => []
  | (k, _) :: r => (match vKeyBytes k with | some b => b | none => []) :: vKeysOf r
end

end FqModel.Serial.Msgpack
