import FqModel.Serial.Msgpack
import FqModel.Serial.Cbor
import FqModel.Serial.Bson
/-
  C16 — the source texts the serialization models were transliterated from and validated against
  (hand-written; compared with the REGENERATED texts of FqModel/Gen/SerialTables.lean in Props/C16.lean).

  `rowSem` gives the meaning (a `Msgpack.Kind`) of each NORMALISED decode function that may appear in a row of
  msgpack's `formatEntries` table (the sequence of decoder calls with their literal arguments; error message
  texts dropped); a row whose description is not listed has no known meaning (`none`).
-/
namespace FqModel.Serial.Pins
open FqModel.Serial

/-- meaning of the normalised `d:` function of a row (format/msgpack/msgpack.go:99-147) -/
def rowSem (body : List String) : Option Msgpack.Kind :=
  if body == ["SeekRel(-8)", "FieldU8(value)"] then some (.posfix)
  else if body == ["mapFn(-4,4)"] then some (.fixmap)
  else if body == ["arrayFn(-4,4)"] then some (.fixarr)
  else if body == ["SeekRel(-5)", "length=FieldU5(length)", "FieldUTF8(value,length)"] then some (.fixstr)
  else if body == ["FieldValueAny(value,nil)"] then some (.nil)
  else if body == ["Fatalf()"] then some (.neverUsed)
  else if body == ["FieldValueBool(value,false)"] then some (.bool false)
  else if body == ["FieldValueBool(value,true)"] then some (.bool true)
  else if body == ["FieldRawLen(value,FieldU8(length)*8)"] then some (.bin 1)
  else if body == ["FieldRawLen(value,FieldU16(length)*8)"] then some (.bin 2)
  else if body == ["FieldRawLen(value,FieldU32(length)*8)"] then some (.bin 4)
  else if body == ["extFn(8)"] then some (.ext 1)
  else if body == ["extFn(16)"] then some (.ext 2)
  else if body == ["extFn(32)"] then some (.ext 4)
  else if body == ["FieldF32(value)"] then some (.f32)
  else if body == ["FieldF64(value)"] then some (.f64)
  else if body == ["FieldU8(value)"] then some (.uint 1)
  else if body == ["FieldU16(value)"] then some (.uint 2)
  else if body == ["FieldU32(value)"] then some (.uint 4)
  else if body == ["FieldU64(value)"] then some (.uint 8)
  else if body == ["FieldS8(value)"] then some (.sint 1)
  else if body == ["FieldS16(value)"] then some (.sint 2)
  else if body == ["FieldS32(value)"] then some (.sint 4)
  else if body == ["FieldS64(value)"] then some (.sint 8)
  else if body == ["FieldS8(fixtype)", "FieldRawLen(value,1*8)"] then some (.fixext 1)
  else if body == ["FieldS8(fixtype)", "FieldRawLen(value,2*8)"] then some (.fixext 2)
  else if body == ["FieldS8(fixtype)", "FieldRawLen(value,4*8)"] then some (.fixext 4)
  else if body == ["FieldS8(fixtype)", "FieldRawLen(value,8*8)"] then some (.fixext 8)
  else if body == ["FieldS8(fixtype)", "FieldRawLen(value,16*8)"] then some (.fixext 16)
  else if body == ["FieldUTF8(value,FieldU8(length))"] then some (.str 1)
  else if body == ["FieldUTF8(value,FieldU16(length))"] then some (.str 2)
  else if body == ["FieldUTF8(value,FieldU32(length))"] then some (.str 4)
  else if body == ["arrayFn(0,16)"] then some (.arr 2)
  else if body == ["arrayFn(0,32)"] then some (.arr 4)
  else if body == ["mapFn(0,16)"] then some (.map 2)
  else if body == ["mapFn(0,32)"] then some (.map 4)
  else if body == ["SeekRel(-8)", "FieldS8(value)"] then some (.negfix)
  else none

/-- which branch of `_msgpack_torepr` (format/msgpack/msgpack.jq) a type symbol takes -/
inductive Branch | map | array | bin | value
deriving DecidableEq, Repr

def jqBranch (sym : String) : Branch :=
  if sym == "fixmap" || sym == "map16" || sym == "map32" then .map
  else if sym == "fixarray" || sym == "array16" || sym == "array32" then .array
  else if sym == "bin8" || sym == "bin16" || sym == "bin32" then .bin
  else .value

/-- which `V` constructor the model's `runKind` builds, i.e. which branch the fused reducer takes -/
def kindBranch : Msgpack.Kind → Branch
  | .fixmap => .map
  | .map _ => .map
  | .fixarr => .array
  | .arr _ => .array
  | .bin _ => .bin
  | _ => .value

def msgpackHelpers : List (String × List String) := [
  ("arrayFn", ["func(seekBits", "int64,", "lengthBits", "int)", "func(d", "*decode.D)", "{", "return", "func(d", "*decode.D)", "{", "d.SeekRel(seekBits)", "length", ":=", "d.FieldU(\"length\",", "lengthBits)", "d.FieldArray(\"elements\",", "func(d", "*decode.D)", "{", "for", "i", ":=", "uint64(0);", "i", "<", "length;", "i++", "{", "d.FieldStruct(\"element\",", "decodeMsgPackValue)", "}", "})", "}", "}"]),
  ("mapFn", ["func(seekBits", "int64,", "lengthBits", "int)", "func(d", "*decode.D)", "{", "return", "func(d", "*decode.D)", "{", "d.SeekRel(seekBits)", "length", ":=", "d.FieldU(\"length\",", "lengthBits)", "d.FieldArray(\"pairs\",", "func(d", "*decode.D)", "{", "for", "i", ":=", "uint64(0);", "i", "<", "length;", "i++", "{", "d.FieldStruct(\"pair\",", "func(d", "*decode.D)", "{", "d.FieldStruct(\"key\",", "decodeMsgPackValue)", "d.FieldStruct(\"value\",", "decodeMsgPackValue)", "})", "}", "})", "}", "}"]),
  ("extFn", ["func(lengthBits", "int)", "func(d", "*decode.D)", "{", "return", "func(d", "*decode.D)", "{", "length", ":=", "d.FieldU(\"length\",", "lengthBits)", "d.FieldS8(\"fixtype\")", "d.FieldRawLen(\"value\",", "int64(length)*8)", "}", "}"])
]

def msgpackDispatch : List String := ["typ", ":=", "d.FieldU8(\"type\",", "formatMap,", "scalar.UintHex)", ";", "if", "fe,", "ok", ":=", "formatMap.lookup(byte(typ));", "ok", "{", "fe.d(d)", "}", "else", "{", "panic(\"unreachable\")", "}"]

def msgpackLookup : List String := ["{", "for", "_,", "fe", ":=", "range", "fes", "{", "if", "u", ">=", "fe.r[0]", "&&", "u", "<=", "fe.r[1]", "{", "return", "fe,", "true", "}", "}", "return", "formatEntry{},", "false", "}"]

def cborMajorTypes : List (String × String × List String) := [
  ("majorTypePositiveInt", "positive_int", ["func(d", "*decode.D,", "shortCount", "uint64,", "count", "uint64)", "any", "{", "d.FieldValueUint(\"value\",", "count)", "return", "nil", "}"]),
  ("majorTypeNegativeInt", "negative_int", ["func(d", "*decode.D,", "shortCount", "uint64,", "count", "uint64)", "any", "{", "n", ":=", "new(big.Int)", "n.SetUint64(count).Neg(n).Sub(n,", "mathx.BigIntOne)", "d.FieldValueBigInt(\"value\",", "n)", "return", "nil", "}"]),
  ("majorTypeBytes", "bytes", ["func(d", "*decode.D,", "shortCount", "uint64,", "count", "uint64)", "any", "{", "if", "shortCount", "==", "shortCountIndefinite", "{", "bb", ":=", "&bytes.Buffer{}", "d.FieldArray(\"items\",", "func(d", "*decode.D)", "{", "for", "d.PeekUintBits(8)", "!=", "breakMarker", "{", "d.FieldStruct(\"item\",", "func(d", "*decode.D)", "{", "v", ":=", "decodeCBORValue(d)", "switch", "v", ":=", "v.(type)", "{", "case", "[]byte:", "bb.Write(v)", "default:", "d.Fatalf(\"non-bytes", "in", "bytes", "stream", "%v\",", "v)", "}", "})", "}", "})", "d.FieldRootBitBuf(\"value\",", "bitio.NewBitReader(bb.Bytes(),", "-1))", "return", "nil", "}", "buf", ":=", "d.ReadAllBits(d.FieldRawLen(\"value\",", "int64(count)*8))", "return", "buf", "}"]),
  ("majorTypeUTF8", "utf8", ["func(d", "*decode.D,", "shortCount", "uint64,", "count", "uint64)", "any", "{", "if", "shortCount", "==", "shortCountIndefinite", "{", "sb", ":=", "&strings.Builder{}", "d.FieldArray(\"items\",", "func(d", "*decode.D)", "{", "for", "d.PeekUintBits(8)", "!=", "breakMarker", "{", "d.FieldStruct(\"item\",", "func(d", "*decode.D)", "{", "v", ":=", "decodeCBORValue(d)", "switch", "v", ":=", "v.(type)", "{", "case", "string:", "sb.WriteString(v)", "default:", "d.Fatalf(\"non-string", "in", "string", "stream", "%v\",", "v)", "}", "})", "}", "})", "d.FieldValueStr(\"value\",", "sb.String())", "return", "nil", "}", "return", "d.FieldUTF8(\"value\",", "int(count))", "}"]),
  ("majorTypeArray", "array", ["func(d", "*decode.D,", "shortCount", "uint64,", "count", "uint64)", "any", "{", "d.FieldArray(\"elements\",", "func(d", "*decode.D)", "{", "for", "i", ":=", "uint64(0);", "true;", "i++", "{", "if", "shortCount", "==", "shortCountIndefinite", "{", "if", "d.PeekUintBits(8)", "==", "breakMarker", "{", "break", "}", "}", "else", "if", "i", ">=", "count", "{", "break", "}", "d.FieldStruct(\"element\",", "func(d", "*decode.D)", "{", "decodeCBORValue(d)", "})", "}", "})", "if", "shortCount", "==", "shortCountIndefinite", "{", "d.FieldU8(\"break\")", "}", "return", "nil", "}"]),
  ("majorTypeMap", "map", ["func(d", "*decode.D,", "shortCount", "uint64,", "count", "uint64)", "any", "{", "d.FieldArray(\"pairs\",", "func(d", "*decode.D)", "{", "for", "i", ":=", "uint64(0);", "true;", "i++", "{", "if", "shortCount", "==", "shortCountIndefinite", "{", "if", "d.PeekUintBits(8)", "==", "breakMarker", "{", "break", "}", "}", "else", "if", "i", ">=", "count", "{", "break", "}", "d.FieldStruct(\"pair\",", "func(d", "*decode.D)", "{", "d.FieldStruct(\"key\",", "func(d", "*decode.D)", "{", "decodeCBORValue(d)", "})", "d.FieldStruct(\"value\",", "func(d", "*decode.D)", "{", "decodeCBORValue(d)", "})", "})", "}", "})", "if", "shortCount", "==", "shortCountIndefinite", "{", "d.FieldU8(\"break\")", "}", "return", "nil", "}"]),
  ("majorTypeSematic", "semantic", ["func(d", "*decode.D,", "shortCount", "uint64,", "count", "uint64)", "any", "{", "d.FieldValueUint(\"tag\",", "count,", "tagMap)", "d.FieldStruct(\"value\",", "func(d", "*decode.D)", "{", "decodeCBORValue(d)", "})", "return", "nil", "}"]),
  ("majorTypeSpecialFloat", "special_float", ["func(d", "*decode.D,", "shortCount", "uint64,", "count", "uint64)", "any", "{", "switch", "shortCount", "{", "case", "shortCountSpecialFalse:", "d.FieldValueBool(\"value\",", "false)", "case", "shortCountSpecialTrue:", "d.FieldValueBool(\"value\",", "true)", "case", "shortCountSpecialNull:", "d.FieldValueAny(\"value\",", "nil)", "case", "shortCountSpecialUndefined:", "case", "24:", "case", "shortCountSpecialFloat16Bit:", "d.FieldF16(\"value\")", "case", "shortCountSpecialFloat32Bit:", "d.FieldF32(\"value\")", "case", "shortCountSpecialFloat64Bit:", "d.FieldF64(\"value\")", "case", "28,", "29,", "30:", "}", "return", "nil", "}"])
]

def cborDispatch : List String := ["typ", ":=", "d.FieldU3(\"major_type\",", "majorTypeMap)", ";", "shortCount", ":=", "d.FieldU5(\"short_count\",", "shortCountMap)", ";", "count", ":=", "shortCount", ";", "if", "typ", "!=", "majorTypeSpecialFloat", "{", "switch", "count", "{", "case", "shortCountVariable8Bit:", "count", "=", "d.FieldU8(\"variable_count\")", "case", "shortCountVariable16Bit:", "count", "=", "d.FieldU16(\"variable_count\")", "case", "shortCountVariable32Bit:", "count", "=", "d.FieldU32(\"variable_count\")", "case", "shortCountVariable64Bit:", "count", "=", "d.FieldU64(\"variable_count\")", "case", "28,", "29,", "30:", "d.Fatalf(\"incorrect", "shortCount", "%d\",", "count)", "}", "}", ";", "if", "mt,", "ok", ":=", "majorTypeMap[typ];", "ok", "{", "if", "mt.d", "!=", "nil", "{", "return", "mt.d(d,", "shortCount,", "count)", "}", "return", "nil", "}", ";", "panic(\"unreachable\")"]

def bencodeStrIntUntil : List String := ["{", "return", "func(d", "*decode.D)", "int64", "{", "i", ":=", "d.PeekFindByte(b,", "21)", "if", "i", "==", "-1", "{", "d.Fatalf(\"decodeStrIntUntil:", "failed", "to", "find", "%v\",", "b)", "}", "s", ":=", "d.UTF8(int(i))", "n,", "err", ":=", "strconv.ParseInt(s,", "10,", "64)", "if", "err", "!=", "nil", "{", "d.Fatalf(\"decodeStrIntUntil:", "%q:", "%s\",", "s,", "err)", "}", "return", "n", "}", "}"]

def bencodeValue : List String := ["{", "typ", ":=", "d.FieldUTF8(\"type\",", "1,", "typeToNames)", "switch", "typ", "{", "case", "\"0\",", "\"1\",", "\"2\",", "\"3\",", "\"4\",", "\"5\",", "\"6\",", "\"7\",", "\"8\",", "\"9\":", "d.SeekRel(-8)", "length", ":=", "d.FieldSintFn(\"length\",", "decodeStrIntUntil(':'))", "d.FieldUTF8(\"separator\",", "1,", "d.StrAssert(\":\"))", "d.FieldUTF8(\"value\",", "int(length))", "case", "\"i\":", "d.FieldSintFn(\"value\",", "decodeStrIntUntil('e'))", "d.FieldUTF8(\"end\",", "1,", "d.StrAssert(\"e\"))", "case", "\"l\":", "d.FieldArray(\"values\",", "func(d", "*decode.D)", "{", "for", "d.PeekUintBits(8)", "!=", "'e'", "{", "d.FieldStruct(\"value\",", "decodeBencodeValue)", "}", "})", "d.FieldUTF8(\"end\",", "1,", "d.StrAssert(\"e\"))", "case", "\"d\":", "d.FieldArray(\"pairs\",", "func(d", "*decode.D)", "{", "for", "d.PeekUintBits(8)", "!=", "'e'", "{", "d.FieldStruct(\"pair\",", "func(d", "*decode.D)", "{", "d.FieldStruct(\"key\",", "decodeBencodeValue)", "d.FieldStruct(\"value\",", "decodeBencodeValue)", "})", "}", "})", "d.FieldUTF8(\"end\",", "1,", "d.StrAssert(\"e\"))", "default:", "d.Fatalf(\"unknown", "type", "%v\",", "typ)", "}", "}"]

def msgpackJq : List String := ["def", "_msgpack_torepr:", "if", ".type", "|", ".", "==", "\"fixmap\"", "or", ".", "==", "\"map16\"", "or", ".", "==", "\"map32\"", "then", "(", ".pairs", "|", "map({key:", "(.key", "|", "_msgpack_torepr),", "value:", "(.value", "|", "_msgpack_torepr)})", "|", "from_entries", ")", "elif", ".type", "|", ".", "==", "\"fixarray\"", "or", ".", "==", "\"array16\"", "or", ".", "==", "\"array32\"", "then", ".elements", "|", "map(_msgpack_torepr)", "elif", ".type", "|", ".", "==", "\"bin8\"", "or", ".", "==", "\"bin16\"", "or", ".", "==", "\"bin32\"", "then", ".value", "|", "tostring", "else", ".value", "|", "tovalue", "end;"]

def cborJq : List String := ["def", "_cbor_torepr:", "if", ".major_type", "==", "\"map\"", "then", "(", ".pairs", "|", "map({key:", "(.key", "|", "_cbor_torepr),", "value:", "(.value", "|", "_cbor_torepr)})", "|", "from_entries", ")", "elif", ".major_type", "==", "\"array\"", "then", ".elements", "|", "map(_cbor_torepr)", "elif", ".major_type", "==", "\"bytes\"", "then", ".value", "|", "tostring", "else", ".value", "|", "tovalue", "end;"]

def bencodeJq : List String := ["def", "_bencode_torepr:", "if", ".type", "==", "\"string\"", "then", ".value", "|", "tovalue", "elif", ".type", "==", "\"integer\"", "then", ".value", "|", "tovalue", "elif", ".type", "==", "\"list\"", "then", ".values", "|", "map(_bencode_torepr)", "elif", ".type", "==", "\"dictionary\"", "then", "(", ".pairs", "|", "map({key:", "(.key", "|", "_bencode_torepr),", "value:", "(.value", "|", "_bencode_torepr)})", "|", "from_entries", ")", "else", "error(\"unknown", "type", "\\(.type)\")", "end;"]

/-- cbor.go constants as the model uses them -/
def cborConsts : List (String × Nat) := [
  ("shortCountVariable8Bit", Cbor.shortCountVariable8Bit), ("shortCountVariable16Bit", Cbor.shortCountVariable16Bit),
  ("shortCountVariable32Bit", Cbor.shortCountVariable32Bit), ("shortCountVariable64Bit", Cbor.shortCountVariable64Bit),
  ("shortCountIndefinite", Cbor.shortCountIndefinite),
  ("shortCountSpecialFalse", Cbor.shortCountSpecialFalse), ("shortCountSpecialTrue", Cbor.shortCountSpecialTrue),
  ("shortCountSpecialNull", Cbor.shortCountSpecialNull), ("shortCountSpecialUndefined", Cbor.shortCountSpecialUndefined),
  ("shortCountSpecialFloat16Bit", Cbor.shortCountSpecialFloat16Bit), ("shortCountSpecialFloat32Bit", Cbor.shortCountSpecialFloat32Bit),
  ("shortCountSpecialFloat64Bit", Cbor.shortCountSpecialFloat64Bit),
  ("majorTypePositiveInt", Cbor.majorTypePositiveInt), ("majorTypeNegativeInt", Cbor.majorTypeNegativeInt),
  ("majorTypeBytes", Cbor.majorTypeBytes), ("majorTypeUTF8", Cbor.majorTypeUTF8), ("majorTypeArray", Cbor.majorTypeArray),
  ("majorTypeMap", Cbor.majorTypeMap), ("majorTypeSematic", Cbor.majorTypeSematic),
  ("majorTypeSpecialFloat", Cbor.majorTypeSpecialFloat), ("breakMarker", Cbor.breakMarker.toNat)]

def bsonDocument : List String := ["{", "size", ":=", "d.FieldS32(\"size\")", "d.FramedFn((size-4)*8,", "func(d", "*decode.D)", "{", "d.FieldArray(\"elements\",", "func(d", "*decode.D)", "{", "for", "d.BitsLeft()", ">", "8", "{", "d.FieldStruct(\"element\",", "func(d", "*decode.D)", "{", "typ", ":=", "d.FieldU8(\"type\",", "elementTypeMap)", "d.FieldUTF8Null(\"name\")", "switch", "typ", "{", "case", "elementTypeDouble:", "d.FieldF64(\"value\")", "case", "elementTypeString:", "length", ":=", "d.FieldU32(\"length\")", "d.FieldUTF8NullFixedLen(\"value\",", "int(length))", "case", "elementTypeDocument:", "d.FieldStruct(\"value\",", "decodeBSONDocument)", "case", "elementTypeArray:", "d.FieldStruct(\"value\",", "decodeBSONDocument)", "case", "elementTypeBinary:", "length", ":=", "d.FieldS32(\"length\")", "d.FieldU8(\"subtype\")", "d.FieldRawLen(\"value\",", "length*8)", "case", "elementTypeUndefined:", "case", "elementTypeObjectID:", "d.FieldRawLen(\"value\",", "12*8)", "case", "elementTypeBoolean:", "d.FieldU8(\"value\")", "case", "elementTypeDatetime:", "d.FieldS64(\"value\")", "case", "elementTypeNull:", "d.FieldValueAny(\"value\",", "nil)", "case", "elementTypeRegexp:", "d.FieldUTF8Null(\"value\")", "d.FieldUTF8Null(\"options\")", "case", "elementTypeJavaScript:", "length", ":=", "d.FieldS32(\"length\")", "d.FieldUTF8NullFixedLen(\"value\",", "int(length))", "case", "elementTypeInt32:", "d.FieldS32(\"value\")", "case", "elementTypeTimestamp:", "d.FieldU64(\"value\")", "case", "elementTypeInt64:", "d.FieldS64(\"value\")", "case", "elementTypeDecimal128:", "d.FieldRawLen(\"value\",", "128)", "case", "elementTypeMinKey:", "d.FieldValueAny(\"value\",", "nil)", "case", "elementTypeMaxKey:", "d.FieldValueAny(\"value\",", "nil)", "default:", "d.FieldRawLen(\"value\",", "d.BitsLeft())", "}", "})", "}", "})", "d.FieldU8(\"terminator\",", "d.UintValidate(0))", "})", "}"]

def bsonDecode : List String := ["{", "d.Endian", "=", "decode.LittleEndian", "decodeBSONDocument(d)", "return", "nil", "}"]

def bsonJq : List String := ["def", "_bson_torepr:", "def", "_f:", "if", ".type", "==", "null", "or", ".type", "==", "\"array\"", "then", "(", ".value.elements", "|", "map(_f)", ")", "elif", ".type", "==", "\"document\"", "then", "(", ".value.elements", "|", "map({key:", ".name,", "value:", "_f})", "|", "from_entries", ")", "elif", ".type", "==", "\"boolean\"", "then", ".value", "!=", "0", "else", ".value", "|", "tovalue", "end;", "(", "{type:", "\"document\",", "value:", ".}", "|", "_f", ");"]

/-- bson.go element type constants as the model's encoder/decoder use them -/
def bsonConsts : List (String × Nat) := [
  ("elementTypeDouble", (Bson.typeByte (.double 0)).toNat), ("elementTypeString", (Bson.typeByte (.str [])).toNat),
  ("elementTypeDocument", (Bson.typeByte (.doc [] 0)).toNat), ("elementTypeArray", (Bson.typeByte (.arr [] 0)).toNat),
  ("elementTypeBinary", (Bson.typeByte (.bin 0 [])).toNat), ("elementTypeUndefined", (Bson.typeByte .undefined).toNat),
  ("elementTypeObjectID", (Bson.typeByte (.objectid [])).toNat), ("elementTypeBoolean", (Bson.typeByte (.bool 0)).toNat),
  ("elementTypeDatetime", (Bson.typeByte (.datetime 0)).toNat), ("elementTypeNull", (Bson.typeByte .null).toNat),
  ("elementTypeRegexp", (Bson.typeByte (.regexp [] [])).toNat), ("elementTypeJavaScript", (Bson.typeByte (.js [])).toNat),
  ("elementTypeInt32", (Bson.typeByte (.int32 0)).toNat), ("elementTypeTimestamp", (Bson.typeByte (.timestamp 0)).toNat),
  ("elementTypeInt64", (Bson.typeByte (.int64 0)).toNat), ("elementTypeDecimal128", (Bson.typeByte (.decimal128 [])).toNat),
  ("elementTypeMinKey", (Bson.typeByte .minkey).toNat), ("elementTypeMaxKey", (Bson.typeByte .maxkey).toNat)]

def jsonDecodeEx : List String := ["{", "var", "vs", "[]any", "jd", ":=", "stdjson.NewDecoder(bitio.NewIOReader(d.RawLen(d.Len())))", "jd.UseNumber()", "foundEOF", ":=", "false", "for", "{", "var", "v", "any", "if", "err", ":=", "jd.Decode(&v);", "err", "!=", "nil", "{", "if", "errors.Is(err,", "io.EOF)", "{", "foundEOF", "=", "true", "if", "lines", "{", "break", "}", "else", "if", "len(vs)", "==", "1", "{", "break", "}", "}", "else", "if", "lines", "{", "d.Fatalf(\"%s\",", "err.Error())", "}", "break", "}", "vs", "=", "append(vs,", "v)", "}", "if", "!lines", "&&", "(len(vs)", "!=", "1", "||", "!foundEOF)", "{", "d.Fatalf(\"trialing", "data", "after", "top-level", "value\")", "}", "var", "s", "scalar.Any", "if", "lines", "{", "if", "len(vs)", "==", "0", "{", "d.Fatalf(\"not", "lines", "found\")", "}", "s.Actual", "=", "gojq.NormalizeNumbers(vs)", "}", "else", "{", "s.Actual", "=", "gojq.NormalizeNumbers(vs[0])", "}", "d.Value.V", "=", "&s", "d.Value.Range.Len", "=", "d.Len()", "return", "nil", "}"]

def berDecodeLength : List String := ["{", "n", ":=", "d.U8()", "if", "n&0b1000_0000", "!=", "0", "{", "n", "=", "n", "&", "0b0111_1111", "if", "n", "==", "0", "{", "return", "lengthIndefinite", "}", "if", "n", "==", "127", "{", "d.Errorf(\"length", "127", "reserved\")", "}", "return", "d.U(int(n)", "*", "8)", "}", "return", "n", "&", "0b0111_1111", "}"]

def berDecodeTagNumber : List String := ["{", "v", ":=", "d.U5()", "moreBytes", ":=", "v", "==", "0b11111", "for", "moreBytes", "{", "moreBytes", "=", "d.Bool()", "v", "=", "v<<7", "|", "d.U7()", "}", "return", "v", "}"]

def berValue : List String := ["{", "class", ":=", "d.FieldU2(\"class\",", "tagClassMap)", "form", ":=", "d.FieldU1(\"form\",", "constructedPrimitiveMap)", "_", "=", "parentTag", "_", "=", "parentForm", "var", "tag", "uint64", "switch", "class", "{", "case", "classUniversal:", "tag", "=", "d.FieldUintFn(\"tag\",", "decodeTagNumber,", "universalTypeMap,", "scalar.UintHex)", "default:", "tag", "=", "d.FieldUintFn(\"tag\",", "decodeTagNumber)", "}", "length", ":=", "d.FieldUintFn(\"length\",", "decodeLength,", "lengthMap)", "var", "l", "int64", "switch", "length", "{", "case", "lengthIndefinite:", "if", "(class", "!=", "classUniversal", "||", "tag", "!=", "universalTypeNull)", "&&", "form", "==", "formPrimitive", "{", "d.Fatalf(\"primitive", "with", "indefinite", "length\")", "}", "l", "=", "d.BitsLeft()", "default:", "l", "=", "int64(length)", "*", "8", "}", "d.LimitedFn(l,", "func(d", "*decode.D)", "{", "switch", "{", "case", "form", "==", "formConstructed", "||", "tag", "==", "universalTypeSequence", "||", "tag", "==", "universalTypeSet:", "d.FieldArray(\"constructed\",", "func(d", "*decode.D)", "{", "for", "!d.End()", "{", "if", "length", "==", "lengthIndefinite", "&&", "d.PeekUintBits(16)", "==", "lengthEndMarker", "{", "break", "}", "if", "form", "==", "formConstructed", "&&", "bib", "==", "nil", "&&", "sb", "==", "nil", "{", "switch", "tag", "{", "case", "universalTypeBitString:", "bib", "=", "&bitio.Buffer{}", "case", "universalTypeOctetString:", "bib", "=", "&bitio.Buffer{}", "case", "universalTypeUTF8string,", "universalTypeNumericString,", "universalTypePrintableString,", "universalTypeTeletexString,", "universalTypeVideotexString,", "universalTypeIA5String,", "universalTypeUTCTime,", "universalTypeVisibleString,", "universalTypeGeneralString:", "sb", "=", "&strings.Builder{}", "}", "}", "d.FieldStruct(\"object\",", "func(d", "*decode.D)", "{", "decodeASN1BERValue(d,", "bib,", "sb,", "form,", "tag)", "})", "}", "})", "if", "length", "==", "lengthIndefinite", "{", "d.FieldU16(\"end_marker\")", "}", "if", "form", "==", "formConstructed", "{", "switch", "tag", "{", "case", "universalTypeBitString:", "if", "bib", "!=", "nil", "{", "buf,", "bufLen", ":=", "bib.Bits()", "d.FieldRootBitBuf(\"value\",", "bitio.NewBitReader(buf,", "bufLen))", "}", "case", "universalTypeOctetString:", "if", "bib", "!=", "nil", "{", "buf,", "bufLen", ":=", "bib.Bits()", "d.FieldRootBitBuf(\"value\",", "bitio.NewBitReader(buf,", "bufLen))", "}", "case", "universalTypeUTF8string,", "universalTypeNumericString,", "universalTypePrintableString,", "universalTypeTeletexString,", "universalTypeVideotexString,", "universalTypeIA5String,", "universalTypeUTCTime,", "universalTypeVisibleString,", "universalTypeGeneralString:", "if", "sb", "!=", "nil", "{", "d.FieldValueStr(\"value\",", "sb.String())", "}", "}", "}", "case", "class", "==", "classUniversal", "&&", "tag", "==", "universalTypeEndOfContent:", "case", "class", "==", "classUniversal", "&&", "tag", "==", "universalTypeBoolean:", "d.FieldU8(\"value\",", "scalar.UintRangeToScalar{", "{Range:", "[2]uint64{0,", "0},", "S:", "scalar.Uint{Sym:", "false}},", "{Range:", "[2]uint64{0x01,", "0xff1},", "S:", "scalar.Uint{Sym:", "true}},", "})", "case", "class", "==", "classUniversal", "&&", "tag", "==", "universalTypeInteger:", "if", "length", ">", "8", "{", "d.FieldSBigInt(\"value\",", "int(length)*8)", "}", "else", "{", "d.FieldS(\"value\",", "int(length)*8)", "}", "case", "class", "==", "classUniversal", "&&", "tag", "==", "universalTypeBitString:", "unusedBitsCount", ":=", "d.FieldU8(\"unused_bits_count\")", "if", "unusedBitsCount", ">", "7", "{", "d.Fatalf(\"unusedBitsCount", "%d", ">", "7\",", "unusedBitsCount)", "}", "br", ":=", "d.FieldRawLen(\"value\",", "int64(length-1)*8-int64(unusedBitsCount))", "if", "bib", "!=", "nil", "{", "if", "_,", "err", ":=", "bitio.Copy(bib,", "br);", "err", "!=", "nil", "{", "d.IOPanic(err,", "\"value\",", "\"bitio.Copy\")", "}", "}", "if", "unusedBitsCount", ">", "0", "{", "d.FieldRawLen(\"unused_bits\",", "int64(unusedBitsCount))", "}", "case", "class", "==", "classUniversal", "&&", "tag", "==", "universalTypeOctetString:", "br", ":=", "d.FieldRawLen(\"value\",", "int64(length)*8)", "if", "bib", "!=", "nil", "{", "if", "_,", "err", ":=", "bitio.Copy(bib,", "br);", "err", "!=", "nil", "{", "d.IOPanic(err,", "\"value\",", "\"bitio.Copy\")", "}", "}", "case", "class", "==", "classUniversal", "&&", "tag", "==", "universalTypeNull:", "d.FieldValueAny(\"value\",", "nil)", "case", "class", "==", "classUniversal", "&&", "tag", "==", "universalTypeObjectIdentifier:", "d.FieldArray(\"value\",", "func(d", "*decode.D)", "{", "d.FieldUintFn(\"oid\",", "func(d", "*decode.D)", "uint64", "{", "return", "d.U8()", "/", "40", "})", "d.SeekRel(-8)", "d.FieldUintFn(\"oid\",", "func(d", "*decode.D)", "uint64", "{", "return", "d.U8()", "%", "40", "})", "for", "!d.End()", "{", "d.FieldUintFn(\"oid\",", "func(d", "*decode.D)", "uint64", "{", "more", ":=", "true", "var", "n", "uint64", "for", "more", "{", "b", ":=", "d.U8()", "n", "=", "n<<7", "|", "b&0b0111_1111", "more", "=", "b&0b1000_0000", "!=", "0", "}", "return", "n", "})", "}", "})", "case", "class", "==", "classUniversal", "&&", "tag", "==", "universalTypeObjectDescriptor:", "case", "class", "==", "classUniversal", "&&", "tag", "==", "universalTypeExternal:", "d.FieldRawLen(\"value\",", "int64(length)*8)", "case", "class", "==", "classUniversal", "&&", "tag", "==", "universalTypeReal:", "switch", "length", "{", "case", "0:", "d.FieldValueUint(\"value\",", "0)", "default:", "switch", "d.FieldBool(\"binary_encoding\")", "{", "case", "true:", "s", ":=", "d.FieldScalarBool(\"sign\",", "scalar.BoolMapSymSint{", "true:", "-1,", "false:", "1,", "}).SymSint()", "base", ":=", "d.FieldScalarU2(\"base\",", "scalar.UintMapSymUint{", "0b00:", "2,", "0b01:", "8,", "0b10:", "16,", "0b11:", "0,", "}).SymUint()", "scale", ":=", "d.FieldU2(\"scale\")", "format", ":=", "d.FieldU2(\"format\")", "var", "exp", "int64", "switch", "format", "{", "case", "0b00:", "exp", "=", "d.FieldS8(\"exp\")", "case", "0b01:", "exp", "=", "d.FieldS16(\"exp\")", "case", "0b10:", "exp", "=", "d.FieldS24(\"exp\")", "default:", "n", ":=", "d.FieldU8(\"exp_bytes\")", "exp", "=", "d.FieldS(\"exp\",", "int(n)*8)", "}", "n", ":=", "d.FieldU(\"n\",", "int(d.BitsLeft()))", "m", ":=", "float64(s)", "*", "float64(n)", "*", "math.Pow(float64(base),", "float64(exp))", "*", "float64(int(1)<<scale)", "d.FieldValueFlt(\"value\",", "m)", "case", "false:", "switch", "d.FieldBool(\"decimal_encoding\")", "{", "case", "true:", "n", ":=", "d.FieldU6(\"special\",", "scalar.UintMapSymStr{", "decimalPlusInfinity:", "\"plus_infinity\",", "decimalMinusInfinity:", "\"minus_infinity\",", "decimalNan:", "\"nan\",", "decimalMinusZero:", "\"minus_zero\",", "})", "switch", "n", "{", "case", "decimalPlusInfinity:", "d.FieldValueFlt(\"value\",", "math.Inf(1))", "case", "decimalMinusInfinity:", "d.FieldValueFlt(\"value\",", "math.Inf(-1))", "case", "decimalNan:", "d.FieldValueFlt(\"value\",", "math.NaN())", "case", "decimalMinusZero:", "d.FieldValueFlt(\"value\",", "-0)", "}", "case", "false:", "d.FieldU6(\"representation\",", "scalar.UintMapSymStr{", "0b00_00_01:", "\"nr1\",", "0b00_00_10:", "\"nr2\",", "0b00_00_11:", "\"nr3\",", "})", "d.FieldFltFn(\"value\",", "func(d", "*decode.D)", "float64", "{", "n,", "_", ":=", "strconv.ParseFloat(d.UTF8(int(d.BitsLeft()/8)),", "64)", "return", "n", "})", "}", "}", "}", "case", "class", "==", "classUniversal", "&&", "tag", "==", "universalTypeUTF8string,", "class", "==", "classUniversal", "&&", "tag", "==", "universalTypeNumericString,", "class", "==", "classUniversal", "&&", "tag", "==", "universalTypePrintableString,", "class", "==", "classUniversal", "&&", "tag", "==", "universalTypeTeletexString,", "class", "==", "classUniversal", "&&", "tag", "==", "universalTypeVideotexString,", "class", "==", "classUniversal", "&&", "tag", "==", "universalTypeIA5String,", "class", "==", "classUniversal", "&&", "tag", "==", "universalTypeUTCTime,", "class", "==", "classUniversal", "&&", "tag", "==", "universalTypeVisibleString,", "class", "==", "classUniversal", "&&", "tag", "==", "universalTypeGeneralString:", "s", ":=", "d.FieldUTF8(\"value\",", "int(length))", "if", "sb", "!=", "nil", "{", "sb.WriteString(s)", "}", "case", "class", "==", "classUniversal", "&&", "tag", "==", "universalTypeGeneralizedtime:", "d.FieldRawLen(\"value\",", "int64(length)*8)", "default:", "d.FieldRawLen(\"value\",", "l)", "}", "})", "}"]

def berJq : List String := ["def", "_asn1_ber_torepr:", "if", ".class", "==", "\"universal\"", "then", "if", ".tag", "|", ".", "==", "\"sequence\"", "or", ".", "==", "\"set\"", "then", ".constructed", "|", "map(_asn1_ber_torepr)", "else", ".value", "|", "tovalue", "end", "else", ".constructed", "|", "map(_asn1_ber_torepr)", "end;"]

/-- cbor major types and short counts by ROLE (the symbol fq shows), as the model uses them -/
def cborMajorBySym : List (String × Nat) := [
  ("positive_int", Cbor.majorTypePositiveInt), ("negative_int", Cbor.majorTypeNegativeInt), ("bytes", Cbor.majorTypeBytes),
  ("utf8", Cbor.majorTypeUTF8), ("array", Cbor.majorTypeArray), ("map", Cbor.majorTypeMap),
  ("semantic", Cbor.majorTypeSematic), ("special_float", Cbor.majorTypeSpecialFloat)]

def cborShortCountBySym : List (String × Nat) := [
  ("8bit", Cbor.shortCountVariable8Bit), ("16bit", Cbor.shortCountVariable16Bit), ("32bit", Cbor.shortCountVariable32Bit),
  ("64bit", Cbor.shortCountVariable64Bit), ("indefinite", Cbor.shortCountIndefinite)]

end FqModel.Serial.Pins
