import FqModel.Bits
import FqModel.Serial.Common
/-
  C16 — the textual value syntax of the line protocol (driver side), core only.

    value := n | t | f | i<decimal> | d<16 hex digits: binary64 pattern> | s<hex>|s- | b<hex>|b-
           | A<count>,value,…  | M<count>,key,value,…
  tokens are separated by `,`; maps are rendered with keys sorted bytewise (Go string order).
-/
namespace FqModel.Serial
open FqModel

def hexOrDash (b : Bytes) : String := if b.isEmpty then "-" else hexOfBytes b

def hex16 (n : Nat) : String :=
  String.ofList ((List.range 16).reverse.map (fun i => hexDigit (n / 16^i % 16)))

def bytesLt : Bytes → Bytes → Bool
  | [], [] => false
  | [], _ :: _ => true
  | _ :: _, [] => false
  | a :: as, b :: bs => if a < b then true else if b < a then false else bytesLt as bs

def keyOfV : V → Bytes
  | .str s => s
  | .bytes b => b
  | _ => []

def insertKV (x : V × V) : List (V × V) → List (V × V)
  | [] => [x]
  | y :: ys => if bytesLt (keyOfV x.1) (keyOfV y.1) then x :: y :: ys else y :: insertKV x ys

def sortKV (l : List (V × V)) : List (V × V) := l.foldl (fun acc x => insertKV x acc) []

partial def render : V → String
  | .null => "n"
  | .bool true => "t"
  | .bool false => "f"
  | .int i => s!"i{i}"
  | .float b => "d" ++ hex16 b
  | .str s => "s" ++ hexOrDash s
  | .bytes b => "b" ++ hexOrDash b
  | .arr xs => ",".intercalate (s!"A{xs.length}" :: xs.map render)
  | .map kvs => ",".intercalate (s!"M{kvs.length}" :: (sortKV kvs).flatMap (fun (k, v) => [render k, render v]))
  | .tagged t v => s!"T{t}," ++ render v

def parseHexTok (s : String) : Option Bytes := if s == "-" then some [] else bytesOfHex s

def parseNatHex (s : String) : Option Nat :=
  s.toList.foldl (fun acc c => match acc, hexVal c with
    | some a, some d => some (a * 16 + d)
    | _, _ => none) (some 0)

mutual
partial def parseV : List String → Option (V × List String)
  | [] => none
  | tok :: rest =>
    let body := (tok.drop 1).toString
    match tok.front with
    | 'n' => if tok == "n" then some (.null, rest) else none
    | 't' => if tok == "t" then some (.bool true, rest) else none
    | 'f' => if tok == "f" then some (.bool false, rest) else none
    | 'i' => body.toInt?.map (fun i => (.int i, rest))
    | 'd' => if body.length == 16 then (parseNatHex body).map (fun b => (.float b, rest)) else none
    | 's' => (parseHexTok body).map (fun b => (.str b, rest))
    | 'b' => (parseHexTok body).map (fun b => (.bytes b, rest))
    | 'A' => match body.toNat? with
      | some n => (parseVs n rest).map (fun (xs, r) => (.arr xs, r))
      | none => none
    | 'M' => match body.toNat? with
      | some n => (parseKVs n rest).map (fun (xs, r) => (.map xs, r))
      | none => none
    | 'T' => match body.toNat? with
      | some t => (parseV rest).map (fun (v, r) => (.tagged t v, r))
      | none => none
    | _ => none
partial def parseVs : Nat → List String → Option (List V × List String)
  | 0, ts => some ([], ts)
  | n+1, ts => match parseV ts with
    | none => none
    | some (v, ts') => (parseVs n ts').map (fun (vs, r) => (v :: vs, r))
partial def parseKVs : Nat → List String → Option (List (V × V) × List String)
  | 0, ts => some ([], ts)
  | n+1, ts => match parseV ts with
    | none => none
    | some (k, ts1) => match parseV ts1 with
      | none => none
      | some (v, ts2) => (parseKVs n ts2).map (fun (kvs, r) => ((k, v) :: kvs, r))
end

def parseValue (s : String) : Option V :=
  match parseV (s.splitOn ",") with
  | some (v, []) => some v
  | _ => none

end FqModel.Serial
