import FqModel.Serial.SourcePins
import FqModel.Gen.SerialTables
/-
  C16 — which ties between the models and the current source hold in THIS run.

  `…Facts` : regenerated SEMANTIC facts (msgpack type table rows with their meaning, constants by role/value).
  `…Text`  : the current source text of the decoder is the text the model was transliterated from.  A text pin
             is a tripwire, not a fact about behaviour: when it does not match, nothing fails — the format's tie
             is CORRESPONDENCE-ONLY for the run and the harness runs its deep generators for that format
             (the driver reports these flags with `--ties`).
  The property theorems of Props/C16.lean about the regenerated facts are conditional on the `…Facts` flags.
-/
namespace FqModel.Serial.Ties
open FqModel.Serial FqModel.Gen.SerialTables

def msgpackRowsFacts : Bool :=
  decide (msgpackRows.map (fun r => (r.1, r.2.1, Pins.rowSem r.2.2.2)) = Msgpack.rows.map (fun r => (r.1, r.2.1, some r.2.2)))

def msgpackSymbolsFacts : Bool :=
  msgpackRows.all (fun r => decide ((Pins.rowSem r.2.2.2).map Pins.kindBranch = some (Pins.jqBranch r.2.2.1)))

def msgpackText : Bool :=
  decide (msgpackHelpers = Pins.msgpackHelpers) && decide (msgpackDispatch = Pins.msgpackDispatch) &&
  decide (msgpackLookup = Pins.msgpackLookup) && decide (msgpackJq = Pins.msgpackJq)

def cborConstFacts : Bool :=
  decide (cborMajorBySym = Pins.cborMajorBySym) && decide (cborShortCountBySym = Pins.cborShortCountBySym)

def cborText : Bool :=
  decide (cborConsts = Pins.cborConsts) && decide (cborMajorTypes = Pins.cborMajorTypes) &&
  decide (cborDispatch = Pins.cborDispatch) && decide (cborJq = Pins.cborJq)

def bencodeText : Bool :=
  decide (bencodeStrIntUntil = Pins.bencodeStrIntUntil) && decide (bencodeValue = Pins.bencodeValue) &&
  decide (bencodeJq = Pins.bencodeJq)

def bsonConstFacts : Bool := decide (bsonConsts = Pins.bsonConsts)

def bsonText : Bool :=
  decide (bsonDocument = Pins.bsonDocument) && decide (bsonDecode = Pins.bsonDecode) && decide (bsonJq = Pins.bsonJq)

def berText : Bool :=
  decide (berDecodeLength = Pins.berDecodeLength) && decide (berDecodeTagNumber = Pins.berDecodeTagNumber) &&
  decide (berValue = Pins.berValue) && decide (berJq = Pins.berJq)

def jsonText : Bool := decide (jsonDecodeEx = Pins.jsonDecodeEx)

/-- (format, regenerated semantic facts hold, source text is the pinned text) -/
def all : List (String × Bool × Bool) := [
  ("msgpack", msgpackRowsFacts && msgpackSymbolsFacts, msgpackText),
  ("cbor", cborConstFacts, cborText),
  ("bencode", true, bencodeText),
  ("bson", bsonConstFacts, bsonText),
  ("asn1_ber", true, berText),
  ("json", true, jsonText)]

end FqModel.Serial.Ties
