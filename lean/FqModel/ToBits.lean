import FqModel.Bits
import FqModel.C05Md5
/-
  C05 — model of "tobits / tobytes / bits_format renderings of a decode value".
  Core Lean only.  Transliterates (line numbers of /repo at the time of writing):

    pkg/decode/value.go:177-182      Value.InnerRange
    pkg/interp/decode.go:449-454     decodeValueBase.ToBinary   (RootReader + InnerRange, unit 8)
    pkg/interp/decode.go:632-647     decodeValue.JQValueToGoJQEx (raw fields: ToBinary -> bits_format)
    internal/bitiox/bitiox.go:36-49  Range  ("negative nBits" / "outside buffer")
    internal/bitiox/bitiox.go:13-19  CopyBits = io.Copy(dst, bitio.NewIOReader(src))
                                     (IOReader zero-pads the last partial byte on the RIGHT)
    pkg/interp/binary.go:158-187     (*Interp)._toBits  (unit, pad_to_units, keep_range)
    pkg/interp/binary.go:304-316     NewBinaryFromBitReader
    pkg/interp/binary.go:439-461     Binary.JQValueToGoJQEx (toReader -> BitsFormatFn)
    pkg/interp/binary.go:463-469     Binary.JQValueToGoJQ   (toBytesBuffer(b.r): NO pad)
    pkg/interp/binary.go:471-486     Binary.Display raw output (toReader -> CopyBits to stdout)
    pkg/interp/binary.go:488-497     Binary.toReader  (zero reader PREPENDED when pad != 0)
    pkg/interp/interp.go:1079-1155   bitsFormatFnFromOptions (md5 hex base64 truncate string snippet byte_array)
    internal/mathx/num.go:63-68      Bits.StringByteBits (snippet's size)
    pkg/interp/binary.jq:1-6         tobits tobytes tobitsrange tobytesrange tobits($pad) tobytes($pad)

  A bit reader is modelled by its content `Bits` (most significant bit first); that the
  readers involved (section / multi / zero / limit / IOReader) deliver exactly that content is
  C01's subject and is re-validated here end to end by the correspondence run.
-/
namespace FqModel.ToBits
open FqModel

/-- result of a Go function that may fail -/
inductive Res (α : Type) where
  | ok (a : α)
  | err (e : String)     -- a Go `error` value, canonical small enum: "outside" | "synthetic" | "bits_format"
  | panic (why : String) -- a Go runtime fault
deriving Repr, DecidableEq

def Res.bind {α β} (r : Res α) (f : α → Res β) : Res β :=
  match r with
  | .ok a => f a
  | .err e => .err e
  | .panic w => .panic w

def Res.map {α β} (f : α → β) (r : Res α) : Res β := r.bind (fun a => .ok (f a))

/-! ## the property's reference: the bits of a value -/

/-- THE SPECIFICATION: the bits of a value are the bits `[start, start+len)` of its buffer -/
def valueBits (rootBits : Bits) (start len : Nat) : Bits := slice rootBits start len

/-! ## what ToBinary reads from a decode.Value -/

structure DV where
  root : Bits        -- content of `dv.RootReader` (the buffer the value's range refers to)
  start : Nat        -- dv.Range.Start
  len : Nat          -- dv.Range.Len
  isRoot : Bool      -- dv.IsRoot
  synthetic : Bool   -- scalar with the synthetic flag
deriving Repr, DecidableEq

/-- value.go:177  `if v.IsRoot { return Range{Start: 0, Len: v.Range.Len} }; return v.Range` -/
def innerRange (v : DV) : Nat × Nat := if v.isRoot then (0, v.len) else (v.start, v.len)

/-- interp.Binary (binary.go:297) -/
structure Binary where
  br : Bits
  start : Nat
  len : Nat
  unit : Nat
  pad : Nat
deriving Repr, DecidableEq

/-- decode.go:449 -/
def toBinary (v : DV) : Res Binary :=
  if v.synthetic then .err "synthetic"
  else .ok { br := v.root, start := (innerRange v).1, len := (innerRange v).2, unit := 8, pad := 0 }

/-- bitiox.Range (lengths are non-negative here, so only "outside buffer" can happen) -/
def range (br : Bits) (start len : Nat) : Res Bits :=
  if start + len > br.length then .err "outside" else .ok (slice br start len)

/-- binary.go:488 toReader: Range, then — if pad != 0 — MultiReader(ZeroReader(pad), range) -/
def Binary.toReader (b : Binary) : Res Bits :=
  (range b.br b.start b.len).bind fun s =>
    if b.pad = 0 then .ok s else .ok (List.replicate b.pad false ++ s)

/-- binary.go:304 NewBinaryFromBitReader(br, unit, 0) -/
def newBinaryFromBits (br : Bits) (unit : Nat) : Binary :=
  { br := br, start := 0, len := br.length, unit := unit, pad := 0 }

/-- binary.go:166-172: the pad computation. `unit = 0` makes Go evaluate `x % 0`. -/
def padFor (unit padToUnits len : Nat) : Res Nat :=
  let pad := unit * padToUnits
  let pad := if pad = 0 then unit else pad
  if pad = 0 then .panic "integer divide by zero" else .ok ((pad - len % pad) % pad)

/-- binary.go:158 `_toBits` on a value that implements ToBinary with binary `bv` -/
def toBitsBinary (unit padToUnits : Nat) (keepRange : Bool) (bv : Binary) : Res Binary :=
  (padFor unit padToUnits bv.len).bind fun pad =>
    let bv := { bv with unit := unit, pad := pad }
    if keepRange then .ok bv
    else bv.toReader.bind fun br => .ok (newBinaryFromBits br unit)

/-- `_toBits` on a decode value -/
def toBitsOp (unit padToUnits : Nat) (keepRange : Bool) (v : DV) : Res Binary :=
  (toBinary v).bind (toBitsBinary unit padToUnits keepRange)

/-- content of a Binary = bits `r` of its reader (what `.[i]`, tovalue, tonumber read; no pad) -/
def Binary.content (b : Binary) : Res Bits := range b.br b.start b.len

/-- jq `tobits`   = `_tobits({unit: 1, keep_range: false, pad_to_units: 0})`, as bits -/
def toBits (v : DV) : Res Bits := (toBitsOp 1 0 false v).bind Binary.content
/-- jq `tobytes`  = `_tobits({unit: 8, keep_range: false, pad_to_units: 0})`, as bits -/
def toBytes (v : DV) : Res Bits := (toBitsOp 8 0 false v).bind Binary.content
/-- jq `tobits($p)` / `tobytes($p)` -/
def toBitsPad (unit p : Nat) (v : DV) : Res Bits := (toBitsOp unit p false v).bind Binary.content

/-! ## bits -> bytes as `bitio.IOReader` does it: zero-pad the last byte on the right -/

def byteOfBits (c : Bits) : UInt8 := UInt8.ofNat (ofBitsBE (c ++ List.replicate (8 - c.length) false))

def packAux : Nat → Bits → List UInt8
  | 0, _ => []
  | f+1, bs => if bs.isEmpty then [] else byteOfBits (bs.take 8) :: packAux f (bs.drop 8)

/-- structural twin of `FqModel.bitsToBytesPadR` (fuel = length) so that the kernel can evaluate it -/
def packR (bs : Bits) : List UInt8 := packAux bs.length bs

/-- bitiox.CopyBits(w, br): the bytes that reach the writer -/
def copyBits (bs : Bits) : List UInt8 := packR bs

/-- the bytes of `tobytes` (its content is byte aligned, so nothing is padded on the right) -/
def toBytesBytes (v : DV) : Res (List UInt8) := (toBytes v).map packR

/-- Binary.Display with raw_output (binary.go:471): toReader (pad in front) then CopyBits to stdout -/
def Binary.rawOutput (b : Binary) : Res (List UInt8) := b.toReader.map copyBits

/-- `fq '… | tobytes' file > out` -/
def rawStdoutToBytes (v : DV) : Res (List UInt8) := (toBitsOp 8 0 false v).bind Binary.rawOutput

/-- `fq '… | tobytesrange' file > out`: keep_range, the pad is prepended by Display's toReader -/
def rawStdoutRange (v : DV) : Res (List UInt8) := (toBitsOp 8 0 true v).bind Binary.rawOutput

/-! ## the renderers of interp.go:1079-1155; input = the reader's bits -/

def hexChars (bs : List UInt8) : List Char :=
  bs.flatMap fun b => [hexDigit (b.toNat / 16), hexDigit (b.toNat % 16)]

/-- RFC 4648 table 1 -/
def b64char (n : Nat) : Char :=
  if n < 26 then Char.ofNat (65 + n)
  else if n < 52 then Char.ofNat (71 + n)
  else if n < 62 then Char.ofNat (n - 4)
  else if n = 62 then '+' else '/'

def b64val (c : Char) : Option Nat :=
  if 'A' ≤ c ∧ c ≤ 'Z' then some (c.toNat - 65)
  else if 'a' ≤ c ∧ c ≤ 'z' then some (c.toNat - 71)
  else if '0' ≤ c ∧ c ≤ '9' then some (c.toNat + 4)
  else if c = '+' then some 62
  else if c = '/' then some 63
  else none

/-- base64.StdEncoding (with '=' padding) -/
def b64encode : List UInt8 → List Char
  | a :: b :: c :: rest =>
    b64char (a.toNat / 4) :: b64char (a.toNat % 4 * 16 + b.toNat / 16)
      :: b64char (b.toNat % 16 * 4 + c.toNat / 64) :: b64char (c.toNat % 64) :: b64encode rest
  | [a, b] =>
    [b64char (a.toNat / 4), b64char (a.toNat % 4 * 16 + b.toNat / 16), b64char (b.toNat % 16 * 4), '=']
  | [a] => [b64char (a.toNat / 4), b64char (a.toNat % 4 * 16), '=', '=']
  | [] => []

/-- strict decoder (canonical padding, no trailing garbage, zero pad bits) -/
def b64decode : List Char → Option (List UInt8)
  | [] => some []
  | c0 :: c1 :: c2 :: c3 :: rest =>
    if c3 = '=' then
      if rest ≠ [] then none
      else if c2 = '=' then do
        let n0 ← b64val c0
        let n1 ← b64val c1
        if n1 % 16 ≠ 0 then none else
        pure [UInt8.ofNat (n0 * 4 + n1 / 16)]
      else do
        let n0 ← b64val c0
        let n1 ← b64val c1
        let n2 ← b64val c2
        if n2 % 4 ≠ 0 then none else
        pure [UInt8.ofNat (n0 * 4 + n1 / 16), UInt8.ofNat (n1 % 16 * 16 + n2 / 4)]
    else do
      let n0 ← b64val c0
      let n1 ← b64val c1
      let n2 ← b64val c2
      let n3 ← b64val c3
      let r ← b64decode rest
      pure (UInt8.ofNat (n0 * 4 + n1 / 16) :: UInt8.ofNat (n1 % 16 * 16 + n2 / 4)
              :: UInt8.ofNat (n2 % 4 * 64 + n3) :: r)
  | _ => none

/-- strconv.FormatUint digits -/
def digitChar36 (d : Nat) : Char := if d < 10 then Char.ofNat (48 + d) else Char.ofNat (87 + d)

def formatUintAux (base : Nat) : Nat → Nat → List Char → List Char
  | 0, _, acc => acc
  | f+1, n, acc =>
    let acc := digitChar36 (n % base) :: acc
    if n / base = 0 then acc else formatUintAux base f (n / base) acc

/-- strconv.FormatUint(n, base), 2 <= base <= 36 -/
def formatUint (base n : Nat) : List Char := formatUintAux base (n + 1) n []

/-- mathx.BasePrefixMap -/
def basePrefix (base : Nat) : List Char :=
  if base = 2 then ['0', 'b'] else if base = 8 then ['0', 'o'] else if base = 16 then ['0', 'x'] else []

/-- mathx.Bits.StringByteBits (num.go:63) -/
def stringByteBits (base n : Nat) : List Char :=
  if n % 8 ≠ 0 then basePrefix base ++ formatUint base (n / 8) ++ ['.'] ++ formatUint base (n % 8)
  else basePrefix base ++ formatUint base (n / 8)

def truncateBytes : Nat := 1024   -- interp.go:1112  NewLimitReader(br, 1024*8)
def snippetBytes : Nat := 256     -- interp.go:1129  NewLimitReader(br, 256*8)

inductive Rendered where
  | bytes (b : List UInt8)   -- a Go string holding raw bytes ("string", "truncate")
  | text (s : List Char)     -- an ASCII string ("hex", "base64", "md5", "snippet")
  | ints (a : List Nat)      -- "byte_array"
deriving Repr, DecidableEq

def renderString (bs : Bits) : List UInt8 := copyBits bs
def renderHex (bs : Bits) : List Char := hexChars (copyBits bs)
def renderBase64 (bs : Bits) : List Char := b64encode (copyBits bs)
def renderByteArray (bs : Bits) : List Nat := (copyBits bs).map (·.toNat)
def renderMd5 (bs : Bits) : List Char := hexChars (C05Md5.digest (copyBits bs))
def renderTruncate (bs : Bits) : List UInt8 := copyBits (bs.take (truncateBytes * 8))
def snippetPayload (bs : Bits) : List Char := b64encode (copyBits (bs.take (snippetBytes * 8)))
def renderSnippet (sizebase : Nat) (bs : Bits) : List Char :=
  ['<'] ++ stringByteBits sizebase bs.length ++ ['>'] ++ snippetPayload bs

/-- bitsFormatFnFromOptions: `sizebase` is Options.Sizebase after the clamp to 2..36 -/
def render (fmt : String) (sizebase : Nat) (bs : Bits) : Res Rendered :=
  if fmt = "md5" then .ok (.text (renderMd5 bs))
  else if fmt = "hex" then .ok (.text (renderHex bs))
  else if fmt = "base64" then .ok (.text (renderBase64 bs))
  else if fmt = "truncate" then .ok (.bytes (renderTruncate bs))
  else if fmt = "string" then .ok (.bytes (renderString bs))
  else if fmt = "snippet" then .ok (.text (renderSnippet sizebase bs))
  else if fmt = "byte_array" then .ok (.ints (renderByteArray bs))
  else .err "bits_format"

/-- `tovalue({bits_format: F})` of a raw-bits field (decode.go:632 -> binary.go:439):
    ToBinary (unit 8, pad 0) -> toReader -> BitsFormatFn -/
def toValueRaw (fmt : String) (sizebase : Nat) (v : DV) : Res Rendered :=
  (toBinary v).bind fun b => b.toReader.bind (render fmt sizebase)

/-- `tobytesrange | tovalue({bits_format: F})`: keep_range, so the pad is applied by toReader -/
def toValueRange (unit : Nat) (fmt : String) (sizebase : Nat) (v : DV) : Res Rendered :=
  (toBitsOp unit 0 true v).bind fun b => b.toReader.bind (render fmt sizebase)

/-! ## rendering a whole (sub)tree: decode.go:306 `toValue` = gojqx.ToGoJQValueFn over the value,
   calling JQValueToGoJQEx(optsFn) on every decode value it meets, with ONE Options value
   (hence one BitsFormatFn closure) for the whole conversion.  The closure of interp.go:1079 keeps
   no state between calls (each case allocates its hasher / buffer / encoder inside the closure),
   so the rendering of a raw leaf is a function of that leaf alone.  The tree is modelled with
   `cons`/`nil` for the sequence of children of a struct or array. -/

inductive VTree where
  | raw (v : DV)          -- a raw-bits scalar (decodeValue.isRaw)
  | other                 -- any other scalar: rendered without bits_format
  | nil                   -- end of a compound's children
  | cons (head tail : VTree)
deriving Repr

inductive RTree where
  | leaf (r : Res Rendered)
  | other
  | nil
  | cons (head tail : RTree)
deriving Repr

def renderTree (fmt : String) (sizebase : Nat) : VTree → RTree
  | .raw v => .leaf (toValueRaw fmt sizebase v)
  | .other => .other
  | .nil => .nil
  | .cons h t => .cons (renderTree fmt sizebase h) (renderTree fmt sizebase t)

/-- the raw leaves in document order -/
def VTree.leaves : VTree → List DV
  | .raw v => [v]
  | .other => []
  | .nil => []
  | .cons h t => h.leaves ++ t.leaves

def RTree.leaves : RTree → List (Res Rendered)
  | .leaf r => [r]
  | .other => []
  | .nil => []
  | .cons h t => h.leaves ++ t.leaves

/-- a compound whose children are the given raw values (what the driver rebuilds from a case line) -/
def VTree.ofLeaves : List DV → VTree
  | [] => .nil
  | v :: vs => .cons (.raw v) (VTree.ofLeaves vs)

end FqModel.ToBits
