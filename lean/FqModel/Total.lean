/-
  C13 — executable model of the argument handling of the functions fq adds to jq, WITH Go's
  fault conditions (DESIGN §15).  Core Lean only (the driver links it).

  Every model returns an `Outcome`:  ok value | err (catchable jq error) | panic (Go run-time
  fault: the process dies) | resource (an allocation no machine can satisfy: the process dies
  with `fatal error: out of memory`).  "Total" means: never `panic`, never `resource`.

  Sources (cited by file:line of /repo, and of the gojq fork github.com/wader/gojq):
    pkg/interp/bitops.go            bnot bsl bsr band bor bxor, intShiftCount/floatShiftCount/bigShiftCount
    gojq operator.go:311-395        binopTypeSwitch
    internal/gojqx/types.go:20-160  CastFn
    internal/gojqx/makefn_gen.go    FuncN / IterN wrappers
    pkg/interp/interp.go:1059-1077  OptionsFromValue,  pkg/interp/dump.go:238-266, 391  its consumers
    pkg/interp/binary.go:158-190    _toBits,  :349-378 JQValueIndex / JQValueSlice
    gojq func.go:1085-1100, 1239-1277   index / slice of a JQValue, clampIndex
    format/toml/toml.go:98-117  format/xml/xml.go:454,546  format/json/json.go:113  format/yaml/yaml.go:73-82
    format/math/radix.jq,  pkg/interp/internal.jq:103-112 (_to_int, _intdiv)
-/
namespace FqModel.Total

/-! ## outcomes -/

inductive Outcome (α : Type) where
  | ok (a : α)
  | err (kind : String)
  | panic (why : String)
  | resource (why : String)
deriving Repr, BEq, DecidableEq

namespace Outcome
def isPanic {α} : Outcome α → Bool
  | .panic _ => true
  | _ => false
def isResource {α} : Outcome α → Bool
  | .resource _ => true
  | _ => false
/-- neither a Go run-time fault nor an impossible allocation -/
def noFault {α} (o : Outcome α) : Bool := !o.isPanic && !o.isResource
def bind {α β} (o : Outcome α) (f : α → Outcome β) : Outcome β :=
  match o with
  | .ok a => f a
  | .err k => .err k
  | .panic w => .panic w
  | .resource w => .resource w
def cls {α} : Outcome α → String
  | .ok _ => "ok"
  | .err _ => "err"
  | .panic _ => "panic"
  | .resource _ => "resource"
end Outcome

/-! ## values -/

/-- a float64 as a small abstract domain: nan, ±inf, or a finite value given exactly as the
    rational `num/den` (den > 0).  Only order against integers and truncation are used. -/
inductive Flt where
  | nan
  | inf (neg : Bool)
  | fin (num : Int) (den : Nat)
deriving Repr, BEq, DecidableEq

/-- jq values as fq's Go code sees them. (`shl l n` is only ever a RESULT: the big integer
    l·2^n of a shift, left symbolic so that the driver need not build 256 MiB numbers.)
     `int` is a Go `int` (64 bit; the harness only builds
    in-range ones and every model function that produces one wraps), `big` a `*big.Int` of any
    magnitude, `bin` an interp.Binary (length in bits, unit), `dv u` a decode value whose
    `JQValueToGoJQ` is the plain value `u`. -/
inductive JV where
  | null
  | bool (b : Bool)
  | int (i : Int)
  | big (i : Int)
  | flt (f : Flt)
  | str (bytes : List Nat)
  | arr (l : List JV)
  | obj (kv : List (String × JV))
  | bin (nbits : Nat) (unit : Int)
  | dv (under : JV)
  | shl (l : Int) (n : Nat)      -- the *big.Int `l * 2^n`, kept symbolic (results of big.Int.Lsh only)
deriving Repr, Inhabited

def minInt64 : Int := -9223372036854775808
def maxInt64 : Int := 9223372036854775807
def maxInt32 : Int := 2147483647
def two64 : Int := 18446744073709551616

def inInt64 (i : Int) : Bool := decide (minInt64 ≤ i) && decide (i ≤ maxInt64)

/-- two's complement wrap-around of Go's 64-bit `int` arithmetic -/
def wrap64 (i : Int) : Int := (i - minInt64) % two64 + minInt64

/-! ## float64 helpers -/

/-- `float64(i)` / gojq `bigToFloat`: round to nearest even at 53 bits, overflow to ±inf -/
def f64OfInt (i : Int) : Flt :=
  let a := i.natAbs
  if a < 9007199254740992 then .fin i 1 else
  let e := Nat.log2 a - 52
  let q := a >>> e
  let r := a % 2 ^ e
  let half := 2 ^ (e - 1)
  let q' := if r > half || (r == half && q % 2 == 1) then q + 1 else q
  let m := q' * 2 ^ e
  if m ≥ 2 ^ 1024 then .inf (decide (i < 0)) else .fin (if i < 0 then - (m : Int) else m) 1

/-- truncation toward zero of a finite float -/
def Flt.trunc (num : Int) (den : Nat) : Int := num.tdiv den

/-- Go `int(f)` on amd64 (CVTTSD2SI): out of range and NaN give 0x8000000000000000.
    The Go spec leaves this implementation-defined but it is never a fault. -/
def goIntOfFloat : Flt → Int
  | .nan => minInt64
  | .inf _ => minInt64
  | .fin n d => let t := Flt.trunc n d; if inInt64 t then t else minInt64

/-- `r >= lo && r <= hi` for a float against integer bounds (false for NaN) -/
def Flt.between (f : Flt) (lo hi : Int) : Bool :=
  match f with
  | .nan => false
  | .inf _ => false
  | .fin n d => decide (lo * d ≤ n) && decide (n ≤ hi * d)

/-! ## two's complement bit operations on unbounded integers (Go `&`,`|`,`^` on int and
    big.Int.And/Or/Xor agree with these) -/

def bitWidth (a b : Int) : Nat := max (Nat.log2 a.natAbs) (Nat.log2 b.natAbs) + 2

def toTwos (w : Nat) (a : Int) : Nat := (a % (2 ^ w : Int)).toNat
def ofTwos (w : Nat) (n : Nat) : Int := if n ≥ 2 ^ (w - 1) then (n : Int) - (2 ^ w : Int) else n

def intAnd (a b : Int) : Int := let w := bitWidth a b; ofTwos w (toTwos w a &&& toTwos w b)
def intOr (a b : Int) : Int := let w := bitWidth a b; ofTwos w (toTwos w a ||| toTwos w b)
def intXor (a b : Int) : Int := let w := bitWidth a b; ofTwos w (toTwos w a ^^^ toTwos w b)
def intNot (a : Int) : Int := -a - 1

/-- Go `l << n` on a 64-bit int with an UNSIGNED count (counts >= 64 give 0) -/
def goShl64 (l : Int) (n : Nat) : Int := if n ≥ 64 then 0 else wrap64 (l * 2 ^ n)
/-- Go `l >> n` (arithmetic) with an unsigned count -/
def goShr (l : Int) (n : Nat) : Int := l >>> n

/-! ## allocation model
    `big.Int.Lsh(x, n)` allocates (bitlen x + n)/64 words.  `make` panics ("makeslice: len out
    of range") when the byte size exceeds maxAlloc = 2^48 (linux/amd64), otherwise the runtime
    tries to map it and dies with "fatal error: out of memory" if the machine cannot.  The
    model draws the second line at 2^36 bits = 8 GiB; the fixed code never gets near either. -/
def makeslicePanicBits : Nat := 2 ^ 51
def resourceBits : Nat := 2 ^ 36

def bigLsh (l : Int) (n : Nat) : Outcome JV :=
  if n > makeslicePanicBits then .panic "makeslice: len out of range"
  else if n > resourceBits then .resource "big.Int.Lsh allocates more than 8 GiB"
  else .ok (.shl l n)      -- denotes .big (l * 2 ^ n); not multiplied out (n may be 2^31-1)

/-! ## gojq binopTypeSwitch (operator.go:311) -/

/-- JQValueToGoJQ: decode values and binaries become plain values first (operator.go:321-326) -/
def toGoJQ : JV → JV
  | .dv u => u
  | .bin _ _ => .str []
  | v => v

def typeErr (name : String) : Outcome JV := .err (name ++ ":type")

def binop (name : String) (l r : JV)
    (fi : Int → Int → Outcome JV) (ff : Flt → Flt → Outcome JV) (fb : Int → Int → Outcome JV) : Outcome JV :=
  match toGoJQ l, toGoJQ r with
  | .int a, .int b => fi a b
  | .int a, .flt b => ff (f64OfInt a) b
  | .int a, .big b => fb a b
  | .flt a, .int b => ff a (f64OfInt b)
  | .flt a, .flt b => ff a b
  | .flt a, .big b => ff a (f64OfInt b)
  | .big a, .int b => fb a b
  | .big a, .flt b => ff (f64OfInt a) b
  | .big a, .big b => fb a b
  | _, _ => typeErr name      -- string/array/object pairs and the fallback all return BinopTypeError

/-! ## shift counts (bitops.go:36-66, after `fix: bsl, bsr: error on negative or absurdly large shift counts`) -/

def intShiftCount (name : String) (r : Int) : Outcome Nat :=
  if r < 0 || r > maxInt32 then .err (name ++ ":shift-count") else .ok r.toNat

def floatShiftCount (name : String) (r : Flt) : Outcome Nat :=
  -- `!(r >= 0 && r <= maxShiftCount)`: the negated form also rejects NaN
  if !(r.between 0 maxInt32) then .err (name ++ ":shift-count")
  else match r with
    | .fin n d => .ok (Flt.trunc n d).toNat
    | _ => .err (name ++ ":shift-count")

def bigShiftCount (name : String) (r : Int) : Outcome Nat :=
  -- r.Sign() < 0 || !r.IsInt64() || r.Int64() > maxShiftCount
  if r < 0 || !(inInt64 r) || r > maxInt32 then .err (name ++ ":shift-count") else .ok r.toNat

def bsl (a b : JV) : Outcome JV :=
  binop "bsl" a b
    (fun l r => (intShiftCount "bsl" r).bind fun n =>
      let v := goShl64 l n
      if goShr v n == l then .ok (.int v) else bigLsh l n)
    (fun l r => (floatShiftCount "bsl" r).bind fun n => .ok (.int (goShl64 (goIntOfFloat l) n)))
    (fun l r => (bigShiftCount "bsl" r).bind fun n => bigLsh l n)

def bsr (a b : JV) : Outcome JV :=
  binop "bsr" a b
    (fun l r => (intShiftCount "bsr" r).bind fun n => .ok (.int (goShr l n)))
    (fun l r => (floatShiftCount "bsr" r).bind fun n => .ok (.int (goShr (goIntOfFloat l) n)))
    (fun l r => (bigShiftCount "bsr" r).bind fun n => .ok (.big (goShr l n)))

/-! ### the code BEFORE the fix (bitops.go at 92864f4f^): kept to show why the fix is needed -/

/-- Go `l << r` / `l >> r` with a SIGNED count: a negative count is a run-time panic -/
def goShlSigned (l r : Int) : Outcome Int :=
  if r < 0 then .panic "runtime error: negative shift amount" else .ok (goShl64 l r.toNat)
def goShrSigned (l r : Int) : Outcome Int :=
  if r < 0 then .panic "runtime error: negative shift amount" else .ok (goShr l r.toNat)

/-- `uint(r.Uint64())` of a big.Int: the low 64 bits of |r| -/
def bigUint64 (r : Int) : Nat := r.natAbs % 18446744073709551616

def bslOld (a b : JV) : Outcome JV :=
  binop "bsl" a b
    (fun l r => (goShlSigned l r).bind fun v =>
      (goShrSigned v r).bind fun back =>
        if back == l then .ok (.int v) else bigLsh l (wrap64 r).toNat)   -- uint(r), r >= 0 here
    (fun l r => (goShlSigned (goIntOfFloat l) (goIntOfFloat r)).bind fun v => .ok (.int v))
    (fun l r => bigLsh l (bigUint64 r))

def bsrOld (a b : JV) : Outcome JV :=
  binop "bsr" a b
    (fun l r => (goShrSigned l r).bind fun v => .ok (.int v))
    (fun l r => (goShrSigned (goIntOfFloat l) (goIntOfFloat r)).bind fun v => .ok (.int v))
    (fun l r => .ok (.big (goShr l (bigUint64 r))))

/-! ## band bor bxor bnot (bitops.go:20-32, 137-180) -/

def bandF (a b : JV) : Outcome JV :=
  binop "band" a b (fun l r => .ok (.int (intAnd l r)))
    (fun l r => .ok (.int (intAnd (goIntOfFloat l) (goIntOfFloat r)))) (fun l r => .ok (.big (intAnd l r)))
def borF (a b : JV) : Outcome JV :=
  binop "bor" a b (fun l r => .ok (.int (intOr l r)))
    (fun l r => .ok (.int (intOr (goIntOfFloat l) (goIntOfFloat r)))) (fun l r => .ok (.big (intOr l r)))
def bxorF (a b : JV) : Outcome JV :=
  binop "bxor" a b (fun l r => .ok (.int (intXor l r)))
    (fun l r => .ok (.int (intXor (goIntOfFloat l) (goIntOfFloat r)))) (fun l r => .ok (.big (intXor l r)))

/-- `bnot`: int, *big.Int, JQValue (converted, then again); everything else — floats
    included — is a UnaryTypeError -/
def bnot (c : JV) : Outcome JV :=
  match toGoJQ c with
  | .int i => .ok (.int (intNot i))
  | .big i => .ok (.big (intNot i))
  | _ => typeErr "bnot"

/-! ## gojqx.CastFn (types.go:20-160) and the FuncN / IterN wrappers (makefn_gen.go) -/

/-- CastFn[int] -/
def castInt (v : JV) : Option Int :=
  match toGoJQ v with
  | .int i => some i
  | .big i => if inInt64 i then some i else none
  | .flt f =>
    -- `math.MinInt <= v && v <= math.MaxInt` compares against float64(MaxInt) = 2^63
    if f.between minInt64 (maxInt64 + 1) then some (goIntOfFloat f)
    else match f with
      | .inf false => some maxInt64
      | .fin n _ => if n > 0 then some maxInt64 else some minInt64
      | _ => some minInt64          -- NaN and -inf: `v > 0` is false
  | _ => none

/-- CastFn[*big.Int]: `new(big.Int).SetInt64(int64(v))` for floats -/
def castBig (v : JV) : Option Int :=
  match toGoJQ v with
  | .big i => some i
  | .int i => some i
  | .flt f => some (goIntOfFloat f)
  | _ => none

/-- CastFn[float64] -/
def castFloat (v : JV) : Option Flt :=
  match toGoJQ v with
  | .flt f => some f
  | .int i => some (f64OfInt i)
  | .big i => some (f64OfInt i)
  | _ => none

def castBool (v : JV) : Option Bool :=
  match toGoJQ v with
  | .bool b => some b
  | _ => none

def castString (v : JV) : Option Unit :=
  match toGoJQ v with
  | .str _ => some ()
  | _ => none

/-- Func1 (makefn_gen.go:24-41): cast the input, cast the argument, call the body; a failed
    cast is FuncTypeError / FuncArgTypeError — a value, not a panic. -/
def castwrap1 {α β γ} (castC : JV → Option α) (castA : JV → Option β) (body : α → β → Outcome γ)
    (c a : JV) : Outcome γ :=
  match castC c with
  | none => .err "func-type"
  | some cv =>
    match castA a with
    | none => .err "func-arg-type:first"
    | some av => body cv av

def castwrap0 {α γ} (castC : JV → Option α) (body : α → Outcome γ) (c : JV) : Outcome γ :=
  match castC c with
  | none => .err "func-type"
  | some cv => body cv

def castwrap2 {α β δ γ} (castC : JV → Option α) (castA : JV → Option β) (castB : JV → Option δ)
    (body : α → β → δ → Outcome γ) (c a b : JV) : Outcome γ :=
  match castC c with
  | none => .err "func-type"
  | some cv =>
    match castA a with
    | none => .err "func-arg-type:first"
    | some av =>
      match castB b with
      | none => .err "func-arg-type:second"
      | some bv => body cv av bv

/-! ## option structs: mapstruct.ToStruct (mitchellh/mapstructure, not weakly typed) of an int field -/

def lookup (kv : List (String × JV)) (k : String) : Option JV :=
  match kv with
  | [] => none
  | (k', v) :: rest => if k' == k then some v else lookup rest k

/-- gojqx.ToGoJQValue on a scalar (totype.go:38-98): JQValues are converted, a *big.Int that
    fits an int becomes an int (members of arrays / objects likewise) -/
def normScalar (v : JV) : JV :=
  match toGoJQ v with
  | .big i => if inInt64 i then .int i else .big i
  | w => w

/-- decodeInt of one field: absent / null keep the default, int is taken, float64 is converted
    with `int64(f)`, anything else (big.Int, string, bool, array, object) is an error -/
def fieldInt (dflt : Int) (v : Option JV) : Option Int :=
  match v.map normScalar with
  | none => some dflt
  | some .null => some dflt
  | some (.int i) => some i
  | some (.flt f) => some (goIntOfFloat f)
  | some _ => none

/-- a string field: absent / null keep the default, a string is taken, anything else fails -/
def fieldStrOk (v : Option JV) : Bool :=
  match v.map normScalar with
  | none => true
  | some .null => true
  | some (.str _) => true
  | some _ => false

/-- a bool field -/
def fieldBoolOk (v : Option JV) : Bool :=
  match v.map normScalar with
  | none => true
  | some .null => true
  | some (.bool _) => true
  | some _ => false

/-- CastFn[struct{Indent int `default:"d"`}]: ToGoJQValue then mapstruct.  null gives the
    defaults; an object is decoded field by field; QUIRK: a *big.Int outside the int range is a
    Go struct without exported fields, which mapstructure decodes as an empty map — the cast
    succeeds with the defaults; every other non-object fails. -/
def castIndentOpts (dflt : Int) (v : JV) : Option Int :=
  match normScalar v with
  | .null => some dflt
  | .obj kv => fieldInt dflt (lookup kv "indent")
  | .big _ => some dflt
  | _ => none

/-! ## strings.Repeat and the indent options -/

/-- strings.Repeat(s, count) with len s = 1 -/
def stringsRepeat1 (count : Int) : Outcome Nat :=
  if count < 0 then .panic "strings: negative Repeat count"
  else if count.toNat > resourceBits / 8 then .resource "strings.Repeat allocates more than 8 GiB"
  else .ok count.toNat

def maxIndent : Int := 1024

/-- format/toml/toml.go:98-117 with the encoder abstracted to `enc` (what it returns for an
    indent string of that length) -/
def toTOML (cIsNull : Bool) (indent : Int) (enc : Nat → Outcome Unit) : Outcome Unit :=
  if cIsNull then .err "func-type"
  else if indent < 0 || indent > maxIndent then .err "indent-range"
  else (stringsRepeat1 indent).bind enc

def toTOMLOld (cIsNull : Bool) (indent : Int) (enc : Nat → Outcome Unit) : Outcome Unit :=
  if cIsNull then .err "func-type" else (stringsRepeat1 indent).bind enc

/-- format/xml/xml.go toXMLFromObject / toXMLFromArray: `valid` = the input passed the
    structural checks that precede the encoder -/
def toXML (valid : Bool) (indent : Int) (enc : Nat → Outcome Unit) : Outcome Unit :=
  if !valid then .err "func-type"
  else if indent < 0 || indent > maxIndent then .err "indent-range"
  else (stringsRepeat1 indent).bind enc

def toXMLOld (valid : Bool) (indent : Int) (enc : Nat → Outcome Unit) : Outcome Unit :=
  if !valid then .err "func-type" else (stringsRepeat1 indent).bind enc

/-- colorjson writeIndent (internal/colorjson/encoder.go:286-309): `depth` = indent × nesting;
    non-positive depths write nothing, positive ones write that many bytes -/
def jsonWriteIndent (depth : Int) : Outcome Nat :=
  if depth ≤ 0 then .ok 0
  else if depth.toNat > resourceBits / 8 then .resource "indentation of more than 8 GiB"
  else .ok depth.toNat

/-- format/json/json.go:113 + encoder.go:226,248 (`e.depth += e.opts.Indent` once per nesting
    level, in a Go int: the product wraps).  Negative and > 1024 indents are rejected
    (after `fix: tojson: error on huge indent …` and its follow-up for negative values). -/
def toJSON (indent : Int) (nesting : Nat) : Outcome Nat :=
  if indent < 0 || indent > maxIndent then .err "indent-range" else jsonWriteIndent (wrap64 (indent * nesting))
/-- the original code: no check at all -/
def toJSONOld (indent : Int) (nesting : Nat) : Outcome Nat := jsonWriteIndent (wrap64 (indent * nesting))
/-- after the first fix (92d73a3f): only `indent > maxIndent` was rejected — a hugely negative
    indent times the nesting depth wraps around to a hugely positive depth -/
def toJSONFix1 (indent : Int) (nesting : Nat) : Outcome Nat :=
  if indent > maxIndent then .err "indent-range" else jsonWriteIndent (wrap64 (indent * nesting))

/-- format/yaml/yaml.go:73-82: yaml.Encoder.SetIndent panics on a negative value, so it is only
    called for indent >= 0; the emitter itself replaces anything outside 2..9 by 2 -/
def yamlSetIndent (spaces : Int) : Outcome Int :=
  if spaces < 0 then .panic "yaml: cannot indent to a negative number of spaces"
  else .ok (if spaces < 2 || spaces > 9 then 2 else spaces)
def toYAML (indent : Int) : Outcome Int :=
  if indent ≥ 0 then yamlSetIndent indent else .ok 4

/-! ## OptionsFromValue (interp.go:1059-1077) and its arithmetic consumers in dump.go -/

structure Opts where
  depth : Int
  arrayTruncate : Int
  stringTruncate : Int
  lineBytes : Int
  displayBytes : Int
  addrbase : Int
  sizebase : Int
deriving Repr, BEq, DecidableEq

/-- `_ = mapstruct.ToStruct(v, &opts)`: the error is dropped, so a field that does not convert
    simply keeps its zero value -/
def rawField (kv : List (String × JV)) (k : String) : Int := (fieldInt 0 (lookup kv k)).getD 0

def rawOpts (v : JV) : Opts :=
  match normScalar v with
  | .obj kv => ⟨rawField kv "depth", rawField kv "array_truncate", rawField kv "string_truncate",
      rawField kv "line_bytes", rawField kv "display_bytes", rawField kv "addrbase", rawField kv "sizebase"⟩
  | _ => ⟨0, 0, 0, 0, 0, 0, 0⟩

def clamp (lo hi v : Int) : Int := max lo (min hi v)

/-- interp.go:1062-1072 (line_bytes clamped to 1..4096 since `fix: options: clamp line_bytes to a
    sane maximum`) -/
def clampOpts (o : Opts) : Opts :=
  { depth := max 0 o.depth, arrayTruncate := max 0 o.arrayTruncate, stringTruncate := max 0 o.stringTruncate,
    lineBytes := clamp 1 4096 o.lineBytes, displayBytes := max 0 o.displayBytes,
    addrbase := clamp 2 36 o.addrbase, sizebase := clamp 2 36 o.sizebase }

def optionsFromValue (v : JV) : Opts := clampOpts (rawOpts v)

/-- before that fix: `opts.LineBytes = max(1, opts.LineBytes)`, no upper bound -/
def clampOptsOld (o : Opts) : Opts := { clampOpts o with lineBytes := max 1 o.lineBytes }
def optionsFromValueOld (v : JV) : Opts := clampOptsOld (rawOpts v)

/-! ### the bits format function (interp.go bitsFormatFnFromOptions): a closure over a COPY of
    the options it is given — what it captures is fixed at the moment of the call -/

def bitsFormatNames : List String := ["md5", "hex", "base64", "truncate", "string", "snippet", "byte_array"]

/-- the closure: the format and the Sizebase of the captured copy (only "snippet" reads it) -/
structure BitsFormatFn where
  format : String
  sizebase : Int
deriving Repr, BEq, DecidableEq

def bitsFormatFnFromOptions (format : String) (o : Opts) : Outcome BitsFormatFn :=
  if bitsFormatNames.contains format then .ok ⟨format, o.sizebase⟩ else .err "invalid bits format"

/-- what OptionsFromValue returns: the clamped options AND the bits format closure -/
structure Options where
  o : Opts
  fn : BitsFormatFn
deriving Repr, BEq, DecidableEq

/-- interp.go:1059-1082 in the order of the code: all clamps first, then the closure is made
    from the clamped options -/
def optionsFromValueFmt (format : String) (v : JV) : Outcome Options :=
  let o := clampOpts (rawOpts v)
  (bitsFormatFnFromOptions format o).bind fun fn => .ok ⟨o, fn⟩

/-- the seeded change S-C13-2: the closure is made BEFORE the clamps, from the raw options -/
def optionsFromValueFmtSwapped (format : String) (v : JV) : Outcome Options :=
  let r := rawOpts v
  (bitsFormatFnFromOptions format r).bind fun fn => .ok ⟨clampOpts r, fn⟩

def basePrefix (base : Int) : String :=
  if base == 2 then "0b" else if base == 8 then "0o" else if base == 16 then "0x" else ""

def digitChar36 (d : Nat) : Char := "0123456789abcdefghijklmnopqrstuvwxyz".toList.getD d '?'

def formatUintAux (fuel n base : Nat) (acc : List Char) : List Char :=
  match fuel with
  | 0 => acc
  | fuel + 1 => if n < base then digitChar36 n :: acc else formatUintAux fuel (n / base) base (digitChar36 (n % base) :: acc)

/-- strconv.FormatUint(n, base): panics for a base outside 2..36 -/
def formatUint (n : Nat) (base : Int) : Outcome String :=
  if base < 2 || base > 36 then .panic "strconv: illegal AppendInt/FormatInt base"
  else .ok (String.ofList (formatUintAux (n + 1) n base.toNat []))

/-- mathx.Bits.StringByteBits (num.go:63-68) -/
def stringByteBits (bits : Nat) (base : Int) : Outcome String :=
  (formatUint (bits / 8) base).bind fun bytes =>
  if bits % 8 != 0 then (formatUint (bits % 8) base).bind fun rest => .ok (basePrefix base ++ bytes ++ "." ++ rest)
  else .ok (basePrefix base ++ bytes)

/-- running the closure on `bits` bits: "snippet" renders the size in the captured sizebase
    (the result is the text between < and >), the other formats do no option arithmetic -/
def BitsFormatFn.render (f : BitsFormatFn) (bits : Nat) : Outcome String :=
  if f.format == "snippet" then stringByteBits bits f.sizebase else .ok "-"

/-- strconv.FormatUint / FormatInt panic for a base outside 2..36 -/
def formatBase (base : Int) : Outcome Unit :=
  if base < 2 || base > 36 then .panic "strconv: illegal AppendInt/FormatInt base" else .ok ()

/-- Go integer division / remainder: a zero divisor is a run-time panic -/
def goDiv (a b : Int) : Outcome Int :=
  if b == 0 then .panic "runtime error: integer divide by zero" else .ok (wrap64 (a.tdiv b))
def goMod (a b : Int) : Outcome Int :=
  if b == 0 then .panic "runtime error: integer divide by zero" else .ok (a.tmod b)

/-- dump.go:389-398: the hex / ascii column headers are built by a loop over `LineBytes` that
    appends to a string (quadratic, not interruptible): a huge line_bytes never finishes and
    finally exhausts memory — modelled as `resource` above 2^20 columns (1 MiB lines; fq's
    default is 16, OptionsFromValue now clamps to 4096). -/
def maxSaneLineBytes : Int := 1048576
def dumpHeader (lineBytes : Int) : Outcome Unit :=
  if lineBytes > maxSaneLineBytes then .resource "hex header of line_bytes columns" else .ok ()

/-- the arithmetic dump.go does with the options for a value that starts at byte `startByte`
    (dump.go:240-266: `% (LineBytes*8)`, `startByte / LineBytes`, `startByte % LineBytes`;
     :187,:271: FormatUint in addrbase / sizebase) -/
def dumpArith (o : Opts) (startByte : Int) : Outcome Unit :=
  (goMod (startByte * 8) (wrap64 (o.lineBytes * 8))).bind fun _ =>
  (goDiv startByte o.lineBytes).bind fun _ =>
  (goMod startByte o.lineBytes).bind fun _ =>
  (formatBase o.addrbase).bind fun _ => formatBase o.sizebase

/-- `dump` (dump.go:352-410): header first, then the per-value arithmetic -/
def dump (o : Opts) (startByte : Int) : Outcome Unit :=
  (dumpHeader o.lineBytes).bind fun _ => dumpArith o startByte

/-! ## previewValue, string case (preview.go:31-37): the one-line preview of the tree dump

      runeLength := utf8.RuneCountInString(vv)
      if opts.StringTruncate != 0 && runeLength > opts.StringTruncate {
          runes := []rune(vv)
          vv = string(runes[0:opts.StringTruncate])
      }

    The slice is taken of the RUNES, so the test must count RUNES.  A string has at least as many
    bytes as runes (1 to 4 bytes per code point, 1 per invalid byte), and the two differ for
    every non-ASCII string: 30 x "å" has 60 bytes and 30 runes. -/

/-- Go `s[0:hi]` on a slice of length `len`: out of range is a run-time panic -/
def goSlicePrefix (len : Nat) (hi : Int) : Outcome Nat :=
  if hi < 0 || hi > len then .panic "runtime error: slice bounds out of range" else .ok hi.toNat

/-- number of runes the preview keeps, for a string of `runeLen` runes -/
def previewTruncate (runeLen : Nat) (stringTruncate : Int) : Outcome Nat :=
  if stringTruncate != 0 && (runeLen : Int) > stringTruncate then goSlicePrefix runeLen stringTruncate
  else .ok runeLen

/-- the same with the test made on the BYTE length (seeded change S2-C13-1: "a string with fewer
    bytes than the limit can't have more runes than it" — true, but the converse is what is needed) -/
def previewTruncateByteTest (byteLen runeLen : Nat) (stringTruncate : Int) : Outcome Nat :=
  if stringTruncate != 0 && (byteLen : Int) > stringTruncate then goSlicePrefix runeLen stringTruncate
  else .ok runeLen

/-- utf8.RuneCountInString / len([]rune(s)): a valid 2-, 3-, 4-byte sequence is one rune, every
    other byte (ASCII, stray continuation, truncated or invalid lead) is one rune by itself.
    (Overlong / surrogate encodings, which Go also counts byte by byte, do not occur in the pool.) -/
def isCont (b : Nat) : Bool := 128 ≤ b && b < 192
def runeCountF : Nat → List Nat → Nat
  | 0, _ => 0
  | _ + 1, [] => 0
  | fuel + 1, b :: rest =>
    match rest with
    | c1 :: c2 :: c3 :: rest3 =>
      if 240 ≤ b && b ≤ 244 && isCont c1 && isCont c2 && isCont c3 then 1 + runeCountF fuel rest3
      else if 224 ≤ b && b < 240 && isCont c1 && isCont c2 then 1 + runeCountF fuel (c3 :: rest3)
      else if 194 ≤ b && b < 224 && isCont c1 then 1 + runeCountF fuel (c2 :: c3 :: rest3)
      else 1 + runeCountF fuel rest
    | [c1, c2] =>
      if 224 ≤ b && b < 240 && isCont c1 && isCont c2 then 1
      else if 194 ≤ b && b < 224 && isCont c1 then 1 + runeCountF fuel [c2]
      else 1 + runeCountF fuel rest
    | [c1] => if 194 ≤ b && b < 224 && isCont c1 then 1 else 1 + runeCountF fuel rest
    | [] => 1

def runeCount (l : List Nat) : Nat := runeCountF l.length l

/-! ## the column writers of the hex dump: internal/asciiwriter, internal/hexpairwriter

    Both format every byte with a caller-supplied function (the byte colour of the options: an
    ANSI sequence of user-controlled length around the character) into a line buffer that is
    flushed at every line end and at the end of each Write.  Only LENGTHS matter for the index
    arithmetic, so a Write call is modelled on the list of formatted lengths of its bytes. -/

structure LineWriter where
  width : Nat            -- bytes per line (opts.LineBytes, 1..4096 after the clamp)
  start : Nat            -- startLineOffset
  offset : Nat
  bufLen : Nat           -- len(h.buf)
  bufOffset : Nat
deriving Repr, BEq, DecidableEq

/-- Go `buf[i] = x` -/
def goIndex (len i : Nat) : Outcome Unit :=
  if i ≥ len then .panic "runtime error: index out of range" else .ok ()
/-- Go `buf[lo:]` / `buf[:hi]` -/
def goSliceTo (len hi : Nat) : Outcome Unit :=
  if hi > len then .panic "runtime error: slice bounds out of range" else .ok ()

/-- asciiwriter.New: `buf: make([]byte, width*11+2)` -/
def asciiNew (width start : Nat) : LineWriter := ⟨width, start, 0, width * 11 + 2, 0⟩

/-- the loop of asciiwriter.Write (asciiwriter.go:53-88) over the formatted lengths of the rest of
    `p`; `growNeed` / `growTo` are the two expressions of the capacity check so that the seeded
    variant can be stated; returns the writer and the bytes handed to the underlying writer -/
def asciiLoop (growNeed : Nat → Nat → Nat) (growTo : Nat → Nat) (h : LineWriter) (written : Nat) :
    List Nat → Outcome (LineWriter × Nat)
  | [] => .ok (h, written)
  | c :: rest =>
    let lineOffset := h.offset % h.width
    let need := growNeed h.bufOffset c
    -- `copy(buf, h.buf[0:h.bufOffset])` when growing
    (if need > h.bufLen then (goSliceTo h.bufLen h.bufOffset).bind fun _ => .ok (growTo need) else .ok h.bufLen).bind fun bufLen =>
    (goSliceTo bufLen h.bufOffset).bind fun _ =>          -- copy(h.buf[h.bufOffset:], s)
    let bo := h.bufOffset + c
    if !rest.isEmpty && lineOffset == h.width - 1 then
      (goIndex bufLen bo).bind fun _ =>                   -- h.buf[h.bufOffset] = newline
      (goSliceTo bufLen (bo + 1)).bind fun _ =>           -- h.buf[:h.bufOffset]
      asciiLoop growNeed growTo { h with bufLen := bufLen, bufOffset := 0, offset := h.offset + 1 } (written + bo + 1) rest
    else if rest.isEmpty then
      (goSliceTo bufLen bo).bind fun _ =>
      asciiLoop growNeed growTo { h with bufLen := bufLen, bufOffset := 0, offset := h.offset + 1 } (written + bo) rest
    else
      asciiLoop growNeed growTo { h with bufLen := bufLen, bufOffset := bo, offset := h.offset + 1 } written rest

/-- one asciiwriter.Write(p) -/
def asciiWriteWith (growNeed : Nat → Nat → Nat) (growTo : Nat → Nat) (h : LineWriter) (p : List Nat) :
    Outcome (LineWriter × Nat) :=
  if h.width == 0 then .panic "runtime error: integer divide by zero" else
  -- padding up to startLineOffset: one byte each, straight to the underlying writer
  let pad := h.start - h.offset
  let h := { h with offset := max h.offset h.start }
  (if h.offset > h.start && h.offset % h.width == 0 then
      (goIndex h.bufLen 0).bind fun _ => .ok { h with bufOffset := 1 }
    else .ok h).bind fun h =>
  asciiLoop growNeed growTo h pad p

/-- the code as it is: `if need := h.bufOffset + len(s) + 1; need > len(h.buf) { make(need*2) }` -/
def asciiWrite := asciiWriteWith (fun bo c => bo + c + 1) (fun need => need * 2)
/-- seeded change S3-C13-1: `need := h.bufOffset + len(s)` … `make(need*2+1)` -/
def asciiWriteSeeded := asciiWriteWith (fun bo c => bo + c) (fun need => need * 2 + 1)

/-- several Write calls in a row -/
def writeAll (w : LineWriter → List Nat → Outcome (LineWriter × Nat)) (h : LineWriter) (total : Nat) :
    List (List Nat) → Outcome (LineWriter × Nat)
  | [] => .ok (h, total)
  | p :: ps => (w h p).bind fun (h', n) => writeAll w h' (total + n) ps

/-- hexpairwriter.New: `buf: make([]byte, width*200+1)` -/
def hexpairNew (width start : Nat) : LineWriter := ⟨width, start, 0, width * 200 + 1, 0⟩

/-- the loop of hexpairwriter.Write (hexpairwriter.go:75-110). `grow` = the capacity check added by
    `fix: hexpairwriter: grow line buffer …` (need := bufOffset+len(s)+1 > len(buf) ⇒ make(need*2));
    without it the buffer keeps its initial size -/
def hexpairLoopWith (grow : Bool) (h : LineWriter) (written : Nat) : List Nat → Outcome (LineWriter × Nat)
  | [] => .ok (h, written)
  | c :: rest =>
    let lineOffset := h.offset % h.width
    let need := h.bufOffset + c + 1
    (if grow && need > h.bufLen then (goSliceTo h.bufLen h.bufOffset).bind fun _ => .ok (need * 2) else .ok h.bufLen).bind fun bufLen =>
    (goSliceTo bufLen h.bufOffset).bind fun _ =>          -- copy(h.buf[h.bufOffset:], s) (copy itself truncates)
    let bo := h.bufOffset + c
    (goIndex bufLen bo).bind fun _ =>                     -- h.buf[h.bufOffset] = ' '
    let bo := bo + 1
    if !rest.isEmpty && lineOffset == h.width - 1 then
      (goSliceTo bufLen bo).bind fun _ =>
      hexpairLoopWith grow { h with bufLen := bufLen, bufOffset := 0, offset := h.offset + 1 } (written + bo) rest
    else if rest.isEmpty then
      (goSliceTo bufLen (bo - 1)).bind fun _ =>
      hexpairLoopWith grow { h with bufLen := bufLen, bufOffset := 0, offset := h.offset + 1 } (written + bo - 1) rest
    else
      hexpairLoopWith grow { h with bufLen := bufLen, bufOffset := bo, offset := h.offset + 1 } written rest

def hexpairWriteWith (grow : Bool) (h : LineWriter) (p : List Nat) : Outcome (LineWriter × Nat) :=
  if h.width == 0 then .panic "runtime error: integer divide by zero" else
  let pad := (h.start - h.offset) * 3
  let h := { h with offset := max h.offset h.start }
  (if h.offset > h.start then (goIndex h.bufLen 0).bind fun _ => .ok { h with bufOffset := 1 } else .ok h).bind fun h =>
  hexpairLoopWith grow h pad p

/-- the code as it is -/
def hexpairWrite := hexpairWriteWith true
/-- before the fix: a fixed buffer -/
def hexpairWriteOld := hexpairWriteWith false

/-! ## byte_colors ranges (decorator.go:77-83): `for i := max(r[0],0); i <= min(r[1],255); i++` -/

/-- number of iterations of the loop over one range; the old loop `for i := r[0]; i <= r[1]; i++`
    ran hi-lo+1 times and, with hi = MaxInt64, for ever (i wraps around and stays ≤ hi) -/
def byteColorIters (lo hi : Int) : Nat := (min hi 255 - max lo 0 + 1).toNat
def byteColorLoop (lo hi : Int) : Outcome Nat := .ok (byteColorIters lo hi)
def byteColorLoopOld (lo hi : Int) : Outcome Nat :=
  if hi ≥ maxInt64 && lo ≤ hi then .resource "the loop variable wraps around: never terminates"
  else if hi - lo + 1 > 4294967296 then .resource "more than 2^32 iterations"
  else .ok (hi - lo + 1).toNat

/-- does the (clamped) range colour byte b -/
def byteInRange (lo hi : Int) (b : Nat) : Bool := decide (max lo 0 ≤ (b : Int)) && decide ((b : Int) ≤ min hi 255)

/-- the entry (index) that colours byte b: the last one with a covering range; none = default colour -/
def byteColorEntry (entries : List (List (Int × Int))) (b : Nat) : Option Nat :=
  let idx := (List.range entries.length).zip entries
  (idx.filter fun (_, rs) => rs.any fun (lo, hi) => byteInRange lo hi b).getLast?.map (·.1)

/-! ## _stdio_read (interp.go:568-595): `buf := make([]byte, l)` with the caller's length -/

/-- Go `make([]byte, n)`: a negative length or one above maxAlloc (2^48) is a run-time panic
    ("makeslice: len out of range"), above 8 GiB the allocation cannot be satisfied -/
def makeBytes (n : Int) : Outcome Nat :=
  if n < 0 || n > 281474976710656 then .panic "runtime error: makeslice: len out of range"
  else if n.toNat > resourceBits / 8 then .resource "make([]byte, n) of more than 8 GiB"
  else .ok n.toNat

/-- `_stdio_read($fd; $l)`: unknown fd names are errors; a length outside 0..2^30 is an error
    (since `fix: _stdio_read: error on negative or huge length …`) -/
def maxReadLength : Int := 1073741824
def stdioRead (fdKnown : Bool) (l : Int) : Outcome Nat :=
  if !fdKnown then .err "unknown-fd"
  else if l < 0 || l > maxReadLength then .err "read-length"
  else makeBytes l

/-- before the fix the length was used as it came -/
def stdioReadOld (fdKnown : Bool) (l : Int) : Outcome Nat :=
  if !fdKnown then .err "unknown-fd" else makeBytes l

/-! ## _tobits (binary.go:158-190) -/

/-- can `toBinary` convert the input at all (binary.go:31-150)? Only the outermost type matters
    for the arithmetic below; arrays may still fail on a member. -/
def convertible : JV → Option Bool     -- some true: yes, some false: no, none: depends on members
  | .null => some false
  | .bool _ => some false
  | .obj _ => some false
  | .arr _ => none
  | .dv (.obj _) => some true          -- decode values are ToBinary whatever their jq value
  | .dv _ => some true
  | _ => some true

/-- pad computation: `pad := int64(opts.Unit * opts.PadToUnits); if pad == 0 { pad = int64(opts.Unit) };
    bv.pad = (pad - bv.r.Len%pad) % pad` — a zero `pad` is an integer division by zero -/
def tobitsPad (unit padToUnits len : Int) : Outcome Int :=
  let pad0 := wrap64 (unit * padToUnits)
  let pad := if pad0 == 0 then unit else pad0
  (goMod len pad).bind fun r => goMod (wrap64 (pad - r)) pad

structure ToBitsOpts where
  unit : Int
  padToUnits : Int
deriving Repr, BEq, DecidableEq

/-- CastFn[toBitsOpts]: unit and pad_to_units are int fields without defaults, keep_range a bool
    field (a non-bool there fails the whole cast) -/
def castToBitsOpts (v : JV) : Option ToBitsOpts :=
  match normScalar v with
  | .null => some ⟨0, 0⟩
  | .big _ => some ⟨0, 0⟩
  | .obj kv =>
    match fieldInt 0 (lookup kv "unit"), fieldInt 0 (lookup kv "pad_to_units"), fieldBoolOk (lookup kv "keep_range") with
    | some u, some p, true => some ⟨u, p⟩
    | _, _, _ => none
  | _ => none

/-- `_tobits` (binary.go:158-190): after the input converted, only unit 1 and 8 are accepted
    (the check added for finding tobits-unit-zero); then the pad arithmetic for an input of
    `len` bits (what follows — Range, multi reader, Len — returns errors) -/
def toBits (len : Int) (o : ToBitsOpts) : Outcome Int :=
  if o.unit != 1 && o.unit != 8 then .err "unit-not-supported" else tobitsPad o.unit o.padToUnits len

/-- before that check: any unit went into the pad arithmetic -/
def toBitsOld (len : Int) (o : ToBitsOpts) : Outcome Int := tobitsPad o.unit o.padToUnits len

/-! ## Binary.JQValueIndex / JQValueSlice behind gojq's clamping (func.go:1085-1100, 1239-1277) -/

def clampIndex (i lo hi : Int) : Int :=
  let i := if i < 0 then wrap64 (i + hi) else i
  if i < lo then lo else if i < hi then i else hi

/-- a bit range request against a buffer of `len` bits (bitiox.Range → section reader):
    outside is an error value, never a fault -/
def rangeReq (len start n : Int) : Outcome (Int × Int) :=
  if start < 0 || n < 0 || start + n > len then .err "range" else .ok (start, n)

/-- `.[i]` on a binary of `len` bits and unit `unit` (> 0): `l = len/unit`, the index is clamped
    to -1..l, out-of-range indices are passed as -2 or -1 and give null (binary.go:356-359),
    otherwise the range `i*unit .. +unit` is read -/
def binIndex (len unit i : Int) : Outcome (Option (Int × Int)) :=
  let l := len.tdiv unit
  let c := clampIndex i (-1) l
  let c := if c < 0 then -2 else if c ≥ l then -1 else c
  if c < 0 then .ok none
  else (rangeReq len (wrap64 (c * unit)) unit).bind fun r => .ok (some r)

/-- `.[s:e]` on a binary: both ends clamped into 0..l, `e >= s`; JQValueSlice only builds a
    range (binary.go:370-378), reading it later is checked by rangeReq -/
def binSlice (len unit s e : Int) : Outcome (Int × Int) :=
  let l := len.tdiv unit
  let start := clampIndex s 0 l
  let stop := clampIndex e start l
  rangeReq len (wrap64 (start * unit)) (wrap64 ((stop - start) * unit))

/-! ## _intdiv, to_radix, from_radix (internal.jq:103-112, format/math/radix.jq) over integers
    (gojq's int / big.Int arithmetic is exact integer arithmetic: it promotes on overflow) -/

/-- jq `%` on integers: zero divisor is a jq error; Go truncated remainder otherwise -/
def jqMod (a b : Int) : Outcome Int := if b == 0 then .err "zero-modulo" else .ok (a.tmod b)
/-- jq `/` on integers that divide exactly -/
def jqDivExact (a b : Int) : Outcome Int := if b == 0 then .err "zero-division" else .ok (a.tdiv b)

/-- `def _to_int: (. % (. + 1))` — the identity for n >= 0, an error for -1, 0 or -1 below -/
def toIntJq (n : Int) : Outcome Int := jqMod n (n + 1)

def intdiv (a b : Int) : Outcome Int :=
  (toIntJq a).bind fun a => (toIntJq b).bind fun b =>
  (jqMod a b).bind fun r => jqDivExact (a - r) b

/-- `[recurse(if . > 0 then _intdiv(.; $base) else empty end)]` with fuel: `none` = the fuel ran
    out (base 1 never terminates: a `resource:timeout`, interruptible, not a fault) -/
def radixChain (fuel : Nat) (n base : Int) : Outcome (Option (List Int)) :=
  match fuel with
  | 0 => .ok none
  | fuel + 1 =>
    if n > 0 then
      (intdiv n base).bind fun q => (radixChain fuel q base).bind fun rest => .ok (rest.map (n :: ·))
    else .ok (some [n])

def radixTable : List Char := "0123456789abcdefghijklmnopqrstuvwxyzABCDEFGHIJKLMNOPQRSTUVWXYZ@_".toList

/-- `$table[d]` on a string (gojq indexString): clampIndex d -1 len, out of range is null,
    which `join("")` renders as the empty string -/
def tableChar (d : Int) : List Char :=
  let l : Int := radixTable.length
  let i := clampIndex d (-1) l
  if 0 ≤ i && i < l then [radixTable.getD i.toNat '?'] else []

def mapOutcome {α β} (f : α → Outcome β) : List α → Outcome (List β)
  | [] => .ok []
  | a :: as => (f a).bind fun b => (mapOutcome f as).bind fun bs => .ok (b :: bs)

/-- to_radix($base) on an integer input (radix.jq after `fix: radix: …`): a base below 2 is an
    error before anything else; `none` = the fuel ran out (cannot happen for base >= 2 and
    enough fuel: the chain shrinks) -/
def toRadix (fuel : Nat) (n base : Int) : Outcome (Option String) :=
  if base < 2 then .err "base too small" else
  if n == 0 then .ok (some "0") else
  (radixChain fuel n base).bind fun chain =>
  match chain with
  | none => .ok none
  | some ns =>
    (mapOutcome (fun x => jqMod x base) ns).bind fun ds =>
    let digits := ds.reverse.drop 1
    if base ≤ 64 then .ok (some (String.ofList (digits.flatMap tableChar))) else .err "base too large"

/-- before the fix: no lower bound on the base — base 1 divides forever -/
def toRadixOld (fuel : Nat) (n base : Int) : Outcome (Option String) :=
  if n == 0 then .ok (some "0") else
  (radixChain fuel n base).bind fun chain =>
  match chain with
  | none => .ok none
  | some ns =>
    (mapOutcome (fun x => jqMod x base) ns).bind fun ds =>
    let digits := ds.reverse.drop 1
    if base ≤ 64 then .ok (some (String.ofList (digits.flatMap tableChar))) else .err "base too large"

def radixDigit (c : Char) : Option Int :=
  match radixTable.idxOf? c with
  | some i => some i
  | none => none

/-- from_radix($base) on a string of code points, integer base (after the fix): the empty
    string, a character outside the table and a digit >= base are jq errors -/
def fromRadix (cs : List Char) (base : Int) : Outcome Int :=
  if cs.isEmpty then .err "empty string" else
  (mapOutcome (fun c => match radixDigit c with
      | none => .err "invalid char"
      | some d => if d ≥ base then .err "invalid char" else .ok d) cs.reverse).bind fun ds =>
  let step (st : Int × Int) (d : Int) : Int × Int := (st.1 * base, st.2 + st.1 * d)
  .ok (ds.foldl step (1, 0)).2

end FqModel.Total
