/-
  C13 — second model file: more of the Go-registered functions, WITH Go's fault conditions
  (DESIGN §15).  Core Lean only (the driver links it).  Same conventions as Total.lean: every
  fault-capable Go operation (index, slice, explicit `panic(...)`, make) is an explicit `panic`
  outcome, so that "never panics" is a statement inside the logic.

  Sources (file:line of /repo, Go 1.23.5 standard library where fq's function is a thin wrapper):
    format/text/encoding.go:23-44       from_hex, to_hex        encoding/hex/hex.go:87-142 Decode / DecodeString
    format/text/encoding.go:46-88       _from_base64 / _to_base64 option decoding
    format/text/encoding.go:90-240      strEncoding name switch, _to_strencoding / _from_strencoding
    format/text/url.go:11-80            from_urlencode, from_urlpath, from_urlquery (`v[0]`), to_urlquery (`panic("not map")`)
    format/text/url.go:119-160          to_url (`panic("not map")`)
    net/url/url.go:201-272, 969-998     unescape, parseQuery
    format/csv/csv.go:89-122            _to_csv (`opts.Comma[0]`, `panic("not array")`), encoding/csv/writer.go validDelim
    format/crypto/hash.go:30-80         _to_hash name switch
    format/mpeg/shared.go:12-42, 89-113 nal_unescape, nalUnescapeReader.Read (`p[ni] = p[i]`, `n--`)
    pkg/interp/binary.go:42-150         ToBitReader / toBitReaderEx,  internal/bitiox/range.go:35-48 Range
    pkg/interp/query.go:15-38, interp.go:298-310, internal/pos/pos.go:8-19   _query_fromstring, offsetToLineColumn
    pkg/interp/interp.go:555-640        _stdioFdName, _stdio_read, _stdio_write, _stdio_info
    internal/gojqx/types.go:92-123, 161-215   CastFn[string | map | []any], NormalizeFn / NormalizeToStrings
-/
import FqModel.Total
namespace FqModel.Total

/-! ## Go primitives -/

/-- Go `l[i]` (read) -/
def goGet (l : List Nat) (i : Nat) : Outcome Nat :=
  if i < l.length then .ok (l.getD i 0) else .panic "runtime error: index out of range"

/-- Go `s[lo:]` -/
def goSliceFrom (len lo : Nat) : Outcome Unit :=
  if lo > len then .panic "runtime error: slice bounds out of range" else .ok ()

/-! ## gojqx.CastFn for string / []any / map[string]any (types.go:92-123) -/

def castStr (v : JV) : Option (List Nat) :=
  match toGoJQ v with
  | .str bs => some bs
  | _ => none

/-- CastFn[[]any]: nil gives the nil slice -/
def castArr (v : JV) : Option (List JV) :=
  match toGoJQ v with
  | .arr l => some l
  | .null => some []
  | _ => none

/-- CastFn[map[string]any]: nil gives an empty map -/
def castObj (v : JV) : Option (List (String × JV)) :=
  match toGoJQ v with
  | .obj kv => some kv
  | .null => some []
  | _ => none

/-- a string field of an option struct with its content: absent / null keep "" -/
def fieldStr (v : Option JV) : Option (List Nat) :=
  match v.map normScalar with
  | none => some []
  | some .null => some []
  | some (.str bs) => some bs
  | some _ => none

/-- CastFn[struct{ <Field> string }] (ToGoJQValue then mapstruct; same quirks as castIndentOpts) -/
def castStrOpt (field : String) (v : JV) : Option (List Nat) :=
  match normScalar v with
  | .null => some []
  | .big _ => some []
  | .obj kv => fieldStr (lookup kv field)
  | _ => none

/-! ## from_hex: encoding/hex Decode / DecodeString -/

/-- reverseHexTable: 0..15 for a hex digit, 0xff otherwise -/
def reverseHex (b : Nat) : Nat :=
  if 48 ≤ b && b ≤ 57 then b - 48
  else if 97 ≤ b && b ≤ 102 then b - 87
  else if 65 ≤ b && b ≤ 70 then b - 55
  else 255

/-- the loop of hex.Decode (hex.go:88-112) with `dst` of length `dstLen`: returns (n, bytes written,
    error?) — `i, j := 0, 1; for ; j < len(src); j += 2 { p := src[j-1]; q := src[j]; … dst[i] = …; i++ }` -/
def hexLoop : Nat → List Nat → Nat → Nat → Nat → List Nat → Outcome (Nat × List Nat × Option String)
  | 0, _, _, i, _, out => .ok (i, out, some "fuel")
  | fuel + 1, src, dstLen, i, j, out =>
    if j < src.length then
      (goGet src (j - 1)).bind fun p =>
      (goGet src j).bind fun q =>
      let a := reverseHex p
      let b := reverseHex q
      if a > 15 then .ok (i, out, some "invalid byte")
      else if b > 15 then .ok (i, out, some "invalid byte")
      else (goIndex dstLen i).bind fun _ => hexLoop fuel src dstLen (i + 1) (j + 2) (out ++ [a * 16 + b])
    else if src.length % 2 == 1 then
      (goGet src (j - 1)).bind fun p =>
      if reverseHex p > 15 then .ok (i, out, some "invalid byte") else .ok (i, out, some "odd length")
    else .ok (i, out, none)

/-- hex.DecodeString: `dst := make([]byte, len(s)/2); n, err := Decode(dst, s); return dst[:n], err`
    (the slice expression is evaluated on the error paths too) -/
def hexDecodeString (src : List Nat) : Outcome (List Nat) :=
  let dstLen := src.length / 2
  (hexLoop (src.length + 1) src dstLen 0 1 []).bind fun (n, out, e) =>
  (goSliceTo dstLen n).bind fun _ =>
  match e with
  | some k => .err k
  | none => .ok out

/-- from_hex (encoding.go:23-33): Func0 with a string input -/
def fromHex (c : JV) : Outcome (List Nat) :=
  castwrap0 castStr hexDecodeString c

/-! ## ToBitReader (binary.go:42-150) -/

/-- big.Int.BitLen of |i| -/
def bitLen (i : Int) : Nat := if i == 0 then 0 else Nat.log2 i.natAbs + 1

/-- bitiox.Range on a reader of `l` bits (range.go:35-48): the length of the section, or an error -/
def bitioxRange (l first n : Int) : Outcome Nat :=
  if n < 0 then .err "negative nBits"
  else if first + n > l then .err "outside buffer"
  else .ok n.toNat

/-- a number (binary.go:67-92): inside an array it must be a byte; outside it is the big-endian
    bytes of |i| (`bi.Bytes()`, ceil(bitLen/8) bytes) without the leading pad bits -/
def numBitReader (inArr : Bool) (i : Int) : Outcome Nat :=
  if inArr then
    if i > 255 || i < 0 then .err "byte range" else .ok 8
  else
    let bl := bitLen i
    if bl == 0 then .ok 1
    else
      let padBefore := (8 - bl % 8) % 8
      bitioxRange (8 * ((bl + 7) / 8) : Nat) (padBefore : Nat) (bl : Nat)

mutual
/-- toBitReaderEx: the length in bits of the reader, or an error. `dvBits` = length of the range
    of a decode value (ToBinary case; its `bitiox.Range` is inside the buffer for every value the
    decoder built: C03/C04).  Arrays: the fast path (binary.go:96-128, bytes and strings only)
    gives the same length and the same errors as the element-wise path below it. -/
def toBitReader (dvBits : Nat) (inArr : Bool) : JV → Outcome Nat
  | .dv _ => .ok dvBits
  | .bin n _ => .ok n
  | .str bs => .ok (8 * bs.length)
  | .int i => numBitReader inArr i
  | .big i => numBitReader inArr i
  | .shl l n => numBitReader inArr (l * 2 ^ n)
  | .flt f => numBitReader inArr (goIntOfFloat f)      -- toBigInt: int64(v)
  | .arr l => toBitReaderList dvBits l
  | .null => .err "value can't be a binary"
  | .bool _ => .err "value can't be a binary"
  | .obj _ => .err "value can't be a binary"
def toBitReaderList (dvBits : Nat) : List JV → Outcome Nat
  | [] => .ok 0
  | v :: rest => (toBitReader dvBits true v).bind fun a => (toBitReaderList dvBits rest).bind fun b => .ok (a + b)
end

/-- to_hex (encoding.go:34-44): every convertible input encodes -/
def toHex (dvBits : Nat) (c : JV) : Outcome Unit :=
  (toBitReader dvBits false c).bind fun _ => .ok ()

/-- _to_base64 (encoding.go:76-88): opts.Encoding picks the alphabet, unknown names mean "std" -/
def toBase64 (dvBits : Nat) (c opts : JV) : Outcome Unit :=
  match castStrOpt "encoding" opts with
  | none => .err "func-arg-type:first"
  | some _ => (toBitReader dvBits false c).bind fun _ => .ok ()

def hashNames : List String :=
  ["md4", "md5", "sha1", "sha256", "sha512", "sha3_224", "sha3_256", "sha3_384", "sha3_512"]

def strOfBytes (bs : List Nat) : String := String.ofList (bs.map Char.ofNat)

/-- _to_hash (hash.go:57-80): conversion first, then the name switch (nil ⇒ error, never a nil call) -/
def toHash (dvBits : Nat) (c opts : JV) : Outcome Unit :=
  match castStrOpt "name" opts with
  | none => .err "func-arg-type:first"
  | some name =>
    (toBitReader dvBits false c).bind fun _ =>
    if hashNames.contains (strOfBytes name) then .ok () else .err "unknown hash function"

/-! ## string encodings (encoding.go:90-240) -/

def strEncodingNames : List String :=
  ["UTF8", "UTF16", "UTF16LE", "UTF16BE", "CodePage037", "CodePage437", "CodePage850", "CodePage852", "CodePage855",
   "CodePage858", "CodePage860", "CodePage862", "CodePage863", "CodePage865", "CodePage866", "CodePage1047", "CodePage1140",
   "ISO8859_1", "ISO8859_2", "ISO8859_3", "ISO8859_4", "ISO8859_5", "ISO8859_6", "ISO8859_6E", "ISO8859_6I", "ISO8859_7",
   "ISO8859_8", "ISO8859_8E", "ISO8859_8I", "ISO8859_9", "ISO8859_10", "ISO8859_13", "ISO8859_14", "ISO8859_15", "ISO8859_16",
   "KOI8R", "KOI8U", "Macintosh", "MacintoshCyrillic", "Windows874", "Windows1250", "Windows1251", "Windows1252", "Windows1253",
   "Windows1254", "Windows1255", "Windows1256", "Windows1257", "Windows1258", "XUserDefined"]

/-- _to_strencoding: string input, `h == nil` ⇒ error; the x/text encoder is abstract (`enc`) -/
def toStrEncoding (c opts : JV) (enc : Outcome Unit) : Outcome Unit :=
  match castStr c with
  | none => .err "func-type"
  | some _ =>
    match castStrOpt "encoding" opts with
    | none => .err "func-arg-type:first"
    | some name => if strEncodingNames.contains (strOfBytes name) then enc else .err "unknown string encoding"

/-- _from_strencoding: conversion first, then the name -/
def fromStrEncoding (dvBits : Nat) (c opts : JV) (dec : Outcome Unit) : Outcome Unit :=
  match castStrOpt "encoding" opts with
  | none => .err "func-arg-type:first"
  | some name =>
    (toBitReader dvBits false c).bind fun _ =>
    if strEncodingNames.contains (strOfBytes name) then dec else .err "unknown string encoding"

/-! ## nal_unescape (mpeg/shared.go:89-113) -/

structure NalState where
  z0 : Bool      -- lastTwoZeros[0]
  z1 : Bool      -- lastTwoZeros[1]
deriving Repr, BEq, DecidableEq

/-- the loop `for i, b := range p[0:n]` over the bytes read, on a buffer of `plen` bytes:
    `n--` for a dropped 0x03, `p[ni] = p[i]; ni++` otherwise.  Returns (n, ni, state, kept bytes). -/
def nalLoop (plen : Nat) : List Nat → Nat → Nat → Int → NalState → List Nat → Outcome (Int × Nat × NalState × List Nat)
  | [], _, ni, n, st, out => .ok (n, ni, st, out)
  | b :: rest, i, ni, n, st, out =>
    if st.z0 && st.z1 && b == 3 then nalLoop plen rest (i + 1) ni (n - 1) ⟨false, false⟩ out
    else
      (goIndex plen i).bind fun _ =>        -- p[i]
      (goIndex plen ni).bind fun _ =>       -- p[ni] =
      nalLoop plen rest (i + 1) (ni + 1) n ⟨b == 0, st.z0⟩ (out ++ [b])

/-- one Read: the inner reader filled `bs` (n = len bs ≤ plen = len p, the io.Reader contract) -/
def nalRead (plen : Nat) (bs : List Nat) (st : NalState) : Outcome (Int × Nat × NalState × List Nat) :=
  (goSliceTo plen bs.length).bind fun _ => nalLoop plen bs 0 0 bs.length st []

/-- the variant `for i, b := range p` (whole buffer instead of p[0:n]) would index past the data;
    and a Read that counted `n--` twice would return a negative count, on which bytes.Buffer.ReadFrom
    panics — `nal_read_count` below excludes both for the code as it is. -/
def nalUnescape (dvBits : Nat) (c : JV) (bs : List Nat) : Outcome (List Nat) :=
  (toBitReader dvBits false c).bind fun _ =>
  (nalRead (max bs.length 512) bs ⟨false, false⟩).bind fun (n, _, _, out) =>
  if n < 0 then .panic "bytes.Buffer: reader returned negative count from Read" else .ok out

/-! ## _query_fromstring: the error position (internal/pos/pos.go:8-19) -/

/-- strings.Index(s, "\n") -/
def indexNL : List Nat → Option Nat
  | [] => none
  | b :: rest => if b == 10 then some 0 else (indexNL rest).map (· + 1)

/-- `for { no := strings.Index(s[co:], "\n"); if no == -1 || co+no >= offset { return line, offset-co }; co += no+1; line++ }`
    `none` = the fuel ran out (the loop would not end) -/
def lineColLoop : Nat → List Nat → Int → Nat → Nat → Outcome (Option (Nat × Int))
  | 0, _, _, _, _ => .ok none
  | fuel + 1, s, offset, co, line =>
    (goSliceFrom s.length co).bind fun _ =>
    match indexNL (s.drop co) with
    | none => .ok (some (line, offset - co))
    | some no =>
      if ((co + no : Nat) : Int) ≥ offset then .ok (some (line, offset - co))
      else lineColLoop fuel s offset (co + no + 1) (line + 1)

def offsetToLineColumn (s : List Nat) (offset : Int) : Outcome (Option (Nat × Int)) :=
  lineColLoop (s.length + 1) s offset 0 1

/-- _queryFromString (query.go:15-38) + queryErrorPosition (interp.go:298-310): `parseErr` is
    gojq's verdict on the source (none: it parses; some off: ParseError at byte `off`, or 0 for
    other errors) — whatever the parser says, the position arithmetic must not fault. -/
def queryFromString (c : JV) (parseErr : Option Int) : Outcome Unit :=
  match castStr c with
  | none => .err "func-type"
  | some s =>
    match parseErr with
    | none => .ok ()
    | some off =>
      if off ≥ 0 then (offsetToLineColumn s off).bind fun _ => .err "parse" else .err "parse"

/-! ## net/url unescape (url.go:201-272) behind from_urlencode / from_urlpath / from_urlquery -/

def ishex (c : Nat) : Bool := reverseHex c ≤ 15

/-- the first loop: every '%' is followed by two hex digits (`i+2 >= len(s) || !ishex(s[i+1]) ||
    !ishex(s[i+2])` short-circuits before indexing; the list is `s[i:]`) -/
def unescapeCheck : List Nat → Bool
  | [] => true
  | c :: rest =>
    if c == 37 then
      match rest with
      | a :: b :: rest' => ishex a && ishex b && unescapeCheck rest'
      | _ => false
    else unescapeCheck rest

/-- the second loop: `case '%': t.WriteByte(unhex(s[i+1])<<4 | unhex(s[i+2])); i += 2` indexes
    WITHOUT a bounds test of its own — it relies on the first loop -/
def unescapeBuild (plusSpace : Bool) : List Nat → Outcome (List Nat)
  | [] => .ok []
  | c :: rest =>
    if c == 37 then
      match rest with
      | a :: b :: rest' =>
        (unescapeBuild plusSpace rest').bind fun t => .ok ((reverseHex a % 16 * 16 + reverseHex b % 16) :: t)
      | _ => .panic "runtime error: index out of range"
    else (unescapeBuild plusSpace rest).bind fun t => .ok ((if c == 43 && plusSpace then 32 else c) :: t)

/-- QueryUnescape (plusSpace) / PathUnescape -/
def unescape (plusSpace : Bool) (s : List Nat) : Outcome (List Nat) :=
  if !unescapeCheck s then .err "invalid URL escape" else unescapeBuild plusSpace s

def fromUrlEncode (c : JV) : Outcome (List Nat) := castwrap0 castStr (unescape true) c
def fromUrlPath (c : JV) : Outcome (List Nat) := castwrap0 castStr (unescape false) c

/-! ## from_urlquery: url.ParseQuery (url.go:969-998) and fromURLValues (url.go:33-48) -/

/-- strings.Cut(s, sep): before, after, found -/
def cutAt (sep : Nat) : List Nat → List Nat × List Nat × Bool
  | [] => ([], [], false)
  | b :: rest =>
    if b == sep then ([], rest, true)
    else let (x, y, f) := cutAt sep rest; (b :: x, y, f)

/-- the '&'-separated pieces (the loop `for query != "" { key, query, _ = strings.Cut(query, "&") … }`) -/
def splitAmp : Nat → List Nat → List (List Nat)
  | 0, _ => []
  | fuel + 1, q =>
    if q.isEmpty then [] else
    let (k, rest, _) := cutAt 38 q
    k :: splitAmp fuel rest

abbrev Values := List (List Nat × List (List Nat))

/-- `m[key] = append(m[key], value)` -/
def valuesAdd : Values → List Nat → List Nat → Values
  | [], k, v => [(k, [v])]
  | (k', vs) :: rest, k, v => if k' == k then (k', vs ++ [v]) :: rest else (k', vs) :: valuesAdd rest k v

/-- parseQuery over the pieces: returns the map and whether an error was recorded -/
def parseQueryPieces : List (List Nat) → Values → Bool → Outcome (Values × Bool)
  | [], m, e => .ok (m, e)
  | piece :: rest, m, e =>
    if piece.contains 59 then parseQueryPieces rest m true           -- ';'
    else if piece.isEmpty then parseQueryPieces rest m e
    else
      let (k, v, _) := cutAt 61 piece
      match unescape true k with
      | .ok k' =>
        match unescape true v with
        | .ok v' => parseQueryPieces rest (valuesAdd m k' v') e
        | .err _ => parseQueryPieces rest m true
        | .panic w => .panic w
        | .resource w => .resource w
      | .err _ => parseQueryPieces rest m true
      | .panic w => .panic w
      | .resource w => .resource w

/-- fromURLValues: `if len(v) > 1 { array } else { qm[k] = v[0] }` — `v[0]` of an empty slice would be a fault -/
def fromURLValues : Values → Outcome Nat
  | [] => .ok 0
  | (_, vs) :: rest =>
    (if vs.length > 1 then .ok () else (goIndex vs.length 0)).bind fun _ =>
    (fromURLValues rest).bind fun n => .ok (n + 1)

def fromUrlQueryStr (s : List Nat) : Outcome Nat :=
  (parseQueryPieces (splitAmp (s.length + 1) s) [] false).bind fun (m, e) =>
  if e then .err "parse query" else fromURLValues m

def fromUrlQuery (c : JV) : Outcome Nat := castwrap0 castStr fromUrlQueryStr c

/-! ## NormalizeToStrings (types.go:161-215) and the `panic("not map")` / `panic("not array")` after it -/

mutual
/-- NormalizeFn with the to-string leaf function: maps and slices are rebuilt, JQValues are
    converted first, every scalar becomes a string (content abstract except for strings) -/
def normStr : JV → JV
  | .obj kv => .obj (normStrKV kv)
  | .arr l => .arr (normStrL l)
  | .dv u => normStr u
  | .str bs => .str bs
  | .bin _ _ => .str []          -- JQValueToGoJQ: the bytes as a string
  | .null => .str []
  | .bool _ => .str [116]
  | .int _ => .str [48]
  | .big _ => .str [48]
  | .flt _ => .str [48]
  | .shl _ _ => .str [48]
def normStrL : List JV → List JV
  | [] => []
  | v :: rest => normStr v :: normStrL rest
def normStrKV : List (String × JV) → List (String × JV)
  | [] => []
  | (k, v) :: rest => (k, normStr v) :: normStrKV rest
end

/-- to_urlquery (url.go:73-80): `c, ok := NormalizeToStrings(c).(map[string]any); if !ok { panic("not map") }` -/
def toUrlQuery (c : JV) : Outcome Unit :=
  match castObj c with
  | none => .err "func-type"
  | some kv =>
    match normStr (.obj kv) with
    | .obj _ => .ok ()          -- toURLValues / Encode: ok-guarded casts only
    | _ => .panic "not map"

/-- to_url (url.go:119-160): the same assertion, then ok-guarded casts of the members -/
def toUrl (c : JV) : Outcome Unit :=
  match castObj c with
  | none => .err "func-type"
  | some kv =>
    match normStr (.obj kv) with
    | .obj _ => .ok ()
    | _ => .panic "not map"

/-! ## _to_csv (csv.go:89-122) -/

/-- encoding/csv validDelim for a rune below 256 (`rune(opts.Comma[0])` is a BYTE): not NUL, quote,
    CR, LF (every such rune is a valid rune and not U+FFFD) -/
def csvValidDelim (r : Nat) : Bool := r != 0 && r != 34 && r != 13 && r != 10

def isStrJV : JV → Bool
  | .str _ => true
  | _ => false

/-- one row: `rs, ok := Cast[[]any](row)`; `vs, ok := NormalizeToStrings(rs).([]any); if !ok { panic("not array") }`;
    every member must have become a string; `w.Write` fails on an invalid delimiter -/
def csvRow (delim : Nat) (row : JV) : Outcome Unit :=
  match castArr row with
  | none => .err "expected row to be an array"
  | some rs =>
    match normStr (.arr rs) with
    | .arr vs =>
      if !(vs.all isStrJV) then .err "expected row record to be scalars"
      else if !csvValidDelim delim then .err "csv: invalid field or comment delimiter"
      else .ok ()
    | _ => .panic "not array"

def csvRows (delim : Nat) : List JV → Outcome Unit
  | [] => .ok ()
  | r :: rest => (csvRow delim r).bind fun _ => csvRows delim rest

/-- `if opts.Comma != "" { w.Comma = rune(opts.Comma[0]) }` (`guarded` = the test is there) -/
def csvComma (guarded : Bool) (comma : List Nat) : Outcome Nat :=
  if guarded && comma.isEmpty then .ok 44 else goGet comma 0

def toCSVWith (guarded : Bool) (c opts : JV) : Outcome Unit :=
  match castArr c with
  | none => .err "func-type"
  | some rows =>
    match castStrOpt "comma" opts with
    | none => .err "func-arg-type:first"
    | some comma => (csvComma guarded comma).bind fun d => csvRows d rows

def toCSV := toCSVWith true
/-- without the `!= ""` test: `""[0]` -/
def toCSVUnguarded := toCSVWith false

/-! ## _stdio_write / _stdio_info (interp.go:555-640): the fd name switch and ok-guarded assertions -/

def stdioFdKnown (name : List Nat) : Bool := ["stdin", "stdout", "stderr"].contains (strOfBytes name)

/-- `_stdioFdName` then `fd.(io.Writer)` / `fd.(Terminal)` with the comma-ok form: `hasIface` = the
    assertion succeeds; a failed one is an error value -/
def stdioFdOp (fd : JV) (hasIface : Bool) : Outcome Unit :=
  match castStr fd with
  | none => .err "func-arg-type:first"
  | some name => if !stdioFdKnown name then .err "unknown fd" else if !hasIface then .err "not a writeable / terminal" else .ok ()

/-- `_stdio_read` with its argument casts (Iter2: string, int), on top of Total.stdioRead;
    after the allocation: `n, err := io.ReadFull(r, buf); s := string(buf[0:n])` with 0 ≤ n ≤ len buf -/
def stdioReadCall (fd l : JV) (isReader : Bool) (avail : Nat) : Outcome Nat :=
  match castStr fd with
  | none => .err "func-arg-type:first"
  | some name =>
    match castInt l with
    | none => .err "func-arg-type:second"
    | some n =>
      if stdioFdKnown name && !isReader then .err "not a reader" else
      (stdioRead (stdioFdKnown name) n).bind fun len =>
      let got := min avail len
      (goSliceTo len got).bind fun _ => .ok got

end FqModel.Total
