/-
  C13 — third part of the model: the dimension "Go's int is 64 bit and WRAPS".

  Wherever fq multiplies, adds or subtracts integers that come from the user (option members,
  function arguments, index / slice bounds) in Go `int` / `int64` arithmetic BEFORE using the result
  as a divisor, a length, an index or an allocation size, the model does the same operation
  reduced into [-2^63, 2^63) (`wrap64`, FqModel/Total.lean).  This file gives the operations names,
  carries `_tobits` from its pad arithmetic (already wrapping in Total.lean) to the END of the
  function (the zero-pad reader, the int64 sum of bitio.NewMultiReader, bitiox.Len), models the
  variant of the seeded change S5-C13-1, adds the range start of a Binary to the index / slice
  arithmetic, and models the display_bytes / line_bytes arithmetic of dump.go, which multiplies an
  option that has NO upper clamp (display_bytes) by 8.

  Sources (file:line of /repo):
    pkg/interp/binary.go:158-190        _toBits
    pkg/interp/binary.go:505-514        Binary.toReader
    pkg/interp/binary.go:312-324        NewBinaryFromBitReader
    pkg/bitio/multireader.go:10-49      endPos, NewMultiReader (`esSum += e`)
    pkg/bitio/multireader.go:88-110     MultiReader.SeekBits
    internal/bitiox/zeroreadatseeker.go:18-37   ZeroReadAtSeeker.SeekBits
    internal/bitiox/bitiox.go:20-48     Len, Range
    pkg/interp/binary.go:346-378        Binary.JQValueLength / JQValueIndex / JQValueSlice
    pkg/interp/dump.go:227-266, 303-310 the display range of one value
-/
import FqModel.Total
import FqModel.Total2
namespace FqModel.Total

/-! ## Go `int` / `int64` arithmetic (two's complement, silent wrap-around; Go spec "Integer overflow") -/

def goAdd (a b : Int) : Int := wrap64 (a + b)
def goSub (a b : Int) : Int := wrap64 (a - b)
def goMul (a b : Int) : Int := wrap64 (a * b)

/-- the values a Go `int` can hold -/
def GoInt (i : Int) : Prop := minInt64 ≤ i ∧ i ≤ maxInt64

/-- Go `a / b`, `a % b` without the zero test (the callers below have a non-zero divisor by
    construction and say why); `MinInt64 / -1` wraps to MinInt64 and is not a fault (Go spec) -/
def goQuot (a b : Int) : Int := wrap64 (a.tdiv b)
def goRem (a b : Int) : Int := a.tmod b

/-! ## `_tobits` to the end (binary.go:158-190) -/

/-- what `_tobits` returns: the range length, unit and pad of the resulting Binary -/
structure BinRes where
  len : Int
  unit : Int
  pad : Int
deriving Repr, BEq, DecidableEq

/-- `endPos` (multireader.go:10-24) of a fresh ZeroReadAtSeeker of `nBits` bits: its first call
    `SeekBits(0, io.SeekCurrent)` has p = 0 and answers ErrOffset iff `p < 0 || p > z.nBits`
    (zeroreadatseeker.go:32) — so a NEGATIVE pad is an error value, a positive one its own end -/
def zeroEndPos (nBits : Int) : Outcome Int :=
  if nBits < 0 then .err "offset" else .ok nBits

/-- `bitio.NewMultiReader(bitiox.NewZeroAtSeeker(pad), br)` (binary.go:513, multireader.go:37-49:
    `esSum += e` is an int64 sum and may wrap) followed by `bitiox.Len` of the result
    (NewBinaryFromBitReader, binary.go:313; bitiox.go:21: `SeekBits(0, io.SeekCurrent)` on the
    MultiReader answers ErrOffset iff `p < 0 || p > end` with p = 0, multireader.go:104) -/
def padReaderLen (pad len : Int) : Outcome Int :=
  (zeroEndPos pad).bind fun e0 =>
  let e := goAdd (goAdd 0 e0) len
  if e < 0 then .err "offset" else .ok e

/-- Binary.toReader (binary.go:505-514): no pad, no MultiReader -/
def toReaderLen (pad len : Int) : Outcome Int :=
  if pad == 0 then .ok len else padReaderLen pad len

/-- the whole of `_tobits` after the input converted to a binary of `len` bits -/
def toBitsFullWith (padFn : Int → Int → Int → Outcome Int) (len : Int) (o : ToBitsOpts) (keepRange : Bool) :
    Outcome BinRes :=
  if o.unit != 1 && o.unit != 8 then .err "unit-not-supported" else
  (padFn o.unit o.padToUnits len).bind fun pad =>
  if keepRange then .ok ⟨len, o.unit, pad⟩
  else (toReaderLen pad len).bind fun l => .ok ⟨l, o.unit, 0⟩

/-- the code as it is -/
def toBitsFull := toBitsFullWith tobitsPad

/-- seeded change S5-C13-1: "start from pad = unit and multiply by pad_to_units only when that is
    positive" — the product can still wrap to 0, and nothing catches it any more -/
def tobitsPadSeeded (unit padToUnits len : Int) : Outcome Int :=
  let pad := if padToUnits > 0 then goMul unit padToUnits else unit
  (goMod len pad).bind fun r => goMod (goSub pad r) pad

def toBitsFullSeeded := toBitsFullWith tobitsPadSeeded

/-- a second variant of the same mechanism: the zero test is made BEFORE the multiplication
    (`if opts.PadToUnits == 0 { pad = unit } else { pad = unit * opts.PadToUnits }`) -/
def tobitsPadTestFirst (unit padToUnits len : Int) : Outcome Int :=
  let pad := if padToUnits == 0 then unit else goMul unit padToUnits
  (goMod len pad).bind fun r => goMod (goSub pad r) pad

def toBitsFullTestFirst := toBitsFullWith tobitsPadTestFirst

/-- the keep_range member as mapstructure reads it (a bool field; CastFn has already rejected
    non-bools) -/
def keepRangeOf (v : JV) : Bool :=
  match normScalar v with
  | .obj kv => match (lookup kv "keep_range").map normScalar with
    | some (.bool b) => b
    | _ => false
  | _ => false

/-! ## `_stdio_read`: a length check made in BITS (hand-made mutation of interp.go:593-596)

    `if lBits := l * 8; l < 0 || lBits < 0 || lBits > maxReadBits` — guards against the product
    wrapping negative, not against it wrapping to a small non-negative number -/

def stdioReadBitsGuard (fdKnown : Bool) (l : Int) : Outcome Nat :=
  if !fdKnown then .err "unknown-fd"
  else
    let lBits := goMul l 8
    if l < 0 || lBits < 0 || lBits > 8 * maxReadLength then .err "read-length" else makeBytes l

/-! ## Binary index / slice with the range start (binary.go:346-378)

    A Binary is a range `start .. start+len` of a reader of `bufLen` bits.  JQValueIndex computes
    `b.r.Start + int64(index*b.unit)` (Go int product, int64 sum), JQValueSlice
    `b.r.Start + int64(start*b.unit)` and `int64((end-start)*b.unit)`. -/

def binIndexAt (bufLen start len unit i : Int) : Outcome (Option (Int × Int)) :=
  let l := goQuot len unit                       -- JQValueLength: int(b.r.Len / int64(b.unit)), unit > 0
  let c := clampIndex i (-1) l
  let c := if c < 0 then -2 else if c ≥ l then -1 else c
  if c < 0 then .ok none
  else (rangeReq bufLen (goAdd start (goMul c unit)) unit).bind fun r => .ok (some r)

def binSliceAt (bufLen start len unit s e : Int) : Outcome (Int × Int) :=
  let l := goQuot len unit
  let a := clampIndex s 0 l
  let b := clampIndex e a l
  rangeReq bufLen (goAdd start (goMul a unit)) (goMul (goSub b a) unit)

/-! ## the display range of a value in the hex dump (dump.go:227-266, 303-310)

    `display_bytes` is only clamped from below (interp.go:1086 `max(0, …)`): any int up to 2^63-1
    reaches `int64(opts.DisplayBytes)*8`, which wraps — 2^60 gives MinInt64, 2^61 gives 0.  Every
    operation below is the Go operation, in the order of the code. -/

structure DumpRange where
  reqStart : Int          -- bitiox.Range(rootV.RootReader, startByte*8, displaySizeBits)
  reqBits : Int
  addrLines : Int         -- the loop `for i := int64(1); i < addrLines; i++` prints one line each
  startLineByteOffset : Int   -- the start offset given to hexpairwriter.New / asciiwriter.New
deriving Repr, BEq, DecidableEq

/-- dump.go:232-247: the last bit that is displayed -/
def dumpLastDisplayBit (startBit sizeBits displayBytes lineBytes : Int) : Outcome Int :=
  let stopBit := goSub (goAdd startBit sizeBits) 1
  let db8 := goMul displayBytes 8
  let lb8 := goMul lineBytes 8
  if displayBytes > 0 && sizeBits > db8 then
    let ldb := goAdd startBit (goSub db8 1)
    (goMod ldb lb8).bind fun m =>
    let ldb := if m != 0 then goAdd ldb (goSub (goSub lb8 m) 1) else ldb
    if ldb > stopBit || goSub stopBit ldb ≤ lb8 then .ok stopBit else .ok ldb
  else .ok stopBit

/-- dump.go:249-266, 275, 303: bytes, lines and the range that is read -/
def dumpRangeFrom (rootBitLen startBit sizeBits lineBytes lastDisplayBit : Int) : Outcome DumpRange :=
  let bufferLastBit := goSub rootBitLen 1
  let startByte := goQuot startBit 8
  let lastDisplayByte := goQuot lastDisplayBit 8
  let displaySizeBytes := goAdd (goSub lastDisplayByte startByte) 1
  let displaySizeBits := goMul displaySizeBytes 8
  let maxDisplaySizeBits := goAdd (goSub bufferLastBit (goMul startByte 8)) 1
  let displaySizeBits := if sizeBits == 0 then 0 else displaySizeBits
  let displaySizeBits := if displaySizeBits > maxDisplaySizeBits then maxDisplaySizeBits else displaySizeBits
  (goDiv startByte lineBytes).bind fun startLine =>
  (goMod startByte lineBytes).bind fun startLineByteOffset =>
  (goDiv lastDisplayByte lineBytes).bind fun lastDisplayLine =>
  (rangeReq rootBitLen (goMul startByte 8) displaySizeBits).bind fun (rs, rn) =>
  .ok ⟨rs, rn, goAdd (goSub lastDisplayLine startLine) 1, startLineByteOffset⟩

def dumpRange (rootBitLen startBit sizeBits displayBytes lineBytes : Int) : Outcome DumpRange :=
  (dumpLastDisplayBit startBit sizeBits displayBytes lineBytes).bind fun lastDisplayBit =>
  dumpRangeFrom rootBitLen startBit sizeBits lineBytes lastDisplayBit

/-- the same with `display_bytes*8` computed WITHOUT wrap-around (what an unbounded-integer
    model would say): used to show that the wrap matters for what is displayed -/
def dumpRangeNoWrap (rootBitLen startBit sizeBits displayBytes lineBytes : Int) : Outcome DumpRange :=
  let bufferLastBit := rootBitLen - 1
  let stopBit := startBit + sizeBits - 1
  let db8 := displayBytes * 8
  let lb8 := lineBytes * 8
  (if displayBytes > 0 && sizeBits > db8 then
      let ldb := startBit + (db8 - 1)
      (goMod ldb lb8).bind fun m =>
      let ldb := if m != 0 then ldb + (lb8 - m - 1) else ldb
      if ldb > stopBit || stopBit - ldb ≤ lb8 then .ok stopBit else .ok ldb
    else .ok stopBit).bind fun lastDisplayBit =>
  let startByte := startBit.tdiv 8
  let lastDisplayByte := lastDisplayBit.tdiv 8
  let displaySizeBits := (lastDisplayByte - startByte + 1) * 8
  let maxDisplaySizeBits := bufferLastBit - startByte * 8 + 1
  let displaySizeBits := if sizeBits == 0 then 0 else displaySizeBits
  let displaySizeBits := if displaySizeBits > maxDisplaySizeBits then maxDisplaySizeBits else displaySizeBits
  (goDiv startByte lineBytes).bind fun startLine =>
  (goMod startByte lineBytes).bind fun startLineByteOffset =>
  (goDiv lastDisplayByte lineBytes).bind fun lastDisplayLine =>
  (rangeReq rootBitLen (startByte * 8) displaySizeBits).bind fun (rs, rn) =>
  .ok ⟨rs, rn, lastDisplayLine - startLine + 1, startLineByteOffset⟩

end FqModel.Total
