import FqModel.Bits
import FqModel.Gaps
/-!
  C03 — model of the decode API layer of pkg/decode (decode.go, value.go), transliterated.

  * `Prog`          a DSL of decoder programs written against the public `decode.D` API
  * `exec`/`run`    what the Go API does for such a program: cursor handling, range recording
                    around the read (TryFieldValue decode.go:1251), AddChild (:791) incl. the
                    duplicate-name Fatalf, Framed/Limited/RangeFn (:929-967), SeekRel/SeekAbs with
                    restore (:736-789), nested `decode()` (:48-176: section reader, recover, FillGaps,
                    range rebasing walk, postProcess), D.Format (:1003), FieldFormat/Len/Range/OrRaw (:999-1105),
                    FieldFormatBitBuf (:1107), FieldRootBitBuf (:1139), Field{Struct,Array}RootBitBufFn
                    (:1161-1183), Fatalf/Errorf (:372-381)
  * `postProcess`   value.go:184-227 (hull of same-buffer, non-synthetic children; STABLE sort of struct
                    fields by start; index assignment), walking one buffer root (Walk OneRoot, value.go:46)
  * `WF`            the statement of the property as an executable predicate on a tree.

  Quirks kept (they matter):
  * `bitio.SectionReader.SeekBits` (sectiontreader.go:46) rejects positions before the section but
    accepts ANY position after its end.  `D.trySeekAbs` (decode.go:736) refuses `pos > Len()` itself
    (fix b19305f5) and `RangeFn` — like FramedFn/LimitedFn — refuses a negative nBits with Fatalf, also under
    Force (fix 2947129a), so the cursor of a decoder never stands beyond the end of its section (ghost flag
    `over`, proved to stay false).  `doSubOld` keeps the RangeFn rule before 2947129a for the regression theorem.
  * `Field{Struct,Array}RootBitBufFn` post-process the nested root in a `defer` (fix 227ce6eb), i.e. also
    when a decoder error unwinds through them.
  * `decode()` treats the range 0:0 as "whole buffer" (`Range.IsZero`, decode.go:55), also for
    `FieldFormatLen(name, 0, …)` at position 0.
  * the rebasing walk of `decode()` skips nested buffer roots, so the Start of a nested root
    (position in the parent buffer) is NOT rebased by enclosing sub-format decodes.
  * `postProcess` of a `…RootBitBufFn` root overwrites its Start (position in the parent buffer) with
    the minimum child start in its own buffer; `TryFieldFormatBitBuf` re-sets Start afterwards.
  * `D.FillGaps` runs outside `recoverfn.Run`; its IOPanic / duplicate "gapN" Fatalf escapes `decode()`.

  Go `int64` is modelled as unbounded `Int` (programs of the generator stay far below 2^63).
  Core Lean only (the driver links this file).
-/
namespace FqModel.Tree
open FqModel FqModel.Gaps

/-- field names: the harness renders `f n` as "f<n>" and `gap n` as "gap<n>"
    (real decoders' names are mapped injectively to `f`, see Drv/C03.lean) -/
inductive FName where
  | f (n : Nat)
  | gap (n : Nat)
deriving DecidableEq, Repr, Inhabited

/-- `synth`: scalar with FlagSynthetic, `gap`: scalar with FlagGap, `other`: any other scalar -/
inductive Kind where
  | struct | array | uint | raw | synth | gap | other
deriving DecidableEq, Repr, Inhabited

/-- class of `Value.Err` / of an unwinding panic: DecoderError, IOError -/
inductive ErrK where
  | none | de | io
deriving DecidableEq, Repr, Inhabited

structure Info where
  name : FName
  kind : Kind
  start : Int
  len : Int
  /-- `Value.Index` (Go zero value 0 until postProcess assigns it) -/
  index : Int := 0
  isRoot : Bool := false
  /-- for buffer roots: bit length of `Value.RootReader` (the buffer the children live in) -/
  bufLen : Int := 0
  err : ErrK := .none
  /-- `Actual` of an unsigned field (correspondence of the bits read) -/
  val : Nat := 0
  /-- observed on the implementation: `v.Parent == parent` and, in a struct, `ByName[v.Name] == v` -/
  link : Bool := true
deriving DecidableEq, Repr, Inhabited

inductive T where
  | mk (i : Info) (kids : List T)
deriving Repr, Inhabited

def T.i : T → Info | .mk i _ => i
def T.kids : T → List T | .mk _ k => k
def T.start (t : T) : Int := t.i.start
def T.len (t : T) : Int := t.i.len
def T.stop (t : T) : Int := t.i.start + t.i.len
def T.name (t : T) : FName := t.i.name
def T.isRoot (t : T) : Bool := t.i.isRoot

def Kind.isComp (k : Kind) : Bool := k == .struct || k == .array

def leaf (name : FName) (kind : Kind) (start len : Int) (val : Nat := 0) : T :=
  .mk { name, kind, start, len, val } []

/-! ## programs -/

inductive SubKind where
  | framed | limited | range (off : Int)
deriving Repr, Inhabited

inductive FMode where
  /-- FieldFormat / FieldFormatOrRaw -/
  | rest (orRaw : Bool)
  /-- FieldFormatLen / FieldFormatOrRawLen -/
  | len (n : Int) (orRaw : Bool)
  /-- FieldFormatRange (firstBit ≥ 0: a decoder passing a negative offset is outside the model) -/
  | range (off : Nat) (n : Int)
deriving Repr, Inhabited

inductive Prog where
  /-- `d.FieldU(name, n)` -/
  | u (name : FName) (n : Nat)
  /-- `d.FieldRawLen(name, n)` -/
  | raw (name : FName) (n : Int)
  /-- `d.FieldValueUint(name, 0)` (synthetic, zero width) -/
  | syn (name : FName)
  /-- `d.FieldStruct` / `d.FieldArray` -/
  | comp (arr : Bool) (name : FName) (body : List Prog)
  /-- `d.FramedFn(n, …)`, `d.LimitedFn(n, …)`, `d.RangeFn(off, n, …)` -/
  | sub (k : SubKind) (n : Int) (body : List Prog)
  /-- `d.SeekAbs(x, fns…)` / `d.SeekRel(x, fns…)`; `restore` = one fn (the body) is passed -/
  | seek (abs : Bool) (x : Int) (restore : Bool) (body : List Prog)
  /-- nested format decode on the same buffer; the sub-format is `{RootArray: arr, DecodeFn: body}` -/
  | fmt (m : FMode) (name : FName) (arr : Bool) (body : List Prog)
  /-- `d.Format({RootArray: arr, DecodeFn: body}, nil)`: decode a nested format on the rest of the section and
      INLINE its root's children into the current compound (one AddChild per child) -/
  | inl (arr : Bool) (body : List Prog)
  /-- `d.FieldFormatBitBuf(name, <fresh zero buffer of nbits bits>, {RootArray: arr, DecodeFn: body})` -/
  | fmtBuf (name : FName) (nbits : Nat) (arr : Bool) (body : List Prog)
  /-- `d.FieldStructRootBitBufFn` / `d.FieldArrayRootBitBufFn` on a fresh zero buffer of nbits bits -/
  | rootFn (arr : Bool) (name : FName) (nbits : Nat) (body : List Prog)
  /-- `d.FieldRootBitBuf(name, <fresh zero buffer of nbits bits>)` -/
  | rootBuf (name : FName) (nbits : Nat)
  /-- `d.Fatalf` (always = true) / `d.Errorf` (no-op when forced) -/
  | fail (always : Bool)
  /-- `c := d.U(nbits) % mod` (0 if mod = 0), then the body `c` times on the same decoder -/
  | loop (nbits : Nat) (mod : Nat) (body : List Prog)
deriving Repr, Inhabited

/-! ## the decoder state -/

/-- what is fixed while one `fn(d)` runs: the section `d.bitBuf` reads, whether `d.Value` is an array, Force -/
structure Ctx where
  buf : Bits
  arr : Bool
  force : Bool

/-- what changes: the children of `d.Value` so far (insertion order), the cursor `d.Pos()`, the unwinding
    panic if any; ghost flag `over` (see the header) -/
structure St where
  kids : List T := []
  pos : Int := 0
  err : ErrK := .none
  over : Bool := false
deriving Repr, Inhabited

def St.ok (s : St) : Bool := s.err == .none

def St.fail (s : St) (e : ErrK) : St := { s with err := e }

def hasName (kids : List T) (n : FName) : Bool := kids.any (fun k => k.name == n)

/-- decode.go:791 AddChild: a struct refuses a second child of the same name with Fatalf (DecoderError) -/
def addChild (c : Ctx) (st : St) (v : T) : St :=
  if !c.arr && hasName st.kids v.name then st.fail .de
  else { st with kids := st.kids ++ [v] }

/-- FieldRawLen: TryBitBufLen (decode.go:629) = bitiox.Range(pos, n) (negative / outside buffer → error)
    then SeekRel(n); range recorded by TryFieldValue -/
def doRaw (c : Ctx) (st : St) (name : FName) (n : Int) : St :=
  if n < 0 ∨ st.pos + n > c.buf.length then st.fail .io
  else addChild c { st with pos := st.pos + n } (leaf name .raw st.pos n)

/-- can `nbits` be read at the cursor?  TryUintBits (decode.go:411): 0..64; bitio.ReadFull of 0 bits
    succeeds at ANY position, otherwise all bits must lie inside the section -/
def canRead (c : Ctx) (st : St) (n : Nat) : Bool :=
  decide (n ≤ 64) && (n == 0 || decide (st.pos + n ≤ c.buf.length))

def readVal (c : Ctx) (st : St) (n : Nat) : Nat := ofBitsBE (slice c.buf st.pos.toNat n)

def iter (f : St → St) : Nat → St → St
  | 0, s => s
  | n+1, s => let s' := f s; if s'.ok then iter f n s' else s'

/-! ## postProcess (value.go:184-227) -/

def eligible (t : T) : Bool := !t.i.isRoot && t.i.kind != .synth

/-- the `first`/`MinMax` loop: returns the new (start, len) of the compound -/
def hullLoop : Option (Int × Int) → List T → Option (Int × Int)
  | acc, [] => acc
  | acc, k :: ks =>
    if eligible k then
      match acc with
      | none => hullLoop (some (k.start, k.len)) ks
      | some (s, l) =>
        -- ranges.MinMax
        let mn := min s k.start
        let mx := max (s + l) k.stop
        hullLoop (some (mn, mx - mn)) ks
    else hullLoop acc ks

/-- stable insertion of `x`, which preceded all of the (sorted) list in the original order: it goes
    after the elements whose start is strictly smaller and BEFORE those with an equal start -/
def insertByStart (x : T) : List T → List T
  | [] => [x]
  | y :: ys => if y.start < x.start then y :: insertByStart x ys else x :: y :: ys

/-- slices.SortStableFunc by Range.Start: a stable sort's result is unique, so insertion sort models it -/
def sortByStart : List T → List T
  | [] => []
  | x :: xs => insertByStart x (sortByStart xs)

def setIndex (ix : Int) : T → T
  | .mk i kids => .mk { i with index := ix } kids

def assignIdx (arr : Bool) : Nat → List T → List T
  | _, [] => []
  | n, k :: ks => setIndex (if arr then (n : Int) else -1) k :: assignIdx arr (n + 1) ks

mutual
/-- the walk function applied to `v` and, post-order, to the values below it in the same buffer -/
def postProcess : T → T
  | .mk i kids =>
    if i.kind.isComp then
      let kids1 := ppKids kids
      let (s, l) := (hullLoop none kids1).getD (i.start, i.len)
      let kids2 := if i.kind == .array then kids1 else sortByStart kids1
      .mk { i with start := s, len := l, index := -1 } (assignIdx (i.kind == .array) 0 kids2)
    else .mk i kids
/-- Walk with OneRoot: a nested buffer root below `v` is skipped together with its subtree -/
def ppKids : List T → List T
  | [] => []
  | k :: ks => (if k.isRoot then k else postProcess k) :: ppKids ks
end

/-! ## decode() after the format function returned: FillGaps, rebasing walk, root range -/

mutual
/-- ranges of the non-compound values of one buffer, pre-order (D.FillGaps, decode.go:326-347) -/
def leafRanges : T → List Range
  | .mk i kids => if i.kind.isComp then leafRangesL kids else [⟨i.start, i.len⟩]
def leafRangesL : List T → List Range
  | [] => []
  | k :: ks => (if k.isRoot then [] else leafRanges k) ++ leafRangesL ks
end

def minMax (a b : Range) : Range :=
  let mn := min a.start b.start
  let mx := max a.stop b.stop
  ⟨mn, mx - mn⟩

mutual
/-- `minMaxRange = ranges.MinMax(minMaxRange, v.Range)` over the OneRoot pre-order walk (decode.go:153) -/
def mmFold : Range → T → Range
  | acc, .mk i kids => mmFoldL (minMax acc ⟨i.start, i.len⟩) kids
def mmFoldL : Range → List T → Range
  | acc, [] => acc
  | acc, k :: ks => mmFoldL (if k.isRoot then acc else mmFold acc k) ks
end

mutual
/-- `v.Range.Start += decodeRange.Start` over the same walk -/
def rebase (d : Int) : T → T
  | .mk i kids => .mk { i with start := i.start + d } (rebaseL d kids)
def rebaseL (d : Int) : List T → List T
  | [] => []
  | k :: ks => (if k.isRoot then k else rebase d k) :: rebaseL d ks
end

/-- D.FillGaps (decode.go:349-368): for every gap `bitiox.Range` (IOPanic when negative or outside the
    section) and AddChild (Fatalf on a duplicate "gapN" in a struct root); `none` = it panicked -/
def addGaps (arr : Bool) (l : Int) : Nat → List Range → List T → Except ErrK (List T)
  | _, [], kids => .ok kids
  | n, g :: gs, kids =>
    if g.len < 0 ∨ g.start + g.len > l then .error .io
    else if !arr && hasName kids (.gap n) then .error .de
    else addGaps arr l (n + 1) gs (kids ++ [leaf (.gap n) .gap g.start g.len])

inductive DecRes where
  /-- FillGaps panicked outside recoverfn.Run: the panic escapes decode() -/
  | panic (e : ErrK)
  /-- `(d.Value, formatsErr?)`: the (possibly partial) root value and the class of its Err -/
  | value (t : T)
deriving Repr, Inhabited

/-- decode.go:120-172 for a single-format group, given the state `r` in which DecodeFn ended.
    `s`,`l` = decodeRange; `bufLen` = length of `br` (recorded for buffer roots only). -/
def finishDecode (name : FName) (arr : Bool) (s l : Int) (isRoot fillGaps : Bool) (bufLen : Int) (r : St) : DecRes :=
  let kind := if arr then Kind.array else Kind.struct
  match (if fillGaps then addGaps arr l 0 (gaps ⟨0, l⟩ (leafRangesL r.kids)) r.kids else .ok r.kids) with
  | .error e => .panic e
  | .ok kids =>
    let root0 : T := .mk { name, kind, start := 0, len := 0, isRoot, err := r.err, bufLen := if isRoot then bufLen else 0 } kids
    let mm := mmFold ⟨0, 0⟩ root0
    match rebase s root0 with
    | .mk i kids' =>
      let root1 : T := .mk { i with start := s, len := mm.len } kids'
      .value (if isRoot then postProcess root1 else root1)

def zeros (n : Nat) : Bits := List.replicate n false

/-! ## the interpreter

  One function per API call; `body` is the interpretation of the nested `fn(d)` (for the recursion to be
  structural the calls are tied together in `exec` below). -/

abbrev Body := Ctx → St → St

/-- `d.FieldU(name, n)`: TryFieldValue (decode.go:1251): start := Pos(); fn(); stop := Pos(); on error nothing
    is added and FieldU IOPanics -/
def doU (name : FName) (n : Nat) (c : Ctx) (st : St) : St :=
  if canRead c st n then
    addChild c { st with pos := st.pos + n } (leaf name .uint st.pos n (readVal c st n))
  else st.fail .io

/-- `d.FieldStruct` / `d.FieldArray`: fieldDecoder (decode.go:240) Range{Pos(), 0}; AddChild BEFORE fn(cd) -/
def doComp (arr : Bool) (name : FName) (body : Body) (c : Ctx) (st : St) : St :=
  if !c.arr && hasName st.kids name then st.fail .de
  else
    let r := body { c with arr := arr } { st with kids := [] }
    let node : T := .mk { name, kind := if arr then .array else .struct, start := st.pos, len := 0 } r.kids
    { r with kids := st.kids ++ [node] }

/-- firstBit of the RangeFn call behind Framed/Limited/RangeFn -/
def SubKind.first (k : SubKind) (pos : Int) : Int := match k with | .range off => off | _ => pos
/-- Framed/Limited/RangeFn: Fatalf("nBits < 0") (DecoderError, regardless of Force) -/
def SubKind.negFatal (_k : SubKind) (n : Int) : Bool := decide (n < 0)
/-- before fix 2947129a RangeFn did not check -/
def SubKind.negFatalOld (k : SubKind) (n : Int) : Bool := match k with | .range _ => false | _ => decide (n < 0)
/-- the cursor of `d` after the call: RangeFn leaves it, FramedFn does `d.SeekRel(nBits)`, LimitedFn
    `d.SeekRel(endPos - startPos)` — trySeekAbs refuses a target beyond `d.Len()` (IOPanic) -/
def SubKind.finish (k : SubKind) (st r : St) (n L : Int) : St := match k with
  | .range _ => { r with pos := st.pos }
  | .framed => { r with pos := st.pos + n }
  | .limited => if r.pos > L then r.fail .io else r

/-- `d.FramedFn` / `d.LimitedFn` / `d.RangeFn` (decode.go:929-967) -/
def doSub (k : SubKind) (n : Int) (body : Body) (c : Ctx) (st : St) : St :=
  let L : Int := c.buf.length
  if k.negFatal n then st.fail .de
  else
    let first := k.first st.pos
    let tot := first + n
    -- RangeFn: BitBufRange(0, firstBit+nBits) then br.SeekBits(firstBit)
    if tot < 0 ∨ tot > L ∨ first < 0 then st.fail .io
    else
      let r := body { c with buf := c.buf.take tot.toNat } { st with pos := first, over := st.over || decide (first > tot) }
      if !r.ok then r else k.finish st r n L

/-- HISTORICAL: `doSub` as the code was before fix 2947129a (RangeFn accepted a negative nBits and started `fn`
    with the cursor beyond its section); only used by the regression theorem `rangefn_negative_old_rule_witness` -/
def doSubOld (k : SubKind) (n : Int) (body : Body) (c : Ctx) (st : St) : St :=
  let L : Int := c.buf.length
  if k.negFatalOld n then st.fail .de
  else
    let first := k.first st.pos
    let tot := first + n
    -- RangeFn: BitBufRange(0, firstBit+nBits) then br.SeekBits(firstBit)
    if tot < 0 ∨ tot > L ∨ first < 0 then st.fail .io
    else
      let r := body { c with buf := c.buf.take tot.toNat } { st with pos := first, over := st.over || decide (first > tot) }
      if !r.ok then r else k.finish st r n L

/-- `d.SeekAbs` / `d.SeekRel` (decode.go:736-795): trySeekAbs returns ErrOffset for `pos > d.Len()`, the section
    reader for a position before the section; both IOPanic -/
def doSeek (abs : Bool) (x : Int) (restore : Bool) (body : Body) (c : Ctx) (st : St) : St :=
  let target := if abs then x else st.pos + x
  if target < 0 ∨ target > c.buf.length then st.fail .io
  else
    let st1 := { st with pos := target }
    if restore then
      let r := body c st1
      if !r.ok then r else { r with pos := st.pos }
    else st1

/-- Options.Range of the nested decode() -/
def FMode.sl0 (m : FMode) (pos L : Int) : Int × Int := match m with
  | .rest _ => (pos, L - pos)        -- Range{d.Pos(), d.BitsLeft()}
  | .len n _ => (pos, n)
  | .range off n => ((off : Int), n)
/-- Options.FillGaps of the nested decode() -/
def FMode.fill (m : FMode) : Bool := match m with | .rest _ => false | _ => true
/-- dv == nil || dv.Errors() != nil : FieldFormat* IOPanics, FieldFormatOrRaw* adds a raw field instead -/
def fmtFailed (m : FMode) (name : FName) (c : Ctx) (st : St) : St := match m with
  | .rest true => doRaw c st name (c.buf.length - st.pos)
  | .len n true => doRaw c st name n
  | _ => st.fail .io
/-- the cursor after the value was added: SeekBits(dv.Range.Len) / SeekBits(nBits) / unchanged -/
def FMode.advance (m : FMode) (st st1 : St) (tlen l0 L : Int) : St := match m with
  | .rest _ => { st1 with pos := st.pos + tlen, over := st1.over || decide (st.pos + tlen > L) }
  | .len _ _ => { st1 with pos := st.pos + l0 }
  | .range _ _ => st1

/-- `d.FieldFormat` / `Len` / `Range` / `OrRaw` / `OrRawLen` (decode.go:999-1105) -/
def doFmt (m : FMode) (name : FName) (arr : Bool) (body : Body) (c : Ctx) (st : St) : St :=
  let L : Int := c.buf.length
  let sl0 := m.sl0 st.pos L
  -- decode.go:55 `if decodeRange.IsZero()` → whole buffer
  let sl : Int × Int := if sl0.1 = 0 ∧ sl0.2 = 0 then (0, L) else sl0
  if sl.2 < 0 ∨ sl.1 + sl.2 > L then fmtFailed m name c st                    -- bitiox.Range error: decode returns nil
  else
    let r := body { buf := slice c.buf sl.1.toNat sl.2.toNat, arr := arr, force := c.force } {}
    match finishDecode name arr sl.1 sl.2 false m.fill 0 r with
    | .panic e => st.fail e
    | .value t =>
      if t.i.err != .none then fmtFailed m name c st
      else
        let st1 := addChild c { st with over := st.over || r.over } t
        if !st1.ok then st1 else m.advance st st1 t.len sl0.2 L

/-- one `d.AddChild(f)` per value, in order; the first refused name (Fatalf) stops — the values before it stay -/
def addChildren (c : Ctx) : St → List T → St
  | st, [] => st
  | st, v :: vs => let st' := addChild c st v; if st'.ok then addChildren c st' vs else st'

/-- `d.Format(group, nil)` (decode.go:1003-1031): nested decode() on Range{Pos(), BitsLeft()} without FillGaps; no value
    or a failed one → IOPanic; every child of the nested root is added to the CURRENT value with AddChild (a struct
    refuses a name it already has — also one inlined a moment ago); then SeekBits(dv.Range.Len, SeekCurrent) -/
def doInline (arr : Bool) (body : Body) (c : Ctx) (st : St) : St :=
  let L : Int := c.buf.length
  let sl0 : Int × Int := (st.pos, L - st.pos)
  let sl : Int × Int := if sl0.1 = 0 ∧ sl0.2 = 0 then (0, L) else sl0
  if sl.2 < 0 ∨ sl.1 + sl.2 > L then st.fail .io
  else
    let r := body { buf := slice c.buf sl.1.toNat sl.2.toNat, arr := arr, force := c.force } {}
    match finishDecode (.f 0) arr sl.1 sl.2 false false 0 r with
    | .panic e => st.fail e
    | .value t =>
      if t.i.err != .none then st.fail .io
      else
        let st1 := addChildren c { st with over := st.over || r.over } t.kids
        if !st1.ok then st1
        else { st1 with pos := st.pos + t.len, over := st1.over || decide (st.pos + t.len > L) }

def setStart (s : Int) : T → T
  | .mk i kids => .mk { i with start := s } kids

/-- `d.FieldFormatBitBuf` (decode.go:1107-1135) -/
def doFmtBuf (name : FName) (nbits : Nat) (arr : Bool) (body : Body) (c : Ctx) (st : St) : St :=
  let r := body { buf := zeros nbits, arr := arr, force := c.force } {}
  match finishDecode name arr 0 nbits true true nbits r with
  | .panic e => st.fail e
  | .value t =>
    if t.i.err != .none then st.fail .io
    else    -- dv.Range.Start = d.Pos()
      addChild c { st with over := st.over || r.over } (setStart st.pos t)

/-- `d.FieldStructRootBitBufFn` / `d.FieldArrayRootBitBufFn` (decode.go:1167-1192): AddChild, then
    `defer cd.Value.postProcess()`, then fn(cd) — the nested root is post-processed also when fn panics -/
def doRootFn (arr : Bool) (name : FName) (nbits : Nat) (body : Body) (c : Ctx) (st : St) : St :=
  if !c.arr && hasName st.kids name then st.fail .de
  else
    let r := body { buf := zeros nbits, arr := arr, force := c.force } {}
    let node : T := .mk { name, kind := if arr then .array else .struct, start := st.pos, len := 0, isRoot := true, bufLen := nbits } r.kids
    { st with kids := st.kids ++ [postProcess node], err := r.err, over := st.over || r.over }

/-- `d.FieldRootBitBuf` (decode.go:1139-1159) -/
def doRootBuf (name : FName) (nbits : Nat) (c : Ctx) (st : St) : St :=
  addChild c st (.mk { name, kind := .raw, start := st.pos, len := nbits, isRoot := true, bufLen := nbits } [])

/-- `d.Fatalf` / `d.Errorf` (decode.go:372-381) -/
def doFail (always : Bool) (c : Ctx) (st : St) : St := if always || !c.force then st.fail .de else st

def doLoop (nbits mod : Nat) (body : Body) (c : Ctx) (st : St) : St :=
  if canRead c st nbits then
    let cnt := if mod = 0 then 0 else readVal c st nbits % mod
    iter (body c) cnt { st with pos := st.pos + nbits }
  else st.fail .io

mutual
def exec : Prog → Ctx → St → St
  | .u name n, c, st => doU name n c st
  | .raw name n, c, st => doRaw c st name n
  | .syn name, c, st => addChild c st (leaf name .synth st.pos 0)
  | .comp arr name body, c, st => doComp arr name (execList body) c st
  | .sub k n body, c, st => doSub k n (execList body) c st
  | .seek abs x restore body, c, st => doSeek abs x restore (execList body) c st
  | .fmt m name arr body, c, st => doFmt m name arr (execList body) c st
  | .inl arr body, c, st => doInline arr (execList body) c st
  | .fmtBuf name nbits arr body, c, st => doFmtBuf name nbits arr (execList body) c st
  | .rootFn arr name nbits body, c, st => doRootFn arr name nbits (execList body) c st
  | .rootBuf name nbits, c, st => doRootBuf name nbits c st
  | .fail always, c, st => doFail always c st
  | .loop nbits mod body, c, st => doLoop nbits mod (execList body) c st

def execList : List Prog → Ctx → St → St
  | [], _, st => st
  | p :: ps, c, st =>
    let st' := exec p c st
    if st'.ok then execList ps c st' else st'
end

/-! ## the top-level decode (what interp `_decode` / the harness call) -/

structure Cfg where
  force : Bool
  fillGaps : Bool
  /-- Options.Range (0:0 = whole buffer) -/
  off : Nat
  len : Nat
  /-- Format.RootArray -/
  arr : Bool
  body : List Prog
deriving Repr, Inhabited

inductive Outcome where
  /-- `decode.Decode` returned a value (its root carries Err when the format function failed) -/
  | tree (t : T)
  /-- `decode.Decode` returned no value (Options.Range outside the buffer) -/
  | noValue
  /-- a panic escaped `decode.Decode` -/
  | panic (e : ErrK)
deriving Repr, Inhabited

structure RunRes where
  out : Outcome
  over : Bool
deriving Repr, Inhabited

def rootName : FName := .f 0

def run (cfg : Cfg) (input : Bits) : RunRes :=
  let L : Int := input.length
  let (s, l) : Int × Int := if cfg.off = 0 ∧ cfg.len = 0 then (0, L) else (cfg.off, cfg.len)
  if s + l > L then { out := .noValue, over := false }
  else
    let r := execList cfg.body { buf := slice input s.toNat l.toNat, arr := cfg.arr, force := cfg.force } {}
    match finishDecode rootName cfg.arr s l true cfg.fillGaps L r with
    | .panic e => { out := .panic e, over := r.over }
    | .value t => { out := .tree t, over := r.over }

/-! ## the property, executable -/

def T.index (t : T) : Int := t.i.index

/-- a compound's range is the min/max hull of its same-buffer, non-synthetic children.
    `exact = false` (nested buffer root): only the length is the hull's — Start is the position in the
    parent buffer (or a stale own-buffer minimum, see header). -/
def hullOK (exact : Bool) (s l : Int) (kids : List T) : Bool :=
  let el := kids.filter eligible
  el.isEmpty ||
    (if exact then
      el.all (fun k => decide (s ≤ k.start) && decide (k.stop ≤ s + l)) &&
      el.any (fun k => k.start == s) && el.any (fun k => k.stop == s + l)
    else
      el.any (fun a => el.any (fun b => b.stop - a.start == l &&
        el.all (fun k => decide (a.start ≤ k.start) && decide (k.stop ≤ b.stop)))))

def sortedStarts : List T → Bool
  | a :: b :: rest => decide (a.start ≤ b.start) && sortedStarts (b :: rest)
  | _ => true

def namesNodup : List T → Bool
  | [] => true
  | k :: ks => !hasName ks k.name && namesNodup ks

def idxFrom (arr : Bool) : Nat → List T → Bool
  | _, [] => true
  | n, k :: ks => (k.index == if arr then (n : Int) else -1) && idxFrom arr (n + 1) ks

/-- where a node is checked: as the top buffer root, as a nested buffer root, or inside a buffer of `L` bits -/
inductive Where where
  | top | nested | inBuf (L : Int)
deriving Repr, Inhabited

mutual
def wfAt : Where → T → Bool
  | w, .mk i kids =>
    let bounds := match w with
      | .top => decide (0 ≤ i.start) && decide (0 ≤ i.len) && decide (i.start + i.len ≤ i.bufLen) && i.isRoot && (!i.kind.isComp || i.index == -1)
      | .nested => decide (0 ≤ i.len) && decide (i.len ≤ i.bufLen) && i.isRoot
      | .inBuf L => decide (0 ≤ i.start) && decide (0 ≤ i.len) && decide (i.start + i.len ≤ L) && !i.isRoot
    let Lk := match w with | .inBuf L => L | _ => i.bufLen
    let exact := match w with | .nested => false | _ => true
    bounds && i.link &&
      (if i.kind.isComp then
        hullOK exact i.start i.len kids &&
        (i.kind == .array || (sortedStarts kids && namesNodup kids)) &&
        idxFrom (i.kind == .array) 0 kids &&
        wfKids Lk kids
      else kids.isEmpty)
def wfKids : Int → List T → Bool
  | _, [] => true
  | L, k :: ks =>
    (if k.isRoot then
      -- Start of a nested buffer root: the position in the parent buffer (FieldRootBitBuf, FieldFormatBitBuf)
      -- or, after its own postProcess, the hull start in its OWN buffer (Field…RootBitBufFn) — see header
      decide (0 ≤ k.start) && (decide (k.start ≤ L) || decide (k.start + k.len ≤ k.i.bufLen)) && wfAt .nested k
     else wfAt (.inBuf L) k) &&
    wfKids L ks
end

/-- C03: the decode tree is structurally sound -/
def WF (t : T) : Bool := wfAt .top t

/-! ### diagnosis (driver only): every reason why a node is not WF; the verdict itself is `WF` -/

def whyNode (w : Where) (i : Info) (kids : List T) : List String :=
  let Lk := match w with | .inBuf L => L | _ => i.bufLen
  let exact := match w with | .nested => false | _ => true
  let r (b : Bool) (s : String) : List String := if b then [s] else []
  r (!i.link) "link" ++
  r (match w with | .inBuf _ => i.isRoot | _ => !i.isRoot) "isroot" ++
  r (decide (i.len < 0)) "neglen" ++
  r (match w with | .nested => false | _ => decide (i.start < 0)) "negstart" ++
  r (decide (0 ≤ i.len) && (match w with | .nested => decide (i.len > i.bufLen) | _ => decide (0 ≤ i.start) && decide (i.start + i.len > Lk)))
    (if i.len == 0 then "outside-empty" else if i.kind.isComp then "outside-comp" else "outside") ++
  r (match w with | .top => i.kind.isComp && i.index != -1 | _ => false) "rootindex" ++
  (if !i.kind.isComp then r (!kids.isEmpty) "leaf-with-kids"
   else
    r (!hullOK exact i.start i.len kids) "hull" ++
    r (!(i.kind == .array || sortedStarts kids)) "order" ++
    r (!(i.kind == .array || namesNodup kids)) "dupname" ++
    r (!idxFrom (i.kind == .array) 0 kids) "index" ++
    r (kids.any (fun k => k.isRoot && (decide (k.start < 0) || (decide (k.start > Lk) && decide (k.start + k.len > k.i.bufLen))))) "root-start-outside")

/-- signature of a compound that postProcess never visited: Range{pos at creation, 0}, children with Go's zero
    Index (a child that is itself a buffer root may have been post-processed on its own: Index -1) -/
def rawSig (t : T) : Bool :=
  t.i.kind.isComp && t.i.len == 0 && t.kids.all (fun k => k.index == 0 || (k.isRoot && k.index == -1))

mutual
/-- all reasons, each prefixed with `N:` when the offending node lies inside a nested buffer root; the shape
    reasons of a node in a never-post-processed sub-tree get the suffix `@raw`, those of the parent of such a
    sub-tree `@rawparent` -/
def whys : Bool → Bool → Where → T → List String
  | inNested, inRaw, w, .mk i kids =>
    let Lk := match w with | .inBuf L => L | _ => i.bufLen
    let raw := inRaw || rawSig (.mk i kids)
    let tag := if raw then "@raw" else if kids.any rawSig then "@rawparent" else ""
    (whyNode w i kids).map (fun s =>
      (if inNested then "N:" else "") ++ s ++ (if s == "hull" || s == "index" || s == "order" then tag else "")) ++
    whysL inNested raw Lk kids
def whysL : Bool → Bool → Int → List T → List String
  | _, _, _, [] => []
  | inNested, inRaw, L, k :: ks =>
    (if k.isRoot then whys true inRaw .nested k else whys inNested inRaw (.inBuf L) k) ++ whysL inNested inRaw L ks
end

end FqModel.Tree
