/-
  C07 — the CLI's wrap of the user program: `try (PROG) catch <reporter>` (pkg/interp/eval.jq:41-52
  _eval_query_rewrite builds the AST `_query_try(PROG | _query_query; $opts.catch_query)`, prints it and the text
  is parsed again by _eval). Only the part of jq's grammar that matters for this is modelled: terms that are an
  atom, a parenthesised query, or `try BODY` with an optional `catch HANDLER`, and the parser's rule that a
  `catch` belongs to the NEAREST open `try` (gojq parser.go.y: `'try' postterm 'catch' postterm` is preferred
  over `'try' postterm`, as in jq). Everything else of a program is an atom.
-/
namespace FqModel.TryWrap

inductive Tm where
  | atom (n : Nat)
  | paren (t : Tm)
  | tryn (body : Tm)                 -- try BODY
  | tryc (body : Tm) (handler : Tm)   -- try BODY catch HANDLER
  deriving DecidableEq, Repr, Inhabited

inductive Tok where
  | a (n : Nat) | lp | rp | try_ | catch_
  deriving DecidableEq, Repr

def print : Tm → List Tok
  | .atom n => [.a n]
  | .paren t => .lp :: print t ++ [.rp]
  | .tryn b => .try_ :: print b
  | .tryc b h => .try_ :: print b ++ .catch_ :: print h

/-- recursive descent with fuel; a `catch` after a try body is always taken (nearest open try) -/
def parse : Nat → List Tok → Option (Tm × List Tok)
  | 0, _ => none
  | _ + 1, [] => none
  | _ + 1, .a n :: rest => some (.atom n, rest)
  | f + 1, .lp :: rest =>
    match parse f rest with
    | some (t, .rp :: rest') => some (.paren t, rest')
    | _ => none
  | f + 1, .try_ :: rest =>
    match parse f rest with
    | some (b, .catch_ :: rest') =>
      (match parse f rest' with
       | some (h, rest'') => some (.tryc b h, rest'')
       | none => none)
    | some (b, rest') => some (.tryn b, rest')
    | none => none
  | _ + 1, .rp :: _ => none
  | _ + 1, .catch_ :: _ => none

def parseAll (ts : List Tok) : Option Tm :=
  match parse (ts.length + 1) ts with
  | some (t, []) => some t
  | _ => none

/-- the term ends with a `try` that has no `catch`: a following `catch` would attach to it -/
def endsOpen : Tm → Bool
  | .atom _ => false
  | .paren _ => false
  | .tryn _ => true
  | .tryc _ h => endsOpen h

/-- printable without ambiguity: no try-with-catch whose body ends with a catch-less try -/
def noDangling : Tm → Bool
  | .atom _ => true
  | .paren t => noDangling t
  | .tryn b => noDangling b
  | .tryc b h => noDangling b && noDangling h && !endsOpen b

def size : Tm → Nat
  | .atom _ => 1
  | .paren t => size t + 2
  | .tryn b => size b + 1
  | .tryc b h => size b + size h + 2

/-- what fq does (eval.jq:45-51): ALWAYS parenthesise the program -/
def wrap (prog handler : Tm) : Tm := .tryc (.paren prog) handler

/-- the seeded variant: a "plain term" is used as try body as it is -/
def wrapBare (prog handler : Tm) : Tm := .tryc prog handler

/-- parentheses erased (they do not change the meaning of a term used as try body) -/
def erase : Tm → Tm
  | .atom n => .atom n
  | .paren t => erase t
  | .tryn b => .tryn (erase b)
  | .tryc b h => .tryc (erase b) (erase h)

/-! ### skeleton text used on the line protocol: A, P(x), T(x), T(x,y) -/

def show_ : Tm → String
  | .atom _ => "A"
  | .paren t => "P(" ++ show_ t ++ ")"
  | .tryn b => "T(" ++ show_ b ++ ")"
  | .tryc b h => "T(" ++ show_ b ++ "," ++ show_ h ++ ")"

/-- reads a skeleton (fuel = length) -/
def readSk : Nat → List Char → Option (Tm × List Char)
  | 0, _ => none
  | _ + 1, 'A' :: rest => some (.atom 0, rest)
  | f + 1, 'P' :: '(' :: rest =>
    match readSk f rest with
    | some (t, ')' :: rest') => some (.paren t, rest')
    | _ => none
  | f + 1, 'T' :: '(' :: rest =>
    match readSk f rest with
    | some (b, ')' :: rest') => some (.tryn b, rest')
    | some (b, ',' :: rest') =>
      (match readSk f rest' with
       | some (h, ')' :: rest'') => some (.tryc b h, rest'')
       | _ => none)
    | _ => none
  | _ + 1, _ => none

def readSkeleton (s : String) : Option Tm :=
  match readSk (s.length + 1) s.toList with
  | some (t, []) => some t
  | _ => none

end FqModel.TryWrap
