import FqModel.Container
/-!
  C15 — ZIP (`format/zip/zip.go:266-508`), as the decoder is: the archive is read from the end
  (end-of-central-directory record found by a backwards search over the last 128 bytes), then the central
  directory, then every local file at the offset its central record names. A local file's size is taken from
  its OWN header (known finding `zip-stored-data-descriptor`: a stored member written with a data descriptor has
  size 0 there). `inflate` stands for `flate.NewReader` (library code). zip64 records are not modelled
  (`unsupported`).
-/
namespace FqModel.Container

def sigEOCD : Bytes := [0x50, 0x4b, 0x05, 0x06]
def sigLoc64 : Bytes := [0x50, 0x4b, 0x06, 0x07]
def sigCD : Bytes := [0x50, 0x4b, 0x01, 0x02]
def sigLocal : Bytes := [0x50, 0x4b, 0x03, 0x04]
def sigDD : Bytes := [0x50, 0x4b, 0x07, 0x08]

inductive Find
  | found (back : Nat)      -- the signature starts `back` bytes before the position
  | notFound
  | err
deriving Repr, DecidableEq

/-- `TryPeekFind(32, -8, 128*8, …)` (decode.go:502-546) from byte position `pos`: 4, 5, … 128 bytes back;
    stepping before the start of the buffer is an error -/
def findBack (sig : Bytes) (bs : Bytes) (pos : Nat) : Nat → Nat → Find
  | 0, _ => .notFound
  | n+1, k =>
    if k > 128 then .notFound
    else if k > pos then .err
    else if (bs.drop (pos - k)).take 4 = sig then .found k
    else findBack sig bs pos n (k + 1)

structure ZipDate where
  ftime : Nat
  fdate : Nat
  second : Nat
  minute : Nat
  hour : Nat
  day : Nat
  month : Nat
  year : Nat
  guess : Int
deriving Repr, DecidableEq

/-- days from 1970-01-01 to the first of month `m` (1..12) of year `y` (proleptic Gregorian) -/
def daysFromCivil (y : Int) (m : Int) : Int :=
  let y' := if m ≤ 2 then y - 1 else y
  let era := (if y' ≥ 0 then y' else y' - 399) / 400
  let yoe := y' - era * 400
  let mp := (m + 9) % 12
  let doy := (153 * mp + 2) / 5
  let doe := yoe * 365 + yoe / 4 - yoe / 100 + doy
  era * 146097 + doe - 719468

/-- `fieldTimeDate` (zip.go:131-186): `time.Date(1980+year, month, day, hour, minute, second*2)` normalises
    month 0 / 13..15 into the neighbouring year; everything else is linear -/
def zipDate (ft fd : Nat) : ZipDate :=
  let second := ft % 32
  let minute := ft / 32 % 64
  let hour := ft / 2048 % 32
  let day := fd % 32
  let month := fd / 32 % 16
  let year := fd / 512 % 128
  let m0 : Int := (month : Int) - 1                  -- months since January, may be -1 or 12..14
  let y : Int := 1980 + (year : Int) + (if m0 < 0 then -1 else if m0 ≥ 12 then 1 else 0)
  let m : Int := (if m0 < 0 then m0 + 12 else if m0 ≥ 12 then m0 - 12 else m0) + 1
  let days := daysFromCivil y m + ((day : Int) - 1)
  { ftime := ft, fdate := fd, second, minute, hour, day, month, year,
    guess := days * 86400 + (hour : Int) * 3600 + (minute : Int) * 60 + (second : Int) * 2 }

structure ZipExtra where
  tag : Nat
  size : Nat
  mtime : Option Nat
deriving Repr, DecidableEq

inductive ExtraRes
  | ok (xs : List ZipExtra)
  | err
  | unsupported
deriving Repr, DecidableEq

/-- `fieldsExtraFields` (zip.go:242-264) inside its frame -/
def zipExtras : Nat → Bytes → ExtraRes
  | 0, _ => .err
  | fuel+1, bs =>
    if bs.isEmpty then .ok [] else
    match takeN 2 bs with
    | none => .err
    | some (tag, bs) =>
    match takeN 2 bs with
    | none => .err
    | some (sz, bs) =>
    match takeN (leNat sz) bs with
    | none => .err
    | some (body, rest) =>
      if leNat tag = 1 then .unsupported else          -- zip64 extended information
      let mt : Option (Option Nat) :=
        if leNat tag = 0x5455 then
          match body with
          | [] => none                                  -- flags byte missing
          | f :: b => if f.toNat.testBit 0 ∧ !b.isEmpty then (takeN 4 b).map (fun x => some (leNat x.1)) else some none
        else some none
      match mt with
      | none => .err
      | some mtime =>
        match zipExtras fuel rest with
        | .ok xs => .ok (⟨leNat tag, leNat sz, mtime⟩ :: xs)
        | r => r

structure ZipCD where
  name : Bytes
  method : Nat
  dd : Bool
  lang : Bool
  crc : Nat
  csize : Nat
  usize : Nat
  diskStart : Nat
  ext : Nat
  lfo : Nat
  comment : Bytes
  date : ZipDate
  extras : List ZipExtra
deriving Repr, DecidableEq

inductive P (α : Type)
  | ok (a : α)
  | err
  | unsupported
deriving Repr, DecidableEq

/-- one central directory record (zip.go:366-407); returns the rest of the frame -/
def zipCD (bs : Bytes) : P (ZipCD × Bytes) :=
  match takeN 46 bs with
  | none => .err
  | some (h, rest) =>
    if h.take 4 ≠ sigCD then .err else
    let f (o n : Nat) := leNat ((h.drop o).take n)
    let nl := f 28 2
    let xl := f 30 2
    let cl := f 32 2
    match takeN nl rest with
    | none => .err
    | some (name, rest) =>
    match takeN xl rest with
    | none => .err
    | some (xb, rest) =>
    match zipExtras (xb.length + 1) xb with
    | .err => .err
    | .unsupported => .unsupported
    | .ok xs =>
    match takeN cl rest with
    | none => .err
    | some (comment, rest) =>
      .ok ({ name, method := f 10 2, dd := (f 8 1).testBit 3, lang := (f 9 1).testBit 3, crc := f 16 4, csize := f 20 4, usize := f 24 4,
             diskStart := f 34 2, ext := f 38 4, lfo := f 42 4, comment, date := zipDate (f 12 2) (f 14 2), extras := xs }, rest)

/-- the records inside the frame `size_of_central_directory` -/
def zipCDs : Nat → Bytes → P (List ZipCD)
  | 0, _ => .err
  | fuel+1, bs =>
    if bs.isEmpty then .ok [] else
    match zipCD bs with
    | .err => .err
    | .unsupported => .unsupported
    | .ok (c, rest) =>
      match zipCDs fuel rest with
      | .ok cs => .ok (c :: cs)
      | r => r

structure ZipDI where
  sig : Option Bytes
  crc : Nat
  csize : Nat
  usize : Nat
deriving Repr, DecidableEq

structure ZipLocal where
  name : Bytes
  method : Nat
  dd : Bool
  lang : Bool
  crc : Nat
  csize : Nat
  usize : Nat
  uncompressed : Option Bytes
  compressedLen : Option Nat
  di : Option ZipDI
  date : ZipDate
  extras : List ZipExtra
deriving Repr, DecidableEq

/-- the payload step of one local file (zip.go:453-490): uncompressed, `compressed` length, bytes to skip.
    Stored: `FieldFormatOrRawLen` over `compressed_size` bytes.  Deflated: `TryFieldReaderRangeFormat("uncompressed", d.Pos(),
    compressedLimit, flate.NewReader, …)` = `io.ReadAll` of the inflater over the window of `compressedLimit` bytes
    (`compressedLimit` = compressed_size, or everything left when that is 0 = streamed member), whatever the inflater returns is
    the `uncompressed` field: there is NO bound on the output length or on output length / window length in this code.
    `inflate off window` = (bytes consumed, output), or failure. -/
def zipBody (inflate : Nat → Bytes → Option (Nat × Bytes)) (off method csize : Nat) (rest : Bytes) : Option (Option Bytes × Option Nat × Nat) :=
  if method = 0 then (takeN csize rest).map (fun x => (some x.1, none, csize))
  else if method = 8 then
    let limit := if csize = 0 then rest.length else csize
    match takeN limit rest with
    | none => none                                              -- TryBitBufRange fails: error dropped, nothing shown …
    | some (win, _) =>
      match inflate off win with
      | some (used, out) =>
        let cz := if csize = 0 then used else csize
        (takeN cz rest).map (fun _ => (some out, some cz, cz))
      | none => (takeN csize rest).map (fun _ => (none, some csize, csize))
  else if csize ≠ 0 then (takeN csize rest).map (fun _ => (none, some csize, csize))
  else some (none, none, 0)

/-- one local file at byte offset `off` of the whole buffer (zip.go:411-500). `inflate off bytes` = what the
    deflate reader yields on the bytes from the payload start: (bytes consumed, output), or failure. -/
def zipLocal (inflate : Nat → Bytes → Option (Nat × Bytes)) (file : Bytes) (off : Nat) : P ZipLocal :=
  if off > file.length then .err else                    -- SeekAbs past the end
  let bs := file.drop off
  match takeN 30 bs with
  | none => .err
  | some (h, rest) =>
    if h.take 4 ≠ sigLocal then .err else
    let f (o n : Nat) := leNat ((h.drop o).take n)
    let nl := f 26 2
    let xl := f 28 2
    let method := f 8 2
    let dd := (f 6 1).testBit 3
    match takeN nl rest with
    | none => .err
    | some (name, rest) =>
    match takeN xl rest with
    | none => .err
    | some (xb, rest) =>
    match zipExtras (xb.length + 1) xb with
    | .err => .err
    | .unsupported => .unsupported
    | .ok xs =>
      let csize := f 18 4
      -- payload
      let body := zipBody inflate off method csize rest
      match body with
      | none => .err
      | some (unc, clen, skip) =>
        let after := rest.drop skip
        let di : Option (Option ZipDI) :=
          if dd then
            if after.length < 4 then none else                         -- PeekBytes(4)
            let (sig, after) := if after.take 4 = sigDD then (some (after.take 4), after.drop 4) else (none, after)
            (takeN 12 after).map (fun x => some ⟨sig, leNat (x.1.take 4), leNat ((x.1.drop 4).take 4), leNat (x.1.drop 8)⟩)
          else some none
        match di with
        | none => .err
        | some di =>
          .ok { name, method, dd, lang := (f 7 1).testBit 3, crc := f 14 4, csize, usize := f 22 4, uncompressed := unc,
                compressedLen := clen, di, date := zipDate (f 10 2) (f 12 2), extras := xs }

structure ZipEOCD where
  disk : Nat
  cdDisk : Nat
  nrDisk : Nat
  nr : Nat
  cdSize : Nat
  cdOff : Nat
  comment : Bytes
deriving Repr, DecidableEq

structure ZipFile where
  eocd : ZipEOCD
  cds : List ZipCD
  locals : List ZipLocal
deriving Repr, DecidableEq

def zipLocals (inflate : Nat → Bytes → Option (Nat × Bytes)) (file : Bytes) : List Nat → P (List ZipLocal)
  | [] => .ok []
  | o :: os =>
    match zipLocal inflate file o with
    | .err => .err
    | .unsupported => .unsupported
    | .ok l =>
      match zipLocals inflate file os with
      | .ok ls => .ok (l :: ls)
      | r => r

def parseZip (inflate : Nat → Bytes → Option (Nat × Bytes)) (file : Bytes) : P ZipFile :=
  match findBack sigEOCD file file.length 128 4 with
  | .found k =>
    let e := file.drop (file.length - k)
    match takeN 22 e with
    | none => .err
    | some (h, rest) =>
      let f (o n : Nat) := leNat ((h.drop o).take n)
      match takeN (f 20 2) rest with
      | none => .err
      | some (comment, after) =>
        let eocd : ZipEOCD := ⟨f 4 2, f 6 2, f 8 2, f 10 2, f 12 4, f 16 4, comment⟩
        -- zip64 locator search from the position after the record (zip.go:301-305)
        match findBack sigLoc64 file (file.length - after.length) 128 4 with
        | .found _ => .unsupported
        | _ =>
          if eocd.cdOff > file.length then .err else
          match takeN eocd.cdSize (file.drop eocd.cdOff) with
          | none => .err
          | some (cdb, _) =>
            match zipCDs (cdb.length + 1) cdb with
            | .err => .err
            | .unsupported => .unsupported
            | .ok cds =>
              match zipLocals inflate file ((cds.filter (fun c => c.diskStart = eocd.disk)).map (·.lfo)) with
              | .ok ls => .ok ⟨eocd, cds, ls⟩
              | .err => .err
              | .unsupported => .unsupported
  | _ => .err

/-! writer: stored members, sizes in the local header (no data descriptor), no extra fields -/

/-- fixed width little endian fields, concatenated -/
def encLE (fs : List (Nat × Nat)) : Bytes := fs.flatMap (fun f => toLE f.1 f.2)

structure ZipMember where
  name : Bytes
  ftime : Nat
  fdate : Nat
  lang : Bool
  ext : Nat
  comment : Bytes
  data : Bytes
deriving Repr, DecidableEq

def zipFlag1 (lang : Bool) : Nat := if lang then 8 else 0

def localHdr (m : ZipMember) (dd : Bool) (csize usize : Nat) : Bytes :=
  encLE [(4, 0x04034b50), (2, 20), (1, if dd then 8 else 0), (1, zipFlag1 m.lang), (2, 0), (2, m.ftime), (2, m.fdate),
         (4, (crc32 m.data).toNat), (4, csize), (4, usize), (2, m.name.length), (2, 0)]

def writeZipLocal (m : ZipMember) : Bytes := localHdr m false m.data.length m.data.length ++ m.name ++ m.data

def writeZipCD (m : ZipMember) (off : Nat) : Bytes :=
  encLE [(4, 0x02014b50), (2, 20), (2, 20), (1, 0), (1, zipFlag1 m.lang), (2, 0), (2, m.ftime), (2, m.fdate),
         (4, (crc32 m.data).toNat), (4, m.data.length), (4, m.data.length), (2, m.name.length), (2, 0), (2, m.comment.length),
         (2, 0), (2, 0), (4, m.ext), (4, off)] ++ m.name ++ m.comment

def writeZipEOCD (n cdSize cdOff : Nat) (comment : Bytes) : Bytes :=
  encLE [(4, 0x06054b50), (2, 0), (2, 0), (2, n), (2, n), (4, cdSize), (4, cdOff), (2, comment.length)] ++ comment

/-- offsets of the local files: running sum of the local file lengths -/
def zipOffsets : Nat → List ZipMember → List Nat
  | _, [] => []
  | o, m :: ms => o :: zipOffsets (o + (writeZipLocal m).length) ms

def zipLocalsBytes (ms : List ZipMember) : Bytes := ms.flatMap writeZipLocal
def zipCDBytes (ms : List ZipMember) (offs : List Nat) : Bytes := (ms.zip offs).flatMap (fun p => writeZipCD p.1 p.2)

def writeZip (ms : List ZipMember) (comment : Bytes) : Bytes :=
  let ls := zipLocalsBytes ms
  let cd := zipCDBytes ms (zipOffsets 0 ms)
  ls ++ cd ++ writeZipEOCD ms.length cd.length ls.length comment

/-- what the decoder must report -/
def ZipMember.cd (m : ZipMember) (off : Nat) : ZipCD :=
  { name := m.name, method := 0, dd := false, lang := m.lang, crc := (crc32 m.data).toNat, csize := m.data.length, usize := m.data.length,
    diskStart := 0, ext := m.ext, lfo := off, comment := m.comment, date := zipDate m.ftime m.fdate, extras := [] }

def ZipMember.local (m : ZipMember) : ZipLocal :=
  { name := m.name, method := 0, dd := false, lang := m.lang, crc := (crc32 m.data).toNat, csize := m.data.length, usize := m.data.length,
    uncompressed := some m.data, compressedLen := none, di := none, date := zipDate m.ftime m.fdate, extras := [] }

/-- the same member written the streaming way (sizes 0 in the local header, data descriptor after the payload) -/
def writeZipLocalDD (m : ZipMember) : Bytes :=
  localHdr m true 0 0 ++ m.name ++ m.data ++ sigDD ++ encLE [(4, (crc32 m.data).toNat), (4, m.data.length), (4, m.data.length)]

end FqModel.Container
