import FqModel.C01Adapter
import Proofs.C01IOReader
import Proofs.C01Open
import Proofs.C01History
/-! C01 — adapter nestings: IOReadSeeker over a byte regular bit source is an io.ReadSeeker over the packed bits;
    IOBitReadSeeker over any policy-`p` io.ReadSeeker is the specification machine; towers by induction. -/
set_option linter.unusedSimpArgs false
namespace Proofs.C01
open FqModel FqModel.Bitio Outcome

theorem buffer_reset_wf (b : Buffer) : b.reset.WF ∧ b.reset.content = [] := by
  simp [Buffer.reset, Buffer.WF, Buffer.content, slice_zero_len]

theorem packR_len8 (D : Bits) (h : D.length % 8 = 0) : (packR D).length = D.length / 8 := by
  rw [packR_length]; unfold bitsByteCount; simp [h]

theorem ioDrain_empty_err (sPos : Int) (n : Nat) (r : Rd) (e : Err) (buf : Buffer) (q : Nat) (h : buf.len = 0) :
    ioDrain true sPos n r (some e) buf q = ok (some (.ioBytes r true (some e) buf sPos, { err := some e, q := q })) := by
  unfold ioDrain; simp [h, pure_eq]

/-- IOReader.Read over a byte regular source: exactly one round of the loop; the bit buffer is empty afterwards -/
theorem ioReadLoop_reg (p : SeekPol) (sub : Sub) (D : Bits) (I : Rd → Nat → Prop) (hsrc : RegSrc p sub D I)
    (j n : Nat) (hn : 0 < n) (r : Rd) (rErr : Option Err) (buf : Buffer) (sPos : Int) (fuel : Nat)
    (hwf : buf.WF) (hc : buf.content = []) (hI : I r (8 * j))
    (herr : rErr = none ∨ (rErr = some .eof ∧ D.length ≤ 8 * j)) :
    ∃ s' res, ioBytesReadLoop sub true sPos n (fuel + 1) r rErr buf 0 = ok (s', res) ∧ res.q = 0 ∧
      (((packR D).length ≤ j ∧ res.bytes = [] ∧ res.err = some .eof ∧ IOSeekAt D I s' j) ∨
       (j < (packR D).length ∧ ∃ k, 0 < k ∧ k ≤ n ∧ res.bytes = slice (packR D) j k ∧ j + k ≤ (packR D).length ∧
          res.err = none ∧ IOSeekAt D I s' (j + k))) := by
  have hl8 := hsrc.len8
  have hpl := packR_len8 D hl8
  have hblen : buf.len = 0 := by rw [buffer_len buf hwf, hc]; rfl
  unfold ioBytesReadLoop
  by_cases hin : 8 * j < D.length
  · -- inside the data
    have he : rErr = none := by
      rcases herr with h | ⟨_, h⟩
      · exact h
      · omega
    subst he
    obtain ⟨r1, res, h1, hq, hb, hle, h8, hI1, hcase⟩ := hsrc.read r (8 * j) (n * 8) (by omega) (by omega) (by omega) hI
    have hk : 0 < res.bits.length := by
      rcases hcase with ⟨_, h, _⟩ | ⟨_, h⟩
      · exact List.length_pos_iff.mpr h
      · omega
    have hin2 : 8 * j + res.bits.length ≤ D.length := by
      rcases hcase with ⟨_, _, h⟩ | ⟨_, h⟩ <;> omega
    have hplk : res.bits.length ≤ 8 * (packR res.bits).length := by
      rw [packR_length]; exact (bitsByteCount_bounds _).1
    obtain ⟨b1, e1, wf1, c1, _⟩ := buffer_writeBits_spec buf (packR res.bits) res.bits.length hwf hplk
    rw [hc, List.nil_append, slice_packR_bits _ _ rfl] at c1
    simp only [ioFill, if_true, h1, ok_bind, e1, pure_eq, hq, Nat.or_zero]
    have hcore : IOCore D I j r1 res.err b1 := by
      refine ⟨8 * j + res.bits.length, wf1, hI1, hin2, by unfold bitsByteCount; split <;> omega, by omega, ?_, ?_⟩
      · rw [c1, Nat.min_eq_left (by omega), Nat.add_sub_cancel_left]; exact hb
      · rcases hcase with ⟨h, _⟩ | ⟨h, hm⟩
        · exact Or.inl h
        · exact Or.inr ⟨h, by omega⟩
    obtain ⟨buf2, kk, hk1, hkn, hk8, hrest, hd, hcore2, hlen2⟩ :=
      (ioDrain_spec D I j n hn true sPos r1 res.err b1 0 hcore).1 (by rw [c1]; omega)
    rw [c1] at hk8 hrest hlen2
    have hkk : res.bits.length = 8 * kk := by omega
    rw [hd]
    simp only [ok_bind]
    obtain ⟨_, wf2, _⟩ := hcore2
    refine ⟨_, _, rfl, rfl, Or.inr ⟨by omega, kk, by omega, hkn, rfl, by omega, rfl, ?_⟩⟩
    refine ⟨r1, res.err, buf2, sPos + (kk : Int), rfl, wf2, List.eq_nil_of_length_eq_zero (by omega), ?_, ?_⟩
    · rw [show 8 * (j + kk) = 8 * j + res.bits.length by omega]; exact hI1
    · rcases hcase with ⟨h, _⟩ | ⟨h, hm⟩
      · exact Or.inl h
      · exact Or.inr ⟨h, by omega⟩
  · -- at / beyond the end: EOF, nothing delivered
    have hend : D.length ≤ 8 * j := by omega
    by_cases he : rErr = none
    · subst he
      obtain ⟨r1, res, h1, hq, hb, hle, h8, hI1, hcase⟩ := hsrc.read r (8 * j) (n * 8) (by omega) (by omega) (by omega) hI
      have hk0 : res.bits.length = 0 := by
        rcases hcase with ⟨_, h, h2⟩ | ⟨_, h⟩
        · have := List.length_pos_iff.mpr h; omega
        · omega
      have herr1 : res.err = some .eof := by
        rcases hcase with ⟨_, h, h2⟩ | ⟨h, _⟩
        · have := List.length_pos_iff.mpr h; omega
        · exact h
      have hnil : res.bits = [] := List.eq_nil_of_length_eq_zero hk0
      obtain ⟨b1, e1, wf1, c1, _⟩ := buffer_writeBits_spec buf (packR res.bits) res.bits.length hwf (by omega)
      rw [hc, hk0, slice_zero_len] at c1
      have hb1 : b1.len = 0 := by rw [buffer_len b1 wf1, c1]; rfl
      simp only [ioFill, if_true, h1, ok_bind, e1, pure_eq, hq, Nat.or_zero, herr1, ioDrain_empty_err _ _ _ _ _ _ hb1]
      refine ⟨_, _, rfl, rfl, Or.inl ⟨by omega, rfl, rfl, ?_⟩⟩
      refine ⟨r1, some .eof, b1, sPos, rfl, wf1, by simpa using c1, ?_, Or.inr ⟨rfl, hend⟩⟩
      rw [hk0] at hI1; exact hI1
    · have he2 : rErr = some .eof := by
        rcases herr with h | ⟨h, _⟩
        · exact absurd h he
        · exact h
      subst he2
      simp only [ioFill, reduceCtorEq, if_false, pure_eq, ok_bind, ioDrain_empty_err _ _ _ _ _ _ hblen]
      exact ⟨_, _, rfl, rfl, Or.inl ⟨by omega, rfl, rfl, ⟨r, some .eof, buf, sPos, rfl, hwf, hc, hI, Or.inr ⟨rfl, hend⟩⟩⟩⟩

theorem step_ioBytes_seek (d : Nat) (r : Rd) (rErr : Option Err) (buf : Buffer) (sPos : Int) (o : Int) (w : Whence) :
    step (d + 1) (.ioBytes r true rErr buf sPos) (.seekB o w) = ioBytesSeek (step d) r rErr buf sPos o w := by
  simp only [step]

theorem seekResP_none (p : SeekPol) (T : Int) (h : p T = none) : seekResP p T = { n := T } := by
  simp [seekResP, h]

theorem seekResP_some (p : SeekPol) (T : Int) (e : Err) (h : p T = some e) : seekResP p T = { err := some e } := by
  simp [seekResP, h]

/-- IOReadSeeker.Seek over a byte regular source, between two calls of Read -/
theorem ioSeek_reg (p : SeekPol) (sub : Sub) (D : Bits) (I : Rd → Nat → Prop) (hsrc : RegSrc p sub D I)
    (j : Nat) (r : Rd) (rErr : Option Err) (buf : Buffer) (sPos : Int) (o : Int) (w : Whence)
    (hwf : buf.WF) (hc : buf.content = []) (hI : I r (8 * j)) :
    ∃ s', ioBytesSeek sub r rErr buf sPos o w = ok (s', seekResP (bytePolOf p) (seekTarget (packR D).length j o w)) ∧
      IOSeekAt D I s' (if ((bytePolOf p) (seekTarget (packR D).length j o w)).isSome then j
        else (seekTarget (packR D).length j o w).toNat) := by
  have hl8 := hsrc.len8
  have hpl := packR_len8 D hl8
  have hblen : buf.len = 0 := by rw [buffer_len buf hwf, hc]; rfl
  obtain ⟨r1, h1, hI1⟩ := hsrc.seek r (8 * j) (o * 8) w (by omega) (by omega) hI
  have hT : seekTargetBits D.length (8 * j) (o * 8) w = seekTarget (packR D).length j o w * 8 := by
    rw [hpl]; cases w <;> simp only [seekTargetBits, seekTarget] <;> omega
  rw [hT] at h1 hI1
  generalize seekTarget (packR D).length j o w = T at *
  unfold ioBytesSeek
  simp only [h1, ok_bind, bytePolOf]
  have hcs : p (T * 8) = none ∨ ∃ e, p (T * 8) = some e := by cases p (T * 8) <;> simp
  rcases hcs with hp | ⟨e, hp⟩
  rotate_left
  · simp only [hp, Option.isSome_some, if_true] at hI1 ⊢
    rw [seekResP_some p _ e hp, seekResP_some (bytePolOf p) T e hp]
    dsimp only
    simp only [hblen]
    by_cases hne : (0 : Int) ≠ sPos
    · rw [if_pos hne]
      exact ⟨_, rfl, ⟨r1, none, buf.reset, _, rfl, (buffer_reset_wf buf).1, (buffer_reset_wf buf).2, hI1, Or.inl rfl⟩⟩
    · rw [if_neg hne]
      exact ⟨_, rfl, ⟨r1, none, buf, _, rfl, hwf, hc, hI1, Or.inl rfl⟩⟩
  · simp only [hp, Option.isSome_none, Bool.false_eq_true, if_false] at hI1 ⊢
    rw [seekResP_none p _ hp, seekResP_none (bytePolOf p) T hp]
    dsimp only
    have hm : (T * 8).tmod 8 = 0 := Int.mul_tmod_left T 8
    have hd : (T * 8).tdiv 8 = T := Int.mul_tdiv_cancel T (by omega)
    have hI2 : I r1 (8 * T.toNat) := by rw [show 8 * T.toNat = (T * 8).toNat by omega]; exact hI1
    simp only [hblen, hm, hd]
    by_cases hne : T * 8 ≠ sPos
    · rw [if_pos hne]
      exact ⟨_, rfl, ⟨r1, none, buf.reset, _, rfl, (buffer_reset_wf buf).1, (buffer_reset_wf buf).2, hI2, Or.inl rfl⟩⟩
    · rw [if_neg hne]
      exact ⟨_, rfl, ⟨r1, none, buf, _, rfl, hwf, hc, hI2, Or.inl rfl⟩⟩

/-- C01 (adapter core): `bitio.NewIOReadSeeker(r)` over a byte regular bit source denoting D is an io.ReadSeeker
    over the packed bits `packR D`: Read answers 1..n bytes at the position (EOF at / beyond the end), Seek lands
    on start/current/end + o exactly, following the source's own seek policy -/
theorem ioReadSeeker_byteOKP (d : Nat) (p : SeekPol) (D : Bits) (I : Rd → Nat → Prop) (hsrc : RegSrc p (step d) D I) :
    ByteOKP (bytePolOf p) (step (d + 1)) (packR D) (IOSeekAt D I) := by
  refine ⟨?_, ?_⟩
  · intro s j n hn hs
    obtain ⟨r, rErr, buf, sPos, rfl, hwf, hc, hI, herr⟩ := hs
    rw [step_ioBytes_read]
    exact ioReadLoop_reg p (step d) D I hsrc j n hn r rErr buf sPos 11 hwf hc hI herr
  · intro s j o w hs
    obtain ⟨r, rErr, buf, sPos, rfl, hwf, hc, hI, _⟩ := hs
    rw [step_ioBytes_seek]
    exact ioSeek_reg p (step d) D I hsrc j r rErr buf sPos o w hwf hc hI

/-- `ByteOK` is the policy of bytes.Reader -/
theorem byteOKP_std (sub : Sub) (data : List UInt8) (I : Rd → Nat → Prop) (h : ByteOK sub data I) :
    ByteOKP stdPol sub data I := by
  refine ⟨h.1, ?_⟩
  intro s pos o w hI
  obtain ⟨s', h1, h2⟩ := h.2 s pos o w hI
  refine ⟨s', ?_, ?_⟩
  · rw [h1]; unfold seekRes seekResP stdPol; split <;> simp [*]
  · unfold stdPol; split <;> simp_all

/-- every history of io.ReadFull / Seek on a policy-`p` io.ReadSeeker is the byte cursor `runByteSpecP` -/
theorem runBytes_specP (d : Nat) (p : SeekPol) (data : List UInt8) (I : Rd → Nat → Prop)
    (hok : ByteOKP p (step d) data I) : ∀ (ops : List BOp) (s : Rd) (pos : Nat), I s pos →
      runBytes d s ops = runByteSpecP p data pos ops := by
  intro ops
  induction ops with
  | nil => intro _ _ _; rfl
  | cons op ops ih =>
    intro s pos hI
    cases op with
    | readFull n =>
      obtain ⟨s', h1, h2⟩ := ioReadFull_gen (step d) data I hok.1 s pos n hI
      simp only [runBytes, runByteSpecP, h1]
      rw [ih s' _ h2]
    | seek o w =>
      obtain ⟨s', h1, h2⟩ := hok.2 s pos o w hI
      simp only [runBytes, runByteSpecP, h1]
      rw [ih s' _ h2]

/-! ### IOBitReadSeeker over a policy-`p` io.ReadSeeker = the specification machine with policy `p` -/

theorem pol_cases (p : SeekPol) (T : Int) : p T = none ∨ ∃ e, p T = some e := by cases p T <;> simp

theorem ioBitsReadAt_nfP (p : SeekPol) (sub : Sub) (data : List UInt8) (I : Rd → Nat → Prop) (hok : ByteOKP p sub data I)
    (b : Rd) (pos : Nat) (hI : I b pos) (buf : List UInt8) (n : Nat) (off : Int) :
    ∃ b' pos', I b' pos' ∧
      ioBitsReadAt sub b buf n off = (bitsSpecReadAtP p data buf n off).bind (fun x => ok ((b', x.1), x.2)) := by
  unfold ioBitsReadAt bitsSpecReadAtP
  obtain ⟨b1, hsk, hI1⟩ := hok.2 b pos (off.tdiv 8) .start hI
  simp only [seekTarget] at hsk hI1
  simp only [hsk, ok_bind]
  rcases pol_cases p (off.tdiv 8) with hp | ⟨e, hp⟩
  · simp only [hp, Option.isSome_none, Bool.false_eq_true, if_false] at hI1
    obtain ⟨b2, hfull, hI2⟩ := ioReadFull_gen sub data I hok.1 b1 (off.tdiv 8).toNat
      (bitsByteCountI (off.tmod 8 + (n : Int))) hI1
    refine ⟨b2, _, hI2, ?_⟩
    simp only [seekResP_none p _ hp, hp, Option.isSome_none, Bool.false_eq_true, if_false, hfull, ok_bind]
    rw [show rawFullRes data (off.tdiv 8).toNat (bitsByteCountI (off.tmod 8 + (n : Int))) 0 =
      { n := ((slice data (off.tdiv 8).toNat (bitsByteCountI (off.tmod 8 + (n : Int)))).length : Int),
        bytes := slice data (off.tdiv 8).toNat (bitsByteCountI (off.tmod 8 + (n : Int))),
        err := (rawFullRes data (off.tdiv 8).toNat (bitsByteCountI (off.tmod 8 + (n : Int))) 0).err, q := 0 } from rfl]
    simp only [Nat.or_self]
    cases ioBitsFinish _ _ _ _ _ _ <;> rfl
  · simp only [hp, Option.isSome_some, if_true] at hI1
    refine ⟨b1, _, hI1, ?_⟩
    simp only [seekResP_some p _ e hp, hp, Option.isSome_some, if_true, pure_eq]
    rfl

theorem ioBitsSeek_nfP (p : SeekPol) (sub : Sub) (data : List UInt8) (I : Rd → Nat → Prop) (hok : ByteOKP p sub data I)
    (b : Rd) (pos : Nat) (hI : I b pos) (bp : Int) (buf : List UInt8) (o : Int) (w : Whence) :
    ∃ b' pos', I b' pos' ∧ ioBitsSeek sub b bp buf o w =
      ok (.ioBits b' (bitsSpecSeekP p data.length bp o w).1 buf, (bitsSpecSeekP p data.length bp o w).2) := by
  unfold ioBitsSeek bitsSpecSeekP
  have key : ∀ (o' : Int) (w' : Whence), w' ≠ .current →
      ∃ b' pos', I b' pos' ∧ sub b (.seekB (o'.tdiv 8) w') = ok (b', seekResP p (seekTarget data.length 0 (o'.tdiv 8) w')) := by
    intro o' w' hw
    obtain ⟨b1, hsk, hI1⟩ := hok.2 b pos (o'.tdiv 8) w' hI
    refine ⟨b1, _, hI1, ?_⟩
    rw [hsk]
    cases w' with
    | current => exact absurd rfl hw
    | start => rfl
    | end_ => rfl
  by_cases hw : w = .current
  · subst hw
    simp only [if_true]
    obtain ⟨b1, p1, hI1, hsk⟩ := key (o + bp) .start (by simp)
    refine ⟨b1, p1, hI1, ?_⟩
    simp only [hsk, ok_bind]
    rcases pol_cases p (seekTarget data.length 0 ((o + bp).tdiv 8) .start) with hp | ⟨e, hp⟩
    · simp only [seekResP_none p _ hp, hp, Option.isSome_none, Bool.false_eq_true, if_false, pure_eq]
    · simp only [seekResP_some p _ e hp, hp, Option.isSome_some, if_true, pure_eq]
  · simp only [hw, if_false]
    obtain ⟨b1, p1, hI1, hsk⟩ := key o w hw
    refine ⟨b1, p1, hI1, ?_⟩
    simp only [hsk, ok_bind]
    rcases pol_cases p (seekTarget data.length 0 (o.tdiv 8) w) with hp | ⟨e, hp⟩
    · simp only [seekResP_none p _ hp, hp, Option.isSome_none, Bool.false_eq_true, if_false, pure_eq]
    · simp only [seekResP_some p _ e hp, hp, Option.isSome_some, if_true, pure_eq]

theorem ioBits_step_specP (d : Nat) (p : SeekPol) (data : List UInt8) (I : Rd → Nat → Prop)
    (hok : ByteOKP p (step d) data I) (b : Rd) (pos : Nat) (hI : I b pos) (bp : Int) (buf : List UInt8) (op : HOp) :
    ∃ b' pos', I b' pos' ∧ step (d + 1) (.ioBits b bp buf) op.toOp =
      (bitsSpecStepP p data (bp, buf) op).bind (fun x => ok (.ioBits b' x.1.1 x.1.2, x.2)) := by
  cases op with
  | readAt n off =>
    obtain ⟨b', p', hI', h⟩ := ioBitsReadAt_nfP p (step d) data I hok b pos hI buf n (off : Int)
    refine ⟨b', p', hI', ?_⟩
    simp only [HOp.toOp, bitsSpecStepP]
    rw [step_ioBits_readAt, h]
    cases bitsSpecReadAtP p data buf n (off : Int) <;> rfl
  | read n =>
    obtain ⟨b', p', hI', h⟩ := ioBitsReadAt_nfP p (step d) data I hok b pos hI buf n bp
    refine ⟨b', p', hI', ?_⟩
    simp only [HOp.toOp, bitsSpecStepP]
    rw [step_ioBits_read, h]
    cases bitsSpecReadAtP p data buf n bp <;> rfl
  | seek o w =>
    obtain ⟨b', p', hI', h⟩ := ioBitsSeek_nfP p (step d) data I hok b pos hI bp buf o w
    refine ⟨b', p', hI', ?_⟩
    simp only [HOp.toOp, bitsSpecStepP]
    rw [step_ioBits_seek, h]; rfl
  | clone =>
    refine ⟨b, pos, hI, ?_⟩
    simp only [HOp.toOp, bitsSpecStepP]
    rw [step_ioBits_clone]; rfl

/-- every history on IOBitReadSeeker over a policy-`p` io.ReadSeeker is the history of the specification machine -/
theorem ioBits_run_specP (d : Nat) (p : SeekPol) (data : List UInt8) (I : Rd → Nat → Prop)
    (hok : ByteOKP p (step d) data I) :
    ∀ (ops : List HOp) (b : Rd) (pos : Nat) (bp : Int) (buf : List UInt8), I b pos →
      runH (d + 1) (.ioBits b bp buf) ops = runBitsSpecFromP p data (bp, buf) ops := by
  intro ops
  induction ops with
  | nil => intro _ _ _ _ _; rfl
  | cons op ops ih =>
    intro b pos bp buf hI
    obtain ⟨b', p', hI', h⟩ := ioBits_step_specP d p data I hok b pos hI bp buf op
    simp only [runH, runBitsSpecFromP, h]
    cases hs : bitsSpecStepP p data (bp, buf) op with
    | ok x =>
      obtain ⟨⟨bp', buf'⟩, res⟩ := x
      simp only [Outcome.bind]
      rw [ih b' p' bp' buf' hI']
    | fault w => rfl
    | hang => rfl
    | unsupported w => rfl

/-- with the policy of bytes.Reader the policy machine is the machine of `open_stack_refines` -/
theorem bitsSpecStepP_std (data : List UInt8) (st : Int × List UInt8) (op : HOp) :
    bitsSpecStepP stdPol data st op = bitsSpecStep data st op := by
  have hpol : ∀ T : Int, (stdPol T).isSome = decide (T < 0) := by
    intro T; unfold stdPol; split <;> simp [*]
  have hval : ∀ T : Int, T < 0 → stdPol T = some .seek := by intro T h; simp [stdPol, h]
  have hra : ∀ buf n off, bitsSpecReadAtP stdPol data buf n off = bitsSpecReadAt data buf n off := by
    intro buf n off
    unfold bitsSpecReadAtP bitsSpecReadAt
    by_cases h : off.tdiv 8 < 0
    · simp [hpol, h, hval _ h]
    · simp [hpol, h]
  have hsk : ∀ bp o w, bitsSpecSeekP stdPol data.length bp o w = bitsSpecSeek data.length bp o w := by
    intro bp o w
    unfold bitsSpecSeekP bitsSpecSeek
    simp only []
    generalize seekTarget data.length 0 ((if w = Whence.current then o + bp else o).tdiv 8)
      (if w = Whence.current then Whence.start else w) = T
    by_cases h : T < 0
    · simp [hpol, h, hval _ h]
    · simp [hpol, h]
  cases op <;> simp [bitsSpecStepP, bitsSpecStep, hra, hsk]

theorem runBitsSpecFromP_std (data : List UInt8) : ∀ (ops : List HOp) (st : Int × List UInt8),
    runBitsSpecFromP stdPol data st ops = runBitsSpecFrom data st ops := by
  intro ops
  induction ops with
  | nil => intro _; rfl
  | cons op ops ih =>
    intro st
    simp only [runBitsSpecFromP, runBitsSpecFrom, bitsSpecStepP_std]
    cases bitsSpecStep data st op with
    | ok x => obtain ⟨st', res⟩ := x; simp only [ih]
    | fault w => rfl
    | hang => rfl
    | unsupported w => rfl

/-! ### the bit side of one tower level: an aligned-length section of an IOBitReadSeeker is byte regular -/

theorem ioBitsFinish_n_full (buf : List UInt8) (skip : Int) (n rb q : Nat) (res : Res)
    (h : ioBitsFinish buf skip n rb none q = ok res) : res.n = n := by
  unfold ioBitsFinish at h
  simp only [Option.isSome_none, Bool.false_eq_true, false_and, if_false, reduceCtorEq] at h
  split at h
  · injection h with h; subst h; rfl
  · obtain ⟨a, _, ha⟩ := bind_ok_inv _ _ _ h
    injection ha with ha; subst ha; rfl

/-- ReadBitsAt of IOBitReadSeeker over a policy-`q` io.ReadSeeker that accepts every non-negative target: sound, and
    EXACT (all n bits) when they exist -/
theorem ioBits_readAt_exact (q : SeekPol) (hq : AcceptsNonneg q) (sub : Sub) (data : List UInt8) (I : Rd → Nat → Prop)
    (hok : ByteOKP q sub data I) (b : Rd) (pos : Nat) (hI : I b pos) (buf : List UInt8) (n off : Nat) :
    ∃ b' pos' buf' res, ioBitsReadAt sub b buf n (off : Int) = ok ((b', buf'), res) ∧ I b' pos' ∧
      SoundAt (bytesToBits data) off n res ∧ (off + n ≤ 8 * data.length → res.bits.length = n) := by
  obtain ⟨b', pos', hI', h⟩ := ioBitsReadAt_nfP q sub data I hok b pos hI buf n (off : Int)
  rw [h]
  unfold bitsSpecReadAtP
  simp only [tdiv8, tmod8, bbcI, hq _ (Int.natCast_nonneg _), Option.isSome_none, Bool.false_eq_true, if_false,
    Int.toNat_natCast]
  generalize hB0 : (if bitsByteCount (off % 8 + n) > buf.length then List.replicate (bitsByteCount (off % 8 + n)) 0 else buf) = B0
  have hB0l : bitsByteCount (off % 8 + n) ≤ B0.length := by
    rw [← hB0]; split
    · simp
    · omega
  obtain ⟨res, hres, hsound⟩ := ioBitsFinish_spec data (off / 8) (off % 8) n (by omega)
    (B0.drop (slice data (off / 8) (bitsByteCount (off % 8 + n))).length) _ rfl
    (by rw [List.length_append, List.length_drop]; omega)
  rw [hres]
  refine ⟨b', pos', _, res, rfl, hI', by rwa [show 8 * (off / 8) + off % 8 = off by omega] at hsound, ?_⟩
  intro hin
  have hbb := bitsByteCount_bounds (off % 8 + n)
  have hfull : (rawFullRes data (off / 8) (bitsByteCount (off % 8 + n)) 0).err = none := by
    unfold rawFullRes
    have : (slice data (off / 8) (bitsByteCount (off % 8 + n))).length ≥ bitsByteCount (off % 8 + n) := by
      rw [slice_len]; omega
    simp [this]
  rw [hfull] at hres
  have := ioBitsFinish_n_full _ _ _ _ _ _ hres
  have hc := hsound.cnt
  omega

theorem sectSeek_at (r : Rd) (base pos L : Nat) (o : Int) (w : Whence) :
    sectSeek r base (base + pos) (base + L) o w =
      ok (.sect r base (base + (if (sectPol (seekTargetBits L pos o w)).isSome then pos else (seekTargetBits L pos o w).toNat))
            (base + L), seekResP sectPol (seekTargetBits L pos o w)) := by
  have key : ∀ (B T : Int), B = T + base →
      (if B < base then (ok (.sect r base (base + pos) (base + L), { err := some .offset }) : Out)
        else ok (.sect r base B.toNat (base + L), { n := B - base })) =
      ok (.sect r base (base + (if (sectPol T).isSome then pos else T.toNat)) (base + L), seekResP sectPol T) := by
    intro B T hB
    subst hB
    by_cases hT : T < 0
    · have : T + (base : Int) < base := by omega
      simp [this, hT, sectPol, seekResP]
    · have : ¬ (T + (base : Int) < base) := by omega
      have e1 : (T + (base : Int)).toNat = base + T.toNat := by omega
      simp [this, hT, sectPol, seekResP, e1]
  unfold sectSeek
  cases w
  · exact key _ (seekTargetBits L pos o .start) (by simp only [seekTargetBits] <;> omega)
  · exact key _ (seekTargetBits L pos o .current) (by simp only [seekTargetBits] <;> omega)
  · exact key _ (seekTargetBits L pos o .end_) (by simp only [seekTargetBits] <;> omega)

theorem regSrc_sect_ioBits (d : Nat) (q : SeekPol) (hq : AcceptsNonneg q) (data : List UInt8) (I : Rd → Nat → Prop)
    (hok : ByteOKP q (step d) data I) (base L : Nat) (hL8 : L % 8 = 0) (hfit : base + L ≤ 8 * data.length) :
    RegSrc sectPol (step (d + 2)) (slice (bytesToBits data) base L) (SectOver (IOBitsOver I) base L) := by
  have hlen : (slice (bytesToBits data) base L).length = L := slice_length _ _ _ (by rw [bytesToBits_length]; omega)
  refine ⟨by rw [hlen]; exact hL8, ?_, ?_⟩
  · intro s pos n hn hn8 hp8 hs
    obtain ⟨r, rfl, ⟨b, bp, buf, p0, rfl, hI⟩⟩ := hs
    rw [step_sect_read]
    unfold sectReadAt
    rw [hlen]
    by_cases hend : L ≤ pos
    · have hc : ((base + pos : Nat) : Int) - (base : Int) < 0 ∨ ((base + pos : Nat) : Int) - (base : Int) ≥ ((base + L : Nat) : Int) - (base : Int) := by
        right; omega
      simp only [hc, if_true, ok_bind]
      refine ⟨_, _, rfl, rfl, by simp [slice_zero_len], by simp, by simp, ?_, Or.inr ⟨rfl, by simp; omega⟩⟩
      exact ⟨_, by simp, ⟨b, bp, buf, p0, rfl, hI⟩⟩
    · have hc : ¬ (((base + pos : Nat) : Int) - (base : Int) < 0 ∨ ((base + pos : Nat) : Int) - (base : Int) ≥ ((base + L : Nat) : Int) - (base : Int)) := by
        omega
      simp only [hc, if_false]
      have hcast : ((base + pos : Nat) : Int) - (base : Int) + (base : Int) = ((base + pos : Nat) : Int) := by omega
      have hmax : (((base + L : Nat) : Int) - ((base + pos : Nat) : Int)).toNat = L - pos := by omega
      rw [hcast, hmax]
      generalize hn' : (if n > L - pos then L - pos else n) = n'
      have hn'8 : 0 < n' ∧ n' % 8 = 0 ∧ n' ≤ n ∧ pos + n' ≤ L := by rw [← hn']; split <;> omega
      rw [step_ioBits_readAt]
      obtain ⟨b', p', buf', res, h1, hI', hs, hex⟩ := ioBits_readAt_exact q hq (step d) data I hok b p0 hI buf n' (base + pos)
      have hk : res.bits.length = n' := hex (by omega)
      rw [h1]
      simp only [ok_bind]
      have herr : res.err = none := hs.inside hn'8.1 (by rw [bytesToBits_length]; omega)
      refine ⟨_, res, rfl, hs.noq, ?_, by omega, by omega, ?_, Or.inl ⟨herr, ?_, by omega⟩⟩
      · rw [slice_slice _ _ _ _ _ (by omega)]; exact hs.bits
      · refine ⟨_, ?_, ⟨b', bp, buf', p', rfl, hI'⟩⟩
        rw [hs.cnt, Int.toNat_natCast, Nat.add_assoc]
      · intro h; rw [h] at hk; simp at hk; omega
  · intro s pos o w _ _ hs
    obtain ⟨r, rfl, hr⟩ := hs
    rw [step_sect_seek, hlen, sectSeek_at]
    exact ⟨_, rfl, ⟨r, by split <;> rfl, hr⟩⟩

/-! ### towers of any height, by induction over the levels -/

theorem acceptsNonneg_towerPol (ls : List Level) : AcceptsNonneg (towerPol ls) := by
  intro T hT
  cases ls with
  | nil => simp [towerPol, stdPol]; omega
  | cons l ls => simp [towerPol, bytePolOf, sectPol]; omega

/-- C01 (adapter towers): over ANY io.ReadSeeker-like byte stack, a tower of any number of levels
    IOReadSeeker ∘ SectionReader ∘ IOBitReadSeeker (whole-byte sections inside the bits below) is again an
    io.ReadSeeker — over `towerData`, with the seek policy of the top level -/
theorem tower_byteOKP (d0 : Nat) (I0 : Rd → Nat → Prop) (data : List UInt8) (h0 : ByteOK (step d0) data I0) :
    ∀ (ls : List Level), towerFits data ls →
      ByteOKP (towerPol ls) (step (d0 + 3 * ls.length)) (towerData data ls) (TowerAt I0 data ls) := by
  intro ls
  induction ls with
  | nil => intro _; exact byteOKP_std _ _ _ h0
  | cons l ls ih =>
    intro hf
    obtain ⟨hf1, hf2, hf3⟩ := hf
    have hreg := regSrc_sect_ioBits (d0 + 3 * ls.length) (towerPol ls) (acceptsNonneg_towerPol ls) (towerData data ls)
      (TowerAt I0 data ls) (ih hf1) l.base l.len hf2 hf3
    have := ioReadSeeker_byteOKP (d0 + 3 * ls.length + 2) sectPol _ _ hreg
    rw [show d0 + 3 * (l :: ls).length = d0 + 3 * ls.length + 2 + 1 by simp only [List.length_cons]; omega]
    exact this

/-- the freshly constructed tower stands at byte 0 -/
theorem towerInit_at (I0 : Rd → Nat → Prop) (data : List UInt8) (b0 : Rd) (h0 : I0 b0 0) :
    ∀ ls : List Level, TowerAt I0 data ls (towerInit b0 ls) 0 := by
  intro ls
  induction ls with
  | nil => exact h0
  | cons l ls ih =>
    refine ⟨_, none, {}, 0, rfl, ⟨by simp, by simp⟩, by simp [Buffer.content, slice_zero_len], ?_, Or.inl rfl⟩
    exact ⟨_, rfl, ⟨_, 0, [], 0, rfl, ih⟩⟩

/-- a one-level tower over the whole buffer delivers the buffer -/
theorem towerData_whole (data : List UInt8) : towerData data [⟨0, 8 * data.length⟩] = data := by
  simp only [towerData]
  apply bytesToBits_inj
  have hl : (slice (bytesToBits data) 0 (8 * data.length)) = bytesToBits data := by
    simp only [slice, List.drop_zero]; exact List.take_of_length_le (by rw [bytesToBits_length]; omega)
  rw [hl, bytesToBits_packR, bytesToBits_length]
  have : padTo8 (8 * data.length) = 0 := by unfold padTo8; omega
  rw [this]; simp

end Proofs.C01
