import FqModel.C01Readers
import FqModel.C01Spec
import Proofs.C01Read64
/-! C01 — aheadreadseeker refines bytes.Reader (invariant: the underlying reader stands directly after
    the cached bytes, and the cache is the corresponding slice of the data). -/
set_option linter.unusedSimpArgs false
namespace Proofs.C01
open FqModel FqModel.Bitio Outcome

theorem slice_len {α} (l : List α) (p k : Nat) : (slice l p k).length = min k (l.length - p) := by
  simp [slice]

theorem slice_slice {α} (l : List α) (a L d k : Nat) (h : d + k ≤ L) :
    slice (slice l a L) d k = slice l (a + d) k := by
  simp only [slice]
  rw [List.drop_take, List.drop_drop, List.take_take]
  congr 1; omega

theorem slice_nil_of_le {α} (l : List α) (p k : Nat) (h : l.length ≤ p) : slice l p k = [] := by
  simp [slice, List.drop_eq_nil_of_le h]

theorem step_raw (d : Nat) (data : List UInt8) (p : Nat) (f : Bool) (op : Op) :
    step (d + 1) (.raw data p f) op = rawStep data p f op := by simp only [step]

theorem raw_read (data : List UInt8) (p : Nat) (f : Bool) (n : Nat) (hn : 0 < n) :
    rawStep data p f (.readB n) =
      if p ≥ data.length then ok (.raw data p f, { err := some .eof })
      else ok (.raw data (p + (slice data p n).length) f, { n := (slice data p n).length, bytes := slice data p n }) := by
  simp only [rawStep]
  have : ¬ (f = true ∧ n = 0) := by omega
  simp only [this, if_false]

theorem slice_all_of_end {α} (l : List α) (p a m : Nat) (h : l.length ≤ p + a) (ham : a ≤ m) :
    slice l p m = slice l p a := by
  simp only [slice]
  rw [List.take_of_length_le (by simp; omega), List.take_of_length_le (by simp; omega)]

/-- io.ReadFull over any such reader returns the `min` bytes at the start position (or what is left) -/
theorem ioReadFullLoop_spec (sub : Sub) (data : List UInt8) (I : Rd → Nat → Prop) (h : ReadsAt sub data I)
    (pos0 mn : Nat) : ∀ (fuel : Nat) (s : Rd) (acc : List UInt8) (q : Nat),
    acc = slice data pos0 acc.length → acc.length ≤ mn → mn - acc.length + 2 ≤ fuel → I s (pos0 + acc.length) →
    ∃ s', ioReadFullLoop sub fuel s acc q mn = ok (s', rawFullRes data pos0 mn q) ∧
      I s' (pos0 + (slice data pos0 mn).length) := by
  intro fuel
  induction fuel with
  | zero => intro s acc q _ _ hf; omega
  | succ fuel ih =>
    intro s acc q hacc hle hf hI
    have haccl : acc.length = min acc.length (data.length - pos0) := by
      conv => lhs; rw [hacc]
      exact slice_len _ _ _
    unfold ioReadFullLoop
    by_cases hdone : acc.length ≥ mn
    · have hm : acc.length = mn := by omega
      refine ⟨s, ?_, ?_⟩
      · simp only [hdone, if_true, rawFullRes]
        rw [← hm, ← hacc]; simp
      · rw [← hm, ← hacc]; exact hI
    · simp only [hdone, if_false]
      obtain ⟨s', r, hr, hq, hcase⟩ := h s (pos0 + acc.length) (mn - acc.length) (by omega) hI
      rw [hr]
      simp only [ok_bind, hq, Nat.or_zero]
      rcases hcase with ⟨hend, hb, he, hI'⟩ | ⟨hlt, k, hk0, hkn, hb, hkl, he, hI'⟩
      · have hD : slice data pos0 mn = acc := by
          rw [slice_all_of_end data pos0 acc.length mn hend (by omega), ← hacc]
        refine ⟨s', ?_, ?_⟩
        · simp only [he, hb, List.append_nil, hdone, if_false, rawFullRes, hD]
          by_cases h0 : acc.length = 0
          · simp [h0]
          · simp [h0, Nat.pos_of_ne_zero h0]
        · rw [hD]; exact hI'
      · have hacc' : acc ++ r.bytes = slice data pos0 (acc ++ r.bytes).length := by
          rw [List.length_append, hb, slice_len, Nat.min_eq_left (by omega), slice_add, ← hacc]
        simp only [he]
        have := ih s' (acc ++ r.bytes) q hacc'
          (by rw [List.length_append, hb, slice_len]; omega)
          (by rw [List.length_append, hb, slice_len, Nat.min_eq_left (by omega)]; omega)
          (by rw [List.length_append, hb, slice_len, Nat.min_eq_left (by omega), ← Nat.add_assoc]; exact hI')
        exact this

theorem readsAt_raw (d : Nat) (data : List UInt8) (f : Bool) :
    ReadsAt (step (d + 1)) data (fun s pos => s = .raw data pos f) := by
  intro s pos n hn hI
  subst hI
  rw [step_raw, raw_read _ _ _ _ hn]
  by_cases hp : pos ≥ data.length
  · rw [if_pos hp]
    exact ⟨_, _, rfl, rfl, Or.inl ⟨hp, rfl, rfl, rfl⟩⟩
  · rw [if_neg hp]
    refine ⟨_, _, rfl, rfl, Or.inr ⟨by omega, (slice data pos n).length, ?_, ?_, ?_, ?_, rfl, rfl⟩⟩
    · rw [slice_len]; omega
    · rw [slice_len]; omega
    · simp only [slice_len]
      simp only [slice]
      rw [List.take_eq_take_iff]
      simp only [List.length_drop]; omega
    · rw [slice_len]; omega

theorem ioReadFull_raw (d : Nat) (data : List UInt8) (p : Nat) (f : Bool) (k : Nat) :
    ioReadFull (step (d + 1)) (.raw data p f) k
      = ok (.raw data (p + (slice data p k).length) f, rawFullRes data p k 0) := by
  obtain ⟨s', h1, h2⟩ := ioReadFullLoop_spec _ data _ (readsAt_raw d data f) p k (k + 2) (.raw data p f) [] 0
    (by simp [slice]) (by simp) (by simp) (by simp)
  subst h2
  exact h1

/-- io.ReadFull over any io.Reader-like source -/
theorem ioReadFull_gen (sub : Sub) (data : List UInt8) (I : Rd → Nat → Prop) (h : ReadsAt sub data I)
    (b : Rd) (p k : Nat) (hI : I b p) :
    ∃ b', ioReadFull sub b k = ok (b', rawFullRes data p k 0) ∧ I b' (p + (slice data p k).length) :=
  ioReadFullLoop_spec sub data I h p k (k + 2) b [] 0 (by simp [slice]) (by simp) (by simp) (by simpa using hI)

theorem raw_seek (data : List UInt8) (p : Nat) (f : Bool) (o : Int) (w : Whence) :
    rawStep data p f (.seekB o w) =
      ok (.raw data (if seekTarget data.length p o w < 0 then p else (seekTarget data.length p o w).toNat) f,
          seekRes (seekTarget data.length p o w)) := by
  simp only [rawStep, seekTarget, seekRes]
  cases w <;> simp only <;> split <;> simp [*]

/-- bytes.Reader / os.File -/
theorem byteOK_raw (d : Nat) (data : List UInt8) (f : Bool) :
    ByteOK (step (d + 1)) data (fun s pos => s = .raw data pos f) := by
  refine ⟨readsAt_raw d data f, ?_⟩
  intro s pos o w hI
  subst hI
  rw [step_raw, raw_seek]
  exact ⟨_, rfl, rfl⟩

/-! ### the ahead cache, over any io.ReadSeeker-like source -/

/-- the abstraction relation: an aheadreadseeker state, whose logical offset is `pos`, over a source related to
    its own position by `I` -/
def AheadG (I : Rd → Nat → Prop) (data : List UInt8) (m : Nat) (s : Rd) (pos : Nat) : Prop :=
  ∃ b p cache co, s = .ahead b m pos cache co ∧ I b p ∧ AheadInv data p pos cache co

theorem slice_self_len (data : List UInt8) (p k : Nat) :
    slice data p (slice data p k).length = slice data p k := by
  simp only [slice_len]
  simp only [slice]
  rw [List.take_eq_take_iff]; simp only [List.length_drop]; omega

theorem step_ahead_read (d : Nat) (b : Rd) (m off co : Nat) (c : List UInt8) (n : Nat) :
    step (d + 1) (.ahead b m off c co) (.readB n) = aheadReadLoop (step d) m n 3 b off c co 0 := by
  simp only [step]

theorem step_ahead_seek (d : Nat) (b : Rd) (m off co : Nat) (c : List UInt8) (o : Int) (w : Whence) :
    step (d + 1) (.ahead b m off c co) (.seekB o w) = aheadSeek (step d) b m off c co o w := by
  simp only [step]

/-- Read on the ahead reader: EOF at the end of the data, otherwise 1..n bytes of the data at the offset -/
theorem readsAt_aheadG (sub : Sub) (data : List UInt8) (I : Rd → Nat → Prop) (hok : ByteOK sub data I) (m : Nat)
    (hm : 0 < m) (s : Rd) (pos n : Nat) (hn : 0 < n) (hs : AheadG I data m s pos) :
    ∃ b off c co, s = .ahead b m off c co ∧
    ∃ s' r, aheadReadLoop sub m n 3 b off c co 0 = ok (s', r) ∧ r.q = 0 ∧
      ((data.length ≤ pos ∧ r.bytes = [] ∧ r.err = some .eof ∧ AheadG I data m s' pos) ∨
       (pos < data.length ∧ ∃ k, 0 < k ∧ k ≤ n ∧ r.bytes = slice data pos k ∧ pos + k ≤ data.length ∧
          r.err = none ∧ AheadG I data m s' (pos + k))) := by
  obtain ⟨b, p, cache, co, hs, hIb, hinv⟩ := hs
  refine ⟨b, pos, cache, co, hs, ?_⟩
  unfold aheadReadLoop
  by_cases hit : pos ≥ co ∧ pos < co + cache.length
  · -- cache hit
    simp only [hit, and_self, if_true]
    have hne : cache ≠ [] := by intro h; subst h; simp at hit; omega
    obtain ⟨hp, hc, h1, h2⟩ := hinv.1 hne
    have hL : co + cache.length ≤ data.length := by
      have := congrArg List.length hc
      rw [slice_len] at this; omega
    refine ⟨_, _, rfl, rfl, Or.inr ⟨by omega, min (cache.length - (pos - co)) n, by omega, by omega, ?_, by omega, rfl, ?_⟩⟩
    · show slice cache (pos - co) _ = _
      have hc' : ∀ k, slice cache (pos - co) k = slice (slice data co cache.length) (pos - co) k := by
        intro k; rw [← hc]
      rw [hc', slice_slice _ _ _ _ _ (by omega)]
      congr 1; omega
    · exact ⟨b, p, cache, co, rfl, hIb, ⟨fun _ => ⟨hp, hc, by omega, by omega⟩, fun h => absurd h hne⟩⟩
  · -- miss: the underlying reader stands at the offset
    simp only [hit, if_false]
    have hp : p = pos := by
      by_cases hc : cache = []
      · exact hinv.2 hc
      · obtain ⟨hp, _, h1, h2⟩ := hinv.1 hc
        have : ¬ (pos < co + cache.length) := fun h => hit ⟨h1, h⟩
        omega
    subst hp
    obtain ⟨b', hfull, hIb'⟩ := ioReadFull_gen sub data I hok.1 b p (max n m) hIb
    rw [hfull]
    simp only [ok_bind, rawFullRes, Nat.zero_or]
    by_cases hD : (slice data p (max n m)).length = 0
    · have hnil : slice data p (max n m) = [] := List.eq_nil_of_length_eq_zero hD
      have hend : data.length ≤ p := by rw [slice_len] at hD; omega
      simp only [hD, true_or, if_true, Nat.add_zero, hnil]
      have hmx : ¬ (0 ≥ max n m) := by omega
      refine ⟨_, _, rfl, rfl, Or.inl ⟨hend, rfl, ?_, ?_⟩⟩
      · simp [hmx]
      · exact ⟨b', p, [], p, rfl, by simpa [hD] using hIb', ⟨fun h => absurd rfl h, fun _ => rfl⟩⟩
    · simp only [hD, if_false]
      have hcond : ¬ (False ∨ (if (slice data p (max n m)).length ≥ max n m then none else some Err.unexpectedEOF) = some Err.eof) := by
        split <;> simp
      rw [if_neg hcond]
      unfold aheadReadLoop
      have hhit : p ≥ p ∧ p < p + (slice data p (max n m)).length := by omega
      simp only [hhit, and_self, if_true, Nat.sub_self, Nat.sub_zero]
      have hlt : p < data.length := by rw [slice_len] at hD; omega
      have hlen := slice_len data p (max n m)
      refine ⟨_, _, rfl, rfl, Or.inr ⟨hlt, min (slice data p (max n m)).length n, by omega, by omega, ?_, by omega, rfl, ?_⟩⟩
      · show slice (slice data p (max n m)) 0 _ = _
        rw [slice_slice _ _ _ _ _ (by omega)]; rfl
      · refine ⟨b', _, _, _, rfl, hIb', ⟨fun _ => ⟨rfl, (slice_self_len data p _).symm, by omega, by omega⟩, fun h => ?_⟩⟩
        exact absurd (congrArg List.length h) (by simpa using hD)

theorem seekRes_nonneg (T : Int) (h : 0 ≤ T) : seekRes T = { n := T } := by
  simp [seekRes, show ¬ T < 0 by omega]

theorem seekRes_neg (T : Int) (h : T < 0) : seekRes T = { err := some .seek } := by
  simp [seekRes, h]

theorem seekTo_specG (sub : Sub) (data : List UInt8) (I : Rd → Nat → Prop) (hok : ByteOK sub data I)
    (m p pos : Nat) (cache : List UInt8) (co : Nat) (hinv : AheadInv data p pos cache co) (T : Int) (fromEnd : Bool)
    (hT : 0 ≤ T) (b : Rd) (p' : Nat) (hIb : I b p') (hp' : p' = p ∨ fromEnd = true) :
    ∃ s', aheadSeekTo sub b m pos cache co T fromEnd 0 = ok (s', { n := T }) ∧ AheadG I data m s' T.toNat := by
  unfold aheadSeekTo
  by_cases hit : T ≥ (co : Int) ∧ T < (co : Int) + cache.length
  · simp only [hit, and_self, if_true]
    have hne : cache ≠ [] := by intro h; subst h; simp at hit; omega
    obtain ⟨hp, hc, h1, h2⟩ := hinv.1 hne
    cases fromEnd with
    | true =>
      obtain ⟨b', hsk, hIb'⟩ := hok.2 b p' ((co : Int) + cache.length) .start hIb
      simp only [seekTarget] at hsk hIb'
      rw [seekRes_nonneg _ (by omega)] at hsk
      have hnn : ¬ ((co : Int) + cache.length < 0) := by omega
      simp only [hnn, if_false] at hIb'
      simp only [if_true, hsk, ok_bind, Option.isSome_none, Bool.false_eq_true, if_false, Nat.zero_or]
      exact ⟨_, rfl, ⟨b', _, cache, co, rfl, hIb', ⟨fun _ => ⟨by omega, hc, by omega, by omega⟩, fun h => absurd h hne⟩⟩⟩
    | false =>
      simp only [Bool.false_eq_true, if_false]
      have : p' = p := by rcases hp' with h | h; exact h; simp at h
      subst this
      exact ⟨_, rfl, ⟨b, p', cache, co, rfl, hIb, ⟨fun _ => ⟨hp, hc, by omega, by omega⟩, fun h => absurd h hne⟩⟩⟩
  · obtain ⟨b', hsk, hIb'⟩ := hok.2 b p' T .start hIb
    simp only [seekTarget] at hsk hIb'
    rw [seekRes_nonneg _ hT] at hsk
    have hnn : ¬ (T < 0) := by omega
    simp only [hnn, if_false] at hIb'
    simp only [hit, if_false, hsk, ok_bind, Option.isSome_none, Bool.false_eq_true, Nat.zero_or]
    exact ⟨_, rfl, ⟨b', _, [], 0, rfl, hIb', ⟨fun h => absurd rfl h, fun _ => rfl⟩⟩⟩

theorem seekTo_negG (sub : Sub) (data : List UInt8) (I : Rd → Nat → Prop) (hok : ByteOK sub data I)
    (m p pos : Nat) (cache : List UInt8) (co : Nat) (T : Int) (hT : T < 0) (b : Rd) (hIb : I b p) :
    ∃ b', aheadSeekTo sub b m pos cache co T false 0 = ok (.ahead b' m pos cache co, { err := some .seek }) ∧ I b' p := by
  unfold aheadSeekTo
  have hit : ¬ (T ≥ (co : Int) ∧ T < (co : Int) + cache.length) := by omega
  obtain ⟨b', hsk, hIb'⟩ := hok.2 b p T .start hIb
  simp only [seekTarget] at hsk hIb'
  rw [seekRes_neg _ hT] at hsk
  simp only [hT, if_true] at hIb'
  simp only [hit, if_false, hsk, ok_bind, Option.isSome_some, if_true, Nat.zero_or]
  exact ⟨b', rfl, hIb'⟩

/-- Seek on the ahead reader = Seek on bytes.Reader (result and new logical offset) -/
theorem seek_aheadG (sub : Sub) (data : List UInt8) (I : Rd → Nat → Prop) (hok : ByteOK sub data I) (m : Nat)
    (s : Rd) (pos : Nat) (hs : AheadG I data m s pos) (o : Int) (w : Whence) :
    ∃ b off c co, s = .ahead b m off c co ∧
    ∃ s', aheadSeek sub b m off c co o w = ok (s', seekRes (seekTarget data.length pos o w)) ∧
      AheadG I data m s' (if seekTarget data.length pos o w < 0 then pos else (seekTarget data.length pos o w).toNat) := by
  obtain ⟨b, p, cache, co, hs, hIb, hinv⟩ := hs
  refine ⟨b, pos, cache, co, hs, ?_⟩
  unfold aheadSeek
  cases w with
  | start =>
    simp only [seekTarget]
    by_cases hT : o < 0
    · obtain ⟨b', h1, h2⟩ := seekTo_negG sub data I hok m p pos cache co o hT b hIb
      rw [h1, seekRes_neg _ hT]
      simp only [hT, if_true]
      exact ⟨_, rfl, ⟨b', p, cache, co, rfl, h2, hinv⟩⟩
    · obtain ⟨s', h1, h2⟩ := seekTo_specG sub data I hok m p pos cache co hinv o false (by omega) b p hIb (Or.inl rfl)
      rw [seekRes_nonneg _ (by omega)]
      simp only [hT, if_false]
      exact ⟨s', h1, h2⟩
  | current =>
    simp only [seekTarget]
    by_cases hT : (pos : Int) + o < 0
    · obtain ⟨b', h1, h2⟩ := seekTo_negG sub data I hok m p pos cache co ((pos : Int) + o) hT b hIb
      rw [h1, seekRes_neg _ hT]
      simp only [hT, if_true]
      exact ⟨_, rfl, ⟨b', p, cache, co, rfl, h2, hinv⟩⟩
    · obtain ⟨s', h1, h2⟩ := seekTo_specG sub data I hok m p pos cache co hinv ((pos : Int) + o) false (by omega) b p hIb (Or.inl rfl)
      rw [seekRes_nonneg _ (by omega)]
      simp only [hT, if_false]
      exact ⟨s', h1, h2⟩
  | end_ =>
    obtain ⟨b', hsk, hIb'⟩ := hok.2 b p o .end_ hIb
    simp only [seekTarget] at hsk hIb' ⊢
    by_cases hT : (data.length : Int) + o < 0
    · rw [seekRes_neg _ hT] at hsk
      simp only [hT, if_true] at hIb' ⊢
      simp only [hsk, ok_bind, Option.isSome_some, if_true, seekRes_neg _ hT]
      exact ⟨_, rfl, ⟨b', p, cache, co, rfl, hIb', hinv⟩⟩
    · rw [seekRes_nonneg _ (by omega)] at hsk
      simp only [hT, if_false] at hIb' ⊢
      simp only [hsk, ok_bind, Option.isSome_none, Bool.false_eq_true, if_false, seekRes_nonneg _ (show 0 ≤ (data.length : Int) + o by omega)]
      obtain ⟨s', h1, h2⟩ := seekTo_specG sub data I hok m p pos cache co hinv ((data.length : Int) + o) true (by omega) b' _ hIb' (Or.inr rfl)
      exact ⟨s', h1, h2⟩

/-- aheadreadseeker over any io.ReadSeeker-like source is again one (over the same data) -/
theorem byteOK_ahead (d : Nat) (data : List UInt8) (I : Rd → Nat → Prop) (hok : ByteOK (step d) data I) (m : Nat)
    (hm : 0 < m) : ByteOK (step (d + 1)) data (AheadG I data m) := by
  refine ⟨?_, ?_⟩
  · intro s pos n hn hs
    obtain ⟨b, off, c, co, hs', s', r, h1, h2⟩ := readsAt_aheadG (step d) data I hok m hm s pos n hn hs
    subst hs'
    rw [step_ahead_read]
    exact ⟨s', r, h1, h2⟩
  · intro s pos o w hs
    obtain ⟨b, off, c, co, hs', s', h1, h2⟩ := seek_aheadG (step d) data I hok m s pos hs o w
    subst hs'
    rw [step_ahead_seek]
    exact ⟨s', h1, h2⟩

/-! ### two io.ReadSeeker-like sources over the same data are indistinguishable by io.ReadFull / Seek histories -/

theorem runBytes_eq (d1 d2 : Nat) (data : List UInt8) (I1 I2 : Rd → Nat → Prop) (h1 : ByteOK (step d1) data I1)
    (h2 : ByteOK (step d2) data I2) : ∀ (ops : List BOp) (s1 s2 : Rd) (pos : Nat), I1 s1 pos → I2 s2 pos →
      runBytes d1 s1 ops = runBytes d2 s2 ops := by
  intro ops
  induction ops with
  | nil => intro _ _ _ _ _; rfl
  | cons op ops ih =>
    intro s1 s2 pos hs1 hs2
    cases op with
    | readFull n =>
      obtain ⟨s1', e1, i1⟩ := ioReadFull_gen (step d1) data I1 h1.1 s1 pos n hs1
      obtain ⟨s2', e2, i2⟩ := ioReadFull_gen (step d2) data I2 h2.1 s2 pos n hs2
      simp only [runBytes, e1, e2]
      rw [ih s1' s2' _ i1 i2]
    | seek o w =>
      obtain ⟨s1', e1, i1⟩ := h1.2 s1 pos o w hs1
      obtain ⟨s2', e2, i2⟩ := h2.2 s2 pos o w hs2
      simp only [runBytes, e1, e2]
      rw [ih s1' s2' _ i1 i2]

/-- aheadreadseeker over bytes.Reader / file -/
def AheadAt (data : List UInt8) (f : Bool) (m : Nat) : Rd → Nat → Prop :=
  AheadG (fun s p => s = .raw data p f) data m

theorem readsAt_ahead (d : Nat) (data : List UInt8) (f : Bool) (m : Nat) (hm : 0 < m) :
    ReadsAt (step (d + 2)) data (AheadAt data f m) :=
  (byteOK_ahead (d + 1) data _ (byteOK_raw d data f) m hm).1

theorem ahead_refines' (data : List UInt8) (f : Bool) (m : Nat) (hm : 0 < m) (ops : List BOp) :
    runAhead data f m ops = runBytesReader data ops := by
  unfold runAhead runBytesReader initAhead
  have : depthFuel = 30 + 2 := rfl
  rw [this]
  exact runBytes_eq (30 + 2) (30 + 2) data _ _ (byteOK_ahead 31 data _ (byteOK_raw 30 data f) m hm) (byteOK_raw 31 data false)
    ops _ _ 0 ⟨.raw data 0 f, 0, [], 0, rfl, rfl, ⟨fun h => absurd rfl h, fun _ => rfl⟩⟩ rfl

end Proofs.C01
