import FqModel.C01Readers
import FqModel.C01Spec
import Proofs.C01History
/-! C01 — what the constructors do to the cursor of the reader they are given (a shared object): NewMultiReader
    measures every part with endPos (seek current, seek end, seek back) and leaves it where it stood; the other
    constructors store their argument untouched. -/
set_option linter.unusedSimpArgs false
namespace Proofs.C01
open FqModel FqModel.Bitio Outcome

theorem step_zero_seek (d : Nat) (pos nb : Nat) (o : Int) (w : Whence) :
    step (d + 1) (.zero pos nb) (.seek o w) = zeroSeek pos nb o w := by simp only [step]

/-- SeekBits to a target inside [0, len] is accepted and lands there; nothing else changes -/
theorem part_seek (d : Nat) (r : Rd) (h : PartOK d r) (o : Int) (w : Whence)
    (hT : 0 ≤ seekTargetBits (den r).length (posOf r) o w ∧ seekTargetBits (den r).length (posOf r) o w ≤ (den r).length) :
    ∃ r' res, step d r (.seek o w) = ok (r', res) ∧ res.err = none ∧
      res.n = seekTargetBits (den r).length (posOf r) o w ∧ (posOf r' : Int) = seekTargetBits (den r).length (posOf r) o w ∧
      den r' = den r ∧ WFd d r' ∧ (topSM r' = true ∨ ∃ p n, r' = .zero p n) := by
  obtain ⟨hwf, hkind, hpos⟩ := h
  rcases hkind with ht | ⟨p, n, rfl⟩
  · obtain ⟨r', res, h1, ⟨g1, g2, g3⟩, h3⟩ := (good_seek_clone d (den r) r ⟨hwf, rfl, ht⟩).1 o w
    simp only [CursorStep] at h3
    rcases h3 with ⟨a, b, _, c⟩ | ⟨_, _, hbad⟩
    · exact ⟨r', res, h1, a, b, c, g2, g1, Or.inl g3⟩
    · omega
  · cases d with
    | zero => simp [WFd] at hwf
    | succ d =>
      simp only [WFd] at hwf
      simp only [den_zero, List.length_replicate, posOf] at hT hpos ⊢
      rw [step_zero_seek]
      unfold zeroSeek
      cases w <;> simp only [seekTargetBits] at hT ⊢ <;> (
        split
        · rename_i hrej; omega
        · refine ⟨_, _, rfl, rfl, rfl, by simp only [posOf]; omega, by simp [den_zero], by simp only [WFd]; omega,
            Or.inr ⟨_, _, rfl⟩⟩)

/-- multireader.go:10-24 endPos: the length of the part, and the part is left where it stood -/
theorem endPos_spec (d : Nat) (r : Rd) (h : PartOK d r) :
    ∃ r' res, endPos (step d) r = ok (r', res) ∧ res.err = none ∧ res.n = ((den r).length : Int) ∧
      posOf r' = posOf r ∧ den r' = den r ∧ PartOK d r' := by
  have hpos := h.2.2
  unfold endPos
  obtain ⟨r1, c, e1, c1, c2, c3, c4, c5, c6⟩ := part_seek d r h 0 .current (by simp only [seekTargetBits]; omega)
  simp only [seekTargetBits, Int.add_zero] at c2 c3
  rw [e1]
  simp only [ok_bind, c1, Option.isSome_none, Bool.false_eq_true, if_false]
  have h1 : PartOK d r1 := ⟨c5, c6, by rw [c4]; omega⟩
  obtain ⟨r2, e, e2, d1, d2, d3, d4, d5, d6⟩ := part_seek d r1 h1 0 .end_ (by simp only [seekTargetBits]; omega)
  simp only [seekTargetBits, Int.add_zero] at d2 d3
  rw [e2]
  simp only [ok_bind, d1, Option.isSome_none, Bool.false_eq_true, if_false]
  have h2 : PartOK d r2 := ⟨d5, d6, by rw [d4]; omega⟩
  obtain ⟨r3, b, e3, f1, f2, f3, f4, f5, f6⟩ := part_seek d r2 h2 c.n .start
    (by simp only [seekTargetBits]; rw [c2, d4, c4]; omega)
  simp only [seekTargetBits] at f2 f3
  rw [e3]
  simp only [ok_bind, f1, Option.isSome_none, Bool.false_eq_true, if_false, pure_eq]
  refine ⟨r3, _, rfl, by first | rfl | exact d1, by simp only; rw [d2, c4], ?_, by rw [f4, d4, c4], ⟨f5, f6, ?_⟩⟩
  · have : (posOf r3 : Int) = posOf r := by rw [f3, c2]
    omega
  · have : (posOf r3 : Int) = posOf r := by rw [f3, c2]
    rw [f4, d4, c4]; omega

/-- NewMultiReader (multireader.go:36-48): every part keeps its cursor (and its bits); readerEnds are the cumulative lengths -/
theorem newMultiLoop_spec (d : Nat) : ∀ (rs done : List Rd) (ends : List Nat) (acc : Nat),
    (∀ r ∈ rs, PartOK d r) →
    ∃ rs', newMultiLoop (step d) rs done ends (acc : Int) = ok (.multi (done.reverse ++ rs') (ends.reverse ++ cumEnds rs' acc) 0) ∧
      PartsKept d rs rs' := by
  intro rs
  induction rs with
  | nil => intro done ends acc _; exact ⟨[], by simp [newMultiLoop, cumEnds], trivial⟩
  | cons r rest ih =>
    intro done ends acc h
    obtain ⟨r', res, e1, g1, g2, g3, g4, g5⟩ := endPos_spec d r (h r (by simp))
    obtain ⟨rs', e2, f⟩ := ih (r' :: done) ((acc + (den r).length) :: ends) (acc + (den r).length)
      (fun x hx => h x (by simp [hx]))
    refine ⟨r' :: rs', ?_, ⟨⟨g3, g4, g5⟩, f⟩⟩
    simp only [newMultiLoop, e1, ok_bind, g1, Option.isSome_none, Bool.false_eq_true, if_false, g2]
    have hc : (acc : Int) + ((den r).length : Int) = ((acc + (den r).length : Nat) : Int) := by omega
    rw [hc, Int.toNat_natCast, e2]
    simp [cumEnds, g4, List.append_assoc]

end Proofs.C01
