import FqModel.C01Bitiox
import Proofs.C01History
import Proofs.C01IOReader
import Proofs.C01Alias
import Proofs.C01Bytes
/-! C01 — bitiox.Len / Range / CopyBits: helper lemmas. -/
set_option linter.unusedSimpArgs false
namespace Proofs.C01
open FqModel FqModel.Bitio Outcome

/-! ### Len -/

/-- SectionReader: the three seeks of Len restore the state exactly — also when the cursor stands beyond the
    end (SeekBits has no upper bound) -/
theorem bxLen_sect (d : Nat) (r : Rd) (base off limit : Nat) (hbo : base ≤ off) (hbl : base ≤ limit) :
    bxLen (step (d + 1)) (.sect r base off limit) = ok (.sect r base off limit, { n := ((limit - base : Nat) : Int) }) := by
  have h1 : step (d + 1) (.sect r base off limit) (.seek 0 .current)
      = ok (.sect r base off limit, { n := ((off - base : Nat) : Int) }) := by
    rw [step_sect_seek]; unfold sectSeek
    simp only [Int.zero_add]
    rw [if_neg (by omega)]
    congr 3
    omega
  have h2 : step (d + 1) (.sect r base off limit) (.seek 0 .end_)
      = ok (.sect r base limit limit, { n := ((limit - base : Nat) : Int) }) := by
    rw [step_sect_seek]; unfold sectSeek
    simp only [Int.zero_add]
    rw [if_neg (by omega)]
    congr 3
    omega
  have h3 : step (d + 1) (.sect r base limit limit) (.seek ((off - base : Nat) : Int) .start)
      = ok (.sect r base off limit, { n := ((off - base : Nat) : Int) }) := by
    rw [step_sect_seek]; unfold sectSeek
    simp only []
    rw [if_neg (by omega)]
    congr 3
    · omega
    · omega
  unfold bxLen
  rw [h1]
  simp only [ok_bind, Option.isSome_none, Bool.false_eq_true, if_false]
  rw [h2]
  simp only [ok_bind, Option.isSome_none, Bool.false_eq_true, if_false]
  rw [h3]
  simp only [ok_bind, Option.isSome_none, Bool.false_eq_true, if_false, pure_eq, Nat.or_self]

/-- MultiReader with readerEnds = cumulative lengths and pos ≤ end: state restored exactly -/
theorem bxLen_multi (d : Nat) (rs : List Rd) (pos : Nat) (hpos : pos ≤ (denList rs).length) :
    bxLen (step (d + 1)) (.multi rs (cumEnds rs 0) pos)
      = ok (.multi rs (cumEnds rs 0) pos, { n := ((denList rs).length : Int) }) := by
  have hs : ∀ (p : Nat) (o : Int) (w : Whence) (T : Nat),
      (match w with | .start => o | .current => (p : Int) + o | .end_ => ((denList rs).length : Int) + o) = (T : Int) →
      T ≤ (denList rs).length →
      step (d + 1) (.multi rs (cumEnds rs 0) p) (.seek o w) = ok (.multi rs (cumEnds rs 0) T, { n := (T : Int) }) := by
    intro p o w T hT hle
    rw [step_multi_seek]; unfold multiSeek
    rw [multiEnd_cum]
    cases w <;> (
      dsimp only at hT
      simp only [ok_bind]
      rw [hT, if_neg (by omega)]
      simp only [pure_eq, Int.toNat_natCast])
  unfold bxLen
  rw [hs pos 0 .current pos (by simp) hpos]
  simp only [ok_bind, Option.isSome_none, Bool.false_eq_true, if_false]
  rw [hs pos 0 .end_ (denList rs).length (by simp) (Nat.le_refl _)]
  simp only [ok_bind, Option.isSome_none, Bool.false_eq_true, if_false]
  rw [hs (denList rs).length (pos : Int) .start pos rfl hpos]
  simp only [ok_bind, Option.isSome_none, Bool.false_eq_true, if_false, pure_eq, Nat.or_self]

/-- ZeroReadAtSeeker -/
theorem bxLen_zero (d : Nat) (pos n : Nat) (hpos : pos ≤ n) :
    bxLen (step (d + 1)) (.zero pos n) = ok (.zero pos n, { n := (n : Int) }) := by
  have hs : ∀ (p : Nat) (o : Int) (w : Whence) (T : Nat),
      (match w with | .start => o | .current => (p : Int) + o | .end_ => (n : Int) + o) = (T : Int) →
      T ≤ n → step (d + 1) (.zero p n) (.seek o w) = ok (.zero T n, { n := (T : Int) }) := by
    intro p o w T hT hle
    rw [step_zero_seek]; unfold zeroSeek
    cases w <;> (
      dsimp only at hT ⊢
      rw [hT, if_neg (by omega)]
      simp only [Int.toNat_natCast])
  unfold bxLen
  rw [hs pos 0 .current pos (by simp) hpos]
  simp only [ok_bind, Option.isSome_none, Bool.false_eq_true, if_false]
  rw [hs pos 0 .end_ n (by simp) (Nat.le_refl _)]
  simp only [ok_bind, Option.isSome_none, Bool.false_eq_true, if_false]
  rw [hs n (pos : Int) .start pos rfl hpos]
  simp only [ok_bind, Option.isSome_none, Bool.false_eq_true, if_false, pure_eq, Nat.or_self]

theorem step_ioBits_seek (d : Nat) (b : Rd) (bitPos : Int) (buf : List UInt8) (o : Int) (w : Whence) :
    step (d + 1) (.ioBits b bitPos buf) (.seek o w) = ioBitsSeek (step d) b bitPos buf o w := by simp only [step]

theorem seekRes_nat (T : Nat) : seekRes (T : Int) = { n := (T : Int) } := by
  unfold seekRes; rw [if_neg (by omega)]

/-- IOBitReadSeeker.SeekBits(o, start), o ≥ 0, over a well-formed byte stack -/
theorem ioBits_seek_start (d : Nat) (data : List UInt8) (b : Rd) (p : Nat) (hb : ByteAt d data b p) (bitPos : Int)
    (buf : List UInt8) (o : Nat) :
    ∃ b', step (d + 1) (.ioBits b bitPos buf) (.seek (o : Int) .start) = ok (.ioBits b' (o : Int) buf, { n := (o : Int) }) ∧
      ByteAt d data b' (o / 8) := by
  obtain ⟨b', h1, h2⟩ := (byteOK_wf d data).2 b p ((o / 8 : Nat) : Int) .start hb
  have hT : seekTarget data.length p ((o / 8 : Nat) : Int) .start = ((o / 8 : Nat) : Int) := rfl
  rw [hT] at h1 h2
  rw [seekRes_nat] at h1
  rw [if_neg (by omega), Int.toNat_natCast] at h2
  refine ⟨b', ?_, h2⟩
  rw [step_ioBits_seek]; unfold ioBitsSeek
  simp only [reduceCtorEq, if_false, tdiv8, h1, ok_bind, Option.isSome_none, Bool.false_eq_true, pure_eq, tmod8]
  have : ((o / 8 : Nat) : Int) * 8 + ((o % 8 : Nat) : Int) = (o : Int) := by omega
  simp only [this, Nat.or_self]

/-- IOBitReadSeeker.SeekBits(0, end) -/
theorem ioBits_seek_end (d : Nat) (data : List UInt8) (b : Rd) (p : Nat) (hb : ByteAt d data b p) (bitPos : Int)
    (buf : List UInt8) :
    ∃ b', step (d + 1) (.ioBits b bitPos buf) (.seek 0 .end_)
        = ok (.ioBits b' ((8 * data.length : Nat) : Int) buf, { n := ((8 * data.length : Nat) : Int) }) ∧
      ByteAt d data b' data.length := by
  obtain ⟨b', h1, h2⟩ := (byteOK_wf d data).2 b p 0 .end_ hb
  have hT : seekTarget data.length p 0 .end_ = ((data.length : Nat) : Int) := by simp [seekTarget]
  rw [hT] at h1 h2
  rw [seekRes_nat] at h1
  rw [if_neg (by omega), Int.toNat_natCast] at h2
  refine ⟨b', ?_, h2⟩
  rw [step_ioBits_seek]; unfold ioBitsSeek
  have e0 : (0 : Int).tdiv 8 = 0 := by decide
  have e1 : (0 : Int).tmod 8 = 0 := by decide
  simp only [reduceCtorEq, if_false, e0, e1, h1, ok_bind, Option.isSome_none, Bool.false_eq_true, pure_eq]
  have : (data.length : Int) * 8 + 0 = ((8 * data.length : Nat) : Int) := by omega
  simp only [this, Nat.or_self]

/-- IOBitReadSeeker.SeekBits(0, current) = SeekBits(bitPos, start) (iobitreadseeker.go:79-84) -/
theorem ioBits_seek_cur (d : Nat) (b : Rd) (bitPos : Int) (buf : List UInt8) :
    step (d + 1) (.ioBits b bitPos buf) (.seek 0 .current) = step (d + 1) (.ioBits b bitPos buf) (.seek bitPos .start) := by
  rw [step_ioBits_seek, step_ioBits_seek]; unfold ioBitsSeek
  simp only [if_true, reduceCtorEq, if_false, Int.zero_add]

/-- IOBitReadSeeker over a well-formed byte stack (interp._open's reader): the bit cursor is restored, the
    underlying byte reader is left at byte bitPos/8 (its position is never relied upon: every ReadBitsAt seeks) -/
theorem bxLen_ioBits (d : Nat) (b : Rd) (bitPos : Nat) (buf : List UInt8) (hb : ByteWF d b) :
    ∃ b', bxLen (step (d + 1)) (.ioBits b (bitPos : Int) buf)
        = ok (.ioBits b' (bitPos : Int) buf, { n := ((8 * (denBy b).length : Nat) : Int) }) ∧
      ByteWF d b' ∧ denBy b' = denBy b := by
  obtain ⟨b1, h1, a1⟩ := ioBits_seek_start d (denBy b) b (bytePos b) ⟨hb, rfl, rfl⟩ (bitPos : Int) buf bitPos
  obtain ⟨b2, h2, a2⟩ := ioBits_seek_end d (denBy b) b1 _ a1 (bitPos : Int) buf
  obtain ⟨b3, h3, a3⟩ := ioBits_seek_start d (denBy b) b2 _ a2 ((8 * (denBy b).length : Nat) : Int) buf bitPos
  refine ⟨b3, ?_, a3.1, a3.2.1⟩
  unfold bxLen
  rw [ioBits_seek_cur, h1]
  simp only [ok_bind, Option.isSome_none, Bool.false_eq_true, if_false]
  rw [h2]
  simp only [ok_bind, Option.isSome_none, Bool.false_eq_true, if_false]
  rw [h3]
  simp only [ok_bind, Option.isSome_none, Bool.false_eq_true, if_false, pure_eq, Nat.or_self]

/-- bitiox.Len on every well-formed reader (SectionReader, MultiReader, ZeroReadAtSeeker, IOBitReadSeeker over a
    byte stack): the exact length, no error, same cursor, same bits, still well formed, same kind; the state of a
    section / multi / zero reader is restored exactly -/
theorem bxLen_spec (d : Nat) (r : Rd) (h : WFd d r) :
    ∃ r', bxLen (step d) r = ok (r', { n := ((den r).length : Int) }) ∧ posOf r' = posOf r ∧ den r' = den r ∧ WFd d r' ∧
      topSM r' = topSM r ∧ isReader r' = isReader r ∧ ((topSM r = true ∨ ∃ p n, r = .zero p n) → r' = r) := by
  cases d with
  | zero => cases r <;> simp [WFd] at h
  | succ d =>
    cases r with
    | sect r base off limit =>
      have hw := h
      simp only [WFd] at h
      obtain ⟨hr, hbo, hbl, hlim⟩ := h
      refine ⟨_, ?_, rfl, rfl, hw, rfl, rfl, fun _ => rfl⟩
      rw [bxLen_sect d r base off limit hbo hbl, den_length_sect r base off limit hbl hlim]
    | multi rs ends pos =>
      have hw := h
      simp only [WFd] at h
      obtain ⟨hall, hends, hpos⟩ := h
      subst hends
      refine ⟨_, ?_, rfl, rfl, hw, rfl, rfl, fun _ => rfl⟩
      rw [bxLen_multi d rs pos hpos, den_multi]
    | zero pos n =>
      have hw := h
      simp only [WFd] at h
      refine ⟨_, ?_, rfl, rfl, hw, rfl, rfl, fun _ => rfl⟩
      rw [bxLen_zero d pos n h, den_zero, List.length_replicate]
    | ioBits b bitPos buf =>
      simp only [WFd] at h
      obtain ⟨hp, hb⟩ := h
      obtain ⟨bp, rfl⟩ : ∃ k : Nat, bitPos = (k : Int) := ⟨bitPos.toNat, by omega⟩
      obtain ⟨b', e, w1, w2⟩ := bxLen_ioBits d b bp buf hb
      refine ⟨.ioBits b' (bp : Int) buf, ?_, rfl, ?_, ?_, rfl, rfl, ?_⟩
      · rw [e, den_ioBits, bytesToBits_length]
      · rw [den_ioBits, den_ioBits, w2]
      · simp only [WFd]; exact ⟨hp, w1⟩
      · intro hk
        rcases hk with hk | ⟨p, n, hk⟩
        · simp [topSM] at hk
        · cases hk
    | _ => simp [WFd] at h

/-! ### Range -/

/-- NewSectionReader(r, off, n) inside a well-formed reader -/
theorem newSect_wf (d : Nat) (r : Rd) (h : WFd d r) (off n : Nat) (hin : off + n ≤ (den r).length) :
    WFd (d + 1) (newSect r off n) ∧ den (newSect r off n) = slice (den r) off n ∧ posOf (newSect r off n) = 0 ∧
      topSM (newSect r off n) = true ∧ isReader (newSect r off n) = true := by
  refine ⟨?_, ?_, ?_, rfl, rfl⟩
  · simp only [newSect, WFd]; exact ⟨h, Nat.le_refl _, by omega, hin⟩
  · simp only [newSect, den_sect, Nat.add_sub_cancel_left]
  · simp [newSect, posOf]

/-- bitiox.Range on a well-formed reader, all three exits -/
theorem bxRange_spec (d : Nat) (r : Rd) (h : WFd d r) :
    ∃ r', posOf r' = posOf r ∧ den r' = den r ∧ WFd d r' ∧ topSM r' = topSM r ∧ isReader r' = isReader r ∧
      ((topSM r = true ∨ ∃ p n, r = .zero p n) → r' = r) ∧
      (∀ off n : Nat, off + n ≤ (den r).length →
        bxRange (step d) r (off : Int) (n : Int) = ok (r', .ok (newSect r' off n), 0)) ∧
      (∀ off n : Nat, (den r).length < off + n →
        bxRange (step d) r (off : Int) (n : Int) = ok (r', .outsideBuffer, 0)) ∧
      (∀ off n : Int, n < 0 → bxRange (step d) r off n = ok (r', .negativeNBits, 0)) ∧
      (∀ off n : Int, off < 0 → 0 ≤ n → off + n ≤ (den r).length →
        bxRange (step d) r off n = ok (r', .okNegBase off n.toNat, 0)) := by
  obtain ⟨r', e, h1, h2, h3, h4, h5, h6⟩ := bxLen_spec d r h
  refine ⟨r', h1, h2, h3, h4, h5, h6, ?_, ?_, ?_, ?_⟩
  · intro off n hin
    unfold bxRange
    rw [e]
    simp only [ok_bind]
    rw [if_neg (by omega), if_neg (by omega), if_neg (by omega), Int.toNat_natCast, Int.toNat_natCast]
  · intro off n hout
    unfold bxRange
    rw [e]
    simp only [ok_bind]
    rw [if_neg (by omega), if_pos (by omega)]
  · intro off n hn
    unfold bxRange
    rw [e]
    simp only [ok_bind]
    rw [if_pos hn]
  · intro off n ho hn hin
    unfold bxRange
    rw [e]
    simp only [ok_bind]
    rw [if_neg (by omega), if_neg (by omega), if_pos ho]

/-! ### CopyBits -/

/-- the copy loop over the byte view of a sequential bit reader: after j bytes were delivered, the remaining bytes of
    the packed bit string are appended, whatever the (positive) buffer sizes; one Read more than bytes left suffices -/
theorem ioCopyLoop_spec (d : Nat) (D : Bits) (I : Rd → Nat → Prop) (hsub : BitsAt (step d) D I) :
    ∀ (sizes : List Nat), (∀ n ∈ sizes, 0 < n) → ∀ (j : Nat) (s : Rd) (acc : List UInt8) (q : Nat), IOInv D I j s →
      bitsByteCount D.length - j < sizes.length →
      ∃ s' res, ioCopyLoop (step (d + 1)) sizes s acc q = ok (s', res) ∧
        res.bytes = acc ++ slice (packR D) j (bitsByteCount D.length - j) ∧ res.n = (res.bytes.length : Int) ∧
        res.err = none := by
  intro sizes
  induction sizes with
  | nil => intro _ j s acc q _ hl; simp at hl
  | cons n ns ih =>
    intro hpos j s acc q hinv hl
    have hn : 0 < n := hpos n (by simp)
    obtain ⟨s', res, h1, hok⟩ := ioRead_spec d D I hsub j n hn s hinv
    unfold ioCopyLoop
    rw [h1]
    simp only [ok_bind]
    rcases hok with ⟨hj, hb, he, _⟩ | ⟨k, hk1, hkn, hjk, hb, hinv', he⟩
    · rw [he]
      refine ⟨_, _, rfl, ?_, rfl, by simp⟩
      simp only [hb, hj, Nat.sub_self, slice_zero_len]
    · rcases he with he | ⟨he, hfin⟩
      · rw [he]
        simp only []
        obtain ⟨s2, res2, e2, b2, n2, r2⟩ := ih (fun m hm => hpos m (by simp [hm])) (j + k) s' (acc ++ res.bytes)
          (q ||| res.q) hinv' (by simp at hl; omega)
        refine ⟨s2, res2, e2, ?_, n2, r2⟩
        rw [b2, hb, List.append_assoc, ← slice_add]
        congr 2
        omega
      · rw [he]
        refine ⟨_, _, rfl, ?_, rfl, by simp⟩
        simp only [hb]
        congr 2
        omega

theorem ioInv_fresh (d : Nat) (r : Rd) (seekable : Bool) (hr : WFAt d (den r) r 0) :
    IOInv (den r) (WFAt d (den r)) 0 (.ioBytes r seekable none {} 0) := by
  refine ⟨⟨0, ⟨by simp, by simp⟩, hr, Nat.zero_le _, Nat.zero_le _, by simp, ?_, Or.inl rfl⟩, ?_⟩
  · simp [Buffer.content, slice_zero_len]
  · simp [Buffer.content, slice_zero_len]

theorem slice_packR_all (D : Bits) : slice (packR D) 0 (bitsByteCount D.length - 0) = packR D := by
  simp only [slice, List.drop_zero, Nat.sub_zero]
  exact List.take_of_length_le (by rw [packR_length]; exact Nat.le_refl _)

/-- any copy of the byte view of a fresh well-formed bit reader, for every sequence of positive Read sizes that is
    longer than the number of bytes -/
theorem copy_sizes_spec (d : Nat) (r : Rd) (hr : WFAt d (den r) r 0) (sizes : List Nat) (hpos : ∀ n ∈ sizes, 0 < n)
    (hl : bitsByteCount (den r).length < sizes.length) :
    ∃ s' res, ioCopyLoop (step (d + 1)) sizes (newIOReader r) [] 0 = ok (s', res) ∧
      res.bytes = bitsToBytesPadR (den r) ∧ res.n = ((bitsToBytesPadR (den r)).length : Int) ∧ res.err = none := by
  obtain ⟨s', res, e, b, n, er⟩ := ioCopyLoop_spec d (den r) _ (bitsAt_wf d (den r)) sizes hpos 0 _ [] 0
    (ioInv_fresh d r false hr) (by omega)
  rw [List.nil_append, slice_packR_all, packR_eq_bitsToBytesPadR] at b
  exact ⟨s', res, e, b, by rw [n, b], er⟩

end Proofs.C01
