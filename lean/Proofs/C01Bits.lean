import FqModel.Bits
/-! C01 — bit-string lemmas (core Lean only): slices, append, byte <-> bits, values. -/
namespace Proofs.C01
open FqModel

theorem slice_zero_len {α} (l : List α) (p : Nat) : slice l p 0 = [] := by simp [slice]

theorem slice_add {α} (l : List α) (p k1 k2 : Nat) :
    slice l p (k1 + k2) = slice l p k1 ++ slice l (p + k1) k2 := by
  simp only [slice]
  rw [List.take_add, List.drop_drop]

theorem ofBitsBE_nil : ofBitsBE [] = 0 := rfl

theorem foldl_bits_acc (bs : Bits) (acc : Nat) :
    bs.foldl (fun acc b => 2 * acc + (if b then 1 else 0)) acc
      = acc * 2 ^ bs.length + bs.foldl (fun acc b => 2 * acc + (if b then 1 else 0)) 0 := by
  induction bs generalizing acc with
  | nil => simp
  | cons b bs ih =>
    simp only [List.foldl_cons, List.length_cons]
    rw [ih (2 * acc + _), ih (2 * 0 + _)]
    rw [Nat.pow_succ]
    cases b <;> simp <;> grind

theorem ofBitsBE_append (a b : Bits) : ofBitsBE (a ++ b) = ofBitsBE a * 2 ^ b.length + ofBitsBE b := by
  simp only [ofBitsBE, List.foldl_append]
  exact foldl_bits_acc b _

theorem ofBitsBE_cons (x : Bool) (bs : Bits) :
    ofBitsBE (x :: bs) = (if x then 1 else 0) * 2 ^ bs.length + ofBitsBE bs := by
  have := ofBitsBE_append [x] bs
  simpa [ofBitsBE] using this

theorem ofBitsBE_toBitsBE (w n : Nat) : ofBitsBE (toBitsBE w n) = n % 2 ^ w := by
  induction w with
  | zero => simp [toBitsBE, ofBitsBE, Nat.mod_one]
  | succ w ih =>
    rw [toBitsBE, ofBitsBE_cons, ih, toBitsBE_length]
    have h2 : n % 2 ^ (w + 1) = (n / 2 ^ w % 2) * 2 ^ w + n % 2 ^ w := by
      rw [Nat.pow_succ, Nat.mod_mul, Nat.mul_comm]; omega
    rw [h2]
    rcases Nat.mod_two_eq_zero_or_one (n / 2 ^ w) with h | h <;> simp [h]

theorem ofBitsBE_byteToBits (b : UInt8) : ofBitsBE (byteToBits b) = b.toNat := by
  rw [byteToBits, ofBitsBE_toBitsBE]
  exact Nat.mod_eq_of_lt b.toNat_lt

theorem bytesToBits_nil : bytesToBits [] = [] := rfl

theorem bytesToBits_cons (b : UInt8) (bs : List UInt8) :
    bytesToBits (b :: bs) = byteToBits b ++ bytesToBits bs := by simp [bytesToBits]

theorem bytesToBits_append (a b : List UInt8) : bytesToBits (a ++ b) = bytesToBits a ++ bytesToBits b := by
  simp [bytesToBits]

theorem bytesToBits_drop (buf : List UInt8) (i : Nat) :
    bytesToBits (buf.drop i) = (bytesToBits buf).drop (8 * i) := by
  induction buf generalizing i with
  | nil => simp [bytesToBits_nil]
  | cons b bs ih =>
    cases i with
    | zero => simp
    | succ i =>
      rw [List.drop_succ_cons, ih, bytesToBits_cons, List.drop_append]
      have : (byteToBits b).length = 8 := byteToBits_length b
      have h1 : List.drop (8 * (i + 1)) (byteToBits b) = [] := by
        apply List.drop_eq_nil_of_le; omega
      rw [h1, this]; simp; congr 1

theorem bytesToBits_take (buf : List UInt8) (j : Nat) :
    bytesToBits (buf.take j) = (bytesToBits buf).take (8 * j) := by
  induction buf generalizing j with
  | nil => simp [bytesToBits_nil]
  | cons b bs ih =>
    cases j with
    | zero => simp [bytesToBits_nil]
    | succ j =>
      rw [List.take_succ_cons, bytesToBits_cons, bytesToBits_cons, ih, List.take_append]
      have : (byteToBits b).length = 8 := byteToBits_length b
      have h1 : List.take (8 * (j + 1)) (byteToBits b) = byteToBits b := by
        apply List.take_of_length_le; omega
      rw [h1, this]; congr 2

theorem slice_bytesToBits_bytes (buf : List UInt8) (i j : Nat) :
    slice (bytesToBits buf) (8 * i) (8 * j) = bytesToBits (slice buf i j) := by
  simp only [slice, bytesToBits_take, bytesToBits_drop]

/-- bits `[8i+lo, 8i+lo+k)` of a buffer lie inside byte i when lo + k ≤ 8 -/
theorem slice_bytesToBits_byte (buf : List UInt8) (i lo k : Nat) (hi : i < buf.length) (h : lo + k ≤ 8) :
    slice (bytesToBits buf) (8 * i + lo) k = slice (byteToBits buf[i]) lo k := by
  have hd : (bytesToBits buf).drop (8 * i) = byteToBits buf[i] ++ bytesToBits (buf.drop (i + 1)) := by
    rw [← bytesToBits_drop, List.drop_eq_getElem_cons hi, bytesToBits_cons]
  simp only [slice]
  rw [← List.drop_drop, hd, List.drop_append]
  have hl : (byteToBits buf[i]).length = 8 := byteToBits_length _
  rw [hl, show lo - 8 = 0 by omega, List.drop_zero, List.take_append]
  simp only [List.length_drop, hl]
  rw [show k - (8 - lo) = 0 by omega]; simp

/-- the value of `k` bits at offset `lo` inside a byte (finite: 256 × 8 × 9 cases) -/
theorem byte_slice_val : ∀ b : Fin 256, ∀ lo : Fin 8, ∀ k : Fin 9, lo.val + k.val ≤ 8 →
    ofBitsBE (slice (toBitsBE 8 b.val) lo.val k.val) = (b.val % 2 ^ (8 - lo.val)) / 2 ^ (8 - lo.val - k.val) := by
  decide +kernel

theorem byteToBits_slice_val (b : UInt8) (lo k : Nat) (h : lo + k ≤ 8) :
    ofBitsBE (slice (byteToBits b) lo k) = (b.toNat % 2 ^ (8 - lo)) / 2 ^ (8 - lo - k) := by
  by_cases hlo : lo < 8
  · exact byte_slice_val ⟨b.toNat, b.toNat_lt⟩ ⟨lo, hlo⟩ ⟨k, by omega⟩ h
  · have hlo8 : lo = 8 := by omega
    have hk : k = 0 := by omega
    subst hlo8 hk
    simp [slice, ofBitsBE, Nat.mod_one]

theorem div_pow_mod_two (n k w : Nat) (h : w < k) : n % 2 ^ k / 2 ^ w % 2 = n / 2 ^ w % 2 := by
  have hk : 2 ^ k = 2 ^ w * 2 ^ (k - w) := by rw [← Nat.pow_add]; congr 1; omega
  rw [hk, Nat.mod_mul_right_div_self]
  have h2 : 2 ∣ 2 ^ (k - w) := by
    have : k - w = (k - w - 1) + 1 := by omega
    rw [this, Nat.pow_succ]; exact Nat.dvd_mul_left 2 _
  exact Nat.mod_mod_of_dvd _ h2

/-- toBitsBE only looks at the low `w` bits -/
theorem toBitsBE_mod (w k n : Nat) (h : w ≤ k) : toBitsBE w (n % 2 ^ k) = toBitsBE w n := by
  induction w with
  | zero => rfl
  | succ w ih =>
    simp only [toBitsBE]
    rw [div_pow_mod_two n k w (by omega), ih (by omega)]

theorem toBitsBE_ofBitsBE (l : Bits) : toBitsBE l.length (ofBitsBE l) = l := by
  induction l with
  | nil => rfl
  | cons b t ih =>
    have hlt := ofBitsBE_lt t
    simp only [List.length_cons, toBitsBE, ofBitsBE_cons]
    have hdiv : ((if b then 1 else 0) * 2 ^ t.length + ofBitsBE t) / 2 ^ t.length = (if b then 1 else 0) := by
      rw [Nat.mul_comm, Nat.mul_add_div (Nat.two_pow_pos _), Nat.div_eq_of_lt hlt]; simp
    have hmod : ((if b then 1 else 0) * 2 ^ t.length + ofBitsBE t) % 2 ^ t.length = ofBitsBE t := by
      rw [Nat.mul_comm, Nat.mul_add_mod, Nat.mod_eq_of_lt hlt]
    rw [hdiv, ← toBitsBE_mod t.length t.length _ (Nat.le_refl _), hmod, ih]
    cases b <;> simp

theorem byteToBits_ofNat (v : Nat) : byteToBits (UInt8.ofNat v) = toBitsBE 8 v := by
  have : (UInt8.ofNat v).toNat = v % 2 ^ 8 := by simp
  rw [byteToBits, this, toBitsBE_mod 8 8 v (Nat.le_refl _)]

/-- splitting off the `k` high bits of a `w+k`-bit value -/
theorem toBitsBE_add (k w n : Nat) : toBitsBE (k + w) n = toBitsBE k (n / 2 ^ w) ++ toBitsBE w n := by
  induction k with
  | zero => simp [toBitsBE]
  | succ k ih =>
    rw [show k + 1 + w = (k + w) + 1 by omega]
    simp only [toBitsBE, List.cons_append]
    rw [ih, Nat.div_div_eq_div_mul, ← Nat.pow_add, Nat.add_comm w k]

theorem slice_take_left {α} (a b : List α) (p k : Nat) (h : p + k ≤ a.length) : slice (a ++ b) p k = slice a p k := by
  simp only [slice]
  rw [List.drop_append_of_le_length (by omega), List.take_append_of_le_length (by simp; omega)]

/-- the last partial byte written by IOBitReadSeeker.ReadBitsAt: `byte(v) << (8-rest)`, first `rest` bits -/
theorem tail_byte_bits : ∀ rest : Fin 8, ∀ v : Fin 256,
    (toBitsBE 8 (((v.val % 256) <<< (8 - rest.val)) % 256)).take rest.val = toBitsBE rest.val v.val := by
  decide +kernel

end Proofs.C01
