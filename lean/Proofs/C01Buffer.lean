import FqModel.Bitio
import FqModel.C01Readers
import Proofs.C01Write64
/-! C01 — copyBufBits and bitio.Buffer move bits unchanged; a trailing partial byte is zero filled. -/
set_option linter.unusedSimpArgs false
namespace Proofs.C01
open FqModel FqModel.Bitio Outcome

/-- the chunk loop of copyBufBits copies bits [srcStart+off, +l) of src to [dstStart+off, +l) of dst -/
theorem copyLoop_spec (src : List UInt8) (srcStart dstStart : Nat) : ∀ (fuel : Nat) (dst : List UInt8) (off l : Nat),
    l ≤ 64 * fuel → srcStart + off + l ≤ 8 * src.length → dstStart + off + l ≤ 8 * dst.length →
    ∃ dst', copyLoop src srcStart dstStart fuel dst off l = ok dst' ∧ dst'.length = dst.length ∧
      bytesToBits dst' = splice (bytesToBits dst) (dstStart + off) (slice (bytesToBits src) (srcStart + off) l) := by
  intro fuel
  induction fuel with
  | zero =>
    intro dst off l h _ _
    have : l = 0 := by omega
    subst this
    exact ⟨dst, by simp [copyLoop], rfl, by simp [slice_zero_len, splice_nil]⟩
  | succ fuel ih =>
    intro dst off l hf hs hd
    unfold copyLoop
    by_cases h0 : l = 0
    · subst h0; exact ⟨dst, by simp, rfl, by simp [slice_zero_len, splice_nil]⟩
    · simp only [h0, if_false]
      have hc : min l 64 ≤ 64 := Nat.min_le_right _ _
      have hcl : min l 64 ≤ l := Nat.min_le_left _ _
      rw [read64_spec' src (srcStart + off) (min l 64) (by omega) hc]
      simp only [ok_bind]
      have hsl : (slice (bytesToBits src) (srcStart + off) (min l 64)).length = min l 64 :=
        slice_length _ _ _ (by rw [bytesToBits_length]; omega)
      have hlt := ofBitsBE_lt (slice (bytesToBits src) (srcStart + off) (min l 64))
      rw [hsl] at hlt
      obtain ⟨d1, e1, l1, s1⟩ := write64_spec' _ (min l 64) dst (dstStart + off) (by omega) hc hlt
      rw [e1]
      simp only [ok_bind]
      obtain ⟨d2, e2, l2, s2⟩ := ih d1 (off + min l 64) (l - min l 64) (by omega) (by omega) (by omega)
      refine ⟨d2, e2, by omega, ?_⟩
      have htb := toBitsBE_ofBitsBE (slice (bytesToBits src) (srcStart + off) (min l 64))
      rw [hsl] at htb
      rw [s2, s1, htb]
      have hsp : List.take (dstStart + off) (bytesToBits dst) ++ slice (bytesToBits src) (srcStart + off) (min l 64) ++
          List.drop (dstStart + off + min l 64) (bytesToBits dst)
          = splice (bytesToBits dst) (dstStart + off) (slice (bytesToBits src) (srcStart + off) (min l 64)) := by
        simp only [splice, hsl]
      rw [hsp, show dstStart + (off + min l 64) = dstStart + off + (slice (bytesToBits src) (srcStart + off) (min l 64)).length by
            rw [hsl]; omega,
        splice_splice _ _ _ _ (by
          rw [hsl, slice_length _ _ _ (by rw [bytesToBits_length]; omega), bytesToBits_length]; omega)]
      congr 1
      have := slice_add (bytesToBits src) (srcStart + off) (min l 64) (l - min l 64)
      rw [show min l 64 + (l - min l 64) = l by omega] at this
      rw [this, show srcStart + (off + min l 64) = srcStart + off + min l 64 by omega]

/-- number of pad bits up to the next byte boundary -/
def padTo8 (e : Nat) : Nat := (8 - e % 8) % 8

/-- copyBufBits(dst, dstStart, src, srcStart, n, true): the n bits, then zero bits up to the byte boundary -/
theorem copyBufBits_spec (dst : List UInt8) (dstStart : Nat) (src : List UInt8) (srcStart n : Nat)
    (hs : srcStart + n ≤ 8 * src.length) (hd : dstStart + n ≤ 8 * dst.length) :
    ∃ dst', copyBufBits dst dstStart src srcStart n true = ok dst' ∧ dst'.length = dst.length ∧
      bytesToBits dst' = splice (bytesToBits dst) dstStart
        (slice (bytesToBits src) srcStart n ++ List.replicate (padTo8 (dstStart + n)) false) := by
  unfold copyBufBits
  obtain ⟨d1, e1, l1, s1⟩ := copyLoop_spec src srcStart dstStart (n / 64 + 2) dst 0 n (by omega) (by omega) (by omega)
  rw [e1]
  simp only [ok_bind, Nat.add_zero] at s1 ⊢
  have hsl : (slice (bytesToBits src) srcStart n).length = n := slice_length _ _ _ (by rw [bytesToBits_length]; omega)
  by_cases hz : (dstStart + n) % 8 ≠ 0
  · simp only [hz, ne_eq, not_false_eq_true, and_self, if_true, true_and]
    obtain ⟨d2, e2, l2, s2⟩ := write64_spec' 0 (8 - (dstStart + n) % 8) d1 (dstStart + n) (by omega) (by omega) (Nat.two_pow_pos _)
    refine ⟨d2, e2, by omega, ?_⟩
    have hz0 : toBitsBE (8 - (dstStart + n) % 8) 0 = List.replicate (8 - (dstStart + n) % 8) false := by
      generalize 8 - (dstStart + n) % 8 = k
      induction k with
      | zero => rfl
      | succ k ih => simp [toBitsBE, ih, List.replicate_succ]
    rw [s2, s1, hz0]
    have hsp : List.take (dstStart + n) (splice (bytesToBits dst) dstStart (slice (bytesToBits src) srcStart n)) ++
          List.replicate (8 - (dstStart + n) % 8) false ++
          List.drop (dstStart + n + (8 - (dstStart + n) % 8)) (splice (bytesToBits dst) dstStart (slice (bytesToBits src) srcStart n))
        = splice (splice (bytesToBits dst) dstStart (slice (bytesToBits src) srcStart n))
            (dstStart + (slice (bytesToBits src) srcStart n).length) (List.replicate (8 - (dstStart + n) % 8) false) := by
      simp only [splice, hsl, List.length_replicate]
    rw [hsp, splice_splice _ _ _ _ (by rw [hsl, List.length_replicate, bytesToBits_length]; omega)]
    congr 2
    unfold padTo8; congr 1; omega
  · have hz' : (dstStart + n) % 8 = 0 := by omega
    simp only [hz', ne_eq, not_true_eq_false, and_false, if_false, pure_eq]
    refine ⟨d1, rfl, l1, ?_⟩
    rw [s1]; unfold padTo8; simp [hz']

end Proofs.C01
