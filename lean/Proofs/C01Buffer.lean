import FqModel.Bitio
import FqModel.C01Readers
import FqModel.C01Spec
import Proofs.C01Write64
import Proofs.C01Ahead
/-! C01 — copyBufBits and bitio.Buffer move bits unchanged; a trailing partial byte is zero filled. -/
set_option linter.unusedSimpArgs false
namespace Proofs.C01
open FqModel FqModel.Bitio Outcome

/-- the chunk loop of copyBufBits copies bits [srcStart+off, +l) of src to [dstStart+off, +l) of dst -/
theorem copyLoop_spec (src : List UInt8) (srcStart dstStart : Nat) : ∀ (fuel : Nat) (dst : List UInt8) (off l : Nat),
    l ≤ 64 * fuel → srcStart + off + l ≤ 8 * src.length → dstStart + off + l ≤ 8 * dst.length →
    ∃ dst', copyLoop src srcStart dstStart fuel dst off l = ok dst' ∧ dst'.length = dst.length ∧
      bytesToBits dst' = splice (bytesToBits dst) (dstStart + off) (slice (bytesToBits src) (srcStart + off) l) := by
  intro fuel
  induction fuel with
  | zero =>
    intro dst off l h _ _
    have : l = 0 := by omega
    subst this
    exact ⟨dst, by simp [copyLoop], rfl, by simp [slice_zero_len, splice_nil]⟩
  | succ fuel ih =>
    intro dst off l hf hs hd
    unfold copyLoop
    by_cases h0 : l = 0
    · subst h0; exact ⟨dst, by simp, rfl, by simp [slice_zero_len, splice_nil]⟩
    · simp only [h0, if_false]
      have hc : min l 64 ≤ 64 := Nat.min_le_right _ _
      have hcl : min l 64 ≤ l := Nat.min_le_left _ _
      rw [read64_spec' src (srcStart + off) (min l 64) (by omega) hc]
      simp only [ok_bind]
      have hsl : (slice (bytesToBits src) (srcStart + off) (min l 64)).length = min l 64 :=
        slice_length _ _ _ (by rw [bytesToBits_length]; omega)
      have hlt := ofBitsBE_lt (slice (bytesToBits src) (srcStart + off) (min l 64))
      rw [hsl] at hlt
      obtain ⟨d1, e1, l1, s1⟩ := write64_spec' _ (min l 64) dst (dstStart + off) (by omega) hc hlt
      rw [e1]
      simp only [ok_bind]
      obtain ⟨d2, e2, l2, s2⟩ := ih d1 (off + min l 64) (l - min l 64) (by omega) (by omega) (by omega)
      refine ⟨d2, e2, by omega, ?_⟩
      have htb := toBitsBE_ofBitsBE (slice (bytesToBits src) (srcStart + off) (min l 64))
      rw [hsl] at htb
      rw [s2, s1, htb]
      have hsp : List.take (dstStart + off) (bytesToBits dst) ++ slice (bytesToBits src) (srcStart + off) (min l 64) ++
          List.drop (dstStart + off + min l 64) (bytesToBits dst)
          = splice (bytesToBits dst) (dstStart + off) (slice (bytesToBits src) (srcStart + off) (min l 64)) := by
        simp only [splice, hsl]
      rw [hsp, show dstStart + (off + min l 64) = dstStart + off + (slice (bytesToBits src) (srcStart + off) (min l 64)).length by
            rw [hsl]; omega,
        splice_splice _ _ _ _ (by
          rw [hsl, slice_length _ _ _ (by rw [bytesToBits_length]; omega), bytesToBits_length]; omega)]
      congr 1
      have := slice_add (bytesToBits src) (srcStart + off) (min l 64) (l - min l 64)
      rw [show min l 64 + (l - min l 64) = l by omega] at this
      rw [this, show srcStart + (off + min l 64) = srcStart + off + min l 64 by omega]

/-- number of pad bits up to the next byte boundary -/
def padTo8 (e : Nat) : Nat := (8 - e % 8) % 8

/-- copyBufBits(dst, dstStart, src, srcStart, n, true): the n bits, then zero bits up to the byte boundary -/
theorem copyBufBits_spec (dst : List UInt8) (dstStart : Nat) (src : List UInt8) (srcStart n : Nat)
    (hs : srcStart + n ≤ 8 * src.length) (hd : dstStart + n ≤ 8 * dst.length) :
    ∃ dst', copyBufBits dst dstStart src srcStart n true = ok dst' ∧ dst'.length = dst.length ∧
      bytesToBits dst' = splice (bytesToBits dst) dstStart
        (slice (bytesToBits src) srcStart n ++ List.replicate (padTo8 (dstStart + n)) false) := by
  unfold copyBufBits
  obtain ⟨d1, e1, l1, s1⟩ := copyLoop_spec src srcStart dstStart (n / 64 + 2) dst 0 n (by omega) (by omega) (by omega)
  rw [e1]
  simp only [ok_bind, Nat.add_zero] at s1 ⊢
  have hsl : (slice (bytesToBits src) srcStart n).length = n := slice_length _ _ _ (by rw [bytesToBits_length]; omega)
  by_cases hz : (dstStart + n) % 8 ≠ 0
  · simp only [hz, ne_eq, not_false_eq_true, and_self, if_true, true_and]
    obtain ⟨d2, e2, l2, s2⟩ := write64_spec' 0 (8 - (dstStart + n) % 8) d1 (dstStart + n) (by omega) (by omega) (Nat.two_pow_pos _)
    refine ⟨d2, e2, by omega, ?_⟩
    have hz0 : toBitsBE (8 - (dstStart + n) % 8) 0 = List.replicate (8 - (dstStart + n) % 8) false := by
      generalize 8 - (dstStart + n) % 8 = k
      induction k with
      | zero => rfl
      | succ k ih => simp [toBitsBE, ih, List.replicate_succ]
    rw [s2, s1, hz0]
    have hsp : List.take (dstStart + n) (splice (bytesToBits dst) dstStart (slice (bytesToBits src) srcStart n)) ++
          List.replicate (8 - (dstStart + n) % 8) false ++
          List.drop (dstStart + n + (8 - (dstStart + n) % 8)) (splice (bytesToBits dst) dstStart (slice (bytesToBits src) srcStart n))
        = splice (splice (bytesToBits dst) dstStart (slice (bytesToBits src) srcStart n))
            (dstStart + (slice (bytesToBits src) srcStart n).length) (List.replicate (8 - (dstStart + n) % 8) false) := by
      simp only [splice, hsl, List.length_replicate]
    rw [hsp, splice_splice _ _ _ _ (by rw [hsl, List.length_replicate, bytesToBits_length]; omega)]
    congr 2
    unfold padTo8; congr 1; omega
  · have hz' : (dstStart + n) % 8 = 0 := by omega
    simp only [hz', ne_eq, not_true_eq_false, and_false, if_false, pure_eq]
    refine ⟨d1, rfl, l1, ?_⟩
    rw [s1]; unfold padTo8; simp [hz']

/-! ### slices of a spliced bit string -/

theorem slice_splice_before (bits new : Bits) (off p k : Nat) (h : p + k ≤ off) (ho : off ≤ bits.length) :
    slice (splice bits off new) p k = slice bits p k := by
  simp only [splice, List.append_assoc]
  rw [slice_take_left _ _ _ _ (by simp; omega)]
  simp only [slice]
  rw [List.drop_take, List.take_take]; congr 1; omega

theorem slice_splice_at (bits A B : Bits) (off : Nat) (ho : off ≤ bits.length) :
    slice (splice bits off (A ++ B)) off A.length = A := by
  simp only [splice, slice]
  have hl : (List.take off bits).length = off := by simp; omega
  rw [List.append_assoc, List.drop_left' hl, List.append_assoc, List.take_left' rfl]

theorem bytesToBits_replicate_zero (k : Nat) : bytesToBits (List.replicate k 0) = List.replicate (8 * k) false := by
  induction k with
  | zero => rfl
  | succ k ih =>
    rw [List.replicate_succ, bytesToBits_cons, ih, show 8 * (k + 1) = 8 + 8 * k by omega, ← List.replicate_append_replicate]
    rfl

theorem bitsByteCount_bounds (x : Nat) : x ≤ 8 * bitsByteCount x ∧ 8 * bitsByteCount x < x + 8 := by
  unfold bitsByteCount; split <;> omega

/-- Buffer.WriteBits appends the first n bits of p to the unread bits -/
theorem buffer_writeBits_spec (b : Buffer) (p : List UInt8) (n : Nat) (hwf : b.WF) (hn : n ≤ 8 * p.length) :
    ∃ b', b.writeBits p n = ok b' ∧ b'.WF ∧ b'.content = b.content ++ slice (bytesToBits p) 0 n ∧
      b'.bitsOff = b.bitsOff := by
  unfold Buffer.writeBits
  obtain ⟨hw1, hw2⟩ := hwf
  have hbb := bitsByteCount_bounds (b.bufBits + n)
  simp only []
  generalize hB : (if bitsByteCount (b.bufBits + n) > b.buf.length then
      b.buf ++ List.replicate (bitsByteCount (b.bufBits + n) - b.buf.length) 0 else b.buf) = buf1
  have hB1 : ∃ Z, buf1 = b.buf ++ Z ∧ bitsByteCount (b.bufBits + n) ≤ buf1.length := by
    rw [← hB]; split
    · exact ⟨_, rfl, by simp; omega⟩
    · exact ⟨[], by simp, by omega⟩
  obtain ⟨Z, hZ, hlen1⟩ := hB1
  obtain ⟨d1, e1, l1, s1⟩ := copyBufBits_spec buf1 b.bufBits p 0 n (by omega) (by omega)
  rw [e1]
  simp only [ok_bind, pure_eq]
  have hpl : (slice (bytesToBits p) 0 n).length = n := slice_length _ _ _ (by rw [bytesToBits_length]; omega)
  have hb1 : b.bufBits ≤ (bytesToBits buf1).length := by rw [bytesToBits_length]; omega
  refine ⟨_, rfl, ⟨by simp only; omega, by simp only; omega⟩, ?_, rfl⟩
  simp only [Buffer.content]
  rw [show b.bufBits + n - b.bitsOff = (b.bufBits - b.bitsOff) + n by omega, slice_add, s1,
    slice_splice_before _ _ _ _ _ (by omega) hb1, show b.bitsOff + (b.bufBits - b.bitsOff) = b.bufBits by omega]
  congr 1
  · rw [hZ, bytesToBits_append, slice_take_left _ _ _ _ (by rw [bytesToBits_length]; omega)]
  · have := slice_splice_at (bytesToBits buf1) (slice (bytesToBits p) 0 n) (List.replicate (padTo8 (b.bufBits + n)) false)
      b.bufBits hb1
    rwa [hpl] at this

theorem content_length (b : Buffer) (hwf : b.WF) : b.content.length = b.bufBits - b.bitsOff := by
  unfold Buffer.content
  exact slice_length _ _ _ (by rw [bytesToBits_length]; have := hwf.1; have := hwf.2; omega)

theorem pad_total (c : Nat) : c + padTo8 c = 8 * bitsByteCount c := by
  unfold padTo8 bitsByteCount; split <;> omega

theorem take_slice {α} (l : List α) (p m c : Nat) (h : c ≤ m) : (slice l p m).take c = slice l p c := by
  simp only [slice]; rw [List.take_take]; congr 1; omega

theorem drop_slice {α} (l : List α) (p m c : Nat) : (slice l p m).drop c = slice l (p + c) (m - c) := by
  simp only [slice]; rw [List.drop_take, List.drop_drop]

/-- Buffer.ReadBits on a non-empty buffer: the first min(k, len) unread bits, zero padded to a byte -/
theorem buffer_readBits_spec (b : Buffer) (k : Nat) (hwf : b.WF) (hne : b.bitsOff < b.bufBits) :
    ∃ b' p, b.readBits k = ok (b', p, min k b.content.length, none) ∧ b'.WF ∧
      b'.content = b.content.drop (min k b.content.length) ∧ p.length = bitsByteCount (min k b.content.length) ∧
      bytesToBits p = b.content.take (min k b.content.length) ++ List.replicate (padTo8 (min k b.content.length)) false := by
  unfold Buffer.readBits
  have hcl := content_length b hwf
  obtain ⟨hw1, hw2⟩ := hwf
  simp only [show ¬ b.bufBits ≤ b.bitsOff by omega, if_false, Buffer.len]
  rw [← hcl]
  generalize hc : min k b.content.length = c
  have hcle : c ≤ b.content.length := by omega
  obtain ⟨p, e1, l1, s1⟩ := copyBufBits_spec (List.replicate (bitsByteCount c) 0) 0 b.buf b.bitsOff c (by omega)
    (by simp; have := bitsByteCount_bounds c; omega)
  rw [e1]
  simp only [ok_bind, pure_eq]
  refine ⟨_, p, rfl, ⟨by simp only; omega, by simp only; omega⟩, ?_, by simpa using l1, ?_⟩
  · simp only [Buffer.content]
    rw [drop_slice]; congr 1; omega
  · rw [s1, bytesToBits_replicate_zero, Nat.zero_add]
    have hsl : (slice (bytesToBits b.buf) b.bitsOff c).length = c :=
      slice_length _ _ _ (by rw [bytesToBits_length]; omega)
    have hnl : (slice (bytesToBits b.buf) b.bitsOff c ++ List.replicate (padTo8 c) false).length = 8 * bitsByteCount c := by
      rw [List.length_append, hsl, List.length_replicate, pad_total]
    simp only [splice, List.take_zero, List.nil_append, Nat.zero_add, hnl]
    rw [List.drop_eq_nil_of_le (by simp), List.append_nil]
    congr 1
    unfold Buffer.content
    rw [take_slice _ _ _ _ (by omega)]

/-! ### packing bits into bytes -/

theorem len_ge8 {α} (l : List α) (h : 8 ≤ l.length) :
    ∃ b0 b1 b2 b3 b4 b5 b6 b7 rest, l = b0 :: b1 :: b2 :: b3 :: b4 :: b5 :: b6 :: b7 :: rest := by
  match l, h with
  | b0 :: b1 :: b2 :: b3 :: b4 :: b5 :: b6 :: b7 :: rest, _ => exact ⟨b0, b1, b2, b3, b4, b5, b6, b7, rest, rfl⟩

theorem byteToBits_of_bits (l : Bits) (h : l.length = 8) : byteToBits (UInt8.ofNat (ofBitsBE l)) = l := by
  rw [byteToBits_ofNat]
  have := toBitsBE_ofBitsBE l
  rwa [h] at this

/-- packR pads with zero bits up to the byte boundary and otherwise reproduces the bits -/
theorem bytesToBits_packR (X : Bits) : bytesToBits (packR X) = X ++ List.replicate (padTo8 X.length) false := by
  fun_induction packR X with
  | case1 b0 b1 b2 b3 b4 b5 b6 b7 rest ih =>
    rw [bytesToBits_cons, ih, byteToBits_of_bits _ rfl]
    have : padTo8 (b0 :: b1 :: b2 :: b3 :: b4 :: b5 :: b6 :: b7 :: rest).length = padTo8 rest.length := by
      unfold padTo8; simp only [List.length_cons]; omega
    rw [this]; rfl
  | case2 => rfl
  | case3 bs h1 h2 =>
    have hlt : bs.length < 8 := by
      apply Nat.lt_of_not_le
      intro h
      obtain ⟨b0, b1, b2, b3, b4, b5, b6, b7, rest, hb⟩ := len_ge8 bs h
      exact h1 _ _ _ _ _ _ _ _ _ hb
    have hpos : 0 < bs.length := by
      cases bs with
      | nil => exact absurd rfl h2
      | cons _ _ => simp
    rw [bytesToBits_cons, bytesToBits_nil, List.append_nil, byteToBits_of_bits _ (by simp; omega)]
    congr 2
    unfold padTo8; omega

theorem packR_length (X : Bits) : (packR X).length = bitsByteCount X.length := by
  have := congrArg List.length (bytesToBits_packR X)
  rw [bytesToBits_length, List.length_append, List.length_replicate, pad_total] at this
  omega

theorem byteToBits_inj (a b : UInt8) (h : byteToBits a = byteToBits b) : a = b := by
  have ha := ofBitsBE_byteToBits a
  have hb := ofBitsBE_byteToBits b
  rw [h] at ha
  exact UInt8.toNat_inj.mp (by omega)

theorem bytesToBits_inj : ∀ (a b : List UInt8), bytesToBits a = bytesToBits b → a = b := by
  intro a
  induction a with
  | nil =>
    intro b h
    cases b with
    | nil => rfl
    | cons y ys =>
      have := congrArg List.length h
      simp [bytesToBits_nil, bytesToBits_cons, byteToBits_length] at this
      omega
  | cons x xs ih =>
    intro b h
    cases b with
    | nil =>
      have := congrArg List.length h
      simp [bytesToBits_nil, bytesToBits_cons, byteToBits_length] at this
    | cons y ys =>
      rw [bytesToBits_cons, bytesToBits_cons] at h
      have := List.append_inj h (by rw [byteToBits_length, byteToBits_length])
      rw [byteToBits_inj x y this.1, ih ys this.2]

/-- a byte string whose bits are X followed by the zero padding is packR X -/
theorem eq_packR (p : List UInt8) (X : Bits) (h : bytesToBits p = X ++ List.replicate (padTo8 X.length) false) :
    p = packR X := bytesToBits_inj _ _ (by rw [h, bytesToBits_packR])

end Proofs.C01
