import FqModel.C01Readers
import FqModel.C01Spec
import Proofs.C01Ahead
/-! C01 — every well-formed stack of ctxreadseeker / progressreadseeker / aheadreadseeker over a bytes.Reader or
    file behaves like a bytes.Reader over the same data (Read: 1..n bytes at the position or EOF at the end;
    Seek: bytes.Reader's result). -/
set_option linter.unusedSimpArgs false
namespace Proofs.C01
open FqModel FqModel.Bitio Outcome

theorem step_ctx (d : Nat) (b : Rd) (op : Op) : step (d + 1) (.ctx b) op = ctxStep (step d) b op := by
  simp only [step]

theorem step_progress (d : Nat) (b : Rd) (ps : Nat) (op : Op) :
    step (d + 1) (.progress b ps) op = progressStep (step d) b ps op := by
  simp only [step]

theorem byteAt_ahead_iff (d : Nat) (data : List UInt8) (m : Nat) (hm : 0 < m) (s : Rd) (pos : Nat) :
    AheadG (ByteAt d data) data m s pos → ByteAt (d + 1) data s pos := by
  rintro ⟨b, p, cache, co, rfl, ⟨hb1, hb2, hb3⟩, hinv⟩
  refine ⟨?_, ?_, rfl⟩
  · simp only [ByteWF]; exact ⟨hm, hb1, by rw [hb2, hb3]; exact hinv⟩
  · simp only [denBy]; exact hb2

/-- C01: the byte-side wrappers are transparent -/
theorem byteOK_wf : ∀ (d : Nat) (data : List UInt8), ByteOK (step d) data (ByteAt d data) := by
  intro d
  induction d with
  | zero =>
    intro data
    refine ⟨?_, ?_⟩
    · intro s pos n _ h; obtain ⟨h, _⟩ := h; cases s <;> simp [ByteWF] at h
    · intro s pos o w h; obtain ⟨h, _⟩ := h; cases s <;> simp [ByteWF] at h
  | succ d ih =>
    intro data
    have hih := ih data
    refine ⟨?_, ?_⟩
    · -- Read
      intro s pos n hn hs
      obtain ⟨hwf, hden, hpos⟩ := hs
      cases s with
      | raw dd p f =>
        simp only [denBy] at hden; simp only [bytePos] at hpos; subst hden hpos
        obtain ⟨s', r, h1, h2, h3⟩ := readsAt_raw d dd f _ p n hn rfl
        refine ⟨s', r, h1, h2, ?_⟩
        rcases h3 with ⟨a, b, c, e⟩ | ⟨a, k, b, c, e, f', g, i⟩
        · subst e; exact Or.inl ⟨a, b, c, ⟨by simp [ByteWF], rfl, rfl⟩⟩
        · subst i; exact Or.inr ⟨a, k, b, c, e, f', g, ⟨by simp [ByteWF], rfl, rfl⟩⟩
      | ctx b =>
        simp only [ByteWF] at hwf; simp only [denBy] at hden; simp only [bytePos] at hpos
        obtain ⟨b', r, h1, h2, h3⟩ := hih.1 b pos n hn ⟨hwf, hden, hpos⟩
        rw [step_ctx]
        simp only [ctxStep, h1, ok_bind]
        refine ⟨_, r, rfl, h2, ?_⟩
        rcases h3 with ⟨a, b1, c, ⟨e1, e2, e3⟩⟩ | ⟨a, k, b1, c, e, f', g, ⟨e1, e2, e3⟩⟩
        · exact Or.inl ⟨a, b1, c, ⟨by simpa [ByteWF] using e1, by simpa [denBy] using e2, by simpa [bytePos] using e3⟩⟩
        · exact Or.inr ⟨a, k, b1, c, e, f', g, ⟨by simpa [ByteWF] using e1, by simpa [denBy] using e2, by simpa [bytePos] using e3⟩⟩
      | progress b ps =>
        simp only [ByteWF] at hwf; simp only [denBy] at hden; simp only [bytePos] at hpos
        obtain ⟨hps, hwf⟩ := hwf
        obtain ⟨b', r, h1, h2, h3⟩ := hih.1 b pos n hn ⟨hwf, hden, hpos⟩
        rw [step_progress]
        simp only [progressStep, h1, ok_bind, show ¬ ps = 0 by omega, if_false]
        refine ⟨_, r, rfl, h2, ?_⟩
        rcases h3 with ⟨a, b1, c, ⟨e1, e2, e3⟩⟩ | ⟨a, k, b1, c, e, f', g, ⟨e1, e2, e3⟩⟩
        · exact Or.inl ⟨a, b1, c, ⟨by simp only [ByteWF]; exact ⟨hps, e1⟩, by simpa [denBy] using e2, by simpa [bytePos] using e3⟩⟩
        · exact Or.inr ⟨a, k, b1, c, e, f', g, ⟨by simp only [ByteWF]; exact ⟨hps, e1⟩, by simpa [denBy] using e2, by simpa [bytePos] using e3⟩⟩
      | ahead b m off cache co =>
        simp only [ByteWF] at hwf; simp only [denBy] at hden; simp only [bytePos] at hpos
        obtain ⟨hm, hwfb, hinv⟩ := hwf
        subst hpos
        have hG : AheadG (ByteAt d data) data m (.ahead b m off cache co) off :=
          ⟨b, bytePos b, cache, co, rfl, ⟨hwfb, hden, rfl⟩, by rw [← hden]; exact hinv⟩
        obtain ⟨s', r, h1, h2, h3⟩ := (byteOK_ahead d data _ hih m hm).1 _ off n hn hG
        refine ⟨s', r, h1, h2, ?_⟩
        rcases h3 with ⟨a, b1, c, e⟩ | ⟨a, k, b1, c, e, f', g, i⟩
        · exact Or.inl ⟨a, b1, c, byteAt_ahead_iff d data m hm _ _ e⟩
        · exact Or.inr ⟨a, k, b1, c, e, f', g, byteAt_ahead_iff d data m hm _ _ i⟩
      | _ => simp [ByteWF] at hwf
    · -- Seek
      intro s pos o w hs
      obtain ⟨hwf, hden, hpos⟩ := hs
      cases s with
      | raw dd p f =>
        simp only [denBy] at hden; simp only [bytePos] at hpos; subst hden hpos
        rw [step_raw, raw_seek]
        exact ⟨_, rfl, ⟨by simp [ByteWF], rfl, rfl⟩⟩
      | ctx b =>
        simp only [ByteWF] at hwf; simp only [denBy] at hden; simp only [bytePos] at hpos
        obtain ⟨b', h1, ⟨e1, e2, e3⟩⟩ := hih.2 b pos o w ⟨hwf, hden, hpos⟩
        rw [step_ctx]
        simp only [ctxStep, h1, ok_bind]
        exact ⟨_, rfl, ⟨by simpa [ByteWF] using e1, by simpa [denBy] using e2, by simpa [bytePos] using e3⟩⟩
      | progress b ps =>
        simp only [ByteWF] at hwf; simp only [denBy] at hden; simp only [bytePos] at hpos
        obtain ⟨hps, hwf⟩ := hwf
        obtain ⟨b', h1, ⟨e1, e2, e3⟩⟩ := hih.2 b pos o w ⟨hwf, hden, hpos⟩
        rw [step_progress]
        simp only [progressStep, h1, ok_bind]
        exact ⟨_, rfl, ⟨by simp only [ByteWF]; exact ⟨hps, e1⟩, by simpa [denBy] using e2, by simpa [bytePos] using e3⟩⟩
      | ahead b m off cache co =>
        simp only [ByteWF] at hwf; simp only [denBy] at hden; simp only [bytePos] at hpos
        obtain ⟨hm, hwfb, hinv⟩ := hwf
        subst hpos
        have hG : AheadG (ByteAt d data) data m (.ahead b m off cache co) off :=
          ⟨b, bytePos b, cache, co, rfl, ⟨hwfb, hden, rfl⟩, by rw [← hden]; exact hinv⟩
        obtain ⟨s', h1, h2⟩ := (byteOK_ahead d data _ hih m hm).2 _ off o w hG
        exact ⟨s', h1, byteAt_ahead_iff d data m hm _ _ h2⟩
      | _ => simp [ByteWF] at hwf

end Proofs.C01
