import FqModel.C01Readers
import FqModel.C01Spec
import Proofs.C01Open
/-! C01 — clones of an IOBitReadSeeker (same io.ReadSeeker, separate bit position and scratch buffer) are
    independent cursors, for every interleaving. -/
set_option linter.unusedSimpArgs false
namespace Proofs.C01
open FqModel FqModel.Bitio Outcome

theorem fault_bind {α β} (w : String) (f : α → Outcome β) : (fault w >>= f) = fault w := rfl
theorem hang_bind {α β} (f : α → Outcome β) : ((hang : Outcome α) >>= f) = hang := rfl
theorem unsupported_bind {α β} (w : String) (f : α → Outcome β) : (unsupported w >>= f) = unsupported w := rfl

theorem toOp_clone_iff (op : HOp) : (op.toOp = Op.clone) ↔ (op = HOp.clone) := by
  cases op <;> simp [HOp.toOp]

theorem mapIdx_adopt (b b' : Rd) (sts : List (Int × List UInt8)) (k : Nat) (st' : Int × List UInt8) (hk : k < sts.length) :
    (((sts.map (fun st => Rd.ioBits b st.1 st.2)).set k (.ioBits b' st'.1 st'.2)).mapIdx
        (fun j c => if j = k then c else adopt (.ioBits b' st'.1 st'.2) c))
      = (sts.set k st').map (fun st => Rd.ioBits b' st.1 st.2) := by
  apply List.ext_getElem
  · simp
  · intro j h1 h2
    simp only [List.getElem_mapIdx, List.getElem_set, List.getElem_map]
    by_cases hj : k = j
    · subst hj; simp
    · have hj' : ¬ j = k := fun h => hj h.symm
      simp [hj, hj', adopt]

/-- every interleaving of operations on an IOBitReadSeeker and its clones over ANY well-formed byte stack -/
theorem clone_independent' (d : Nat) (data : List UInt8) : ∀ (ops : List (Nat × HOp)) (sts : List (Int × List UInt8))
    (b : Rd) (pos : Nat), ByteAt d data b pos →
    famRun (d + 1) (sts.map (fun st => Rd.ioBits b st.1 st.2)) ops = famSpec data sts ops := by
  intro ops
  induction ops with
  | nil => intro _ _ _ _; rfl
  | cons x ops ih =>
    intro sts b pos hb
    obtain ⟨k, op⟩ := x
    simp only [famRun, famSpec, famStep, List.getElem?_map]
    cases hk : sts[k]? with
    | none => simp
    | some st =>
      have hklt : k < sts.length := by
        rcases Nat.lt_or_ge k sts.length with h | h
        · exact h
        · rw [List.getElem?_eq_none h] at hk; cases hk
      obtain ⟨b', p', hb', hstep⟩ := ioBits_step_spec d data _ (byteOK_wf d data) b pos hb st.1 st.2 op
      simp only [Option.map_some, hstep]
      cases hs : bitsSpecStep data (st.1, st.2) op with
      | ok y =>
        obtain ⟨st', res⟩ := y
        have hs' : bitsSpecStep data st op = ok (st', res) := hs
        simp only [Outcome.bind, ok_bind, hs', toOp_clone_iff]
        by_cases hc : op = HOp.clone
        · subst hc
          simp only [if_true]
          -- clone: the source is untouched, a fresh cursor is added
          have hb0 : b' = b ∧ st' = (0, []) := by
            simp only [bitsSpecStep] at hs
            injection hs with hs; injection hs with h1 h2
            have := hstep
            simp only [HOp.toOp, step_ioBits_clone, bitsSpecStep, Outcome.bind] at this
            injection this with this; injection this with this _
            injection this with t1 _ _
            exact ⟨t1.symm, h1.symm⟩
          obtain ⟨e1, e2⟩ := hb0
          rw [e1, e2]
          have := ih (sts ++ [(0, [])]) b pos hb
          simp only [List.map_append, List.map_cons, List.map_nil] at this
          rw [this]
        · simp only [hc, if_false]
          rw [mapIdx_adopt b b' sts k st' hklt]
          rw [ih (sts.set k st') b' p' hb']
      | fault w =>
        have hs' : bitsSpecStep data st op = fault w := hs
        simp [Outcome.bind, hs', fault_bind]
      | hang =>
        have hs' : bitsSpecStep data st op = hang := hs
        simp [Outcome.bind, hs', hang_bind]
      | unsupported w =>
        have hs' : bitsSpecStep data st op = unsupported w := hs
        simp [Outcome.bind, hs', unsupported_bind]

end Proofs.C01
