import FqModel.C01Readers
import FqModel.C01Spec
import Proofs.C01ReadAt
/-! C01 — any history of reads, seeks and clones on a well-formed section / multi reader is a cursor over `den`. -/
set_option linter.unusedSimpArgs false
namespace Proofs.C01
open FqModel FqModel.Bitio Outcome

/-- the state invariant along a history -/
def Good (d : Nat) (D : Bits) (s : Rd) : Prop := WFd d s ∧ den s = D ∧ topSM s = true

theorem good_isReader (d : Nat) (D : Bits) (s : Rd) (h : Good d D s) : isReader s = true := by
  obtain ⟨_, _, h3⟩ := h
  cases s <;> simp [topSM, isReader] at h3 ⊢

theorem step_sect_seek (d : Nat) (r : Rd) (base off limit : Nat) (o : Int) (w : Whence) :
    step (d + 1) (.sect r base off limit) (.seek o w) = sectSeek r base off limit o w := by simp only [step]

theorem step_sect_clone (d : Nat) (r : Rd) (base off limit : Nat) :
    step (d + 1) (.sect r base off limit) .clone = ok (.sect r base base limit, {}) := by simp only [step]

theorem step_multi_seek (d : Nat) (rs : List Rd) (ends : List Nat) (pos : Nat) (o : Int) (w : Whence) :
    step (d + 1) (.multi rs ends pos) (.seek o w) = multiSeek rs ends pos o w := by simp only [step]

theorem step_multi_clone (d : Nat) (rs : List Rd) (ends : List Nat) (pos : Nat) :
    step (d + 1) (.multi rs ends pos) .clone = ok (.multi rs ends 0, {}) := by simp only [step]

theorem bind_ok_inv {α β} (x : Outcome α) (f : α → Outcome β) (y : β) (h : (x >>= f) = ok y) :
    ∃ a, x = ok a ∧ f a = ok y := by
  cases x with
  | ok a => exact ⟨a, rfl, h⟩
  | fault w => cases h
  | hang => cases h
  | unsupported w => cases h

/-- ReadBitsAt does not move the reader's own position and keeps the top reader's type -/
theorem readAt_shape (d : Nat) (s s' : Rd) (res : Res) (n : Nat) (o : Int) (ht : topSM s = true)
    (h : step d s (.readAt n o) = ok (s', res)) : topSM s' = true ∧ posOf s' = posOf s := by
  cases d with
  | zero => simp [step] at h
  | succ d =>
    cases s with
    | sect r base off limit =>
      rw [step_sect_readAt] at h
      obtain ⟨a, _, ha⟩ := bind_ok_inv _ _ _ h
      injection ha with ha; injection ha with h1 _; subst h1
      exact ⟨rfl, rfl⟩
    | multi rs ends pos =>
      rw [step_multi_readAt] at h
      obtain ⟨a, _, ha⟩ := bind_ok_inv _ _ _ h
      injection ha with ha; injection ha with h1 _; subst h1
      exact ⟨rfl, rfl⟩
    | _ => simp [topSM] at ht

theorem read_shape (d : Nat) (s s' : Rd) (res : Res) (n : Nat) (ht : topSM s = true)
    (h : step d s (.read n) = ok (s', res)) : topSM s' = true := by
  cases d with
  | zero => simp [step] at h
  | succ d =>
    cases s with
    | sect r base off limit =>
      rw [step_sect_read] at h
      obtain ⟨a, _, ha⟩ := bind_ok_inv _ _ _ h
      injection ha with ha; injection ha with h1 _; subst h1
      rfl
    | multi rs ends pos =>
      rw [step_multi_read] at h
      obtain ⟨a, _, ha⟩ := bind_ok_inv _ _ _ h
      injection ha with ha; injection ha with h1 _; subst h1
      rfl
    | _ => simp [topSM] at ht

theorem den_length_sect (r : Rd) (base off limit : Nat) (hbl : base ≤ limit) (hlim : limit ≤ (den r).length) :
    (den (.sect r base off limit)).length = limit - base := by
  rw [den_sect]; exact slice_length _ _ _ (by omega)

/-- SeekBits and clone of SectionReader / MultiReader -/
theorem good_seek_clone (d : Nat) (D : Bits) (s : Rd) (h : Good d D s) :
    (∀ o w, ∃ s' res, step d s (.seek o w) = ok (s', res) ∧ Good d D s' ∧
        CursorStep D (posOf s) (.seek o w) res (posOf s')) ∧
    (∃ s' res, step d s .clone = ok (s', res) ∧ Good d D s' ∧ CursorStep D (posOf s) .clone res (posOf s')) := by
  obtain ⟨hwf, hden, htop⟩ := h
  cases d with
  | zero => cases s <;> simp [WFd] at hwf
  | succ d =>
    cases s with
    | sect r base off limit =>
      have hwf' := hwf
      simp only [WFd] at hwf
      obtain ⟨hr, hbo, hbl, hlim⟩ := hwf
      have hlen : D.length = limit - base := by rw [← hden]; exact den_length_sect r base off limit hbl hlim
      refine ⟨?_, ?_⟩
      · intro o w
        rw [step_sect_seek]
        unfold sectSeek
        cases w <;> dsimp only [seekTargetBits] <;> (
          split
          · rename_i hneg
            exact ⟨_, _, rfl, ⟨hwf', hden, rfl⟩, Or.inr ⟨rfl, rfl, Or.inl (by simp only [posOf, hlen, seekTargetBits]; omega)⟩⟩
          · rename_i hneg
            refine ⟨_, _, rfl, ⟨?_, ?_, rfl⟩, Or.inl ⟨rfl, by simp only [posOf, hlen, seekTargetBits]; omega, by simp only [posOf, hlen, seekTargetBits]; omega, ?_⟩⟩
            · simp only [WFd]; exact ⟨hr, by omega, hbl, hlim⟩
            · rw [← hden, den_sect, den_sect]
            · simp only [posOf, hlen, seekTargetBits]; omega)
      · rw [step_sect_clone]
        refine ⟨_, _, rfl, ⟨?_, ?_, rfl⟩, rfl, ?_⟩
        · simp only [WFd]; exact ⟨hr, Nat.le_refl _, hbl, hlim⟩
        · rw [← hden, den_sect, den_sect]
        · simp [posOf]
    | multi rs ends pos =>
      have hwf' := hwf
      simp only [WFd] at hwf
      obtain ⟨hall, hends, hpos⟩ := hwf
      have hlen : D.length = (denList rs).length := by rw [← hden, den_multi]
      refine ⟨?_, ?_⟩
      · intro o w
        rw [step_multi_seek]
        unfold multiSeek
        rw [hends, multiEnd_cum]
        simp only [ok_bind]
        cases w <;> dsimp only [seekTargetBits] <;> (
          split
          · rename_i hrej
            refine ⟨_, _, rfl, ⟨by rw [← hends]; exact hwf', by rw [← hends]; exact hden, rfl⟩, Or.inr ⟨rfl, rfl, ?_⟩⟩
            simp only [posOf, hlen, seekTargetBits]
            rcases hrej with h | h
            · exact Or.inl h
            · exact Or.inr (by omega)
          · rename_i hrej
            refine ⟨_, _, rfl, ⟨?_, ?_, rfl⟩, Or.inl ⟨rfl, by simp only [posOf, hlen, seekTargetBits], by simp only [posOf, hlen, seekTargetBits]; omega, ?_⟩⟩
            · simp only [WFd]; exact ⟨hall, trivial, by omega⟩
            · rw [← hden, den_multi, den_multi]
            · simp only [posOf, hlen, seekTargetBits]; omega)
      · rw [step_multi_clone]
        refine ⟨_, _, rfl, ⟨?_, ?_, rfl⟩, rfl, ?_⟩
        · simp only [WFd]; exact ⟨hall, hends, Nat.zero_le _⟩
        · rw [← hden, den_multi, den_multi]
        · simp [posOf]
    | _ => simp [topSM] at htop

/-- one operation keeps the invariant and is allowed by the cursor -/
theorem good_step (d : Nat) (D : Bits) (s : Rd) (h : Good d D s) (op : HOp) :
    ∃ s' res, step d s op.toOp = ok (s', res) ∧ Good d D s' ∧ CursorStep D (posOf s) op res (posOf s') := by
  have hrd := good_isReader d D s h
  have h' := h
  obtain ⟨hwf, hden, htop⟩ := h
  cases op with
  | readAt n off =>
    obtain ⟨s', res, h1, h2, h3, h4⟩ := readAt_sound' d s hwf n off
    obtain ⟨t1, t2⟩ := readAt_shape d s s' res n off htop h1
    exact ⟨s', res, h1, ⟨h3, by rw [h4, hden], t1⟩, by rw [← hden]; exact h2, t2⟩
  | read n =>
    obtain ⟨s', res, h1, h2, h3, h4, h5, h6⟩ := read_sound' d s hwf hrd n
    have t1 := read_shape d s s' res n htop h1
    exact ⟨s', res, h1, ⟨h3, by rw [h4, hden], t1⟩, by rw [← hden]; exact h2, h6⟩
  | seek o w => exact (good_seek_clone d D s h').1 o w
  | clone => exact (good_seek_clone d D s h').2

/-- C01 (stretch): any history of ReadBitsAt / ReadBits / SeekBits(start|current|end) / clone operations on a
    well-formed SectionReader or MultiReader is a cursor over the denoted bit string -/
theorem history_refines' (d : Nat) (D : Bits) : ∀ (ops : List HOp) (s : Rd), Good d D s →
    HistOK D (posOf s) (runH d s ops) := by
  intro ops
  induction ops with
  | nil => intro s _; simp [runH, HistOK]
  | cons op ops ih =>
    intro s h
    obtain ⟨s', res, h1, h2, h3⟩ := good_step d D s h op
    simp only [runH, h1, HistOK]
    exact ⟨posOf s', h3, ih s' h2⟩

end Proofs.C01
