import FqModel.C01Readers
import FqModel.C01Spec
import Proofs.C01Buffer
import Proofs.C01ReadAt
/-! C01 — IOReader: the byte view of a bit reader is the bit string packed into bytes, the last partial
    byte zero padded, for every chunking of the reads. -/
set_option linter.unusedSimpArgs false
namespace Proofs.C01
open FqModel FqModel.Bitio Outcome

theorem slice_packR_bits (X : Bits) (k : Nat) (h : k = X.length) : slice (bytesToBits (packR X)) 0 k = X := by
  subst h
  rw [bytesToBits_packR]
  simp [slice]

/-- ioreader.go:29-38 -/
theorem ioFill_spec (sub : Sub) (D : Bits) (I : Rd → Nat → Prop) (hsub : BitsAt sub D I) (j n : Nat) (hn : 0 < n)
    (r : Rd) (rErr : Option Err) (buf : Buffer) (q : Nat) (h : IOCore D I j r rErr buf) :
    ∃ r' rErr' buf', ioFill sub n r rErr buf q = ok (r', rErr', buf', q) ∧ IOCore D I j r' rErr' buf' ∧
      buf.content.length ≤ buf'.content.length ∧ buf'.content.length ≤ buf.content.length + n * 8 ∧
      (rErr' = none → buf.content.length < buf'.content.length) := by
  obtain ⟨pos, hwf, hI, hpos, hj, hap, hc, herr⟩ := h
  unfold ioFill
  by_cases he : rErr = none
  · simp only [he, if_true]
    obtain ⟨r', res, h1, hq, hb, hle, hin, hI', hcase⟩ := hsub r pos (n * 8) (by omega) hI hpos
    rw [h1]
    simp only [ok_bind]
    have hpl : res.bits.length ≤ 8 * (packR res.bits).length := by
      rw [packR_length]; exact (bitsByteCount_bounds _).1
    obtain ⟨b', e1, wf', c', _⟩ := buffer_writeBits_spec buf (packR res.bits) res.bits.length hwf hpl
    rw [e1]
    simp only [ok_bind, pure_eq, hq, Nat.or_zero]
    have hcl : buf.content.length = pos - min (8 * j) D.length := by
      rw [hc]; exact slice_length _ _ _ (by omega)
    have hc2 : b'.content = slice D (min (8 * j) D.length) (pos + res.bits.length - min (8 * j) D.length) := by
      rw [c', slice_packR_bits _ _ rfl, hc]
      rw [show pos + res.bits.length - min (8 * j) D.length = (pos - min (8 * j) D.length) + res.bits.length by omega,
        slice_add, show min (8 * j) D.length + (pos - min (8 * j) D.length) = pos by omega]
      congr 1
    have hcl' : b'.content.length = pos + res.bits.length - min (8 * j) D.length := by
      rw [hc2]; exact slice_length _ _ _ (by omega)
    refine ⟨r', res.err, b', rfl, ⟨pos + res.bits.length, wf', hI', hin, hj, by omega, hc2, ?_⟩, by omega, by omega, ?_⟩
    · rcases hcase with ⟨h1, _⟩ | ⟨h1, h2⟩
      · exact Or.inl h1
      · exact Or.inr ⟨h1, h2⟩
    · intro hnone
      rcases hcase with ⟨_, h2⟩ | ⟨h1, _⟩
      · have : 0 < res.bits.length := List.length_pos_iff.mpr h2
        omega
      · rw [h1] at hnone; cases hnone
  · simp only [he, if_false, pure_eq]
    refine ⟨r, rErr, buf, rfl, ⟨pos, hwf, hI, hpos, hj, hap, hc, herr⟩, Nat.le_refl _, by omega, ?_⟩
    intro h; exact absurd h he

theorem bytesToBits_slice (l : List UInt8) (j k : Nat) :
    bytesToBits (slice l j k) = slice (bytesToBits l) (8 * j) (8 * k) := (slice_bytesToBits_bytes l j k).symm

/-- k whole bytes inside D -/
theorem out_whole (D : Bits) (j k : Nat) (out : List UInt8) (h : 8 * j + 8 * k ≤ D.length)
    (hb : bytesToBits out = slice D (8 * j) (8 * k)) : out = slice (packR D) j k := by
  apply bytesToBits_inj
  rw [hb, bytesToBits_slice, bytesToBits_packR, slice_take_left _ _ _ _ h]

/-- the last, partial byte of D, zero padded -/
theorem out_last (D : Bits) (j L : Nat) (out : List UInt8) (hD : D.length = 8 * j + L) (h0 : 0 < L) (h8 : L < 8)
    (hb : bytesToBits out = slice D (8 * j) L ++ List.replicate (padTo8 L) false) : out = slice (packR D) j 1 := by
  apply bytesToBits_inj
  rw [hb, bytesToBits_slice, bytesToBits_packR]
  have hp : padTo8 D.length = padTo8 L := by unfold padTo8; rw [hD]; congr 2; omega
  have hpl : padTo8 L = 8 - L := by unfold padTo8; omega
  simp only [slice, hp]
  rw [List.drop_append_of_le_length (by omega), List.take_of_length_le (by simp; omega),
    List.take_of_length_le (by simp; omega)]

theorem buffer_len (b : Buffer) (hwf : b.WF) : b.len = b.content.length := by
  rw [content_length b hwf]; rfl

/-- ioreader.go:40-70 -/
theorem ioDrain_spec (D : Bits) (I : Rd → Nat → Prop) (j n : Nat) (hn : 0 < n) (seekable : Bool) (sPos : Int)
    (r : Rd) (rErr : Option Err) (buf : Buffer) (q : Nat) (h : IOCore D I j r rErr buf) :
    (8 ≤ buf.content.length → ∃ buf' k, 1 ≤ k ∧ k ≤ n ∧ 8 * k ≤ buf.content.length ∧
        (buf.content.length - 8 * k < 8 ∨ k = n) ∧
        ioDrain seekable sPos n r rErr buf q = ok (some (.ioBytes r seekable rErr buf' (sPos + (k : Int)),
          { n := k, bytes := slice (packR D) j k, err := none, q := q })) ∧
        IOCore D I (j + k) r rErr buf' ∧ buf'.content.length = buf.content.length - 8 * k) ∧
    (buf.content.length < 8 → rErr = some .eof → 0 < buf.content.length → ∃ buf',
        ioDrain seekable sPos n r rErr buf q = ok (some (.ioBytes r seekable rErr buf' (sPos + 1),
          { n := 1, bytes := slice (packR D) j 1, err := some .eof, q := q })) ∧
        IOCore D I (j + 1) r rErr buf' ∧ buf'.content.length = 0 ∧ j + 1 = bitsByteCount D.length) ∧
    (buf.content.length = 0 → rErr = some .eof →
        ioDrain seekable sPos n r rErr buf q = ok (some (.ioBytes r seekable rErr buf sPos, { err := some .eof, q := q })) ∧
        j = bitsByteCount D.length) ∧
    (buf.content.length < 8 → rErr = none → ioDrain seekable sPos n r rErr buf q = ok none) := by
  obtain ⟨pos, hwf, hI, hpos, hj, hap, hc, herr⟩ := h
  have hlen := buffer_len buf hwf
  have hcl : buf.content.length = pos - min (8 * j) D.length := by
    rw [hc]; exact slice_length _ _ _ (by omega)
  have hbb := bitsByteCount_bounds D.length
  refine ⟨?_, ?_, ?_, ?_⟩
  · -- whole bytes
    intro h8
    have ha : min (8 * j) D.length = 8 * j := by omega
    unfold ioDrain
    simp only [hlen, show buf.content.length ≥ 8 from h8, if_true]
    generalize hrb : (if n * 8 > buf.content.length - buf.content.length % 8 then
        buf.content.length - buf.content.length % 8 else n * 8) = rBits
    have hrb8 : rBits % 8 = 0 ∧ 8 ≤ rBits ∧ rBits ≤ buf.content.length ∧ rBits ≤ n * 8 ∧
        (buf.content.length - rBits < 8 ∨ rBits = n * 8) := by
      rw [← hrb]; split <;> omega
    have hne : buf.bitsOff < buf.bufBits := by
      have := content_length buf hwf; omega
    obtain ⟨b', p, e1, wf', c', pl, pb⟩ := buffer_readBits_spec buf rBits hwf hne
    rw [Nat.min_eq_left hrb8.2.2.1] at e1 c' pl pb
    rw [e1]
    simp only [ok_bind, pure_eq]
    have hk : rBits = 8 * (rBits / 8) := by omega
    have hpad : padTo8 rBits = 0 := by unfold padTo8; omega
    have hplen : p.length = rBits / 8 := by
      rw [pl]; unfold bitsByteCount; simp [hrb8.1]
    have hpk : p.take (rBits / 8) = p := List.take_of_length_le (by omega)
    have hout : p = slice (packR D) j (rBits / 8) := by
      apply out_whole D j (rBits / 8) p (by omega)
      rw [pb, hpad, List.replicate_zero, List.append_nil, hc, take_slice _ _ _ _ (by omega), ha, ← hk]
    refine ⟨b', rBits / 8, by omega, by omega, by omega, by omega, ?_, ?_, ?_⟩
    · rw [hpk, ← hout]
    · refine ⟨pos, wf', hI, hpos, by omega, by omega, ?_, herr⟩
      rw [c', hc, drop_slice, ha, Nat.min_eq_left (by omega)]
      congr 1 <;> omega
    · rw [c', List.length_drop]; omega
  · -- the last partial byte
    intro h8 he h0
    have hposD : pos = D.length := by
      rcases herr with h | ⟨_, h⟩
      · rw [h] at he; cases he
      · exact h
    have ha : min (8 * j) D.length = 8 * j := by omega
    unfold ioDrain
    simp only [hlen, show ¬ buf.content.length ≥ 8 by omega, if_false, he, ne_eq, reduceCtorEq, not_false_eq_true,
      if_true, true_and, show buf.content.length > 0 from h0, show ¬ n = 0 by omega]
    have hne : buf.bitsOff < buf.bufBits := by
      have := content_length buf hwf; omega
    obtain ⟨b', p, e1, wf', c', pl, pb⟩ := buffer_readBits_spec buf buf.content.length hwf hne
    rw [Nat.min_self] at e1 c' pl pb
    rw [e1]
    simp only [ok_bind, pure_eq, Option.isSome_none, Bool.false_eq_true, if_false]
    have hplen : p.length = 1 := by rw [pl]; unfold bitsByteCount; split <;> omega
    have hpk : p.take 1 = p := List.take_of_length_le (by omega)
    have hout : p = slice (packR D) j 1 := by
      apply out_last D j buf.content.length p (by omega) h0 h8
      rw [pb, List.take_of_length_le (Nat.le_refl _)]
      congr 1
      conv => lhs; rw [hc, ha]
      rw [hcl, ha]
    refine ⟨b', ?_, ?_, ?_, ?_⟩
    · rw [hpk, ← hout]
    · refine ⟨pos, wf', hI, hpos, by unfold bitsByteCount; split <;> omega, by omega, ?_, Or.inr ⟨rfl, hposD⟩⟩
      rw [c', List.drop_of_length_le (Nat.le_refl _), Nat.min_eq_right (by omega), hposD, Nat.sub_self, slice_zero_len]
    · rw [c']; simp
    · unfold bitsByteCount; split <;> omega
  · -- nothing left: the pending EOF
    intro h0 he
    unfold ioDrain
    simp only [hlen, h0, show ¬ (0 ≥ 8) by omega, if_false, he, ne_eq, reduceCtorEq, not_false_eq_true, if_true,
      Nat.lt_irrefl, and_false, gt_iff_lt, pure_eq]
    refine ⟨trivial, ?_⟩
    have hposD : pos = D.length := by
      rcases herr with h | ⟨_, h⟩
      · rw [h] at he; cases he
      · exact h
    unfold bitsByteCount at hj hbb ⊢
    split at hj <;> split <;> omega
  · intro h8 he
    unfold ioDrain
    simp only [hlen, show ¬ buf.content.length ≥ 8 by omega, if_false, he, ne_eq, not_true_eq_false, pure_eq]

/-- what one Read(p), len(p) = n, may answer after j bytes were delivered -/
def ReadOK (D : Bits) (I : Rd → Nat → Prop) (j n : Nat) (s' : Rd) (res : Res) : Prop :=
  (j = bitsByteCount D.length ∧ res.bytes = [] ∧ res.err = some .eof ∧ IOInv D I j s') ∨
  (∃ k, 1 ≤ k ∧ k ≤ n ∧ j + k ≤ bitsByteCount D.length ∧ res.bytes = slice (packR D) j k ∧
    IOInv D I (j + k) s' ∧ (res.err = none ∨ (res.err = some .eof ∧ j + k = bitsByteCount D.length)))

/-- IOReader.Read (ioreader.go:24-72): the loop leaves with the next 1..n bytes of the packed bit string, or EOF -/
theorem ioReadLoop_spec (sub : Sub) (D : Bits) (I : Rd → Nat → Prop) (hsub : BitsAt sub D I) (seekable : Bool) (sPos : Int)
    (j n : Nat) (hn : 0 < n) (q : Nat) : ∀ (fuel : Nat) (r : Rd) (rErr : Option Err) (buf : Buffer),
    IOCore D I j r rErr buf → buf.content.length < 8 → 8 - buf.content.length + 2 ≤ fuel →
    ∃ s' res, ioBytesReadLoop sub seekable sPos n fuel r rErr buf q = ok (s', res) ∧ ReadOK D I j n s' res := by
  intro fuel
  induction fuel with
  | zero => intro r rErr buf _ _ h; omega
  | succ fuel ih =>
    intro r rErr buf hcore h8 hf
    unfold ioBytesReadLoop
    obtain ⟨r1, e1, b1, hfill, hcore1, hle1, hle2, hprog⟩ := ioFill_spec sub D I hsub j n hn r rErr buf q hcore
    rw [hfill]
    simp only [ok_bind]
    have hdrain := ioDrain_spec D I j n hn seekable sPos r1 e1 b1 q hcore1
    have he1 : e1 = none ∨ e1 = some .eof := by
      obtain ⟨_, _, _, _, _, _, _, h⟩ := hcore1
      rcases h with h | ⟨h, _⟩
      · exact Or.inl h
      · exact Or.inr h
    by_cases hL8 : 8 ≤ b1.content.length
    · obtain ⟨b2, k, hk1, hkn, hk8, hrest, hd, hcore2, hlen2⟩ := hdrain.1 hL8
      clear hdrain
      rw [hd]
      simp only [ok_bind]
      refine ⟨_, _, rfl, Or.inr ⟨k, hk1, hkn, ?_, rfl, ⟨hcore2, ?_⟩, Or.inl rfl⟩⟩
      · obtain ⟨_, _, _, _, h, _⟩ := hcore2; exact h
      · rw [hlen2]; rcases hrest with h | h
        · exact h
        · subst h; omega
    · have hL : b1.content.length < 8 := by omega
      rcases he1 with he1 | he1
      · -- fewer than 8 bits and no error: once more round the loop
        rw [hdrain.2.2.2 hL he1]
        simp only [ok_bind]
        have := hprog he1
        clear hdrain
        exact ih r1 e1 b1 hcore1 hL (by omega)
      · by_cases h0 : b1.content.length = 0
        · obtain ⟨hd, hj⟩ := hdrain.2.2.1 h0 he1
          clear hdrain
          rw [hd]
          simp only [ok_bind]
          exact ⟨_, _, rfl, Or.inl ⟨hj, rfl, rfl, ⟨hcore1, by omega⟩⟩⟩
        · obtain ⟨b2, hd, hcore2, hlen2, hj⟩ := hdrain.2.1 hL he1 (by omega)
          clear hdrain
          rw [hd]
          simp only [ok_bind]
          exact ⟨_, _, rfl, Or.inr ⟨1, Nat.le_refl _, hn, by omega, rfl, ⟨hcore2, by omega⟩, Or.inr ⟨rfl, hj⟩⟩⟩

theorem step_ioBytes_read (d : Nat) (r : Rd) (seekable : Bool) (rErr : Option Err) (buf : Buffer) (sPos : Int) (n : Nat) :
    step (d + 1) (.ioBytes r seekable rErr buf sPos) (.readB n) = ioBytesReadLoop (step d) seekable sPos n 12 r rErr buf 0 := by
  simp only [step]

/-- one io.Reader.Read on NewIOReader / NewIOReadSeeker over a sequential bit reader -/
theorem ioRead_spec (d : Nat) (D : Bits) (I : Rd → Nat → Prop) (hsub : BitsAt (step d) D I) (j n : Nat) (hn : 0 < n)
    (s : Rd) (h : IOInv D I j s) :
    ∃ s' res, step (d + 1) s (.readB n) = ok (s', res) ∧ ReadOK D I j n s' res := by
  cases s with
  | ioBytes r seekable rErr buf sPos =>
    obtain ⟨hcore, h8⟩ := h
    rw [step_ioBytes_read]
    exact ioReadLoop_spec (step d) D I hsub seekable sPos j n hn 0 12 r rErr buf hcore h8 (by omega)
  | _ => exact absurd h (by simp [IOInv])

/-- C01 core: for EVERY chunking the bytes read through the byte view are the packed bit string (a prefix of
    it as long as EOF was not reported, all of it once it was), and EOF is reported after at most
    len+1 reads -/
theorem readAll_spec (d : Nat) (D : Bits) (I : Rd → Nat → Prop) (hsub : BitsAt (step d) D I) :
    ∀ (chunks : List Nat), (∀ n ∈ chunks, 0 < n) → ∀ (j : Nat) (s : Rd), IOInv D I j s →
      (readAll (d + 1) s chunks).1 = slice (packR D) j (readAll (d + 1) s chunks).1.length ∧
      j + (readAll (d + 1) s chunks).1.length ≤ bitsByteCount D.length ∧
      ((readAll (d + 1) s chunks).2 = none ∨ ((readAll (d + 1) s chunks).2 = some .eof ∧
          j + (readAll (d + 1) s chunks).1.length = bitsByteCount D.length)) ∧
      (bitsByteCount D.length - j < chunks.length → (readAll (d + 1) s chunks).2 = some .eof) := by
  intro chunks
  induction chunks with
  | nil =>
    intro _ j s h
    have hj : j ≤ bitsByteCount D.length := by
      cases s with
      | ioBytes r seekable rErr buf sPos => obtain ⟨⟨_, _, _, _, hj, _⟩, _⟩ := h; exact hj
      | _ => exact absurd h (by simp [IOInv])
    simp [readAll, slice_zero_len]; omega
  | cons n ns ih =>
    intro hpos j s h
    have hn : 0 < n := hpos n (by simp)
    obtain ⟨s', res, h1, hok⟩ := ioRead_spec d D I hsub j n hn s h
    simp only [readAll, h1]
    rcases hok with ⟨hj, hb, he, _⟩ | ⟨k, hk1, hkn, hjk, hb, hinv, he⟩
    · simp [he, hb, slice_zero_len, hj]
    · have hbl : res.bytes.length = k := by
        rw [hb, slice_len, packR_length]; omega
      rcases he with he | ⟨he, hfin⟩
      · simp only [he, Option.isSome_none, Bool.false_eq_true, if_false]
        obtain ⟨i1, i2, i3, i4⟩ := ih (fun m hm => hpos m (by simp [hm])) (j + k) s' hinv
        refine ⟨?_, ?_, ?_, ?_⟩
        · rw [List.length_append, hbl, slice_add, ← hb]
          congr 1
        · rw [List.length_append, hbl]; omega
        · rcases i3 with i3 | ⟨i3, i3'⟩
          · exact Or.inl i3
          · exact Or.inr ⟨i3, by rw [List.length_append, hbl]; omega⟩
        · intro hlt; apply i4; simp at hlt; omega
      · simp only [he, Option.isSome_some, if_true]
        refine ⟨by rw [hbl]; exact hb, by omega, by simp; omega, by simp⟩

/-- every well-formed composition of byte buffers / sections / multi readers is a sequential bit reader -/
theorem bitsAt_wf (d : Nat) (D : Bits) : BitsAt (step d) D (WFAt d D) := by
  intro s pos n hn ⟨hwf, hrd, hden, hpos⟩ hle
  obtain ⟨s', res, h1, h2, h3, h4, h5, h6⟩ := read_sound' d s hwf hrd n
  rw [hden, hpos] at h2
  have hin : pos + res.bits.length ≤ D.length := by
    rcases h2.inb with h | h
    · exact h
    · rw [h]; simpa using hle
  refine ⟨s', res, h1, h2.noq, h2.bits, h2.le, hin, ⟨h3, h5, by rw [h4, hden], by rw [h6, hpos]⟩, ?_⟩
  rcases h2.errs with h | h | ⟨_, h, _⟩
  · left
    refine ⟨h, ?_⟩
    by_cases hlt : pos < D.length
    · exact h2.prog h hn hlt
    · exact absurd h (h2.endErr (by omega) hn)
  · right; exact ⟨h, by have := h2.eof h; omega⟩
  · omega

theorem packR_eq_bitsToBytesPadR (X : Bits) : packR X = bitsToBytesPadR X := by
  fun_induction packR X with
  | case1 b0 b1 b2 b3 b4 b5 b6 b7 rest ih =>
    rw [bitsToBytesPadR]
    simp [ih]
  | case2 => rw [bitsToBytesPadR]; simp
  | case3 bs h1 h2 =>
    have hlt : bs.length < 8 := by
      apply Nat.lt_of_not_le
      intro h
      obtain ⟨b0, b1, b2, b3, b4, b5, b6, b7, rest, hb⟩ := len_ge8 bs h
      exact h1 _ _ _ _ _ _ _ _ _ hb
    have hne : bs.length ≠ 0 := by
      intro h; exact h2 (List.eq_nil_of_length_eq_zero h)
    rw [bitsToBytesPadR]
    simp only [hne, dite_false]
    rw [List.take_of_length_le (by omega), List.drop_eq_nil_of_le (by omega), bitsToBytesPadR]
    simp

/-- NewIOReader(r) / NewIOReadSeeker(r) on a fresh well-formed bit reader: every chunking reads the packed bits -/
theorem ioReader_bytes' (d : Nat) (r : Rd) (seekable : Bool) (hr : WFAt d (den r) r 0) (chunks : List Nat)
    (hpos : ∀ n ∈ chunks, 0 < n) :
    let out := readAll (d + 1) (.ioBytes r seekable none {} 0) chunks
    out.1 = (bitsToBytesPadR (den r)).take out.1.length ∧
    (out.2 = some .eof → out.1 = bitsToBytesPadR (den r)) ∧
    (out.2 = none ∨ out.2 = some .eof) ∧
    ((bitsToBytesPadR (den r)).length < chunks.length → out.2 = some .eof) := by
  have hinv : IOInv (den r) (WFAt d (den r)) 0 (.ioBytes r seekable none {} 0) := by
    refine ⟨⟨0, ⟨by simp, by simp⟩, hr, Nat.zero_le _, Nat.zero_le _, by simp, ?_, Or.inl rfl⟩, ?_⟩
    · simp [Buffer.content, slice_zero_len]
    · simp [Buffer.content, slice_zero_len]
  obtain ⟨h1, h2, h3, h4⟩ := readAll_spec d (den r) _ (bitsAt_wf d (den r)) chunks hpos 0 _ hinv
  rw [← packR_eq_bitsToBytesPadR]
  have hpl := packR_length (den r)
  simp only [Nat.zero_add, Nat.sub_zero] at h2 h3 h4
  refine ⟨?_, ?_, ?_, ?_⟩
  · rw [h1]; simp [slice]
  · intro he
    rcases h3 with h3 | ⟨_, h3⟩
    · rw [h3] at he; cases he
    · rw [h1, h3]
      simp only [slice, List.drop_zero]
      exact List.take_of_length_le (by omega)
  · rcases h3 with h3 | ⟨h3, _⟩
    · exact Or.inl h3
    · exact Or.inr h3
  · intro hlt; apply h4; omega

/-! ### IOBitWriter -/

/-- invariant of bitio.IOBitWriter: bytes written so far ++ buffered bits = all bits written; < 8 bits buffered -/
def WInv (w : BitWriter) (all : Bits) : Prop :=
  w.b.WF ∧ bytesToBits w.out ++ w.b.content = all ∧ w.b.content.length < 8

theorem bitWriter_writeBits_spec (w : BitWriter) (all : Bits) (p : List UInt8) (n : Nat) (h : WInv w all)
    (hn : n ≤ 8 * p.length) :
    ∃ w', w.writeBits p n = ok w' ∧ WInv w' (all ++ slice (bytesToBits p) 0 n) := by
  obtain ⟨hwf, hall, h8⟩ := h
  unfold BitWriter.writeBits
  obtain ⟨b1, e1, wf1, c1, _⟩ := buffer_writeBits_spec w.b p n hwf hn
  rw [e1]
  simp only [ok_bind]
  have hlen := buffer_len b1 wf1
  by_cases hl : b1.content.length < 8
  · simp only [hlen, hl, if_true, pure_eq]
    exact ⟨_, rfl, wf1, by rw [c1, ← List.append_assoc, hall], hl⟩
  · simp only [hlen, hl, if_false]
    have hne : b1.bitsOff < b1.bufBits := by
      have := content_length b1 wf1; omega
    obtain ⟨b2, p2, e2, wf2, c2, pl, pb⟩ := buffer_readBits_spec b1 (b1.content.length - b1.content.length % 8) wf1 hne
    rw [Nat.min_eq_left (by omega)] at e2 c2 pl pb
    rw [e2]
    simp only [ok_bind, pure_eq]
    have hpad : padTo8 (b1.content.length - b1.content.length % 8) = 0 := by unfold padTo8; omega
    have hplen : p2.length = (b1.content.length - b1.content.length % 8) / 8 := by
      rw [pl]; unfold bitsByteCount; split <;> omega
    refine ⟨_, rfl, wf2, ?_, ?_⟩
    · simp only
      rw [List.take_of_length_le (by omega), bytesToBits_append, pb, hpad, List.replicate_zero, List.append_nil, c2,
        List.append_assoc, List.take_append_drop, c1, ← List.append_assoc, hall]
    · simp only; rw [c2, List.length_drop]; omega

theorem bitWriter_flush_spec (w : BitWriter) (all : Bits) (h : WInv w all) :
    ∃ w', w.flush = ok w' ∧ w'.out = packR all := by
  obtain ⟨hwf, hall, h8⟩ := h
  unfold BitWriter.flush
  have hlen := buffer_len w.b hwf
  have hal : all.length = 8 * w.out.length + w.b.content.length := by
    rw [← hall, List.length_append, bytesToBits_length]
  by_cases h0 : w.b.content.length = 0
  · simp only [hlen, h0, if_true]
    refine ⟨w, rfl, eq_packR _ _ ?_⟩
    have hnil : w.b.content = [] := List.eq_nil_of_length_eq_zero h0
    rw [hnil, List.append_nil] at hall
    have : padTo8 all.length = 0 := by unfold padTo8; omega
    rw [this, List.replicate_zero, List.append_nil, hall]
  · simp only [hlen, h0, if_false]
    have hne : w.b.bitsOff < w.b.bufBits := by
      have := content_length w.b hwf; omega
    obtain ⟨b2, p2, e2, wf2, c2, pl, pb⟩ := buffer_readBits_spec w.b w.b.content.length hwf hne
    rw [Nat.min_self] at e2 c2 pl pb
    rw [e2]
    simp only [ok_bind, pure_eq, Option.isSome_none, Bool.false_eq_true, if_false]
    have hplen : p2.length = 1 := by rw [pl]; unfold bitsByteCount; split <;> omega
    refine ⟨_, rfl, eq_packR _ _ ?_⟩
    simp only
    have ht : (p2 ++ [0]).take 1 = p2 := by
      rw [List.take_append_of_le_length (by omega), List.take_of_length_le (by omega)]
    rw [ht, bytesToBits_append, pb, List.take_of_length_le (Nat.le_refl _), ← List.append_assoc, hall]
    congr 2
    unfold padTo8; rw [hal]; congr 2; omega

/-- the bits of a sequence of WriteBits chunks -/
def chunkBits (chunks : List (Nat × List UInt8)) : Bits := chunks.flatMap (fun c => slice (bytesToBits c.2) 0 c.1)

theorem bitWriter_chunks (chunks : List (Nat × List UInt8)) : ∀ (w : BitWriter) (all : Bits), WInv w all →
    (∀ c ∈ chunks, c.1 ≤ 8 * c.2.length) →
    ∃ w', chunks.foldlM (fun w c => w.writeBits c.2 c.1) w = ok w' ∧ WInv w' (all ++ chunkBits chunks) := by
  induction chunks with
  | nil => intro w all h _; exact ⟨w, rfl, by simpa [chunkBits] using h⟩
  | cons c cs ih =>
    intro w all h hc
    obtain ⟨w1, e1, h1⟩ := bitWriter_writeBits_spec w all c.2 c.1 h (hc c (by simp))
    obtain ⟨w2, e2, h2⟩ := ih w1 _ h1 (fun x hx => hc x (by simp [hx]))
    refine ⟨w2, ?_, ?_⟩
    · rw [List.foldlM_cons, e1]; exact e2
    · simpa [chunkBits, List.append_assoc] using h2

end Proofs.C01
