import FqModel.C01Readers
import FqModel.C01Spec
import Proofs.C01History
import Proofs.C01Buffer
/-! C01 — LimitReader histories (budget accounting under short reads, CloneReader quirk) and bitio.Buffer as a FIFO. -/
set_option linter.unusedSimpArgs false
namespace Proofs.C01
open FqModel FqModel.Bitio Outcome

theorem step_limit_clone (d : Nat) (r : Rd) (m : Nat) :
    step (d + 1) (.limit r m) .clone = (step d r .clone >>= fun x => ok (.limit x.1 m, {})) := by
  simp only [step]

/-- every history of ReadBits / CloneReader on NewLimitReader(r, m) over a well-formed section / multi reader -/
theorem limit_history' (d : Nat) (D : Bits) : ∀ (ops : List LOp) (r : Rd) (m : Nat), Good d D r →
    LimitOK D (posOf r) m (runL (d + 1) (.limit r m) ops) := by
  intro ops
  induction ops with
  | nil => intro r m _; simp [runL, LimitOK]
  | cons op ops ih =>
    intro r m h
    have hrd := good_isReader d D r h
    obtain ⟨hwf, hden, htop⟩ := h
    cases op with
    | read n =>
      obtain ⟨r', res, h1, h2, h3, h4, h5, h6, h7⟩ := limit_read_sound' d r m hwf hrd n
      have ht : topSM r' = true := by
        -- the inner reader keeps its type: the step is step d r (.read _) when m ≠ 0, the identity otherwise
        rw [step_limit_read] at h1
        by_cases hm : m = 0
        · simp only [hm, if_true] at h1
          injection h1 with h1; injection h1 with h1 _; injection h1 with h1 _
          rw [← h1]; exact htop
        · simp only [hm, if_false] at h1
          obtain ⟨a, ha, hb⟩ := bind_ok_inv _ _ _ h1
          obtain ⟨a1, a2⟩ := a
          injection hb with hb; injection hb with hb _; injection hb with hb _
          subst hb
          exact read_shape d r a1 a2 _ htop ha
      simp only [runL, LOp.toOp, h1, LimitOK]
      refine ⟨by rw [← hden]; exact h2, h7, ?_⟩
      rw [← h6]
      exact ih r' _ ⟨h3, by rw [h5, hden], ht⟩
    | clone =>
      obtain ⟨r', res, h1, h2, h3⟩ := (good_seek_clone d D r ⟨hwf, hden, htop⟩).2
      have hp : posOf r' = 0 := h3.2
      simp only [runL, LOp.toOp, step_limit_clone, h1, ok_bind, LimitOK]
      refine ⟨trivial, ?_⟩
      rw [← hp]
      exact ih r' m h2

/-- never more than the budget: in a history without clone at most `rem` bits are returned in total -/
theorem limitOK_budget (D : Bits) : ∀ (l : List (LOp × Outcome Res)) (pos rem : Nat), LimitOK D pos rem l →
    (∀ x ∈ l, x.1 ≠ .clone) → bitsReturned l ≤ rem := by
  intro l
  induction l with
  | nil => intro _ _ _ _; simp [bitsReturned]
  | cons x xs ih =>
    intro pos rem h hnc
    obtain ⟨op, o⟩ := x
    cases o with
    | ok res =>
      cases op with
      | read n =>
        simp only [LimitOK] at h
        obtain ⟨_, hk, hrest⟩ := h
        have := ih _ _ hrest (fun y hy => hnc y (by simp [hy]))
        simp only [bitsReturned]; omega
      | clone => exact absurd rfl (hnc (.clone, .ok res) (by simp))
    | fault w => cases op <;> simp [LimitOK] at h
    | hang => cases op <;> simp [LimitOK] at h
    | unsupported w => cases op <;> simp [LimitOK] at h

/-! ### bitio.Buffer -/

theorem buffer_fifo' : ∀ (ops : List BufOp) (b : Buffer), b.WF →
    (∀ p n, BufOp.write p n ∈ ops → n ≤ 8 * p.length) → runBuf b ops = bufSpec b.content ops := by
  intro ops
  induction ops with
  | nil => intro _ _ _; rfl
  | cons op ops ih =>
    intro b hwf hops
    cases op with
    | write p n =>
      obtain ⟨b', e1, wf', c', _⟩ := buffer_writeBits_spec b p n hwf (hops p n (by simp))
      simp only [runBuf, bufSpec, e1]
      rw [ih b' wf' (fun p n h => hops p n (by simp [h])), c']
    | read k =>
      have hcl := content_length b hwf
      by_cases hemp : b.content = []
      · have h0 : b.bufBits ≤ b.bitsOff := by
          have := congrArg List.length hemp; rw [hcl] at this; simp at this; omega
        have hreset : b.reset.WF ∧ b.reset.content = [] := by
          refine ⟨⟨by simp [Buffer.reset], by simp [Buffer.reset]⟩, ?_⟩
          simp [Buffer.content, Buffer.reset, slice_zero_len]
        simp only [runBuf, bufSpec, hemp, if_true]
        unfold Buffer.readBits
        simp only [h0, if_true]
        by_cases hk : k = 0
        · simp only [hk, if_true, List.take_zero]
          rw [ih b.reset hreset.1 (fun p n h => hops p n (by simp [h])), hreset.2]
        · simp only [hk, if_false, List.take_zero]
          rw [ih b.reset hreset.1 (fun p n h => hops p n (by simp [h])), hreset.2]
      · have hne : b.bitsOff < b.bufBits := by
          have : b.content.length ≠ 0 := fun h => hemp (List.eq_nil_of_length_eq_zero h)
          omega
        obtain ⟨b', p, e1, wf', c', pl, pb⟩ := buffer_readBits_spec b k hwf hne
        simp only [runBuf, bufSpec, hemp, if_false, e1]
        rw [ih b' wf' (fun p n h => hops p n (by simp [h])), c', pb,
          List.take_left' (by rw [List.length_take]; omega)]

end Proofs.C01
