import FqModel.C01Readers
import FqModel.C01Spec
import Proofs.C01ReadAt
import Proofs.C01Bytes
/-! C01 — IOBitReadSeeker over any well-formed byte stack (in particular the reader stack of interp._open) is
    the specification machine `bitsSpecStep` over the plain byte string: the wrappers are invisible. -/
set_option linter.unusedSimpArgs false
namespace Proofs.C01
open FqModel FqModel.Bitio Outcome

/-- normal form of ReadBitsAt over an io.ReadSeeker-like source: the pure function, plus some new source state -/
theorem ioBitsReadAt_nf (sub : Sub) (data : List UInt8) (I : Rd → Nat → Prop) (hok : ByteOK sub data I) (b : Rd)
    (pos : Nat) (hI : I b pos) (buf : List UInt8) (n : Nat) (off : Int) :
    ∃ b' pos', I b' pos' ∧
      ioBitsReadAt sub b buf n off = (bitsSpecReadAt data buf n off).bind (fun x => ok ((b', x.1), x.2)) := by
  unfold ioBitsReadAt bitsSpecReadAt
  obtain ⟨b1, hsk, hI1⟩ := hok.2 b pos (off.tdiv 8) .start hI
  simp only [seekTarget] at hsk hI1
  simp only [hsk, ok_bind]
  by_cases hT : off.tdiv 8 < 0
  · simp only [hT, if_true] at hI1
    refine ⟨b1, _, hI1, ?_⟩
    simp only [seekRes_neg _ hT, Option.isSome_some, if_true, hT, pure_eq]
    rfl
  · simp only [hT, if_false] at hI1
    obtain ⟨b2, hfull, hI2⟩ := ioReadFull_gen sub data I hok.1 b1 (off.tdiv 8).toNat
      (bitsByteCountI (off.tmod 8 + (n : Int))) hI1
    refine ⟨b2, _, hI2, ?_⟩
    simp only [seekRes_nonneg _ (show 0 ≤ off.tdiv 8 by omega), Option.isSome_none, Bool.false_eq_true, if_false, hT,
      hfull, ok_bind]
    rw [show rawFullRes data (off.tdiv 8).toNat (bitsByteCountI (off.tmod 8 + (n : Int))) 0 =
      { n := ((slice data (off.tdiv 8).toNat (bitsByteCountI (off.tmod 8 + (n : Int)))).length : Int),
        bytes := slice data (off.tdiv 8).toNat (bitsByteCountI (off.tmod 8 + (n : Int))),
        err := (rawFullRes data (off.tdiv 8).toNat (bitsByteCountI (off.tmod 8 + (n : Int))) 0).err, q := 0 } from rfl]
    simp only [Nat.or_self]
    cases ioBitsFinish _ _ _ _ _ _ <;> rfl

theorem step_ioBits_seek (d : Nat) (b : Rd) (bitPos : Int) (buf : List UInt8) (o : Int) (w : Whence) :
    step (d + 1) (.ioBits b bitPos buf) (.seek o w) = ioBitsSeek (step d) b bitPos buf o w := by simp only [step]

theorem step_ioBits_clone (d : Nat) (b : Rd) (bitPos : Int) (buf : List UInt8) :
    step (d + 1) (.ioBits b bitPos buf) .clone = ok (.ioBits b 0 [], {}) := by simp only [step]

theorem ioBitsSeek_nf (sub : Sub) (data : List UInt8) (I : Rd → Nat → Prop) (hok : ByteOK sub data I) (b : Rd)
    (pos : Nat) (hI : I b pos) (bp : Int) (buf : List UInt8) (o : Int) (w : Whence) :
    ∃ b' pos', I b' pos' ∧ ioBitsSeek sub b bp buf o w =
      ok (.ioBits b' (bitsSpecSeek data.length bp o w).1 buf, (bitsSpecSeek data.length bp o w).2) := by
  unfold ioBitsSeek bitsSpecSeek
  have key : ∀ (o' : Int) (w' : Whence), w' ≠ .current →
      ∃ b' pos', I b' pos' ∧ sub b (.seekB (o'.tdiv 8) w') = ok (b', seekRes (seekTarget data.length 0 (o'.tdiv 8) w')) := by
    intro o' w' hw
    obtain ⟨b1, hsk, hI1⟩ := hok.2 b pos (o'.tdiv 8) w' hI
    refine ⟨b1, _, hI1, ?_⟩
    rw [hsk]
    cases w' with
    | current => exact absurd rfl hw
    | start => rfl
    | end_ => rfl
  by_cases hw : w = .current
  · subst hw
    simp only [if_true]
    obtain ⟨b1, p1, hI1, hsk⟩ := key (o + bp) .start (by simp)
    refine ⟨b1, p1, hI1, ?_⟩
    simp only [hsk, ok_bind]
    by_cases hT : seekTarget data.length 0 ((o + bp).tdiv 8) .start < 0
    · simp only [seekRes_neg _ hT, Option.isSome_some, if_true, hT, pure_eq]
    · simp only [seekRes_nonneg _ (show 0 ≤ seekTarget data.length 0 ((o + bp).tdiv 8) .start by omega),
        Option.isSome_none, Bool.false_eq_true, if_false, hT, pure_eq]
  · simp only [hw, if_false]
    obtain ⟨b1, p1, hI1, hsk⟩ := key o w hw
    refine ⟨b1, p1, hI1, ?_⟩
    simp only [hsk, ok_bind]
    by_cases hT : seekTarget data.length 0 (o.tdiv 8) w < 0
    · simp only [seekRes_neg _ hT, Option.isSome_some, if_true, hT, pure_eq]
    · simp only [seekRes_nonneg _ (show 0 ≤ seekTarget data.length 0 (o.tdiv 8) w by omega),
        Option.isSome_none, Bool.false_eq_true, if_false, hT, pure_eq]

/-- one operation on IOBitReadSeeker over an io.ReadSeeker-like source = one step of the specification machine -/
theorem ioBits_step_spec (d : Nat) (data : List UInt8) (I : Rd → Nat → Prop) (hok : ByteOK (step d) data I) (b : Rd)
    (pos : Nat) (hI : I b pos) (bp : Int) (buf : List UInt8) (op : HOp) :
    ∃ b' pos', I b' pos' ∧ step (d + 1) (.ioBits b bp buf) op.toOp =
      (bitsSpecStep data (bp, buf) op).bind (fun x => ok (.ioBits b' x.1.1 x.1.2, x.2)) := by
  cases op with
  | readAt n off =>
    obtain ⟨b', p', hI', h⟩ := ioBitsReadAt_nf (step d) data I hok b pos hI buf n (off : Int)
    refine ⟨b', p', hI', ?_⟩
    simp only [HOp.toOp, bitsSpecStep]
    rw [step_ioBits_readAt, h]
    cases bitsSpecReadAt data buf n (off : Int) <;> rfl
  | read n =>
    obtain ⟨b', p', hI', h⟩ := ioBitsReadAt_nf (step d) data I hok b pos hI buf n bp
    refine ⟨b', p', hI', ?_⟩
    simp only [HOp.toOp, bitsSpecStep]
    rw [step_ioBits_read, h]
    cases bitsSpecReadAt data buf n bp <;> rfl
  | seek o w =>
    obtain ⟨b', p', hI', h⟩ := ioBitsSeek_nf (step d) data I hok b pos hI bp buf o w
    refine ⟨b', p', hI', ?_⟩
    simp only [HOp.toOp, bitsSpecStep]
    rw [step_ioBits_seek, h]; rfl
  | clone =>
    refine ⟨b, pos, hI, ?_⟩
    simp only [HOp.toOp, bitsSpecStep]
    rw [step_ioBits_clone]; rfl

/-- every history on IOBitReadSeeker over an io.ReadSeeker-like source is the history of the specification machine -/
theorem ioBits_run_spec (d : Nat) (data : List UInt8) (I : Rd → Nat → Prop) (hok : ByteOK (step d) data I) :
    ∀ (ops : List HOp) (b : Rd) (pos : Nat) (bp : Int) (buf : List UInt8), I b pos →
      runH (d + 1) (.ioBits b bp buf) ops = runBitsSpecFrom data (bp, buf) ops := by
  intro ops
  induction ops with
  | nil => intro _ _ _ _ _; rfl
  | cons op ops ih =>
    intro b pos bp buf hI
    obtain ⟨b', p', hI', h⟩ := ioBits_step_spec d data I hok b pos hI bp buf op
    simp only [runH, runBitsSpecFrom, h]
    cases hs : bitsSpecStep data (bp, buf) op with
    | ok x =>
      obtain ⟨⟨bp', buf'⟩, res⟩ := x
      simp only [Outcome.bind]
      rw [ih b' p' bp' buf' hI']
    | fault w => rfl
    | hang => rfl
    | unsupported w => rfl

/-! ### the reader stack of interp._open -/

theorem openStack_byteAt (data : List UInt8) (f : Bool) (size : Nat) (d : Nat) :
    ByteAt (d + 4) data (.ahead (newProgress (.ctx (.raw data 0 f)) Gen.C01Consts.progressPrecision size)
      Gen.C01Consts.cacheReadAheadSize 0 [] 0) 0 := by
  refine ⟨?_, rfl, rfl⟩
  simp only [ByteWF, newProgress, AheadInv, bytePos, denBy]
  refine ⟨by decide, ⟨by omega, trivial⟩, fun h => absurd rfl h, fun _ => trivial⟩

theorem openStack_wf' (data : List UInt8) (d : Nat) :
    WFd (d + 5) (openStack data) ∧ den (openStack data) = bytesToBits data := by
  refine ⟨?_, ?_⟩
  · simp only [openStack, openStackOn, newIOBits, WFd]
    exact ⟨by omega, (openStack_byteAt data true data.length d).1⟩
  · simp [openStack, openStackOn, newIOBits, den_ioBits, denBy, newProgress]

theorem open_stack_refines' (data : List UInt8) (ops : List HOp) :
    runH depthFuel (openStack data) ops = runBitsSpec data ops := by
  have : depthFuel = 31 + 1 := rfl
  rw [this]
  exact ioBits_run_spec 31 data _ (byteOK_wf 31 data) ops _ 0 0 [] (openStack_byteAt data true data.length 27)

/-- the same for the plain NewIOBitReadSeeker(bytes.NewReader(data)): both are the specification machine -/
theorem plain_refines' (data : List UInt8) (ops : List HOp) :
    runH depthFuel (newIOBits (.raw data 0 false)) ops = runBitsSpec data ops := by
  have : depthFuel = 31 + 1 := rfl
  rw [this]
  exact ioBits_run_spec 31 data _ (byteOK_wf 31 data) ops _ 0 0 [] ⟨by simp [ByteWF], rfl, rfl⟩

end Proofs.C01
