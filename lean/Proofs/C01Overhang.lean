import FqModel.C01Readers
import FqModel.C01Spec
import Proofs.C01ReadAt
/-! C01 — ill-fitting sections: a SectionReader whose window reaches past (or starts beyond) the end of the reader
    below it delivers exactly the clamped slice of that reader's bits, at every level of nesting. -/
set_option linter.unusedSimpArgs false
namespace Proofs.C01
open FqModel FqModel.Bitio Outcome

theorem soundAt_toO {d : Bits} {off n : Nat} {r : Res} (h : SoundAt d off n r) : SoundAtO d off n r :=
  ⟨h.cnt, h.le, h.bits, h.inb, h.eof, h.prog, h.endErr, h.inside, by
    rcases h.errs with h1 | h1 | ⟨h1, h2, h3⟩
    · exact Or.inl h1
    · exact Or.inr (Or.inl h1)
    · exact Or.inr (Or.inr ⟨h1, by omega, h3⟩), h.noq⟩

theorem slice_len_min {α} (l : List α) (p k : Nat) : (slice l p k).length = min k (l.length - p) := by
  simp [slice]

theorem soundAtO_none (d : Bits) (off n : Nat) (h : d.length ≤ off) : SoundAtO d off n { err := some .eof } :=
  soundAt_toO (soundAt_none d off n (some .eof) (Or.inl ⟨rfl, h⟩))

/-- a correct read of the source at base+off, clamped to the section's window [base, base+L), is a correct read of
    the CLAMPED slice at off — with NO assumption that the window lies inside the source -/
theorem soundAtO_sect (d : Bits) (base L off n n' : Nat) (res : Res) (h : SoundAtO d (base + off) n' res)
    (hn' : n' = min n (L - off)) (hoff : off < L) :
    SoundAtO (slice d base L) off n res := by
  have hlen : (slice d base L).length = min L (d.length - base) := slice_len_min _ _ _
  have hk : res.bits.length ≤ L - off := by have := h.le; omega
  refine ⟨h.cnt, by have := h.le; omega, ?_, ?_, ?_, ?_, ?_, ?_, ?_, h.noq⟩
  · rw [slice_slice _ _ _ _ _ (by omega)]; exact h.bits
  · rcases h.inb with h1 | h1
    · left; rw [hlen]; omega
    · right; exact h1
  · intro he; have := h.eof he; rw [hlen]; omega
  · intro he hn hlt; rw [hlen] at hlt; exact h.prog he (by omega) (by omega)
  · intro h1 hn; rw [hlen] at h1; exact h.endErr (by omega) (by omega)
  · intro hn hin; rw [hlen] at hin; exact h.inside (by omega) (by omega)
  · rcases h.errs with h1 | h1 | ⟨h1, h2, h3⟩
    · exact Or.inl h1
    · exact Or.inr (Or.inl h1)
    · exact Or.inr (Or.inr ⟨h1, by rw [hlen]; omega, h3⟩)

theorem sect_readAt_soundO (sub : Sub) (P : Rd → Prop) (r : Rd) (base limit : Nat) (hsub : SubOKO sub P r)
    (hbl : base ≤ limit) (n off : Nat) :
    ∃ r' res, sectReadAt sub r base limit n (off : Int) = ok (r', res) ∧
      SoundAtO (slice (den r) base (limit - base)) off n res ∧ (r' = r ∨ P r') ∧ den r' = den r := by
  unfold sectReadAt
  by_cases h1 : (off : Int) < 0 ∨ (off : Int) ≥ (limit : Int) - base
  · simp only [h1, if_true]
    refine ⟨_, _, rfl, soundAtO_none _ _ _ ?_, Or.inl rfl, rfl⟩
    rw [slice_len_min]; omega
  · simp only [h1, if_false]
    have hoff : off < limit - base := by omega
    have hcast : (off : Int) + (base : Int) = ((base + off : Nat) : Int) := by omega
    have hmax : ((limit : Int) - ((base + off : Nat) : Int)).toNat = limit - base - off := by omega
    rw [hcast, hmax]
    obtain ⟨r', res, h1', h2, h3, h4⟩ := hsub (if n > limit - base - off then limit - base - off else n) (base + off)
    refine ⟨r', res, h1', ?_, Or.inr h3, h4⟩
    exact soundAtO_sect _ base (limit - base) off n _ res h2 (by split <;> omega) hoff

theorem wfd_wfo : ∀ (d : Nat) (r : Rd), WFd d r → WFo d r := by
  intro d
  induction d with
  | zero => intro r h; cases r <;> simp [WFd] at h
  | succ d ih =>
    intro r h
    cases r with
    | sect r base o limit =>
      simp only [WFd] at h
      simp only [WFo]
      exact ⟨ih r h.1, h.2.1, h.2.2.1⟩
    | multi rs ends pos => simp only [WFo]; exact h
    | zero pos nb => simpa [WFd, WFo] using h
    | ioBits b bitPos buf => simpa [WFd, WFo] using h
    | _ => simp [WFd] at h

/-- ReadBitsAt of every nest of (possibly ill-fitting) sections over a well-formed base -/
theorem readAt_soundO' : ∀ (d : Nat) (r : Rd), WFo d r → SubOKO (step d) (WFo d) r := by
  intro d
  induction d with
  | zero => intro r h; cases r <;> simp [WFo] at h
  | succ d ih =>
    intro r h n off
    cases r with
    | sect r base o limit =>
      simp only [WFo] at h
      obtain ⟨hr, hbo, hbl⟩ := h
      obtain ⟨r', res, h1, h2, h3, h4⟩ := sect_readAt_soundO (step d) (WFo d) r base limit (ih r hr) hbl n off
      refine ⟨.sect r' base o limit, res, ?_, ?_, ?_, ?_⟩
      · rw [step_sect_readAt, h1]; rfl
      · rw [den_sect]; exact h2
      · simp only [WFo]
        refine ⟨?_, hbo, hbl⟩
        rcases h3 with h3 | h3
        · rw [h3]; exact hr
        · exact h3
      · rw [den_sect, den_sect, h4]
    | multi rs ends pos =>
      simp only [WFo] at h
      obtain ⟨r', res, h1, h2, h3, h4⟩ := readAt_sound' (d + 1) _ h n off
      exact ⟨r', res, h1, soundAt_toO h2, wfd_wfo _ _ h3, h4⟩
    | zero pos nb =>
      have h' : WFd (d + 1) (.zero pos nb) := by simpa [WFd, WFo] using h
      obtain ⟨r', res, h1, h2, h3, h4⟩ := readAt_sound' (d + 1) _ h' n off
      exact ⟨r', res, h1, soundAt_toO h2, wfd_wfo _ _ h3, h4⟩
    | ioBits b bitPos buf =>
      have h' : WFd (d + 1) (.ioBits b bitPos buf) := by simpa [WFd, WFo] using h
      obtain ⟨r', res, h1, h2, h3, h4⟩ := readAt_sound' (d + 1) _ h' n off
      exact ⟨r', res, h1, soundAt_toO h2, wfd_wfo _ _ h3, h4⟩
    | _ => simp [WFo] at h

/-- ReadBits on a (possibly ill-fitting) section: the same at the section's own position -/
theorem read_soundO' (d : Nat) (r : Rd) (base o limit : Nat) (h : WFo (d + 1) (.sect r base o limit)) (n : Nat) :
    ∃ r' res, step (d + 1) (.sect r base o limit) (.read n) = ok (.sect r' base (o + res.bits.length) limit, res) ∧
      SoundAtO (slice (den r) base (limit - base)) (o - base) n res ∧
      WFo (d + 1) (.sect r' base (o + res.bits.length) limit) ∧ den r' = den r := by
  simp only [WFo] at h
  obtain ⟨hr, hbo, hbl⟩ := h
  have hcast : (o : Int) - (base : Int) = ((o - base : Nat) : Int) := by omega
  obtain ⟨r', res, h1, h2, h3, h4⟩ := sect_readAt_soundO (step d) (WFo d) r base limit (readAt_soundO' d r hr) hbl n (o - base)
  refine ⟨r', res, ?_, h2, ?_, h4⟩
  · have hn : res.n.toNat = res.bits.length := by rw [h2.cnt]; simp
    rw [step_sect_read, hcast, h1, ← hn]; rfl
  · simp only [WFo]
    refine ⟨?_, by omega, hbl⟩
    rcases h3 with h3 | h3
    · rw [h3]; exact hr
    · exact h3

end Proofs.C01
