import FqModel.Bitio
import Proofs.C01Bits
/-! C01 — Read64 returns the big-endian value of the requested bits (all buffers, offsets, lengths). -/
set_option linter.unusedSimpArgs false
namespace Proofs.C01
open FqModel FqModel.Bitio Outcome

theorem or_add (k y x : Nat) (h : x < 2 ^ k) (hd : y % 2 ^ k = 0) : y ||| x = y + x := by
  have hy : y = (y / 2 ^ k) <<< k := by
    rw [Nat.shiftLeft_eq]; have := Nat.div_add_mod y (2 ^ k); rw [hd] at this; rw [Nat.mul_comm]; omega
  rw [hy, Nat.shiftLeft_add_eq_or_of_lt h]

theorem or_add_8 (y x : Nat) (h : x < 256) (hd : y % 256 = 0) : y ||| x = y + x := or_add 8 y x h hd
theorem or_add_16 (y x : Nat) (h : x < 65536) (hd : y % 65536 = 0) : y ||| x = y + x := or_add 16 y x h hd
theorem or_add_24 (y x : Nat) (h : x < 16777216) (hd : y % 16777216 = 0) : y ||| x = y + x := or_add 24 y x h hd
theorem or_add_32 (y x : Nat) (h : x < 4294967296) (hd : y % 4294967296 = 0) : y ||| x = y + x := or_add 32 y x h hd
theorem or_add_40 (y x : Nat) (h : x < 1099511627776) (hd : y % 1099511627776 = 0) : y ||| x = y + x := or_add 40 y x h hd
theorem or_add_48 (y x : Nat) (h : x < 281474976710656) (hd : y % 281474976710656 = 0) : y ||| x = y + x := or_add 48 y x h hd
theorem or_add_56 (y x : Nat) (h : x < 72057594037927936) (hd : y % 72057594037927936 = 0) : y ||| x = y + x := or_add 56 y x h hd

theorem shl_or (a k x : Nat) (h : x < 2 ^ k) : a <<< k ||| x = a * 2 ^ k + x := by
  rw [← Nat.shiftLeft_add_eq_or_of_lt h, Nat.shiftLeft_eq]

theorem and7 (x : Nat) : x &&& 7 = x % 8 := Nat.and_two_pow_sub_one_eq_mod x 3

theorem shr3 (x : Nat) : x >>> 3 = x / 8 := by rw [Nat.shiftRight_eq_div_pow]

theorem and_mask (b k : Nat) : b &&& (1 <<< k - 1) = b % 2 ^ k := by
  rw [Nat.one_shiftLeft]; exact Nat.and_two_pow_sub_one_eq_mod b k

theorem idx_eq (buf : List UInt8) (i : Nat) (h : i < buf.length) : idx buf i = ok buf[i].toNat := by
  simp [idx, List.getElem?_eq_getElem h]

/-- value of a list of bytes read big-endian -/
theorem val_bytes1 (b0 : UInt8) : ofBitsBE (bytesToBits [b0]) = b0.toNat := by
  simp [bytesToBits_cons, bytesToBits_nil, ofBitsBE_byteToBits]

theorem ofBits_bytes_cons (b : UInt8) (bs : List UInt8) :
    ofBitsBE (bytesToBits (b :: bs)) = b.toNat * 2 ^ (8 * bs.length) + ofBitsBE (bytesToBits bs) := by
  rw [bytesToBits_cons, ofBitsBE_append, ofBitsBE_byteToBits, bytesToBits_length]

theorem ok_bind {α β} (a : α) (f : α → Outcome β) : (ok a >>= f) = f a := rfl
theorem pure_eq {α} (a : α) : (pure a : Outcome α) = ok a := rfl

theorem len_succ {α} (l : List α) (n : Nat) (h : l.length = n + 1) : ∃ a t, l = a :: t ∧ t.length = n := by
  cases l with
  | nil => simp at h
  | cons a t => exact ⟨a, t, rfl, by simpa using h⟩

theorem len_zero {α} (l : List α) (h : l.length = 0) : l = [] := List.eq_nil_of_length_eq_zero h

theorem len1 {α} (l : List α) (h : l.length = 1) : ∃ b0, l = [b0] := by
  obtain ⟨b0, t0, rfl, h0⟩ := len_succ _ _ h
  have := len_zero _ h0; subst this
  exact ⟨b0, rfl⟩

theorem len2 {α} (l : List α) (h : l.length = 2) : ∃ b0 b1, l = [b0, b1] := by
  obtain ⟨b0, t0, rfl, h0⟩ := len_succ _ _ h
  obtain ⟨b1, t1, rfl, h1⟩ := len_succ _ _ h0
  have := len_zero _ h1; subst this
  exact ⟨b0, b1, rfl⟩

theorem len3 {α} (l : List α) (h : l.length = 3) : ∃ b0 b1 b2, l = [b0, b1, b2] := by
  obtain ⟨b0, t0, rfl, h0⟩ := len_succ _ _ h
  obtain ⟨b1, t1, rfl, h1⟩ := len_succ _ _ h0
  obtain ⟨b2, t2, rfl, h2⟩ := len_succ _ _ h1
  have := len_zero _ h2; subst this
  exact ⟨b0, b1, b2, rfl⟩

theorem len4 {α} (l : List α) (h : l.length = 4) : ∃ b0 b1 b2 b3, l = [b0, b1, b2, b3] := by
  obtain ⟨b0, t0, rfl, h0⟩ := len_succ _ _ h
  obtain ⟨b1, t1, rfl, h1⟩ := len_succ _ _ h0
  obtain ⟨b2, t2, rfl, h2⟩ := len_succ _ _ h1
  obtain ⟨b3, t3, rfl, h3⟩ := len_succ _ _ h2
  have := len_zero _ h3; subst this
  exact ⟨b0, b1, b2, b3, rfl⟩

theorem len5 {α} (l : List α) (h : l.length = 5) : ∃ b0 b1 b2 b3 b4, l = [b0, b1, b2, b3, b4] := by
  obtain ⟨b0, t0, rfl, h0⟩ := len_succ _ _ h
  obtain ⟨b1, t1, rfl, h1⟩ := len_succ _ _ h0
  obtain ⟨b2, t2, rfl, h2⟩ := len_succ _ _ h1
  obtain ⟨b3, t3, rfl, h3⟩ := len_succ _ _ h2
  obtain ⟨b4, t4, rfl, h4⟩ := len_succ _ _ h3
  have := len_zero _ h4; subst this
  exact ⟨b0, b1, b2, b3, b4, rfl⟩

theorem len6 {α} (l : List α) (h : l.length = 6) : ∃ b0 b1 b2 b3 b4 b5, l = [b0, b1, b2, b3, b4, b5] := by
  obtain ⟨b0, t0, rfl, h0⟩ := len_succ _ _ h
  obtain ⟨b1, t1, rfl, h1⟩ := len_succ _ _ h0
  obtain ⟨b2, t2, rfl, h2⟩ := len_succ _ _ h1
  obtain ⟨b3, t3, rfl, h3⟩ := len_succ _ _ h2
  obtain ⟨b4, t4, rfl, h4⟩ := len_succ _ _ h3
  obtain ⟨b5, t5, rfl, h5⟩ := len_succ _ _ h4
  have := len_zero _ h5; subst this
  exact ⟨b0, b1, b2, b3, b4, b5, rfl⟩

theorem len7 {α} (l : List α) (h : l.length = 7) : ∃ b0 b1 b2 b3 b4 b5 b6, l = [b0, b1, b2, b3, b4, b5, b6] := by
  obtain ⟨b0, t0, rfl, h0⟩ := len_succ _ _ h
  obtain ⟨b1, t1, rfl, h1⟩ := len_succ _ _ h0
  obtain ⟨b2, t2, rfl, h2⟩ := len_succ _ _ h1
  obtain ⟨b3, t3, rfl, h3⟩ := len_succ _ _ h2
  obtain ⟨b4, t4, rfl, h4⟩ := len_succ _ _ h3
  obtain ⟨b5, t5, rfl, h5⟩ := len_succ _ _ h4
  obtain ⟨b6, t6, rfl, h6⟩ := len_succ _ _ h5
  have := len_zero _ h6; subst this
  exact ⟨b0, b1, b2, b3, b4, b5, b6, rfl⟩

theorem len8 {α} (l : List α) (h : l.length = 8) : ∃ b0 b1 b2 b3 b4 b5 b6 b7, l = [b0, b1, b2, b3, b4, b5, b6, b7] := by
  obtain ⟨b0, t0, rfl, h0⟩ := len_succ _ _ h
  obtain ⟨b1, t1, rfl, h1⟩ := len_succ _ _ h0
  obtain ⟨b2, t2, rfl, h2⟩ := len_succ _ _ h1
  obtain ⟨b3, t3, rfl, h3⟩ := len_succ _ _ h2
  obtain ⟨b4, t4, rfl, h4⟩ := len_succ _ _ h3
  obtain ⟨b5, t5, rfl, h5⟩ := len_succ _ _ h4
  obtain ⟨b6, t6, rfl, h6⟩ := len_succ _ _ h5
  obtain ⟨b7, t7, rfl, h7⟩ := len_succ _ _ h6
  have := len_zero _ h7; subst this
  exact ⟨b0, b1, b2, b3, b4, b5, b6, b7, rfl⟩

/-- the aligned fast path (readwrite64.go:23-58): the eight `bytesLeft` cases -/
theorem fast_path (nBuf : List UInt8) (acc : Nat) (j : Nat) (hl : nBuf.length = j) (h1 : 1 ≤ j) (h8 : j ≤ 8)
    (hacc : j = 8 → acc = 0) :
    read64Fast nBuf acc j
    = ok (acc * 2 ^ (8 * j) + ofBitsBE (bytesToBits nBuf)) := by
  have hj : j = 1 ∨ j = 2 ∨ j = 3 ∨ j = 4 ∨ j = 5 ∨ j = 6 ∨ j = 7 ∨ j = 8 := by omega
  unfold read64Fast
  rcases hj with rfl | rfl | rfl | rfl | rfl | rfl | rfl | rfl
  · obtain ⟨b0, rfl⟩ := len1 _ hl
    have h0 := b0.toNat_lt
    clear hacc
    simp only [idx, be16, be32, be64, ok_bind, pure_eq, List.getElem?_cons_zero, List.getElem?_cons_succ,
      ofBits_bytes_cons, bytesToBits_nil, ofBitsBE_nil, List.length_cons, List.length_nil, Nat.shiftLeft_eq, Nat.reducePow,
      Nat.reduceMul, Nat.reduceAdd, Nat.reduceSub]
    simp (disch := omega) only [or_add_8, or_add_16, or_add_24, or_add_32, or_add_40, or_add_48, or_add_56]
    refine congrArg ok ?_; omega
  · obtain ⟨b0, b1, rfl⟩ := len2 _ hl
    have h0 := b0.toNat_lt
    have h1 := b1.toNat_lt
    clear hacc
    simp only [idx, be16, be32, be64, ok_bind, pure_eq, List.getElem?_cons_zero, List.getElem?_cons_succ,
      ofBits_bytes_cons, bytesToBits_nil, ofBitsBE_nil, List.length_cons, List.length_nil, Nat.shiftLeft_eq, Nat.reducePow,
      Nat.reduceMul, Nat.reduceAdd, Nat.reduceSub]
    simp (disch := omega) only [or_add_8, or_add_16, or_add_24, or_add_32, or_add_40, or_add_48, or_add_56]
    refine congrArg ok ?_; omega
  · obtain ⟨b0, b1, b2, rfl⟩ := len3 _ hl
    have h0 := b0.toNat_lt
    have h1 := b1.toNat_lt
    have h2 := b2.toNat_lt
    clear hacc
    simp only [idx, be16, be32, be64, ok_bind, pure_eq, List.getElem?_cons_zero, List.getElem?_cons_succ,
      ofBits_bytes_cons, bytesToBits_nil, ofBitsBE_nil, List.length_cons, List.length_nil, Nat.shiftLeft_eq, Nat.reducePow,
      Nat.reduceMul, Nat.reduceAdd, Nat.reduceSub]
    simp (disch := omega) only [or_add_8, or_add_16, or_add_24, or_add_32, or_add_40, or_add_48, or_add_56]
    refine congrArg ok ?_; omega
  · obtain ⟨b0, b1, b2, b3, rfl⟩ := len4 _ hl
    have h0 := b0.toNat_lt
    have h1 := b1.toNat_lt
    have h2 := b2.toNat_lt
    have h3 := b3.toNat_lt
    clear hacc
    simp only [idx, be16, be32, be64, ok_bind, pure_eq, List.getElem?_cons_zero, List.getElem?_cons_succ,
      ofBits_bytes_cons, bytesToBits_nil, ofBitsBE_nil, List.length_cons, List.length_nil, Nat.shiftLeft_eq, Nat.reducePow,
      Nat.reduceMul, Nat.reduceAdd, Nat.reduceSub]
    simp (disch := omega) only [or_add_8, or_add_16, or_add_24, or_add_32, or_add_40, or_add_48, or_add_56]
    refine congrArg ok ?_; omega
  · obtain ⟨b0, b1, b2, b3, b4, rfl⟩ := len5 _ hl
    have h0 := b0.toNat_lt
    have h1 := b1.toNat_lt
    have h2 := b2.toNat_lt
    have h3 := b3.toNat_lt
    have h4 := b4.toNat_lt
    clear hacc
    simp only [idx, be16, be32, be64, ok_bind, pure_eq, List.getElem?_cons_zero, List.getElem?_cons_succ,
      ofBits_bytes_cons, bytesToBits_nil, ofBitsBE_nil, List.length_cons, List.length_nil, Nat.shiftLeft_eq, Nat.reducePow,
      Nat.reduceMul, Nat.reduceAdd, Nat.reduceSub]
    simp (disch := omega) only [or_add_8, or_add_16, or_add_24, or_add_32, or_add_40, or_add_48, or_add_56]
    refine congrArg ok ?_; omega
  · obtain ⟨b0, b1, b2, b3, b4, b5, rfl⟩ := len6 _ hl
    have h0 := b0.toNat_lt
    have h1 := b1.toNat_lt
    have h2 := b2.toNat_lt
    have h3 := b3.toNat_lt
    have h4 := b4.toNat_lt
    have h5 := b5.toNat_lt
    clear hacc
    simp only [idx, be16, be32, be64, ok_bind, pure_eq, List.getElem?_cons_zero, List.getElem?_cons_succ,
      ofBits_bytes_cons, bytesToBits_nil, ofBitsBE_nil, List.length_cons, List.length_nil, Nat.shiftLeft_eq, Nat.reducePow,
      Nat.reduceMul, Nat.reduceAdd, Nat.reduceSub]
    simp (disch := omega) only [or_add_8, or_add_16, or_add_24, or_add_32, or_add_40, or_add_48, or_add_56]
    refine congrArg ok ?_; omega
  · obtain ⟨b0, b1, b2, b3, b4, b5, b6, rfl⟩ := len7 _ hl
    have h0 := b0.toNat_lt
    have h1 := b1.toNat_lt
    have h2 := b2.toNat_lt
    have h3 := b3.toNat_lt
    have h4 := b4.toNat_lt
    have h5 := b5.toNat_lt
    have h6 := b6.toNat_lt
    clear hacc
    simp only [idx, be16, be32, be64, ok_bind, pure_eq, List.getElem?_cons_zero, List.getElem?_cons_succ,
      ofBits_bytes_cons, bytesToBits_nil, ofBitsBE_nil, List.length_cons, List.length_nil, Nat.shiftLeft_eq, Nat.reducePow,
      Nat.reduceMul, Nat.reduceAdd, Nat.reduceSub]
    simp (disch := omega) only [or_add_8, or_add_16, or_add_24, or_add_32, or_add_40, or_add_48, or_add_56]
    refine congrArg ok ?_; omega
  · obtain ⟨b0, b1, b2, b3, b4, b5, b6, b7, rfl⟩ := len8 _ hl
    have h0 := b0.toNat_lt
    have h1 := b1.toNat_lt
    have h2 := b2.toNat_lt
    have h3 := b3.toNat_lt
    have h4 := b4.toNat_lt
    have h5 := b5.toNat_lt
    have h6 := b6.toNat_lt
    have h7 := b7.toNat_lt
    have ha := hacc rfl; subst ha
    simp only [idx, be16, be32, be64, ok_bind, pure_eq, List.getElem?_cons_zero, List.getElem?_cons_succ,
      ofBits_bytes_cons, bytesToBits_nil, ofBitsBE_nil, List.length_cons, List.length_nil, Nat.shiftLeft_eq, Nat.reducePow,
      Nat.reduceMul, Nat.reduceAdd, Nat.reduceSub]
    simp (disch := omega) only [or_add_8, or_add_16, or_add_24, or_add_32, or_add_40, or_add_48, or_add_56]
    refine congrArg ok ?_; omega

theorem acc_bound (acc x A k : Nat) (ha : acc < A) (hx : x < 2 ^ k) : acc * 2 ^ k + x < A * 2 ^ k := by
  have h : (acc + 1) * 2 ^ k ≤ A * 2 ^ k := Nat.mul_le_mul_right _ ha
  rw [Nat.succ_mul] at h; omega

theorem pow_split (acc a x r : Nat) (m k : Nat) :
    (acc * 2 ^ k + x) * 2 ^ m + r = acc * 2 ^ (k + m) + (x * 2 ^ m + r) := by
  rw [Nat.pow_add, Nat.add_mul, Nat.mul_assoc]; omega

/-- loop invariant of Read64: with `acc` the value of the bits read so far (it fits the remaining room
    of a uint64, so Go's `<<` does not drop anything) the loop returns acc ++ the remaining bits -/
theorem read64Loop_spec (buf : List UInt8) : ∀ (fuel acc bitPos bitsLeft : Nat),
    bitsLeft < fuel → bitPos + bitsLeft ≤ 8 * buf.length → bitsLeft ≤ 64 → acc < 2 ^ (64 - bitsLeft) →
    read64Loop buf fuel acc bitPos bitsLeft
      = ok (acc * 2 ^ bitsLeft + ofBitsBE (slice (bytesToBits buf) bitPos bitsLeft)) := by
  intro fuel
  induction fuel with
  | zero => intro acc bitPos bitsLeft h; omega
  | succ fuel ih =>
    intro acc bitPos bitsLeft hf hr h64 hacc
    unfold read64Loop
    by_cases h0 : bitsLeft = 0
    · subst h0; simp [slice_zero_len, ofBitsBE_nil]
    · simp only [h0, if_false, and7, shr3]
      by_cases hfast : bitPos % 8 = 0 ∧ bitsLeft % 8 = 0
      · -- aligned fast path
        simp only [hfast, and_self, if_true]
        have hb : ¬ (bitPos / 8 + bitsLeft / 8 > buf.length) := by omega
        simp only [hb, if_false]
        have hpos : bitPos = 8 * (bitPos / 8) := by omega
        have hlen : bitsLeft = 8 * (bitsLeft / 8) := by omega
        have hl : (slice buf (bitPos / 8) (bitsLeft / 8)).length = bitsLeft / 8 := slice_length _ _ _ (by omega)
        have := fast_path (slice buf (bitPos / 8) (bitsLeft / 8)) acc (bitsLeft / 8) hl (by omega) (by omega)
          (by intro h8; have : bitsLeft = 64 := by omega
              subst this; simpa using hacc)
        rw [this, ← slice_bytesToBits_bytes, ← hpos, ← hlen]
      · simp only [hfast, if_false]
        have hi : bitPos / 8 < buf.length := by omega
        simp only [List.getElem?_eq_getElem hi]
        have hbyte := buf[bitPos / 8].toNat_lt
        by_cases hal : bitPos % 8 = 0
        · simp only [hal, if_true]
          by_cases h8 : bitsLeft ≥ 8
          · simp only [h8, if_true]
            have hx : buf[bitPos / 8].toNat < 2 ^ 8 := hbyte
            rw [shl_or _ _ _ hx]
            rw [ih _ _ _ (by omega) (by omega) (by omega)
              (by have : 64 - (bitsLeft - 8) = (64 - bitsLeft) + 8 := by omega
                  rw [this, Nat.pow_add]; exact acc_bound _ _ _ _ hacc hx)]
            have hs := slice_add (bytesToBits buf) bitPos 8 (bitsLeft - 8)
            rw [show 8 + (bitsLeft - 8) = bitsLeft by omega] at hs
            rw [hs, ofBitsBE_append, slice_length _ _ _ (by rw [bytesToBits_length]; omega)]
            have hb8 : slice (bytesToBits buf) bitPos 8 = slice (byteToBits buf[bitPos / 8]) 0 8 := by
              have := slice_bytesToBits_byte buf (bitPos / 8) 0 8 hi (by omega)
              rwa [show 8 * (bitPos / 8) + 0 = bitPos by omega] at this
            rw [hb8, byteToBits_slice_val _ 0 8 (by omega)]
            simp only [Nat.sub_zero, Nat.sub_self, Nat.pow_zero, Nat.div_one, Nat.mod_eq_of_lt hx]
            have := pow_split acc 0 buf[bitPos / 8].toNat (ofBitsBE (slice (bytesToBits buf) (bitPos + 8) (bitsLeft - 8))) (bitsLeft - 8) 8
            rw [show 8 + (bitsLeft - 8) = bitsLeft by omega] at this
            exact congrArg ok this
          · simp only [h8, if_false]
            have hb8 : slice (bytesToBits buf) bitPos bitsLeft = slice (byteToBits buf[bitPos / 8]) 0 bitsLeft := by
              have := slice_bytesToBits_byte buf (bitPos / 8) 0 bitsLeft hi (by omega)
              rwa [show 8 * (bitPos / 8) + 0 = bitPos by omega] at this
            rw [hb8, byteToBits_slice_val _ 0 bitsLeft (by omega)]
            simp only [Nat.sub_zero, Nat.mod_eq_of_lt hbyte]
            rw [Nat.shiftRight_eq_div_pow, shl_or]
            exact Nat.div_lt_of_lt_mul (by rw [← Nat.pow_add, show 8 - bitsLeft + bitsLeft = 8 by omega]; exact hbyte)
        · simp only [hal, if_false]
          have hbbl : (8 - bitPos % 8) % 8 = 8 - bitPos % 8 := by omega
          simp only [hbbl, and_mask]
          have hlo : bitPos = 8 * (bitPos / 8) + bitPos % 8 := by omega
          by_cases hge : bitsLeft ≥ 8 - bitPos % 8
          · simp only [hge, if_true]
            have hx : buf[bitPos / 8].toNat % 2 ^ (8 - bitPos % 8) < 2 ^ (8 - bitPos % 8) := Nat.mod_lt _ (Nat.two_pow_pos _)
            rw [shl_or _ _ _ hx]
            rw [ih _ _ _ (by omega) (by omega) (by omega)
              (by have : 64 - (bitsLeft - (8 - bitPos % 8)) = (64 - bitsLeft) + (8 - bitPos % 8) := by omega
                  rw [this, Nat.pow_add]; exact acc_bound _ _ _ _ hacc hx)]
            have hs := slice_add (bytesToBits buf) bitPos (8 - bitPos % 8) (bitsLeft - (8 - bitPos % 8))
            rw [show 8 - bitPos % 8 + (bitsLeft - (8 - bitPos % 8)) = bitsLeft by omega] at hs
            rw [hs, ofBitsBE_append, slice_length _ _ _ (by rw [bytesToBits_length]; omega)]
            have hb8 : slice (bytesToBits buf) bitPos (8 - bitPos % 8) = slice (byteToBits buf[bitPos / 8]) (bitPos % 8) (8 - bitPos % 8) := by
              have := slice_bytesToBits_byte buf (bitPos / 8) (bitPos % 8) (8 - bitPos % 8) hi (by omega)
              rwa [← hlo] at this
            rw [hb8, byteToBits_slice_val _ _ _ (by omega)]
            simp only [Nat.sub_self, Nat.pow_zero, Nat.div_one]
            have := pow_split acc 0 (buf[bitPos / 8].toNat % 2 ^ (8 - bitPos % 8))
              (ofBitsBE (slice (bytesToBits buf) (bitPos + (8 - bitPos % 8)) (bitsLeft - (8 - bitPos % 8)))) (bitsLeft - (8 - bitPos % 8)) (8 - bitPos % 8)
            rw [show 8 - bitPos % 8 + (bitsLeft - (8 - bitPos % 8)) = bitsLeft by omega] at this
            exact congrArg ok this
          · simp only [hge, if_false]
            have hb8 : slice (bytesToBits buf) bitPos bitsLeft = slice (byteToBits buf[bitPos / 8]) (bitPos % 8) bitsLeft := by
              have := slice_bytesToBits_byte buf (bitPos / 8) (bitPos % 8) bitsLeft hi (by omega)
              rwa [← hlo] at this
            rw [hb8, byteToBits_slice_val _ _ _ (by omega)]
            rw [Nat.shiftRight_eq_div_pow, shl_or]
            apply Nat.div_lt_of_lt_mul
            rw [← Nat.pow_add, show 8 - bitPos % 8 - bitsLeft + bitsLeft = 8 - bitPos % 8 by omega]
            exact Nat.mod_lt _ (Nat.two_pow_pos _)

/-- C01 core: Read64 = big-endian value of bits [firstBit, firstBit+nBits) -/
theorem read64_spec' (buf : List UInt8) (off n : Nat) (h : off + n ≤ 8 * buf.length) (hn : n ≤ 64) :
    read64 buf off n = ok (ofBitsBE (slice (bytesToBits buf) off n)) := by
  unfold read64
  simp only [show ¬ n > 64 by omega, if_false]
  rw [read64Loop_spec buf (n + 1) 0 off n (by omega) h hn (Nat.two_pow_pos _)]
  simp

end Proofs.C01
