import FqModel.C01Readers
import FqModel.C01Spec
import Proofs.C01Read64
import Proofs.C01Ahead
import Proofs.C01Bytes
/-! C01 — ReadBitsAt of the bit readers returns the denoted bits (bytes / section / multi / zero). -/
set_option linter.unusedSimpArgs false
namespace Proofs.C01
open FqModel FqModel.Bitio Outcome

theorem read64I_nat (buf : List UInt8) (x n : Nat) (hn : n ≤ 64) : read64I buf (x : Int) n = read64 buf x n := by
  unfold read64I
  have h1 : ¬ n > 64 := by omega
  have h2 : ¬ ((x : Int) < 0) := by omega
  simp [h1, h2]

theorem slice_full_len (l : Bits) (p k : Nat) (h : p + k ≤ l.length) : (slice l p k).length = k :=
  slice_length l p k h

/-- :57-60 the whole-byte loop of IOBitReadSeeker.ReadBitsAt copies bits [skip+8i, skip+8(i+cnt)) -/
theorem ioBitsBytes_spec (buf : List UInt8) (s : Nat) : ∀ (cnt i : Nat), s + 8 * (i + cnt) ≤ 8 * buf.length →
    ioBitsBytes buf (s : Int) cnt i = ok (slice (bytesToBits buf) (s + 8 * i) (8 * cnt)) := by
  intro cnt
  induction cnt with
  | zero => intro i _; simp [ioBitsBytes, slice_zero_len]
  | succ cnt ih =>
    intro i h
    unfold ioBitsBytes
    have hcast : (s : Int) + (i : Int) * 8 = ((s + 8 * i : Nat) : Int) := by omega
    rw [hcast, read64I_nat _ _ _ (by omega), read64_spec' _ _ _ (by omega) (by omega)]
    simp only [ok_bind]
    rw [ih (i + 1) (by omega)]
    simp only [ok_bind, pure_eq]
    have hl : (slice (bytesToBits buf) (s + 8 * i) 8).length = 8 :=
      slice_length _ _ _ (by rw [bytesToBits_length]; omega)
    have hlt := ofBitsBE_lt (slice (bytesToBits buf) (s + 8 * i) 8)
    rw [hl] at hlt
    rw [Nat.mod_eq_of_lt hlt, byteToBits_ofNat]
    have := toBitsBE_ofBitsBE (slice (bytesToBits buf) (s + 8 * i) 8)
    rw [hl] at this
    rw [this, show 8 * (cnt + 1) = 8 + 8 * cnt by omega, slice_add, show s + 8 * (i + 1) = s + 8 * i + 8 by omega]

/-- :54-65 the unaligned path delivers bits [s, s+k) of r.buf -/
theorem ioBitsExtract_spec (buf : List UInt8) (s k : Nat) (h : s + k ≤ 8 * buf.length) :
    ioBitsExtract buf (s : Int) k = ok (slice (bytesToBits buf) s k) := by
  unfold ioBitsExtract
  have h0 := ioBitsBytes_spec buf s (k / 8) 0 (by omega)
  simp only []
  rw [h0]
  simp only [ok_bind, Nat.mul_zero, Nat.add_zero]
  by_cases hr : k % 8 = 0
  · simp only [hr, ne_eq, not_true_eq_false, if_false, pure_eq, ok_bind, List.append_nil]
    rw [show 8 * (k / 8) = k by omega]
  · simp only [hr, ne_eq, not_false_eq_true, if_true]
    have hcast : (s : Int) + ((k / 8 : Nat) : Int) * 8 = ((s + 8 * (k / 8) : Nat) : Int) := by omega
    rw [hcast, read64I_nat _ _ _ (by omega), read64_spec' _ _ _ (by omega) (by omega)]
    simp only [ok_bind, pure_eq]
    have hl : (slice (bytesToBits buf) (s + 8 * (k / 8)) (k % 8)).length = k % 8 :=
      slice_length _ _ _ (by rw [bytesToBits_length]; omega)
    have hlt := ofBitsBE_lt (slice (bytesToBits buf) (s + 8 * (k / 8)) (k % 8))
    rw [hl] at hlt
    have hv : ofBitsBE (slice (bytesToBits buf) (s + 8 * (k / 8)) (k % 8)) < 256 := by
      have : 2 ^ (k % 8) ≤ 2 ^ 8 := Nat.pow_le_pow_right (by omega) (by omega)
      omega
    have ht := tail_byte_bits ⟨k % 8, by omega⟩ ⟨_, hv⟩
    simp only at ht
    rw [byteToBits_ofNat, ht]
    have := toBitsBE_ofBitsBE (slice (bytesToBits buf) (s + 8 * (k / 8)) (k % 8))
    rw [hl] at this
    rw [this]
    conv => rhs; rw [show k = 8 * (k / 8) + k % 8 by omega, slice_add]

theorem tdiv8 (off : Nat) : (off : Int).tdiv 8 = ((off / 8 : Nat) : Int) := by
  rw [Int.natCast_tdiv_eq_ediv]; omega

theorem tmod8 (off : Nat) : (off : Int).tmod 8 = ((off % 8 : Nat) : Int) := by
  rw [Int.tmod_eq_emod_of_nonneg (by omega)]; omega

theorem bbcI (a b : Nat) : bitsByteCountI ((a : Int) + (b : Int)) = bitsByteCount (a + b) := by
  unfold bitsByteCountI bitsByteCount
  have h : (a : Int) + (b : Int) = ((a + b : Nat) : Int) := by omega
  rw [h, tdiv8, tmod8]
  split <;> split <;> omega

/-- bits [s, s+k) of r.buf = D ++ stale, D = the bytes read at byte b, lie in the data when inside D -/
theorem in_D (data : List UInt8) (b L s k : Nat) (X : List UInt8) (h : s + k ≤ 8 * (slice data b L).length) :
    slice (bytesToBits (slice data b L ++ X)) s k = slice (bytesToBits data) (8 * b + s) k := by
  rw [bytesToBits_append, slice_take_left _ _ _ _ (by rw [bytesToBits_length]; exact h)]
  rw [← slice_self_len data b L, ← slice_bytesToBits_bytes, slice_slice _ _ _ _ _ h]

theorem bytesToBits_sliceD (data : List UInt8) (b L : Nat) :
    bytesToBits (slice data b L) = slice (bytesToBits data) (8 * b) (8 * (slice data b L).length) := by
  rw [slice_bytesToBits_bytes, slice_self_len]

theorem soundAt_mk (d : Bits) (off n k : Nat) (bits : Bits) (err : Option Err) (hk : k ≤ n)
    (hb : bits = slice d off k) (hin : off + k ≤ d.length ∨ k = 0) (heof : err = some .eof → d.length ≤ off + k)
    (hprog : err = none → 0 < n → off < d.length → 0 < k) (herr : err = none ∨ err = some .eof)
    (hend : d.length ≤ off → 0 < n → err ≠ none) (hins : 0 < n → off + n ≤ d.length → err = none) :
    SoundAt d off n { n := k, bits := bits, err := err, q := 0 } := by
  have hl : bits.length = k := by
    rw [hb]; rcases hin with h | h
    · exact slice_length _ _ _ h
    · subst h; simp [slice_zero_len]
  refine ⟨by simp [hl], by simp [hl]; exact hk, by simp only [hl]; exact hb,
    by simp only [hl]; exact hin.imp id (fun h => by subst h; rw [hb]; simp [slice_zero_len]),
    by simp only [hl]; exact heof, ?_, hend, hins, ?_, rfl⟩
  · intro h1 h2 h3 h4
    have := hprog h1 h2 h3
    simp only at h4
    rw [h4] at hl; simp at hl; omega
  · rcases herr with h | h
    · exact Or.inl h
    · exact Or.inr (Or.inl h)

theorem soundAt_none (d : Bits) (off n : Nat) (err : Option Err)
    (herr : (err = some .eof ∧ d.length ≤ off) ∨ (err = some .offset ∧ d.length < off)) :
    SoundAt d off n { err := err } := by
  refine ⟨rfl, by simp, by simp [slice_zero_len], Or.inr rfl, ?_, ?_, ?_, ?_, ?_, rfl⟩
  · intro h; rcases herr with ⟨_, h2⟩ | ⟨h1, _⟩
    · simpa using h2
    · simp only at h; rw [h1] at h; cases h
  · intro h; simp only at h; rcases herr with ⟨h1, _⟩ | ⟨h1, _⟩ <;> (rw [h1] at h; cases h)
  · intro _ _; rcases herr with ⟨h1, _⟩ | ⟨h1, _⟩ <;> simp [h1]
  · intro h1 h2; rcases herr with ⟨_, h3⟩ | ⟨_, h3⟩ <;> omega
  · rcases herr with ⟨h1, _⟩ | ⟨h1, h2⟩
    · exact Or.inr (Or.inl h1)
    · exact Or.inr (Or.inr ⟨h1, h2, rfl⟩)

theorem ioBitsFinish_spec (data : List UInt8) (b s n : Nat) (hs : s < 8) (X : List UInt8) (W : Nat)
    (hW : W = bitsByteCount (s + n)) (hX : W ≤ (slice data b W ++ X).length) :
    ∃ res, ioBitsFinish (slice data b W ++ X) (s : Int) n (slice data b W).length (rawFullRes data b W 0).err 0 = ok res ∧
      SoundAt (bytesToBits data) (8 * b + s) n res := by
  have hDl := slice_len data b W
  have hWd : 8 * W ≥ s + n ∧ 8 * W < s + n + 8 := by
    rw [hW]; unfold bitsByteCount; split <;> omega
  have hbl := bytesToBits_length data
  unfold ioBitsFinish rawFullRes
  simp only
  by_cases hfull : (slice data b W).length ≥ W
  · -- the read was complete
    simp only [hfull, if_true, Option.isSome_none, Bool.false_eq_true, false_and, if_false, reduceCtorEq]
    have hWle : W ≤ data.length - b := by rw [hDl] at hfull; omega
    have hDW : (slice data b W).length = W := by omega
    have hin : 8 * b + s + n ≤ (bytesToBits data).length ∨ n = 0 := by
      rw [hbl]; by_cases hn0 : n = 0
      · exact Or.inr hn0
      · left; have : 0 < W := by omega
        omega
    by_cases hal : (s : Int) = 0 ∧ n % 8 = 0
    · simp only [hal, and_self, if_true]
      have hs0 : s = 0 := by omega
      subst hs0
      refine ⟨_, rfl, soundAt_mk _ _ _ _ _ _ (Nat.le_refl _) ?_ hin (by simp) (by intros; omega) (Or.inl rfl) (by intro h1 h2; rw [hbl] at h1; omega) (fun _ _ => rfl)⟩
      rw [List.take_left' rfl, bytesToBits_sliceD, Nat.add_zero]
      have : 8 * (slice data b W).length = n := by omega
      rw [this]
      exact List.take_of_length_le (by have := slice_length_le (bytesToBits data) (8 * b) n; omega)
    · simp only [hal, if_false]
      rw [ioBitsExtract_spec _ _ _ (by rw [List.length_append] at hX ⊢; omega)]
      simp only [ok_bind]
      exact ⟨_, rfl, soundAt_mk _ _ _ _ _ _ (Nat.le_refl _) (in_D data b W s n X (by omega)) hin (by simp)
        (by intros; omega) (Or.inl rfl) (by intro h1 h2; rw [hbl] at h1; omega) (fun _ _ => rfl)⟩
  · simp only [hfull, if_false]
    have hDd : (slice data b W).length = data.length - b := by rw [hDl]; rw [hDl] at hfull; omega
    by_cases h0 : (slice data b W).length = 0
    · -- nothing read: EOF
      simp only [h0, if_true, Option.isSome_some, true_and, ne_eq, reduceCtorEq, not_false_eq_true]
      exact ⟨_, rfl, soundAt_none _ _ _ _ (Or.inl ⟨rfl, by rw [hbl]; omega⟩)⟩
    · -- short read: what is left of the data
      simp only [h0, if_false, Option.isSome_some, true_and, ne_eq, not_true_eq_false, if_true]
      have hk : ((((slice data b W).length : Nat) : Int) * 8 - (s : Int)).toNat = 8 * (slice data b W).length - s := by omega
      rw [hk]
      have hin' : 8 * b + s + (8 * (slice data b W).length - s) ≤ (bytesToBits data).length := by rw [hbl]; omega
      have hin : 8 * b + s + (8 * (slice data b W).length - s) ≤ (bytesToBits data).length ∨
          8 * (slice data b W).length - s = 0 := Or.inl hin'
      by_cases hal : (s : Int) = 0 ∧ (8 * (slice data b W).length - s) % 8 = 0
      · simp only [hal, and_self, if_true]
        have hs0 : s = 0 := by omega
        subst hs0
        refine ⟨_, rfl, soundAt_mk _ _ _ _ _ _ (by omega) ?_ hin (by intro _; rw [hbl]; omega) (by intro h; cases h) (Or.inr rfl) (by simp) (by intro h1 h2; rw [hbl] at h2; omega)⟩
        rw [List.take_left' rfl, bytesToBits_sliceD, Nat.add_zero, Nat.sub_zero]
        exact List.take_of_length_le (by rw [slice_length _ _ _ (by rw [hbl]; omega)]; omega)
      · simp only [hal, if_false]
        rw [ioBitsExtract_spec _ _ _ (by rw [List.length_append]; omega)]
        simp only [ok_bind]
        exact ⟨_, rfl, soundAt_mk _ _ _ _ _ _ (by omega)
          (in_D data b W s (8 * (slice data b W).length - s) X (by omega)) hin (by intro _; rw [hbl]; omega)
          (by intro h; cases h) (Or.inr rfl) (by simp) (by intro h1 h2; rw [hbl] at h2; omega)⟩

/-- C01: ReadBitsAt of NewIOBitReadSeeker over ANY io.ReadSeeker-like byte source, at a non-negative offset -/
theorem ioBits_readAt_ok (sub : Sub) (data : List UInt8) (I : Rd → Nat → Prop) (hok : ByteOK sub data I) (b : Rd)
    (pos : Nat) (hI : I b pos) (buf : List UInt8) (n off : Nat) :
    ∃ b' pos' buf' res, ioBitsReadAt sub b buf n (off : Int) = ok ((b', buf'), res) ∧ I b' pos' ∧
      SoundAt (bytesToBits data) off n res := by
  unfold ioBitsReadAt
  simp only [tdiv8, tmod8, bbcI]
  obtain ⟨b1, hsk, hI1⟩ := hok.2 b pos ((off / 8 : Nat) : Int) .start hI
  simp only [seekTarget] at hsk hI1
  rw [seekRes_nonneg _ (by omega)] at hsk
  have hneg : ¬ (((off / 8 : Nat) : Int) < 0) := by omega
  simp only [hneg, if_false, Int.toNat_natCast] at hI1
  obtain ⟨b2, hfull, hI2⟩ := ioReadFull_gen sub data I hok.1 b1 (off / 8) (bitsByteCount (off % 8 + n)) hI1
  simp only [hsk, ok_bind, Option.isSome_none, Bool.false_eq_true, if_false, hfull]
  generalize hB0 : (if bitsByteCount (off % 8 + n) > buf.length then List.replicate (bitsByteCount (off % 8 + n)) 0 else buf) = B0
  have hB0l : bitsByteCount (off % 8 + n) ≤ B0.length := by
    rw [← hB0]; split
    · simp
    · omega
  obtain ⟨res, hres, hsound⟩ := ioBitsFinish_spec data (off / 8) (off % 8) n (by omega)
    (B0.drop (slice data (off / 8) (bitsByteCount (off % 8 + n))).length) _ rfl
    (by rw [List.length_append, List.length_drop]; omega)
  rw [show rawFullRes data (off / 8) (bitsByteCount (off % 8 + n)) 0 =
    { n := ((slice data (off / 8) (bitsByteCount (off % 8 + n))).length : Int),
      bytes := slice data (off / 8) (bitsByteCount (off % 8 + n)),
      err := (rawFullRes data (off / 8) (bitsByteCount (off % 8 + n)) 0).err, q := 0 } from rfl]
  simp only [Nat.or_self]
  rw [hres]
  simp only [ok_bind, pure_eq]
  refine ⟨_, _, _, _, rfl, hI2, ?_⟩
  rwa [show 8 * (off / 8) + off % 8 = off by omega] at hsound

/-! ### ZeroReadAtSeeker -/

theorem slice_replicate (nb off k : Nat) (h : off + k ≤ nb) :
    (List.replicate k false : Bits) = slice (List.replicate nb false) off k := by
  simp only [slice, List.drop_replicate, List.take_replicate]
  congr 1; omega

theorem zero_readAt_sound (pos nb n off : Nat) :
    ∃ res, zeroReadAt pos nb n (off : Int) = ok (.zero pos nb, res) ∧ SoundAt (List.replicate nb false) off n res := by
  unfold zeroReadAt
  by_cases h1 : (off : Int) < 0 ∨ (off : Int) > nb
  · simp only [h1, if_true]
    exact ⟨_, rfl, soundAt_none _ _ _ _ (Or.inr ⟨rfl, by simp; omega⟩)⟩
  · simp only [h1, if_false]
    by_cases h2 : (off : Int) = nb
    · simp only [h2, if_true]
      exact ⟨_, rfl, soundAt_none _ _ _ _ (Or.inl ⟨rfl, by simp; omega⟩)⟩
    · simp only [h2, if_false, Int.toNat_natCast]
      refine ⟨_, rfl, ?_⟩
      have := soundAt_mk (List.replicate nb false) off n (min n (nb - off)) (List.replicate (min n (nb - off)) false) none
        (by omega) (slice_replicate _ _ _ (by omega)) (Or.inl (by simp; omega)) (by intro h; cases h)
        (by intro _ hn hl; simp at hl; omega) (Or.inl rfl) (by intro h1 _; simp at h1; omega) (fun _ _ => rfl)
      simpa using this

/-! ### SectionReader -/

/-- a correct read of the source at base+off, clamped to the section, is a correct read of the section at off -/
theorem soundAt_sect (d : Bits) (base L off n n' : Nat) (res : Res) (h : SoundAt d (base + off) n' res)
    (hn' : n' = min n (L - off)) (hoff : off < L) (hL : base + L ≤ d.length) :
    SoundAt (slice d base L) off n res := by
  have hlen : (slice d base L).length = L := slice_length _ _ _ hL
  have hk : res.bits.length ≤ L - off := by have := h.le; omega
  refine ⟨h.cnt, by have := h.le; omega, ?_, Or.inl (by rw [hlen]; omega), ?_, ?_, ?_, ?_, ?_, h.noq⟩
  · rw [slice_slice _ _ _ _ _ (by omega)]; exact h.bits
  · intro he; have := h.eof he; rw [hlen]; omega
  · intro he hn _; exact h.prog he (by omega) (by omega)
  · intro h1 _; rw [hlen] at h1; omega
  · intro hn hin; rw [hlen] at hin; exact h.inside (by omega) (by omega)
  · rcases h.errs with h1 | h1 | ⟨_, h2, _⟩
    · exact Or.inl h1
    · exact Or.inr (Or.inl h1)
    · omega

theorem sect_readAt_sound (sub : Sub) (P : Rd → Prop) (r : Rd) (base limit : Nat) (hsub : SubOK sub P r)
    (hbl : base ≤ limit) (hlim : limit ≤ (den r).length) (n off : Nat) :
    ∃ r' res, sectReadAt sub r base limit n (off : Int) = ok (r', res) ∧
      SoundAt (slice (den r) base (limit - base)) off n res ∧ (r' = r ∨ P r') ∧ den r' = den r := by
  unfold sectReadAt
  by_cases h1 : (off : Int) < 0 ∨ (off : Int) ≥ (limit : Int) - base
  · simp only [h1, if_true]
    refine ⟨_, _, rfl, soundAt_none _ _ _ _ (Or.inl ⟨rfl, ?_⟩), Or.inl rfl, rfl⟩
    rw [slice_length _ _ _ (by omega)]; omega
  · simp only [h1, if_false]
    have hoff : off < limit - base := by omega
    have hcast : (off : Int) + (base : Int) = ((base + off : Nat) : Int) := by omega
    have hmax : ((limit : Int) - ((base + off : Nat) : Int)).toNat = limit - base - off := by omega
    rw [hcast, hmax]
    obtain ⟨r', res, h1', h2, h3, h4⟩ := hsub (if n > limit - base - off then limit - base - off else n) (base + off)
    refine ⟨r', res, h1', ?_, Or.inr h3, h4⟩
    exact soundAt_sect _ base (limit - base) off n _ res h2 (by split <;> omega) hoff (by omega)

/-! ### MultiReader -/

theorem denList_cons (r : Rd) (rs : List Rd) : denList (r :: rs) = den r ++ denList rs := by simp [denList]

theorem denList_nil : denList [] = [] := by simp [denList]

theorem cumEnds_length (rs : List Rd) : ∀ acc, (cumEnds rs acc).length = rs.length := by
  induction rs with
  | nil => intro acc; simp [cumEnds]
  | cons r rs ih => intro acc; simp [cumEnds, ih]

theorem cumEnds_last (rs : List Rd) : ∀ acc, rs ≠ [] →
    (cumEnds rs acc)[rs.length - 1]? = some (acc + (denList rs).length) := by
  induction rs with
  | nil => intro acc h; exact absurd rfl h
  | cons r rs ih =>
    intro acc _
    cases rs with
    | nil => simp [cumEnds, denList_cons, denList_nil]
    | cons r2 t =>
      have := ih (acc + (den r).length) (by simp)
      simp only [List.length_cons, Nat.add_sub_cancel] at this ⊢
      rw [cumEnds, List.getElem?_cons_succ, this, denList_cons (r := r), List.length_append]
      congr 1; omega

theorem multiEnd_cum (rs : List Rd) : multiEnd rs (cumEnds rs 0) = ok (denList rs).length := by
  unfold multiEnd
  cases rs with
  | nil => simp [denList_nil]
  | cons r t =>
    have := cumEnds_last (r :: t) 0 (by simp)
    simp only [List.length_cons, Nat.zero_add, Nat.add_sub_cancel] at this ⊢
    simp [this]

/-- the boundary lookup of multireader.go:56-62 finds the sub-reader that contains bit `off` -/
theorem multiFind_spec (off : Nat) (rs : List Rd) : ∀ (acc i0 : Nat), acc ≤ off → off < acc + (denList rs).length →
    ∃ i r, multiFind (off : Int) (cumEnds rs acc) i0 acc = some (i0 + i, acc + (denList (rs.take i)).length) ∧
      rs[i]? = some r ∧ acc + (denList (rs.take i)).length ≤ off ∧
      off < acc + (denList (rs.take i)).length + (den r).length := by
  induction rs with
  | nil => intro acc i0 h1 h2; simp [denList_nil] at h2; omega
  | cons r t ih =>
    intro acc i0 h1 h2
    simp only [cumEnds, multiFind]
    by_cases hlt : (off : Int) < ((acc + (den r).length : Nat) : Int)
    · simp only [hlt, if_true]
      exact ⟨0, r, by simp [denList_nil], by simp, by simp [denList_nil]; exact h1, by simp [denList_nil]; omega⟩
    · simp only [hlt, if_false]
      rw [denList_cons, List.length_append] at h2
      obtain ⟨i, r', h3, h4, h5, h6⟩ := ih (acc + (den r).length) (i0 + 1) (by omega) (by omega)
      refine ⟨i + 1, r', ?_, by simpa using h4, ?_, ?_⟩
      · rw [h3]; simp only [List.take_succ_cons, denList_cons, List.length_append]
        congr 2 <;> omega
      · simp only [List.take_succ_cons, denList_cons, List.length_append]; omega
      · simp only [List.take_succ_cons, denList_cons, List.length_append]; omega

theorem denList_split (rs : List Rd) : ∀ (i : Nat) (r : Rd), rs[i]? = some r →
    denList rs = denList (rs.take i) ++ den r ++ denList (rs.drop (i + 1)) := by
  induction rs with
  | nil => intro i r h; simp at h
  | cons x t ih =>
    intro i r h
    cases i with
    | zero => simp at h; subst h; simp [denList_cons, denList_nil]
    | succ i =>
      simp only [List.getElem?_cons_succ] at h
      simp only [List.take_succ_cons, List.drop_succ_cons, denList_cons, ih i r h, List.append_assoc]

theorem denList_set (rs : List Rd) : ∀ (i : Nat) (r r' : Rd), rs[i]? = some r → den r' = den r →
    denList (rs.set i r') = denList rs := by
  induction rs with
  | nil => intro i r r' h; simp at h
  | cons x t ih =>
    intro i r r' h hd
    cases i with
    | zero => simp at h; subst h; simp [denList_cons, hd]
    | succ i =>
      simp only [List.getElem?_cons_succ] at h
      simp only [List.set_cons_succ, denList_cons, ih i r r' h hd]

theorem cumEnds_set (rs : List Rd) : ∀ (i : Nat) (r r' : Rd) (acc : Nat), rs[i]? = some r → den r' = den r →
    cumEnds (rs.set i r') acc = cumEnds rs acc := by
  induction rs with
  | nil => intro i r r' acc h; simp at h
  | cons x t ih =>
    intro i r r' acc h hd
    cases i with
    | zero => simp at h; subst h; simp [cumEnds, hd]
    | succ i =>
      simp only [List.getElem?_cons_succ] at h
      simp only [List.set_cons_succ, cumEnds, ih i r r' _ h hd]

/-- a slice inside the i-th part of a concatenation -/
theorem slice_mid (A M B : Bits) (o k : Nat) (h : o + k ≤ M.length ∨ k = 0) :
    slice M o k = slice (A ++ M ++ B) (A.length + o) k := by
  rcases h with h | h
  · have h1 : List.drop (A.length + o) (A ++ M ++ B) = List.drop o M ++ B := by
      rw [List.append_assoc, List.drop_append, List.drop_eq_nil_of_le (Nat.le_add_right _ _), List.nil_append,
        Nat.add_sub_cancel_left, List.drop_append_of_le_length (by omega)]
    simp only [slice, h1]
    rw [List.take_append_of_le_length (by simp; omega)]
  · subst h; simp [slice_zero_len]

theorem multi_readAt_sound (sub : Sub) (P : Rd → Prop) (rs : List Rd) (hall : ∀ r ∈ rs, SubOK sub P r) (n off : Nat) :
    ∃ rs' res, multiReadAt sub rs (cumEnds rs 0) n (off : Int) = ok (rs', res) ∧ SoundAt (denList rs) off n res ∧
      (∀ r ∈ rs', P r ∨ r ∈ rs) ∧ denList rs' = denList rs ∧ cumEnds rs' 0 = cumEnds rs 0 := by
  unfold multiReadAt
  rw [multiEnd_cum]
  simp only [ok_bind]
  by_cases hend : (((denList rs).length : Nat) : Int) ≤ (off : Int)
  · simp only [hend, if_true, pure_eq]
    exact ⟨_, _, rfl, soundAt_none _ _ _ _ (Or.inl ⟨rfl, by omega⟩), fun r h => Or.inr h, rfl, rfl⟩
  · simp only [hend, if_false]
    have hlt : off < (denList rs).length := by omega
    have hne : ¬ rs.length = 0 := by
      intro h; have := List.eq_nil_of_length_eq_zero h; subst this; simp [denList_nil] at hlt
    simp only [hne, if_false]
    obtain ⟨i, r, hf, hi, hlo, hhi⟩ := multiFind_spec off rs 0 0 (by omega) (by omega)
    simp only [Nat.zero_add] at hf hlo hhi
    rw [hf]
    simp only [hi]
    have hcast : (off : Int) - (((denList (rs.take i)).length : Nat) : Int) = ((off - (denList (rs.take i)).length : Nat) : Int) := by omega
    rw [hcast]
    have hmem : r ∈ rs := List.mem_of_getElem? hi
    obtain ⟨r', res, h1, h2, h3, h4⟩ := hall r hmem n (off - (denList (rs.take i)).length)
    rw [h1]
    simp only [ok_bind, pure_eq]
    refine ⟨_, _, rfl, ?_, ?_, denList_set rs i r r' hi h4, cumEnds_set rs i r r' 0 hi h4⟩
    · -- soundness w.r.t. the concatenation
      have hsplit := denList_split rs i r hi
      have hk : res.bits.length ≤ (den r).length - (off - (denList (rs.take i)).length) ∨ res.bits = [] := by
        rcases h2.inb with h | h
        · left; omega
        · right; exact h
      have hn : res.n = res.bits.length := h2.cnt
      have hbits : res.bits = slice (denList rs) off res.bits.length := by
        have := slice_mid (denList (rs.take i)) (den r) (denList (rs.drop (i + 1))) (off - (denList (rs.take i)).length) res.bits.length
          (by rcases hk with h | h
              · left; omega
              · right; simp [h])
        rw [← hsplit, show (denList (rs.take i)).length + (off - (denList (rs.take i)).length) = off by omega] at this
        rw [← this]; exact h2.bits
      have htot := congrArg List.length hsplit
      simp only [List.length_append] at htot
      refine ⟨h2.cnt, h2.le, hbits, ?_, ?_, ?_, (fun h1 _ => by omega), ?_, ?_, h2.noq⟩
      · dsimp only
        rcases hk with h | h
        · left; omega
        · right; exact h
      · intro he
        dsimp only at he ⊢
        split at he
        · cases he
        · rename_i hc
          have hce : res.err = some .eof := he
          simp only [hce, true_and, hn] at hc
          omega
      · intro he hn0 _
        dsimp only at he ⊢
        split at he
        · rename_i hc
          have := h2.eof hc.1
          intro hnil; rw [hnil] at this; simp at this; omega
        · exact h2.prog he hn0 (by omega)
      · intro hn0 hin
        dsimp only
        split
        · rfl
        · rename_i hc
          rcases h2.errs with h | h | ⟨_, h, _⟩
          · exact h
          · -- EOF not suppressed: the read ends at the total end, hence lies inside the sub-reader
            simp only [h, true_and, hn] at hc
            have hle := h2.le
            exact h2.inside hn0 (by
              rcases hk with hk | hk
              · omega
              · rw [hk] at hc; simp at hc; omega)
          · omega
      · dsimp only
        split
        · exact Or.inl rfl
        · rcases h2.errs with h | h | ⟨_, h, _⟩
          · exact Or.inl h
          · exact Or.inr (Or.inl h)
          · omega
    · intro x hx
      rcases List.mem_or_eq_of_mem_set hx with h | h
      · exact Or.inr h
      · subst h; exact Or.inl h3

/-! ### compositions -/

theorem den_sect (r : Rd) (base off limit : Nat) : den (.sect r base off limit) = slice (den r) base (limit - base) := by
  simp [den]

theorem den_multi (rs : List Rd) (ends : List Nat) (pos : Nat) : den (.multi rs ends pos) = denList rs := by
  simp [den]

theorem den_zero (pos n : Nat) : den (.zero pos n) = List.replicate n false := by simp [den]

theorem den_ioBits (b : Rd) (bitPos : Int) (buf : List UInt8) :
    den (.ioBits b bitPos buf) = bytesToBits (denBy b) := by simp [den]

theorem step_ioBits_readAt (d : Nat) (b : Rd) (bitPos : Int) (buf : List UInt8) (n : Nat) (o : Int) :
    step (d + 1) (.ioBits b bitPos buf) (.readAt n o) =
      (ioBitsReadAt (step d) b buf n o >>= fun x => ok (.ioBits x.1.1 bitPos x.1.2, x.2)) := by
  simp only [step]

theorem step_ioBits_read (d : Nat) (b : Rd) (bitPos : Int) (buf : List UInt8) (n : Nat) :
    step (d + 1) (.ioBits b bitPos buf) (.read n) =
      (ioBitsReadAt (step d) b buf n bitPos >>= fun x => ok (.ioBits x.1.1 (bitPos + x.2.n) x.1.2, x.2)) := by
  simp only [step]

theorem step_sect_readAt (d : Nat) (r : Rd) (base off limit n : Nat) (o : Int) :
    step (d + 1) (.sect r base off limit) (.readAt n o) =
      (sectReadAt (step d) r base limit n o >>= fun x => ok (.sect x.1 base off limit, x.2)) := by
  simp only [step]

theorem step_sect_read (d : Nat) (r : Rd) (base off limit n : Nat) :
    step (d + 1) (.sect r base off limit) (.read n) =
      (sectReadAt (step d) r base limit n ((off : Int) - base) >>= fun x => ok (.sect x.1 base (off + x.2.n.toNat) limit, x.2)) := by
  simp only [step]

theorem step_multi_readAt (d : Nat) (rs : List Rd) (ends : List Nat) (pos n : Nat) (o : Int) :
    step (d + 1) (.multi rs ends pos) (.readAt n o) =
      (multiReadAt (step d) rs ends n o >>= fun x => ok (.multi x.1 ends pos, x.2)) := by
  simp only [step]

theorem step_multi_read (d : Nat) (rs : List Rd) (ends : List Nat) (pos n : Nat) :
    step (d + 1) (.multi rs ends pos) (.read n) =
      (multiReadAt (step d) rs ends n pos >>= fun x => ok (.multi x.1 ends (pos + x.2.n.toNat), x.2)) := by
  simp only [step]

theorem step_zero_readAt (d : Nat) (pos nb n : Nat) (o : Int) :
    step (d + 1) (.zero pos nb) (.readAt n o) = zeroReadAt pos nb n o := by
  simp only [step]

/-- C01 core: ReadBitsAt of every well-formed composition of byte buffers, sections, multi readers and zero
    readers returns exactly the denoted bits (all nesting depths, offsets ≥ 0, lengths) -/
theorem readAt_sound' : ∀ (d : Nat) (r : Rd), WFd d r → SubOK (step d) (WFd d) r := by
  intro d
  induction d with
  | zero => intro r h; cases r <;> simp [WFd] at h
  | succ d ih =>
    intro r h n off
    cases r with
    | sect r base o limit =>
      simp only [WFd] at h
      obtain ⟨hr, hbo, hbl, hlim⟩ := h
      obtain ⟨r', res, h1, h2, h3, h4⟩ := sect_readAt_sound (step d) (WFd d) r base limit (ih r hr) hbl hlim n off
      refine ⟨.sect r' base o limit, res, ?_, ?_, ?_, ?_⟩
      · rw [step_sect_readAt, h1]; rfl
      · rw [den_sect]; exact h2
      · simp only [WFd]
        refine ⟨?_, hbo, hbl, by rw [h4]; exact hlim⟩
        rcases h3 with h3 | h3
        · rw [h3]; exact hr
        · exact h3
      · rw [den_sect, den_sect, h4]
    | multi rs ends pos =>
      simp only [WFd] at h
      obtain ⟨hall, hends, hpos⟩ := h
      subst hends
      obtain ⟨rs', res, h1, h2, h3, h4, h5⟩ := multi_readAt_sound (step d) (WFd d) rs (fun r hr => ih r (hall r hr)) n off
      refine ⟨.multi rs' (cumEnds rs 0) pos, res, ?_, ?_, ?_, ?_⟩
      · rw [step_multi_readAt, h1]; rfl
      · rw [den_multi]; exact h2
      · simp only [WFd]
        refine ⟨?_, h5.symm, by rw [h4]; exact hpos⟩
        intro r hr
        rcases h3 r hr with h | h
        · exact h
        · exact hall r h
      · rw [den_multi, den_multi, h4]
    | zero pos nb =>
      obtain ⟨res, h1, h2⟩ := zero_readAt_sound pos nb n off
      refine ⟨.zero pos nb, res, ?_, ?_, h, rfl⟩
      · rw [step_zero_readAt, h1]
      · rw [den_zero]; exact h2
    | ioBits b bitPos buf =>
      simp only [WFd] at h
      obtain ⟨hbp, hwfb⟩ := h
      obtain ⟨b', pos', buf', res, h1, ⟨e1, e2, _⟩, h2⟩ := ioBits_readAt_ok (step d) (denBy b) _ (byteOK_wf d (denBy b)) b
        (bytePos b) ⟨hwfb, rfl, rfl⟩ buf n off
      refine ⟨.ioBits b' bitPos buf', res, ?_, ?_, ?_, ?_⟩
      · rw [step_ioBits_readAt, h1]; rfl
      · rw [den_ioBits]; exact h2
      · simp only [WFd]; exact ⟨hbp, e1⟩
      · rw [den_ioBits, den_ioBits, e2]
    | _ => simp [WFd] at h

/-! ### ReadBits: the same at the reader's own position, which then advances by the bits returned -/

theorem read_sound' : ∀ (d : Nat) (r : Rd), WFd d r → isReader r = true → ∀ (n : Nat),
    ∃ r' res, step d r (.read n) = ok (r', res) ∧ SoundAt (den r) (posOf r) n res ∧ WFd d r' ∧ den r' = den r ∧
      isReader r' = true ∧ posOf r' = posOf r + res.bits.length := by
  intro d r h hrd n
  cases d with
  | zero => cases r <;> simp [WFd] at h
  | succ d =>
    cases r with
    | sect r base o limit =>
      simp only [WFd] at h
      obtain ⟨hr, hbo, hbl, hlim⟩ := h
      have hcast : (o : Int) - (base : Int) = ((o - base : Nat) : Int) := by omega
      obtain ⟨r', res, h1, h2, h3, h4⟩ := sect_readAt_sound (step d) (WFd d) r base limit (readAt_sound' d r hr) hbl hlim n (o - base)
      refine ⟨.sect r' base (o + res.n.toNat) limit, res, ?_, ?_, ?_, ?_, rfl, ?_⟩
      · rw [step_sect_read, hcast, h1]; rfl
      · rw [den_sect]; exact h2
      · simp only [WFd]
        refine ⟨?_, by omega, hbl, by rw [h4]; exact hlim⟩
        rcases h3 with h3 | h3
        · rw [h3]; exact hr
        · exact h3
      · rw [den_sect, den_sect, h4]
      · simp only [posOf, h2.cnt, Int.toNat_natCast]; omega
    | multi rs ends pos =>
      simp only [WFd] at h
      obtain ⟨hall, hends, hpos⟩ := h
      subst hends
      obtain ⟨rs', res, h1, h2, h3, h4, h5⟩ := multi_readAt_sound (step d) (WFd d) rs (fun r hr => readAt_sound' d r (hall r hr)) n pos
      refine ⟨.multi rs' (cumEnds rs 0) (pos + res.n.toNat), res, ?_, ?_, ?_, ?_, rfl, ?_⟩
      · rw [step_multi_read, h1]; rfl
      · rw [den_multi]; exact h2
      · simp only [WFd]
        refine ⟨?_, h5.symm, ?_⟩
        · intro r hr
          rcases h3 r hr with h | h
          · exact h
          · exact hall r h
        · rw [h4, h2.cnt, Int.toNat_natCast]
          rcases h2.inb with h | h
          · exact h
          · rw [h]; simpa using hpos
      · rw [den_multi, den_multi, h4]
      · simp only [posOf, h2.cnt, Int.toNat_natCast]
    | ioBits b bitPos buf =>
      simp only [WFd] at h
      obtain ⟨hbp, hwfb⟩ := h
      have hcast : bitPos = ((bitPos.toNat : Nat) : Int) := by omega
      obtain ⟨b', pos', buf', res, h1, ⟨e1, e2, _⟩, h2⟩ := ioBits_readAt_ok (step d) (denBy b) _ (byteOK_wf d (denBy b)) b
        (bytePos b) ⟨hwfb, rfl, rfl⟩ buf n bitPos.toNat
      refine ⟨.ioBits b' (bitPos + res.n) buf', res, ?_, ?_, ?_, ?_, rfl, ?_⟩
      · rw [step_ioBits_read]
        conv => lhs; arg 1; arg 5; rw [hcast]
        rw [h1]; rfl
      · rw [den_ioBits]; exact h2
      · simp only [WFd, h2.cnt]; exact ⟨by omega, e1⟩
      · rw [den_ioBits, den_ioBits, e2]
      · simp only [posOf, h2.cnt]; omega
    | _ => simp [WFd, isReader] at h hrd

/-! ### LimitReader -/

theorem slice_take {α} (l : List α) (t p k : Nat) (h : p + k ≤ t) : slice (l.take t) p k = slice l p k := by
  simp only [slice]
  rw [List.drop_take, List.take_take]
  congr 1; omega

theorem step_limit_read (d : Nat) (r : Rd) (m n : Nat) :
    step (d + 1) (.limit r m) (.read n) =
      if m = 0 then ok (.limit r m, { err := some .eof })
      else (step d r (.read (if n > m then m else n)) >>= fun x => ok (.limit x.1 (m - x.2.n.toNat), x.2)) := by
  simp only [step]

/-- LimitReader.ReadBits: the bits of the inner reader at its position, at most the remaining budget `m` -/
theorem limit_read_sound' (d : Nat) (r : Rd) (m : Nat) (hr : WFd d r) (hrd : isReader r = true) (n : Nat) :
    ∃ r' res, step (d + 1) (.limit r m) (.read n) = ok (.limit r' (m - res.bits.length), res) ∧
      SoundAt ((den r).take (posOf r + m)) (posOf r) n res ∧ WFd d r' ∧ isReader r' = true ∧ den r' = den r ∧
      posOf r' = posOf r + res.bits.length ∧ res.bits.length ≤ m := by
  rw [step_limit_read]
  by_cases hm : m = 0
  · subst hm
    simp only [if_true]
    exact ⟨r, _, rfl, soundAt_none _ _ _ _ (Or.inl ⟨rfl, by simp; omega⟩), hr, hrd, rfl, rfl, Nat.le_refl _⟩
  · simp only [hm, if_false]
    obtain ⟨r', res, h1, h2, h3, h4, h5, h6⟩ := read_sound' d r hr hrd (if n > m then m else n)
    have hk : res.bits.length ≤ m := by have := h2.le; split at this <;> omega
    refine ⟨r', res, ?_, ?_, h3, h5, h4, h6, hk⟩
    · rw [h1]; simp only [ok_bind, h2.cnt, Int.toNat_natCast]
    · have hlen : ((den r).take (posOf r + m)).length = min (posOf r + m) (den r).length := by simp
      refine ⟨h2.cnt, by have := h2.le; split at this <;> omega, ?_, ?_, ?_, ?_, ?_, ?_, ?_, h2.noq⟩
      · rw [slice_take _ _ _ _ (by omega)]; exact h2.bits
      · rcases h2.inb with h | h
        · left; rw [hlen]; omega
        · right; exact h
      · intro he; have := h2.eof he; rw [hlen]; omega
      · intro he hn hp
        rw [hlen] at hp
        exact h2.prog he (by split <;> omega) (by omega)
      · intro h1 hn
        rw [hlen] at h1
        exact h2.endErr (by omega) (by split <;> omega)
      · intro hn hin
        rw [hlen] at hin
        have hnm : ¬ n > m := by omega
        simp only [hnm, if_false] at h2
        exact h2.inside hn (by omega)
      · rcases h2.errs with h | h | ⟨h, h', h''⟩
        · exact Or.inl h
        · exact Or.inr (Or.inl h)
        · exact Or.inr (Or.inr ⟨h, by rw [hlen]; omega, h''⟩)

/-- bitio.NewBitReader(data, nBits) with nBits ≤ 8*len(data) (or -1) is well formed -/
theorem wf_newBitReader (data : List UInt8) (nBits : Option Nat) (h : ∀ nb, nBits = some nb → nb ≤ 8 * data.length) (d : Nat) :
    WFd (d + 3) (newBitReader data nBits) := by
  unfold newBitReader newSect newIOBits
  simp only [WFd, ByteWF, den_ioBits, denBy, bytesToBits_length, Nat.zero_add]
  refine ⟨⟨by omega, trivial⟩, by omega, by omega, ?_⟩
  cases nBits with
  | none => simp; omega
  | some nb => simpa using h nb rfl

theorem den_newBitReader (data : List UInt8) (nBits : Option Nat) :
    den (newBitReader data nBits) = (bytesToBits data).take (nBits.getD (data.length * 8)) := by
  unfold newBitReader newSect newIOBits
  simp [den_sect, den_ioBits, denBy, slice]

end Proofs.C01
