import FqModel.C01Readers
import FqModel.C01Spec
import Proofs.C01ReadAt
import Proofs.C01Buffer
/-! C01 — bitio.readFull (bitio.go:196-238): ReadFull / ReadAtFull over any sound reader deliver exactly the
    requested bits, or what is left together with EOF (and the number of bits NOT read). -/
set_option linter.unusedSimpArgs false
namespace Proofs.C01
open FqModel FqModel.Bitio Outcome

theorem ofBitsBE_replicate_false (k : Nat) : ofBitsBE (List.replicate k false) = 0 := by
  induction k with
  | zero => rfl
  | succ k ih => rw [List.replicate_succ, ofBitsBE_cons, ih]; simp

/-- bitio.go:216 `pb[0] >> (8-rBits)` is the value of the rBits bits read into the one-byte buffer -/
theorem pb0_val (bits : Bits) (h8 : bits.length ≤ 8) :
    ((packR bits).headD 0).toNat >>> (8 - bits.length) = ofBitsBE bits := by
  by_cases h0 : bits.length = 0
  · have : bits = [] := List.eq_nil_of_length_eq_zero h0
    subst this; rfl
  · have hl := packR_length bits
    have hb := bytesToBits_packR bits
    have hl1 : (packR bits).length = 1 := by rw [hl]; unfold bitsByteCount; split <;> omega
    obtain ⟨x, hx⟩ := len1 _ hl1
    rw [hx] at hb ⊢
    simp only [List.headD_cons]
    rw [bytesToBits_cons, bytesToBits_nil, List.append_nil] at hb
    have hv := ofBitsBE_byteToBits x
    rw [hb, ofBitsBE_append, ofBitsBE_replicate_false, List.length_replicate, Nat.add_zero] at hv
    have hp : padTo8 bits.length = 8 - bits.length := by unfold padTo8; omega
    rw [← hv, hp, Nat.shiftRight_eq_div_pow, Nat.mul_div_cancel _ (Nat.two_pow_pos _)]

theorem take_splice_prefix (X B : Bits) (t k : Nat) (hB : B.length = k) (ht : t ≤ X.length) :
    (X.take t ++ B ++ X.drop (t + k)).take (t + k) = X.take t ++ B := by
  rw [List.take_append_of_le_length (by simp; omega)]
  exact List.take_of_length_le (by simp; omega)

theorem bytesToBits_splice_bytes (p w : List UInt8) (a : Nat) :
    bytesToBits (p.take a ++ w ++ p.drop (a + w.length)) =
      (bytesToBits p).take (8 * a) ++ bytesToBits w ++ (bytesToBits p).drop (8 * a + 8 * w.length) := by
  rw [bytesToBits_append, bytesToBits_append, bytesToBits_take, bytesToBits_drop]
  congr 2; omega

/-- what readFull answers: all N bits, or — when only `avail` < N bits are left — those, EOF, and N - avail -/
def RFOK (D : Bits) (P0 N : Nat) (J : Rd → Nat → Prop) (s' : Rd) (res : Res) : Prop :=
  (N ≤ D.length - P0 ∧ res.n = N ∧ res.bits = slice D P0 N ∧ res.err = none ∧ res.q = 0 ∧ J s' N) ∨
  (D.length - P0 < N ∧ res.n = (N : Int) - ((D.length - P0 : Nat) : Int) ∧ res.bits = slice D P0 (D.length - P0) ∧
    res.err = some .eof ∧ res.q = 0 ∧ J s' (D.length - P0))

theorem readFullLoop_spec (fn : Rd → Nat → Int → Out) (D : Bits) (P0 N : Nat) (bitOff : Int) (J : Rd → Nat → Prop)
    (hfn : ∀ s t n, 0 < n → J s t → ∃ s' res, fn s n (bitOff + (t : Int)) = ok (s', res) ∧
      SoundAt D (P0 + t) n res ∧ J s' (t + res.bits.length)) :
    ∀ (fuel : Nat) (s : Rd) (p : List UInt8) (t : Nat), p.length = bitsByteCount N → t ≤ N → P0 + t ≤ D.length →
      (bytesToBits p).take t = slice D P0 t → N - t + 2 ≤ fuel → J s t →
      ∃ s' res, readFullLoop fn N bitOff fuel s p t 0 = ok (s', res) ∧ RFOK D P0 N J s' res := by
  intro fuel
  induction fuel with
  | zero => intro s p t _ _ _ _ h; omega
  | succ fuel ih =>
    intro s p t hpl htN hin hpre hf hJ
    have hbb := bitsByteCount_bounds N
    have hpbits : (bytesToBits p).length = 8 * bitsByteCount N := by rw [bytesToBits_length, hpl]
    unfold readFullLoop
    by_cases hdone : ¬ t < N
    · -- all bits read
      have htN' : t = N := by omega
      subst htN'
      simp only [hdone, not_false_eq_true, if_true]
      exact ⟨s, _, rfl, Or.inl ⟨by omega, rfl, hpre, rfl, rfl, hJ⟩⟩
    · simp only [hdone, if_false]
      have hlt : t < N := by omega
      -- common tail: given the sub-read and the new buffer, either return the error or go round
      have tail : ∀ (s1 : Rd) (r : Res) (p1 : List UInt8) (n1 : Nat), 0 < n1 → n1 ≤ N - t →
          SoundAt D (P0 + t) n1 r → J s1 (t + r.bits.length) → p1.length = bitsByteCount N →
          (bytesToBits p1).take (t + r.bits.length) = slice D P0 (t + r.bits.length) →
          ∃ s' res, (if r.err.isSome = true then
              ok (s1, { n := (N : Int) - ((t + r.bits.length : Nat) : Int), bits := (bytesToBits p1).take (t + r.bits.length),
                        err := r.err, q := 0 ||| r.q })
            else readFullLoop fn N bitOff fuel s1 p1 (t + r.bits.length) (0 ||| r.q)) = ok (s', res) ∧
            RFOK D P0 N J s' res := by
        intro s1 r p1 n1 hn1 hn1N hs hJ1 hp1 hpre1
        have hk := hs.le
        have hq : r.q = 0 := hs.noq
        simp only [hq, Nat.or_zero]
        have hin1 : P0 + t + r.bits.length ≤ D.length := by
          rcases hs.inb with h | h
          · exact h
          · rw [h]; simpa using hin
        by_cases he : r.err.isSome = true
        · simp only [he, if_true]
          -- an error: it is EOF at the logical end, and not everything was there
          have hnone : r.err ≠ none := by intro h; rw [h] at he; cases he
          have heof : r.err = some .eof := by
            rcases hs.errs with h | h | ⟨_, h, _⟩
            · exact absurd h hnone
            · exact h
            · omega
          have hend := hs.eof heof
          have hshort : D.length - P0 < N := by
            apply Nat.lt_of_not_le
            intro hle
            exact hnone (hs.inside hn1 (by omega))
          refine ⟨s1, _, rfl, Or.inr ⟨hshort, ?_, ?_, heof, rfl, ?_⟩⟩
          · simp only; omega
          · simp only; rw [hpre1]; congr 1; omega
          · rw [show D.length - P0 = t + r.bits.length by omega]; exact hJ1
        · simp only [he, if_false]
          have hnone : r.err = none := by
            cases h : r.err with
            | none => rfl
            | some e => rw [h] at he; simp at he
          have hprog : r.bits ≠ [] := by
            by_cases hlt' : P0 + t < D.length
            · exact hs.prog hnone hn1 hlt'
            · exact absurd hnone (hs.endErr (by omega) hn1)
          have hkpos : 0 < r.bits.length := List.length_pos_iff.mpr hprog
          exact ih s1 p1 (t + r.bits.length) hp1 (by omega) (by omega) hpre1 (by omega) hJ1
      by_cases hpart : (8 - t % 8) % 8 ≠ 0 ∨ N - t < 8
      · -- a partial byte: at most 8 bits through a one-byte buffer and Write64
        simp only [hpart, if_true]
        generalize hrb : (if (8 - t % 8) % 8 = 0 ∨ N - t < (8 - t % 8) % 8 then N - t else (8 - t % 8) % 8) = rb
        have hrbp : 0 < rb ∧ rb ≤ 8 ∧ rb ≤ N - t := by
          rw [← hrb]; split <;> omega
        obtain ⟨s1, r, h1, hs, hJ1⟩ := hfn s t rb hrbp.1 hJ
        rw [h1]
        simp only [ok_bind]
        have hk8 : r.bits.length ≤ 8 := by have := hs.le; omega
        simp only [show ¬ r.bits.length > 8 by omega, if_false, pb0_val r.bits hk8]
        have hvlt := ofBitsBE_lt r.bits
        obtain ⟨p1, e1, l1, b1⟩ := write64_spec' (ofBitsBE r.bits) r.bits.length p t
          (by have := hs.le; omega) (by omega) hvlt
        rw [e1]
        simp only [ok_bind]
        refine tail s1 r p1 rb hrbp.1 hrbp.2.2 hs hJ1 (by omega) ?_
        rw [b1, toBitsBE_ofBitsBE, take_splice_prefix _ _ _ _ rfl (by have := hs.le; omega), hpre, slice_add]
        congr 1
        exact hs.bits
      · -- whole bytes: read straight into p[byteOffset:]
        simp only [hpart, if_false]
        have hal : t % 8 = 0 ∧ 8 ≤ N - t := by omega
        obtain ⟨s1, r, h1, hs, hJ1⟩ := hfn s t (N - t) (by omega) hJ
        rw [h1]
        simp only [ok_bind]
        have hwl : (packR r.bits).length = bitsByteCount r.bits.length := packR_length _
        have hwb := bitsByteCount_bounds r.bits.length
        have hkl := hs.le
        have hfit : t / 8 + (packR r.bits).length ≤ p.length := by
          rw [hwl, hpl]
          have h1' : bitsByteCount r.bits.length ≤ bitsByteCount (N - t) := by
            unfold bitsByteCount; split <;> split <;> omega
          have h2' : t / 8 + bitsByteCount (N - t) = bitsByteCount N := by
            unfold bitsByteCount; split <;> split <;> omega
          omega
        refine tail s1 r _ (N - t) (by omega) (Nat.le_refl _) hs hJ1 ?_ ?_
        · simp only [List.length_append, List.length_take, List.length_drop]; omega
        · rw [bytesToBits_splice_bytes, bytesToBits_packR, show 8 * (t / 8) = t by omega]
          rw [← List.append_assoc, List.append_assoc _ (List.replicate _ _) _,
            List.take_append_of_le_length (by simp; omega)]
          rw [List.take_of_length_le (by simp; omega), hpre, slice_add]
          congr 1
          exact hs.bits

theorem bytesToBits_take_zero (p : List UInt8) (D : Bits) (P0 : Nat) : (bytesToBits p).take 0 = slice D P0 0 := by
  simp [slice_zero_len]

/-- bitio.ReadAtFull over a well-formed reader -/
theorem readAtFull_spec (d : Nat) (r : Rd) (h : WFd d r) (N off : Nat) (hoff : off ≤ (den r).length) :
    ∃ r' res, readAtFull d r N (off : Int) = ok (r', res) ∧
      RFOK (den r) off N (fun s _ => WFd d s ∧ den s = den r) r' res := by
  unfold readAtFull
  refine readFullLoop_spec _ (den r) off N (off : Int) _ ?_ (N + 2) r _ 0 (by simp) (Nat.zero_le _) (by omega)
    (bytesToBits_take_zero _ _ _) (by omega) ⟨h, rfl⟩
  intro s t n hn ⟨hs1, hs2⟩
  obtain ⟨s', res, h1, h2, h3, h4⟩ := readAt_sound' d s hs1 n (off + t)
  refine ⟨s', res, ?_, by rw [← hs2]; exact h2, h3, by rw [h4, hs2]⟩
  rw [← h1]; congr 2

/-- bitio.ReadFull over a well-formed reader with a ReadBits method, from its current position -/
theorem readFull_spec (d : Nat) (r : Rd) (h : WFd d r) (hrd : isReader r = true) (N : Nat)
    (hpos : posOf r ≤ (den r).length) :
    ∃ r' res, readFull d r N = ok (r', res) ∧
      RFOK (den r) (posOf r) N (fun s t => WFAt d (den r) s (posOf r + t)) r' res := by
  unfold readFull
  refine readFullLoop_spec _ (den r) (posOf r) N 0 _ ?_ (N + 2) r _ 0 (by simp) (Nat.zero_le _) (by omega)
    (bytesToBits_take_zero _ _ _) (by omega) ⟨h, hrd, rfl, rfl⟩
  intro s t n hn ⟨hs1, hs2, hs3, hs4⟩
  obtain ⟨s', res, h1, h2, h3, h4, h5, h6⟩ := read_sound' d s hs1 hs2 n
  exact ⟨s', res, h1, by rw [← hs3, ← hs4]; exact h2, ⟨h3, h5, by rw [h4, hs3], by rw [h6, hs4]; omega⟩⟩

end Proofs.C01
