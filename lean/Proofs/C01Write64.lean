import FqModel.Bitio
import Proofs.C01Bits
import Proofs.C01Read64
/-! C01 — Write64 replaces exactly bits [firstBit, firstBit+nBits) by the big-endian bits of v. -/
set_option linter.unusedSimpArgs false
namespace Proofs.C01
open FqModel FqModel.Bitio Outcome

/-- `bits` with the segment starting at `off` replaced by `new` -/
def splice (bits : Bits) (off : Nat) (new : Bits) : Bits := bits.take off ++ new ++ bits.drop (off + new.length)

theorem splice_nil (bits : Bits) (off : Nat) : splice bits off [] = bits := by
  simp [splice]

theorem splice_length (bits : Bits) (off : Nat) (new : Bits) (h : off + new.length ≤ bits.length) :
    (splice bits off new).length = bits.length := by
  simp [splice]; omega

theorem splice_splice (bits : Bits) (p : Nat) (A B : Bits) (h : p + A.length + B.length ≤ bits.length) :
    splice (splice bits p A) (p + A.length) B = splice bits p (A ++ B) := by
  simp only [splice, List.length_append]
  have h1 : List.take (p + A.length) (List.take p bits ++ A ++ List.drop (p + A.length) bits) = List.take p bits ++ A := by
    rw [List.take_append_of_le_length (by simp; omega)]
    exact List.take_of_length_le (by simp; omega)
  have h2 : List.drop (p + A.length + B.length) (List.take p bits ++ A ++ List.drop (p + A.length) bits)
      = List.drop (p + (A.length + B.length)) bits := by
    rw [List.drop_append, List.drop_eq_nil_of_le (by simp; omega), List.nil_append, List.drop_drop]
    congr 1; simp; omega
  rw [h1, h2]; simp only [List.append_assoc]

theorem bytesToBits_set (buf : List UInt8) (i : Nat) (b' : UInt8) (hi : i < buf.length) :
    bytesToBits (buf.set i b') = splice (bytesToBits buf) (8 * i) (byteToBits b') := by
  rw [List.set_eq_take_append_cons_drop, if_pos hi, bytesToBits_append, bytesToBits_cons, bytesToBits_take,
    bytesToBits_drop]
  simp only [splice, byteToBits_length, List.append_assoc]
  rw [show 8 * (i + 1) = 8 * i + 8 by omega]

theorem setIdx_eq (buf : List UInt8) (i v : Nat) (hi : i < buf.length) :
    setIdx buf i v = ok (buf.set i (UInt8.ofNat (v % 256))) := by simp [setIdx, hi]

theorem byteToBits_ofNat_mod (v : Nat) : byteToBits (UInt8.ofNat (v % 256)) = toBitsBE 8 v := by
  rw [byteToBits_ofNat]; exact toBitsBE_mod 8 8 v (Nat.le_refl _)

/-- buf[i] = byte(v): bits [8i, 8i+8) become the low 8 bits of v -/
theorem setIdx_bits (buf : List UInt8) (i v : Nat) (hi : i < buf.length) :
    ∃ buf', setIdx buf i v = ok buf' ∧ buf'.length = buf.length ∧
      bytesToBits buf' = splice (bytesToBits buf) (8 * i) (toBitsBE 8 v) := by
  refine ⟨_, setIdx_eq buf i v hi, by simp, ?_⟩
  rw [bytesToBits_set _ _ _ hi, byteToBits_ofNat_mod]

/-- be.PutUintK: k bytes of x, big endian -/
theorem putBE_bits : ∀ (k : Nat) (buf : List UInt8) (pos x : Nat), pos + k ≤ buf.length →
    ∃ buf', putBE buf pos k x = ok buf' ∧ buf'.length = buf.length ∧
      bytesToBits buf' = splice (bytesToBits buf) (8 * pos) (toBitsBE (8 * k) x) := by
  intro k
  induction k with
  | zero => intro buf pos x _; exact ⟨buf, rfl, rfl, by simp [toBitsBE, splice_nil]⟩
  | succ k ih =>
    intro buf pos x h
    obtain ⟨b1, h1, hl1, hb1⟩ := setIdx_bits buf pos (x >>> (8 * k)) (by omega)
    obtain ⟨b2, h2, hl2, hb2⟩ := ih b1 (pos + 1) x (by omega)
    refine ⟨b2, ?_, by omega, ?_⟩
    · simp only [putBE, h1, ok_bind, h2]
    · rw [hb2, hb1]
      have := splice_splice (bytesToBits buf) (8 * pos) (toBitsBE 8 (x >>> (8 * k))) (toBitsBE (8 * k) x)
        (by simp only [toBitsBE_length, bytesToBits_length]; omega)
      rw [toBitsBE_length] at this
      rw [show 8 * (pos + 1) = 8 * pos + 8 by omega, this, Nat.shiftRight_eq_div_pow,
        show 8 * (k + 1) = 8 + 8 * k by omega, toBitsBE_add]

/-- the aligned fast path of Write64 (readwrite64.go:113-143): the eight `bytesLeft` cases -/
theorem write64Fast_bits (v : Nat) (buf : List UInt8) (pos j : Nat) (h1 : 1 ≤ j) (h8 : j ≤ 8) (hb : pos + j ≤ buf.length) :
    ∃ buf', write64Fast v buf pos j = ok buf' ∧ buf'.length = buf.length ∧
      bytesToBits buf' = splice (bytesToBits buf) (8 * pos) (toBitsBE (8 * j) v) := by
  have hj : j = 1 ∨ j = 2 ∨ j = 3 ∨ j = 4 ∨ j = 5 ∨ j = 6 ∨ j = 7 ∨ j = 8 := by omega
  unfold write64Fast
  rcases hj with rfl | rfl | rfl | rfl | rfl | rfl | rfl | rfl
  · -- 1 byte(s)
    obtain ⟨b0, e0, l0, s0⟩ := setIdx_bits buf pos v (by omega)
    refine ⟨b0, by simp only [e0, ok_bind], by omega, ?_⟩
    rw [s0]
  · -- 2 byte(s)
    obtain ⟨b0, e0, l0, s0⟩ := putBE_bits 2 buf pos v (by omega)
    refine ⟨b0, by simp only [e0, ok_bind], by omega, ?_⟩
    rw [s0]
  · -- 3 byte(s)
    obtain ⟨b0, e0, l0, s0⟩ := putBE_bits 2 buf pos (v >>> 8) (by omega)
    obtain ⟨b1, e1, l1, s1⟩ := setIdx_bits b0 (pos + 2) v (by omega)
    refine ⟨b1, by simp only [e0, e1, ok_bind], by omega, ?_⟩
    rw [s1, s0, show 8 * (pos + 2) = 8 * pos + (toBitsBE 16 (v >>> 8)).length by rw [toBitsBE_length]; omega,
      splice_splice _ _ _ _ (by simp only [toBitsBE_length, bytesToBits_length]; omega), Nat.shiftRight_eq_div_pow,
      ← toBitsBE_add 16 8 v]
  · -- 4 byte(s)
    obtain ⟨b0, e0, l0, s0⟩ := putBE_bits 4 buf pos v (by omega)
    refine ⟨b0, by simp only [e0, ok_bind], by omega, ?_⟩
    rw [s0]
  · -- 5 byte(s)
    obtain ⟨b0, e0, l0, s0⟩ := putBE_bits 4 buf pos (v >>> 8) (by omega)
    obtain ⟨b1, e1, l1, s1⟩ := setIdx_bits b0 (pos + 4) v (by omega)
    refine ⟨b1, by simp only [e0, e1, ok_bind], by omega, ?_⟩
    rw [s1, s0, show 8 * (pos + 4) = 8 * pos + (toBitsBE 32 (v >>> 8)).length by rw [toBitsBE_length]; omega,
      splice_splice _ _ _ _ (by simp only [toBitsBE_length, bytesToBits_length]; omega), Nat.shiftRight_eq_div_pow,
      ← toBitsBE_add 32 8 v]
  · -- 6 byte(s)
    obtain ⟨b0, e0, l0, s0⟩ := putBE_bits 4 buf pos (v >>> 16) (by omega)
    obtain ⟨b1, e1, l1, s1⟩ := putBE_bits 2 b0 (pos + 4) v (by omega)
    refine ⟨b1, by simp only [e0, e1, ok_bind], by omega, ?_⟩
    rw [s1, s0, show 8 * (pos + 4) = 8 * pos + (toBitsBE 32 (v >>> 16)).length by rw [toBitsBE_length]; omega,
      splice_splice _ _ _ _ (by simp only [toBitsBE_length, bytesToBits_length]; omega), Nat.shiftRight_eq_div_pow,
      ← toBitsBE_add 32 16 v]
  · -- 7 byte(s)
    obtain ⟨b0, e0, l0, s0⟩ := putBE_bits 4 buf pos (v >>> 24) (by omega)
    obtain ⟨b1, e1, l1, s1⟩ := putBE_bits 2 b0 (pos + 4) (v >>> 8) (by omega)
    obtain ⟨b2, e2, l2, s2⟩ := setIdx_bits b1 (pos + 6) v (by omega)
    refine ⟨b2, by simp only [e0, e1, e2, ok_bind], by omega, ?_⟩
    rw [s2, s1, s0, show 8 * (pos + 4) = 8 * pos + (toBitsBE 32 (v >>> 24)).length by rw [toBitsBE_length]; omega,
      splice_splice _ _ _ _ (by simp only [toBitsBE_length, bytesToBits_length]; omega),
      show 8 * (pos + 6) = 8 * pos + (toBitsBE 32 (v >>> 24) ++ toBitsBE 16 (v >>> 8)).length by
        simp only [List.length_append, toBitsBE_length]; omega,
      splice_splice _ _ _ _ (by simp only [List.length_append, toBitsBE_length, bytesToBits_length]; omega),
      Nat.shiftRight_eq_div_pow, Nat.shiftRight_eq_div_pow, List.append_assoc, ← toBitsBE_add 16 8 v,
      ← toBitsBE_add 32 24 v]
  · -- 8 byte(s)
    obtain ⟨b0, e0, l0, s0⟩ := putBE_bits 8 buf pos v (by omega)
    refine ⟨b0, by simp only [e0, ok_bind], by omega, ?_⟩
    rw [s0]

/-! ### the three partial-byte writes: mask facts about one byte (finite, `decide`), the rest is algebra -/

/-- :160 `bMask := byte((1<<byteBitPos)-1) << (8 - byteBitPos)` keeps the `lo` high bits -/
theorem f_mask_hi : ∀ b : Fin 256, ∀ lo : Fin 8,
    b.val &&& (((((1 <<< lo.val) - 1) % 256) <<< (8 - lo.val)) % 256) = (b.val / 2 ^ (8 - lo.val)) * 2 ^ (8 - lo.val) := by
  decide +kernel

/-- :167 `bMask := byte(((1<<byteBitPos)-1)<<(8-byteBitPos) | ((1 << extraBits) - 1))` keeps the `lo` high and `e` low bits -/
theorem f_mask_hilo : ∀ b : Fin 256, ∀ lo : Fin 8, ∀ e : Fin 8, lo.val + e.val ≤ 8 →
    b.val &&& (((((1 <<< lo.val) - 1) <<< (8 - lo.val)) ||| ((1 <<< e.val) - 1)) % 256)
      = (b.val / 2 ^ (8 - lo.val)) * 2 ^ (8 - lo.val) + b.val % 2 ^ e.val := by
  decide +kernel

/-- :151 / :168 `byte(v) << extraBits` -/
theorem f_shl : ∀ v : Fin 256, ∀ e : Fin 8, ((v.val % 256) <<< e.val) % 256 = (v.val % 2 ^ (8 - e.val)) * 2 ^ e.val := by
  decide +kernel

/-- `a+b` bits of `h·2^b + l` (l < 2^b) are the `a` bits of h followed by the `b` bits of l -/
theorem toBitsBE_concat (a b h l : Nat) (hl : l < 2 ^ b) :
    toBitsBE (a + b) (h * 2 ^ b + l) = toBitsBE a h ++ toBitsBE b l := by
  rw [toBitsBE_add]
  congr 1
  · congr 1
    rw [Nat.mul_comm, Nat.mul_add_div (Nat.two_pow_pos _), Nat.div_eq_of_lt hl, Nat.add_zero]
  · rw [← toBitsBE_mod b b _ (Nat.le_refl _), Nat.mul_comm, Nat.mul_add_mod, Nat.mod_eq_of_lt hl]

theorem take_toBitsBE8 (b lo : Nat) (h : lo ≤ 8) : (toBitsBE 8 b).take lo = toBitsBE lo (b / 2 ^ (8 - lo)) := by
  have := toBitsBE_add lo (8 - lo) b
  rw [show lo + (8 - lo) = 8 by omega] at this
  rw [this, List.take_left' (toBitsBE_length _ _)]

theorem drop_toBitsBE8 (b j : Nat) (h : j ≤ 8) : (toBitsBE 8 b).drop j = toBitsBE (8 - j) b := by
  have := toBitsBE_add j (8 - j) b
  rw [show j + (8 - j) = 8 by omega] at this
  rw [this, List.drop_left' (toBitsBE_length _ _)]

/-- :160-161 partial head, rest of the byte filled -/
theorem w_head_full (b lo x : Nat) (hb : b < 256) (h1 : 1 ≤ lo) (h8 : lo < 8) (hx : x < 2 ^ (8 - lo)) :
    toBitsBE 8 ((b &&& (((((1 <<< lo) - 1) % 256) <<< (8 - lo)) % 256)) ||| (x % 256))
      = (toBitsBE 8 b).take lo ++ toBitsBE (8 - lo) x := by
  have hm := f_mask_hi ⟨b, hb⟩ ⟨lo, h8⟩
  simp only at hm
  have hx256 : x < 256 := by
    have : 2 ^ (8 - lo) ≤ 2 ^ 8 := Nat.pow_le_pow_right (by omega) (by omega)
    omega
  rw [hm, Nat.mod_eq_of_lt hx256, or_add (8 - lo) _ _ hx (Nat.mul_mod_left _ _), take_toBitsBE8 _ _ (by omega)]
  have := toBitsBE_concat lo (8 - lo) (b / 2 ^ (8 - lo)) x hx
  rwa [show lo + (8 - lo) = 8 by omega] at this

/-- :151 partial tail at a byte boundary -/
theorem w_tail (b k v : Nat) (hb : b < 256) (h1 : 1 ≤ k) (h8 : k < 8) :
    toBitsBE 8 ((((v % 256) <<< (8 - k)) % 256) ||| (b &&& ((1 <<< (8 - k)) - 1)))
      = toBitsBE k v ++ (toBitsBE 8 b).drop k := by
  have hs := f_shl ⟨v % 256, Nat.mod_lt _ (by omega)⟩ ⟨8 - k, by omega⟩
  simp only [Nat.mod_mod] at hs
  rw [hs, and_mask, show 8 - (8 - k) = k by omega,
    or_add (8 - k) _ _ (Nat.mod_lt _ (Nat.two_pow_pos _)) (Nat.mul_mod_left _ _), drop_toBitsBE8 _ _ (by omega)]
  have := toBitsBE_concat k (8 - k) (v % 256 % 2 ^ k) (b % 2 ^ (8 - k)) (Nat.mod_lt _ (Nat.two_pow_pos _))
  rw [show k + (8 - k) = 8 by omega] at this
  rw [this, toBitsBE_mod k k _ (Nat.le_refl _), toBitsBE_mod (8 - k) (8 - k) b (Nat.le_refl _)]
  congr 1
  have := toBitsBE_mod k 8 v (by omega)
  simpa using this

/-- :166-168 partial head that also ends inside the byte -/
theorem w_head_short (b lo k v : Nat) (hb : b < 256) (h1 : 1 ≤ lo) (hk : 1 ≤ k) (h8 : lo + k < 8) (hv : v < 2 ^ k) :
    toBitsBE 8 ((b &&& ((((((1 <<< lo) - 1) <<< (8 - lo)) ||| ((1 <<< (8 - lo - k)) - 1))) % 256))
        ||| (((v % 256) <<< (8 - lo - k)) % 256))
      = (toBitsBE 8 b).take lo ++ toBitsBE k v ++ (toBitsBE 8 b).drop (lo + k) := by
  have hm := f_mask_hilo ⟨b, hb⟩ ⟨lo, by omega⟩ ⟨8 - lo - k, by omega⟩ (by simp only; omega)
  simp only at hm
  have hv256 : v < 256 := by
    have : 2 ^ k ≤ 2 ^ 8 := Nat.pow_le_pow_right (by omega) (by omega)
    omega
  have hs := f_shl ⟨v, hv256⟩ ⟨8 - lo - k, by omega⟩
  simp only at hs
  have hvk : v % 2 ^ (8 - (8 - lo - k)) = v := by
    apply Nat.mod_eq_of_lt
    have : 2 ^ k ≤ 2 ^ (8 - (8 - lo - k)) := Nat.pow_le_pow_right (by omega) (by omega)
    omega
  rw [hm, hs, hvk]
  -- (H·P + L) ||| V = H·P + (V + L)
  have hL : b % 2 ^ (8 - lo - k) < 2 ^ (8 - lo - k) := Nat.mod_lt _ (Nat.two_pow_pos _)
  have hP : 2 ^ (8 - lo) = 2 ^ k * 2 ^ (8 - lo - k) := by rw [← Nat.pow_add]; congr 1; omega
  have hVL : v * 2 ^ (8 - lo - k) + b % 2 ^ (8 - lo - k) < 2 ^ (8 - lo) := by
    rw [hP]
    have := acc_bound v (b % 2 ^ (8 - lo - k)) (2 ^ k) (8 - lo - k) hv hL
    exact this
  have hLP : b % 2 ^ (8 - lo - k) < 2 ^ (8 - lo) := by omega
  rw [← or_add (8 - lo) _ _ hLP (Nat.mul_mod_left _ _), Nat.or_assoc,
    Nat.or_comm (b % 2 ^ (8 - lo - k)), or_add (8 - lo - k) _ _ hL (Nat.mul_mod_left _ _),
    or_add (8 - lo) _ _ hVL (Nat.mul_mod_left _ _)]
  have c1 := toBitsBE_concat lo (8 - lo) (b / 2 ^ (8 - lo)) _ hVL
  rw [show lo + (8 - lo) = 8 by omega] at c1
  have c2 := toBitsBE_concat k (8 - lo - k) v _ hL
  rw [show k + (8 - lo - k) = 8 - lo by omega] at c2
  rw [c1, c2, take_toBitsBE8 _ _ (by omega), drop_toBitsBE8 _ _ (by omega),
    toBitsBE_mod (8 - lo - k) (8 - lo - k) b (Nat.le_refl _), show 8 - (lo + k) = 8 - lo - k by omega,
    List.append_assoc]

theorem splice_inner (P bb Z X : Bits) (lo k : Nat) (hX : X.length = k) (hbb : lo + k ≤ bb.length) :
    splice (P ++ bb ++ Z) P.length (bb.take lo ++ X ++ bb.drop (lo + k)) = splice (P ++ bb ++ Z) (P.length + lo) X := by
  have hnew : (bb.take lo ++ X ++ bb.drop (lo + k)).length = bb.length := by simp; omega
  simp only [splice, hnew, hX]
  have t1 : List.take P.length (P ++ bb ++ Z) = P := by
    rw [List.append_assoc, List.take_left' rfl]
  have d1 : List.drop (P.length + bb.length) (P ++ bb ++ Z) = Z := by
    rw [← List.length_append, List.drop_left' rfl]
  have t2 : List.take (P.length + lo) (P ++ bb ++ Z) = P ++ bb.take lo := by
    rw [List.append_assoc, List.take_append, List.take_of_length_le (by omega), Nat.add_sub_cancel_left,
      List.take_append_of_le_length (by omega)]
  have d2 : List.drop (P.length + lo + k) (P ++ bb ++ Z) = bb.drop (lo + k) ++ Z := by
    rw [List.append_assoc, Nat.add_assoc, List.drop_append, List.drop_eq_nil_of_le (by omega), List.nil_append,
      Nat.add_sub_cancel_left, List.drop_append_of_le_length (by omega)]
  rw [t1, d1, t2, d2]; simp only [List.append_assoc]

theorem bits_decomp (buf : List UInt8) (i : Nat) (hi : i < buf.length) :
    bytesToBits buf = (bytesToBits buf).take (8 * i) ++ byteToBits buf[i] ++ (bytesToBits buf).drop (8 * i + 8) := by
  have hd : (bytesToBits buf).drop (8 * i) = byteToBits buf[i] ++ bytesToBits (buf.drop (i + 1)) := by
    rw [← bytesToBits_drop, List.drop_eq_getElem_cons hi, bytesToBits_cons]
  have h2 : (bytesToBits buf).drop (8 * i + 8) = bytesToBits (buf.drop (i + 1)) := by
    rw [bytesToBits_drop, show 8 * (i + 1) = 8 * i + 8 by omega]
  rw [h2, List.append_assoc, ← hd, List.take_append_drop]

/-- buf[i] = newv where the bits of newv are those of the old byte with bits [lo, lo+k) replaced by X -/
theorem set_byte_bits (buf : List UInt8) (i newv lo k : Nat) (X : Bits) (hi : i < buf.length) (hX : X.length = k)
    (hlk : lo + k ≤ 8)
    (hnew : toBitsBE 8 newv = (toBitsBE 8 buf[i].toNat).take lo ++ X ++ (toBitsBE 8 buf[i].toNat).drop (lo + k)) :
    ∃ buf', setIdx buf i newv = ok buf' ∧ buf'.length = buf.length ∧
      bytesToBits buf' = splice (bytesToBits buf) (8 * i + lo) X := by
  obtain ⟨buf', h1, h2, h3⟩ := setIdx_bits buf i newv hi
  refine ⟨buf', h1, h2, ?_⟩
  rw [h3, hnew]
  have hdec := bits_decomp buf i hi
  have hPl : ((bytesToBits buf).take (8 * i)).length = 8 * i := by
    rw [List.length_take, bytesToBits_length]; omega
  have := splice_inner ((bytesToBits buf).take (8 * i)) (byteToBits buf[i]) ((bytesToBits buf).drop (8 * i + 8)) X lo k hX
    (by rw [byteToBits_length]; exact hlk)
  rw [← hdec, hPl] at this
  exact this

theorem toBitsBE_split (n k v : Nat) (hk : k ≤ n) :
    toBitsBE n v = toBitsBE k (v / 2 ^ (n - k)) ++ toBitsBE (n - k) v := by
  have := toBitsBE_add k (n - k) v
  rwa [show k + (n - k) = n by omega] at this

/-- loop invariant of Write64: the remaining `bitsLeft` low bits of v are written at bitPos, nothing else changes.
    At an unaligned position (only the first iteration) v must fit bitsLeft bits — Write64 does not mask v. -/
theorem write64Loop_spec (v : Nat) : ∀ (fuel : Nat) (buf : List UInt8) (bitPos bitsLeft : Nat),
    bitsLeft < fuel → bitPos + bitsLeft ≤ 8 * buf.length → bitsLeft ≤ 64 → (bitPos % 8 ≠ 0 → v < 2 ^ bitsLeft) →
    ∃ buf', write64Loop v fuel buf bitPos bitsLeft = ok buf' ∧ buf'.length = buf.length ∧
      bytesToBits buf' = splice (bytesToBits buf) bitPos (toBitsBE bitsLeft v) := by
  intro fuel
  induction fuel with
  | zero => intro buf bitPos bitsLeft h; omega
  | succ fuel ih =>
    intro buf bitPos bitsLeft hf hr h64 hv
    unfold write64Loop
    by_cases h0 : bitsLeft = 0
    · subst h0; exact ⟨buf, by simp, rfl, by simp [toBitsBE, splice_nil]⟩
    · simp only [h0, if_false, and7, shr3]
      by_cases hfast : bitPos % 8 = 0 ∧ bitsLeft % 8 = 0
      · simp only [hfast, and_self, if_true]
        have hb : ¬ (bitPos / 8 + bitsLeft / 8 > buf.length) := by omega
        simp only [hb, if_false]
        obtain ⟨buf', h1, h2, h3⟩ := write64Fast_bits v buf (bitPos / 8) (bitsLeft / 8) (by omega) (by omega) (by omega)
        refine ⟨buf', h1, h2, ?_⟩
        rw [h3, show 8 * (bitPos / 8) = bitPos by omega, show 8 * (bitsLeft / 8) = bitsLeft by omega]
      · simp only [hfast, if_false]
        have hi : bitPos / 8 < buf.length := by omega
        simp only [List.getElem?_eq_getElem hi]
        have hbyte := buf[bitPos / 8].toNat_lt
        have hlo : bitPos = 8 * (bitPos / 8) + bitPos % 8 := by omega
        by_cases hal : bitPos % 8 = 0
        · simp only [hal, if_true]
          by_cases h8 : bitsLeft ≥ 8
          · simp only [h8, if_true]
            obtain ⟨b1, e1, l1, s1⟩ := setIdx_bits buf (bitPos / 8) (v >>> (bitsLeft - 8)) hi
            obtain ⟨b2, e2, l2, s2⟩ := ih b1 (bitPos + 8) (bitsLeft - 8) (by omega) (by omega) (by omega) (by omega)
            refine ⟨b2, by simp only [e1, ok_bind, e2], by omega, ?_⟩
            rw [s2, s1, show 8 * (bitPos / 8) = bitPos by omega,
              show bitPos + 8 = bitPos + (toBitsBE 8 (v >>> (bitsLeft - 8))).length by rw [toBitsBE_length],
              splice_splice _ _ _ _ (by simp only [toBitsBE_length, bytesToBits_length]; omega),
              Nat.shiftRight_eq_div_pow, ← toBitsBE_split bitsLeft 8 v h8]
          · simp only [h8, if_false]
            have hw := w_tail buf[bitPos / 8].toNat bitsLeft v hbyte (by omega) (by omega)
            obtain ⟨b1, e1, l1, s1⟩ := set_byte_bits buf (bitPos / 8) _ 0 bitsLeft (toBitsBE bitsLeft v) hi
              (toBitsBE_length _ _) (by omega) (by rw [hw]; simp)
            refine ⟨b1, e1, l1, ?_⟩
            rw [s1, show 8 * (bitPos / 8) + 0 = bitPos by omega]
        · simp only [hal, if_false]
          have hbbl : (8 - bitPos % 8) % 8 = 8 - bitPos % 8 := by omega
          simp only [hbbl]
          have hvv := hv hal
          by_cases hge : bitsLeft ≥ 8 - bitPos % 8
          · simp only [hge, if_true]
            have hx : v / 2 ^ (bitsLeft - (8 - bitPos % 8)) < 2 ^ (8 - bitPos % 8) := by
              apply Nat.div_lt_of_lt_mul
              rw [← Nat.pow_add, show bitsLeft - (8 - bitPos % 8) + (8 - bitPos % 8) = bitsLeft by omega]
              exact hvv
            have hw := w_head_full buf[bitPos / 8].toNat (bitPos % 8) _ hbyte (by omega) (by omega) hx
            rw [← Nat.shiftRight_eq_div_pow] at hw
            obtain ⟨b1, e1, l1, s1⟩ := set_byte_bits buf (bitPos / 8) _ (bitPos % 8) (8 - bitPos % 8)
              (toBitsBE (8 - bitPos % 8) (v >>> (bitsLeft - (8 - bitPos % 8)))) hi
              (toBitsBE_length _ _) (by omega)
              (by rw [hw, show bitPos % 8 + (8 - bitPos % 8) = 8 by omega,
                    List.drop_eq_nil_of_le (by rw [toBitsBE_length]; omega), List.append_nil])
            obtain ⟨b2, e2, l2, s2⟩ := ih b1 (bitPos + (8 - bitPos % 8)) (bitsLeft - (8 - bitPos % 8))
              (by omega) (by omega) (by omega) (by omega)
            refine ⟨b2, by simp only [e1, ok_bind, e2], by omega, ?_⟩
            rw [s2, s1, ← hlo,
              show bitPos + (8 - bitPos % 8) = bitPos + (toBitsBE (8 - bitPos % 8) (v >>> (bitsLeft - (8 - bitPos % 8)))).length by
                rw [toBitsBE_length],
              splice_splice _ _ _ _ (by simp only [toBitsBE_length, bytesToBits_length]; omega),
              Nat.shiftRight_eq_div_pow, ← toBitsBE_split bitsLeft (8 - bitPos % 8) v hge]
          · simp only [hge, if_false]
            have hw := w_head_short buf[bitPos / 8].toNat (bitPos % 8) bitsLeft v hbyte (by omega) (by omega) (by omega) hvv
            obtain ⟨b1, e1, l1, s1⟩ := set_byte_bits buf (bitPos / 8) _ (bitPos % 8) bitsLeft (toBitsBE bitsLeft v) hi
              (toBitsBE_length _ _) (by omega) hw
            refine ⟨b1, e1, l1, ?_⟩
            rw [s1, ← hlo]

/-- C01 core: Write64 -/
theorem write64_spec' (v n : Nat) (buf : List UInt8) (off : Nat) (h : off + n ≤ 8 * buf.length) (hn : n ≤ 64)
    (hv : v < 2 ^ n) :
    ∃ buf', write64 v n buf off = ok buf' ∧ buf'.length = buf.length ∧
      bytesToBits buf' = (bytesToBits buf).take off ++ toBitsBE n v ++ (bytesToBits buf).drop (off + n) := by
  unfold write64
  simp only [show ¬ n > 64 by omega, if_false]
  obtain ⟨buf', h1, h2, h3⟩ := write64Loop_spec v (n + 1) buf off n (by omega) h hn (fun _ => hv)
  refine ⟨buf', h1, h2, ?_⟩
  rw [h3, splice, toBitsBE_length]

end Proofs.C01
