import FqModel.Bitio
import Proofs.C01Bits
import Proofs.C01Read64
/-! C01 — Write64 replaces exactly bits [firstBit, firstBit+nBits) by the big-endian bits of v. -/
set_option linter.unusedSimpArgs false
namespace Proofs.C01
open FqModel FqModel.Bitio Outcome

/-- `bits` with the segment starting at `off` replaced by `new` -/
def splice (bits : Bits) (off : Nat) (new : Bits) : Bits := bits.take off ++ new ++ bits.drop (off + new.length)

theorem splice_nil (bits : Bits) (off : Nat) : splice bits off [] = bits := by
  simp [splice]

theorem splice_length (bits : Bits) (off : Nat) (new : Bits) (h : off + new.length ≤ bits.length) :
    (splice bits off new).length = bits.length := by
  simp [splice]; omega

theorem splice_splice (bits : Bits) (p : Nat) (A B : Bits) (h : p + A.length + B.length ≤ bits.length) :
    splice (splice bits p A) (p + A.length) B = splice bits p (A ++ B) := by
  simp only [splice, List.length_append]
  have h1 : List.take (p + A.length) (List.take p bits ++ A ++ List.drop (p + A.length) bits) = List.take p bits ++ A := by
    rw [List.take_append_of_le_length (by simp; omega)]
    exact List.take_of_length_le (by simp; omega)
  have h2 : List.drop (p + A.length + B.length) (List.take p bits ++ A ++ List.drop (p + A.length) bits)
      = List.drop (p + (A.length + B.length)) bits := by
    rw [List.drop_append, List.drop_eq_nil_of_le (by simp; omega), List.nil_append, List.drop_drop]
    congr 1; simp; omega
  rw [h1, h2]; simp only [List.append_assoc]

theorem bytesToBits_set (buf : List UInt8) (i : Nat) (b' : UInt8) (hi : i < buf.length) :
    bytesToBits (buf.set i b') = splice (bytesToBits buf) (8 * i) (byteToBits b') := by
  rw [List.set_eq_take_append_cons_drop, if_pos hi, bytesToBits_append, bytesToBits_cons, bytesToBits_take,
    bytesToBits_drop]
  simp only [splice, byteToBits_length, List.append_assoc]
  rw [show 8 * (i + 1) = 8 * i + 8 by omega]

theorem setIdx_eq (buf : List UInt8) (i v : Nat) (hi : i < buf.length) :
    setIdx buf i v = ok (buf.set i (UInt8.ofNat (v % 256))) := by simp [setIdx, hi]

theorem byteToBits_ofNat_mod (v : Nat) : byteToBits (UInt8.ofNat (v % 256)) = toBitsBE 8 v := by
  rw [byteToBits_ofNat]; exact toBitsBE_mod 8 8 v (Nat.le_refl _)

/-- buf[i] = byte(v): bits [8i, 8i+8) become the low 8 bits of v -/
theorem setIdx_bits (buf : List UInt8) (i v : Nat) (hi : i < buf.length) :
    ∃ buf', setIdx buf i v = ok buf' ∧ buf'.length = buf.length ∧
      bytesToBits buf' = splice (bytesToBits buf) (8 * i) (toBitsBE 8 v) := by
  refine ⟨_, setIdx_eq buf i v hi, by simp, ?_⟩
  rw [bytesToBits_set _ _ _ hi, byteToBits_ofNat_mod]

/-- be.PutUintK: k bytes of x, big endian -/
theorem putBE_bits : ∀ (k : Nat) (buf : List UInt8) (pos x : Nat), pos + k ≤ buf.length →
    ∃ buf', putBE buf pos k x = ok buf' ∧ buf'.length = buf.length ∧
      bytesToBits buf' = splice (bytesToBits buf) (8 * pos) (toBitsBE (8 * k) x) := by
  intro k
  induction k with
  | zero => intro buf pos x _; exact ⟨buf, rfl, rfl, by simp [toBitsBE, splice_nil]⟩
  | succ k ih =>
    intro buf pos x h
    obtain ⟨b1, h1, hl1, hb1⟩ := setIdx_bits buf pos (x >>> (8 * k)) (by omega)
    obtain ⟨b2, h2, hl2, hb2⟩ := ih b1 (pos + 1) x (by omega)
    refine ⟨b2, ?_, by omega, ?_⟩
    · simp only [putBE, h1, ok_bind, h2]
    · rw [hb2, hb1]
      have := splice_splice (bytesToBits buf) (8 * pos) (toBitsBE 8 (x >>> (8 * k))) (toBitsBE (8 * k) x)
        (by simp only [toBitsBE_length, bytesToBits_length]; omega)
      rw [toBitsBE_length] at this
      rw [show 8 * (pos + 1) = 8 * pos + 8 by omega, this, Nat.shiftRight_eq_div_pow,
        show 8 * (k + 1) = 8 + 8 * k by omega, toBitsBE_add]

/-- the aligned fast path of Write64 (readwrite64.go:113-143): the eight `bytesLeft` cases -/
theorem write64Fast_bits (v : Nat) (buf : List UInt8) (pos j : Nat) (h1 : 1 ≤ j) (h8 : j ≤ 8) (hb : pos + j ≤ buf.length) :
    ∃ buf', write64Fast v buf pos j = ok buf' ∧ buf'.length = buf.length ∧
      bytesToBits buf' = splice (bytesToBits buf) (8 * pos) (toBitsBE (8 * j) v) := by
  have hj : j = 1 ∨ j = 2 ∨ j = 3 ∨ j = 4 ∨ j = 5 ∨ j = 6 ∨ j = 7 ∨ j = 8 := by omega
  unfold write64Fast
  rcases hj with rfl | rfl | rfl | rfl | rfl | rfl | rfl | rfl
  · -- 1 byte(s)
    obtain ⟨b0, e0, l0, s0⟩ := setIdx_bits buf pos v (by omega)
    refine ⟨b0, by simp only [e0, ok_bind], by omega, ?_⟩
    rw [s0]
  · -- 2 byte(s)
    obtain ⟨b0, e0, l0, s0⟩ := putBE_bits 2 buf pos v (by omega)
    refine ⟨b0, by simp only [e0, ok_bind], by omega, ?_⟩
    rw [s0]
  · -- 3 byte(s)
    obtain ⟨b0, e0, l0, s0⟩ := putBE_bits 2 buf pos (v >>> 8) (by omega)
    obtain ⟨b1, e1, l1, s1⟩ := setIdx_bits b0 (pos + 2) v (by omega)
    refine ⟨b1, by simp only [e0, e1, ok_bind], by omega, ?_⟩
    rw [s1, s0, show 8 * (pos + 2) = 8 * pos + (toBitsBE 16 (v >>> 8)).length by rw [toBitsBE_length]; omega,
      splice_splice _ _ _ _ (by simp only [toBitsBE_length, bytesToBits_length]; omega), Nat.shiftRight_eq_div_pow,
      ← toBitsBE_add 16 8 v]
  · -- 4 byte(s)
    obtain ⟨b0, e0, l0, s0⟩ := putBE_bits 4 buf pos v (by omega)
    refine ⟨b0, by simp only [e0, ok_bind], by omega, ?_⟩
    rw [s0]
  · -- 5 byte(s)
    obtain ⟨b0, e0, l0, s0⟩ := putBE_bits 4 buf pos (v >>> 8) (by omega)
    obtain ⟨b1, e1, l1, s1⟩ := setIdx_bits b0 (pos + 4) v (by omega)
    refine ⟨b1, by simp only [e0, e1, ok_bind], by omega, ?_⟩
    rw [s1, s0, show 8 * (pos + 4) = 8 * pos + (toBitsBE 32 (v >>> 8)).length by rw [toBitsBE_length]; omega,
      splice_splice _ _ _ _ (by simp only [toBitsBE_length, bytesToBits_length]; omega), Nat.shiftRight_eq_div_pow,
      ← toBitsBE_add 32 8 v]
  · -- 6 byte(s)
    obtain ⟨b0, e0, l0, s0⟩ := putBE_bits 4 buf pos (v >>> 16) (by omega)
    obtain ⟨b1, e1, l1, s1⟩ := putBE_bits 2 b0 (pos + 4) v (by omega)
    refine ⟨b1, by simp only [e0, e1, ok_bind], by omega, ?_⟩
    rw [s1, s0, show 8 * (pos + 4) = 8 * pos + (toBitsBE 32 (v >>> 16)).length by rw [toBitsBE_length]; omega,
      splice_splice _ _ _ _ (by simp only [toBitsBE_length, bytesToBits_length]; omega), Nat.shiftRight_eq_div_pow,
      ← toBitsBE_add 32 16 v]
  · -- 7 byte(s)
    obtain ⟨b0, e0, l0, s0⟩ := putBE_bits 4 buf pos (v >>> 24) (by omega)
    obtain ⟨b1, e1, l1, s1⟩ := putBE_bits 2 b0 (pos + 4) (v >>> 8) (by omega)
    obtain ⟨b2, e2, l2, s2⟩ := setIdx_bits b1 (pos + 6) v (by omega)
    refine ⟨b2, by simp only [e0, e1, e2, ok_bind], by omega, ?_⟩
    rw [s2, s1, s0, show 8 * (pos + 4) = 8 * pos + (toBitsBE 32 (v >>> 24)).length by rw [toBitsBE_length]; omega,
      splice_splice _ _ _ _ (by simp only [toBitsBE_length, bytesToBits_length]; omega),
      show 8 * (pos + 6) = 8 * pos + (toBitsBE 32 (v >>> 24) ++ toBitsBE 16 (v >>> 8)).length by
        simp only [List.length_append, toBitsBE_length]; omega,
      splice_splice _ _ _ _ (by simp only [List.length_append, toBitsBE_length, bytesToBits_length]; omega),
      Nat.shiftRight_eq_div_pow, Nat.shiftRight_eq_div_pow, List.append_assoc, ← toBitsBE_add 16 8 v,
      ← toBitsBE_add 32 24 v]
  · -- 8 byte(s)
    obtain ⟨b0, e0, l0, s0⟩ := putBE_bits 8 buf pos v (by omega)
    refine ⟨b0, by simp only [e0, ok_bind], by omega, ?_⟩
    rw [s0]

/-! ### the three partial-byte writes, as facts about one byte (finite, `decide`) -/

/-- :160-161 partial head, the rest of the byte is filled: `b&bMask | byte(v>>(bitsLeft-byteBitsLeft))` -/
theorem w_head_full : ∀ b : Fin 256, ∀ lo : Fin 8, ∀ x : Fin 128, 1 ≤ lo.val → x.val < 2 ^ (8 - lo.val) →
    toBitsBE 8 ((b.val &&& (((((1 <<< lo.val) - 1) % 256) <<< (8 - lo.val)) % 256)) ||| (x.val % 256))
      = (toBitsBE 8 b.val).take lo.val ++ toBitsBE (8 - lo.val) x.val := by
  decide +kernel

/-- :151 partial tail at a byte boundary: `byte(v)<<extraBits | b&((1<<extraBits)-1)` -/
theorem w_tail : ∀ b : Fin 256, ∀ k : Fin 8, ∀ v : Fin 256, 1 ≤ k.val →
    toBitsBE 8 ((((v.val % 256) <<< (8 - k.val)) % 256) ||| (b.val &&& ((1 <<< (8 - k.val)) - 1)))
      = toBitsBE k.val v.val ++ (toBitsBE 8 b.val).drop k.val := by
  decide +kernel

end Proofs.C01
