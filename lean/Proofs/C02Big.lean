import FqModel.Scalar
import Proofs.C02Int
import Proofs.C02Le
import Proofs.C02Leb
/-! C02 helper lemmas: arbitrary width integers (tryBigIntEndianSign). Core Lean only. -/
namespace Proofs.C02
open FqModel FqModel.Scalar

theorem chunks8_nil (f : Nat) : chunks8 f [] = [] := by cases f <;> simp [chunks8]

theorem chunks8_flatten (f : Nat) : ∀ (rd : Bits), rd.length < 8 * f + 1 → 
    (chunks8 f rd).flatten = rd ++ List.replicate ((8 - rd.length % 8) % 8) false := by
  induction f with
  | zero => intro rd h; have : rd = [] := List.eq_nil_of_length_eq_zero (by omega); subst this; simp [chunks8]
  | succ f ih =>
    intro rd h
    by_cases he : rd = []
    · subst he; simp [chunks8]
    · have hpos : 0 < rd.length := List.length_pos_iff.mpr he
      have hemp : rd.isEmpty = false := by simp [he]
      simp only [chunks8, hemp, Bool.false_eq_true, if_false, List.flatten_cons]
      by_cases h8 : 8 ≤ rd.length
      · have htl : (rd.take 8).length = 8 := by simp [List.length_take]; omega
        rw [htl, ih (rd.drop 8) (by simp; omega)]
        have hl : (rd.drop 8).length = rd.length - 8 := by simp
        have hm : (rd.length - 8) % 8 = rd.length % 8 := by omega
        rw [hl, hm]
        simp only [Nat.sub_self, List.replicate_zero, List.append_nil]
        rw [← List.append_assoc, List.take_append_drop]
      · have htk : rd.take 8 = rd := List.take_of_length_le (by omega)
        have hdr : rd.drop 8 = [] := List.drop_of_length_le (by omega)
        rw [htk, hdr, chunks8_nil]
        have hm : (8 - rd.length % 8) % 8 = 8 - rd.length := by omega
        rw [hm]; simp

theorem bytesOf_flatten (rd : Bits) :
    (bytesOf rd).flatten = rd ++ List.replicate ((8 - rd.length % 8) % 8) false :=
  chunks8_flatten _ rd (by omega)

theorem ofBitsBE_zeros (k : Nat) : ofBitsBE (List.replicate k false) = 0 := by
  induction k with
  | zero => simp [ofBitsBE]
  | succ k ih => rw [List.replicate_succ, ofBitsBE_cons, ih]; simp

theorem ofBitsBE_pad (rd : Bits) (k : Nat) : ofBitsBE (rd ++ List.replicate k false) = ofBitsBE rd * 2 ^ k := by
  rw [ofBitsBE_append, ofBitsBE_zeros]; simp

/-- the first bit is the top bit of the value -/
theorem head_bit (l : Bits) (h : l ≠ []) : (l.head? = some true) ↔ 2 ^ (l.length - 1) ≤ ofBitsBE l := by
  cases l with
  | nil => exact absurd rfl h
  | cons b t =>
    have ht := ofBitsBE_lt t
    rw [ofBitsBE_cons]
    simp only [List.head?_cons, List.length_cons, Nat.add_sub_cancel]
    cases b <;> simp <;> omega

theorem rshInt_mul (a : Int) (k : Nat) : rshInt (a * (2 ^ k : Int)) k = a := by
  unfold rshInt
  exact Int.mul_ediv_cancel a (by have : (0 : Int) < 2 ^ k := Int.pow_pos (by decide); omega)

/-- big-endian big integer of ANY width (not only whole bytes), unsigned or two's complement -/
theorem bigInt_be (bs : Bits) (pos n : Nat) (sign : Bool) (h : pos + n ≤ bs.length) :
    tryBigIntEndianSign bs pos n .be sign
      = .ok (if sign then signedOf n (ofBitsBE (slice bs pos n)) else (ofBitsBE (slice bs pos n) : Int)) (pos + n) := by
  have hl : (slice bs pos n).length = n := slice_length bs pos n h
  unfold tryBigIntEndianSign
  rw [tryBits_ok bs pos n h]
  simp only [Res.bind, show (Endian.be == Endian.le) = false by decide, Bool.false_eq_true, if_false]
  rw [bytesOf_flatten, hl]
  generalize hrd : slice bs pos n = rd at hl
  congr 1
  rw [ofBitsBE_pad]
  by_cases hn : n = 0
  · subst hn
    have : rd = [] := List.eq_nil_of_length_eq_zero hl
    subst this
    cases sign <;> simp [ofBitsBE, rshInt, signedOf]
  · have hne : rd ≠ [] := by intro h0; rw [h0] at hl; simp at hl; omega
    have hhead : (rd ++ List.replicate ((8 - n % 8) % 8) false).head? = rd.head? := by
      cases rd with
      | nil => exact absurd rfl hne
      | cons b t => simp
    have hb := head_bit rd hne
    rw [hl] at hb
    rw [hhead]
    have hlen2 : (rd ++ List.replicate ((8 - n % 8) % 8) false).length = n + (8 - n % 8) % 8 := by simp [hl]
    rw [hlen2]
    cases sign
    · simp only [Bool.false_and, Bool.false_eq_true, if_false]
      have := rshInt_mul (ofBitsBE rd : Int) ((8 - n % 8) % 8)
      simpa using this
    · simp only [Bool.true_and, if_true, signedOf]
      by_cases ht : rd.head? = some true
      · have hge := hb.mp ht
        simp only [ht, beq_self_eq_true, if_true, hge]
        have e : ((ofBitsBE rd * 2 ^ ((8 - n % 8) % 8) : Nat) : Int) - ((2 ^ (n + (8 - n % 8) % 8) : Nat) : Int)
            = ((ofBitsBE rd : Int) - ((2 ^ n : Nat) : Int)) * (2 ^ ((8 - n % 8) % 8) : Int) := by
          rw [Int.sub_mul, Nat.pow_add]; simp
        have e2 : ((2 : Int) ^ (n + (8 - n % 8) % 8)) = (((2 ^ (n + (8 - n % 8) % 8) : Nat)) : Int) := by simp
        rw [e2, e, rshInt_mul]
      · have hlt : ¬ 2 ^ (n - 1) ≤ ofBitsBE rd := fun hc => ht (hb.mpr hc)
        have hf : (rd.head? == some true) = false := by
          cases hh : rd.head? with
          | none => rfl
          | some b => cases b with
            | false => rfl
            | true => exact absurd hh ht
        simp only [hf, Bool.false_eq_true, if_false, hlt]
        have := rshInt_mul (ofBitsBE rd : Int) ((8 - n % 8) % 8)
        simpa using this


theorem ofBitsBE_flatten_reverse (cs : List Bits) (h : ∀ c ∈ cs, c.length = 8) :
    ofBitsBE cs.reverse.flatten = leVal (cs.map ofBitsBE) := by
  induction cs with
  | nil => simp [ofBitsBE, leVal]
  | cons c t ih =>
    have hc := h c (by simp)
    rw [List.reverse_cons, List.flatten_append, ofBitsBE_append, ih (fun x hx => h x (by simp [hx]))]
    simp only [List.flatten_cons, List.flatten_nil, List.append_nil, hc, List.map_cons, leVal, List.foldr_cons]
    omega

theorem flatten_reverse_length (cs : List Bits) : cs.reverse.flatten.length = cs.flatten.length := by
  induction cs with
  | nil => rfl
  | cons c t ih => simp [List.flatten_append, ih]; omega

/-- little-endian big integer at whole-byte widths, unsigned or two's complement -/
theorem bigInt_le (bs : Bits) (pos n : Nat) (sign : Bool) (hd : 8 ∣ n) (h : pos + n ≤ bs.length) :
    tryBigIntEndianSign bs pos n .le sign
      = .ok (if sign then signedOf n (leValue (slice bs pos n)) else (leValue (slice bs pos n) : Int)) (pos + n) := by
  have hl : (slice bs pos n).length = n := slice_length bs pos n h
  unfold tryBigIntEndianSign
  rw [tryBits_ok bs pos n h]
  simp only [Res.bind, show (Endian.le == Endian.le) = true by decide, if_true]
  generalize hrd : slice bs pos n = rd at hl
  have hpad : (8 - n % 8) % 8 = 0 := by omega
  have hu : ofBitsBE (bytesOf rd).reverse.flatten = leValue rd := by
    unfold bytesOf
    rw [ofBitsBE_flatten_reverse _ (chunks8_lt _ rd)]; rfl
  have hlen : (bytesOf rd).reverse.flatten.length = n := by
    rw [flatten_reverse_length, bytesOf_flatten, hl, hpad]; simp [hl]
  rw [hpad, hu, hlen]
  congr 1
  have hr0 : ∀ v : Int, rshInt v 0 = v := by intro v; simp [rshInt]
  rw [hr0]
  cases sign
  · simp
  · simp only [Bool.true_and, if_true, signedOf]
    by_cases hn : n = 0
    · subst hn
      have : rd = [] := List.eq_nil_of_length_eq_zero hl
      subst this
      simp [bytesOf, chunks8, leValue, byteVals]
    · have hne : (bytesOf rd).reverse.flatten ≠ [] := by
        intro h0; rw [h0] at hlen; simp at hlen; omega
      have hb := head_bit _ hne
      rw [hlen, hu] at hb
      by_cases ht : (bytesOf rd).reverse.flatten.head? = some true
      · simp [ht, hb.mp ht]
      · have hlt : ¬ 2 ^ (n - 1) ≤ leValue rd := fun hc => ht (hb.mpr hc)
        have hf : ((bytesOf rd).reverse.flatten.head? == some true) = false := by
          cases hh : (bytesOf rd).reverse.flatten.head? with
          | none => rfl
          | some b => cases b with
            | false => rfl
            | true => exact absurd hh ht
        simp [hf, hlt]

end Proofs.C02
