import Proofs.C02F16Base
import Proofs.C02F16a
import Proofs.C02F16b
import Proofs.C02F16c
import Proofs.C02F16d
/-! C02: `expandF16ToF32` is exact on all 65 536 half precision patterns (16 kernel-evaluated chunks
    of 4096 in Proofs/C02F16a..d.lean, lifted by `allRange_spec`). Core Lean only. -/
namespace Proofs.C02
open FqModel FqModel.Scalar

theorem f16_all (h : Nat) (hh : h < 65536) : f16ok h = true := by
  have e : (2 : Nat) ^ 12 = 4096 := by decide
  by_cases h0 : h < 4096
  · exact allRange_spec f16ok 12 0 f16_chunk0 h (by omega) (by omega)
  by_cases h1 : h < 8192
  · exact allRange_spec f16ok 12 4096 f16_chunk1 h (by omega) (by omega)
  by_cases h2 : h < 12288
  · exact allRange_spec f16ok 12 8192 f16_chunk2 h (by omega) (by omega)
  by_cases h3 : h < 16384
  · exact allRange_spec f16ok 12 12288 f16_chunk3 h (by omega) (by omega)
  by_cases h4 : h < 20480
  · exact allRange_spec f16ok 12 16384 f16_chunk4 h (by omega) (by omega)
  by_cases h5 : h < 24576
  · exact allRange_spec f16ok 12 20480 f16_chunk5 h (by omega) (by omega)
  by_cases h6 : h < 28672
  · exact allRange_spec f16ok 12 24576 f16_chunk6 h (by omega) (by omega)
  by_cases h7 : h < 32768
  · exact allRange_spec f16ok 12 28672 f16_chunk7 h (by omega) (by omega)
  by_cases h8 : h < 36864
  · exact allRange_spec f16ok 12 32768 f16_chunk8 h (by omega) (by omega)
  by_cases h9 : h < 40960
  · exact allRange_spec f16ok 12 36864 f16_chunk9 h (by omega) (by omega)
  by_cases h10 : h < 45056
  · exact allRange_spec f16ok 12 40960 f16_chunk10 h (by omega) (by omega)
  by_cases h11 : h < 49152
  · exact allRange_spec f16ok 12 45056 f16_chunk11 h (by omega) (by omega)
  by_cases h12 : h < 53248
  · exact allRange_spec f16ok 12 49152 f16_chunk12 h (by omega) (by omega)
  by_cases h13 : h < 57344
  · exact allRange_spec f16ok 12 53248 f16_chunk13 h (by omega) (by omega)
  by_cases h14 : h < 61440
  · exact allRange_spec f16ok 12 57344 f16_chunk14 h (by omega) (by omega)
  by_cases h15 : h < 65536
  · exact allRange_spec f16ok 12 61440 f16_chunk15 h (by omega) (by omega)
  omega

end Proofs.C02
