import FqModel.Scalar
/-! C02: `expandF16ToF32` is exact on all 65 536 half precision patterns — shared definitions for
    the kernel evaluation in Proofs/C02F16a..d.lean. Core Lean only. -/
namespace Proofs.C02
open FqModel FqModel.Scalar

def allRange (f : Nat → Bool) : Nat → Nat → Bool
  | 0, lo => f lo
  | d+1, lo => allRange f d lo && allRange f d (lo + 2 ^ d)

theorem allRange_spec (f : Nat → Bool) : ∀ d lo, allRange f d lo = true → ∀ h, lo ≤ h → h < lo + 2 ^ d → f h = true := by
  intro d
  induction d with
  | zero =>
    intro lo h0 h h1 h2
    have : h = lo := by simp at h2; omega
    subst this; simpa [allRange] using h0
  | succ d ih =>
    intro lo h0 h h1 h2
    simp only [allRange, Bool.and_eq_true] at h0
    rw [Nat.pow_succ] at h2
    by_cases hc : h < lo + 2 ^ d
    · exact ih lo h0.1 h h1 hc
    · exact ih (lo + 2 ^ d) h0.2 h (by omega) (by omega)

def f16ok (h : Nat) : Bool := (val32 (expandF16ToF32 h)).same (val16 h)

end Proofs.C02
