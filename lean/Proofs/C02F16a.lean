import Proofs.C02F16Base
/-! C02: float16 patterns 0 .. 16383, kernel evaluation in chunks of 4096 -/
namespace Proofs.C02
open FqModel FqModel.Scalar

set_option maxRecDepth 100000

theorem f16_chunk0 : allRange f16ok 12 0 = true := by decide +kernel
theorem f16_chunk1 : allRange f16ok 12 4096 = true := by decide +kernel
theorem f16_chunk2 : allRange f16ok 12 8192 = true := by decide +kernel
theorem f16_chunk3 : allRange f16ok 12 12288 = true := by decide +kernel

end Proofs.C02
