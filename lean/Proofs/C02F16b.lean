import Proofs.C02F16Base
/-! C02: float16 patterns 16384 .. 32767, kernel evaluation in chunks of 4096 -/
namespace Proofs.C02
open FqModel FqModel.Scalar

set_option maxRecDepth 100000

theorem f16_chunk4 : allRange f16ok 12 16384 = true := by decide +kernel
theorem f16_chunk5 : allRange f16ok 12 20480 = true := by decide +kernel
theorem f16_chunk6 : allRange f16ok 12 24576 = true := by decide +kernel
theorem f16_chunk7 : allRange f16ok 12 28672 = true := by decide +kernel

end Proofs.C02
