import Proofs.C02F16Base
/-! C02: float16 patterns 32768 .. 49151, kernel evaluation in chunks of 4096 -/
namespace Proofs.C02
open FqModel FqModel.Scalar

set_option maxRecDepth 100000

theorem f16_chunk8 : allRange f16ok 12 32768 = true := by decide +kernel
theorem f16_chunk9 : allRange f16ok 12 36864 = true := by decide +kernel
theorem f16_chunk10 : allRange f16ok 12 40960 = true := by decide +kernel
theorem f16_chunk11 : allRange f16ok 12 45056 = true := by decide +kernel

end Proofs.C02
