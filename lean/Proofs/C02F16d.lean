import Proofs.C02F16Base
/-! C02: float16 patterns 49152 .. 65535, kernel evaluation in chunks of 4096 -/
namespace Proofs.C02
open FqModel FqModel.Scalar

set_option maxRecDepth 100000

theorem f16_chunk12 : allRange f16ok 12 49152 = true := by decide +kernel
theorem f16_chunk13 : allRange f16ok 12 53248 = true := by decide +kernel
theorem f16_chunk14 : allRange f16ok 12 57344 = true := by decide +kernel
theorem f16_chunk15 : allRange f16ok 12 61440 = true := by decide +kernel

end Proofs.C02
