import FqModel.Scalar
/-! C02 helper lemmas: floats (binary80 → binary64, fixed point). Core Lean only. -/
namespace Proofs.C02
open FqModel FqModel.Scalar

theorem clampInf_lt (b : Nat) : clampInf b < 2 ^ 63 := by
  unfold clampInf
  have : (0x7FF0000000000000 : Nat) < 2 ^ 63 := by decide
  split <;> omega

theorem roundMag_lt (m : Nat) (e : Int) : roundMag m e < 2 ^ 63 := by
  unfold roundMag
  split
  · decide
  · exact clampInf_lt _

theorem roundF64_pos_lt (m : Nat) (e : Int) : roundF64 false m e < 2 ^ 63 := by
  have := roundMag_lt m e
  simp only [roundF64, Bool.false_eq_true, if_false, Nat.zero_add]
  exact this

theorem roundF64_neg (m : Nat) (e : Int) : roundF64 true m e = roundF64 false m e + 2 ^ 63 := by
  simp [roundF64]; omega

/-- Float80.Float64 as fixed IS the specification: one correct rounding of the exact value -/
theorem f80to64_eq_spec (se m : Nat) (hse : se < 2 ^ 16) : f80to64 se m = f80to64Spec se m := by
  have hsign : se >>> 15 = se / 2 ^ 15 := Nat.shiftRight_eq_div_pow se 15
  have hex : se &&& 0x7FFF = se % 2 ^ 15 := by
    have : (0x7FFF : Nat) = 2 ^ 15 - 1 := by decide
    rw [this, Nat.and_two_pow_sub_one_eq_mod]
  have hfrac : m &&& 0x7FFFFFFFFFFFFFFF = m % 2 ^ 63 := by
    have : (0x7FFFFFFFFFFFFFFF : Nat) = 2 ^ 63 - 1 := by decide
    rw [this, Nat.and_two_pow_sub_one_eq_mod]
  have hs2 : se / 2 ^ 15 < 2 := by
    have : (2:Nat) ^ 16 = 2 ^ 15 * 2 := by decide
    exact Nat.div_lt_of_lt_mul (by omega)
  unfold f80to64 f80to64Spec val80
  simp only [hsign, hex, hfrac]
  by_cases hx : se % 2 ^ 15 = 0x7FFF
  · simp only [hx, if_true]
    by_cases hm : m % 2 ^ 63 = 0
    · simp only [hm, ne_eq, not_true_eq_false, if_false, if_true, encode64]
      by_cases hsg : se / 2 ^ 15 = 0
      · simp [hsg]
      · have : se / 2 ^ 15 = 1 := by omega
        simp [this]
    · simp [hm, encode64]
  · simp only [hx, if_false, encode64]
    have hexp : ((if se % 2 ^ 15 = 0 then 1 else se % 2 ^ 15 : Nat) : Int)
        = (if se % 2 ^ 15 = 0 then 1 else Int.ofNat (se % 2 ^ 15)) := by
      split <;> simp
    rw [hexp]
    by_cases hsg : se / 2 ^ 15 = 0
    · simp [hsg]
    · have h1 : se / 2 ^ 15 = 1 := by omega
      have hlt := roundF64_pos_lt m ((if se % 2 ^ 15 = 0 then 1 else Int.ofNat (se % 2 ^ 15)) - 16383 - 63)
      have hnot : ¬ roundF64 false m ((if se % 2 ^ 15 = 0 then 1 else Int.ofNat (se % 2 ^ 15)) - 16383 - 63) ≥ 2 ^ 63 := by omega
      simp only [h1, ne_eq, Nat.succ_ne_zero, not_false_eq_true, if_true, hnot, if_false]
      have : (1 % 2 == 1) = true := by decide
      rw [this, roundF64_neg]

end Proofs.C02
