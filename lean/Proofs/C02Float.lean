import FqModel.Scalar
/-! C02 helper lemmas: floats (binary80 → binary64, fixed point). Core Lean only. -/
namespace Proofs.C02
open FqModel FqModel.Scalar

theorem clampInf_lt (b : Nat) : clampInf b < 2 ^ 63 := by
  unfold clampInf
  have : (0x7FF0000000000000 : Nat) < 2 ^ 63 := by decide
  split <;> omega

theorem roundMag_lt (m : Nat) (e : Int) : roundMag m e < 2 ^ 63 := by
  unfold roundMag
  split
  · decide
  · exact clampInf_lt _

theorem roundF64_pos_lt (m : Nat) (e : Int) : roundF64 false m e < 2 ^ 63 := by
  have := roundMag_lt m e
  simp only [roundF64, Bool.false_eq_true, if_false, Nat.zero_add]
  exact this

theorem roundF64_neg (m : Nat) (e : Int) : roundF64 true m e = roundF64 false m e + 2 ^ 63 := by
  simp [roundF64]; omega

/-- Float80.Float64 as fixed IS the specification: one correct rounding of the exact value -/
theorem f80to64_eq_spec (se m : Nat) (hse : se < 2 ^ 16) : f80to64 se m = f80to64Spec se m := by
  have hsign : se >>> 15 = se / 2 ^ 15 := Nat.shiftRight_eq_div_pow se 15
  have hex : se &&& 0x7FFF = se % 2 ^ 15 := by
    have : (0x7FFF : Nat) = 2 ^ 15 - 1 := by decide
    rw [this, Nat.and_two_pow_sub_one_eq_mod]
  have hfrac : m &&& 0x7FFFFFFFFFFFFFFF = m % 2 ^ 63 := by
    have : (0x7FFFFFFFFFFFFFFF : Nat) = 2 ^ 63 - 1 := by decide
    rw [this, Nat.and_two_pow_sub_one_eq_mod]
  have hs2 : se / 2 ^ 15 < 2 := by
    have : (2:Nat) ^ 16 = 2 ^ 15 * 2 := by decide
    exact Nat.div_lt_of_lt_mul (by omega)
  unfold f80to64 f80to64Spec val80
  simp only [hsign, hex, hfrac]
  by_cases hx : se % 2 ^ 15 = 0x7FFF
  · simp only [hx, if_true]
    by_cases hm : m % 2 ^ 63 = 0
    · simp only [hm, ne_eq, not_true_eq_false, if_false, if_true, encode64]
      by_cases hsg : se / 2 ^ 15 = 0
      · simp [hsg]
      · have : se / 2 ^ 15 = 1 := by omega
        simp [this]
    · simp [hm, encode64]
  · simp only [hx, if_false, encode64]
    have hnegF : ∀ e : Int, negF64 (roundF64 false m e) = roundF64 true m e := by
      intro e
      have hlt := roundF64_pos_lt m e
      have : ¬ roundF64 false m e ≥ 2 ^ 63 := by omega
      simp only [negF64, this, if_false, roundF64_neg]
    by_cases hz : se % 2 ^ 15 = 0
    · simp only [hz, if_true]
      by_cases hsg : se / 2 ^ 15 = 0
      · simp [hsg]
      · have h1 : se / 2 ^ 15 = 1 := by omega
        have : (1 % 2 == 1) = true := by decide
        simp only [h1, ne_eq, Nat.succ_ne_zero, not_false_eq_true, if_true, hnegF, this]
        rfl
    · simp only [hz, if_false]
      by_cases hsg : se / 2 ^ 15 = 0
      · simp [hsg]
      · have h1 : se / 2 ^ 15 = 1 := by omega
        have : (1 % 2 == 1) = true := by decide
        simp only [h1, ne_eq, Nat.succ_ne_zero, not_false_eq_true, if_true, hnegF, this]
        rfl

/-! ### exactness of the rounding step on representable values -/

/-- normalised significand: m shifted so that its top bit is bit 52 -/
def norm53 (m : Nat) : Nat := m <<< (52 - m.log2)

theorem norm53_bounds (m : Nat) (hm0 : m ≠ 0) (hm : m < 2 ^ 53) : 2 ^ 52 ≤ norm53 m ∧ norm53 m < 2 ^ 53 := by
  have hL : m.log2 ≤ 52 := by have := (Nat.log2_lt hm0).mpr hm; omega
  have h1 := Nat.log2_self_le hm0
  have h2 := @Nat.lt_log2_self m
  unfold norm53
  rw [Nat.shiftLeft_eq]
  have e52 : 2 ^ 52 = 2 ^ m.log2 * 2 ^ (52 - m.log2) := by rw [← Nat.pow_add]; congr 1; omega
  have e53 : 2 ^ 53 = 2 ^ (m.log2 + 1) * 2 ^ (52 - m.log2) := by rw [← Nat.pow_add]; congr 1; omega
  have hpos : 0 < 2 ^ (52 - m.log2) := Nat.pos_of_ne_zero (by simp)
  constructor
  · rw [e52]; exact Nat.mul_le_mul_right _ h1
  · rw [e53]; exact Nat.mul_lt_mul_of_pos_right h2 hpos

/-- a value with at most 53 significant bits inside the binary64 normal range is encoded exactly:
    decoding the bits gives back the sign, the normalised significand and its exponent -/
theorem roundF64_exact (neg : Bool) (m : Nat) (e : Int) (hm0 : m ≠ 0) (hm : m < 2 ^ 53)
    (hlo : -1022 ≤ e + (m.log2 : Int)) (hhi : e + (m.log2 : Int) ≤ 1023) :
    val64 (roundF64 neg m e) = .fin neg (norm53 m) (e + (m.log2 : Int) - 52) := by
  have hL : m.log2 ≤ 52 := by have := (Nat.log2_lt hm0).mpr hm; omega
  obtain ⟨hr1, hr2⟩ := norm53_bounds m hm0 hm
  unfold roundF64 roundMag
  simp only [hm0, if_false]
  have hq : max (e + (m.log2 : Int) - 52) (-1074) = e + (m.log2 : Int) - 52 := by omega
  simp only [hq]
  have hge : e ≥ e + (m.log2 : Int) - 52 := by omega
  have hsh : (e - (e + (m.log2 : Int) - 52)).toNat = 52 - m.log2 := by omega
  simp only [hge, if_true, hsh]
  change val64 ((if neg = true then 2 ^ 63 else 0) + clampInf ((e + (m.log2 : Int) - 52 + 1074).toNat * 2 ^ 52 + norm53 m)) = _
  generalize hX : (e + (m.log2 : Int) - 52 + 1074).toNat = X
  have hXle : X ≤ 2045 := by omega
  have hXe : (X : Int) = e + (m.log2 : Int) + 1022 := by omega
  generalize norm53 m = r at hr1 hr2 ⊢
  have e52 : (2 : Nat) ^ 52 = 4503599627370496 := by decide
  have e53 : (2 : Nat) ^ 53 = 9007199254740992 := by decide
  have e63 : (2 : Nat) ^ 63 = 9223372036854775808 := by decide
  rw [e52] at hr1 ⊢; rw [e53] at hr2; rw [e63]
  have hclamp : clampInf (X * 4503599627370496 + r) = X * 4503599627370496 + r := by
    unfold clampInf
    have : ¬ (X * 4503599627370496 + r ≥ 0x7FF0000000000000) := by omega
    simp only [this, if_false]
  rw [hclamp]
  obtain ⟨s, hs, hsneg⟩ : ∃ s : Nat, (if neg = true then 9223372036854775808 else 0) = s * 9223372036854775808 ∧ (s == 1) = neg ∧ s ≤ 1 := by
    cases neg
    · exact ⟨0, by simp, by decide, by omega⟩
    · exact ⟨1, by simp, by decide, by omega⟩
  rw [hs]
  unfold val64 valIEEE
  have p52 : (2 : Nat) ^ 52 = 4503599627370496 := by decide
  have p11 : (2 : Nat) ^ 11 = 2048 := by decide
  have p63 : (2 : Nat) ^ (52 + 11) = 9223372036854775808 := by decide
  have p10 : ((2 : Int) ^ (11 - 1) - 1) = 1023 := by decide
  simp only [p52, p11, p63, p10]
  have hfrac : (s * 9223372036854775808 + (X * 4503599627370496 + r)) % 4503599627370496 = r - 4503599627370496 := by omega
  have hex : (s * 9223372036854775808 + (X * 4503599627370496 + r)) / 4503599627370496 % 2048 = X + 1 := by omega
  have hneg : (s * 9223372036854775808 + (X * 4503599627370496 + r)) / 9223372036854775808 % 2 = s := by omega
  rw [hfrac, hex, hneg]
  have h1 : ¬ (X + 1 = 2048 - 1) := by omega
  have h2 : ¬ (X + 1 = 0) := by omega
  simp only [h1, h2, if_false]
  have hr : 4503599627370496 + (r - 4503599627370496) = r := by omega
  have hexp : ((X + 1 : Nat) : Int) - 1023 - ((52 : Nat) : Int) = e + (m.log2 : Int) - 52 := by
    have : ((X + 1 : Nat) : Int) = (X : Int) + 1 := by simp
    rw [this, hXe]; omega
  rw [hr, hsneg.1, hexp]

theorem same_norm53 (neg : Bool) (m : Nat) (e : Int) (hL : m.log2 ≤ 52) :
    (IEEEVal.fin neg (norm53 m) (e + (m.log2 : Int) - 52)).same (.fin neg m e) = true := by
  have h1 : e + (m.log2 : Int) - 52 ≤ e := by omega
  have h2 : (e - (e + (m.log2 : Int) - 52)).toNat = 52 - m.log2 := by omega
  simp [IEEEVal.same, h1, h2, norm53]

theorem same_shift (neg : Bool) (m k : Nat) (e : Int) :
    (IEEEVal.fin neg (m <<< k) (e - (k : Int))).same (.fin neg m e) = true := by
  have h1 : e - (k : Int) ≤ e := by omega
  have h2 : (e - (e - (k : Int))).toNat = k := by omega
  simp [IEEEVal.same, h1, h2]

theorem log2_norm (r : Nat) (h1 : 2 ^ 52 ≤ r) (h2 : r < 2 ^ 53) : r.log2 = 52 := by
  have hr0 : r ≠ 0 := by
    have : 0 < 2 ^ 52 := Nat.pos_of_ne_zero (by simp)
    omega
  exact (Nat.log2_eq_iff hr0).mpr ⟨h1, h2⟩

/-- fixed point: when the integer read has at most 53 significant bits the result denotes exactly
    n / 2^f -/
theorem fpToF64_exact (u f : Nat) (hu : u < 2 ^ 53) (hf : f < 64) :
    (val64 (fpToF64 u f)).same (.fin false u (-(f : Int))) = true := by
  have hf' : ¬ f ≥ 64 := by omega
  by_cases hu0 : u = 0
  · subst hu0
    have h0 : u64ToF64 0 = 0 := by simp [u64ToF64, roundF64, roundMag]
    have hv : val64 0 = .fin false 0 (-1074) := by decide
    simp only [fpToF64, hf', if_false, h0, hv]
    have : roundF64 false 0 (-1074 - (f : Int)) = 0 := by simp [roundF64, roundMag]
    rw [this, hv]
    simp [IEEEVal.same]
  · have hL : u.log2 ≤ 52 := by have := (Nat.log2_lt hu0).mpr hu; omega
    have hv := roundF64_exact false u 0 hu0 hu (by omega) (by omega)
    obtain ⟨hr1, hr2⟩ := norm53_bounds u hu0 hu
    have hrl := log2_norm _ hr1 hr2
    have hr0 : norm53 u ≠ 0 := by
      have : 0 < 2 ^ 52 := Nat.pos_of_ne_zero (by simp)
      omega
    simp only [fpToF64, hf', if_false, u64ToF64, hv]
    have hv2 := roundF64_exact false (norm53 u) (0 + (u.log2 : Int) - 52 - (f : Int)) hr0 hr2
      (by rw [hrl]; omega) (by rw [hrl]; omega)
    rw [hv2, hrl]
    have hnn : norm53 (norm53 u) = norm53 u := by
      show (norm53 u) <<< (52 - (norm53 u).log2) = norm53 u
      rw [hrl]; simp
    rw [hnn]
    have hE : 0 + (u.log2 : Int) - 52 - (f : Int) + ((52 : Nat) : Int) - 52 = -(f : Int) - ((52 - u.log2 : Nat) : Int) := by omega
    rw [hE]
    exact same_shift false u (52 - u.log2) (-(f : Int))


theorem val32_fin_bounds (b : Nat) (neg : Bool) (m : Nat) (e : Int) (h : val32 b = .fin neg m e) :
    m < 2 ^ 24 ∧ -149 ≤ e ∧ e ≤ 104 := by
  unfold val32 valIEEE at h
  have p23 : (2 : Nat) ^ 23 = 8388608 := by decide
  have p8 : (2 : Nat) ^ 8 = 256 := by decide
  have p24 : (2 : Nat) ^ 24 = 16777216 := by decide
  have pb : ((2 : Int) ^ (8 - 1) - 1) = 127 := by decide
  simp only [p23, p8, pb] at h
  rw [p24]
  have hf : b % 8388608 < 8388608 := Nat.mod_lt _ (by decide)
  have hx : b / 8388608 % 256 < 256 := Nat.mod_lt _ (by decide)
  split at h
  · split at h <;> cases h
  · split at h
    · injection h with _ hm he
      subst hm; subst he
      refine ⟨by omega, by omega, by omega⟩
    · injection h with _ hm he
      subst hm; subst he
      refine ⟨by omega, by omega, by omega⟩

theorem nanbits (s p : Nat) (hp : p < 4194304) :
    val64 (s * 2 ^ 63 + 0x7FF8000000000000 + p * 2 ^ 29) = .nan := by
  have e : s * 2 ^ 63 + 0x7FF8000000000000 + p * 2 ^ 29
      = (s * 2048 + 2047) * 4503599627370496 + (2251799813685248 + p * 536870912) := by
    have : (2 : Nat) ^ 63 = 2048 * 4503599627370496 := by decide
    have : (2 : Nat) ^ 29 = 536870912 := by decide
    omega
  have hr : 2251799813685248 + p * 536870912 < 4503599627370496 := by omega
  have h1 : (s * 2048 + 2047) % 2048 = 2048 - 1 := by omega
  have h2 : ¬ (2251799813685248 + p * 536870912 = 0) := by omega
  rw [e]
  clear e
  unfold val64 valIEEE
  have p52 : (2 : Nat) ^ 52 = 4503599627370496 := by decide
  have p11 : (2 : Nat) ^ 11 = 2048 := by decide
  simp only [p52, p11]
  clear p52 p11
  have hdiv : ((s * 2048 + 2047) * 4503599627370496 + (2251799813685248 + p * 536870912)) / 4503599627370496
      = s * 2048 + 2047 := by
    rw [Nat.mul_comm, Nat.mul_add_div (by decide), Nat.div_eq_of_lt hr]
  have hmod : ((s * 2048 + 2047) * 4503599627370496 + (2251799813685248 + p * 536870912)) % 4503599627370496
      = 2251799813685248 + p * 536870912 := by
    rw [Nat.mul_comm, Nat.mul_add_mod, Nat.mod_eq_of_lt hr]
  rw [hdiv, hmod]
  simp only [h1, if_true, h2, if_false]

theorem val64_signed_zero : val64 0 = .fin false 0 (-1074) ∧ val64 (2 ^ 63) = .fin true 0 (-1074) := by
  decide +kernel

theorem val64_inf : val64 (0 + 0x7FF0000000000000) = .inf false ∧ val64 (2 ^ 63 + 0x7FF0000000000000) = .inf true := by
  decide +kernel

/-- Go `float64(x)` of a float32 is exact: the binary64 pattern denotes the same number -/
theorem widen32_exact (b : Nat) : (val64 (widen32 b)).same (val32 b) = true := by
  unfold widen32
  cases hv : val32 b with
  | nan =>
    simp only []
    have hp : b % 2 ^ 22 < 4194304 := Nat.mod_lt _ (by decide)
    rw [nanbits _ _ hp]; rfl
  | inf neg =>
    show (val64 (encode64 (.inf neg))).same (.inf neg) = true
    cases neg
    · simp only [encode64, Bool.false_eq_true, if_false]; rw [val64_inf.1]; rfl
    · simp only [encode64, if_true]; rw [val64_inf.2]; rfl
  | fin neg m e =>
    obtain ⟨hm, he1, he2⟩ := val32_fin_bounds b neg m e hv
    show (val64 (encode64 (.fin neg m e))).same (.fin neg m e) = true
    simp only [encode64]
    by_cases hm0 : m = 0
    · subst hm0
      have : val64 (roundF64 neg 0 e) = .fin neg 0 (-1074) := by
        have : roundF64 neg 0 e = if neg then 2 ^ 63 else 0 := by simp [roundF64, roundMag]
        rw [this]
        cases neg
        · simp only [Bool.false_eq_true, if_false]; exact val64_signed_zero.1
        · simp only [if_true]; exact val64_signed_zero.2
      rw [this]
      simp [IEEEVal.same]
    · have hL : m.log2 ≤ 23 := by have := (Nat.log2_lt hm0).mpr hm; omega
      have hm53 : m < 2 ^ 53 := by
        have : (2 : Nat) ^ 24 ≤ 2 ^ 53 := Nat.pow_le_pow_right (by decide) (by decide)
        omega
      rw [roundF64_exact neg m e hm0 hm53 (by omega) (by omega)]
      exact same_norm53 neg m e (by omega)


/-! ### fixed point for ALL integers: float64(n) / 2^f is ONE correct rounding of n / 2^f -/

/-- the significand of u rounded to 53 bits (round to nearest even), hidden bit at 2^52; may carry to 2^53 -/
def sig53 (u : Nat) : Nat := if u.log2 ≤ 52 then u <<< (52 - u.log2) else shiftRNE u (u.log2 - 52)

theorem sig53_bounds (u : Nat) (hu0 : u ≠ 0) : 2 ^ 52 ≤ sig53 u ∧ sig53 u ≤ 2 ^ 53 := by
  unfold sig53
  by_cases hL : u.log2 ≤ 52
  · simp only [hL, if_true]
    have hu : u < 2 ^ 53 := by
      have := @Nat.lt_log2_self u
      have : 2 ^ (u.log2 + 1) ≤ 2 ^ 53 := Nat.pow_le_pow_right (by decide) (by omega)
      omega
    have := norm53_bounds u hu0 hu
    unfold norm53 at this
    omega
  · simp only [hL, if_false]
    have hk : 1 ≤ u.log2 - 52 := by omega
    have h1 := Nat.log2_self_le hu0
    have h2 := @Nat.lt_log2_self u
    have hkpos : 0 < 2 ^ (u.log2 - 52) := Nat.pos_of_ne_zero (by simp)
    have eL : 2 ^ u.log2 = 2 ^ 52 * 2 ^ (u.log2 - 52) := by rw [← Nat.pow_add]; congr 1; omega
    have eL1 : 2 ^ (u.log2 + 1) = 2 ^ 53 * 2 ^ (u.log2 - 52) := by rw [← Nat.pow_add]; congr 1; omega
    have hq1 : 2 ^ 52 ≤ u / 2 ^ (u.log2 - 52) := (Nat.le_div_iff_mul_le hkpos).mpr (by omega)
    have hq2 : u / 2 ^ (u.log2 - 52) < 2 ^ 53 := (Nat.div_lt_iff_lt_mul hkpos).mpr (by omega)
    unfold shiftRNE
    have : ¬ (u.log2 - 52 = 0) := by omega
    simp only [this, if_false, Nat.shiftRight_eq_div_pow]
    split <;> omega

/-- in the binary64 normal range the rounding step is: exponent field from e + ⌊log2 u⌋, significand
    `sig53 u` — the significand does not depend on e -/
theorem roundMag_normal (u : Nat) (e : Int) (hu0 : u ≠ 0)
    (hlo : -1022 ≤ e + (u.log2 : Int)) (hhi : e + (u.log2 : Int) ≤ 1022) :
    roundMag u e = (e + (u.log2 : Int) + 1022).toNat * 2 ^ 52 + sig53 u := by
  obtain ⟨hs1, hs2⟩ := sig53_bounds u hu0
  unfold roundMag
  simp only [hu0, if_false]
  have hq : max (e + (u.log2 : Int) - 52) (-1074) = e + (u.log2 : Int) - 52 := by omega
  simp only [hq]
  have hX : (e + (u.log2 : Int) - 52 + 1074).toNat = (e + (u.log2 : Int) + 1022).toNat := by congr 1; omega
  rw [hX]
  have hr : (if e ≥ e + (u.log2 : Int) - 52 then u <<< (e - (e + (u.log2 : Int) - 52)).toNat
      else shiftRNE u (e + (u.log2 : Int) - 52 - e).toNat) = sig53 u := by
    unfold sig53
    by_cases hL : u.log2 ≤ 52
    · have h1 : e ≥ e + (u.log2 : Int) - 52 := by omega
      have h2 : (e - (e + (u.log2 : Int) - 52)).toNat = 52 - u.log2 := by omega
      simp only [h1, if_true, h2, hL]
    · have h1 : ¬ (e ≥ e + (u.log2 : Int) - 52) := by omega
      have h2 : (e + (u.log2 : Int) - 52 - e).toNat = u.log2 - 52 := by omega
      simp only [h1, if_false, h2, hL]
  rw [hr]
  generalize sig53 u = R at hs1 hs2 ⊢
  generalize hXv : (e + (u.log2 : Int) + 1022).toNat = X
  have hXle : X ≤ 2044 := by omega
  have e52 : (2 : Nat) ^ 52 = 4503599627370496 := by decide
  have e53 : (2 : Nat) ^ 53 = 9007199254740992 := by decide
  rw [e52] at hs1 ⊢; rw [e53] at hs2
  unfold clampInf
  have : ¬ (X * 4503599627370496 + R ≥ 0x7FF0000000000000) := by omega
  simp only [this, if_false]

/-- decoding exponent field X (0..2044 before the hidden bit / carry is added) and a significand in [2^52, 2^53] -/
theorem val64_fields (X R : Nat) (hX : X ≤ 2044) (h1 : 2 ^ 52 ≤ R) (h2 : R ≤ 2 ^ 53) :
    val64 (X * 2 ^ 52 + R) = .fin false (if R = 2 ^ 53 then 2 ^ 52 else R) ((X : Int) - 1074 + (if R = 2 ^ 53 then 1 else 0)) := by
  have e52 : (2 : Nat) ^ 52 = 4503599627370496 := by decide
  have e53 : (2 : Nat) ^ 53 = 9007199254740992 := by decide
  rw [e52] at h1 ⊢; rw [e53] at h2 ⊢
  unfold val64 valIEEE
  have p52 : (2 : Nat) ^ 52 = 4503599627370496 := by decide
  have p11 : (2 : Nat) ^ 11 = 2048 := by decide
  have p63 : (2 : Nat) ^ (52 + 11) = 9223372036854775808 := by decide
  have p10 : ((2 : Int) ^ (11 - 1) - 1) = 1023 := by decide
  simp only [p52, p11, p63, p10]
  have hb : ((0 : Nat) == 1) = false := by decide
  have hneg : (X * 4503599627370496 + R) / 9223372036854775808 % 2 = 0 := by omega
  rw [hneg, hb]
  by_cases hc : R = 9007199254740992
  · subst hc
    have hfrac : (X * 4503599627370496 + 9007199254740992) % 4503599627370496 = 0 := by omega
    have hex : (X * 4503599627370496 + 9007199254740992) / 4503599627370496 % 2048 = X + 2 := by omega
    rw [hfrac, hex]
    have a1 : ¬ (X + 2 = 2048 - 1) := by omega
    have a2 : ¬ (X + 2 = 0) := by omega
    simp only [a1, a2, if_false, if_true, Nat.add_zero]
    have hexp : ((X + 2 : Nat) : Int) - 1023 - ((52 : Nat) : Int) = (X : Int) - 1074 + 1 := by omega
    rw [hexp]
  · have hfrac : (X * 4503599627370496 + R) % 4503599627370496 = R - 4503599627370496 := by omega
    have hex : (X * 4503599627370496 + R) / 4503599627370496 % 2048 = X + 1 := by omega
    rw [hfrac, hex]
    have a1 : ¬ (X + 1 = 2048 - 1) := by omega
    have a2 : ¬ (X + 1 = 0) := by omega
    simp only [a1, a2, if_false, hc]
    have hr : 4503599627370496 + (R - 4503599627370496) = R := by omega
    rw [hr]
    have hexp : ((X + 1 : Nat) : Int) - 1023 - ((52 : Nat) : Int) = (X : Int) - 1074 + 0 := by omega
    rw [hexp]

theorem sig53_self (m : Nat) (h1 : 2 ^ 52 ≤ m) (h2 : m < 2 ^ 53) : sig53 m = m := by
  have := log2_norm m h1 h2
  simp [sig53, this]

/-- `float64(n) / float64(1<<f)` (two steps in Go) is the binary64 nearest to the exact rational
    n / 2^f, ties to even — for EVERY 64-bit n and every f < 64 -/
theorem fpToF64_correctly_rounded (u f : Nat) (hu : u < 2 ^ 64) (hf : f < 64) :
    fpToF64 u f = roundF64 false u (-(f : Int)) := by
  have hf' : ¬ f ≥ 64 := by omega
  by_cases hu0 : u = 0
  · subst hu0
    have h0 : u64ToF64 0 = 0 := by simp [u64ToF64, roundF64, roundMag]
    simp only [fpToF64, hf', if_false, h0, val64_signed_zero.1]
    simp [roundF64, roundMag]
  · have hL : u.log2 < 64 := (Nat.log2_lt hu0).mpr hu
    obtain ⟨hs1, hs2⟩ := sig53_bounds u hu0
    have hA := roundMag_normal u 0 hu0 (by omega) (by omega)
    have hB := roundMag_normal u (-(f : Int)) hu0 (by omega) (by omega)
    have hX0 : (0 + (u.log2 : Int) + 1022).toNat = u.log2 + 1022 := by omega
    have hXf : (-(f : Int) + (u.log2 : Int) + 1022).toNat = u.log2 + 1022 - f := by omega
    rw [hX0] at hA; rw [hXf] at hB
    have hdec := val64_fields (u.log2 + 1022) (sig53 u) (by omega) hs1 hs2
    simp only [fpToF64, hf', if_false, u64ToF64, roundF64, Bool.false_eq_true, Nat.zero_add, hA, hdec, hB]
    by_cases hc : sig53 u = 2 ^ 53
    · simp only [hc, if_true]
      have h52 : (2:Nat) ^ 52 ≠ 0 := by simp
      have hl := log2_norm (2 ^ 52) (Nat.le_refl _) (by decide)
      have hC := roundMag_normal (2 ^ 52) (((u.log2 + 1022 : Nat) : Int) - 1074 + 1 - (f : Int)) h52 (by rw [hl]; omega) (by rw [hl]; omega)
      rw [hC, hl, sig53_self _ (Nat.le_refl _) (by decide)]
      have hXc : (((u.log2 + 1022 : Nat) : Int) - 1074 + 1 - (f : Int) + ((52 : Nat) : Int) + 1022).toNat = u.log2 + 1022 - f + 1 := by omega
      rw [hXc]
      have e53 : (2 : Nat) ^ 53 = 2 ^ 52 + 2 ^ 52 := by decide
      rw [e53]; omega
    · have hlt : sig53 u < 2 ^ 53 := by omega
      simp only [hc, if_false, Int.add_zero]
      have hr0 : sig53 u ≠ 0 := by
        have : 0 < 2 ^ 52 := Nat.pos_of_ne_zero (by simp)
        omega
      have hl := log2_norm (sig53 u) hs1 hlt
      have hC := roundMag_normal (sig53 u) (((u.log2 + 1022 : Nat) : Int) - 1074 - (f : Int)) hr0 (by rw [hl]; omega) (by rw [hl]; omega)
      rw [hC, hl, sig53_self _ hs1 hlt]
      have hXc : (((u.log2 + 1022 : Nat) : Int) - 1074 - (f : Int) + ((52 : Nat) : Int) + 1022).toNat = u.log2 + 1022 - f := by omega
      rw [hXc]

end Proofs.C02
