import FqModel.Scalar
import Proofs.C02Int
import Proofs.C02Le
import Proofs.C02Big
import Proofs.C02Float
import Proofs.C02F16
/-! C02 helper lemmas: the float readers in both byte orders; `same` is transitive. Core Lean only. -/
namespace Proofs.C02
open FqModel FqModel.Scalar

/-- `same` on finite values, with both exponents written over a common base k -/
theorem same_scaled (s s' : Bool) (m m' : Nat) (k : Int) (a b : Nat) :
    (IEEEVal.fin s m (k + a)).same (.fin s' m' (k + b)) = true ↔ s = s' ∧ m * 2 ^ a = m' * 2 ^ b := by
  unfold IEEEVal.same
  have hapos : 0 < 2 ^ a := Nat.pos_of_ne_zero (by simp)
  have hbpos : 0 < 2 ^ b := Nat.pos_of_ne_zero (by simp)
  by_cases hab : a ≤ b
  · have h1 : k + (a : Int) ≤ k + (b : Int) := by omega
    have h2 : (k + (b : Int) - (k + (a : Int))).toNat = b - a := by omega
    have hb : 2 ^ b = 2 ^ (b - a) * 2 ^ a := by rw [← Nat.pow_add]; congr 1; omega
    simp only [h1, if_true, h2, Bool.and_eq_true, beq_iff_eq, Nat.shiftLeft_eq]
    constructor
    · rintro ⟨hs, hm⟩; exact ⟨hs, by rw [hm, hb, Nat.mul_assoc]⟩
    · rintro ⟨hs, hm⟩
      refine ⟨hs, ?_⟩
      rw [hb, ← Nat.mul_assoc] at hm
      exact Nat.eq_of_mul_eq_mul_right hapos hm
  · have h1 : ¬ (k + (a : Int) ≤ k + (b : Int)) := by omega
    have h2 : (k + (a : Int) - (k + (b : Int))).toNat = a - b := by omega
    have ha : 2 ^ a = 2 ^ (a - b) * 2 ^ b := by rw [← Nat.pow_add]; congr 1; omega
    simp only [h1, if_false, h2, Bool.and_eq_true, beq_iff_eq, Nat.shiftLeft_eq]
    constructor
    · rintro ⟨hs, hm⟩; exact ⟨hs, by rw [← hm, ha, Nat.mul_assoc]⟩
    · rintro ⟨hs, hm⟩
      refine ⟨hs, ?_⟩
      rw [ha, ← Nat.mul_assoc] at hm
      exact Nat.eq_of_mul_eq_mul_right hbpos hm

theorem same_trans (x y z : IEEEVal) (h1 : x.same y = true) (h2 : y.same z = true) : x.same z = true := by
  cases x with
  | nan => cases y <;> cases z <;> simp_all [IEEEVal.same]
  | inf a => cases y <;> cases z <;> simp_all [IEEEVal.same]
  | fin s m e =>
    cases y with
    | nan => simp [IEEEVal.same] at h1
    | inf _ => simp [IEEEVal.same] at h1
    | fin s' m' e' =>
      cases z with
      | nan => simp [IEEEVal.same] at h2
      | inf _ => simp [IEEEVal.same] at h2
      | fin s'' m'' e'' =>
        -- common base exponent
        obtain ⟨k, hk1, hk2, hk3⟩ : ∃ k : Int, k ≤ e ∧ k ≤ e' ∧ k ≤ e'' := ⟨min e (min e' e''), by omega, by omega, by omega⟩
        have he : e = k + ((e - k).toNat : Int) := by omega
        have he' : e' = k + ((e' - k).toNat : Int) := by omega
        have he'' : e'' = k + ((e'' - k).toNat : Int) := by omega
        rw [he, he'] at h1
        rw [he', he''] at h2
        rw [he, he'']
        obtain ⟨hs1, hm1⟩ := (same_scaled _ _ _ _ _ _ _).mp h1
        obtain ⟨hs2, hm2⟩ := (same_scaled _ _ _ _ _ _ _).mp h2
        exact (same_scaled _ _ _ _ _ _ _).mpr ⟨hs1.trans hs2, hm1.trans hm2⟩

/-- reading a float16: expand to binary32, widen to binary64 — the result denotes the half precision number -/
theorem f16_read_exact (h : Nat) (hh : h < 65536) :
    (val64 (widen32 (expandF16ToF32 h))).same (val16 h) = true :=
  same_trans _ _ _ (widen32_exact _) (f16_all h hh)

theorem ofBitsBE_take_drop (b : Bits) (k : Nat) (hk : k ≤ b.length) :
    ofBitsBE (b.take k) = ofBitsBE b / 2 ^ (b.length - k) ∧ ofBitsBE (b.drop k) = ofBitsBE b % 2 ^ (b.length - k) := by
  have hsplit := ofBitsBE_append (b.take k) (b.drop k)
  rw [List.take_append_drop] at hsplit
  have hl : (b.drop k).length = b.length - k := by simp
  have hlt := ofBitsBE_lt (b.drop k)
  rw [hl] at hsplit hlt
  have hpos : 0 < 2 ^ (b.length - k) := Nat.pos_of_ne_zero (by simp)
  rw [hsplit]
  constructor
  · rw [Nat.mul_comm, Nat.mul_add_div hpos, Nat.div_eq_of_lt hlt]; rfl
  · rw [Nat.mul_comm, Nat.mul_add_mod, Nat.mod_eq_of_lt hlt]

theorem ofBitsBE_reverseByteOrder (sl : Bits) : ofBitsBE (reverseByteOrder sl) = leValue sl := by
  unfold reverseByteOrder bytesOf
  rw [ofBitsBE_flatten_reverse _ (chunks8_lt _ sl)]; rfl

theorem reverseByteOrder_length (sl : Bits) (hd : 8 ∣ sl.length) : (reverseByteOrder sl).length = sl.length := by
  unfold reverseByteOrder
  rw [flatten_reverse_length, bytesOf_flatten]
  have : (8 - sl.length % 8) % 8 = 0 := by omega
  simp [this]

/-- what a float read returns, in terms of the integer value X of the n bits (big-endian value of the
    slice for BE, Σ byteᵢ·256^i for LE): 16/32 bits denote the same number, 64 bits are X itself,
    80 bits are the correctly rounded binary64 of sign/exponent word X / 2^64 and significand X % 2^64 -/
def floatOk (n X bits : Nat) : Prop :=
  (n = 16 → (val64 bits).same (val16 X) = true) ∧
  (n = 32 → (val64 bits).same (val32 X) = true) ∧
  (n = 64 → bits = X) ∧
  (n = 80 → bits = f80to64Spec (X / 2 ^ 64) (X % 2 ^ 64))

/-- the buffer handed to the float conversion: n bits whose big-endian value is X -/
theorem tryFEndian_on (bs : Bits) (pos n : Nat) (e : Endian) (hn : n = 16 ∨ n = 32 ∨ n = 64 ∨ n = 80)
    (h : pos + n ≤ bs.length) :
    ∃ bits, tryFEndian bs pos n e = .ok bits (pos + n) ∧
      floatOk n (match e with | .be => ofBitsBE (slice bs pos n) | .le => leValue (slice bs pos n)) bits := by
  have hl : (slice bs pos n).length = n := slice_length bs pos n h
  have hd : 8 ∣ n := by rcases hn with h | h | h | h <;> omega
  have hpad : (8 - n % 8) % 8 = 0 := by omega
  unfold tryFEndian
  rw [tryBits_ok bs pos n h]
  simp only [Res.bind]
  generalize hrd : slice bs pos n = rd at hl
  -- the buffer b and its value
  obtain ⟨b, hb, hbl, hbv⟩ : ∃ b : Bits, (if e == .le then reverseByteOrder rd else (bytesOf rd).flatten) = b ∧ b.length = n
      ∧ ofBitsBE b = (match e with | .be => ofBitsBE rd | .le => leValue rd) := by
    cases e
    · refine ⟨rd, ?_, hl, rfl⟩
      simp only [show (Endian.be == Endian.le) = false by decide, Bool.false_eq_true, if_false]
      rw [bytesOf_flatten, hl, hpad]; simp
    · refine ⟨reverseByteOrder rd, by simp, ?_, ofBitsBE_reverseByteOrder rd⟩
      rw [reverseByteOrder_length rd (by rw [hl]; exact hd), hl]
  rw [hb, ← hbv]
  have hlt := ofBitsBE_lt b
  rw [hbl] at hlt
  rcases hn with h | h | h | h
  · subst h
    exact ⟨_, by simp, fun _ => f16_read_exact _ (by simpa using hlt), by omega, by omega, by omega⟩
  · subst h
    exact ⟨_, by simp, by omega, fun _ => widen32_exact _, by omega, by omega⟩
  · subst h
    exact ⟨ofBitsBE b, by simp, by omega, by omega, fun _ => rfl, by omega⟩
  · subst h
    obtain ⟨ht, hdr⟩ := ofBitsBE_take_drop b 16 (by omega)
    rw [hbl] at ht hdr
    refine ⟨f80to64 (ofBitsBE (b.take 16)) (ofBitsBE (b.drop 16)), by simp, by omega, by omega, by omega, fun _ => ?_⟩
    rw [ht, hdr]
    apply f80to64_eq_spec
    apply Nat.div_lt_of_lt_mul
    have : (2:Nat) ^ (80 - 16) * 2 ^ 16 = 2 ^ 80 := by decide
    omega

end Proofs.C02
