import FqModel.C02Call
/-!
  C02 — read histories: one step of the threaded machine (`execStep`) observes what the single-read
  description (`stepObs`) says, whatever position the decoder was left at by the steps before.
-/
namespace Proofs.C02
open FqModel FqModel.Scalar FqModel.C02

theorem seekAbs_eq (den : Bits) (p : Nat) :
    seekAbs den p = if p > den.length then none else some p := rfl

theorem seekRel_neg (den : Bits) (p n : Nat) (h : ¬ p + n > den.length) :
    seekRel den (p + n) (-(n : Int)) = some p := by
  unfold seekRel seekAbs
  have h2 : ¬ (((p + n : Nat) : Int) + -(n : Int) < 0) := by omega
  have h3 : (((p + n : Nat) : Int) + -(n : Int)).toNat = p := by omega
  have h4 : ¬ (p > den.length) := by omega
  simp only [h2, if_false, h3, h4]

theorem seekRel_fwd (den : Bits) (p n : Nat) :
    seekRel den p (n : Int) = if p + n > den.length then none else some (p + n) := by
  unfold seekRel seekAbs
  have h2 : ¬ ((p : Int) + (n : Int) < 0) := by omega
  have h3 : ((p : Int) + (n : Int)).toNat = p + n := by omega
  simp only [h2, if_false, h3]

theorem seekRel_len (den : Bits) (p e : Nat) :
    seekRel den p ((e : Int) - p) = if e > den.length then none else some e := by
  unfold seekRel seekAbs
  have h2 : ¬ ((p : Int) + ((e : Int) - p) < 0) := by omega
  have h3 : ((p : Int) + ((e : Int) - p)).toNat = e := by omega
  simp only [h2, if_false, h3]

theorem posOfRes_withPos {α} (q : Nat) (r : Res α) : posOfRes (Res.withPos q r) = q := by
  cases r <;> rfl

/-- the observation of a step does not depend on the state the decoder is in -/
theorem execStep_obs (den : Bits) (st : Nat) (s : Step) : (execStep den st s).1 = stepObs den s := by
  cases s with
  | read p rd => simp only [execStep, stepObs]; rw [seekAbs_eq]; by_cases h : p > den.length <;> simp [h]
  | relRead p n rd =>
    simp only [execStep, stepObs]; rw [seekAbs_eq]
    by_cases h : p + n > den.length
    · simp [h]
    · simp only [h, if_false]; rw [seekRel_neg den p n h]
  | peek p n => simp only [execStep, stepObs]; rw [seekAbs_eq]; by_cases h : p > den.length <;> simp [h]
  | peekFind p cur nBits maxLen target => simp only [execStep, stepObs]; rw [seekAbs_eq]; by_cases h : p > den.length <;> simp [h]
  | bitsLeft p => simp only [execStep, stepObs]; rw [seekAbs_eq]; by_cases h : p > den.length <;> simp [h]
  | getPos p => simp only [execStep, stepObs]; rw [seekAbs_eq]; by_cases h : p > den.length <;> simp [h]
  | child k p rd =>
    cases k with
    | struct => simp only [execStep, stepObs]; rw [seekAbs_eq]; by_cases h : p > den.length <;> simp [h]
    | array => simp only [execStep, stepObs]; rw [seekAbs_eq]; by_cases h : p > den.length <;> simp [h]
    | range n =>
      simp only [execStep, stepObs]; rw [seekAbs_eq]
      by_cases h : p > den.length
      · simp [h]
      · simp only [h, if_false]; split <;> rfl
    | framed n =>
      simp only [execStep, stepObs]; rw [seekAbs_eq]
      by_cases h : p > den.length
      · simp [h]
      · simp only [h, if_false]
        by_cases h2 : p + n > den.length
        · simp [h2]
        · simp only [h2, if_false]; rw [seekRel_fwd]; simp [h2]
    | limited n =>
      simp only [execStep, stepObs]; rw [seekAbs_eq]
      by_cases h : p > den.length
      · simp [h]
      · simp only [h, if_false]
        by_cases h2 : p + n > den.length
        · simp [h2]
        · simp only [h2, if_false]; rw [seekRel_len]
          by_cases h3 : posAfter p (readAt (List.take (p + n) den) p rd) > den.length <;> simp [h3]
    | seekFn back =>
      simp only [execStep, stepObs]; rw [seekAbs_eq, seekAbs_eq]
      by_cases h : back > den.length
      · simp [h]
      · simp only [h, if_false]
        by_cases h2 : p > den.length
        · simp [h2]
        · simp [h2, seekAbs_eq, h]

theorem runHistory_map (den : Bits) (steps : List Step) :
    ∀ st, runHistory den st steps = steps.map (stepObs den) := by
  induction steps with
  | nil => intro st; rfl
  | cons s rest ih =>
    intro st
    show (execStep den st s).1 :: runHistory den (execStep den st s).2 rest = _
    rw [execStep_obs, ih]; rfl

end Proofs.C02
