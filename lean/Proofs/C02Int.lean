import FqModel.Scalar
/-! C02 helper lemmas: integers (tryBits, tryUintBits, tryUEndian, two's complement). Core Lean only. -/
namespace Proofs.C02
open FqModel FqModel.Scalar

theorem slice_zero {α} (bs : List α) (off : Nat) : slice bs off 0 = [] := by simp [slice]

theorem tryBits_ok (bs : Bits) (pos n : Nat) (h : pos + n ≤ bs.length) :
    tryBits bs pos n = .ok (slice bs pos n) (pos + n) := by
  unfold tryBits
  by_cases h0 : n = 0
  · subst h0; simp [slice_zero]
  · simp [h0, h]

theorem tryBits_short (bs : Bits) (pos n : Nat) (h0 : 0 < n) (h : bs.length < pos + n) :
    tryBits bs pos n = .err .eof (max pos bs.length) := by
  unfold tryBits
  have : ¬ n = 0 := by omega
  have h2 : ¬ pos + n ≤ bs.length := by omega
  simp [this, h2]

theorem tryUintBits_ok (bs : Bits) (pos n : Nat) (hn : n ≤ 64) (h : pos + n ≤ bs.length) :
    tryUintBits bs pos n = .ok (ofBitsBE (slice bs pos n)) (pos + n) := by
  unfold tryUintBits
  have : ¬ n > 64 := by omega
  simp [this, tryBits_ok bs pos n h, Res.map]

theorem tryUintBits_short (bs : Bits) (pos n : Nat) (h0 : 0 < n) (hn : n ≤ 64) (h : bs.length < pos + n) :
    tryUintBits bs pos n = .err .eof (max pos bs.length) := by
  unfold tryUintBits
  have : ¬ n > 64 := by omega
  simp [this, tryBits_short bs pos n h0 h, Res.map]

/-! two's complement on BitVec 64 -/

theorem pow_split (n : Nat) (h1 : 1 ≤ n) : 2 ^ n = 2 * 2 ^ (n - 1) := by
  have : n = (n - 1) + 1 := by omega
  conv => lhs; rw [this, Nat.pow_succ]
  omega

theorem pow_le_64 (n : Nat) (h : n ≤ 64) : 2 ^ n ≤ 18446744073709551616 := by
  have := Nat.pow_le_pow_right (show 2 > 0 by decide) h
  simpa using this

theorem testBit_top (u n : Nat) (h1 : 1 ≤ n) (hu : u < 2 ^ n) : u.testBit (n - 1) = decide (2 ^ (n - 1) ≤ u) := by
  rw [Nat.testBit_eq_decide_div_mod_eq]
  have hp := pow_split n h1
  have hpos : 0 < 2 ^ (n - 1) := Nat.pos_of_ne_zero (by simp)
  by_cases hc : 2 ^ (n - 1) ≤ u
  · have : u / 2 ^ (n - 1) = 1 := by
      apply Nat.div_eq_of_lt_le
      · simpa using hc
      · omega
    simp [this, hc]
  · have : u / 2 ^ (n - 1) = 0 := Nat.div_eq_of_lt (by omega)
    simp [this, hc]


theorem mask_toNat (n : Nat) (hn : n ≤ 64) : (((1#64) <<< n) - 1#64).toNat = 2 ^ n - 1 := by
  by_cases h : n = 64
  · subst h; decide
  · have hlt : n < 64 := by omega
    have hp : 2 ^ n < 2 ^ 64 := Nat.pow_lt_pow_right (by decide) hlt
    have hpos : 0 < 2 ^ n := Nat.pos_of_ne_zero (by simp)
    rw [← BitVec.twoPow_eq, BitVec.toNat_sub, BitVec.toNat_twoPow_of_lt hlt]
    simp only [BitVec.toNat_ofNat]
    have : (1 : Nat) % 2 ^ 64 = 1 := by decide
    rw [this]
    have e : 2 ^ 64 - 1 + 2 ^ n = 2 ^ 64 + (2 ^ n - 1) := by omega
    rw [e, Nat.add_mod_left, Nat.mod_eq_of_lt (by omega)]

theorem not_mod (u n : Nat) (hn : n ≤ 64) (hu : u < 2 ^ n) : (2 ^ 64 - 1 - u) % 2 ^ n = 2 ^ n - 1 - u := by
  have hsplit : 2 ^ 64 = 2 ^ (64 - n) * 2 ^ n := by rw [← Nat.pow_add]; congr 1; omega
  have hq : 0 < 2 ^ (64 - n) := Nat.pos_of_ne_zero (by simp)
  have e : 2 ^ 64 - 1 - u = (2 ^ (64 - n) - 1) * 2 ^ n + (2 ^ n - 1 - u) := by
    rw [Nat.sub_mul, ← hsplit]
    have : 2 ^ n ≤ 2 ^ 64 := Nat.pow_le_pow_right (by decide) hn
    omega
  rw [e, Nat.mul_add_mod_self_right, Nat.mod_eq_of_lt (by omega)]

theorem twosComplement_spec (n u : Nat) (h1 : 1 ≤ n) (hn : n ≤ 64) (hu : u < 2 ^ n) :
    twosComplement n (BitVec.ofNat 64 u) = if 2 ^ (n - 1) ≤ u then (u : Int) - ((2 ^ n : Nat) : Int) else (u : Int) := by
  have hle := pow_le_64 n hn
  have h64 : (2 : Nat) ^ 64 = 18446744073709551616 := by decide
  have hu64 : u < 2 ^ 64 := by omega
  have hp := pow_split n h1
  have hHpos : 0 < 2 ^ (n - 1) := Nat.pos_of_ne_zero (by simp)
  have hx : (BitVec.ofNat 64 u).toNat = u := by simp [Nat.mod_eq_of_lt hu64]
  unfold twosComplement
  have hcond : ((BitVec.ofNat 64 u) &&& ((1#64) <<< (n - 1)) ≠ 0#64) ↔ 2 ^ (n - 1) ≤ u := by
    rw [← BitVec.twoPow_eq, BitVec.and_twoPow, BitVec.getLsbD_ofNat, testBit_top u n h1 hu]
    have hlt : n - 1 < 64 := by omega
    have hne : BitVec.twoPow 64 (n - 1) ≠ 0#64 := by
      intro h
      have := congrArg BitVec.toNat h
      rw [BitVec.toNat_twoPow_of_lt hlt] at this
      simp at this
    by_cases hc : 2 ^ (n - 1) ≤ u <;> simp [hc, hlt, hne]
  by_cases hc : 2 ^ (n - 1) ≤ u
  · rw [if_pos (hcond.mpr hc), if_pos hc]
    have hand : (~~~(BitVec.ofNat 64 u) &&& (((1#64) <<< n) - 1#64)).toNat = 2 ^ n - 1 - u := by
      rw [BitVec.toNat_and, BitVec.toNat_not, hx, mask_toNat n hn, Nat.and_two_pow_sub_one_eq_mod, not_mod u n hn hu]
    have hadd : ((~~~(BitVec.ofNat 64 u) &&& (((1#64) <<< n) - 1#64)) + 1#64).toNat = 2 ^ n - u := by
      rw [BitVec.toNat_add, hand]
      simp only [BitVec.toNat_ofNat]
      have : (1 : Nat) % 2 ^ 64 = 1 := by decide
      rw [this, Nat.mod_eq_of_lt (by omega)]
      omega
    rw [BitVec.toInt_eq_toNat_cond, BitVec.toNat_neg, hadd]
    have hmod : (2 ^ 64 - (2 ^ n - u)) % 2 ^ 64 = 2 ^ 64 - (2 ^ n - u) := Nat.mod_eq_of_lt (by omega)
    rw [hmod]
    have : ¬ 2 * (2 ^ 64 - (2 ^ n - u)) < 2 ^ 64 := by omega
    rw [if_neg this]
    omega
  · rw [if_neg (fun h => hc (hcond.mp h)), if_neg hc]
    rw [BitVec.toInt_eq_toNat_cond, hx]
    have : 2 * u < 2 ^ 64 := by omega
    rw [if_pos this]

end Proofs.C02
