import FqModel.Scalar
import Proofs.C02Int
import Proofs.C02Rev
/-! C02 helper lemmas: big-endian value of a bit string by bytes, little-endian value, and the
    general statement about ReverseBytes64. Core Lean only. -/
namespace Proofs.C02
open FqModel FqModel.Scalar

theorem ofBitsBE_foldl (bs : Bits) (acc : Nat) :
    bs.foldl (fun acc b => 2 * acc + (if b then 1 else 0)) acc = acc * 2 ^ bs.length + ofBitsBE bs := by
  induction bs generalizing acc with
  | nil => simp [ofBitsBE]
  | cons b bs ih =>
    simp only [List.foldl_cons, List.length_cons, ofBitsBE]
    rw [ih, ih (2 * 0 + _)]
    rw [Nat.pow_succ]
    have : (2 * acc + if b = true then 1 else 0) * 2 ^ bs.length
        = acc * (2 ^ bs.length * 2) + (2 * 0 + if b = true then 1 else 0) * 2 ^ bs.length := by
      rw [Nat.add_mul, Nat.add_mul, Nat.mul_zero, Nat.zero_mul, Nat.zero_add,
          Nat.mul_comm 2 acc, Nat.mul_assoc, Nat.mul_comm 2 (2 ^ bs.length)]
    omega

theorem ofBitsBE_append (a b : Bits) : ofBitsBE (a ++ b) = ofBitsBE a * 2 ^ b.length + ofBitsBE b := by
  unfold ofBitsBE
  rw [List.foldl_append, ofBitsBE_foldl]
  rfl

/-- big-endian value of a list of bytes -/
def beVal (l : List Nat) : Nat := l.foldl (fun a b => 256 * a + b) 0
/-- little-endian value of a list of bytes -/
def leVal (l : List Nat) : Nat := l.foldr (fun b acc => b + 256 * acc) 0

theorem chunks8_foldl (f : Nat) : ∀ (sl : Bits) (acc : Nat), sl.length ≤ 8 * f → 8 ∣ sl.length →
    ((chunks8 f sl).map ofBitsBE).foldl (fun a b => 256 * a + b) acc = acc * 2 ^ sl.length + ofBitsBE sl := by
  induction f with
  | zero =>
    intro sl acc h _
    have : sl = [] := List.eq_nil_of_length_eq_zero (by omega)
    subst this; simp [chunks8, ofBitsBE]
  | succ f ih =>
    intro sl acc h hd
    by_cases he : sl = []
    · subst he; simp [chunks8, ofBitsBE]
    · have hpos : 0 < sl.length := List.length_pos_iff.mpr he
      have h8 : 8 ≤ sl.length := by omega
      have hemp : sl.isEmpty = false := by simp [he]
      have htl : (sl.take 8).length = 8 := by simp [List.length_take]; omega
      simp only [chunks8, hemp, htl, Nat.sub_self, List.replicate_zero, List.append_nil, List.map_cons, List.foldl_cons,
        Bool.false_eq_true, if_false]
      rw [ih (sl.drop 8) _ (by simp; omega) (by simp; omega)]
      have hsplit : sl = sl.take 8 ++ sl.drop 8 := (List.take_append_drop 8 sl).symm
      have := ofBitsBE_append (sl.take 8) (sl.drop 8)
      rw [← hsplit] at this
      rw [this]
      have hl : (sl.drop 8).length = sl.length - 8 := by simp
      rw [hl]
      have hp : 2 ^ sl.length = 256 * 2 ^ (sl.length - 8) := by
        have : sl.length = 8 + (sl.length - 8) := by omega
        conv => lhs; rw [this, Nat.pow_add]
      rw [hp, Nat.add_mul]
      simp only [Nat.mul_assoc, Nat.mul_comm, Nat.mul_left_comm]
      omega

theorem ofBitsBE_eq_beVal (sl : Bits) (hd : 8 ∣ sl.length) : ofBitsBE sl = beVal (byteVals sl) := by
  unfold beVal byteVals bytesOf
  rw [chunks8_foldl (sl.length / 8 + 1) sl 0 (by omega) hd]
  simp

theorem chunks8_length (f : Nat) : ∀ (sl : Bits), sl.length ≤ 8 * f → 8 ∣ sl.length → (chunks8 f sl).length = sl.length / 8 := by
  induction f with
  | zero => intro sl h _; have : sl = [] := List.eq_nil_of_length_eq_zero (by omega); subst this; simp [chunks8]
  | succ f ih =>
    intro sl h hd
    by_cases he : sl = []
    · subst he; simp [chunks8]
    · have hpos : 0 < sl.length := List.length_pos_iff.mpr he
      have h8 : 8 ≤ sl.length := by omega
      have hemp : sl.isEmpty = false := by simp [he]
      simp only [chunks8, hemp, Bool.false_eq_true, if_false, List.length_cons]
      rw [ih (sl.drop 8) (by simp; omega) (by simp; omega)]
      simp; omega

theorem chunks8_lt (f : Nat) : ∀ (sl : Bits), ∀ c ∈ chunks8 f sl, c.length = 8 := by
  induction f with
  | zero => intro sl c h; simp [chunks8] at h
  | succ f ih =>
    intro sl c h
    by_cases hemp : sl.isEmpty
    · simp [chunks8, hemp] at h
    · simp only [chunks8, hemp, Bool.false_eq_true, if_false, List.mem_cons] at h
      rcases h with h | h
      · subst h; simp [List.length_take]; omega
      · exact ih _ c h

theorem byteVals_lt (sl : Bits) : ∀ b ∈ byteVals sl, b < 256 := by
  intro b hb
  simp only [byteVals, bytesOf, List.mem_map] at hb
  obtain ⟨c, hc, rfl⟩ := hb
  have := chunks8_lt _ sl c hc
  have h2 := ofBitsBE_lt c
  rw [this] at h2
  simpa using h2

theorem byteVals_length (sl : Bits) (hd : 8 ∣ sl.length) : (byteVals sl).length = sl.length / 8 := by
  simp only [byteVals, bytesOf, List.length_map]
  exact chunks8_length _ sl (by omega) hd

theorem leVal_append_singleton (l : List Nat) (b : Nat) : leVal (l ++ [b]) = leVal l + 256 ^ l.length * b := by
  induction l with
  | nil => simp [leVal]
  | cons a l ih =>
    simp only [leVal, List.cons_append, List.foldr_cons, List.length_cons] at *
    rw [ih, Nat.pow_succ]
    rw [Nat.mul_add, ← Nat.mul_assoc, Nat.mul_comm 256 (256 ^ l.length)]
    omega

/-- reversing the base-256 digits of the big-endian value gives the little-endian value -/
theorem revDigits_leVal_reverse (r : List Nat) (h : ∀ b ∈ r, b < 256) :
    revDigits r.length (leVal r) = leVal r.reverse := by
  induction r with
  | nil => simp [revDigits, leVal]
  | cons b r ih =>
    have hb : b < 256 := h b (by simp)
    have ih' := ih (fun x hx => h x (by simp [hx]))
    simp only [List.length_cons, revDigits, List.reverse_cons]
    rw [leVal_append_singleton, List.length_reverse]
    have e : leVal (b :: r) = b + 256 * leVal r := by simp [leVal]
    rw [e]
    have e1 : (b + 256 * leVal r) % 256 = b := by omega
    have e2 : (b + 256 * leVal r) / 256 = leVal r := by omega
    rw [e1, e2, ih', Nat.mul_comm]
    omega

theorem beVal_eq_leVal_reverse (l : List Nat) : beVal l = leVal l.reverse := by
  unfold beVal leVal
  rw [List.foldr_reverse]
  congr 1
  funext a b
  omega

theorem revDigits_beVal (l : List Nat) (h : ∀ b ∈ l, b < 256) : revDigits l.length (beVal l) = leVal l := by
  rw [beVal_eq_leVal_reverse]
  have := revDigits_leVal_reverse l.reverse (by intro b hb; exact h b (by simpa using hb))
  simpa using this


/-- ReverseBytes64 for every width class: with k = ⌈n/8⌉ and u < 2^(8k) the result has the k base-256
    digits of u reversed (and nothing above them) -/
theorem reverseBytes64_digits (n u : Nat) (hn : n ≤ 64) (hu : u < 2 ^ (8 * ((n + 7) / 8))) :
    (reverseBytes64 n (BitVec.ofNat 64 u)).map BitVec.toNat = some (revDigits ((n + 7) / 8) u) := by
  by_cases h1 : n ≤ 8
  · have hk : (n + 7) / 8 ≤ 1 := by omega
    have hu' : u < 256 := by
      have : 2 ^ (8 * ((n + 7) / 8)) ≤ 2 ^ 8 := Nat.pow_le_pow_right (by decide) (by omega)
      have e : (2 : Nat) ^ 8 = 256 := by decide
      omega
    have hx : (BitVec.ofNat 64 u).toNat = u := by simp; omega
    simp only [reverseBytes64, h1, if_true, Option.map_some, hx]
    by_cases h0 : n = 0
    · subst h0
      have : u = 0 := by simpa using hu
      subst this; simp [revDigits]
    · have : (n + 7) / 8 = 1 := by omega
      rw [this]; simp only [revDigits]; congr 1; omega
  · have split : (8 < n ∧ n ≤ 16) ∨ (16 < n ∧ n ≤ 24) ∨ (24 < n ∧ n ≤ 32) ∨ (32 < n ∧ n ≤ 40) ∨ (40 < n ∧ n ≤ 48)
        ∨ (48 < n ∧ n ≤ 56) ∨ (56 < n ∧ n ≤ 64) := by omega
    rcases split with h | h | h | h | h | h | h
    · have hk : (n + 7) / 8 = 2 := by omega
      rw [hk] at hu ⊢; exact rev_k2 n u h.1 h.2 (by simpa using hu)
    · have hk : (n + 7) / 8 = 3 := by omega
      rw [hk] at hu ⊢; exact rev_k3 n u h.1 h.2 (by simpa using hu)
    · have hk : (n + 7) / 8 = 4 := by omega
      rw [hk] at hu ⊢; exact rev_k4 n u h.1 h.2 (by simpa using hu)
    · have hk : (n + 7) / 8 = 5 := by omega
      rw [hk] at hu ⊢; exact rev_k5 n u h.1 h.2 (by simpa using hu)
    · have hk : (n + 7) / 8 = 6 := by omega
      rw [hk] at hu ⊢; exact rev_k6 n u h.1 h.2 (by simpa using hu)
    · have hk : (n + 7) / 8 = 7 := by omega
      rw [hk] at hu ⊢; exact rev_k7 n u h.1 h.2 (by simpa using hu)
    · have hk : (n + 7) / 8 = 8 := by omega
      rw [hk] at hu ⊢; exact rev_k8 n u h.1 h.2 (by simpa using hu)

/-- a little-endian read of k whole bytes -/
theorem rev_ofBitsBE (sl : Bits) (hd : 8 ∣ sl.length) (h64 : sl.length ≤ 64) :
    (reverseBytes64 sl.length (BitVec.ofNat 64 (ofBitsBE sl))).map BitVec.toNat = some (leValue sl) := by
  have hk : (sl.length + 7) / 8 = sl.length / 8 := by omega
  have hlen : 8 * (sl.length / 8) = sl.length := by omega
  have hu : ofBitsBE sl < 2 ^ (8 * ((sl.length + 7) / 8)) := by rw [hk, hlen]; exact ofBitsBE_lt sl
  rw [reverseBytes64_digits sl.length _ h64 hu, hk]
  have hb := ofBitsBE_eq_beVal sl hd
  have hl := byteVals_length sl hd
  rw [hb, ← hl, revDigits_beVal _ (byteVals_lt sl)]
  rfl


theorem leVal_lt (l : List Nat) (h : ∀ b ∈ l, b < 256) : leVal l < 256 ^ l.length := by
  induction l with
  | nil => simp [leVal]
  | cons b l ih =>
    have hb : b < 256 := h b (by simp)
    have := ih (fun x hx => h x (by simp [hx]))
    simp only [leVal, List.foldr_cons, List.length_cons, Nat.pow_succ] at *
    omega

theorem leValue_lt (sl : Bits) (hd : 8 ∣ sl.length) : leValue sl < 2 ^ sl.length := by
  have := leVal_lt (byteVals sl) (byteVals_lt sl)
  rw [byteVals_length sl hd] at this
  have e : (256 : Nat) ^ (sl.length / 8) = 2 ^ sl.length := by
    have : (256 : Nat) = 2 ^ 8 := by decide
    rw [this, ← Nat.pow_mul]; congr 1; omega
  rw [e] at this
  exact this

theorem tryUEndian_be (bs : Bits) (pos n : Nat) (hn : n ≤ 64) (h : pos + n ≤ bs.length) :
    tryUEndian bs pos n .be = .ok (ofBitsBE (slice bs pos n)) (pos + n) := by
  simp [tryUEndian, tryUintBits_ok bs pos n hn h, Res.bind]

theorem tryUEndian_le (bs : Bits) (pos n : Nat) (hd : 8 ∣ n) (hn : n ≤ 64) (h : pos + n ≤ bs.length) :
    tryUEndian bs pos n .le = .ok (leValue (slice bs pos n)) (pos + n) := by
  have hl : (slice bs pos n).length = n := slice_length bs pos n h
  have := rev_ofBitsBE (slice bs pos n) (by rw [hl]; exact hd) (by rw [hl]; exact hn)
  rw [hl] at this
  simp only [tryUEndian, tryUintBits_ok bs pos n hn h, Res.bind]
  cases hr : reverseBytes64 n (BitVec.ofNat 64 (ofBitsBE (slice bs pos n))) with
  | none => rw [hr] at this; simp at this
  | some r => rw [hr] at this; simp at this; simp [this]

theorem tryUEndian_short (bs : Bits) (pos n : Nat) (e : Endian) (h0 : 0 < n) (hn : n ≤ 64) (h : bs.length < pos + n) :
    tryUEndian bs pos n e = .err .eof (max pos bs.length) := by
  simp [tryUEndian, tryUintBits_short bs pos n h0 hn h, Res.bind]

theorem trySEndian_of_U (bs : Bits) (pos n : Nat) (e : Endian) (h1 : 1 ≤ n) (hn : n ≤ 64) (u p : Nat)
    (hU : tryUEndian bs pos n e = .ok u p) (hu : u < 2 ^ n) :
    trySEndian bs pos n e = .ok (signedOf n u) p := by
  have : ¬ n < 1 := by omega
  simp only [trySEndian, this, if_false, hU, Res.map, signedOf]
  rw [twosComplement_spec n u h1 hn hu]

end Proofs.C02
