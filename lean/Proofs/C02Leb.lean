import FqModel.Scalar
import Proofs.C02Int
import Proofs.C02Le
/-! C02 helper lemmas: LEB128. Core Lean only. -/
namespace Proofs.C02
open FqModel FqModel.Scalar

theorem ofBitsBE_cons (b : Bool) (l : Bits) : ofBitsBE (b :: l) = (if b then 1 else 0) * 2 ^ l.length + ofBitsBE l := by
  have := ofBitsBE_append [b] l
  simpa [ofBitsBE] using this

theorem ofBitsBE_toBitsBE (w n : Nat) : ofBitsBE (toBitsBE w n) = n % 2 ^ w := by
  induction w with
  | zero => simp [toBitsBE, ofBitsBE, Nat.mod_one]
  | succ w ih =>
    rw [toBitsBE, ofBitsBE_cons, ih, toBitsBE_length, Nat.mod_pow_succ]
    have h2 : n / 2 ^ w % 2 < 2 := Nat.mod_lt _ (by decide)
    by_cases h : n / 2 ^ w % 2 = 1
    · simp [h]; omega
    · have : n / 2 ^ w % 2 = 0 := by omega
      simp [this]

theorem slice_mid {α} (pre x rest : List α) : slice (pre ++ x ++ rest) pre.length x.length = x := by
  simp [slice, List.append_assoc, List.drop_append]

/-- d.U8() at a byte that is there -/
theorem u8_at (pre rest : Bits) (b : Nat) (hb : b < 256) :
    u8 (pre ++ toBitsBE 8 b ++ rest) pre.length = .ok b (pre.length + 8) := by
  have hlen : (toBitsBE 8 b).length = 8 := toBitsBE_length 8 b
  have hsl : slice (pre ++ toBitsBE 8 b ++ rest) pre.length 8 = toBitsBE 8 b := by
    have := slice_mid pre (toBitsBE 8 b) rest
    rwa [hlen] at this
  have hin : pre.length + 8 ≤ (pre ++ toBitsBE 8 b ++ rest).length := by simp [hlen]
  unfold u8
  rw [tryUEndian_be _ _ 8 (by decide) hin, hsl, ofBitsBE_toBitsBE]
  have : b % 2 ^ 8 = b := Nat.mod_eq_of_lt (by simpa using hb)
  simp [this]

/-- d.U8() with fewer than 8 bits left: the IOError panic, position at the end -/
theorem u8_short (bs : Bits) (pos : Nat) (h : bs.length < pos + 8) :
    u8 bs pos = .ioerr .eof (max pos bs.length) := by
  unfold u8
  rw [tryUEndian_short bs pos 8 .be (by decide) (by decide) h]

theorem byte_bits : ∀ r, r < 128 →
    (r + 128) &&& 128 ≠ 0 ∧ (r + 128) &&& 127 = r ∧ r &&& 127 = r ∧ r &&& 128 = 0 ∧ (r + 128) &&& 64 = r &&& 64 := by
  decide

theorem or_low (result x s : Nat) (h : result < 2 ^ s) : result ||| x * 2 ^ s = result + x * 2 ^ s := by
  rw [Nat.or_comm, Nat.mul_comm, ← Nat.two_pow_add_eq_or_of_lt h]; omega

theorem split128 (v P : Nat) : v % 128 * P + v / 128 * (P * 128) = v * P := by
  have h := Nat.div_add_mod v 128
  calc v % 128 * P + v / 128 * (P * 128) = (128 * (v / 128) + v % 128) * P := by
        rw [Nat.add_mul, Nat.mul_comm P 128, ← Nat.mul_assoc, Nat.mul_comm (v / 128) 128]; omega
    _ = v * P := by rw [h]

theorem ulebEnc_ne_nil (f v : Nat) (hf : 1 ≤ f) : ulebEnc f v ≠ [] := by
  cases f with
  | zero => omega
  | succ f => simp only [ulebEnc]; split <;> simp

/-- the loop on a canonical encoding (any bit alignment `pre.length`, anything after it) -/
theorem uleb_loop_enc (f : Nat) : ∀ (v : Nat) (pre rest : Bits) (shift result fuel : Nat),
    v < 128 ^ f → 1 ≤ f → (ulebEnc f v).length ≤ fuel → v * 2 ^ shift < 2 ^ 63 → result < 2 ^ shift →
    ulebLoop (pre ++ bitsOfBytes (ulebEnc f v) ++ rest) fuel pre.length shift result
      = .ok (result + v * 2 ^ shift) (pre.length + 8 * (ulebEnc f v).length) := by
  induction f with
  | zero => intro v pre rest shift result fuel _ h1; omega
  | succ f ih =>
    intro v pre rest shift result fuel hv _ hfuel hbound hres
    have hne := ulebEnc_ne_nil (f + 1) v (by omega)
    have hl1 : 1 ≤ (ulebEnc (f + 1) v).length := List.length_pos_iff.mpr hne
    obtain ⟨fuel', rfl⟩ : ∃ k, fuel = k + 1 := ⟨fuel - 1, by omega⟩
    have hPpos : 0 < 2 ^ shift := Nat.pos_of_ne_zero (by simp)
    by_cases hsmall : v < 128
    · -- last byte
      have henc : ulebEnc (f + 1) v = [v] := by simp [ulebEnc, hsmall]
      rw [henc]
      simp only [bitsOfBytes, List.flatMap_cons, List.flatMap_nil, List.append_nil, List.length_cons, List.length_nil]
      unfold ulebLoop
      rw [u8_at pre rest v (by omega)]
      simp only [Res.bind]
      have hb := byte_bits v hsmall
      have hnot : ¬ (shift ≥ 63 ∧ v ≠ 0) := by
        intro ⟨hs, hv0⟩
        have : 2 ^ 63 ≤ 2 ^ shift := Nat.pow_le_pow_right (by decide) hs
        have : 2 ^ shift ≤ v * 2 ^ shift := Nat.le_mul_of_pos_left _ (by omega)
        omega
      rw [if_neg hnot, hb.2.2.1, hb.2.2.2.1]
      simp only [if_true]
      have hu : u64 (v <<< shift) = v * 2 ^ shift := by
        rw [u64, Nat.shiftLeft_eq, Nat.mod_eq_of_lt]
        have : (2:Nat) ^ 63 < 2 ^ 64 := by decide
        omega
      rw [hu, or_low result v shift hres]
    · -- continuation byte
      have hge : 128 ≤ v := by omega
      have henc : ulebEnc (f + 1) v = (v % 128 + 128) :: ulebEnc f (v / 128) := by simp [ulebEnc, hsmall]
      rw [henc]
      have hr : v % 128 < 128 := Nat.mod_lt _ (by decide)
      have hb := byte_bits (v % 128) hr
      have hshift : shift < 56 := by
        apply Classical.byContradiction; intro hc
        have : 2 ^ 56 ≤ 2 ^ shift := Nat.pow_le_pow_right (by decide) (by omega)
        have h2 : 128 * 2 ^ shift ≤ v * 2 ^ shift := Nat.mul_le_mul_right _ hge
        have e : (2:Nat) ^ 63 = 128 * 2 ^ 56 := by decide
        omega
      have hbits : pre ++ bitsOfBytes ((v % 128 + 128) :: ulebEnc f (v / 128)) ++ rest
          = pre ++ toBitsBE 8 (v % 128 + 128) ++ (bitsOfBytes (ulebEnc f (v / 128)) ++ rest) := by
        simp [bitsOfBytes, List.append_assoc]
      rw [hbits]
      unfold ulebLoop
      rw [u8_at pre _ (v % 128 + 128) (by omega)]
      simp only [Res.bind]
      have hnot : ¬ (shift ≥ 63 ∧ v % 128 + 128 ≠ 0) := by omega
      rw [if_neg hnot, hb.2.1, if_neg hb.1]
      have hu : u64 ((v % 128) <<< shift) = v % 128 * 2 ^ shift := by
        rw [u64, Nat.shiftLeft_eq, Nat.mod_eq_of_lt]
        have h1 : v % 128 * 2 ^ shift < 128 * 2 ^ shift := Nat.mul_lt_mul_of_pos_right hr hPpos
        have h2 : 2 ^ shift < 2 ^ 56 := Nat.pow_lt_pow_right (by decide) hshift
        have e : (2:Nat) ^ 64 = 256 * 2 ^ 56 := by decide
        omega
      rw [hu, or_low result _ shift hres]
      -- recursive call on the rest
      have hf1 : 1 ≤ f := by
        cases f with
        | zero => simp at hv; omega
        | succ f => omega
      have hv' : v / 128 < 128 ^ f := by
        rw [Nat.pow_succ] at hv
        exact Nat.div_lt_of_lt_mul (by rw [Nat.mul_comm]; exact hv)
      have hassoc : pre ++ toBitsBE 8 (v % 128 + 128) ++ (bitsOfBytes (ulebEnc f (v / 128)) ++ rest)
          = (pre ++ toBitsBE 8 (v % 128 + 128)) ++ bitsOfBytes (ulebEnc f (v / 128)) ++ rest := by
        simp [List.append_assoc]
      have hplen : (pre ++ toBitsBE 8 (v % 128 + 128)).length = pre.length + 8 := by simp [toBitsBE_length]
      rw [hassoc, ← hplen]
      have hP7 : 2 ^ (shift + 7) = 2 ^ shift * 128 := by rw [Nat.pow_add]
      have hbound' : v / 128 * 2 ^ (shift + 7) < 2 ^ 63 := by
        rw [hP7]
        have := split128 v (2 ^ shift)
        omega
      have hres' : result + v % 128 * 2 ^ shift < 2 ^ (shift + 7) := by
        rw [hP7]
        have h1 : v % 128 * 2 ^ shift ≤ 127 * 2 ^ shift := Nat.mul_le_mul_right _ (by omega)
        omega
      rw [ih (v / 128) (pre ++ toBitsBE 8 (v % 128 + 128)) rest (shift + 7) (result + v % 128 * 2 ^ shift) fuel'
            hv' hf1 (by rw [henc] at hfuel; simp at hfuel; omega) hbound' hres']
      rw [hplen, hP7]
      have := split128 v (2 ^ shift)
      simp only [List.length_cons]
      congr 1 <;> omega


theorem ulebEnc_length_le (f : Nat) : ∀ v, (ulebEnc f v).length ≤ f := by
  induction f with
  | zero => intro v; simp [ulebEnc]
  | succ f ih => intro v; simp only [ulebEnc]; split
                 · simp
                 · simp only [List.length_cons]; have := ih (v / 128); omega

set_option maxRecDepth 8000 in
theorem cont_bit : ∀ c, c < 256 → 128 ≤ c → c &&& 128 ≠ 0 := by decide

/-- k continuation bytes are consumed one by one as long as the shift stays below 63 -/
theorem uleb_conts (cs : List Nat) : ∀ (pre tail : Bits) (shift result fuel : Nat),
    (∀ c ∈ cs, 128 ≤ c ∧ c < 256) → shift + 7 * cs.length ≤ 63 →
    ∃ result', ulebLoop (pre ++ bitsOfBytes cs ++ tail) (fuel + cs.length) pre.length shift result
      = ulebLoop (pre ++ bitsOfBytes cs ++ tail) fuel (pre.length + 8 * cs.length) (shift + 7 * cs.length) result' := by
  induction cs with
  | nil => intro pre tail shift result fuel _ _; exact ⟨result, by simp⟩
  | cons c cs ih =>
    intro pre tail shift result fuel hc hs
    have hc0 := hc c (by simp)
    simp only [List.length_cons] at hs ⊢
    have hbits : pre ++ bitsOfBytes (c :: cs) ++ tail = pre ++ toBitsBE 8 c ++ (bitsOfBytes cs ++ tail) := by
      simp [bitsOfBytes, List.append_assoc]
    have hassoc : pre ++ toBitsBE 8 c ++ (bitsOfBytes cs ++ tail) = (pre ++ toBitsBE 8 c) ++ bitsOfBytes cs ++ tail := by
      simp [List.append_assoc]
    have hplen : (pre ++ toBitsBE 8 c).length = pre.length + 8 := by simp [toBitsBE_length]
    have hf : fuel + (cs.length + 1) = (fuel + cs.length) + 1 := by omega
    rw [hbits, hf]
    conv => enter [1, result', 1]; unfold ulebLoop
    simp only [u8_at pre _ c hc0.2, Res.bind]
    have hnot : ¬ (shift ≥ 63 ∧ c ≠ 0) := by omega
    simp only [if_neg hnot, if_neg (cont_bit c hc0.2 hc0.1)]
    obtain ⟨r', hr'⟩ := ih (pre ++ toBitsBE 8 c) tail (shift + 7) (result ||| u64 ((c &&& 127) <<< shift)) fuel
      (fun x hx => hc x (by simp [hx])) (by omega)
    refine ⟨r', ?_⟩
    rw [hassoc, ← hplen, hr', hplen]
    congr 1 <;> omega

end Proofs.C02
