import FqModel.Scalar
import Proofs.C02Int
/-! C02 helper lemmas: unary codes, booleans. Core Lean only. -/
namespace Proofs.C02
open FqModel FqModel.Scalar

def bitNat (b : Bool) : Nat := if b then 1 else 0

theorem unaryRun_run (o : Bool) (k : Nat) (rest : Bits) :
    unaryRun (bitNat o) (List.replicate k o ++ (!o) :: rest) = some k := by
  induction k with
  | zero => cases o <;> simp [unaryRun, bitNat]
  | succ k ih =>
    simp only [List.replicate_succ, List.cons_append, unaryRun]
    have : (if o = true then 1 else 0) = bitNat o := rfl
    rw [this, if_pos rfl, ih]; rfl

theorem unaryRun_eof (o : Bool) (k : Nat) : unaryRun (bitNat o) (List.replicate k o) = none := by
  induction k with
  | zero => simp [unaryRun]
  | succ k ih =>
    simp only [List.replicate_succ, unaryRun]
    have : (if o = true then 1 else 0) = bitNat o := rfl
    rw [this, if_pos rfl, ih]; rfl

/-- an `ov` that is neither 0 nor 1 never matches: zero-length run, one bit consumed -/
theorem unaryRun_other (ov : Nat) (h : 2 ≤ ov) (b : Bool) (rest : Bits) : unaryRun ov (b :: rest) = some 0 := by
  cases b <;> simp [unaryRun] <;> omega

theorem drop_pre {α} (pre x : List α) : (pre ++ x).drop pre.length = x := by simp

end Proofs.C02
