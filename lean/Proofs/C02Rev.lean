import FqModel.Scalar
import Proofs.C02Int
/-! C02 helper lemmas: ReverseBytes64 = reversal of the base-256 digits. Core Lean only. -/
namespace Proofs.C02
open FqModel FqModel.Scalar

/-- the number whose `k` base-256 digits are those of `u` in reverse order -/
def revDigits : Nat → Nat → Nat
  | 0, _ => 0
  | k+1, u => (u % 256) * 256 ^ k + revDigits k (u / 256)

theorem and_mask (u s : Nat) : u &&& (255 * 2 ^ s) = (u / 2 ^ s % 256) * 2 ^ s := by
  apply Nat.eq_of_testBit_eq
  intro i
  have h255 : (255 : Nat) = 2 ^ 8 - 1 := by decide
  have h256 : (256 : Nat) = 2 ^ 8 := by decide
  rw [Nat.testBit_and, Nat.testBit_mul_two_pow, Nat.testBit_mul_two_pow, h255, Nat.testBit_two_pow_sub_one,
      h256, Nat.testBit_mod_two_pow, Nat.testBit_div_two_pow]
  by_cases h : s ≤ i
  · have : i - s + s = i := by omega
    simp [h, this, Bool.and_comm]
  · simp [h]

theorem or_eq_add (a b s a' : Nat) (ha : a = 2 ^ s * a') (hb : b < 2 ^ s) : a ||| b = a + b := by
  subst ha; exact (Nat.two_pow_add_eq_or_of_lt hb a').symm

set_option maxRecDepth 8000

theorem m0 (u : Nat) : u &&& 255 % 18446744073709551616 = (u / 1 % 256) * 1 := by
  have := and_mask u 0; simpa using this

theorem m1 (u : Nat) : u &&& 65280 % 18446744073709551616 = (u / 256 % 256) * 256 := by
  have := and_mask u 8; simpa using this

theorem m2 (u : Nat) : u &&& 16711680 % 18446744073709551616 = (u / 65536 % 256) * 65536 := by
  have := and_mask u 16; simpa using this

theorem m3 (u : Nat) : u &&& 4278190080 % 18446744073709551616 = (u / 16777216 % 256) * 16777216 := by
  have := and_mask u 24; simpa using this

theorem m4 (u : Nat) : u &&& 1095216660480 % 18446744073709551616 = (u / 4294967296 % 256) * 4294967296 := by
  have := and_mask u 32; simpa using this

theorem m5 (u : Nat) : u &&& 280375465082880 % 18446744073709551616 = (u / 1099511627776 % 256) * 1099511627776 := by
  have := and_mask u 40; simpa using this

theorem m6 (u : Nat) : u &&& 71776119061217280 % 18446744073709551616 = (u / 281474976710656 % 256) * 281474976710656 := by
  have := and_mask u 48; simpa using this

theorem m7 (u : Nat) : u &&& 18374686479671623680 % 18446744073709551616 = (u / 72057594037927936 % 256) * 72057594037927936 := by
  have := and_mask u 56; simpa using this

theorem tl2_t0 (u : Nat) : u / 1 % 256 * 1 * 256 % 18446744073709551616 = u / 1 % 256 * 256 := by omega
theorem tl2_t1 (u : Nat) : u / 256 % 256 * 256 / 256 = u / 256 % 256 * 1 := by omega
theorem rev_k2 (n u : Nat) (hlo : 8 < n) (hhi : n ≤ 16) (hu : u < 65536) :
    (reverseBytes64 n (BitVec.ofNat 64 u)).map BitVec.toNat = some (revDigits 2 u) := by
  have c1 : ¬ n ≤ 8 := by omega
  have hx : (BitVec.ofNat 64 u).toNat = u := by simp; omega
  simp only [reverseBytes64, c1, hhi, if_true, if_false, Option.map_some, Option.some.injEq]
  simp only [BitVec.toNat_or, BitVec.toNat_shiftLeft, BitVec.toNat_ushiftRight, BitVec.toNat_and, hx, BitVec.toNat_ofNat, Nat.shiftLeft_eq, Nat.shiftRight_eq_div_pow, Nat.reducePow]
  clear hx
  rw [m0 u, m1 u]
  have t0 := tl2_t0 u
  have t1 := tl2_t1 u
  rw [t0, t1]
  clear t0 t1
  rw [Nat.or_comm]
  rw [or_eq_add (u / 1 % 256 * 256) (u / 256 % 256 * 1) 8 (u / 1 % 256 * 1) (by simp only [Nat.reducePow]; omega) (by simp only [Nat.reducePow]; omega)]
  simp only [revDigits, Nat.reducePow]
  omega

theorem tl3_t0 (u : Nat) : u / 1 % 256 * 1 * 65536 % 18446744073709551616 = u / 1 % 256 * 65536 := by omega
theorem tl3_t2 (u : Nat) : u / 65536 % 256 * 65536 / 65536 = u / 65536 % 256 * 1 := by omega
theorem rev_k3 (n u : Nat) (hlo : 16 < n) (hhi : n ≤ 24) (hu : u < 16777216) :
    (reverseBytes64 n (BitVec.ofNat 64 u)).map BitVec.toNat = some (revDigits 3 u) := by
  have c1 : ¬ n ≤ 8 := by omega
  have c2 : ¬ n ≤ 16 := by omega
  have hx : (BitVec.ofNat 64 u).toNat = u := by simp; omega
  simp only [reverseBytes64, c1, c2, hhi, if_true, if_false, Option.map_some, Option.some.injEq]
  simp only [BitVec.toNat_or, BitVec.toNat_shiftLeft, BitVec.toNat_ushiftRight, BitVec.toNat_and, hx, BitVec.toNat_ofNat, Nat.shiftLeft_eq, Nat.shiftRight_eq_div_pow, Nat.reducePow]
  clear hx
  rw [m0 u, m1 u, m2 u]
  have t0 := tl3_t0 u
  have t2 := tl3_t2 u
  rw [t0, t2]
  clear t0 t2
  rw [or_eq_add (u / 1 % 256 * 65536) (u / 256 % 256 * 256) 16 (u / 1 % 256 * 1) (by simp only [Nat.reducePow]; omega) (by simp only [Nat.reducePow]; omega)]
  rw [or_eq_add (u / 1 % 256 * 65536 + u / 256 % 256 * 256) (u / 65536 % 256 * 1) 8 (u / 1 % 256 * 256 + u / 256 % 256 * 1) (by simp only [Nat.reducePow]; omega) (by simp only [Nat.reducePow]; omega)]
  simp only [revDigits, Nat.reducePow]
  omega

theorem tl4_t0 (u : Nat) : u / 1 % 256 * 1 * 16777216 % 18446744073709551616 = u / 1 % 256 * 16777216 := by omega
theorem tl4_t1 (u : Nat) : u / 256 % 256 * 256 * 256 % 18446744073709551616 = u / 256 % 256 * 65536 := by omega
theorem tl4_t2 (u : Nat) : u / 65536 % 256 * 65536 / 256 = u / 65536 % 256 * 256 := by omega
theorem tl4_t3 (u : Nat) : u / 16777216 % 256 * 16777216 / 16777216 = u / 16777216 % 256 * 1 := by omega
theorem rev_k4 (n u : Nat) (hlo : 24 < n) (hhi : n ≤ 32) (hu : u < 4294967296) :
    (reverseBytes64 n (BitVec.ofNat 64 u)).map BitVec.toNat = some (revDigits 4 u) := by
  have c1 : ¬ n ≤ 8 := by omega
  have c2 : ¬ n ≤ 16 := by omega
  have c3 : ¬ n ≤ 24 := by omega
  have hx : (BitVec.ofNat 64 u).toNat = u := by simp; omega
  simp only [reverseBytes64, c1, c2, c3, hhi, if_true, if_false, Option.map_some, Option.some.injEq]
  simp only [BitVec.toNat_or, BitVec.toNat_shiftLeft, BitVec.toNat_ushiftRight, BitVec.toNat_and, hx, BitVec.toNat_ofNat, Nat.shiftLeft_eq, Nat.shiftRight_eq_div_pow, Nat.reducePow]
  clear hx
  rw [m0 u, m1 u, m2 u, m3 u]
  have t0 := tl4_t0 u
  have t1 := tl4_t1 u
  have t2 := tl4_t2 u
  have t3 := tl4_t3 u
  rw [t0, t1, t2, t3]
  clear t0 t1 t2 t3
  rw [or_eq_add (u / 1 % 256 * 16777216) (u / 256 % 256 * 65536) 24 (u / 1 % 256 * 1) (by simp only [Nat.reducePow]; omega) (by simp only [Nat.reducePow]; omega)]
  rw [or_eq_add (u / 1 % 256 * 16777216 + u / 256 % 256 * 65536) (u / 65536 % 256 * 256) 16 (u / 1 % 256 * 256 + u / 256 % 256 * 1) (by simp only [Nat.reducePow]; omega) (by simp only [Nat.reducePow]; omega)]
  rw [or_eq_add (u / 1 % 256 * 16777216 + u / 256 % 256 * 65536 + u / 65536 % 256 * 256) (u / 16777216 % 256 * 1) 8 (u / 1 % 256 * 65536 + u / 256 % 256 * 256 + u / 65536 % 256 * 1) (by simp only [Nat.reducePow]; omega) (by simp only [Nat.reducePow]; omega)]
  simp only [revDigits, Nat.reducePow]
  omega

theorem tl5_t0 (u : Nat) : u / 1 % 256 * 1 * 4294967296 % 18446744073709551616 = u / 1 % 256 * 4294967296 := by omega
theorem tl5_t1 (u : Nat) : u / 256 % 256 * 256 * 65536 % 18446744073709551616 = u / 256 % 256 * 16777216 := by omega
theorem tl5_t3 (u : Nat) : u / 16777216 % 256 * 16777216 / 65536 = u / 16777216 % 256 * 256 := by omega
theorem tl5_t4 (u : Nat) : u / 4294967296 % 256 * 4294967296 / 4294967296 = u / 4294967296 % 256 * 1 := by omega
theorem rev_k5 (n u : Nat) (hlo : 32 < n) (hhi : n ≤ 40) (hu : u < 1099511627776) :
    (reverseBytes64 n (BitVec.ofNat 64 u)).map BitVec.toNat = some (revDigits 5 u) := by
  have c1 : ¬ n ≤ 8 := by omega
  have c2 : ¬ n ≤ 16 := by omega
  have c3 : ¬ n ≤ 24 := by omega
  have c4 : ¬ n ≤ 32 := by omega
  have hx : (BitVec.ofNat 64 u).toNat = u := by simp; omega
  simp only [reverseBytes64, c1, c2, c3, c4, hhi, if_true, if_false, Option.map_some, Option.some.injEq]
  simp only [BitVec.toNat_or, BitVec.toNat_shiftLeft, BitVec.toNat_ushiftRight, BitVec.toNat_and, hx, BitVec.toNat_ofNat, Nat.shiftLeft_eq, Nat.shiftRight_eq_div_pow, Nat.reducePow]
  clear hx
  rw [m0 u, m1 u, m2 u, m3 u, m4 u]
  have t0 := tl5_t0 u
  have t1 := tl5_t1 u
  have t3 := tl5_t3 u
  have t4 := tl5_t4 u
  rw [t0, t1, t3, t4]
  clear t0 t1 t3 t4
  rw [or_eq_add (u / 1 % 256 * 4294967296) (u / 256 % 256 * 16777216) 32 (u / 1 % 256 * 1) (by simp only [Nat.reducePow]; omega) (by simp only [Nat.reducePow]; omega)]
  rw [or_eq_add (u / 1 % 256 * 4294967296 + u / 256 % 256 * 16777216) (u / 65536 % 256 * 65536) 24 (u / 1 % 256 * 256 + u / 256 % 256 * 1) (by simp only [Nat.reducePow]; omega) (by simp only [Nat.reducePow]; omega)]
  rw [or_eq_add (u / 1 % 256 * 4294967296 + u / 256 % 256 * 16777216 + u / 65536 % 256 * 65536) (u / 16777216 % 256 * 256) 16 (u / 1 % 256 * 65536 + u / 256 % 256 * 256 + u / 65536 % 256 * 1) (by simp only [Nat.reducePow]; omega) (by simp only [Nat.reducePow]; omega)]
  rw [or_eq_add (u / 1 % 256 * 4294967296 + u / 256 % 256 * 16777216 + u / 65536 % 256 * 65536 + u / 16777216 % 256 * 256) (u / 4294967296 % 256 * 1) 8 (u / 1 % 256 * 16777216 + u / 256 % 256 * 65536 + u / 65536 % 256 * 256 + u / 16777216 % 256 * 1) (by simp only [Nat.reducePow]; omega) (by simp only [Nat.reducePow]; omega)]
  simp only [revDigits, Nat.reducePow]
  omega

theorem tl6_t0 (u : Nat) : u / 1 % 256 * 1 * 1099511627776 % 18446744073709551616 = u / 1 % 256 * 1099511627776 := by omega
theorem tl6_t1 (u : Nat) : u / 256 % 256 * 256 * 16777216 % 18446744073709551616 = u / 256 % 256 * 4294967296 := by omega
theorem tl6_t2 (u : Nat) : u / 65536 % 256 * 65536 * 256 % 18446744073709551616 = u / 65536 % 256 * 16777216 := by omega
theorem tl6_t3 (u : Nat) : u / 16777216 % 256 * 16777216 / 256 = u / 16777216 % 256 * 65536 := by omega
theorem tl6_t4 (u : Nat) : u / 4294967296 % 256 * 4294967296 / 16777216 = u / 4294967296 % 256 * 256 := by omega
theorem tl6_t5 (u : Nat) : u / 1099511627776 % 256 * 1099511627776 / 1099511627776 = u / 1099511627776 % 256 * 1 := by omega
theorem rev_k6 (n u : Nat) (hlo : 40 < n) (hhi : n ≤ 48) (hu : u < 281474976710656) :
    (reverseBytes64 n (BitVec.ofNat 64 u)).map BitVec.toNat = some (revDigits 6 u) := by
  have c1 : ¬ n ≤ 8 := by omega
  have c2 : ¬ n ≤ 16 := by omega
  have c3 : ¬ n ≤ 24 := by omega
  have c4 : ¬ n ≤ 32 := by omega
  have c5 : ¬ n ≤ 40 := by omega
  have hx : (BitVec.ofNat 64 u).toNat = u := by simp; omega
  simp only [reverseBytes64, c1, c2, c3, c4, c5, hhi, if_true, if_false, Option.map_some, Option.some.injEq]
  simp only [BitVec.toNat_or, BitVec.toNat_shiftLeft, BitVec.toNat_ushiftRight, BitVec.toNat_and, hx, BitVec.toNat_ofNat, Nat.shiftLeft_eq, Nat.shiftRight_eq_div_pow, Nat.reducePow]
  clear hx
  rw [m0 u, m1 u, m2 u, m3 u, m4 u, m5 u]
  have t0 := tl6_t0 u
  have t1 := tl6_t1 u
  have t2 := tl6_t2 u
  have t3 := tl6_t3 u
  have t4 := tl6_t4 u
  have t5 := tl6_t5 u
  rw [t0, t1, t2, t3, t4, t5]
  clear t0 t1 t2 t3 t4 t5
  rw [or_eq_add (u / 1 % 256 * 1099511627776) (u / 256 % 256 * 4294967296) 40 (u / 1 % 256 * 1) (by simp only [Nat.reducePow]; omega) (by simp only [Nat.reducePow]; omega)]
  rw [or_eq_add (u / 1 % 256 * 1099511627776 + u / 256 % 256 * 4294967296) (u / 65536 % 256 * 16777216) 32 (u / 1 % 256 * 256 + u / 256 % 256 * 1) (by simp only [Nat.reducePow]; omega) (by simp only [Nat.reducePow]; omega)]
  rw [or_eq_add (u / 1 % 256 * 1099511627776 + u / 256 % 256 * 4294967296 + u / 65536 % 256 * 16777216) (u / 16777216 % 256 * 65536) 24 (u / 1 % 256 * 65536 + u / 256 % 256 * 256 + u / 65536 % 256 * 1) (by simp only [Nat.reducePow]; omega) (by simp only [Nat.reducePow]; omega)]
  rw [or_eq_add (u / 1 % 256 * 1099511627776 + u / 256 % 256 * 4294967296 + u / 65536 % 256 * 16777216 + u / 16777216 % 256 * 65536) (u / 4294967296 % 256 * 256) 16 (u / 1 % 256 * 16777216 + u / 256 % 256 * 65536 + u / 65536 % 256 * 256 + u / 16777216 % 256 * 1) (by simp only [Nat.reducePow]; omega) (by simp only [Nat.reducePow]; omega)]
  rw [or_eq_add (u / 1 % 256 * 1099511627776 + u / 256 % 256 * 4294967296 + u / 65536 % 256 * 16777216 + u / 16777216 % 256 * 65536 + u / 4294967296 % 256 * 256) (u / 1099511627776 % 256 * 1) 8 (u / 1 % 256 * 4294967296 + u / 256 % 256 * 16777216 + u / 65536 % 256 * 65536 + u / 16777216 % 256 * 256 + u / 4294967296 % 256 * 1) (by simp only [Nat.reducePow]; omega) (by simp only [Nat.reducePow]; omega)]
  simp only [revDigits, Nat.reducePow]
  omega

theorem tl7_t0 (u : Nat) : u / 1 % 256 * 1 * 281474976710656 % 18446744073709551616 = u / 1 % 256 * 281474976710656 := by omega
theorem tl7_t1 (u : Nat) : u / 256 % 256 * 256 * 4294967296 % 18446744073709551616 = u / 256 % 256 * 1099511627776 := by omega
theorem tl7_t2 (u : Nat) : u / 65536 % 256 * 65536 * 65536 % 18446744073709551616 = u / 65536 % 256 * 4294967296 := by omega
theorem tl7_t4 (u : Nat) : u / 4294967296 % 256 * 4294967296 / 65536 = u / 4294967296 % 256 * 65536 := by omega
theorem tl7_t5 (u : Nat) : u / 1099511627776 % 256 * 1099511627776 / 4294967296 = u / 1099511627776 % 256 * 256 := by omega
theorem tl7_t6 (u : Nat) : u / 281474976710656 % 256 * 281474976710656 / 281474976710656 = u / 281474976710656 % 256 * 1 := by omega
theorem rev_k7 (n u : Nat) (hlo : 48 < n) (hhi : n ≤ 56) (hu : u < 72057594037927936) :
    (reverseBytes64 n (BitVec.ofNat 64 u)).map BitVec.toNat = some (revDigits 7 u) := by
  have c1 : ¬ n ≤ 8 := by omega
  have c2 : ¬ n ≤ 16 := by omega
  have c3 : ¬ n ≤ 24 := by omega
  have c4 : ¬ n ≤ 32 := by omega
  have c5 : ¬ n ≤ 40 := by omega
  have c6 : ¬ n ≤ 48 := by omega
  have hx : (BitVec.ofNat 64 u).toNat = u := by simp; omega
  simp only [reverseBytes64, c1, c2, c3, c4, c5, c6, hhi, if_true, if_false, Option.map_some, Option.some.injEq]
  simp only [BitVec.toNat_or, BitVec.toNat_shiftLeft, BitVec.toNat_ushiftRight, BitVec.toNat_and, hx, BitVec.toNat_ofNat, Nat.shiftLeft_eq, Nat.shiftRight_eq_div_pow, Nat.reducePow]
  clear hx
  rw [m0 u, m1 u, m2 u, m3 u, m4 u, m5 u, m6 u]
  have t0 := tl7_t0 u
  have t1 := tl7_t1 u
  have t2 := tl7_t2 u
  have t4 := tl7_t4 u
  have t5 := tl7_t5 u
  have t6 := tl7_t6 u
  rw [t0, t1, t2, t4, t5, t6]
  clear t0 t1 t2 t4 t5 t6
  rw [or_eq_add (u / 1 % 256 * 281474976710656) (u / 256 % 256 * 1099511627776) 48 (u / 1 % 256 * 1) (by simp only [Nat.reducePow]; omega) (by simp only [Nat.reducePow]; omega)]
  rw [or_eq_add (u / 1 % 256 * 281474976710656 + u / 256 % 256 * 1099511627776) (u / 65536 % 256 * 4294967296) 40 (u / 1 % 256 * 256 + u / 256 % 256 * 1) (by simp only [Nat.reducePow]; omega) (by simp only [Nat.reducePow]; omega)]
  rw [or_eq_add (u / 1 % 256 * 281474976710656 + u / 256 % 256 * 1099511627776 + u / 65536 % 256 * 4294967296) (u / 16777216 % 256 * 16777216) 32 (u / 1 % 256 * 65536 + u / 256 % 256 * 256 + u / 65536 % 256 * 1) (by simp only [Nat.reducePow]; omega) (by simp only [Nat.reducePow]; omega)]
  rw [or_eq_add (u / 1 % 256 * 281474976710656 + u / 256 % 256 * 1099511627776 + u / 65536 % 256 * 4294967296 + u / 16777216 % 256 * 16777216) (u / 4294967296 % 256 * 65536) 24 (u / 1 % 256 * 16777216 + u / 256 % 256 * 65536 + u / 65536 % 256 * 256 + u / 16777216 % 256 * 1) (by simp only [Nat.reducePow]; omega) (by simp only [Nat.reducePow]; omega)]
  rw [or_eq_add (u / 1 % 256 * 281474976710656 + u / 256 % 256 * 1099511627776 + u / 65536 % 256 * 4294967296 + u / 16777216 % 256 * 16777216 + u / 4294967296 % 256 * 65536) (u / 1099511627776 % 256 * 256) 16 (u / 1 % 256 * 4294967296 + u / 256 % 256 * 16777216 + u / 65536 % 256 * 65536 + u / 16777216 % 256 * 256 + u / 4294967296 % 256 * 1) (by simp only [Nat.reducePow]; omega) (by simp only [Nat.reducePow]; omega)]
  rw [or_eq_add (u / 1 % 256 * 281474976710656 + u / 256 % 256 * 1099511627776 + u / 65536 % 256 * 4294967296 + u / 16777216 % 256 * 16777216 + u / 4294967296 % 256 * 65536 + u / 1099511627776 % 256 * 256) (u / 281474976710656 % 256 * 1) 8 (u / 1 % 256 * 1099511627776 + u / 256 % 256 * 4294967296 + u / 65536 % 256 * 16777216 + u / 16777216 % 256 * 65536 + u / 4294967296 % 256 * 256 + u / 1099511627776 % 256 * 1) (by simp only [Nat.reducePow]; omega) (by simp only [Nat.reducePow]; omega)]
  simp only [revDigits, Nat.reducePow]
  omega

theorem tl8_t0 (u : Nat) : u / 1 % 256 * 1 * 72057594037927936 % 18446744073709551616 = u / 1 % 256 * 72057594037927936 := by omega
theorem tl8_t1 (u : Nat) : u / 256 % 256 * 256 * 1099511627776 % 18446744073709551616 = u / 256 % 256 * 281474976710656 := by omega
theorem tl8_t2 (u : Nat) : u / 65536 % 256 * 65536 * 16777216 % 18446744073709551616 = u / 65536 % 256 * 1099511627776 := by omega
theorem tl8_t3 (u : Nat) : u / 16777216 % 256 * 16777216 * 256 % 18446744073709551616 = u / 16777216 % 256 * 4294967296 := by omega
theorem tl8_t4 (u : Nat) : u / 4294967296 % 256 * 4294967296 / 256 = u / 4294967296 % 256 * 16777216 := by omega
theorem tl8_t5 (u : Nat) : u / 1099511627776 % 256 * 1099511627776 / 16777216 = u / 1099511627776 % 256 * 65536 := by omega
theorem tl8_t6 (u : Nat) : u / 281474976710656 % 256 * 281474976710656 / 1099511627776 = u / 281474976710656 % 256 * 256 := by omega
theorem tl8_t7 (u : Nat) : u / 72057594037927936 % 256 * 72057594037927936 / 72057594037927936 = u / 72057594037927936 % 256 * 1 := by omega
theorem rev_k8 (n u : Nat) (hlo : 56 < n) (hhi : n ≤ 64) (hu : u < 18446744073709551616) :
    (reverseBytes64 n (BitVec.ofNat 64 u)).map BitVec.toNat = some (revDigits 8 u) := by
  have c1 : ¬ n ≤ 8 := by omega
  have c2 : ¬ n ≤ 16 := by omega
  have c3 : ¬ n ≤ 24 := by omega
  have c4 : ¬ n ≤ 32 := by omega
  have c5 : ¬ n ≤ 40 := by omega
  have c6 : ¬ n ≤ 48 := by omega
  have c7 : ¬ n ≤ 56 := by omega
  have hx : (BitVec.ofNat 64 u).toNat = u := by simp; omega
  simp only [reverseBytes64, c1, c2, c3, c4, c5, c6, c7, hhi, if_true, if_false, Option.map_some, Option.some.injEq]
  simp only [BitVec.toNat_or, BitVec.toNat_shiftLeft, BitVec.toNat_ushiftRight, BitVec.toNat_and, hx, BitVec.toNat_ofNat, Nat.shiftLeft_eq, Nat.shiftRight_eq_div_pow, Nat.reducePow]
  clear hx
  rw [m0 u, m1 u, m2 u, m3 u, m4 u, m5 u, m6 u, m7 u]
  have t0 := tl8_t0 u
  have t1 := tl8_t1 u
  have t2 := tl8_t2 u
  have t3 := tl8_t3 u
  have t4 := tl8_t4 u
  have t5 := tl8_t5 u
  have t6 := tl8_t6 u
  have t7 := tl8_t7 u
  rw [t0, t1, t2, t3, t4, t5, t6, t7]
  clear t0 t1 t2 t3 t4 t5 t6 t7
  rw [or_eq_add (u / 1 % 256 * 72057594037927936) (u / 256 % 256 * 281474976710656) 56 (u / 1 % 256 * 1) (by simp only [Nat.reducePow]; omega) (by simp only [Nat.reducePow]; omega)]
  rw [or_eq_add (u / 1 % 256 * 72057594037927936 + u / 256 % 256 * 281474976710656) (u / 65536 % 256 * 1099511627776) 48 (u / 1 % 256 * 256 + u / 256 % 256 * 1) (by simp only [Nat.reducePow]; omega) (by simp only [Nat.reducePow]; omega)]
  rw [or_eq_add (u / 1 % 256 * 72057594037927936 + u / 256 % 256 * 281474976710656 + u / 65536 % 256 * 1099511627776) (u / 16777216 % 256 * 4294967296) 40 (u / 1 % 256 * 65536 + u / 256 % 256 * 256 + u / 65536 % 256 * 1) (by simp only [Nat.reducePow]; omega) (by simp only [Nat.reducePow]; omega)]
  rw [or_eq_add (u / 1 % 256 * 72057594037927936 + u / 256 % 256 * 281474976710656 + u / 65536 % 256 * 1099511627776 + u / 16777216 % 256 * 4294967296) (u / 4294967296 % 256 * 16777216) 32 (u / 1 % 256 * 16777216 + u / 256 % 256 * 65536 + u / 65536 % 256 * 256 + u / 16777216 % 256 * 1) (by simp only [Nat.reducePow]; omega) (by simp only [Nat.reducePow]; omega)]
  rw [or_eq_add (u / 1 % 256 * 72057594037927936 + u / 256 % 256 * 281474976710656 + u / 65536 % 256 * 1099511627776 + u / 16777216 % 256 * 4294967296 + u / 4294967296 % 256 * 16777216) (u / 1099511627776 % 256 * 65536) 24 (u / 1 % 256 * 4294967296 + u / 256 % 256 * 16777216 + u / 65536 % 256 * 65536 + u / 16777216 % 256 * 256 + u / 4294967296 % 256 * 1) (by simp only [Nat.reducePow]; omega) (by simp only [Nat.reducePow]; omega)]
  rw [or_eq_add (u / 1 % 256 * 72057594037927936 + u / 256 % 256 * 281474976710656 + u / 65536 % 256 * 1099511627776 + u / 16777216 % 256 * 4294967296 + u / 4294967296 % 256 * 16777216 + u / 1099511627776 % 256 * 65536) (u / 281474976710656 % 256 * 256) 16 (u / 1 % 256 * 1099511627776 + u / 256 % 256 * 4294967296 + u / 65536 % 256 * 16777216 + u / 16777216 % 256 * 65536 + u / 4294967296 % 256 * 256 + u / 1099511627776 % 256 * 1) (by simp only [Nat.reducePow]; omega) (by simp only [Nat.reducePow]; omega)]
  rw [or_eq_add (u / 1 % 256 * 72057594037927936 + u / 256 % 256 * 281474976710656 + u / 65536 % 256 * 1099511627776 + u / 16777216 % 256 * 4294967296 + u / 4294967296 % 256 * 16777216 + u / 1099511627776 % 256 * 65536 + u / 281474976710656 % 256 * 256) (u / 72057594037927936 % 256 * 1) 8 (u / 1 % 256 * 281474976710656 + u / 256 % 256 * 1099511627776 + u / 65536 % 256 * 4294967296 + u / 16777216 % 256 * 16777216 + u / 4294967296 % 256 * 65536 + u / 1099511627776 % 256 * 256 + u / 281474976710656 % 256 * 1) (by simp only [Nat.reducePow]; omega) (by simp only [Nat.reducePow]; omega)]
  simp only [revDigits, Nat.reducePow]
  omega

end Proofs.C02
