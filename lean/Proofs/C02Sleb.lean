import FqModel.Scalar
import Proofs.C02Int
import Proofs.C02Le
import Proofs.C02Leb
/-! C02 helper lemmas: signed LEB128. Core Lean only. -/
namespace Proofs.C02
open FqModel FqModel.Scalar

theorem shl_toNat (x s : Nat) (h : x * 2 ^ s < 2 ^ 64) : ((BitVec.ofNat 64 x) <<< s).toNat = x * 2 ^ s := by
  have hpos : 0 < 2 ^ s := Nat.pos_of_ne_zero (by simp)
  have hx : x < 2 ^ 64 := by
    have : x ≤ x * 2 ^ s := Nat.le_mul_of_pos_right _ hpos
    omega
  rw [BitVec.toNat_shiftLeft, BitVec.toNat_ofNat, Nat.mod_eq_of_lt hx, Nat.shiftLeft_eq, Nat.mod_eq_of_lt h]

theorem ones_shl_toNat (s : Nat) (h : s < 64) : ((BitVec.allOnes 64) <<< s).toNat = (2 ^ (64 - s) - 1) * 2 ^ s := by
  rw [BitVec.toNat_shiftLeft, BitVec.toNat_allOnes, Nat.shiftLeft_eq]
  have hsplit : 2 ^ 64 = 2 ^ (64 - s) * 2 ^ s := by rw [← Nat.pow_add]; congr 1; omega
  have hq : 0 < 2 ^ (64 - s) := Nat.pos_of_ne_zero (by simp)
  have hp : 0 < 2 ^ s := Nat.pos_of_ne_zero (by simp)
  have e : (2 ^ 64 - 1) * 2 ^ s = (2 ^ s - 1) * 2 ^ 64 + (2 ^ (64 - s) - 1) * 2 ^ s := by
    rw [Nat.sub_mul, Nat.sub_mul, Nat.sub_mul, ← hsplit, Nat.one_mul, Nat.one_mul, Nat.mul_comm (2 ^ s) (2 ^ 64)]
    have h1 : 2 ^ s ≤ 2 ^ 64 * 2 ^ s := Nat.le_mul_of_pos_left _ (by decide)
    have h2 : 2 ^ 64 ≤ 2 ^ 64 * 2 ^ s := Nat.le_mul_of_pos_right _ hp
    have h3 : 2 ^ s ≤ 2 ^ 64 := Nat.pow_le_pow_right (by decide) (by omega)
    omega
  rw [e, Nat.mul_comm (2 ^ s - 1) (2 ^ 64), Nat.mul_add_mod, Nat.mod_eq_of_lt]
  rw [Nat.sub_mul, ← hsplit, Nat.one_mul]; omega

theorem or_toNat_low (r y : BitVec 64) (x s : Nat) (hy : y.toNat = x * 2 ^ s) (hr : r.toNat < 2 ^ s) :
    (r ||| y).toNat = r.toNat + x * 2 ^ s := by
  rw [BitVec.toNat_or, hy, or_low _ _ _ hr]

theorem bit6 : ∀ b, b < 128 → ((b &&& 0x40 = 0x40) ↔ 64 ≤ b) := by decide

theorem pow7 (s : Nat) : 2 ^ (s + 7) = 2 ^ s * 128 := by rw [Nat.pow_add]

/-- the last byte of a signed LEB128 number -/
theorem sleb_final (res : BitVec 64) (shift b : Nat) (v : Int)
    (hres : res.toNat < 2 ^ shift) (h7 : 7 ∣ shift) (hs : shift ≤ 63) (hb : b < 128)
    (hv : (v = (b : Int) ∧ b < 64) ∨ (v = (b : Int) - 128 ∧ 64 ≤ b))
    (hlo : -(2 ^ 63 : Int) ≤ (res.toNat : Int) + v * (2 ^ shift : Nat))
    (hhi : (res.toNat : Int) + v * (2 ^ shift : Nat) < (2 ^ 63 : Int)) :
    (if shift + 7 < 64 ∧ b &&& 0x40 = 0x40
      then (res ||| (BitVec.ofNat 64 b) <<< shift) ||| (BitVec.allOnes 64) <<< (shift + 7)
      else (res ||| (BitVec.ofNat 64 b) <<< shift)).toInt
      = (res.toNat : Int) + v * (2 ^ shift : Nat) := by
  have hPpos : 0 < 2 ^ shift := Nat.pos_of_ne_zero (by simp)
  have h64 : (2 : Nat) ^ 64 = 18446744073709551616 := by decide
  have h63 : (2 : Nat) ^ 63 = 9223372036854775808 := by decide
  have h63i : (2 : Int) ^ 63 = 9223372036854775808 := by decide
  by_cases hlast : shift = 63
  · -- tenth byte: only bit 63 is left
    subst hlast
    have hc : ¬ (63 + 7 < 64 ∧ b &&& 0x40 = 0x40) := by omega
    rw [if_neg hc]
    rw [h63] at hres hlo hhi
    rw [h63i] at hlo hhi
    have hvcases : v = 0 ∨ v = -1 := by
      rcases hv with ⟨h, _⟩ | ⟨h, _⟩ <;> omega
    rcases hvcases with hv0 | hv1
    · have hb0 : b = 0 := by rcases hv with ⟨h, _⟩ | ⟨h, _⟩ <;> omega
      subst hb0
      have : (res ||| (BitVec.ofNat 64 0) <<< 63) = res := by simp
      rw [this, hv0, BitVec.toInt_eq_toNat_cond]
      have : 2 * res.toNat < 2 ^ 64 := by omega
      rw [if_pos this]; omega
    · have hb127 : b = 127 := by rcases hv with ⟨h, _⟩ | ⟨h, _⟩ <;> omega
      subst hb127
      have hy : ((BitVec.ofNat 64 127) <<< 63).toNat = 1 * 2 ^ 63 := by decide
      have := or_toNat_low res _ 1 63 hy (by omega)
      rw [hv1, BitVec.toInt_eq_toNat_cond, this]
      have hn : ¬ 2 * (res.toNat + 1 * 2 ^ 63) < 2 ^ 64 := by omega
      rw [if_neg hn]; omega
  · have hs56 : shift ≤ 56 := by omega
    have hP56 : 2 ^ shift ≤ 2 ^ 56 := Nat.pow_le_pow_right (by decide) hs56
    have h56 : (2 : Nat) ^ 56 = 72057594037927936 := by decide
    have hbP : b * 2 ^ shift < 128 * 2 ^ shift := Nat.mul_lt_mul_of_pos_right hb hPpos
    have hy : ((BitVec.ofNat 64 b) <<< shift).toNat = b * 2 ^ shift := shl_toNat b shift (by omega)
    have hr' := or_toNat_low res _ b shift hy hres
    by_cases hneg : 64 ≤ b
    · have hvb : v = (b : Int) - 128 := by rcases hv with ⟨_, h⟩ | ⟨h, _⟩ <;> omega
      have hc : shift + 7 < 64 ∧ b &&& 0x40 = 0x40 := ⟨by omega, (bit6 b hb).mpr hneg⟩
      rw [if_pos hc]
      have hones := ones_shl_toNat (shift + 7) (by omega)
      have hr'lt : (res ||| (BitVec.ofNat 64 b) <<< shift).toNat < 2 ^ (shift + 7) := by
        rw [hr', pow7 shift]
        have hbP' : b * 2 ^ shift ≤ 127 * 2 ^ shift := Nat.mul_le_mul_right _ (by omega)
        omega
      have hfull := or_toNat_low _ _ _ (shift + 7) hones hr'lt
      have hsplit : 2 ^ 64 = 2 ^ (64 - (shift + 7)) * 2 ^ (shift + 7) := by rw [← Nat.pow_add]; congr 1; omega
      have hq : 0 < 2 ^ (64 - (shift + 7)) := Nat.pos_of_ne_zero (by simp)
      have hones' : (2 ^ (64 - (shift + 7)) - 1) * 2 ^ (shift + 7) = 2 ^ 64 - 2 ^ (shift + 7) := by
        rw [Nat.sub_mul, ← hsplit, Nat.one_mul]
      have hP7le : 2 ^ (shift + 7) ≤ 2 ^ 63 := Nat.pow_le_pow_right (by decide) (by omega)
      rw [BitVec.toInt_eq_toNat_cond, hfull, hr', hones', hvb, pow7 shift]
      rw [pow7 shift] at hP7le
      have hn : ¬ 2 * (res.toNat + b * 2 ^ shift + (2 ^ 64 - 2 ^ shift * 128)) < 2 ^ 64 := by omega
      rw [if_neg hn]
      have e1 : ((b : Int) - 128) * ((2 ^ shift : Nat) : Int) = (b : Int) * ((2 ^ shift : Nat) : Int) - 128 * ((2 ^ shift : Nat) : Int) := by
        rw [Int.sub_mul]
      rw [e1]
      have e2 : (((b * 2 ^ shift : Nat)) : Int) = (b : Int) * ((2 ^ shift : Nat) : Int) := by simp
      omega
    · have hvb : v = (b : Int) := by rcases hv with ⟨h, _⟩ | ⟨_, h⟩ <;> omega
      have hc : ¬ (shift + 7 < 64 ∧ b &&& 0x40 = 0x40) := by
        intro ⟨_, h⟩; exact hneg ((bit6 b hb).mp h)
      rw [if_neg hc, BitVec.toInt_eq_toNat_cond, hr', hvb]
      have hb64 : b * 2 ^ shift < 64 * 2 ^ shift := Nat.mul_lt_mul_of_pos_right (by omega) hPpos
      have hp : 2 * (res.toNat + b * 2 ^ shift) < 2 ^ 64 := by omega
      rw [if_pos hp]
      simp


theorem lin128 (res b r P : Int) : res + b * P + r * (P * 128) = res + (128 * r + b) * P := by
  grind

theorem slebEnc_ne_nil (f : Nat) (v : Int) (hf : 1 ≤ f) : slebEnc f v ≠ [] := by
  cases f with
  | zero => omega
  | succ f => simp only [slebEnc]; split <;> simp

/-- the loop on a canonical signed encoding (any bit alignment, anything after it) -/
theorem sleb_loop_enc (f : Nat) : ∀ (v : Int) (pre rest : Bits) (shift : Nat) (result : BitVec 64) (fuel : Nat),
    -(64 * (128 ^ f : Nat) : Int) ≤ v → v < (64 * (128 ^ f : Nat) : Int) → (slebEnc (f + 1) v).length ≤ fuel →
    result.toNat < 2 ^ shift → 7 ∣ shift → shift ≤ 63 →
    -(2 ^ 63 : Int) ≤ (result.toNat : Int) + v * (2 ^ shift : Nat) →
    (result.toNat : Int) + v * (2 ^ shift : Nat) < (2 ^ 63 : Int) →
    slebLoop (pre ++ bitsOfBytes (slebEnc (f + 1) v) ++ rest) fuel pre.length shift result
      = .ok ((result.toNat : Int) + v * (2 ^ shift : Nat)) (pre.length + 8 * (slebEnc (f + 1) v).length) := by
  induction f with
  | zero =>
    intro v pre rest shift result fuel hlo hhi hfuel hres h7 hs hrlo hrhi
    -- one byte is enough
    have hb0 : 0 ≤ v % 128 := Int.emod_nonneg _ (by decide)
    have hb1 : v % 128 < 128 := Int.emod_lt_of_pos _ (by decide)
    simp only [Nat.pow_zero, Nat.mul_one] at hlo hhi
    have hterm : (v / 128 = 0 ∧ (v % 128).toNat < 64) ∨ (v / 128 = -1 ∧ (v % 128).toNat ≥ 64) := by omega
    have henc : slebEnc 1 v = [(v % 128).toNat] := by rw [slebEnc]; exact if_pos hterm
    rw [henc] at hfuel ⊢
    obtain ⟨fuel', rfl⟩ : ∃ k, fuel = k + 1 := ⟨fuel - 1, by simp at hfuel; omega⟩
    have hbl : (v % 128).toNat < 128 := by omega
    simp only [bitsOfBytes, List.flatMap_cons, List.flatMap_nil, List.append_nil, List.length_cons, List.length_nil]
    unfold slebLoop
    rw [u8_at pre rest _ (by omega)]
    simp only [Res.bind]
    have hbb := byte_bits _ hbl
    have hnot : ¬ (shift = 63 ∧ (v % 128).toNat ≠ 0 ∧ (v % 128).toNat ≠ 0x7f) := by
      intro ⟨h63, h0, h127⟩
      subst h63
      have e : ((2 ^ 63 : Nat) : Int) = 9223372036854775808 := by decide
      have e2 : (2 : Int) ^ 63 = 9223372036854775808 := by decide
      have e3 : (2 : Nat) ^ 63 = 9223372036854775808 := by decide
      rw [e] at hrlo hrhi; rw [e2] at hrlo hrhi; rw [e3] at hres
      omega
    rw [if_neg hnot, hbb.2.2.1, hbb.2.2.2.1]
    simp only [if_true]
    have hfin := sleb_final result shift (v % 128).toNat v hres h7 hs hbl (by omega) hrlo hrhi
    rw [hfin]
  | succ f ih =>
    intro v pre rest shift result fuel hlo hhi hfuel hres h7 hs hrlo hrhi
    have hb0 : 0 ≤ v % 128 := Int.emod_nonneg _ (by decide)
    have hb1 : v % 128 < 128 := Int.emod_lt_of_pos _ (by decide)
    have hbl : (v % 128).toNat < 128 := by omega
    have hbb := byte_bits _ hbl
    have hne := slebEnc_ne_nil (f + 1 + 1) v (by omega)
    have hl1 : 1 ≤ (slebEnc (f + 1 + 1) v).length := List.length_pos_iff.mpr hne
    obtain ⟨fuel', rfl⟩ : ∃ k, fuel = k + 1 := ⟨fuel - 1, by omega⟩
    have e63 : ((2 ^ 63 : Nat) : Int) = 9223372036854775808 := by decide
    have e63i : (2 : Int) ^ 63 = 9223372036854775808 := by decide
    have e63n : (2 : Nat) ^ 63 = 9223372036854775808 := by decide
    by_cases hterm : (v / 128 = 0 ∧ (v % 128).toNat < 64) ∨ (v / 128 = -1 ∧ (v % 128).toNat ≥ 64)
    · have henc : slebEnc (f + 1 + 1) v = [(v % 128).toNat] := by rw [slebEnc]; exact if_pos hterm
      rw [henc]
      simp only [bitsOfBytes, List.flatMap_cons, List.flatMap_nil, List.append_nil, List.length_cons, List.length_nil]
      unfold slebLoop
      rw [u8_at pre rest _ (by omega)]
      simp only [Res.bind]
      have hnot : ¬ (shift = 63 ∧ (v % 128).toNat ≠ 0 ∧ (v % 128).toNat ≠ 0x7f) := by
        intro ⟨h63, h0, h127⟩
        subst h63
        rw [e63] at hrlo hrhi; rw [e63i] at hrlo hrhi; rw [e63n] at hres
        omega
      rw [if_neg hnot, hbb.2.2.1, hbb.2.2.2.1]
      simp only [if_true]
      have hfin := sleb_final result shift (v % 128).toNat v hres h7 hs hbl (by omega) hrlo hrhi
      rw [hfin]
    · have henc : slebEnc (f + 1 + 1) v = ((v % 128).toNat + 128) :: slebEnc (f + 1) (v / 128) := by
        rw [slebEnc]; exact if_neg hterm
      rw [henc] at hfuel ⊢
      have hs56 : shift ≤ 56 := by
        apply Classical.byContradiction; intro hc
        have h63 : shift = 63 := by omega
        subst h63
        rw [e63] at hrlo hrhi; rw [e63i] at hrlo hrhi; rw [e63n] at hres
        omega
      have hPpos : 0 < 2 ^ shift := Nat.pos_of_ne_zero (by simp)
      have hP56 : 2 ^ shift ≤ 2 ^ 56 := Nat.pow_le_pow_right (by decide) hs56
      have h56 : (2 : Nat) ^ 56 = 72057594037927936 := by decide
      have h64 : (2 : Nat) ^ 64 = 18446744073709551616 := by decide
      have hbits : pre ++ bitsOfBytes (((v % 128).toNat + 128) :: slebEnc (f + 1) (v / 128)) ++ rest
          = pre ++ toBitsBE 8 ((v % 128).toNat + 128) ++ (bitsOfBytes (slebEnc (f + 1) (v / 128)) ++ rest) := by
        simp [bitsOfBytes, List.append_assoc]
      rw [hbits]
      unfold slebLoop
      rw [u8_at pre _ _ (by omega)]
      simp only [Res.bind]
      have hnot : ¬ (shift = 63 ∧ (v % 128).toNat + 128 ≠ 0 ∧ (v % 128).toNat + 128 ≠ 0x7f) := by omega
      rw [if_neg hnot, hbb.2.1, if_neg hbb.1]
      -- the accumulated value
      have hbP : (v % 128).toNat * 2 ^ shift ≤ 127 * 2 ^ shift := Nat.mul_le_mul_right _ (by omega)
      have hy : ((BitVec.ofNat 64 (v % 128).toNat) <<< shift).toNat = (v % 128).toNat * 2 ^ shift :=
        shl_toNat _ shift (by omega)
      have hr' := or_toNat_low result _ _ shift hy hres
      have hassoc : pre ++ toBitsBE 8 ((v % 128).toNat + 128) ++ (bitsOfBytes (slebEnc (f + 1) (v / 128)) ++ rest)
          = (pre ++ toBitsBE 8 ((v % 128).toNat + 128)) ++ bitsOfBytes (slebEnc (f + 1) (v / 128)) ++ rest := by
        simp [List.append_assoc]
      have hplen : (pre ++ toBitsBE 8 ((v % 128).toNat + 128)).length = pre.length + 8 := by simp [toBitsBE_length]
      rw [hassoc, ← hplen]
      have hcast : (((v % 128).toNat * 2 ^ shift : Nat) : Int) = (v % 128) * ((2 ^ shift : Nat) : Int) := by
        rw [Int.natCast_mul, Int.toNat_of_nonneg hb0]
      have hkey : ((result ||| (BitVec.ofNat 64 (v % 128).toNat) <<< shift).toNat : Int)
            + (v / 128) * ((2 ^ (shift + 7) : Nat) : Int)
          = (result.toNat : Int) + v * ((2 ^ shift : Nat) : Int) := by
        rw [hr', pow7 shift, Int.natCast_add, hcast, Int.natCast_mul]
        have hv : v = 128 * (v / 128) + v % 128 := by omega
        conv => rhs; rw [hv]
        exact lin128 _ _ _ _
      have hpow : (128 : Nat) ^ (f + 1) = 128 * 128 ^ f := by rw [Nat.pow_succ, Nat.mul_comm]
      rw [hpow] at hlo hhi
      have hlo' : -(64 * (128 ^ f : Nat) : Int) ≤ v / 128 := by
        have : ((128 * 128 ^ f : Nat) : Int) = 128 * ((128 ^ f : Nat) : Int) := by simp
        rw [this] at hlo; omega
      have hhi' : v / 128 < (64 * (128 ^ f : Nat) : Int) := by
        have : ((128 * 128 ^ f : Nat) : Int) = 128 * ((128 ^ f : Nat) : Int) := by simp
        rw [this] at hhi; omega
      have hres' : (result ||| (BitVec.ofNat 64 (v % 128).toNat) <<< shift).toNat < 2 ^ (shift + 7) := by
        rw [hr', pow7 shift]; omega
      have h7' : 7 ∣ shift + 7 := by omega
      rw [ih (v / 128) (pre ++ toBitsBE 8 ((v % 128).toNat + 128)) rest (shift + 7) _ fuel'
            hlo' hhi' (by simp at hfuel; omega) hres' h7' (by omega) (by rw [hkey]; exact hrlo) (by rw [hkey]; exact hrhi)]
      rw [hkey, hplen]
      simp only [List.length_cons]
      congr 1; omega


theorem bitsOfBytes_length (l : List Nat) : (bitsOfBytes l).length = 8 * l.length := by
  induction l with
  | nil => simp [bitsOfBytes]
  | cons a l ih =>
    simp only [bitsOfBytes, List.flatMap_cons, List.length_append, toBitsBE_length, List.length_cons] at *
    omega

theorem sleb_roundtrip (v : Int) (hlo : -(2 ^ 63 : Int) ≤ v) (hhi : v < (2 ^ 63 : Int)) (pre rest : Bits) :
    trySLEB128 (pre ++ bitsOfBytes (slebEnc 10 v) ++ rest) pre.length
      = .ok v (pre.length + 8 * (slebEnc 10 v).length) := by
  have e1 : ((128 ^ 9 : Nat) : Int) = 9223372036854775808 := by decide
  have e2 : (2 : Int) ^ 63 = 9223372036854775808 := by decide
  rw [e2] at hlo hhi
  have h := sleb_loop_enc 9 v pre rest 0 0#64
    (((pre ++ bitsOfBytes (slebEnc 10 v) ++ rest).length - pre.length) / 8 + 2)
    (by rw [e1]; omega) (by rw [e1]; omega)
    (by show (slebEnc 10 v).length ≤ _
        simp only [List.length_append, bitsOfBytes_length]; omega)
    (by simp) (by omega) (by omega)
    (by rw [e2]; simp; omega) (by rw [e2]; simp; omega)
  simp only [BitVec.toNat_ofNat, Nat.zero_mod, Nat.pow_zero, Int.natCast_zero, Int.natCast_one, Int.mul_one, Int.zero_add] at h
  simpa [trySLEB128] using h


/-- k continuation bytes are consumed one by one as long as the shift stays below 63 (signed loop) -/
theorem sleb_conts (cs : List Nat) : ∀ (pre tail : Bits) (shift : Nat) (result : BitVec 64) (fuel : Nat),
    (∀ c ∈ cs, 128 ≤ c ∧ c < 256) → shift + 7 * cs.length ≤ 63 →
    ∃ result', slebLoop (pre ++ bitsOfBytes cs ++ tail) (fuel + cs.length) pre.length shift result
      = slebLoop (pre ++ bitsOfBytes cs ++ tail) fuel (pre.length + 8 * cs.length) (shift + 7 * cs.length) result' := by
  induction cs with
  | nil => intro pre tail shift result fuel _ _; exact ⟨result, by simp⟩
  | cons c cs ih =>
    intro pre tail shift result fuel hc hs
    have hc0 := hc c (by simp)
    simp only [List.length_cons] at hs ⊢
    have hbits : pre ++ bitsOfBytes (c :: cs) ++ tail = pre ++ toBitsBE 8 c ++ (bitsOfBytes cs ++ tail) := by
      simp [bitsOfBytes, List.append_assoc]
    have hassoc : pre ++ toBitsBE 8 c ++ (bitsOfBytes cs ++ tail) = (pre ++ toBitsBE 8 c) ++ bitsOfBytes cs ++ tail := by
      simp [List.append_assoc]
    have hplen : (pre ++ toBitsBE 8 c).length = pre.length + 8 := by simp [toBitsBE_length]
    have hf : fuel + (cs.length + 1) = (fuel + cs.length) + 1 := by omega
    rw [hbits, hf]
    conv => enter [1, result', 1]; unfold slebLoop
    simp only [u8_at pre _ c hc0.2, Res.bind]
    have hnot : ¬ (shift = 63 ∧ c ≠ 0 ∧ c ≠ 0x7f) := by omega
    simp only [if_neg hnot, if_neg (cont_bit c hc0.2 hc0.1)]
    obtain ⟨r', hr'⟩ := ih (pre ++ toBitsBE 8 c) tail (shift + 7) (result ||| (BitVec.ofNat 64 (c &&& 127)) <<< shift) fuel
      (fun x hx => hc x (by simp [hx])) (by omega)
    refine ⟨r', ?_⟩
    rw [hassoc, ← hplen, hr', hplen]
    congr 1 <;> omega

end Proofs.C02
