import FqModel.Scalar
import Proofs.C02Int
import Proofs.C02Le
import Proofs.C02Leb
/-! C02 helper lemmas: text framing and the UTF-8 / UTF-16 codecs. Core Lean only. -/
namespace Proofs.C02
open FqModel FqModel.Scalar

theorem bytesLeft_eq (bs : Bits) (pos : Nat) (h : pos ≤ bs.length) :
    bytesLeft bs pos = (((bs.length - pos) / 8 : Nat) : Int) := by
  unfold bytesLeft
  rw [Int.tdiv_eq_ediv_of_nonneg (by omega)]
  omega

theorem tryBytesLen_ok (bs : Bits) (pos n : Nat) (h : pos + 8 * n ≤ bs.length) :
    tryBytesLen bs pos n = .ok (byteVals (slice bs pos (8 * n))) (pos + 8 * n) := by
  simp [tryBytesLen, tryBits_ok bs pos (8 * n) h, Res.map]

/-- fixed length text: n whole bytes at any bit alignment -/
theorem textFrame_ok (bs : Bits) (pos n : Nat) (h : pos + 8 * n ≤ bs.length) :
    tryTextFrame bs pos (n : Int) = .ok (byteVals (slice bs pos (8 * n))) (pos + 8 * n) := by
  unfold tryTextFrame
  have h1 : ¬ ((n : Int) < 0) := by omega
  have h2 : ¬ ((n : Int) > bytesLeft bs pos) := by rw [bytesLeft_eq bs pos (by omega)]; omega
  simp only [h1, h2, if_false, Int.toNat_natCast]
  exact tryBytesLen_ok bs pos n h

/-- length beyond the end: error, nothing consumed -/
theorem textFrame_short (bs : Bits) (pos n : Nat) (hp : pos ≤ bs.length) (h : bs.length < pos + 8 * n) :
    tryTextFrame bs pos (n : Int) = .err .other pos := by
  unfold tryTextFrame
  have h1 : ¬ ((n : Int) < 0) := by omega
  have h2 : (n : Int) > bytesLeft bs pos := by rw [bytesLeft_eq bs pos hp]; omega
  simp only [h1, h2, if_false, if_true]

theorem textFrame_negative (bs : Bits) (pos : Nat) (n : Int) (h : n < 0) : tryTextFrame bs pos n = .err .other pos := by
  simp [tryTextFrame, h]

/-- the search for the terminator: the offset found is on the grid, inside the input, and no unit
    before it on the grid is zero -/
theorem findZeroUnit_spec (bs : Bits) (unit : Nat) (hu : 0 < unit) : ∀ (fuel off r : Nat),
    findZeroUnit bs unit fuel off = some r →
    off ≤ r ∧ r + unit ≤ bs.length ∧ unit ∣ (r - off) ∧ ofBitsBE (slice bs r unit) = 0 ∧
    ∀ k, off + k * unit < r → ofBitsBE (slice bs (off + k * unit) unit) ≠ 0 := by
  intro fuel
  induction fuel with
  | zero => intro off r h; simp [findZeroUnit] at h
  | succ fuel ih =>
    intro off r h
    unfold findZeroUnit at h
    by_cases hin : off + unit ≤ bs.length
    · rw [if_pos hin] at h
      by_cases hz : ofBitsBE (slice bs off unit) = 0
      · rw [if_pos hz] at h
        have : r = off := by simpa using h.symm
        subst this
        refine ⟨Nat.le_refl _, hin, by simp, hz, ?_⟩
        intro k hk; omega
      · rw [if_neg hz] at h
        obtain ⟨h1, h2, h3, h4, h5⟩ := ih (off + unit) r h
        refine ⟨by omega, h2, ?_, h4, ?_⟩
        · obtain ⟨c, hc⟩ := h3
          exact ⟨c + 1, by rw [Nat.mul_add]; omega⟩
        · intro k hk
          cases k with
          | zero => simpa using hz
          | succ k =>
            have := h5 k (by rw [Nat.add_mul] at hk; omega)
            rw [Nat.add_mul, Nat.one_mul]
            have e : off + (k * unit + unit) = off + unit + k * unit := by omega
            rw [e]; exact this
    · rw [if_neg hin] at h; simp at h

theorem findZeroFrom_eq (bs : Bits) (unit : Nat) (hu : 0 < unit) : ∀ (fuel off : Nat),
    findZeroFrom unit fuel (bs.drop off) off = findZeroUnit bs unit fuel off := by
  intro fuel
  induction fuel with
  | zero => intro off; rfl
  | succ fuel ih =>
    intro off
    unfold findZeroFrom findZeroUnit
    have hlen : ((bs.drop off).take unit).length = unit ↔ off + unit ≤ bs.length := by
      simp only [List.length_take, List.length_drop]; omega
    have hsl : (bs.drop off).take unit = slice bs off unit := rfl
    have hdd : (bs.drop off).drop unit = bs.drop (off + unit) := by rw [List.drop_drop]
    by_cases hin : off + unit ≤ bs.length
    · rw [if_pos (hlen.mpr hin), if_pos hin, hsl, hdd, ih]
    · rw [if_neg (fun h => hin (hlen.mp h)), if_neg hin]

/-- null terminated text, terminator found: the bytes before the terminator, position after it -/
theorem textNull_found (bs : Bits) (pos cb off : Nat) (hcb : 1 ≤ cb)
    (hf : findZeroUnit bs (8 * cb) (bs.length + 1) pos = some off) :
    tryTextNullFrame bs pos cb
      = .ok ((byteVals (slice bs pos (8 * ((off - pos) / 8 + cb)))).take ((off - pos) / 8)) (off + 8 * cb) := by
  obtain ⟨h1, h2, h3, _, _⟩ := findZeroUnit_spec bs (8 * cb) (by omega) _ _ _ hf
  unfold tryTextNullFrame
  have : ¬ cb < 1 := by omega
  simp only [this, if_false, findZeroFrom_eq bs (8 * cb) (by omega), hf]
  have hdiv : 8 ∣ off - pos := Nat.dvd_trans ⟨cb, rfl⟩ h3
  have hlen : pos + 8 * ((off - pos) / 8 + cb) ≤ bs.length := by omega
  rw [tryBytesLen_ok bs pos _ hlen]
  simp only [Res.map]
  congr 1
  · congr 1; omega
  · omega

/-- null terminated text, no terminator before the end: error and the position is restored -/
theorem textNull_missing (bs : Bits) (pos cb : Nat) (hcb : 1 ≤ cb)
    (hf : findZeroUnit bs (8 * cb) (bs.length + 1) pos = none) :
    tryTextNullFrame bs pos cb = .err .eof pos := by
  unfold tryTextNullFrame
  have : ¬ cb < 1 := by omega
  simp only [this, if_false, findZeroFrom_eq bs (8 * cb) (by omega), hf]

/-- fixed length with optional null: always exactly `n` bytes consumed, cut at the first zero byte -/
theorem textNullLen_ok (bs : Bits) (pos n : Nat) (h : pos + 8 * n ≤ bs.length) :
    tryTextNullLenFrame bs pos (n : Int)
      = .ok ((byteVals (slice bs pos (8 * n))).takeWhile (· ≠ 0)) (pos + 8 * n) := by
  unfold tryTextNullLenFrame
  have h1 : ¬ ((n : Int) < 0) := by omega
  have h2 : ¬ ((n : Int) > bytesLeft bs pos) := by rw [bytesLeft_eq bs pos (by omega)]; omega
  simp only [h1, h2, if_false, Int.toNat_natCast, tryBytesLen_ok bs pos n h, Res.map]

/-- length prefixed (one length byte, no fixed field): value bytes = the `len` bytes after the prefix -/
theorem textShort_ok (bs : Bits) (pos : Nat) (h8 : pos + 8 ≤ bs.length)
    (h : pos + 8 + 8 * ofBitsBE (slice bs pos 8) ≤ bs.length) :
    tryTextLenPrefixedFrame bs pos 1 (-1)
      = .ok (byteVals (slice bs (pos + 8) (8 * ofBitsBE (slice bs pos 8)))) (pos + 8 + 8 * ofBitsBE (slice bs pos 8)) := by
  unfold tryTextLenPrefixedFrame
  have hb : ¬ ((-1 : Int) > bytesLeft bs pos) := by rw [bytesLeft_eq bs pos (by omega)]; omega
  simp only [show ¬ ((1 : Int) < 0) by decide, hb, if_false, show (1 : Int).toNat * 8 = 8 by decide,
    tryUintBits_ok bs pos 8 (by decide) h8, Res.bind, ne_eq, not_true_eq_false, if_false]
  have hneg : ¬ ((ofBitsBE (slice bs pos 8) : Int) < 0) := by omega
  simp only [hneg, if_false, Int.toNat_natCast, tryBytesLen_ok bs (pos + 8) _ h]
  congr 1
  apply List.take_of_length_le
  have hl := slice_length bs (pos + 8) (8 * ofBitsBE (slice bs pos 8)) (by omega)
  rw [byteVals_length _ (by rw [hl]; exact ⟨_, rfl⟩), hl]
  omega


/-- length prefixed, data shorter than the prefix says: error and the position is restored to the
    start of the prefix (read.go:176-178) -/
theorem textShort_restore (bs : Bits) (pos : Nat) (h8 : pos + 8 ≤ bs.length)
    (h : bs.length < pos + 8 + 8 * ofBitsBE (slice bs pos 8)) :
    tryTextLenPrefixedFrame bs pos 1 (-1) = .err .eof pos := by
  unfold tryTextLenPrefixedFrame
  have hb : ¬ ((-1 : Int) > bytesLeft bs pos) := by rw [bytesLeft_eq bs pos (by omega)]; omega
  simp only [show ¬ ((1 : Int) < 0) by decide, hb, if_false, show (1 : Int).toNat * 8 = 8 by decide,
    tryUintBits_ok bs pos 8 (by decide) h8, Res.bind, ne_eq, not_true_eq_false, if_false]
  have hneg : ¬ ((ofBitsBE (slice bs pos 8) : Int) < 0) := by omega
  have hpos : 0 < 8 * ofBitsBE (slice bs pos 8) := by omega
  simp only [hneg, if_false, Int.toNat_natCast, tryBytesLen, tryBits_short bs (pos + 8) _ hpos h, Res.map]

/-! ### UTF-8 -/

/-- Unicode scalar values -/
def isScalar (c : Nat) : Prop := c ≤ 0x10FFFF ∧ ¬ (0xD800 ≤ c ∧ c ≤ 0xDFFF)

instance (c : Nat) : Decidable (isScalar c) := by unfold isScalar; exact inferInstance

theorem utf8_one (f : Nat) (c : Nat) (hc : isScalar c) (rest : List Nat) :
    utf8Decode (f + 1) (utf8Encode c ++ rest) = (utf8Decode f rest).map (c :: ·) := by
  obtain ⟨hmax, hsur⟩ := hc
  unfold utf8Encode
  by_cases h1 : c < 0x80
  · simp only [h1, if_true, List.cons_append, List.nil_append, utf8Decode]
  · by_cases h2 : c < 0x800
    · simp only [h1, h2, if_true, if_false, List.cons_append, List.nil_append, utf8Decode]
      have a1 : ¬ (0xC0 + c / 64 < 0x80) := by omega
      have a2 : 0xC2 ≤ 0xC0 + c / 64 ∧ 0xC0 + c / 64 ≤ 0xDF := by omega
      have a3 : isCont (0x80 + c % 64) = true := by simp [isCont]; omega
      have a4 : (0xC0 + c / 64 - 0xC0) * 64 + (0x80 + c % 64 - 0x80) = c := by omega
      simp only [a1, a2, a3, a4, if_true, if_false, and_self]
    · by_cases h3 : c < 0x10000
      · simp only [h1, h2, h3, if_true, if_false, List.cons_append, List.nil_append, utf8Decode]
        have a1 : ¬ (0xE0 + c / 4096 < 0x80) := by omega
        have a2 : ¬ (0xC2 ≤ 0xE0 + c / 4096 ∧ 0xE0 + c / 4096 ≤ 0xDF) := by omega
        have a3 : 0xE0 ≤ 0xE0 + c / 4096 ∧ 0xE0 + c / 4096 ≤ 0xEF := by omega
        have a4 : isCont (0x80 + c / 64 % 64) = true := by simp [isCont]; omega
        have a5 : isCont (0x80 + c % 64) = true := by simp [isCont]; omega
        have a6 : (0xE0 + c / 4096 - 0xE0) * 4096 + (0x80 + c / 64 % 64 - 0x80) * 64 + (0x80 + c % 64 - 0x80) = c := by omega
        have a7 : c ≥ 0x800 := by omega
        simp only [a1, a2, a3, a4, a5, a6, a7, hsur, if_true, if_false, and_self, not_false_eq_true]
      · simp only [h1, h2, h3, if_false, List.cons_append, List.nil_append, utf8Decode]
        have a1 : ¬ (0xF0 + c / 262144 < 0x80) := by omega
        have a2 : ¬ (0xC2 ≤ 0xF0 + c / 262144 ∧ 0xF0 + c / 262144 ≤ 0xDF) := by omega
        have a3 : ¬ (0xE0 ≤ 0xF0 + c / 262144 ∧ 0xF0 + c / 262144 ≤ 0xEF) := by omega
        have a4 : 0xF0 ≤ 0xF0 + c / 262144 ∧ 0xF0 + c / 262144 ≤ 0xF4 := by omega
        have a5 : isCont (0x80 + c / 4096 % 64) = true := by simp [isCont]; omega
        have a6 : isCont (0x80 + c / 64 % 64) = true := by simp [isCont]; omega
        have a7 : isCont (0x80 + c % 64) = true := by simp [isCont]; omega
        have a8 : (0xF0 + c / 262144 - 0xF0) * 262144 + (0x80 + c / 4096 % 64 - 0x80) * 4096
            + (0x80 + c / 64 % 64 - 0x80) * 64 + (0x80 + c % 64 - 0x80) = c := by omega
        have a9 : c ≥ 0x10000 := by omega
        simp only [a1, a2, a3, a4, a5, a6, a7, a8, a9, hmax, if_true, if_false, and_self]

/-- UTF-8 round trip on code points: decoding the encoding of any list of scalar values gives it back -/
theorem utf8_roundtrip_list (cs : List Nat) (h : ∀ c ∈ cs, isScalar c) (f : Nat) (hf : cs.length < f) :
    utf8Decode f (cs.flatMap utf8Encode) = some cs := by
  induction cs generalizing f with
  | nil => cases f with
    | zero => simp at hf
    | succ f => simp [utf8Decode]
  | cons c cs ih =>
    obtain ⟨f', rfl⟩ : ∃ k, f = k + 1 := ⟨f - 1, by simp at hf; omega⟩
    simp only [List.flatMap_cons]
    rw [utf8_one f' c (h c (by simp)), ih (fun x hx => h x (by simp [hx])) f' (by simp at hf; omega)]
    rfl

/-- the replacement decoder copies a well-formed sequence unchanged -/
theorem utf8Replace_one (f : Nat) (c : Nat) (hc : isScalar c) (rest : List Nat) :
    utf8Replace (f + 1) (utf8Encode c ++ rest) = utf8Encode c ++ utf8Replace f rest := by
  obtain ⟨hmax, hsur⟩ := hc
  unfold utf8Encode
  by_cases h1 : c < 0x80
  · simp only [h1, if_true, List.cons_append, List.nil_append, utf8Replace]
  · by_cases h2 : c < 0x800
    · simp only [h1, h2, if_true, if_false, List.cons_append, List.nil_append, utf8Replace]
      have a1 : ¬ (0xC0 + c / 64 < 0x80) := by omega
      have a2 : utf8Size (0xC0 + c / 64) = 2 := by
        have : 0xC2 ≤ 0xC0 + c / 64 ∧ 0xC0 + c / 64 ≤ 0xDF := by omega
        simp only [utf8Size, this, and_self, if_true]
      have a3 : utf8Accept (0xC0 + c / 64) = (0x80, 0xBF) := by
        have b1 : ¬ (0xC0 + c / 64 = 0xE0) := by omega
        have b2 : ¬ (0xC0 + c / 64 = 0xED) := by omega
        have b3 : ¬ (0xC0 + c / 64 = 0xF0) := by omega
        have b4 : ¬ (0xC0 + c / 64 = 0xF4) := by omega
        simp only [utf8Accept, b1, b2, b3, b4, if_false]
      have a4 : 0x80 ≤ 0x80 + c % 64 ∧ 0x80 + c % 64 ≤ 0xBF := by omega
      simp only [a1, a2, a3, a4, if_true, if_false, and_self, Nat.succ_ne_zero]
    · by_cases h3 : c < 0x10000
      · simp only [h1, h2, h3, if_true, if_false, List.cons_append, List.nil_append, utf8Replace]
        have a1 : ¬ (0xE0 + c / 4096 < 0x80) := by omega
        have a2 : utf8Size (0xE0 + c / 4096) = 3 := by
          have n1 : ¬ (0xC2 ≤ 0xE0 + c / 4096 ∧ 0xE0 + c / 4096 ≤ 0xDF) := by omega
          have : 0xE0 ≤ 0xE0 + c / 4096 ∧ 0xE0 + c / 4096 ≤ 0xEF := by omega
          simp only [utf8Size, n1, this, and_self, if_true, if_false]
        have a3 : (utf8Accept (0xE0 + c / 4096)).1 ≤ 0x80 + c / 64 % 64 ∧ 0x80 + c / 64 % 64 ≤ (utf8Accept (0xE0 + c / 4096)).2 := by
          unfold utf8Accept
          by_cases e0 : 0xE0 + c / 4096 = 0xE0
          · simp only [e0, if_true]; omega
          · by_cases ed : 0xE0 + c / 4096 = 0xED
            · simp only [ed, if_true]; simp; omega
            · have b3 : ¬ (0xE0 + c / 4096 = 0xF0) := by omega
              have b4 : ¬ (0xE0 + c / 4096 = 0xF4) := by omega
              simp only [e0, ed, b3, b4, if_false]; omega
        have a5 : isCont (0x80 + c % 64) = true := by simp [isCont]; omega
        simp only [a1, a2, a3, a5, if_true, if_false, and_self]
        simp
      · simp only [h1, h2, h3, if_false, List.cons_append, List.nil_append, utf8Replace]
        have a1 : ¬ (0xF0 + c / 262144 < 0x80) := by omega
        have a2 : utf8Size (0xF0 + c / 262144) = 4 := by
          have n1 : ¬ (0xC2 ≤ 0xF0 + c / 262144 ∧ 0xF0 + c / 262144 ≤ 0xDF) := by omega
          have n2 : ¬ (0xE0 ≤ 0xF0 + c / 262144 ∧ 0xF0 + c / 262144 ≤ 0xEF) := by omega
          have : 0xF0 ≤ 0xF0 + c / 262144 ∧ 0xF0 + c / 262144 ≤ 0xF4 := by omega
          simp only [utf8Size, n1, n2, this, and_self, if_true, if_false]
        have a3 : (utf8Accept (0xF0 + c / 262144)).1 ≤ 0x80 + c / 4096 % 64 ∧ 0x80 + c / 4096 % 64 ≤ (utf8Accept (0xF0 + c / 262144)).2 := by
          unfold utf8Accept
          have b1 : ¬ (0xF0 + c / 262144 = 0xE0) := by omega
          have b2 : ¬ (0xF0 + c / 262144 = 0xED) := by omega
          by_cases f0 : 0xF0 + c / 262144 = 0xF0
          · simp only [b1, b2, f0, if_true, if_false]; simp; omega
          · by_cases f4 : 0xF0 + c / 262144 = 0xF4
            · simp only [b1, b2, f4, if_true, if_false]; simp; omega
            · simp only [b1, b2, f0, f4, if_false]; omega
        have a5 : isCont (0x80 + c / 64 % 64) = true := by simp [isCont]; omega
        have a6 : isCont (0x80 + c % 64) = true := by simp [isCont]; omega
        simp only [a1, a2, a3, a5, a6, if_true, if_false, and_self]
        simp

theorem utf8Replace_valid (cs : List Nat) (h : ∀ c ∈ cs, isScalar c) (f : Nat) (hf : cs.length < f) :
    utf8Replace f (cs.flatMap utf8Encode) = cs.flatMap utf8Encode := by
  induction cs generalizing f with
  | nil => cases f with
    | zero => simp at hf
    | succ f => simp [utf8Replace]
  | cons c cs ih =>
    obtain ⟨f', rfl⟩ : ∃ k, f = k + 1 := ⟨f - 1, by simp at hf; omega⟩
    simp only [List.flatMap_cons]
    rw [utf8Replace_one f' c (h c (by simp)), ih (fun x hx => h x (by simp [hx])) f' (by simp at hf; omega)]

/-! ### UTF-16 -/

/-- UTF-16 code units of a scalar value -/
def utf16Encode (c : Nat) : List Nat :=
  if c < 0x10000 then [c] else [0xD800 + (c - 0x10000) / 1024, 0xDC00 + (c - 0x10000) % 1024]

def unitsToBytes (le : Bool) : List Nat → List Nat
  | [] => []
  | u :: us => (if le then [u % 256, u / 256] else [u / 256, u % 256]) ++ unitsToBytes le us

theorem utf16_one (c : Nat) (hc : isScalar c) (rest : List Nat) :
    utf16Units (utf16Encode c ++ rest) = c :: utf16Units rest := by
  obtain ⟨hmax, hsur⟩ := hc
  unfold utf16Encode
  by_cases h1 : c < 0x10000
  · simp only [h1, if_true, List.cons_append, List.nil_append]
    cases rest with
    | nil => simp [utf16Units, hsur]
    | cons v r => simp [utf16Units, hsur]
  · simp only [h1, if_false, List.cons_append, List.nil_append]
    have a1 : 0xD800 ≤ 0xD800 + (c - 0x10000) / 1024 ∧ 0xD800 + (c - 0x10000) / 1024 ≤ 0xDFFF := by omega
    have a2 : 0xDC00 ≤ 0xDC00 + (c - 0x10000) % 1024 ∧ 0xDC00 + (c - 0x10000) % 1024 ≤ 0xDFFF := by omega
    have a3 : 0xD800 + (c - 0x10000) / 1024 ≤ 0xDBFF := by omega
    have a4 : 0x10000 + (0xD800 + (c - 0x10000) / 1024 - 0xD800) * 1024 + (0xDC00 + (c - 0x10000) % 1024 - 0xDC00) = c := by omega
    simp only [utf16Units, a1, a2, a3, a4, if_true, and_self]

theorem utf16_units_roundtrip (cs : List Nat) (h : ∀ c ∈ cs, isScalar c) :
    utf16Units (cs.flatMap utf16Encode) = cs := by
  induction cs with
  | nil => simp [utf16Units]
  | cons c cs ih =>
    simp only [List.flatMap_cons]
    rw [utf16_one c (h c (by simp)), ih (fun x hx => h x (by simp [hx]))]

theorem units16_bytes (le : Bool) (us : List Nat) (h : ∀ u ∈ us, u < 65536) :
    units16 le (unitsToBytes le us) = (us, false) := by
  induction us with
  | nil => simp [unitsToBytes, units16]
  | cons u us ih =>
    have hu := h u (by simp)
    have := ih (fun x hx => h x (by simp [hx]))
    cases le
    · simp only [unitsToBytes, Bool.false_eq_true, if_false, List.cons_append, List.nil_append, units16, this]
      congr 2; omega
    · simp only [unitsToBytes, if_true, List.cons_append, List.nil_append, units16, this]
      congr 2; omega

theorem utf16Encode_lt (c : Nat) (hc : isScalar c) : ∀ u ∈ utf16Encode c, u < 65536 := by
  obtain ⟨hmax, _⟩ := hc
  intro u hu
  unfold utf16Encode at hu
  by_cases h1 : c < 0x10000
  · simp [h1] at hu; omega
  · simp [h1] at hu; omega


/-! ### no reader of text can fault: the result is a string or an error, with a position rule -/

/-- the two acceptable ways for a reader to end -/
def noFault {α} : Res α → Prop
  | .ok _ _ => True
  | .err _ _ => True
  | _ => False

theorem tryBits_noFault (bs : Bits) (pos n : Nat) : noFault (tryBits bs pos n) := by
  unfold tryBits; split <;> (try split) <;> trivial

theorem tryBytesLen_cases (bs : Bits) (pos n : Nat) :
    (∃ fr, tryBytesLen bs pos n = .ok fr (pos + 8 * n)) ∨ (tryBytesLen bs pos n = .err .eof (max pos bs.length) ∧ 0 < n) := by
  unfold tryBytesLen tryBits
  by_cases h0 : 8 * n = 0
  · simp [h0, Res.map]
  · by_cases h1 : pos + 8 * n ≤ bs.length
    · simp [h0, h1, Res.map]
    · simp [h0, h1, Res.map]; omega

/-- fixed length: n bytes consumed, or an error with the position unchanged -/
theorem textFrame_cases (bs : Bits) (pos : Nat) (n : Int) (hp : pos ≤ bs.length) :
    (∃ fr, tryTextFrame bs pos n = .ok fr (pos + 8 * n.toNat)) ∨ tryTextFrame bs pos n = .err .other pos := by
  unfold tryTextFrame
  by_cases h1 : n < 0
  · simp [h1]
  · by_cases h2 : n > bytesLeft bs pos
    · simp [h1, h2]
    · simp only [h1, h2, if_false]
      rw [bytesLeft_eq bs pos hp] at h2
      have : pos + 8 * n.toNat ≤ bs.length := by omega
      exact Or.inl ⟨_, tryBytesLen_ok bs pos _ this⟩

theorem textNullLenFrame_cases (bs : Bits) (pos : Nat) (n : Int) (hp : pos ≤ bs.length) :
    (∃ fr, tryTextNullLenFrame bs pos n = .ok fr (pos + 8 * n.toNat)) ∨ tryTextNullLenFrame bs pos n = .err .other pos := by
  unfold tryTextNullLenFrame
  by_cases h1 : n < 0
  · simp [h1]
  · by_cases h2 : n > bytesLeft bs pos
    · simp [h1, h2]
    · simp only [h1, h2, if_false]
      rw [bytesLeft_eq bs pos hp] at h2
      have : pos + 8 * n.toNat ≤ bs.length := by omega
      exact Or.inl ⟨_, by rw [tryBytesLen_ok bs pos _ this]; rfl⟩

/-- null terminated: the terminator is consumed, or an error with the position restored -/
theorem textNullFrame_cases (bs : Bits) (pos cb : Nat) :
    (∃ fr off, tryTextNullFrame bs pos cb = .ok fr (off + 8 * cb) ∧ pos ≤ off ∧ off + 8 * cb ≤ bs.length)
    ∨ tryTextNullFrame bs pos cb = .err .eof pos ∨ tryTextNullFrame bs pos cb = .err .other pos := by
  by_cases hcb : cb < 1
  · simp [tryTextNullFrame, hcb]
  · cases hf : findZeroUnit bs (8 * cb) (bs.length + 1) pos with
    | none => exact Or.inr (Or.inl (textNull_missing bs pos cb (by omega) hf))
    | some off =>
      obtain ⟨h1, h2, _, _, _⟩ := findZeroUnit_spec bs (8 * cb) (by omega) _ _ _ hf
      exact Or.inl ⟨_, off, textNull_found bs pos cb off (by omega) hf, h1, h2⟩

/-- length prefixed (one length byte; no fixed field, or a fixed field of at least the prefix):
    prefix + data consumed, or an error — position restored if the data is short, at the end of the
    input if already the prefix is short, unchanged if the fixed field does not fit -/
theorem textLenPrefixedFrame_cases (bs : Bits) (pos : Nat) (fixed : Int) (hp : pos ≤ bs.length)
    (hfx : fixed = -1 ∨ 1 ≤ fixed) :
    (∃ fr p, tryTextLenPrefixedFrame bs pos 1 fixed = .ok fr p ∧ pos + 8 ≤ p ∧ p ≤ bs.length)
    ∨ tryTextLenPrefixedFrame bs pos 1 fixed = .err .eof pos
    ∨ tryTextLenPrefixedFrame bs pos 1 fixed = .err .other pos
    ∨ (tryTextLenPrefixedFrame bs pos 1 fixed = .err .eof bs.length ∧ bs.length < pos + 8) := by
  unfold tryTextLenPrefixedFrame
  simp only [show ¬ ((1 : Int) < 0) by decide, if_false, show (1 : Int).toNat * 8 = 8 by decide]
  by_cases hb : fixed > bytesLeft bs pos
  · simp [hb]
  · simp only [hb, if_false]
    by_cases h8 : pos + 8 ≤ bs.length
    · rw [tryUintBits_ok bs pos 8 (by decide) h8]
      simp only [Res.bind]
      rcases hfx with hm1 | hge
      · subst hm1
        simp only [ne_eq, not_true_eq_false, if_false]
        have hneg : ¬ ((ofBitsBE (slice bs pos 8) : Int) < 0) := by omega
        simp only [hneg, if_false, Int.toNat_natCast]
        rcases tryBytesLen_cases bs (pos + 8) (ofBitsBE (slice bs pos 8)) with ⟨fr, hfr⟩ | ⟨he, hpos⟩
        · by_cases hin : pos + 8 + 8 * ofBitsBE (slice bs pos 8) ≤ bs.length
          · rw [hfr]; exact Or.inl ⟨_, _, rfl, by omega, hin⟩
          · have := tryBits_short bs (pos + 8) (8 * ofBitsBE (slice bs pos 8)) (by omega) (by omega)
            simp [tryBytesLen, this, Res.map]
        · rw [he]; exact Or.inr (Or.inl rfl)
      · have hne : ¬ (fixed = -1) := by omega
        simp only [ne_eq, hne, not_false_eq_true, if_true]
        have hneg : ¬ (fixed - 1 < 0) := by omega
        simp only [hneg, if_false]
        rw [bytesLeft_eq bs pos hp] at hb
        have hin : pos + 8 + 8 * (fixed - 1).toNat ≤ bs.length := by omega
        rw [tryBytesLen_ok bs (pos + 8) _ hin]
        exact Or.inl ⟨_, _, rfl, by omega, hin⟩
    · have := tryUintBits_short bs pos 8 (by decide) (by decide) (by omega : bs.length < pos + 8)
      rw [this]
      simp only [Res.bind]
      have : max pos bs.length = bs.length := by omega
      rw [this]
      exact Or.inr (Or.inr (Or.inr ⟨rfl, by omega⟩))


/-! ### a null-terminated string of ANY length (no scan limit) -/

theorem chunks8_nil' (f : Nat) : chunks8 f [] = [] := by cases f <;> simp [chunks8]

theorem bitsOfBytes_cons (b : Nat) (l : List Nat) : bitsOfBytes (b :: l) = toBitsBE 8 b ++ bitsOfBytes l := by
  simp [bitsOfBytes]

theorem bitsOfBytes_len (l : List Nat) : (bitsOfBytes l).length = 8 * l.length := by
  induction l with
  | nil => simp [bitsOfBytes]
  | cons a l ih => rw [bitsOfBytes_cons, List.length_append, toBitsBE_length, ih, List.length_cons]; omega

/-- the terminator search over `txt ++ [0]` with no zero byte in txt ends exactly after txt, however long -/
theorem findZeroUnit_text (txt : List Nat) : ∀ (pre rest : Bits) (fuel : Nat),
    (∀ b ∈ txt, 0 < b ∧ b < 256) → txt.length < fuel →
    findZeroUnit (pre ++ bitsOfBytes (txt ++ [0]) ++ rest) 8 fuel pre.length = some (pre.length + 8 * txt.length) := by
  induction txt with
  | nil =>
    intro pre rest fuel _ hf
    obtain ⟨f, rfl⟩ : ∃ k, fuel = k + 1 := ⟨fuel - 1, by simp at hf; omega⟩
    have hsl : slice (pre ++ bitsOfBytes ([] ++ [0]) ++ rest) pre.length 8 = toBitsBE 8 0 := by
      have := slice_mid pre (toBitsBE 8 0) rest
      simpa [bitsOfBytes, toBitsBE_length] using this
    have hin : pre.length + 8 ≤ (pre ++ bitsOfBytes ([] ++ [0]) ++ rest).length := by
      simp [bitsOfBytes, toBitsBE_length]
    unfold findZeroUnit
    rw [if_pos hin, hsl, ofBitsBE_toBitsBE]
    simp
  | cons b t ih =>
    intro pre rest fuel hb hf
    obtain ⟨f, rfl⟩ : ∃ k, fuel = k + 1 := ⟨fuel - 1, by simp at hf; omega⟩
    have hb0 := hb b (by simp)
    have hbits : pre ++ bitsOfBytes ((b :: t) ++ [0]) ++ rest = pre ++ toBitsBE 8 b ++ (bitsOfBytes (t ++ [0]) ++ rest) := by
      simp [bitsOfBytes, List.append_assoc]
    have hsl : slice (pre ++ toBitsBE 8 b ++ (bitsOfBytes (t ++ [0]) ++ rest)) pre.length 8 = toBitsBE 8 b := by
      have := slice_mid pre (toBitsBE 8 b) (bitsOfBytes (t ++ [0]) ++ rest)
      rwa [toBitsBE_length] at this
    have hin : pre.length + 8 ≤ (pre ++ toBitsBE 8 b ++ (bitsOfBytes (t ++ [0]) ++ rest)).length := by
      simp [toBitsBE_length]
    rw [hbits]
    unfold findZeroUnit
    rw [if_pos hin, hsl, ofBitsBE_toBitsBE]
    have hne : ¬ (b % 2 ^ 8 = 0) := by
      have : b % 2 ^ 8 = b := Nat.mod_eq_of_lt (by simpa using hb0.2)
      omega
    rw [if_neg hne]
    have hassoc : pre ++ toBitsBE 8 b ++ (bitsOfBytes (t ++ [0]) ++ rest) = (pre ++ toBitsBE 8 b) ++ bitsOfBytes (t ++ [0]) ++ rest := by
      simp [List.append_assoc]
    have hplen : (pre ++ toBitsBE 8 b).length = pre.length + 8 := by simp [toBitsBE_length]
    rw [hassoc, ← hplen, ih (pre ++ toBitsBE 8 b) rest f (fun x hx => hb x (by simp [hx])) (by simp at hf; omega), hplen]
    simp only [List.length_cons]
    congr 1; omega

theorem chunks8_bitsOfBytes (l : List Nat) (hl : ∀ b ∈ l, b < 256) : ∀ f, l.length < f →
    (chunks8 f (bitsOfBytes l)).map ofBitsBE = l := by
  induction l with
  | nil => intro f _; simp [bitsOfBytes, chunks8_nil']
  | cons b t ih =>
    intro f hf
    obtain ⟨f', rfl⟩ : ∃ k, f = k + 1 := ⟨f - 1, by simp at hf; omega⟩
    have hb := hl b (by simp)
    rw [bitsOfBytes_cons]
    have hemp : (toBitsBE 8 b ++ bitsOfBytes t).isEmpty = false := by
      cases h : toBitsBE 8 b with
      | nil => have := toBitsBE_length 8 b; rw [h] at this; simp at this
      | cons x xs => simp
    have htk : (toBitsBE 8 b ++ bitsOfBytes t).take 8 = toBitsBE 8 b := by
      rw [List.take_append_of_le_length (by simp [toBitsBE_length])]
      exact List.take_of_length_le (by simp [toBitsBE_length])
    have hdr : (toBitsBE 8 b ++ bitsOfBytes t).drop 8 = bitsOfBytes t := by
      have h8 : (toBitsBE 8 b).length = 8 := toBitsBE_length 8 b
      have := List.drop_left (l₁ := toBitsBE 8 b) (l₂ := bitsOfBytes t)
      rwa [h8] at this
    simp only [chunks8, hemp, Bool.false_eq_true, if_false, htk, toBitsBE_length, Nat.sub_self, List.replicate_zero,
      List.append_nil, hdr, List.map_cons, ofBitsBE_toBitsBE]
    rw [ih (fun x hx => hl x (by simp [hx])) f' (by simp at hf; omega)]
    congr 1
    exact Nat.mod_eq_of_lt (by simpa using hb)

theorem byteVals_bitsOfBytes (l : List Nat) (hl : ∀ b ∈ l, b < 256) : byteVals (bitsOfBytes l) = l := by
  unfold byteVals bytesOf
  exact chunks8_bitsOfBytes l hl _ (by rw [bitsOfBytes_len]; omega)

end Proofs.C02
